import TplModel.Proofs.Encode
import TplModel.Proofs.ParseRoundTrip
/-! # Comment delimiters and string literals — helper lemmas for `Props/C14comments.lean` (C14)

* `ENC.encodeBody_marker`, `ENC.marker_infix_*`: the encoders write `/` and `*` verbatim, so the literal text of a
  string containing `/*`, `*/` or `//` contains these two characters, adjacent, between its quotes.
* `ENC.lexDefault_dq_then`, `…_sq_then`, `…_raw_then` (`lexString_ignores_comment_markers`): the string rules of the
  lexer have no comment mode.  Started at the opening quote of an encoded literal of ANY string, `EL.lexDefault`
  takes exactly the literal as one `.str` token whatever the body contains and whatever text follows the closing
  quote (for instance a `*/` further to the right).
* `EL.commentEnd_eq_none_iff`, `EL.lexAll_open_comment`, `EL.lexAll_open_comment_nl`, `EL.lex_one_open_comment`:
  outside a literal an unterminated `/*` stops the lexer with the error token, in both lexer modes.
Core-only. -/

namespace ENC
open EL

/-! ## the encoders write comment delimiters verbatim -/

theorem encodeBody_append (q : Char) (a b : List Char) : encodeBody q (a ++ b) = encodeBody q a ++ encodeBody q b := by
  induction a with
  | nil => rfl
  | cons c a ih => simp [encodeBody, ih]

theorem encodeChar_slash (q : Char) (hq : q = '"' ∨ q = '\'') : encodeChar q '/' = ['/'] := by
  rcases hq with rfl | rfl <;> decide

theorem encodeChar_star (q : Char) (hq : q = '"' ∨ q = '\'') : encodeChar q '*' = ['*'] := by
  rcases hq with rfl | rfl <;> decide

/-- a two-character marker made of `/` and `*` -/
def IsMarker (m : List Char) : Prop := m = ['/', '*'] ∨ m = ['*', '/'] ∨ m = ['/', '/']

theorem encodeBody_marker (q : Char) (hq : q = '"' ∨ q = '\'') (m : List Char) (hm : IsMarker m) :
    encodeBody q m = m := by
  rcases hm with rfl | rfl | rfl <;>
    simp [encodeBody, encodeChar_slash q hq, encodeChar_star q hq]

/-- the body of the quoted literal of `pre ++ m ++ post` is `body pre ++ m ++ body post` -/
theorem encodeBody_with_marker (q : Char) (hq : q = '"' ∨ q = '\'') (pre m post : List Char) (hm : IsMarker m) :
    encodeBody q (pre ++ m ++ post) = encodeBody q pre ++ m ++ encodeBody q post := by
  rw [encodeBody_append, encodeBody_append, encodeBody_marker q hq m hm]

theorem marker_infix_dq (pre m post : List Char) (hm : IsMarker m) : m <:+: encodeDQ (pre ++ m ++ post) := by
  refine ⟨'"' :: encodeBody '"' pre, encodeBody '"' post ++ ['"'], ?_⟩
  rw [encodeDQ, encodeBody_with_marker '"' (Or.inl rfl) pre m post hm]
  simp

theorem marker_infix_sq (pre m post : List Char) (hm : IsMarker m) : m <:+: encodeSQ (pre ++ m ++ post) := by
  refine ⟨'\'' :: encodeBody '\'' pre, encodeBody '\'' post ++ ['\''], ?_⟩
  rw [encodeSQ, encodeBody_with_marker '\'' (Or.inr rfl) pre m post hm]
  simp

theorem marker_infix_raw (pre m post : List Char) : m <:+: encodeRaw (pre ++ m ++ post) :=
  ⟨'`' :: pre, post ++ ['`'], by simp [encodeRaw]⟩

/-! ## the string rules have no comment mode -/

/-- inside a quoted literal `/` and `*` are ordinary body characters of the string rule -/
theorem strBody_slash (q : Char) (hq : q = '"' ∨ q = '\'') (f : Nat) (rest : List Char) :
    strBody q (f+1) ('/' :: rest) = (strBody q f rest).map (· + 1) :=
  strBody_lit q f '/' rest (by rcases hq with rfl | rfl <;> decide) (by decide)

theorem strBody_star (q : Char) (hq : q = '"' ∨ q = '\'') (f : Nat) (rest : List Char) :
    strBody q (f+1) ('*' :: rest) = (strBody q f rest).map (· + 1) :=
  strBody_lit q f '*' rest (by rcases hq with rfl | rfl <;> decide) (by decide)

theorem lexDefault_quoted_then (q : Char) (hq : q = '"' ∨ q = '\'') (s tail : List Char) :
    lexDefault (q :: (encodeBody q s ++ q :: tail)) =
      some (some (.str (String.ofList (q :: (encodeBody q s ++ [q])))), (encodeBody q s).length + 2, true) := by
  have h := strBody_encodeBody q hq s tail ((encodeBody q s ++ q :: tail).length + 1) (by simp; omega)
  rw [lexDefault_str q hq _ _ h]
  have : List.take ((encodeBody q s).length + 1 + 1) (q :: (encodeBody q s ++ q :: tail)) =
      q :: (encodeBody q s ++ [q]) := by
    have e : q :: (encodeBody q s ++ q :: tail) = (q :: (encodeBody q s ++ [q])) ++ tail := by simp
    rw [e, List.take_left' (by simp)]
  rw [this]

/-- **`lexString_ignores_comment_markers`, `"…"`.**  For every string `s` and every continuation `tail`, the lexer
    started at the opening quote takes exactly the literal as one string token. -/
theorem lexDefault_dq_then (s tail : List Char) :
    lexDefault (encodeDQ s ++ tail) = some (some (.str (String.ofList (encodeDQ s))), (encodeDQ s).length, true) := by
  have := lexDefault_quoted_then '"' (Or.inl rfl) s tail
  simpa [encodeDQ] using this

/-- … `'…'` -/
theorem lexDefault_sq_then (s tail : List Char) :
    lexDefault (encodeSQ s ++ tail) = some (some (.str (String.ofList (encodeSQ s))), (encodeSQ s).length, true) := by
  have := lexDefault_quoted_then '\'' (Or.inr rfl) s tail
  simpa [encodeSQ] using this

/-- … back-quoted (no back-quote in `s`) -/
theorem lexDefault_raw_then (s tail : List Char) (h : '`' ∉ s) :
    lexDefault (encodeRaw s ++ tail) = some (some (.str (String.ofList (encodeRaw s))), (encodeRaw s).length, true) := by
  have hn := takeWhileN_raw s tail h
  have e : encodeRaw s ++ tail = '`' :: (s ++ '`' :: tail) := by simp [encodeRaw]
  have ht : List.take (s.length + 2) ('`' :: (s ++ '`' :: tail)) = '`' :: (s ++ ['`']) := by
    have e2 : '`' :: (s ++ '`' :: tail) = ('`' :: (s ++ ['`'])) ++ tail := by simp
    rw [e2, List.take_left' (by simp)]
  rw [e]
  simp only [lexDefault, hn, mk_eq]
  simp [isLetter, ht, encodeRaw]

end ENC

namespace EL

/-! ## outside a literal: an unterminated `/*` -/

theorem commentEnd_eq_none_iff (t : List Char) : commentEnd t = none ↔ ¬ ['*', '/'] <:+: t := by
  induction t with
  | nil => simp [commentEnd]
  | cons c t ih =>
    by_cases h : c = '*' ∧ t.head? = some '/'
    · obtain ⟨rfl, h2⟩ := h
      cases t with
      | nil => simp at h2
      | cons d t =>
        simp at h2; subst h2
        simp only [commentEnd, reduceCtorEq, false_iff, Classical.not_not]
        exact ⟨[], t, rfl⟩
    · have hc : commentEnd (c :: t) = (commentEnd t).map (· + 1) :=
        commentEnd.eq_2 c t (fun tail h1 h2 => h ⟨h1, by simp [h2]⟩)
      rw [hc, Option.map_eq_none_iff, ih]
      constructor
      · intro hn hi
        rw [List.infix_cons_iff] at hi
        rcases hi with hp | hi
        · obtain ⟨r, hr⟩ := hp
          cases t with
          | nil => simp at hr
          | cons d t =>
            simp at hr
            exact h ⟨hr.1.symm, by simp [← hr.2.1]⟩
        · exact hn hi
      · intro hn hi
        exact hn (List.infix_cons hi)

theorem lexDefault_open_comment (t : List Char) (h : commentEnd t = none) : lexDefault ('/' :: '*' :: t) = none := by
  unfold lexDefault
  simp [h]

theorem lexNL_open_comment (t : List Char) (h : commentEnd t = none) : lexNL ('/' :: '*' :: t) = (none, 0, false) := by
  unfold lexNL
  simp [h]

/-- default mode at an unterminated `/*`: the error token, nothing after it is looked at -/
theorem lexAll_open_comment (f : Nat) (t : List Char) (acc : List Tok) (h : commentEnd t = none) :
    lexAll (f+1) false ('/' :: '*' :: t) acc = .ok (Tok.lexerr :: acc).reverse := by
  rw [lexAll]
  · simp only [Bool.false_eq_true, if_false, lexDefault_open_comment t h]
    have : ¬ (('/' :: '*' :: t).head!.toNat ≥ 128) := by show ¬ ('/'.toNat ≥ 128); decide
    simp only [this, if_false]
  · intro h; cases h

/-- NLSEMI mode (after an identifier, a literal, a closing bracket) hands over to the default mode -/
theorem lexAll_open_comment_nl (f : Nat) (t : List Char) (acc : List Tok) (h : commentEnd t = none) :
    lexAll (f+2) true ('/' :: '*' :: t) acc = .ok (Tok.lexerr :: acc).reverse := by
  rw [lexAll_nl (lexNL_open_comment t h)]
  exact lexAll_open_comment f t acc h

theorem lex_one_open_comment (t : List Char) (h : ¬ ['*', '/'] <:+: t) :
    lex (String.ofList ('1' :: ' ' :: '/' :: '*' :: ' ' :: t)) = .ok [.int "1", .lexerr] := by
  have hce : commentEnd (' ' :: t) = none := by
    rw [commentEnd_eq_none_iff]
    intro hi
    rw [List.infix_cons_iff] at hi
    rcases hi with ⟨r, hr⟩ | hi
    · simp at hr
    · exact h hi
  have h1 : lexDefault ('1' :: ' ' :: '/' :: '*' :: ' ' :: t) = some (some (.int "1"), 1, true) :=
    lexDefault_good (t := .int "1") (by decide) (Or.inr ⟨_, rfl⟩)
  have h2 : lexNL (' ' :: '/' :: '*' :: ' ' :: t) = (none, 1, true) := lexNL_space (by decide)
  have hf : 2 * ('1' :: ' ' :: '/' :: '*' :: ' ' :: t).length + 2 = (2 * t.length + 8) + 1 + 1 + 1 + 1 := by
    simp only [List.length_cons]; omega
  simp only [lex, String.toList_ofList, Bool.and_false, Bool.false_eq_true, if_false]
  rw [hf, lexAll_default h1, List.drop_one, List.tail_cons, lexAll_nl h2, List.drop_one, List.tail_cons,
    lexAll_open_comment_nl _ _ _ hce]
  rfl

theorem lex_open_comment (t : List Char) (h : ¬ ['*', '/'] <:+: t) :
    lex (String.ofList ('/' :: '*' :: t)) = .ok [.lexerr] := by
  have hce := (commentEnd_eq_none_iff t).2 h
  have hf : 2 * ('/' :: '*' :: t).length + 2 = (2 * t.length + 5) + 1 := by
    simp only [List.length_cons]; omega
  simp only [lex, String.toList_ofList, Bool.and_false, Bool.false_eq_true, if_false]
  rw [hf, lexAll_open_comment _ _ _ hce]
  rfl

end EL
