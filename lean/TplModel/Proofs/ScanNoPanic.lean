import TplModel.Proofs.ScanConcat
namespace HS

def NoStart : Mode → Prop
  | .tag l => l.st ≠ .tagStart
  | _ => True

def isPanic : Except Err S → Bool
  | .error (.panic _) => true
  | _ => false

theorem stepAttrName_ok_nostart (s : S) (l : TagL) (c : Char) (p p' : Pos) (s' : S) (hst : l.st = .attrName)
    (h : stepTag.stepAttrName s l c p p' = .ok s') : NoStart s'.mode := by
  unfold stepTag.stepAttrName at h
  simp only at h
  repeat' split at h
  all_goals (try (simp only [Except.ok.injEq, reduceCtorEq] at h))
  all_goals (try subst h)
  all_goals (try (have hh := addAttr_ok ‹addAttr _ _ = Except.ok _›; subst hh))
  all_goals (simp_all [NoStart, finishTag, S.emit])

theorem addAttr_err {l : TagL} {a : Attr} {e : Err} (h : addAttr l a = .error e) : e = .dupAttr := by
  unfold addAttr at h
  split at h <;> simp_all

macro "nopanic_tac" : tactic => `(tactic| (
  all_goals (try (have hh := addAttr_err ‹addAttr _ _ = Except.error _›; subst hh))
  all_goals (first | rfl | simp_all [isPanic])))

theorem stepAttrName_no_panic (s : S) (l : TagL) (c : Char) (p p' : Pos) :
    isPanic (stepTag.stepAttrName s l c p p') = false := by
  unfold stepTag.stepAttrName
  simp only
  repeat' split
  nopanic_tac

theorem stepTag_no_panic (s : S) (l0 : TagL) (c : Char) (p p' : Pos) (h : l0.st = .tagStart → c = '<') :
    isPanic (stepTag s l0 c p p') = false := by
  unfold stepTag
  simp only
  cases hst : l0.st <;> simp only [hst]
  case attrName => exact stepAttrName_no_panic ..
  case space =>
    repeat' split
    all_goals (first | exact stepAttrName_no_panic .. | rfl | simp_all [isPanic])
  case tagStart => simp [h hst, isPanic]
  all_goals (
    repeat' split
    nopanic_tac)

theorem stepTag_ok_nostart (s : S) (l0 : TagL) (c : Char) (p p' : Pos) (s' : S)
    (h : stepTag s l0 c p p' = .ok s') : NoStart s'.mode := by
  unfold stepTag at h
  simp only at h
  cases hst : l0.st <;> simp only [hst] at h
  case attrName => exact stepAttrName_ok_nostart s _ c p p' s' (by simp [hst]) h
  case space =>
    by_cases h1 : c = '>'
    · simp only [h1, if_true] at h; simp only [Except.ok.injEq] at h; subst h; simp [NoStart, finishTag, S.emit]
    · by_cases h2 : isSpace c = true
      · simp only [h1, h2, if_false] at h; simp at h; subst h; simp [NoStart]
      · simp only [h1, h2, if_false] at h; simp at h
        exact stepAttrName_ok_nostart s _ c p p' s' (by simp) h
  all_goals (
    repeat' split at h
    all_goals (try (simp only [Except.ok.injEq, reduceCtorEq] at h))
    all_goals (try subst h)
    all_goals (try (have hh := addAttr_ok ‹addAttr _ _ = Except.ok _›; subst hh))
    all_goals (simp_all [NoStart, finishTag, S.emit]))

theorem sum_append_map (f : Char → Nat) (a b : List Char) : ((a ++ b).map f).sum = (a.map f).sum + (b.map f).sum := by
  simp

theorem stepText_no_panic (s : S) (l : TextL) (c : Char) (p p' : Pos) (hwf : WFtext l) :
    isPanic (stepText s l c p p') = false := by
  unfold stepText
  cases hraw : l.raw with
  | none =>
    simp only
    split
    · exact stepTag_no_panic _ _ _ _ _ (fun _ => by assumption)
    · rfl
  | some tn =>
    simp only [WFtext, hraw] at hwf
    obtain ⟨rest, hrest⟩ := hwf
    simp only
    by_cases hc : c = '<'
    · subst hc
      simp only [if_true, Bool.not_true, Bool.false_eq_true, if_false]
      repeat' split
      all_goals (first | rfl | simp_all [isPanic])
    · simp only [hc, if_false]
      repeat' split
      all_goals (first | rfl | (simp_all [isPanic]; (have h1 : ('>' : Char).utf8Size = 1 := by decide); omega))

theorem stepText_ok_nostart (s : S) (l : TextL) (c : Char) (p p' : Pos) (s' : S)
    (h : stepText s l c p p' = .ok s') : NoStart s'.mode := by
  unfold stepText at h
  cases hraw : l.raw with
  | none =>
    simp only [hraw] at h
    split at h
    · exact stepTag_ok_nostart _ _ _ _ _ s' h
    · simp only [Except.ok.injEq] at h; subst h; simp [NoStart]
  | some tn =>
    simp only [hraw] at h
    repeat' split at h
    all_goals (try (simp only [Except.ok.injEq, reduceCtorEq] at h))
    all_goals (try subst h)
    all_goals (simp_all [NoStart, S.emit])

/-- invariant carried along the fold for the no-panic argument -/
def Inv2 (s : S) : Prop := WF s.mode ∧ NoStart s.mode

theorem step_no_panic (cfg : Cfg) (s : S) (c : Char) (hi : Inv2 s) : isPanic (step cfg s c) = false := by
  obtain ⟨hwf, hns⟩ := hi
  unfold step
  cases hm : s.mode with
  | init =>
    simp only
    split
    · rename_i hc
      simp only [Bool.and_eq_true, decide_eq_true_eq] at hc
      exact stepTag_no_panic _ _ _ _ _ (fun _ => hc.1)
    · refine stepText_no_panic _ _ _ _ _ ?_
      simp only [WFtext]; split <;> simp
  | text l => simp only [hm, WF] at hwf; exact stepText_no_panic _ _ _ _ _ hwf
  | tag l =>
    simp only [hm, NoStart] at hns
    exact stepTag_no_panic _ _ _ _ _ (fun h => absurd h hns)

theorem step_inv2 (cfg : Cfg) (s s' : S) (c : Char) (hi : Inv2 s) (h : step cfg s c = .ok s') : Inv2 s' := by
  refine ⟨(step_inv cfg s s' c _ ⟨rfl, hi.1⟩ h).2, ?_⟩
  unfold step at h
  cases hm : s.mode with
  | init =>
    simp only [hm] at h
    split at h
    · exact stepTag_ok_nostart _ _ _ _ _ s' h
    · exact stepText_ok_nostart _ _ _ _ _ s' h
  | text l => simp only [hm] at h; exact stepText_ok_nostart _ _ _ _ _ s' h
  | tag l => simp only [hm] at h; exact stepTag_ok_nostart _ _ _ _ _ s' h

theorem fold_no_panic (cfg : Cfg) (cs : List Char) (s : S) (hi : Inv2 s) :
    isPanic (cs.foldlM (step cfg) s) = false := by
  induction cs generalizing s with
  | nil => simp [List.foldlM, pure, Except.pure, isPanic]
  | cons c cs ih =>
    simp only [List.foldlM, bind, Except.bind]
    have hp := step_no_panic cfg s c hi
    cases hs : step cfg s c with
    | error e => cases e <;> simp_all [isPanic]
    | ok s1 => exact ih s1 (step_inv2 cfg s s1 c hi hs)

/-- C08 for the HTML scanner: for every input and configuration the scan ends in a token list or an
    error value — the two panic points of scan_html.go (`unexpected state`, `Truncate` out of range)
    are unreachable. -/
theorem scan_no_panic (cfg : Cfg) (cs : List Char) : ∀ site, scan cfg cs ≠ .error (.panic site) := by
  intro site h
  unfold scan at h
  simp only [bind, Except.bind] at h
  have hp := fold_no_panic cfg cs { mode := .init, pos := ⟨1,1⟩, toks := [] } (by simp [Inv2, WF, NoStart])
  cases hf : cs.foldlM (step cfg) { mode := .init, pos := ⟨1,1⟩, toks := [] } with
  | error e => rw [hf] at h hp; cases h; simp [isPanic] at hp
  | ok s =>
    rw [hf] at h
    simp only [finish] at h
    split at h <;> simp at h

end HS
