import TplModel.Html.Engine
import TplModel.Proofs.RenderRefineBase
import TplModel.Proofs.RenderSpec
import TplModel.Proofs.ScanConcat
import TplModel.Proofs.ScanAttrPos
import TplModel.Proofs.AttrProofs
/-! # The loader (`EN.buildTree`, `EN.annotate`, `EN.addDefined`, `EN.addFile`): helper lemmas

Everything about a tree is read off its *document-order flattening* `EN.flatD` (start entry `inl d` of every node,
`inr v` for the end tag of a closed element).  `EN.assemble` (ParseTokens) appends exactly one entry per token to the
flattening of its state (`stepItem_stateD`), which gives at once: ids strictly increasing (hence `Nodup`), nothing
dropped / duplicated / reordered, and every node's data is the data compiled from its token. -/
set_option linter.unusedSimpArgs false
set_option linter.unusedVariables false
namespace EN
open RN (CAttr Part NodeD Node NK)

/-! ## document-order flattening -/

abbrev Entry := NodeD ⊕ String

def endE : Option String → List Entry
  | some v => [.inr v]
  | none => []

mutual
/-- pre-order flattening: the data of every node (`inl`), the end value of every closed element (`inr`) -/
def flatD : Node → List Entry
  | .mk d kids e => .inl d :: (flatDL kids ++ endE e)
def flatDL : List Node → List Entry
  | [] => []
  | k :: ks => flatD k ++ flatDL ks
end

theorem flatDL_append (a b : List Node) : flatDL (a ++ b) = flatDL a ++ flatDL b := by
  induction a with
  | nil => simp [flatDL]
  | cons x xs ih => simp [flatDL, ih]

theorem flatDL_singleton (x : Node) : flatDL [x] = flatD x := by simp [flatDL]

/-- flattening of the open elements, outermost first -/
def stackD : List Frame → List Entry
  | [] => []
  | fr :: rest => stackD rest ++ flatDL fr.before.reverse ++ [.inl fr.d]

/-- flattening of the state of ParseTokens -/
def stateD (bs : BS) : List Entry := stackD bs.stack ++ flatDL bs.cur.reverse

/-- the entry a token appends -/
def emitOf (bs : BS) (it : Item) : Entry :=
  match it.act, bs.stack with
  | .close, _ :: _ => .inr it.d.value
  | _, _ => .inl it.d

theorem stepItem_stateD (bs : BS) (it : Item) : stateD (stepItem bs it) = stateD bs ++ [emitOf bs it] := by
  unfold stepItem emitOf stateD
  cases hact : it.act
  · simp [flatDL_append, flatDL_singleton, flatD, flatDL, endE]
  · simp [stackD, flatDL]
  · cases hs : bs.stack with
    | nil => simp [flatDL_append, flatDL_singleton, flatD, flatDL, endE, stackD]
    | cons fr rest => simp [flatDL_append, flatDL_singleton, flatD, flatDL, endE, stackD]

/-- entries appended by a run of ParseTokens -/
def emits : BS → List Item → List Entry
  | _, [] => []
  | bs, it :: rest => emitOf bs it :: emits (stepItem bs it) rest

theorem foldl_stateD (items : List Item) (bs : BS) : stateD (items.foldl stepItem bs) = stateD bs ++ emits bs items := by
  induction items generalizing bs with
  | nil => simp [emits]
  | cons it rest ih => simp [List.foldl, ih, stepItem_stateD, emits]

theorem closeAll_flat (stack : List Frame) (cur : List Node) :
    flatDL (closeAll stack cur).reverse = stackD stack ++ flatDL cur.reverse := by
  induction stack generalizing cur with
  | nil => simp [closeAll, stackD]
  | cons fr rest ih => simp [closeAll, ih, stackD, flatDL_append, flatDL_singleton, flatD, flatDL, endE]

theorem assemble_kids_flat (items : List Item) : flatDL (assemble items).kids = emits ⟨[], []⟩ items := by
  simp only [assemble, Node.kids, closeAll_flat]
  have := foldl_stateD items ⟨[], []⟩
  simp only [stateD, stackD, List.reverse_nil, flatDL, List.nil_append] at this
  exact this

theorem assemble_d (items : List Item) : (assemble items).d = rootD := rfl
theorem assemble_endVal (items : List Item) : (assemble items).endVal = none := rfl

/-! ## `sortedAttrs` produces the documented order -/

def wlt (x y : Int × Int) : Prop := x.1 < y.1 ∨ (x.1 = y.1 ∧ x.2 < y.2)
def wle (x y : Int × Int) : Prop := x.1 < y.1 ∨ (x.1 = y.1 ∧ x.2 ≤ y.2)

theorem ltW_iff (cfg : Cfg) (a b : CAttr) : ltW cfg a b = true ↔ wlt (weight cfg a) (weight cfg b) := by
  simp [ltW, wlt]

theorem insertA_perm (cfg : Cfg) (a : CAttr) (l : List CAttr) : (insertA cfg a l).Perm (a :: l) := by
  induction l with
  | nil => simp [insertA]
  | cons b bs ih =>
    simp only [insertA]
    split
    · exact List.Perm.refl _
    · exact (List.Perm.cons b ih).trans (List.Perm.swap a b bs)

theorem foldl_insertA_perm (cfg : Cfg) (l acc : List CAttr) :
    (l.foldl (fun acc a => insertA cfg a acc) acc).Perm (acc ++ l) := by
  induction l generalizing acc with
  | nil => simp
  | cons a l ih =>
    simp only [List.foldl]
    refine (ih _).trans ?_
    refine ((insertA_perm cfg a acc).append_right l).trans ?_
    simpa using (List.perm_middle (a := a) (l₁ := acc) (l₂ := l)).symm

theorem sortedAttrs_perm (cfg : Cfg) (l : List CAttr) : (sortedAttrs cfg l).Perm l := by
  simpa [sortedAttrs] using foldl_insertA_perm cfg l []

theorem insertA_sorted (cfg : Cfg) (a : CAttr) (l : List CAttr)
    (h : l.Pairwise (fun x y => wle (weight cfg x) (weight cfg y))) :
    (insertA cfg a l).Pairwise (fun x y => wle (weight cfg x) (weight cfg y)) := by
  induction l with
  | nil => simp [insertA]
  | cons b bs ih =>
    simp only [insertA]
    obtain ⟨hb, hbs⟩ := List.pairwise_cons.mp h
    by_cases hlt : ltW cfg a b = true
    · simp only [hlt, if_true]
      refine List.pairwise_cons.mpr ⟨?_, h⟩
      intro x hx
      have h1 := (ltW_iff cfg a b).mp hlt
      rcases List.mem_cons.mp hx with rfl | hx
      · unfold wlt at h1; unfold wle; omega
      · have h2 := hb x hx
        unfold wlt at h1; unfold wle at h2 ⊢; omega
    · simp only [hlt, if_false]
      refine List.pairwise_cons.mpr ⟨?_, ih hbs⟩
      intro x hx
      have hx' := (insertA_perm cfg a bs).mem_iff.mp hx
      rcases List.mem_cons.mp hx' with rfl | hx'
      · have h1 : ¬ wlt (weight cfg x) (weight cfg b) := fun hh => hlt ((ltW_iff cfg x b).mpr hh)
        unfold wlt at h1; unfold wle; omega
      · exact hb x hx'

theorem foldl_insertA_sorted (cfg : Cfg) (l acc : List CAttr)
    (h : acc.Pairwise (fun x y => wle (weight cfg x) (weight cfg y))) :
    (l.foldl (fun acc a => insertA cfg a acc) acc).Pairwise (fun x y => wle (weight cfg x) (weight cfg y)) := by
  induction l generalizing acc with
  | nil => simpa using h
  | cons a l ih => exact ih _ (insertA_sorted cfg a acc h)

/-- the result of `sortedAttrs` is sorted by weight -/
theorem sortedAttrs_sorted (cfg : Cfg) (l : List CAttr) :
    (sortedAttrs cfg l).Pairwise (fun x y => wle (weight cfg x) (weight cfg y)) :=
  foldl_insertA_sorted cfg l [] List.Pairwise.nil

/-- the weight of a directive name, as `EN.weight` computes it -/
def wOf (cmd : String) : Int := ((Facts.attrWeights.find? (·.1 == cmd)).map (·.2)).getD 0

theorem find_eq_lookup (cmd : String) (l : List (String × Int)) :
    (l.find? (·.1 == cmd)).map (·.2) = l.lookup cmd := by
  induction l with
  | nil => rfl
  | cons kv rest ih =>
    obtain ⟨k, v⟩ := kv
    simp only [List.find?, List.lookup]
    by_cases h : k = cmd
    · subst h; simp
    · have h1 : (k == cmd) = false := by simpa using h
      have h2 : (cmd == k) = false := by simpa using fun e => h e.symm
      simp only [h1, h2, ih]

/-- `EN.weight` reads the same table as the `AT` model of `SortedAttr` -/
theorem wOf_eq_wlookup (cmd : String) : wOf cmd = AT.wlookup cmd := by
  unfold wOf AT.wlookup; rw [find_eq_lookup]

theorem weight_eq (cfg : Cfg) (a : CAttr) :
    weight cfg a = if a.name.startsWith cfg.attrPrefix then (0, wOf (RN.dropPrefix a.name cfg.attrPrefix)) else (1, 0) := rfl

/-- rank (phase of processTagStart) as a function of the weight -/
def rankW (w : Int × Int) : Nat :=
  if w.1 = 0 then (if w.2 = -4 then 0 else if w.2 = -3 then 1 else if w.2 = -2 then 2 else 3) else 3

theorem weight_bounds (cfg : Cfg) (a : CAttr) :
    ((weight cfg a).1 = 0 ∧ -4 ≤ (weight cfg a).2 ∧ (weight cfg a).2 ≤ 0) ∨ (weight cfg a = (1, 0)) := by
  rw [weight_eq]
  split
  · left
    have := AT.wlookup_bounds (RN.dropPrefix a.name cfg.attrPrefix)
    rw [← wOf_eq_wlookup] at this
    exact ⟨rfl, this.1, this.2⟩
  · right; rfl

theorem rankW_mono (cfg : Cfg) (a b : CAttr) (h : wle (weight cfg a) (weight cfg b)) :
    rankW (weight cfg a) ≤ rankW (weight cfg b) := by
  have ha := weight_bounds cfg a
  have hb := weight_bounds cfg b
  unfold wle at h
  unfold rankW
  rcases ha with ha | ha <;> rcases hb with hb | hb
  · (repeat' split) <;> omega
  · rw [hb]; simp; (repeat' split) <;> omega
  · rw [ha] at h ⊢; simp at h ⊢; omega
  · rw [ha, hb]; simp

theorem rank_eq_rankW (cfg : Cfg) (a : CAttr) : RN.rank (rcfgOf cfg) a = rankW (weight cfg a) := by
  rw [weight_eq]
  unfold RN.rank RN.classify rcfgOf
  by_cases hp : a.name.startsWith cfg.attrPrefix = true
  · simp only [hp, if_true]
    generalize RN.dropPrefix a.name cfg.attrPrefix = cmd
    obtain ⟨h1, h2, h3, h4, h5⟩ := AT.wl_iff cmd
    rw [← wOf_eq_wlookup] at h1 h2 h3 h4 h5
    unfold rankW
    simp only [if_true]
    by_cases c1 : cmd = "with"
    · subst c1
      have w := h1.mpr rfl
      simp [w]
    · have w1 : wOf cmd ≠ -4 := fun e => c1 (h1.mp e)
      simp only [c1, w1, if_false]
      by_cases c2 : cmd ∈ AT.condNames
      · have w2 := h2.mpr c2
        simp only [AT.condNames, List.mem_cons, List.not_mem_nil, or_false] at c2
        rcases c2 with rfl | rfl | rfl | rfl | rfl <;> simp [w2]
      · have w2 : wOf cmd ≠ -3 := fun e => c2 (h2.mp e)
        simp only [AT.condNames, List.mem_cons, List.not_mem_nil, or_false, not_or] at c2
        obtain ⟨d1, d2, d3, d4, d5⟩ := c2
        simp only [d1, d2, d3, d4, d5, w2, if_false, decide_false, Bool.or_false, Bool.false_eq_true]
        by_cases c3 : cmd = "range"
        · subst c3
          have w := h3.mpr rfl
          simp [w]
        · have w3 : wOf cmd ≠ -2 := fun e => c3 (h3.mp e)
          simp only [c3, w3, if_false]
          by_cases e1 : cmd = "remove"
          · simp [e1]
          by_cases e2 : cmd = "text"
          · simp [e2]
          by_cases e3 : cmd = "raw"
          · simp [e3]
          by_cases e4 : cmd = "define"
          · simp [e4]
          by_cases e5 : cmd = "replace"
          · simp [e5]
          by_cases e6 : cmd = "insert"
          · simp [e6]
          simp [e1, e2, e3, e4, e5, e6]
  · simp only [hp]
    simp [rankW]

theorem classify_with_name (cfg : RN.Cfg) (a : CAttr) (h : RN.rank cfg a = 0) : a.name = cfg.attrPrefix ++ "with" := by
  have hc := RN.rank_zero.mp h
  unfold RN.classify at hc
  by_cases hp : a.name.startsWith cfg.attrPrefix = true
  · simp only [hp, if_true] at hc
    by_cases c1 : RN.dropPrefix a.name cfg.attrPrefix = "with"
    · have hpre := String.startsWith_string_iff.mp hp
      obtain ⟨t, ht⟩ := hpre
      apply String.toList_inj.mp
      rw [String.toList_append, ← ht]
      congr 1
      have : (RN.dropPrefix a.name cfg.attrPrefix).toList = t := by
        simp only [RN.dropPrefix, ← ht, String.toList_ofList]
        rw [← String.length_toList, List.drop_left]
      rw [← this, c1]
    · simp only [c1, if_false] at hc
      exfalso
      revert hc
      (repeat' split) <;> simp
  · simp [hp] at hc

/-- sorted by rank, and attribute names pairwise distinct ⟹ the documented order -/
theorem orderFrom_of_pairwise (cfg : RN.Cfg) : ∀ (l : List CAttr) (r : Nat), (∀ a ∈ l, r ≤ RN.rank cfg a) →
    l.Pairwise (fun a b => RN.rank cfg a ≤ RN.rank cfg b ∧ a.name ≠ b.name) → RN.orderFrom cfg r l = true
  | [], _, _, _ => rfl
  | a :: rest, r, hr, hp => by
    obtain ⟨ha, hrest⟩ := List.pairwise_cons.mp hp
    simp only [RN.orderFrom, Bool.and_eq_true, decide_eq_true_eq]
    refine ⟨hr a (by simp), orderFrom_of_pairwise cfg rest _ ?_ hrest⟩
    intro b hb
    obtain ⟨h1, h2⟩ := ha b hb
    split
    · rename_i h0
      by_cases hb0 : RN.rank cfg b = 0
      · exact absurd ((classify_with_name cfg a h0).trans (classify_with_name cfg b hb0).symm) h2
      · omega
    · exact h1

/-- **`sortedAttrs` establishes `OrderOK`** whenever the attribute names of the tag are pairwise distinct
    (`Tag.AddAttr` rejects duplicates: `HS.attr_names_nodup`). -/
theorem sortedAttrs_orderOK (cfg : Cfg) (l : List CAttr) (hnd : (l.map (·.name)).Nodup) :
    RN.OrderOK (rcfgOf cfg) (sortedAttrs cfg l) := by
  unfold RN.OrderOK
  apply orderFrom_of_pairwise _ _ 0 (fun _ _ => Nat.zero_le _)
  have h1 := sortedAttrs_sorted cfg l
  have h2 : (sortedAttrs cfg l).Pairwise (fun a b => a.name ≠ b.name) := by
    have : ((sortedAttrs cfg l).map (·.name)).Nodup := ((sortedAttrs_perm cfg l).map _).nodup_iff.mpr hnd
    exact List.pairwise_map.mp this
  refine (h1.and h2).imp ?_
  intro a b hab
  refine ⟨?_, hab.2⟩
  rw [rank_eq_rankW, rank_eq_rankW]
  exact rankW_mono cfg a b hab.1

/-! ## element-wise related lists -/

inductive Aligned {α β : Type} (R : α → β → Prop) : List α → List β → Prop
  | nil : Aligned R [] []
  | cons {a b as bs} : R a b → Aligned R as bs → Aligned R (a :: as) (b :: bs)

theorem Aligned.mem_right {α β : Type} {R : α → β → Prop} {as : List α} {bs : List β} (h : Aligned R as bs) {b : β}
    (hb : b ∈ bs) : ∃ a ∈ as, R a b := by
  induction h with
  | nil => cases hb
  | cons hr _ ih =>
    rcases List.mem_cons.mp hb with rfl | hb
    · exact ⟨_, by simp, hr⟩
    · obtain ⟨a, ha, hab⟩ := ih hb
      exact ⟨a, by simp [ha], hab⟩

theorem Aligned.imp_mem {α β : Type} {R S : α → β → Prop} {as : List α} {bs : List β} (h : Aligned R as bs)
    (himp : ∀ a b, a ∈ as → b ∈ bs → R a b → S a b) : Aligned S as bs := by
  induction h with
  | nil => exact .nil
  | cons hr _ ih =>
    refine .cons (himp _ _ (by simp) (by simp) hr) (ih ?_)
    intro a b ha hb
    exact himp a b (by simp [ha]) (by simp [hb])

theorem Aligned.comp {α β γ : Type} {R : α → β → Prop} {S : β → γ → Prop} {as : List α} {bs : List β} {cs : List γ}
    (h1 : Aligned R as bs) (h2 : Aligned S bs cs) : Aligned (fun a c => ∃ b, b ∈ bs ∧ R a b ∧ S b c) as cs := by
  induction h1 generalizing cs with
  | nil => cases h2; exact .nil
  | cons hr _ ih =>
    cases h2 with
    | cons hs h2 =>
      refine .cons ⟨_, by simp, hr, hs⟩ ((ih h2).imp_mem ?_)
      rintro a c _ _ ⟨b, hb, h⟩
      exact ⟨b, by simp [hb], h⟩

theorem Aligned.eq_map {α β : Type} {R : α → β → Prop} {as : List α} {bs : List β} (h : Aligned R as bs) (f : α → β)
    (hf : ∀ a b, R a b → b = f a) : bs = as.map f := by
  induction h with
  | nil => rfl
  | cons hr _ ih => simp [hf _ _ hr, ih]

theorem Aligned.map_right {α β γ : Type} {S : α → γ → Prop} {as : List α} {bs : List β} (f : β → γ)
    (h : Aligned (fun a b => S a (f b)) as bs) : Aligned S as (bs.map f) := by
  induction h with
  | nil => exact .nil
  | cons hr _ ih => exact .cons hr ih

theorem Aligned.length_eq {α β : Type} {R : α → β → Prop} {as : List α} {bs : List β} (h : Aligned R as bs) :
    as.length = bs.length := by
  induction h with
  | nil => rfl
  | cons _ _ ih => simp [ih]

/-! ## the loader monad in state-passing form -/

theorem mapRes_ok {α β : Type} {f : α → β} {r : LoadRes α × Tbl} {y : β} {t : Tbl} (h : mapRes f r = (.ok y, t)) :
    ∃ x, r = (.ok x, t) ∧ y = f x := by
  obtain ⟨r1, r2⟩ := r
  cases r1 <;> simp [mapRes, LoadRes.map] at h
  obtain ⟨h1, h2⟩ := h
  exact ⟨_, by simp [h2], h1.symm⟩

theorem bindRes_ok {α β : Type} {r : LoadRes α × Tbl} {k : α → Tbl → LoadRes β × Tbl} {y : β} {t : Tbl}
    (h : bindRes r k = (.ok y, t)) : ∃ x t1, r = (.ok x, t1) ∧ k x t1 = (.ok y, t) := by
  obtain ⟨r1, r2⟩ := r
  cases r1 <;> simp [bindRes] at h
  exact ⟨_, _, rfl, h⟩

/-! ## compilation of attributes and tokens -/

/-- what `compileAttr` guarantees about its result -/
def AttrRel (cfg : Cfg) (a : HS.Attr) (c : CAttr) : Prop :=
  c.name = String.ofList a.name ∧
  ((String.ofList a.name).startsWith cfg.attrPrefix = false → c = ⟨String.ofList a.name, a.value.map String.ofList, []⟩)

theorem attrValueOf_plain (cfg : Cfg) (a : HS.Attr) (h : (String.ofList a.name).startsWith cfg.attrPrefix = false) :
    attrValueOf cfg a = a.value := by
  unfold attrValueOf
  have : (String.ofList a.name == cfg.attrPrefix ++ "else") = false := by
    rw [beq_eq_false_iff_ne]
    intro e
    rw [e, RN.Spec.startsWith_prefix_append] at h
    cases h
  simp [this]

theorem compileAttrS_rel (cfg : Cfg) (a : HS.Attr) (tbl tbl' : Tbl) (c : CAttr)
    (h : compileAttrS cfg a tbl = (.ok c, tbl')) : AttrRel cfg a c := by
  unfold compileAttrS at h
  simp only at h
  by_cases hp : (String.ofList a.name).startsWith cfg.attrPrefix = true
  · refine ⟨?_, fun hh => by rw [hp] at hh; cases hh⟩
    cases hv : attrValueOf cfg a with
    | none => simp only [hv] at h; cases h; rfl
    | some v =>
      simp only [hv, hp, Bool.not_true, Bool.false_eq_true, if_false] at h
      split at h
      · cases h
      · obtain ⟨x, _, hc⟩ := mapRes_ok h
        rw [hc]
  · have hp' : (String.ofList a.name).startsWith cfg.attrPrefix = false := by simpa using hp
    rw [attrValueOf_plain cfg a hp'] at h
    cases hv : a.value with
    | none => simp only [hv] at h; cases h; exact ⟨rfl, fun _ => by simp [hv]⟩
    | some v =>
      simp only [hv, hp', Bool.not_false, if_true] at h
      cases h; exact ⟨rfl, fun _ => by simp [hv]⟩

theorem compileAttrsS_rel (cfg : Cfg) : ∀ (as : List HS.Attr) (tbl tbl' : Tbl) (cs : List CAttr),
    compileAttrsS cfg as tbl = (.ok cs, tbl') → Aligned (AttrRel cfg) as cs
  | [], tbl, tbl', cs, h => by
    simp only [compileAttrsS, Prod.mk.injEq, LoadRes.ok.injEq] at h
    rw [← h.1]; exact .nil
  | a :: as, tbl, tbl', cs, h => by
    simp only [compileAttrsS] at h
    obtain ⟨c, t1, h1, h2⟩ := bindRes_ok h
    obtain ⟨cs0, h3, h4⟩ := mapRes_ok h2
    rw [h4]
    exact .cons (compileAttrS_rel cfg a tbl t1 c h1) (compileAttrsS_rel cfg as t1 tbl' cs0 h3)

/-- what `compileTok` guarantees about the item of a token -/
def TokRel (cfg : Cfg) (t : HS.Token) (it : Item) : Prop :=
  it.d.value = String.ofList t.value ∧
  (t.kind = .tag → ∃ tg cs, t.tag = some tg ∧ Aligned (AttrRel cfg) tg.attrs cs ∧ it.d.kind = .tag ∧
    it.d.tagName = String.ofList tg.name ∧ it.d.attrs = sortedAttrs cfg cs) ∧
  (t.kind ≠ .tag → it.d.kind ≠ .tag ∧ it.d.kind ≠ .root ∧ it.d.attrs = [] ∧ it.act = .leaf)

theorem compileTok_rel (cfg : Cfg) (id : Nat) (t : HS.Token) (tbl tbl' : Tbl) (it : Item)
    (h : compileTok cfg id t tbl = (.ok it, tbl')) : TokRel cfg t it ∧ it.d.id = id := by
  unfold compileTok at h
  split at h
  · rename_i tg hk htag
    obtain ⟨cs, h1, h2⟩ := mapRes_ok h
    rw [h2]
    refine ⟨⟨rfl, fun _ => ⟨tg, cs, htag, compileAttrsS_rel cfg _ _ _ _ h1, rfl, rfl, rfl⟩, fun hne => absurd hk hne⟩, rfl⟩
  · cases h
  · rename_i hno1 hno2
    cases h
    refine ⟨⟨rfl, fun hk => ?_, fun hk => ⟨?_, ?_, rfl, rfl⟩⟩, rfl⟩
    · cases htag : t.tag with
      | none => exact absurd htag (hno2 hk)
      | some tg => exact absurd htag (hno1 tg hk)
    · cases t.kind <;> simp [nkOf] at hk ⊢
    · cases t.kind <;> simp [nkOf]

theorem compileToks_rel (cfg : Cfg) : ∀ (toks : List HS.Token) (id : Nat) (tbl tbl' : Tbl) (items : List Item),
    compileToks cfg id toks tbl = (.ok items, tbl') →
    Aligned (TokRel cfg) toks items ∧ items.map (·.d.id) = List.range' id toks.length
  | [], id, tbl, tbl', items, h => by
    simp only [compileToks, Prod.mk.injEq, LoadRes.ok.injEq] at h
    rw [← h.1]; exact ⟨.nil, rfl⟩
  | t :: ts, id, tbl, tbl', items, h => by
    simp only [compileToks] at h
    obtain ⟨it, t1, h1, h2⟩ := bindRes_ok h
    obtain ⟨is0, h3, h4⟩ := mapRes_ok h2
    obtain ⟨r1, r2⟩ := compileTok_rel cfg id t tbl t1 it h1
    obtain ⟨r3, r4⟩ := compileToks_rel cfg ts (id + 1) t1 tbl' is0 h3
    rw [h4]
    exact ⟨.cons r1 r3, by simp [r2, r4, List.range'_succ]⟩

/-! ## tree predicates read off the flattening -/

def entryId : Entry → Option Nat
  | .inl d => some d.id
  | .inr _ => none
def entryVal : Entry → String
  | .inl d => d.value
  | .inr v => v

/-- `P` holds of the data of every node in the flattening -/
def AllD (P : NodeD → Prop) (xs : List Entry) : Prop := ∀ d, Sum.inl d ∈ xs → P d

theorem inl_mem_flatD {d' d : NodeD} {kids : List Node} {e : Option String} :
    (Sum.inl d' : Entry) ∈ flatD (.mk d kids e) ↔ d' = d ∨ Sum.inl d' ∈ flatDL kids := by
  cases e <;> simp [flatD, endE]

theorem allD_node {P : NodeD → Prop} {d : NodeD} {kids : List Node} {e : Option String} :
    AllD P (flatD (.mk d kids e)) ↔ P d ∧ AllD P (flatDL kids) := by
  unfold AllD
  constructor
  · intro h; exact ⟨h d (inl_mem_flatD.mpr (Or.inl rfl)), fun d' hd => h d' (inl_mem_flatD.mpr (Or.inr hd))⟩
  · rintro ⟨h1, h2⟩ d' hd
    rcases inl_mem_flatD.mp hd with rfl | hd
    · exact h1
    · exact h2 d' hd

theorem allD_nil {P : NodeD → Prop} : AllD P (flatDL []) := by intro d hd; simp [flatDL] at hd

theorem allD_cons {P : NodeD → Prop} {k : Node} {ks : List Node} :
    AllD P (flatDL (k :: ks)) ↔ AllD P (flatD k) ∧ AllD P (flatDL ks) := by
  unfold AllD
  simp only [flatDL, List.mem_append]
  constructor
  · intro h; exact ⟨fun d hd => h d (Or.inl hd), fun d hd => h d (Or.inr hd)⟩
  · rintro ⟨h1, h2⟩ d (hd | hd)
    · exact h1 d hd
    · exact h2 d hd

theorem AllD.sublist {P : NodeD → Prop} {xs ys : List Entry} (h : AllD P ys) (hs : xs.Sublist ys) : AllD P xs :=
  fun d hd => h d (hs.subset hd)

theorem filterMap_entryId_endE (e : Option String) : (endE e).filterMap entryId = [] := by
  cases e <;> simp [endE, entryId]

theorem ids_flat : ∀ n : Node, RN.ids n = (flatD n).filterMap entryId := by
  refine RN.Spec.Node.induct (PL := fun ks => RN.idsL ks = (flatDL ks).filterMap entryId) ?_ ?_ ?_
  · intro d kids e ih
    simp [RN.ids, flatD, entryId, ih, filterMap_entryId_endE]
  · simp [RN.idsL, flatDL]
  · intro k ks ih1 ih2
    simp [RN.idsL, flatDL, ih1, ih2]

theorem idsL_flat : ∀ ks : List Node, RN.idsL ks = (flatDL ks).filterMap entryId
  | [] => by simp [RN.idsL, flatDL]
  | k :: ks => by simp [RN.idsL, flatDL, ids_flat k, idsL_flat ks]

theorem sorted_flat (cfg : RN.Cfg) : ∀ n : Node, RN.Sorted cfg n ↔ AllD (fun d => RN.OrderOK cfg d.attrs) (flatD n) := by
  refine RN.Spec.Node.induct (PL := fun ks => RN.SortedL cfg ks ↔ AllD (fun d => RN.OrderOK cfg d.attrs) (flatDL ks)) ?_ ?_ ?_
  · intro d kids e ih
    rw [allD_node, RN.Sorted, ih]
  · simp only [RN.SortedL, true_iff]; exact allD_nil
  · intro k ks ih1 ih2
    rw [allD_cons, RN.SortedL, ih1, ih2]

/-- plainness of one node (no directive attribute, not a block tag, not a hidden comment) -/
def plainD (cfg : RN.Cfg) (d : NodeD) : Bool :=
  match d.kind with
  | .tag => RN.Spec.plainAttrs cfg d.attrs && !(RN.trimSlash (RN.lowerS d.tagName) == cfg.tagPrefix ++ "block")
  | .comment => !RN.isHiddenComment d.value
  | _ => true

theorem plain_flat (cfg : RN.Cfg) : ∀ n : Node, RN.Spec.plainB cfg n = true ↔ AllD (fun d => plainD cfg d = true) (flatD n) := by
  refine RN.Spec.Node.induct (PL := fun ks => RN.Spec.plainL cfg ks = true ↔ AllD (fun d => plainD cfg d = true) (flatDL ks)) ?_ ?_ ?_
  · intro d kids e ih
    rw [allD_node, RN.Spec.plainB, Bool.and_eq_true, ih]
    rfl
  · simp only [RN.Spec.plainL, true_iff]; exact allD_nil
  · intro k ks ih1 ih2
    rw [allD_cons, RN.Spec.plainL, Bool.and_eq_true, ih1, ih2]

/-- what the renderer prints for the start of a node without directives -/
def headPrint (d : NodeD) : String :=
  match d.kind with
  | .tag => "<" ++ d.tagName ++ String.join (d.attrs.map RN.Spec.printAttr) ++ ">"
  | .root => ""
  | _ => d.value

def entryPrint : Entry → String
  | .inl d => headPrint d
  | .inr v => v

theorem join_endE (e : Option String) : String.join ((endE e).map entryPrint) = e.getD "" := by
  cases e <;> simp [endE, entryPrint, String.join]

theorem print_flat : ∀ n : Node, RN.Spec.printNode n = String.join ((flatD n).map entryPrint) := by
  refine RN.Spec.Node.induct (PL := fun ks => RN.Spec.printKids ks = String.join ((flatDL ks).map entryPrint)) ?_ ?_ ?_
  · intro d kids e ih
    cases hk : d.kind <;>
    simp only [RN.Spec.printNode, flatD, List.map_cons, List.map_append, String.join_cons, String.join_append, join_endE,
      ih, entryPrint, headPrint, String.append_assoc, hk]
  · simp [RN.Spec.printKids, flatDL, String.join]
  · intro k ks ih1 ih2
    simp only [RN.Spec.printKids, flatDL, List.map_append, String.join_append, ih1, ih2]

mutual
/-- the token value of every node plus the end value of every closed element, in document order -/
def flattenN : Node → List String
  | .mk d kids e => d.value :: (flattenL kids ++ e.toList)
def flattenL : List Node → List String
  | [] => []
  | k :: ks => flattenN k ++ flattenL ks
end

/-- pre-order flattening of a loaded tree (the synthetic root carries no token) -/
def flatten (root : Node) : List String := flattenL root.kids

theorem flatten_flat : ∀ n : Node, flattenN n = (flatD n).map entryVal := by
  refine RN.Spec.Node.induct (PL := fun ks => flattenL ks = (flatDL ks).map entryVal) ?_ ?_ ?_
  · intro d kids e ih
    cases e <;> simp [flattenN, flatD, ih, entryVal, endE]
  · simp [flattenL, flatDL]
  · intro k ks ih1 ih2
    simp [flattenL, flatDL, ih1, ih2]

theorem flattenL_flat : ∀ ks : List Node, flattenL ks = (flatDL ks).map entryVal
  | [] => by simp [flattenL, flatDL]
  | k :: ks => by simp [flattenL, flatDL, flatten_flat k, flattenL_flat ks]

/-! ## what one run of ParseTokens appends -/

theorem emits_ids_sublist : ∀ (items : List Item) (bs : BS),
    ((emits bs items).filterMap entryId).Sublist (items.map (·.d.id))
  | [], _ => by simp [emits]
  | it :: rest, bs => by
    have ih := emits_ids_sublist rest (stepItem bs it)
    simp only [emits, List.map_cons]
    unfold emitOf
    split
    · simp only [List.filterMap_cons, entryId]; exact ih.cons _
    · simp only [List.filterMap_cons, entryId]; exact ih.cons_cons _

theorem emits_vals : ∀ (items : List Item) (bs : BS), (emits bs items).map entryVal = items.map (·.d.value)
  | [], _ => by simp [emits]
  | it :: rest, bs => by
    have ih := emits_vals rest (stepItem bs it)
    simp only [emits, List.map_cons, ih]
    unfold emitOf
    split <;> simp [entryVal]

/-- every token appends either the start entry of the node it creates or (closing tag of an open element) its own
    value as the end of that element -/
def EmitRel (it : Item) (x : Entry) : Prop := x = .inl it.d ∨ (it.act = .close ∧ x = .inr it.d.value)

theorem emits_aligned : ∀ (items : List Item) (bs : BS), Aligned EmitRel items (emits bs items)
  | [], _ => .nil
  | it :: rest, bs => by
    refine .cons ?_ (emits_aligned rest (stepItem bs it))
    unfold emitOf EmitRel
    split
    · rename_i h _; exact Or.inr ⟨h, rfl⟩
    · exact Or.inl rfl

/-! ## `annotate` only sets the sibling fields -/

def strip (d : NodeD) : NodeD := { d with prevTag := none, nextBlank := none }
def stripE : Entry → Entry
  | .inl d => .inl (strip d)
  | .inr v => .inr v

theorem flatD_setSib (m : Node) (p : Option Nat) (nb : Option String) :
    (flatD (setSib m p nb)).map stripE = (flatD m).map stripE := by
  cases m with
  | mk d kids e => simp [setSib, flatD, stripE, strip, RN.Node.d, RN.Node.kids, RN.Node.endVal]

theorem annotate_flat : ∀ n : Node, (flatD (annotate n)).map stripE = (flatD n).map stripE := by
  refine RN.Spec.Node.induct
    (PL := fun ks => ∀ prev, (flatDL (annotateL prev ks)).map stripE = (flatDL ks).map stripE) ?_ ?_ ?_
  · intro d kids e ih
    simp [annotate, flatD, ih none]
  · intro prev; simp [annotateL]
  · intro k ks ih1 ih2 prev
    simp only [annotateL, flatDL, List.map_append, flatD_setSib, ih1, ih2]

/-- anything that does not look at the sibling fields is unchanged by `annotate` -/
theorem annotate_map {γ : Type} (g : Entry → γ) (hg : ∀ x, g (stripE x) = g x) (n : Node) :
    (flatD (annotate n)).map g = (flatD n).map g := by
  have h := congrArg (List.map g) (annotate_flat n)
  simp only [List.map_map] at h
  have e : g ∘ stripE = g := funext hg
  rwa [e] at h

theorem annotate_ids (n : Node) : RN.ids (annotate n) = RN.ids n := by
  rw [ids_flat, ids_flat]
  have h := annotate_map entryId (by intro x; cases x <;> rfl) n
  have e : ∀ xs : List Entry, xs.filterMap entryId = (xs.map entryId).filterMap id := by
    intro xs; rw [List.filterMap_map]; rfl
  rw [e, e, h]

theorem annotate_flattenN (n : Node) : flattenN (annotate n) = flattenN n := by
  rw [flatten_flat, flatten_flat]
  exact annotate_map entryVal (by intro x; cases x <;> rfl) n

theorem annotate_print (n : Node) : RN.Spec.printNode (annotate n) = RN.Spec.printNode n := by
  rw [print_flat, print_flat, annotate_map entryPrint (by intro x; cases x <;> rfl) n]

theorem annotate_allD (P : NodeD → Prop) (hP : ∀ d, P (strip d) ↔ P d) (n : Node) :
    AllD P (flatD (annotate n)) ↔ AllD P (flatD n) := by
  have key : ∀ xs : List Entry, AllD P xs ↔ ∀ y ∈ xs.map stripE, ∀ d, y = Sum.inl d → P d := by
    intro xs
    unfold AllD
    constructor
    · intro h y hy d hd
      obtain ⟨x, hx, rfl⟩ := List.mem_map.mp hy
      cases x with
      | inl d0 =>
        simp only [stripE, Sum.inl.injEq] at hd
        rw [← hd]; exact (hP d0).mpr (h d0 hx)
      | inr v => cases hd
    · intro h d hd
      exact (hP d).mp (h _ (List.mem_map.mpr ⟨_, hd, rfl⟩) _ rfl)
  rw [key, key, annotate_flat]

theorem annotate_sorted (cfg : RN.Cfg) (n : Node) : RN.Sorted cfg (annotate n) ↔ RN.Sorted cfg n := by
  rw [sorted_flat, sorted_flat]
  exact annotate_allD _ (fun _ => Iff.rfl) n

theorem annotate_plain (cfg : RN.Cfg) (n : Node) : RN.Spec.Plain cfg (annotate n) ↔ RN.Spec.Plain cfg n := by
  unfold RN.Spec.Plain
  rw [plain_flat, plain_flat]
  exact annotate_allD _ (fun _ => Iff.rfl) n

theorem annotate_kids_flatten (n : Node) : flatten (annotate n) = flatten n := by
  have h := annotate_flattenN n
  cases n with
  | mk d kids e =>
    simp only [annotate, flattenN, List.cons.injEq, true_and] at h
    simp only [flatten, annotate, RN.Node.kids]
    exact List.append_cancel_right h

/-! ## the tree built from a token list -/

theorem buildTreeS_ok {cfg : Cfg} {fileIdx : Nat} {toks : List HS.Token} {tbl tbl' : Tbl} {root : Node}
    (h : buildTreeS cfg fileIdx toks tbl = (.ok root, tbl')) :
    ∃ items, Aligned (TokRel cfg) toks items ∧ items.map (·.d.id) = List.range' (firstId fileIdx) toks.length ∧
      root = assemble items := by
  obtain ⟨items, h1, h2⟩ := mapRes_ok h
  obtain ⟨r1, r2⟩ := compileToks_rel cfg toks _ _ _ _ h1
  exact ⟨items, r1, r2, h2⟩

theorem assemble_flat (items : List Item) : flatD (assemble items) = .inl rootD :: emits ⟨[], []⟩ items := by
  have h := assemble_kids_flat items
  unfold assemble at h ⊢
  simp only [RN.Node.kids] at h
  simp [flatD, h, endE]

/-- ids of a built tree: the root has id 0, the other nodes have pairwise distinct ids ≥ 1 -/
theorem buildTreeS_ids {cfg : Cfg} {fileIdx : Nat} {toks : List HS.Token} {tbl tbl' : Tbl} {root : Node}
    (h : buildTreeS cfg fileIdx toks tbl = (.ok root, tbl')) :
    root.d.id = 0 ∧ (RN.idsL root.kids).Nodup ∧ 0 ∉ RN.idsL root.kids := by
  obtain ⟨items, _, hid, rfl⟩ := buildTreeS_ok h
  have hsub := emits_ids_sublist items ⟨[], []⟩
  rw [hid] at hsub
  rw [idsL_flat, assemble_kids_flat]
  refine ⟨rfl, hsub.nodup (List.nodup_range' (step := 1)), ?_⟩
  intro h0
  have := List.mem_range'_1.mp (hsub.subset h0)
  simp [firstId] at this

theorem nodup_of_parts {n : Node} (h0 : n.d.id = 0) (h1 : (RN.idsL n.kids).Nodup) (h2 : 0 ∉ RN.idsL n.kids) :
    (RN.ids n).Nodup := by
  rw [RN.ids_eq, h0]
  exact List.nodup_cons.mpr ⟨h2, h1⟩

/-- the compiled attribute names of a tag are those of the token -/
theorem aligned_names {cfg : Cfg} {as : List HS.Attr} {cs : List CAttr} (h : Aligned (AttrRel cfg) as cs) :
    cs.map (·.name) = as.map (fun a => String.ofList a.name) := by
  induction h with
  | nil => rfl
  | cons hr _ ih => simp [hr.1, ih]

/-- attribute names within every tag token are pairwise distinct (what `Tag.AddAttr` enforces) -/
def TokNodup (toks : List HS.Token) : Prop :=
  ∀ t ∈ toks, ∀ tg, t.tag = some tg → (tg.attrs.map (·.name)).Nodup

theorem item_orderOK {cfg : Cfg} {t : HS.Token} {it : Item} (hr : TokRel cfg t it)
    (hnd : ∀ tg, t.tag = some tg → (tg.attrs.map (·.name)).Nodup) : RN.OrderOK (rcfgOf cfg) it.d.attrs := by
  by_cases hk : t.kind = .tag
  · obtain ⟨tg, cs, htag, hal, _, _, hattrs⟩ := hr.2.1 hk
    rw [hattrs]
    apply sortedAttrs_orderOK
    rw [aligned_names hal]
    have h1 : tg.attrs.Pairwise (fun a b => a.name ≠ b.name) := List.pairwise_map.mp (hnd tg htag)
    exact List.pairwise_map.mpr (h1.imp (fun hab e => hab (String.ofList_inj.mp e)))
  · rw [(hr.2.2 hk).2.2.1]; rfl

theorem buildTreeS_sorted {cfg : Cfg} {fileIdx : Nat} {toks : List HS.Token} {tbl tbl' : Tbl} {root : Node}
    (h : buildTreeS cfg fileIdx toks tbl = (.ok root, tbl')) (hnd : TokNodup toks) :
    RN.Sorted (rcfgOf cfg) root := by
  obtain ⟨items, hal, _, rfl⟩ := buildTreeS_ok h
  rw [sorted_flat, assemble_flat]
  intro d hd
  rcases List.mem_cons.mp hd with hd | hd
  · cases hd; rfl
  · obtain ⟨it, hit, hrel⟩ := (emits_aligned items ⟨[], []⟩).mem_right hd
    have hd' : d = it.d := by
      rcases hrel with e | ⟨_, e⟩
      · exact Sum.inl.inj e
      · cases e
    obtain ⟨t, ht, htr⟩ := hal.mem_right hit
    rw [hd']
    exact item_orderOK htr (hnd t ht)

theorem aligned_vals {cfg : Cfg} {toks : List HS.Token} {items : List Item} (hal : Aligned (TokRel cfg) toks items) :
    items.map (·.d.value) = toks.map (fun t => String.ofList t.value) := by
  induction hal with
  | nil => rfl
  | cons hr _ ih => simp [hr.1, ih]

theorem buildTreeS_flatten {cfg : Cfg} {fileIdx : Nat} {toks : List HS.Token} {tbl tbl' : Tbl} {root : Node}
    (h : buildTreeS cfg fileIdx toks tbl = (.ok root, tbl')) :
    flatten root = toks.map (fun t => String.ofList t.value) := by
  obtain ⟨items, hal, _, rfl⟩ := buildTreeS_ok h
  rw [flatten, flattenL_flat, assemble_kids_flat, emits_vals]
  exact aligned_vals hal

/-! ## fragments registered by `addDefined` -/

theorem flatDL_sublist {ks' ks : List Node} (h : ks'.Sublist ks) : (flatDL ks').Sublist (flatDL ks) := by
  induction h with
  | slnil => exact List.Sublist.refl _
  | cons k _ ih => simp only [flatDL]; exact ih.trans (List.sublist_append_right _ _)
  | cons_cons k _ ih => simp only [flatDL]; exact (List.Sublist.refl _).append ih

theorem trimBlankKids_sublist (kids : List Node) : (trimBlankKids kids).Sublist kids := by
  unfold trimBlankKids
  have h := (List.filter_sublist (l := kids.zipIdx)
    (p := fun (x : Node × Nat) => !((x.2 == 0 || x.2 + 1 == kids.length) && RN.isBlankText x.1))).map (·.1)
  rw [List.zipIdx_map_fst] at h
  exact h

theorem flatDL_kids_sublist (d : NodeD) (kids : List Node) (e : Option String) :
    (flatDL kids).Sublist (flatD (.mk d kids e)) := by
  simp only [flatD]
  exact ((List.sublist_append_left _ _)).trans (List.sublist_cons_self _ _)

/-- a registered fragment: synthetic root over a sub-forest -/
def IsFragOf (xs : List Entry) (t : Node) : Prop := ∃ ks, t = .mk rootD ks none ∧ (flatDL ks).Sublist xs

theorem defineHere_sub {cfg : Cfg} {cx : Ctx} {d : NodeD} {kids : List Node} {tpls tpls' : List (String × Node)}
    (h : defineHere cfg cx d kids tpls = .ok tpls') : ∀ p ∈ tpls', p ∈ tpls ∨ p.2 = fragRoot kids := by
  unfold defineHere at h
  repeat' split at h
  all_goals (first | cases h | skip)
  all_goals (try (intro p hp; exact Or.inl hp))
  intro p hp
  rcases List.mem_append.mp hp with hp | hp
  · exact Or.inl hp
  · simp only [List.mem_singleton] at hp
    right; rw [hp]

theorem addDefined_sub (cfg : Cfg) (cx : Ctx) : ∀ (n : Node) (tpls tpls' : List (String × Node)),
    addDefined cfg cx n tpls = .ok tpls' → ∀ p ∈ tpls', p ∈ tpls ∨ IsFragOf (flatD n) p.2 := by
  refine RN.Spec.Node.induct (PL := fun ks => ∀ (tpls tpls' : List (String × Node)),
    addDefinedL cfg cx ks tpls = .ok tpls' → ∀ p ∈ tpls', p ∈ tpls ∨ IsFragOf (flatDL ks) p.2) ?_ ?_ ?_
  · intro d kids e ih tpls tpls' h p hp
    rw [addDefined] at h
    cases hd : defineHere cfg cx d kids tpls with
    | ok t =>
      simp only [hd] at h
      rcases ih t tpls' h p hp with hp | ⟨ks, h1, h2⟩
      · rcases defineHere_sub hd p hp with hp | hp
        · exact Or.inl hp
        · exact Or.inr ⟨_, hp, (flatDL_sublist (trimBlankKids_sublist kids)).trans (flatDL_kids_sublist d kids e)⟩
      · exact Or.inr ⟨ks, h1, h2.trans (flatDL_kids_sublist d kids e)⟩
    | err => simp [hd] at h
    | panic => simp [hd] at h
    | unsupported => simp [hd] at h
  · intro tpls tpls' h p hp
    simp only [addDefinedL, LoadRes.ok.injEq] at h
    exact Or.inl (h ▸ hp)
  · intro k ks ih1 ih2 tpls tpls' h p hp
    rw [addDefinedL] at h
    cases hk : addDefined cfg cx k tpls with
    | ok t =>
      simp only [hk] at h
      rcases ih2 t tpls' h p hp with hp | ⟨ks', h1, h2⟩
      · rcases ih1 tpls t hk p hp with hp | ⟨ks', h1, h2⟩
        · exact Or.inl hp
        · exact Or.inr ⟨ks', h1, by simp only [flatDL]; exact h2.trans (List.sublist_append_left _ _)⟩
      · exact Or.inr ⟨ks', h1, by simp only [flatDL]; exact h2.trans (List.sublist_append_right _ _)⟩
    | err => simp [hk] at h
    | panic => simp [hk] at h
    | unsupported => simp [hk] at h

theorem addDefinedL_sub (cfg : Cfg) (cx : Ctx) : ∀ (ks : List Node) (tpls tpls' : List (String × Node)),
    addDefinedL cfg cx ks tpls = .ok tpls' → ∀ p ∈ tpls', p ∈ tpls ∨ IsFragOf (flatDL ks) p.2
  | [], tpls, tpls', h, p, hp => by
    simp only [addDefinedL, LoadRes.ok.injEq] at h
    exact Or.inl (h ▸ hp)
  | k :: ks, tpls, tpls', h, p, hp => by
    rw [addDefinedL] at h
    cases hk : addDefined cfg cx k tpls with
    | ok t =>
      simp only [hk] at h
      rcases addDefinedL_sub cfg cx ks t tpls' h p hp with hp | ⟨ks', h1, h2⟩
      · rcases addDefined_sub cfg cx k tpls t hk p hp with hp | ⟨ks', h1, h2⟩
        · exact Or.inl hp
        · exact Or.inr ⟨ks', h1, by simp only [flatDL]; exact h2.trans (List.sublist_append_left _ _)⟩
      · exact Or.inr ⟨ks', h1, by simp only [flatDL]; exact h2.trans (List.sublist_append_right _ _)⟩
    | err => simp [hk] at h
    | panic => simp [hk] at h
    | unsupported => simp [hk] at h

/-- the walk starts at a file root, which is not a tag: fragments are sub-forests of the root's children -/
theorem addDefined_root_sub (cfg : Cfg) (cx : Ctx) (n : Node) (hk : n.d.kind = .root) (tpls tpls' : List (String × Node))
    (h : addDefined cfg cx n tpls = .ok tpls') : ∀ p ∈ tpls', p ∈ tpls ∨ IsFragOf (flatDL n.kids) p.2 := by
  cases n with
  | mk d kids e =>
    simp only [RN.Node.d] at hk
    rw [addDefined] at h
    have hd : defineHere cfg cx d kids tpls = .ok tpls := by simp [defineHere, hk]
    simp only [hd] at h
    exact addDefinedL_sub cfg cx kids tpls tpls' h

/-! ## the invariant of the registry -/

/-- every registered template has pairwise distinct node ids and attributes in the documented order -/
def TreeOK (cfg : Cfg) (t : Node) : Prop := (RN.ids t).Nodup ∧ RN.Sorted (rcfgOf cfg) t

def TplInv (cfg : Cfg) (tpls : List (String × Node)) : Prop := ∀ p ∈ tpls, TreeOK cfg p.2

theorem frag_ok {cfg : Cfg} {root t : Node} (h1 : (RN.idsL root.kids).Nodup) (h2 : 0 ∉ RN.idsL root.kids)
    (h3 : RN.Sorted (rcfgOf cfg) root) (hf : IsFragOf (flatDL root.kids) t) : TreeOK cfg t := by
  obtain ⟨ks, rfl, hsub⟩ := hf
  have hids : (RN.idsL ks).Sublist (RN.idsL root.kids) := by
    rw [idsL_flat, idsL_flat]; exact hsub.filterMap _
  refine ⟨?_, ?_⟩
  · simp only [RN.ids, rootD]
    exact List.nodup_cons.mpr ⟨fun h0 => h2 (hids.subset h0), hids.nodup h1⟩
  · rw [sorted_flat] at h3 ⊢
    cases root with
    | mk d kids e =>
      rw [allD_node] at h3 ⊢
      exact ⟨rfl, h3.2.sublist hsub⟩

theorem annotate_d (n : Node) : (annotate n).d = n.d := by cases n; rfl

theorem annotate_parts {n : Node} (h0 : n.d.id = 0) (h1 : (RN.idsL n.kids).Nodup) (h2 : 0 ∉ RN.idsL n.kids) :
    (annotate n).d.id = 0 ∧ (RN.idsL (annotate n).kids).Nodup ∧ 0 ∉ RN.idsL (annotate n).kids := by
  have e := annotate_ids n
  rw [RN.ids_eq, RN.ids_eq, annotate_d] at e
  have e2 := List.tail_eq_of_cons_eq e
  rw [e2, annotate_d]
  exact ⟨h0, h1, h2⟩


/-! ## `addDefined` only appends -/

theorem defineHere_prefix {cfg : Cfg} {cx : Ctx} {d : NodeD} {kids : List Node} {tpls tpls' : List (String × Node)}
    (h : defineHere cfg cx d kids tpls = .ok tpls') : ∃ extra, tpls' = tpls ++ extra := by
  unfold defineHere at h
  repeat' split at h
  all_goals (first | cases h | skip)
  all_goals (first | exact ⟨_, rfl⟩ | exact ⟨[], (List.append_nil _).symm⟩)

theorem addDefined_prefix (cfg : Cfg) (cx : Ctx) : ∀ (n : Node) (tpls tpls' : List (String × Node)),
    addDefined cfg cx n tpls = .ok tpls' → ∃ extra, tpls' = tpls ++ extra := by
  refine RN.Spec.Node.induct (PL := fun ks => ∀ (tpls tpls' : List (String × Node)),
    addDefinedL cfg cx ks tpls = .ok tpls' → ∃ extra, tpls' = tpls ++ extra) ?_ ?_ ?_
  · intro d kids e ih tpls tpls' h
    rw [addDefined] at h
    cases hd : defineHere cfg cx d kids tpls with
    | ok t =>
      simp only [hd] at h
      obtain ⟨x1, rfl⟩ := defineHere_prefix hd
      obtain ⟨x2, rfl⟩ := ih _ _ h
      exact ⟨x1 ++ x2, by simp⟩
    | err => simp [hd] at h
    | panic => simp [hd] at h
    | unsupported => simp [hd] at h
  · intro tpls tpls' h
    simp only [addDefinedL, LoadRes.ok.injEq] at h
    exact ⟨[], by simp [h]⟩
  · intro k ks ih1 ih2 tpls tpls' h
    rw [addDefinedL] at h
    cases hk : addDefined cfg cx k tpls with
    | ok t =>
      simp only [hk] at h
      obtain ⟨x1, rfl⟩ := ih1 _ _ hk
      obtain ⟨x2, rfl⟩ := ih2 _ _ h
      exact ⟨x1 ++ x2, by simp⟩
    | err => simp [hk] at h
    | panic => simp [hk] at h
    | unsupported => simp [hk] at h

/-! ## one namespace: every registered name is fresh -/

theorem names_snoc_nodup {tpls : List (String × Node)} {n : String} {t : Node} (h : (tpls.map (·.1)).Nodup)
    (hnew : tpls.any (·.1 == n) = false) : ((tpls ++ [(n, t)]).map (·.1)).Nodup := by
  rw [List.map_append, List.nodup_append]
  refine ⟨h, by simp, ?_⟩
  intro a ha b hb
  simp only [List.map_cons, List.map_nil, List.mem_singleton] at hb
  subst hb
  obtain ⟨p, hp, rfl⟩ := List.mem_map.mp ha
  have := List.any_eq_false.mp hnew p hp
  simpa using this

theorem defineHere_names {cfg : Cfg} {cx : Ctx} {d : NodeD} {kids : List Node} {tpls tpls' : List (String × Node)}
    (h : defineHere cfg cx d kids tpls = .ok tpls') (hn : (tpls.map (·.1)).Nodup) : (tpls'.map (·.1)).Nodup := by
  unfold defineHere at h
  repeat' split at h
  all_goals (first | cases h | skip)
  all_goals (first | exact hn | skip)
  rename_i hany
  exact names_snoc_nodup hn (Bool.eq_false_iff.mpr hany)

theorem addDefined_names (cfg : Cfg) (cx : Ctx) : ∀ (n : Node) (tpls tpls' : List (String × Node)),
    addDefined cfg cx n tpls = .ok tpls' → (tpls.map (·.1)).Nodup → (tpls'.map (·.1)).Nodup := by
  refine RN.Spec.Node.induct (PL := fun ks => ∀ (tpls tpls' : List (String × Node)),
    addDefinedL cfg cx ks tpls = .ok tpls' → (tpls.map (·.1)).Nodup → (tpls'.map (·.1)).Nodup) ?_ ?_ ?_
  · intro d kids e ih tpls tpls' h hn
    rw [addDefined] at h
    cases hd : defineHere cfg cx d kids tpls with
    | ok t => simp only [hd] at h; exact ih _ _ h (defineHere_names hd hn)
    | err => simp [hd] at h
    | panic => simp [hd] at h
    | unsupported => simp [hd] at h
  · intro tpls tpls' h hn
    simp only [addDefinedL, LoadRes.ok.injEq] at h
    exact h ▸ hn
  · intro k ks ih1 ih2 tpls tpls' h hn
    rw [addDefinedL] at h
    cases hk : addDefined cfg cx k tpls with
    | ok t => simp only [hk] at h; exact ih2 _ _ h (ih1 _ _ hk hn)
    | err => simp [hk] at h
    | panic => simp [hk] at h
    | unsupported => simp [hk] at h

/-! ## `addFile`, taken apart -/

theorem addFile_ok {cfg : Cfg} {fns : List (String × EV.FnSpec)} {idx : Nat} {name src : String} {m m' : Mgr}
    (h : addFile cfg fns idx name src m = .ok m') :
    ∃ toks root0 tbl', HS.scan (scanCfg cfg) src.toList = .ok toks ∧
      buildTreeS cfg idx toks m.cx.exprs = (.ok root0, tbl') ∧
      addDefined cfg { exprs := tbl', fns := fns } (annotate root0) (m.templates ++ [(name, annotate root0)]) = .ok m'.templates ∧
      m'.cfg = m.cfg ∧ m.templates.any (·.1 == name) = false := by
  unfold addFile at h
  split at h
  · cases h
  · rename_i hany
    split at h
    · cases h
    · cases h
    · rename_i toks hscan
      unfold registerFile at h
      cases hb : buildTreeS cfg idx toks m.cx.exprs with
      | mk r tbl' =>
        rw [hb] at h
        cases r with
        | ok root0 =>
          simp only at h
          unfold withTemplates at h
          split at h
          · rename_i tpls hadd
            simp only [LoadRes.ok.injEq] at h
            subst h
            exact ⟨toks, root0, tbl', hscan, hb, hadd, rfl, Bool.eq_false_iff.mpr hany⟩
          all_goals cases h
        | err => cases h
        | panic => cases h
        | unsupported => cases h

/-! ## printing of plain tags -/

theorem insertA_plain (cfg : Cfg) (a : CAttr) (ha : a.name.startsWith cfg.attrPrefix = false) :
    ∀ l : List CAttr, insertA cfg a l = l ++ [a]
  | [] => rfl
  | b :: bs => by
    have hw : weight cfg a = (1, 0) := by simp [weight_eq, ha]
    have hlt : ltW cfg a b = false := by
      rw [Bool.eq_false_iff]
      intro hh
      have h1 := (ltW_iff cfg a b).mp hh
      rw [hw] at h1
      rcases weight_bounds cfg b with hb | hb
      · unfold wlt at h1; simp only at h1; omega
      · rw [hb] at h1; unfold wlt at h1; simp at h1
    simp [insertA, hlt, insertA_plain cfg a ha bs]

theorem foldl_insertA_plain (cfg : Cfg) : ∀ (l acc : List CAttr), (∀ a ∈ l, a.name.startsWith cfg.attrPrefix = false) →
    l.foldl (fun acc a => insertA cfg a acc) acc = acc ++ l
  | [], acc, _ => by simp
  | a :: l, acc, h => by
    simp only [List.foldl]
    rw [insertA_plain cfg a (h a (by simp)), foldl_insertA_plain cfg l _ (fun b hb => h b (by simp [hb]))]
    simp

/-- without directives `SortedAttr` keeps the source order -/
theorem sortedAttrs_plain (cfg : Cfg) (l : List CAttr) (h : ∀ a ∈ l, a.name.startsWith cfg.attrPrefix = false) :
    sortedAttrs cfg l = l := by
  simpa [sortedAttrs] using foldl_insertA_plain cfg l [] h

/-- a plain attribute as the renderer re-prints it: ` name` or ` name=value` (value with its quotes, verbatim) -/
def attrOut (a : HS.Attr) : String :=
  " " ++ String.ofList a.name ++ (match a.value with | some v => "=" ++ String.ofList v | none => "")

/-- a tag token as the renderer re-prints it: name and attributes verbatim and in source order, separated by single
    blanks (this is the only normalisation: the whitespace between the parts of a tag) -/
def tokOut (t : HS.Token) : String :=
  match t.tag with
  | some tg => "<" ++ String.ofList tg.name ++ String.join (tg.attrs.map attrOut) ++ ">"
  | none => String.ofList t.value

theorem aligned_plain_attrs {cfg : Cfg} {as : List HS.Attr} {cs : List CAttr} (h : Aligned (AttrRel cfg) as cs)
    (hp : ∀ c ∈ cs, c.name.startsWith cfg.attrPrefix = false) : cs.map RN.Spec.printAttr = as.map attrOut := by
  induction h with
  | nil => rfl
  | @cons a c as' cs' hr _ ih =>
    have hc := hp c (by simp)
    rw [hr.1] at hc
    have e := hr.2 hc
    simp only [List.map_cons, ih (fun c hc => hp c (by simp [hc])), List.cons.injEq, and_true]
    rw [e]
    unfold RN.Spec.printAttr attrOut
    cases a.value <;> rfl

theorem headPrint_plain {cfg : Cfg} {t : HS.Token} {it : Item} (hr : TokRel cfg t it)
    (hp : plainD (rcfgOf cfg) it.d = true) :
    headPrint it.d = String.ofList t.value ∨ (t.kind = .tag ∧ headPrint it.d = tokOut t) := by
  by_cases hk : t.kind = .tag
  · right
    refine ⟨hk, ?_⟩
    obtain ⟨tg, cs, htag, hal, hkind, hname, hattrs⟩ := hr.2.1 hk
    unfold plainD at hp
    simp only [hkind, Bool.and_eq_true] at hp
    have hpa := hp.1
    rw [hattrs] at hpa
    simp only [RN.Spec.plainAttrs, List.all_eq_true, Bool.not_eq_true', rcfgOf] at hpa
    have hcs : ∀ c ∈ cs, c.name.startsWith cfg.attrPrefix = false :=
      fun c hc => hpa c ((sortedAttrs_perm cfg cs).mem_iff.mpr hc)
    unfold headPrint tokOut
    simp only [hkind, htag, hname, hattrs, sortedAttrs_plain cfg cs hcs, aligned_plain_attrs hal hcs]
  · left
    obtain ⟨h1, h2, _, _⟩ := hr.2.2 hk
    unfold headPrint
    rw [← hr.1]
    cases hkk : it.d.kind <;> simp_all

/-- what is printed for a token of a directive-free document: its value, or — for a start / void / self-closing /
    stray closing tag — the re-printed tag `tokOut` -/
def PartRel (t : HS.Token) (p : String) : Prop := p = String.ofList t.value ∨ (t.kind = .tag ∧ p = tokOut t)

theorem assemble_parts {cfg : Cfg} {toks : List HS.Token} {items : List Item} (hal : Aligned (TokRel cfg) toks items)
    (hp : RN.Spec.Plain (rcfgOf cfg) (assemble items)) :
    Aligned PartRel toks ((flatDL (assemble items).kids).map entryPrint) := by
  unfold RN.Spec.Plain at hp
  rw [plain_flat, assemble_flat] at hp
  rw [assemble_kids_flat]
  apply Aligned.map_right
  refine (hal.comp (emits_aligned items ⟨[], []⟩)).imp_mem ?_
  rintro t x _ hx ⟨it, _, htr, hem⟩
  rcases hem with rfl | ⟨_, rfl⟩
  · have hpd : plainD (rcfgOf cfg) it.d = true := hp it.d (List.mem_cons_of_mem _ hx)
    exact headPrint_plain htr hpd
  · left; simp only [entryPrint]; exact htr.1

theorem printNode_root (n : Node) (hk : n.d.kind = .root) (he : n.endVal = none) :
    RN.Spec.printNode n = String.join ((flatDL n.kids).map entryPrint) := by
  cases n with
  | mk d kids e =>
    simp only [RN.Node.d, RN.Node.endVal] at hk he
    subst he
    rw [print_flat]
    simp [flatD, endE, entryPrint, headPrint, hk, String.join_cons, RN.Node.kids]

end EN
