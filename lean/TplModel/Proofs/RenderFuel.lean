import TplModel.Proofs.RenderRefine
import TplModel.Proofs.RenderMono2
/-! # An explicit sufficient fuel for the faithful renderer `RN.exec`

`RN.exec …` passes its fuel `f` unchanged to all its callees at `f - 1`, so the fuel needed is the length of the longest
call chain.  Along a chain: per visit of a tag the attribute loop (`|attrs| + 1` calls), at most two re-entries of the
same node (condition flag, range flag — the flags are only ever *set* while a visit is in progress: `keeps_all`), one
loop over the range items (`≤ L + 1` calls), the child list (`|kids| + 1` calls), and per fragment nesting level one
template; fragment nesting is cut at `cfg.maxDepth`.  No hypothesis on the tree (ids need not be unique). -/
set_option linter.unusedSimpArgs false
set_option linter.unusedVariables false
namespace RN
variable {Sc : Type}

/-! ## 1. flag bits that are set stay set across every call -/

def KeepsBits (fl fl' : Fl) : Prop := ∀ j, (fl j &&& 1 ≠ 0 → fl' j &&& 1 ≠ 0) ∧ (fl j &&& 2 ≠ 0 → fl' j &&& 2 ≠ 0)

theorem KeepsBits.refl (fl : Fl) : KeepsBits fl fl := fun _ => ⟨id, id⟩
theorem KeepsBits.trans {a b c : Fl} (h1 : KeepsBits a b) (h2 : KeepsBits b c) : KeepsBits a c :=
  fun j => ⟨fun h => (h2 j).1 ((h1 j).1 h), fun h => (h2 j).2 ((h1 j).2 h)⟩

theorem or1_and2 (x : Nat) : (x ||| 1) &&& 2 = x &&& 2 := by
  rw [Nat.and_or_distrib_right]; simp
theorem or2_and1 (x : Nat) : (x ||| 2) &&& 1 = x &&& 1 := by
  rw [Nat.and_or_distrib_right]; simp
theorem or1_and1 (x : Nat) : (x ||| 1) &&& 1 = 1 := by
  apply Nat.eq_of_testBit_eq; intro i; simp only [Nat.testBit_and, Nat.testBit_or]; cases Nat.testBit 1 i <;> simp
theorem or2_and2 (x : Nat) : (x ||| 2) &&& 2 = 2 := by
  apply Nat.eq_of_testBit_eq; intro i; simp only [Nat.testBit_and, Nat.testBit_or]; cases Nat.testBit 2 i <;> simp
theorem and2_and2 (x : Nat) : (x &&& 2) &&& 2 = x &&& 2 := by rw [Nat.and_assoc]; simp
theorem and1_and1 (x : Nat) : (x &&& 1) &&& 1 = x &&& 1 := by rw [Nat.and_assoc, Nat.and_self]
theorem and2_and1 (x : Nat) : (x &&& 2) &&& 1 = 0 := by rw [Nat.and_assoc]; simp
theorem and1_and2 (x : Nat) : (x &&& 1) &&& 2 = 0 := by rw [Nat.and_assoc]; simp

theorem setFl_ne (fl : Fl) {i j : Nat} (v : Nat) (h : j ≠ i) : setFl fl i v j = fl j := by simp [setFl, h]

/-- the flag algebra of `processIfElse`: set bit 1, run, clear bit 1 -/
theorem keeps_cond (fl X : Fl) (i : Nat) (h0 : fl i &&& 1 = 0) (hX : KeepsBits (setFl fl i (fl i ||| 1)) X) :
    KeepsBits fl (setFl X i (X i &&& 2)) := by
  intro j
  by_cases hj : j = i
  · subst hj
    rw [setFl_same]
    refine ⟨fun h => absurd h0 h, fun h => ?_⟩
    rw [and2_and2]
    apply (hX j).2
    rw [setFl_same, or1_and2]; exact h
  · rw [setFl_ne _ _ hj]
    have := hX j
    rw [setFl_ne _ _ hj] at this
    exact this

/-- the flag algebra of `processRange`: set bit 2, run, clear bit 2 -/
theorem keeps_range (fl X : Fl) (i : Nat) (h0 : fl i &&& 2 = 0) (hX : KeepsBits (setFl fl i (fl i ||| 2)) X) :
    KeepsBits fl (setFl X i (X i &&& 1)) := by
  intro j
  by_cases hj : j = i
  · subst hj
    rw [setFl_same]
    refine ⟨fun h => ?_, fun h => absurd h0 h⟩
    rw [and1_and1]
    apply (hX j).1
    rw [setFl_same, or2_and1]; exact h
  · rw [setFl_ne _ _ hj]
    have := hX j
    rw [setFl_ne _ _ hj] at this
    exact this

theorem R.andThen_keeps {fl : Fl} {r : R} {k : NC → Fl → R} (hr : KeepsBits fl r.fl)
    (hk : ∀ nc fl', KeepsBits fl' (k nc fl').fl) : KeepsBits fl (r.andThen k).fl := by
  unfold R.andThen
  cases r.st
  case ok => exact hr.trans (hk _ _)
  all_goals exact hr

theorem PR.andThen_keeps {fl : Fl} {r : PR Sc} {k : PS Sc → NC → Fl → PR Sc} (hr : KeepsBits fl r.fl)
    (hk : ∀ ps nc fl', KeepsBits fl' (k ps nc fl').fl) : KeepsBits fl (r.andThen k).fl := by
  unfold PR.andThen
  cases r.st
  case ok => exact hr.trans (hk _ _ _)
  all_goals exact hr

/-- all six functions at fuel `f` -/
structure KeepsBitsAt (cfg : Cfg) (env : Env Sc) (f : Nat) : Prop where
  exec : ∀ depth nc fl node sc, KeepsBits fl (exec cfg env f depth nc fl node sc).fl
  child : ∀ depth nc fl node mode sc, KeepsBits fl (execChild cfg env f depth nc fl node mode sc).fl
  kids : ∀ depth nc fl ks sc, KeepsBits fl (execKids cfg env f depth nc fl ks sc).fl
  frag : ∀ depth nc fl t sc, (execFrag cfg env f depth nc fl t sc).fl = fl
  attrs : ∀ depth nc fl node as ps, KeepsBits fl (procAttrs cfg env f depth nc fl node as ps).fl
  items : ∀ depth nc fl node its first, KeepsBits fl (execItems cfg env f depth nc fl node its first).fl

theorem keepsAt_zero (cfg : Cfg) (env : Env Sc) : KeepsBitsAt cfg env 0 := by
  refine ⟨?_, ?_, ?_, ?_, ?_, ?_⟩
  · intro depth nc fl node sc; rw [exec.eq_1]; exact KeepsBits.refl fl
  · intro depth nc fl node mode sc; rw [execChild.eq_1]; exact KeepsBits.refl fl
  · intro depth nc fl ks sc; rw [execKids.eq_1]; exact KeepsBits.refl fl
  · intro depth nc fl t sc; rw [execFrag.eq_1]; rfl
  · intro depth nc fl node as ps; rw [procAttrs.eq_1]; exact KeepsBits.refl fl
  · intro depth nc fl node its first; rw [execItems.eq_1]; exact KeepsBits.refl fl

theorem execTail_keeps {cfg : Cfg} {env : Env Sc} {f : Nat} (ih : KeepsBitsAt cfg env f) (depth : Nat) (node : Node)
    (pr : PR Sc) : KeepsBits pr.fl (execTail cfg env f depth node pr).fl := by
  unfold execTail
  split
  · refine R.andThen_keeps (R.andThen_keeps (KeepsBits.refl _) fun nc fl' => ih.child _ _ _ _ _ _) fun nc fl' => ?_
    exact KeepsBits.refl _
  · exact KeepsBits.refl _

theorem optExec_keeps {cfg : Cfg} {env : Env Sc} {f : Nat} (ih : KeepsBitsAt cfg env f) (depth : Nat) (sc : Sc)
    (o : Option Node) (nc : NC) (fl : Fl) : KeepsBits fl (optExec cfg env f depth sc o nc fl).fl := by
  unfold optExec
  cases o with
  | none => exact KeepsBits.refl _
  | some k => exact ih.exec _ _ _ _ _

theorem evalCondStep_keeps (env : Env Sc) (reexec : NC → Fl → Sc → R) (d : NodeD) (a : CAttr) (ps : PS Sc) (nc : NC)
    (fl1 : Fl) (hre : ∀ nc' sc', KeepsBits fl1 (reexec nc' fl1 sc').fl) :
    KeepsBits fl1 (evalCondStep env reexec d a ps nc fl1).fl := by
  unfold evalCondStep
  simp only
  split
  · exact KeepsBits.refl _
  · split
    · simp only [R.buffered_fl]; exact hre _ _
    · exact KeepsBits.refl _

theorem condStep_keeps (env : Env Sc) (reexec : NC → Fl → Sc → R) (d : NodeD) (a : CAttr) (isIf : Bool) (ps : PS Sc)
    (nc : NC) (fl : Fl) (h0 : fl d.id &&& 1 = 0)
    (hre : ∀ nc' sc', KeepsBits (setFl fl d.id (fl d.id ||| 1)) (reexec nc' (setFl fl d.id (fl d.id ||| 1)) sc').fl) :
    KeepsBits fl (condStep env reexec d a isIf ps nc fl).fl := by
  unfold condStep
  split
  · exact KeepsBits.refl _
  · simp only
    apply keeps_cond fl _ d.id h0
    split
    · exact evalCondStep_keeps env reexec d a ps nc _ hre
    · split
      · exact KeepsBits.refl _
      · exact evalCondStep_keeps env reexec d a ps nc _ hre
      · exact KeepsBits.refl _

theorem rangeStep_keeps (env : Env Sc) (items : NC → Fl → List Sc → R) (d : NodeD) (a : CAttr) (ps : PS Sc)
    (nc : NC) (fl : Fl) (h0 : fl d.id &&& 2 = 0)
    (hit : ∀ its, KeepsBits (setFl fl d.id (fl d.id ||| 2)) (items nc (setFl fl d.id (fl d.id ||| 2)) its).fl) :
    KeepsBits fl (rangeStep env items d a ps nc fl).fl := by
  unfold rangeStep
  split
  · exact KeepsBits.refl _
  · simp only
    split
    · exact keeps_range fl _ d.id h0 (KeepsBits.refl _)
    · simp only [R.buffered_fl]
      exact keeps_range fl _ d.id h0 (hit _)

theorem withStep_keeps (env : Env Sc) (a : CAttr) (ps : PS Sc) (nc : NC) (fl : Fl) (k : PS Sc → PR Sc)
    (hk : ∀ ps', KeepsBits fl (k ps').fl) : KeepsBits fl (withStep env a ps nc fl k).fl := by
  unfold withStep
  split
  · exact KeepsBits.refl _
  · exact hk _

theorem keepsAt_succ {cfg : Cfg} {env : Env Sc} {f : Nat} (ih : KeepsBitsAt cfg env f) : KeepsBitsAt cfg env (f+1) := by
  refine ⟨?_, ?_, ?_, ?_, ?_, ?_⟩
  · intro depth nc fl node sc
    by_cases hk : node.d.kind = .tag
    · rw [exec_tag_eq _ _ _ _ _ _ _ _ hk]
      exact (ih.attrs _ _ _ _ _ _).trans (execTail_keeps ih _ _ _)
    · rw [exec_leaf_eq _ _ _ _ _ _ _ _ hk]
      refine R.andThen_keeps (KeepsBits.refl _) fun nc fl' => R.andThen_keeps (ih.kids _ _ _ _ _) fun nc fl'' => KeepsBits.refl _
  · intro depth nc fl node mode sc
    cases mode with
    | unset => rw [execChild.eq_2]; exact ih.kids _ _ _ _ _
    | nop => rw [execChild.eq_3]; exact KeepsBits.refl _
    | textLike a isText =>
      rw [execChild.eq_4]
      split <;> exact KeepsBits.refl _
    | abf =>
      rw [execChild_abf_eq]
      exact R.andThen_keeps (optExec_keeps ih _ _ _ _ _) fun nc fl' =>
        R.andThen_keeps (optExec_keeps ih _ _ _ _ _) fun nc fl'' => optExec_keeps ih _ _ _ _ _
  · intro depth nc fl ks sc
    cases ks with
    | nil => rw [execKids.eq_2]; exact KeepsBits.refl _
    | cons k ks =>
      rw [execKids.eq_3]
      exact R.andThen_keeps (ih.exec _ _ _ _ _) fun nc fl' => ih.kids _ _ _ _ _
  · intro depth nc fl t sc
    rw [execFrag.eq_2]
    split <;> rfl
  · intro depth nc fl node as ps
    cases as with
    | nil => rw [procAttrs.eq_2]; exact KeepsBits.refl _
    | cons a rest =>
      cases hc : classify cfg a with
      | with_ =>
        by_cases hf : fl node.d.id = 0
        · rw [procAttrs_with _ _ _ _ _ _ _ _ _ _ hc hf]
          exact withStep_keeps env a ps nc fl _ fun ps' => ih.attrs _ _ _ _ _ _
        · rw [procAttrs_with_skip _ _ _ _ _ _ _ _ _ _ hc hf]; exact ih.attrs _ _ _ _ _ _
      | cond b =>
        by_cases hf : fl node.d.id &&& 1 = 0
        · rw [procAttrs_cond _ _ _ _ _ _ _ _ _ _ hc hf]
          exact condStep_keeps env _ node.d a b ps nc fl hf fun nc' sc' => ih.exec _ _ _ _ _
        · rw [procAttrs_cond_skip _ _ _ _ _ _ _ _ _ _ hc hf]; exact ih.attrs _ _ _ _ _ _
      | range =>
        by_cases hf : fl node.d.id &&& 2 = 0
        · rw [procAttrs_range _ _ _ _ _ _ _ _ _ _ hc hf]
          exact rangeStep_keeps env _ node.d a ps nc fl hf fun its => ih.items _ _ _ _ _ _
        · rw [procAttrs_range_skip _ _ _ _ _ _ _ _ _ _ hc hf]; exact ih.attrs _ _ _ _ _ _
      | _ =>
        rw [procAttrs_body _ _ _ _ _ _ _ _ _ _ (by simp [isCtl, hc])]
        refine PR.andThen_keeps ?_ fun ps' nc' fl' => ih.attrs _ _ _ _ _ _
        rw [bodyStep_fl]; exact KeepsBits.refl _
  · intro depth nc fl node its first
    cases its with
    | nil => rw [execItems.eq_2]; exact KeepsBits.refl _
    | cons sc rest =>
      rw [execItems.eq_3]
      exact R.andThen_keeps (R.andThen_keeps (KeepsBits.refl _) fun nc fl' => ih.exec _ _ _ _ _) fun nc fl' =>
        ih.items _ _ _ _ _ _

/-- **flag bits that are set stay set** across every call of the renderer (any tree, any environment) -/
theorem keeps_all (cfg : Cfg) (env : Env Sc) : ∀ f, KeepsBitsAt cfg env f
  | 0 => keepsAt_zero cfg env
  | f+1 => keepsAt_succ (keeps_all cfg env f)

/-! ## 2. the cost of a tree and the sufficient fuel -/

/-- number of the two flag bits (condition, range) that are not set -/
def unset (x : Nat) : Nat := (if x &&& 1 = 0 then 1 else 0) + (if x &&& 2 = 0 then 1 else 0)

theorem unset_le2 (x : Nat) : unset x ≤ 2 := by unfold unset; split <;> split <;> omega
theorem unset_zero : unset 0 = 2 := by decide

theorem unset_keeps {fl fl' : Fl} (h : KeepsBits fl fl') (j : Nat) : unset (fl' j) ≤ unset (fl j) := by
  unfold unset
  have h1 := (h j).1
  have h2 := (h j).2
  generalize fl j &&& 1 = a at *
  generalize fl j &&& 2 = b at *
  generalize fl' j &&& 1 = c at *
  generalize fl' j &&& 2 = d at *
  split <;> split <;> split <;> split <;> omega

theorem unset_or1 (x : Nat) (h : x &&& 1 = 0) : unset (x ||| 1) + 1 = unset x := by
  unfold unset
  rw [or1_and1, or1_and2, h]; simp; omega

theorem unset_or2 (x : Nat) (h : x &&& 2 = 0) : unset (x ||| 2) + 1 = unset x := by
  unfold unset
  rw [or2_and2, or2_and1, h]; simp

mutual
/-- length of the longest call chain inside one template for range expansions of at most `L` items (an upper bound) -/
def cost (L : Nat) : Node → Nat
  | .mk d kids _ => 3 * (d.attrs.length + 2) + 2 * (L + 2) + kids.length + 3 + costL L kids
def costL (L : Nat) : List Node → Nat
  | [] => 0
  | k :: ks => max (cost L k) (costL L ks)
end

/-- the same when `b` of the two flags of the node are not yet set -/
def ecost (L : Nat) (node : Node) (b : Nat) : Nat :=
  (b + 1) * (node.d.attrs.length + 2) + b * (L + 2) + node.kids.length + 3 + costL L node.kids

theorem ecost_two (L : Nat) (node : Node) : ecost L node 2 = cost L node := by
  cases node with
  | mk d kids e => simp only [ecost, cost, Node.d, Node.kids]

theorem ecost_mono (L : Nat) (node : Node) {b b' : Nat} (h : b ≤ b') : ecost L node b ≤ ecost L node b' := by
  unfold ecost
  have h1 := Nat.mul_le_mul_right (node.d.attrs.length + 2) (Nat.add_le_add_right h 1)
  have h2 := Nat.mul_le_mul_right (L + 2) h
  omega

theorem ecost_le_cost (L : Nat) (node : Node) (x : Nat) : ecost L node (unset x) ≤ cost L node := by
  rw [← ecost_two]; exact ecost_mono L node (unset_le2 x)

theorem ecost_succ (L : Nat) (node : Node) (b : Nat) :
    ecost L node (b + 1) = ecost L node b + (node.d.attrs.length + 2) + (L + 2) := by
  unfold ecost
  have e1 : (b + 1 + 1) * (node.d.attrs.length + 2) = (b + 1) * (node.d.attrs.length + 2) + (node.d.attrs.length + 2) :=
    Nat.succ_mul _ _
  have e2 : (b + 1) * (L + 2) = b * (L + 2) + (L + 2) := Nat.succ_mul _ _
  omega

theorem ecost_ge (L : Nat) (node : Node) (b : Nat) :
    node.d.attrs.length + 2 + node.kids.length + 3 + costL L node.kids ≤ ecost L node b := by
  unfold ecost
  have : 1 * (node.d.attrs.length + 2) ≤ (b + 1) * (node.d.attrs.length + 2) := Nat.mul_le_mul_right _ (by omega)
  omega

theorem cost_le_costL (L : Nat) : ∀ {ks : List Node} {k : Node}, k ∈ ks → cost L k ≤ costL L ks
  | k' :: ks, k, h => by
    rw [costL]
    rcases List.mem_cons.mp h with rfl | h
    · exact Nat.le_max_left _ _
    · exact Nat.le_trans (cost_le_costL L h) (Nat.le_max_right _ _)

/-- what the re-entries still to come cost -/
def rcost (L : Nat) (node : Node) (b : Nat) : Nat := if b = 0 then 0 else L + 2 + ecost L node (b - 1)

/-- fuel for the fragment nesting below depth `dp`, when every template costs at most `H` -/
def gcost (cfg : Cfg) (H dp : Nat) : Nat := (cfg.maxDepth - dp) * (H + 1) + 1

theorem gcost_pos (cfg : Cfg) (H dp : Nat) : 1 ≤ gcost cfg H dp := by unfold gcost; omega

theorem gcost_step (cfg : Cfg) (H dp : Nat) (h : ¬ dp + 1 > cfg.maxDepth) :
    gcost cfg H dp = gcost cfg H (dp + 1) + (H + 1) := by
  unfold gcost
  have e : cfg.maxDepth - dp = (cfg.maxDepth - (dp + 1)) + 1 := by omega
  rw [e, Nat.add_mul]; omega

/-! ### status lemmas for the named pieces -/

theorem R.andThen_st_ne_fuel {r : R} {k : NC → Fl → R} (hr : r.st ≠ .fuel) (hk : (k r.nc r.fl).st ≠ .fuel) :
    (r.andThen k).st ≠ .fuel := by
  unfold R.andThen
  cases h : r.st
  case ok => exact hk
  case err c => simp [h]
  case fuel => exact absurd h hr

theorem PR.andThen_st_ne_fuel {r : PR Sc} {k : PS Sc → NC → Fl → PR Sc} (hr : r.st ≠ .fuel)
    (hk : (k r.ps r.nc r.fl).st ≠ .fuel) : (r.andThen k).st ≠ .fuel := by
  unfold PR.andThen
  cases h : r.st
  case ok => exact hk
  case err c => simp [h]
  case fuel => exact absurd h hr

theorem R.andThen_st_keep {fl : Fl} {r : R} {k : NC → Fl → R} (hr : r.st ≠ .fuel) (hkeep : KeepsBits fl r.fl)
    (hk : ∀ nc' fl', KeepsBits fl fl' → (k nc' fl').st ≠ .fuel) : (r.andThen k).st ≠ .fuel :=
  R.andThen_st_ne_fuel hr (hk _ _ hkeep)

theorem okR_st (out : List String) (nc : NC) (fl : Fl) : (R.okR out nc fl).st ≠ .fuel := by simp [R.okR]

theorem bodyStep_st_ne_fuel (cfg : Cfg) (env : Env Sc) (frag : Node → Sc → R) (d : NodeD) (a : CAttr) (k : AK)
    (ps : PS Sc) (nc : NC) (fl : Fl) (hfrag : ∀ name t, env.tpl name = some t → (frag t ps.data).st ≠ .fuel) :
    (bodyStep cfg env frag d a k ps nc fl).st ≠ .fuel := by
  unfold bodyStep
  cases k <;> simp only
  case replace =>
    split
    · simp
    · split
      · simp
      · rename_i t ht
        split
        · simp
        · rename_i st hst _; exact fun h => hfrag _ t ht h
  case insert =>
    split
    · simp
    · split
      · simp
      · rename_i t ht
        split
        · simp
        · rename_i st hst _; exact fun h => hfrag _ t ht h
  all_goals (repeat' split) <;> simp

theorem applyRemove_data (a : CAttr) (ps : PS Sc) : (applyRemove a ps).data = ps.data := by
  unfold applyRemove
  simp only
  repeat' split
  all_goals rfl

theorem bodyStep_data (cfg : Cfg) (env : Env Sc) (frag : Node → Sc → R) (d : NodeD) (a : CAttr) (k : AK)
    (ps : PS Sc) (nc : NC) (fl : Fl) : (bodyStep cfg env frag d a k ps nc fl).ps.data = ps.data := by
  unfold bodyStep
  cases k <;> simp only
  case remove => exact applyRemove_data a ps
  all_goals (repeat' split)
  all_goals rfl

theorem finishTag_data (ps : PS Sc) : (finishTag ps).data = ps.data := by
  unfold finishTag; split <;> rfl

theorem execTail_st_ne_fuel (cfg : Cfg) (env : Env Sc) (f depth : Nat) (node : Node) (pr : PR Sc) (hpr : pr.st ≠ .fuel)
    (hch : ∀ nc fl mode, (execChild cfg env f depth nc fl node mode pr.ps.data).st ≠ .fuel) :
    (execTail cfg env f depth node pr).st ≠ .fuel := by
  unfold execTail
  split
  · refine R.andThen_st_ne_fuel (R.andThen_st_ne_fuel (by simp) ?_) (okR_st _ _ _)
    simp only [finishTag_data]
    exact hch _ _ _
  · exact hpr

theorem evalCondStep_st_ne_fuel (env : Env Sc) (reexec : NC → Fl → Sc → R) (d : NodeD) (a : CAttr) (ps : PS Sc) (nc : NC)
    (fl1 : Fl) (hre : ∀ nc', (reexec nc' fl1 ps.data).st ≠ .fuel) :
    (evalCondStep env reexec d a ps nc fl1).st ≠ .fuel := by
  unfold evalCondStep
  simp only
  split
  · simp
  · split
    · simp only [R.buffered_st]; exact hre _
    · simp

theorem evalCondStep_data (env : Env Sc) (reexec : NC → Fl → Sc → R) (d : NodeD) (a : CAttr) (ps : PS Sc) (nc : NC)
    (fl1 : Fl) : (evalCondStep env reexec d a ps nc fl1).ps.data = ps.data := by
  unfold evalCondStep
  simp only
  split
  · rfl
  · split <;> rfl

theorem condStep_st_ne_fuel (env : Env Sc) (reexec : NC → Fl → Sc → R) (d : NodeD) (a : CAttr) (isIf : Bool) (ps : PS Sc)
    (nc : NC) (fl : Fl) (hre : ∀ nc', (reexec nc' (setFl fl d.id (fl d.id ||| 1)) ps.data).st ≠ .fuel) :
    (condStep env reexec d a isIf ps nc fl).st ≠ .fuel := by
  unfold condStep
  split
  · simp
  · simp only
    split
    · exact evalCondStep_st_ne_fuel env reexec d a ps nc _ hre
    · split
      · simp
      · exact evalCondStep_st_ne_fuel env reexec d a ps nc _ hre
      · simp

theorem condStep_data (env : Env Sc) (reexec : NC → Fl → Sc → R) (d : NodeD) (a : CAttr) (isIf : Bool) (ps : PS Sc)
    (nc : NC) (fl : Fl) : (condStep env reexec d a isIf ps nc fl).ps.data = ps.data := by
  unfold condStep
  split
  · rfl
  · simp only
    split
    · exact evalCondStep_data env reexec d a ps nc _
    · split
      · rfl
      · exact evalCondStep_data env reexec d a ps nc _
      · rfl

theorem rangeStep_st_ne_fuel (env : Env Sc) (items : NC → Fl → List Sc → R) (d : NodeD) (a : CAttr) (ps : PS Sc)
    (nc : NC) (fl : Fl)
    (hit : ∀ its lg, env.rangeItems a ps.data = (.ok its, lg) → (items nc (setFl fl d.id (fl d.id ||| 2)) its).st ≠ .fuel) :
    (rangeStep env items d a ps nc fl).st ≠ .fuel := by
  unfold rangeStep
  split
  · simp
  · simp only
    split
    · simp
    · rename_i its lg hr
      simp only [R.buffered_st]
      exact hit its lg hr

theorem rangeStep_data (env : Env Sc) (items : NC → Fl → List Sc → R) (d : NodeD) (a : CAttr) (ps : PS Sc)
    (nc : NC) (fl : Fl) : (rangeStep env items d a ps nc fl).ps.data = ps.data := by
  unfold rangeStep
  split
  · rfl
  · simp only
    split <;> rfl

theorem optExec_st_ne_fuel (cfg : Cfg) (env : Env Sc) (f depth : Nat) (sc : Sc) (o : Option Node) (nc : NC) (fl : Fl)
    (h : ∀ k, o = some k → (exec cfg env f depth nc fl k sc).st ≠ .fuel) :
    (optExec cfg env f depth sc o nc fl).st ≠ .fuel := by
  unfold optExec
  cases o with
  | none => exact okR_st _ _ _
  | some k => exact h k rfl

/-- The hypotheses of the bound.  `I node sc` is an invariant of the pairs (node being executed, scope) of a run — it
    holds at the start and is kept by descending to a child, by a `with` assignment, by a range expansion (whose
    number of items is at most `L`) and by entering a registered template (whose cost is at most `H`). -/
structure Bounded (cfg : Cfg) (env : Env Sc) (I : Node → Sc → Prop) (L H : Nat) : Prop where
  kid : ∀ node sc k, I node sc → k ∈ node.kids → I k sc
  withA : ∀ node sc a sc' lg, I node sc → a ∈ node.d.attrs → classify cfg a = .with_ →
    env.withAssign a sc = (.ok sc', lg) → I node sc'
  items : ∀ node sc a its lg, I node sc → a ∈ node.d.attrs → classify cfg a = .range →
    env.rangeItems a sc = (.ok its, lg) → its.length ≤ L ∧ ∀ s ∈ its, I node s
  tpl : ∀ node sc name t, I node sc → env.tpl name = some t → cost L t ≤ H ∧ I t sc

/-- all six functions at fuel `f`: enough fuel ⇒ the status is not `fuel` -/
structure BoundAt (cfg : Cfg) (env : Env Sc) (I : Node → Sc → Prop) (L H f : Nat) : Prop where
  exec : ∀ depth nc fl node sc, I node sc → ecost L node (unset (fl node.d.id)) + gcost cfg H depth ≤ f →
    (exec cfg env f depth nc fl node sc).st ≠ .fuel
  child : ∀ depth nc fl node mode sc, I node sc → node.kids.length + 2 + costL L node.kids + gcost cfg H depth ≤ f →
    (execChild cfg env f depth nc fl node mode sc).st ≠ .fuel
  kids : ∀ depth nc fl ks sc, (∀ k ∈ ks, I k sc) → ks.length + 1 + costL L ks + gcost cfg H depth ≤ f →
    (execKids cfg env f depth nc fl ks sc).st ≠ .fuel
  frag : ∀ depth nc fl t sc, I t sc → cost L t ≤ H → gcost cfg H depth ≤ f →
    (execFrag cfg env f depth nc fl t sc).st ≠ .fuel
  attrs : ∀ depth nc fl node as ps, I node ps.data → (∀ a ∈ as, a ∈ node.d.attrs) →
    I node (procAttrs cfg env f depth nc fl node as ps).ps.data ∧
    (as.length + 1 + gcost cfg H depth + rcost L node (unset (fl node.d.id)) ≤ f →
      (procAttrs cfg env f depth nc fl node as ps).st ≠ .fuel)
  items : ∀ depth nc fl node its first, (∀ s ∈ its, I node s) →
    its.length + 1 + ecost L node (unset (fl node.d.id)) + gcost cfg H depth ≤ f →
    (execItems cfg env f depth nc fl node its first).st ≠ .fuel

theorem boundAt_zero (cfg : Cfg) (env : Env Sc) (I : Node → Sc → Prop) (L H : Nat) : BoundAt cfg env I L H 0 := by
  have g := gcost_pos cfg H
  refine ⟨?_, ?_, ?_, ?_, ?_, ?_⟩
  · intro depth nc fl node sc _ h; have := g depth; omega
  · intro depth nc fl node mode sc _ h; have := g depth; omega
  · intro depth nc fl ks sc _ h; have := g depth; omega
  · intro depth nc fl t sc _ _ h; have := g depth; omega
  · intro depth nc fl node as ps hi _
    rw [procAttrs.eq_1]
    exact ⟨hi, fun h => by have := g depth; omega⟩
  · intro depth nc fl node its first _ h; have := g depth; omega

theorem rcost_pos (L : Nat) (node : Node) {b : Nat} (h : 1 ≤ b) : rcost L node b = L + 2 + ecost L node (b - 1) := by
  unfold rcost; rw [if_neg (by omega)]

theorem boundAt_succ {cfg : Cfg} {env : Env Sc} {I : Node → Sc → Prop} {L H f : Nat} (hb : Bounded cfg env I L H)
    (ih : BoundAt cfg env I L H f) : BoundAt cfg env I L H (f+1) := by
  have kp := keeps_all cfg env f
  refine ⟨?_, ?_, ?_, ?_, ?_, ?_⟩
  · -- exec
    intro depth nc fl node sc hi h
    have hge := ecost_ge L node (unset (fl node.d.id))
    by_cases hk : node.d.kind = .tag
    · rw [exec_tag_eq _ _ _ _ _ _ _ _ hk]
      obtain ⟨hdata, hst⟩ := ih.attrs depth nc fl node node.d.attrs (ps0 cfg node.d (fl node.d.id) sc) hi (fun a ha => ha)
      apply execTail_st_ne_fuel
      · apply hst
        rcases Nat.eq_zero_or_pos (unset (fl node.d.id)) with h0 | hpos
        · rw [h0] at h hge ⊢
          simp only [rcost, if_true]; omega
        · obtain ⟨b, hb'⟩ : ∃ b, unset (fl node.d.id) = b + 1 := ⟨unset (fl node.d.id) - 1, by omega⟩
          rw [hb'] at h ⊢
          rw [rcost_pos L node (by omega), Nat.add_sub_cancel]
          rw [ecost_succ] at h
          omega
      · intro nc' fl' mode
        apply ih.child _ _ _ _ _ _ hdata; omega
    · rw [exec_leaf_eq _ _ _ _ _ _ _ _ hk]
      refine R.andThen_st_ne_fuel (okR_st _ _ _) (R.andThen_st_ne_fuel ?_ (okR_st _ _ _))
      apply ih.kids _ _ _ _ _ (fun k hk' => hb.kid node sc k hi hk'); omega
  · -- execChild
    intro depth nc fl node mode sc hi h
    cases mode with
    | unset => rw [execChild.eq_2]; apply ih.kids _ _ _ _ _ (fun k hk' => hb.kid node sc k hi hk'); omega
    | nop => rw [execChild.eq_3]; exact okR_st _ _ _
    | textLike a isText =>
      rw [execChild.eq_4]
      split <;> simp [R.fail]
    | abf =>
      rw [execChild_abf_eq]
      obtain ⟨m1, m2, m3⟩ := abf_mem node.kids
      have key : ∀ k ∈ node.kids, ∀ nc' fl', (exec cfg env f depth nc' fl' k sc).st ≠ .fuel := by
        intro k hk nc' fl'
        apply ih.exec _ _ _ _ _ (hb.kid node sc k hi hk)
        have := ecost_le_cost L k (fl' k.d.id)
        have := cost_le_costL L hk
        omega
      exact R.andThen_st_ne_fuel (optExec_st_ne_fuel _ _ _ _ _ _ _ _ fun k hk => key k (m1 k hk) _ _)
        (R.andThen_st_ne_fuel (optExec_st_ne_fuel _ _ _ _ _ _ _ _ fun k hk => key k (m2 k hk) _ _)
          (optExec_st_ne_fuel _ _ _ _ _ _ _ _ fun k hk => key k (m3 k hk) _ _))
  · -- execKids
    intro depth nc fl ks sc hi h
    cases ks with
    | nil => rw [execKids.eq_2]; exact okR_st _ _ _
    | cons k ks =>
      rw [execKids.eq_3]
      rw [costL, List.length_cons] at h
      have h1 := Nat.le_max_left (cost L k) (costL L ks)
      have h2 := Nat.le_max_right (cost L k) (costL L ks)
      refine R.andThen_st_ne_fuel ?_ ?_
      · apply ih.exec _ _ _ _ _ (hi k List.mem_cons_self)
        have := ecost_le_cost L k (fl k.d.id)
        omega
      · apply ih.kids _ _ _ _ _ (fun k' hk' => hi k' (List.mem_cons_of_mem _ hk')); omega
  · -- execFrag
    intro depth nc fl t sc hi ht h
    rw [execFrag.eq_2]
    split
    · simp [R.fail]
    · rename_i hd
      simp only [R.buffered_st]
      apply ih.exec _ _ _ _ _ hi
      have e : unset (emptyFl t.d.id) = 2 := unset_zero
      rw [e, ecost_two]
      rw [gcost_step cfg H depth hd] at h
      omega
  · -- procAttrs
    intro depth nc fl node as ps hi hsub
    cases as with
    | nil => rw [procAttrs.eq_2]; exact ⟨hi, fun _ => by simp⟩
    | cons a rest =>
      have hsub' : ∀ a' ∈ rest, a' ∈ node.d.attrs := fun a' ha' => hsub a' (List.mem_cons_of_mem _ ha')
      have ha : a ∈ node.d.attrs := hsub a List.mem_cons_self
      have hrest : ∀ {x : Nat}, (a :: rest).length + 1 + gcost cfg H depth + x ≤ f + 1 →
          rest.length + 1 + gcost cfg H depth + x ≤ f := by
        intro x hx; rw [List.length_cons] at hx; omega
      by_cases hctl : isCtl cfg a = false
      · rw [procAttrs_body _ _ _ _ _ _ _ _ _ _ hctl]
        have hdata := bodyStep_data cfg env (fun t sc => execFrag cfg env f depth nc fl t sc) node.d a (classify cfg a) ps nc fl
        have hfl := bodyStep_fl cfg env (fun t sc => execFrag cfg env f depth nc fl t sc) node.d a (classify cfg a) ps nc fl
        obtain ⟨r1, r2⟩ := ih.attrs depth
          (bodyStep cfg env (fun t sc => execFrag cfg env f depth nc fl t sc) node.d a _ ps nc fl).nc fl node rest
          (bodyStep cfg env (fun t sc => execFrag cfg env f depth nc fl t sc) node.d a _ ps nc fl).ps
          (by rw [hdata]; exact hi) hsub'
        refine ⟨?_, fun h => ?_⟩
        · unfold PR.andThen
          split
          · simp only; rw [hfl]; exact r1
          · rw [hdata]; exact hi
        · have hr := hrest h
          refine PR.andThen_st_ne_fuel ?_ ?_
          · apply bodyStep_st_ne_fuel
            intro name t ht
            obtain ⟨hcost, hit⟩ := hb.tpl node ps.data name t hi ht
            exact ih.frag _ _ _ _ _ hit hcost (by omega)
          · rw [hfl]; exact r2 hr
      · cases hc : classify cfg a with
        | with_ =>
          by_cases hf : fl node.d.id = 0
          · rw [procAttrs_with _ _ _ _ _ _ _ _ _ _ hc hf]
            unfold withStep
            split
            · exact ⟨hi, fun _ => by simp⟩
            · rename_i sc' lg hw
              have hi' : I node sc' := hb.withA node ps.data a sc' lg hi ha hc hw
              obtain ⟨r1, r2⟩ := ih.attrs depth nc fl node rest { ps with data := sc' } hi' hsub'
              exact ⟨r1, fun h => r2 (hrest h)⟩
          · rw [procAttrs_with_skip _ _ _ _ _ _ _ _ _ _ hc hf]
            obtain ⟨r1, r2⟩ := ih.attrs depth nc fl node rest ps hi hsub'
            exact ⟨r1, fun h => r2 (hrest h)⟩
        | cond b =>
          by_cases hf : fl node.d.id &&& 1 = 0
          · rw [procAttrs_cond _ _ _ _ _ _ _ _ _ _ hc hf]
            refine ⟨by rw [condStep_data]; exact hi, fun h => ?_⟩
            have hr := hrest h
            apply condStep_st_ne_fuel
            intro nc'
            apply ih.exec _ _ _ _ _ hi
            rw [setFl_same]
            have hu := unset_or1 _ hf
            rw [rcost_pos L node (by omega)] at hr
            have e : unset (fl node.d.id) - 1 = unset (fl node.d.id ||| 1) := by omega
            rw [e] at hr
            omega
          · rw [procAttrs_cond_skip _ _ _ _ _ _ _ _ _ _ hc hf]
            obtain ⟨r1, r2⟩ := ih.attrs depth nc fl node rest ps hi hsub'
            exact ⟨r1, fun h => r2 (hrest h)⟩
        | range =>
          by_cases hf : fl node.d.id &&& 2 = 0
          · rw [procAttrs_range _ _ _ _ _ _ _ _ _ _ hc hf]
            refine ⟨by rw [rangeStep_data]; exact hi, fun h => ?_⟩
            have hr := hrest h
            apply rangeStep_st_ne_fuel
            intro its lg hits
            obtain ⟨hlen, hI⟩ := hb.items node ps.data a its lg hi ha hc hits
            apply ih.items _ _ _ _ _ _ hI
            rw [setFl_same]
            have hu := unset_or2 _ hf
            rw [rcost_pos L node (by omega)] at hr
            have e : unset (fl node.d.id) - 1 = unset (fl node.d.id ||| 2) := by omega
            rw [e] at hr
            omega
          · rw [procAttrs_range_skip _ _ _ _ _ _ _ _ _ _ hc hf]
            obtain ⟨r1, r2⟩ := ih.attrs depth nc fl node rest ps hi hsub'
            exact ⟨r1, fun h => r2 (hrest h)⟩
        | _ => exact absurd (by simp [isCtl, hc]) hctl
  · -- execItems
    intro depth nc fl node its first hi h
    cases its with
    | nil => rw [execItems.eq_2]; exact okR_st _ _ _
    | cons sc rest =>
      rw [execItems.eq_3]
      rw [List.length_cons] at h
      refine R.andThen_st_keep (fl := fl) (R.andThen_st_ne_fuel (okR_st _ _ _) ?_)
        (R.andThen_keeps (KeepsBits.refl _) fun nc fl' => kp.exec _ _ _ _ _) ?_
      · apply ih.exec _ _ _ _ _ (hi sc List.mem_cons_self); simp only [R.okR]; omega
      · intro nc' fl' hk1
        apply ih.items _ _ _ _ _ _ (fun s hs => hi s (List.mem_cons_of_mem _ hs))
        have := ecost_mono L node (unset_keeps hk1 node.d.id)
        omega

/-- enough fuel ⇒ not out of fuel, for all six functions -/
theorem bound_all {cfg : Cfg} {env : Env Sc} {I : Node → Sc → Prop} {L H : Nat} (hb : Bounded cfg env I L H) :
    ∀ f, BoundAt cfg env I L H f
  | 0 => boundAt_zero cfg env I L H
  | f+1 => boundAt_succ hb (bound_all hb f)

/-- **Sufficient fuel for `Execute`.** If along the run (invariant `I`) every range expansion has at most `L` items and
    every template entered costs at most `H`, then `Execute` on `root` does not run out of fuel with
    `fuel ≥ cost L root + cfg.maxDepth * (H + 1) + 1`. -/
theorem execute_fuel_bound (cfg : Cfg) (env : Env Sc) (I : Node → Sc → Prop) (L H : Nat) (hb : Bounded cfg env I L H)
    (root : Node) (sc : Sc) (hi : I root sc) (fuel : Nat) (hf : cost L root + cfg.maxDepth * (H + 1) + 1 ≤ fuel) :
    (execute cfg env fuel root sc).st ≠ .fuel := by
  unfold execute
  apply (bound_all hb fuel).exec _ _ _ _ _ hi
  have e : unset (emptyFl root.d.id) = 2 := unset_zero
  rw [e, ecost_two]
  unfold gcost
  simp only [Nat.sub_zero]
  omega

end RN
