import TplModel.Exp.OpsPure
/-! # Arithmetic facts behind C09 / C11: `wrap64`, two's complement, shifts, truncated division

Core-only helper lemmas; the headline theorems are in `TplModel/Props/C11.lean` and `TplModel/Props/C09arith.lean`. -/
namespace EV

/-! ## wrap64 = reduction to the int64 range modulo 2^64 -/

theorem wrap64_bmod (i : Int) : wrap64 i = i.bmod (2^64) := by
  simp [wrap64, BitVec.toInt_ofInt]

theorem wrap64_spec (i : Int) : wrap64 i = (i + 2^63) % 2^64 - 2^63 := by
  rw [wrap64_bmod, Int.bmod_def]
  simp only [Nat.reducePow, Int.reducePow]
  split <;> omega

theorem wrap64_bitvec (i : Int) : wrap64 i = (BitVec.ofInt 64 i).toInt := rfl

theorem wrap64_range (i : Int) : -2^63 ≤ wrap64 i ∧ wrap64 i < 2^63 := by
  rw [wrap64_spec]; omega

theorem wrap64_inI64 (i : Int) : inI64 (wrap64 i) := wrap64_range i

theorem wrap64_of_inI64 {i : Int} (h : inI64 i) : wrap64 i = i := by
  obtain ⟨h1, h2⟩ := h
  rw [wrap64_spec]; omega

theorem wrap64_idem (i : Int) : wrap64 (wrap64 i) = wrap64 i := wrap64_of_inI64 (wrap64_inI64 i)

/-- `wrap64 i` differs from `i` by a multiple of 2^64 … -/
theorem wrap64_congr (i : Int) : ∃ k : Int, wrap64 i = i + k * 2^64 := by
  refine ⟨-((i + 2^63) / 2^64), ?_⟩
  rw [wrap64_spec]; omega

/-- … and is the only int64 that does -/
theorem wrap64_unique {i x : Int} (hx : inI64 x) (k : Int) (h : x = i + k * 2^64) : x = wrap64 i := by
  obtain ⟨h1, h2⟩ := hx
  rw [wrap64_spec]; omega

theorem wrap64_emod (i : Int) : wrap64 i % 2^64 = i % 2^64 := by
  rw [wrap64_spec]; omega

theorem toInt_inI64 (x : BitVec 64) : inI64 x.toInt := by
  have h1 := BitVec.le_toInt x
  have h2 := @BitVec.toInt_lt 64 x
  exact ⟨by simpa using h1, by simpa using h2⟩

/-! ## what `isInt` yields for well-formed values -/

/-- Every well-formed value of any of the ten kinds is seen by `isInt` as an int64
    (`uint` and `uint64` are wrapped by the model exactly like Go's `int64(u)`). -/
theorem isInt_inI64 {k : IK} {x a : Int} (hk : k.holds x) (_hu : k = .uint → x < 2^63)
    (h : isInt (.int k x) = some a) : inI64 a := by
  rw [isInt_int] at h
  cases k <;> simp only [IK.holds] at hk <;> simp at h <;> subst h <;>
    first | exact wrap64_inI64 _ | (unfold inI64; omega)

/-- `uint(2^64-1)` is seen as -1, as Go's `int64(uint(1<<64-1))` (model gap found while proving C11, now fixed). -/
example : isInt (.int .uint (2^64 - 1)) = some (-1) ∧ IK.holds .uint (2^64 - 1) ∧ convInt .uint (-1) = 2^64 - 1 := by decide

/-- for the signed kinds and the narrow unsigned kinds `isInt` is the identity -/
theorem isInt_id {k : IK} {x : Int} (hk : k ≠ .uint64) (hk' : k ≠ .uint) : isInt (.int k x) = some x := by
  rw [isInt_int]; simp [hk, hk']

/-! ## two's complement -/

theorem tc64_lt (i : Int) : tc64 i < 2^64 := by
  unfold tc64; omega

theorem tc64_cast (i : Int) : (tc64 i : Int) = i % 2^64 := by
  unfold tc64; omega

theorem toNat_ofInt64 (i : Int) : (BitVec.ofInt 64 i).toNat = tc64 i := by
  rw [BitVec.toNat_ofInt]; rfl

theorem tc64_wrap64 (i : Int) : tc64 (wrap64 i) = tc64 i := by
  unfold tc64; rw [wrap64_emod]

theorem tc64_natCast {n : Nat} (h : n < 2^64) : tc64 (n : Int) = n := by
  unfold tc64; omega

theorem tc64_of_nonneg {i : Int} (h0 : 0 ≤ i) (h : i < 2^64) : tc64 i = i.toNat := by
  unfold tc64; omega

theorem tc64_of_neg {i : Int} (h0 : i < 0) (h : -2^64 ≤ i) : tc64 i = (i + 2^64).toNat := by
  unfold tc64; omega

/-- an int64 is determined by its two's-complement representation -/
theorem tc64_inj {x y : Int} (hx : inI64 x) (hy : inI64 y) (h : tc64 x = tc64 y) : x = y := by
  obtain ⟨a1, a2⟩ := hx
  obtain ⟨b1, b2⟩ := hy
  have : (tc64 x : Int) = tc64 y := by rw [h]
  rw [tc64_cast, tc64_cast] at this
  omega

theorem wrap64_tc64 (i : Int) : wrap64 (tc64 i : Int) = wrap64 i := by
  rw [tc64_cast, wrap64_bmod, wrap64_bmod]
  exact Int.emod_bmod i (2^64)

theorem toInt_and64 (a b : Int) :
    (BitVec.ofInt 64 a &&& BitVec.ofInt 64 b).toInt = wrap64 ((tc64 a &&& tc64 b : Nat) : Int) := by
  rw [BitVec.toInt_and, toNat_ofInt64, toNat_ofInt64, wrap64_bmod]

theorem toInt_or64 (a b : Int) :
    (BitVec.ofInt 64 a ||| BitVec.ofInt 64 b).toInt = wrap64 ((tc64 a ||| tc64 b : Nat) : Int) := by
  rw [BitVec.toInt_or, toNat_ofInt64, toNat_ofInt64, wrap64_bmod]

theorem toInt_xor64 (a b : Int) :
    (BitVec.ofInt 64 a ^^^ BitVec.ofInt 64 b).toInt = wrap64 ((tc64 a ^^^ tc64 b : Nat) : Int) := by
  rw [BitVec.toInt_xor, toNat_ofInt64, toNat_ofInt64, wrap64_bmod]

theorem toInt_andNot64 (a b : Int) :
    (BitVec.ofInt 64 a &&& ~~~ (BitVec.ofInt 64 b)).toInt
      = wrap64 ((tc64 a &&& (2^64 - 1 - tc64 b) : Nat) : Int) := by
  rw [BitVec.toInt_and, BitVec.toNat_not, toNat_ofInt64, toNat_ofInt64, wrap64_bmod]

/-- `^a` (bitwise complement) is `-a - 1` -/
theorem toInt_not64 (a : Int) : (~~~ (BitVec.ofInt 64 a)).toInt = wrap64 (-a - 1) := by
  rw [BitVec.toInt_not, toNat_ofInt64, tc64_cast, wrap64_bmod, Int.bmod_def, Int.bmod_def]
  simp only [Nat.reducePow, Int.reducePow]
  split <;> split <;> omega

/-- two's-complement representations of the bitwise results (the statement "Go computes `&` bit by bit") -/
theorem tc64_and64 (a b : Int) :
    tc64 (BitVec.ofInt 64 a &&& BitVec.ofInt 64 b).toInt = tc64 a &&& tc64 b := by
  rw [toInt_and64, tc64_wrap64, tc64_natCast]
  exact Nat.and_lt_two_pow _ (tc64_lt b)

theorem tc64_or64 (a b : Int) :
    tc64 (BitVec.ofInt 64 a ||| BitVec.ofInt 64 b).toInt = tc64 a ||| tc64 b := by
  rw [toInt_or64, tc64_wrap64, tc64_natCast]
  exact Nat.or_lt_two_pow (tc64_lt a) (tc64_lt b)

theorem tc64_xor64 (a b : Int) :
    tc64 (BitVec.ofInt 64 a ^^^ BitVec.ofInt 64 b).toInt = tc64 a ^^^ tc64 b := by
  rw [toInt_xor64, tc64_wrap64, tc64_natCast]
  exact Nat.xor_lt_two_pow (tc64_lt a) (tc64_lt b)

theorem tc64_andNot64 (a b : Int) :
    tc64 (BitVec.ofInt 64 a &&& ~~~ (BitVec.ofInt 64 b)).toInt = tc64 a &&& (2^64 - 1 - tc64 b) := by
  rw [toInt_andNot64, tc64_wrap64, tc64_natCast]
  apply Nat.and_lt_two_pow
  have := tc64_lt b
  omega

/-! ## shifts -/

theorem toInt_shl64 (a : Int) (n : Nat) : (BitVec.ofInt 64 a <<< n).toInt = wrap64 (a * 2^n) := by
  rw [wrap64_bmod, BitVec.toInt_shiftLeft, BitVec.toNat_ofInt, Nat.shiftLeft_eq]
  have h : ((a % ((2:Nat)^64 : Nat)).toNat : Int) = a % ((2^64 : Nat) : Int) := by
    apply Int.toNat_of_nonneg
    apply Int.emod_nonneg
    decide
  rw [Int.natCast_mul, h, Int.emod_mul_bmod]
  simp

/-- arithmetic right shift is floor division (`/` on `Int` with a positive divisor rounds down) -/
theorem toInt_sshr64 (a : Int) (n : Nat) : ((BitVec.ofInt 64 a).sshiftRight n).toInt = wrap64 a / 2^n := by
  rw [BitVec.toInt_sshiftRight, Int.shiftRight_eq_div_pow, wrap64]
  simp

/-- shifting left by 64 or more clears every bit -/
theorem wrap64_mul_pow_ge (a : Int) {n : Nat} (h : 64 ≤ n) : wrap64 (a * 2^n) = 0 := by
  obtain ⟨m, rfl⟩ : ∃ m, n = 64 + m := ⟨n - 64, by omega⟩
  have e : a * 2 ^ (64 + m) = (a * 2^m) * 2^64 := by
    rw [Int.pow_add, Int.mul_comm (2^64) (2^m), Int.mul_assoc]
  rw [e]
  generalize a * 2^m = q
  exact (wrap64_unique (i := q * 2^64) (x := 0) (by decide) (-q) (by omega)).symm

/-- shifting an int64 right by 64 or more leaves only the sign -/
theorem inI64_div_pow_ge {a : Int} (ha : inI64 a) {n : Nat} (h : 64 ≤ n) :
    a / 2^n = if a < 0 then -1 else 0 := by
  obtain ⟨h1, h2⟩ := ha
  have hpn : (2:Nat)^64 ≤ 2^n := Nat.pow_le_pow_right (by decide) h
  have hpc : ((2^n : Nat) : Int) = (2:Int)^n := by simp
  have hp : (2:Int)^64 ≤ 2^n := by rw [← hpc]; omega
  have hpos : (0:Int) < 2^n := by omega
  split
  · have : a / 2^n = -1 := by
      apply Int.ediv_eq_iff_of_pos hpos |>.2
      omega
    exact this
  · exact Int.ediv_eq_zero_of_lt (by omega) (by omega)

/-! ## truncated division -/

theorem tdiv_inI64_or {a : Int} (ha : inI64 a) (b : Int) : inI64 (Int.tdiv a b) ∨ (a = -2^63 ∧ b = -1) := by
  obtain ⟨h1, h2⟩ := ha
  have h := Int.natAbs_tdiv_le_natAbs a b
  by_cases hb : b = -1
  · subst hb
    by_cases ha : a = -2^63
    · exact .inr ⟨ha, rfl⟩
    · left
      have : Int.tdiv a (-1) = -a := by
        rw [Int.tdiv_neg]; simp
      rw [this]; unfold inI64; omega
  · left
    unfold inI64
    by_cases h63 : a = -2^63
    · -- |b| ≠ 1 or b = 1
      subst h63
      by_cases hb1 : b = 1
      · subst hb1; simp
      · by_cases hb0 : b = 0
        · subst hb0; simp
        · have hq := Int.natAbs_tdiv (-2^63) b
          have hb2 : 2 ≤ b.natAbs := by omega
          have : (9223372036854775808 : Nat).div b.natAbs ≤ 9223372036854775808 / 2 := by
            show 9223372036854775808 / b.natAbs ≤ _
            exact Nat.div_le_div_left hb2 (by decide)
          have e : (-(2:Int)^63).natAbs = 9223372036854775808 := by decide
          rw [e] at hq
          omega
    · omega

/-- the quotient only overflows for minInt64 / -1, where Go (and the model) wrap to minInt64 -/
theorem wrap64_tdiv {a b : Int} (ha : inI64 a) (h : ¬ (a = -2^63 ∧ b = -1)) :
    wrap64 (Int.tdiv a b) = Int.tdiv a b := by
  rcases tdiv_inI64_or ha b with h' | h'
  · exact wrap64_of_inI64 h'
  · exact absurd h' h

theorem wrap64_tdiv_min : wrap64 (Int.tdiv (-2^63) (-1)) = -2^63 := by decide

/-- the remainder of an int64 is an int64: the model's unwrapped `Int.tmod` is Go's `%` -/
theorem tmod_inI64 {a : Int} (ha : inI64 a) (b : Int) : inI64 (Int.tmod a b) := by
  obtain ⟨h1, h2⟩ := ha
  have h := Int.natAbs_tmod a b
  unfold inI64
  by_cases hb : b.natAbs = 0
  · have : b = 0 := by omega
    subst this; simp; omega
  · have := Nat.mod_le a.natAbs b.natAbs
    have := Nat.mod_lt a.natAbs (by omega : 0 < b.natAbs)
    by_cases h0 : 0 ≤ a
    · have := Int.tmod_nonneg b h0
      omega
    · have hn : 0 ≤ -a := by omega
      have h3 := Int.tmod_nonneg b hn
      rw [Int.neg_tmod] at h3
      by_cases hm : a = -2^63
      · -- remainder magnitude < |b| and ≤ |a|; if it equalled 2^63 it would be positive
        omega
      · omega

/-- Go's identity `(a / b) * b + a % b == a` -/
theorem tdiv_mul_add_tmod (a b : Int) : Int.tdiv a b * b + Int.tmod a b = a := by
  rw [Int.mul_comm]; exact Int.mul_tdiv_add_tmod a b

/-! ## Bool-valued comparisons on `Int` -/

theorem beq_eq_decide (a b : Int) : (a == b) = decide (a = b) := by
  rw [Bool.eq_iff_iff]; simp
theorem not_beq_eq_decide (a b : Int) : (!(a == b)) = decide (a ≠ b) := by
  rw [Bool.eq_iff_iff]; simp
theorem lt_or_beq_eq_decide (a b : Int) : (decide (a < b) || a == b) = decide (a ≤ b) := by
  rw [Bool.eq_iff_iff]; simp; omega
theorem gt_or_beq_eq_decide (a b : Int) : (decide (b < a) || a == b) = decide (a ≥ b) := by
  rw [Bool.eq_iff_iff]; simp; omega
theorem decide_le_eq_or (a b : Int) : decide (a ≤ b) = (decide (a < b) || decide (a = b)) := by
  rw [Bool.eq_iff_iff]; simp; omega
theorem decide_ge_eq_or (a b : Int) : decide (a ≥ b) = (decide (a > b) || decide (a = b)) := by
  rw [Bool.eq_iff_iff]; simp; omega
theorem decide_le_eq_not_gt (a b : Int) : decide (a ≤ b) = !decide (a > b) := by
  rw [Bool.eq_iff_iff]; simp

end EV
