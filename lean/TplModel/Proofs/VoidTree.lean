import TplModel.Proofs.LoaderProofs
import TplModel.Html.Tree
/-! # Void elements in the tree builder — helper lemmas for `Props/C06void.lean`

Level: the loader's tree builder `EN.compileToks` + `EN.assemble` (= `EN.buildTreeS`, the model of `Parser.ParseTokens`
that the loader and the renderer use), and the registry of a loaded manager.

* `EN.isVoid cfg name` is the void test of `EN.tagItem` (`tagItem_act`: definitional); it depends on `lowerS name` only;
* `LeafyN P` : every node of a tree whose data satisfies `P` has no children and no end tag; builder invariant
  `assemble_leafy`; preserved by `annotate` and by the fragments that `addDefined` registers;
* `mapN g` : relabelling of a tree; `assemble` commutes with relabellings that keep `value` (`vassemble_map`);
* `AdjKids` : two consecutive items `leaf, non-close` end up as consecutive children of one node (`assemble_adj`);
* §5: the leaf invariant for the abstract builder `TB.build` (`TB.build_void_leafy`).
Core-only. -/
namespace EN
open RN (CAttr Part NodeD Node NK)

/-! ## 1. the void test -/

theorem toLower_idem (c : Char) : c.toLower.toLower = c.toLower := by
  unfold Char.toLower
  by_cases h : c.val ≥ 'A'.val ∧ c.val ≤ 'Z'.val
  · simp only [h, and_self, dite_true]
    have h1 : ¬ ((c.val + ('a'.val - 'A'.val)) ≥ 'A'.val ∧ (c.val + ('a'.val - 'A'.val)) ≤ 'Z'.val) := by
      obtain ⟨h1, h2⟩ := h
      have e2 : 'Z'.val.toNat = 90 := by decide
      have e3 : ('a'.val - 'A'.val).toNat = 32 := by decide
      have h2' : c.val.toNat ≤ 90 := by
        have := UInt32.le_iff_toNat_le.mp h2; omega
      have h1' : 65 ≤ c.val.toNat := by
        have e1 : 'A'.val.toNat = 65 := by decide
        have := UInt32.le_iff_toNat_le.mp h1; omega
      intro ⟨_, h4⟩
      have h4' := UInt32.le_iff_toNat_le.mp h4
      rw [UInt32.toNat_add, e3, e2] at h4'
      omega
    simp only [h1, dite_false]
  · simp only [h, dite_false]

theorem lowerS_idem (s : String) : lowerS (lowerS s) = lowerS s := by
  simp only [lowerS, String.toList_ofList, List.map_map]
  congr 1
  apply List.map_congr_left
  intro c _
  exact toLower_idem c

/-- `p.isVoidElement(name)`: both the configured names and the tag name are lower-cased before the comparison -/
def isVoid (cfg : Cfg) (name : String) : Bool := cfg.voidTags.any (fun v => lowerS v == lowerS name)

/-- what `tagItem` decides, with the void test named -/
theorem tagItem_act (cfg : Cfg) (id : Nat) (value name : String) (attrs : List CAttr) :
    (tagItem cfg id value name attrs).act =
      if (name.startsWith "/" || isSelfClose name attrs) || isVoid cfg name then
        (if isSelfClose name attrs || isVoid cfg name then .leaf else .close)
      else .open_ := rfl

theorem tagItem_d (cfg : Cfg) (id : Nat) (value name : String) (attrs : List CAttr) :
    (tagItem cfg id value name attrs).d =
      { id := id, kind := .tag, value := value, tagName := name, attrs := sortedAttrs cfg attrs } := rfl

theorem isVoid_congr (cfg : Cfg) {n n' : String} (h : lowerS n = lowerS n') : isVoid cfg n = isVoid cfg n' := by
  simp only [isVoid, h]

theorem isVoid_lowerS (cfg : Cfg) (n : String) : isVoid cfg (lowerS n) = isVoid cfg n :=
  isVoid_congr cfg (lowerS_idem n)

theorem isVoid_iff (cfg : Cfg) (n : String) : isVoid cfg n = true ↔ ∃ v ∈ cfg.voidTags, lowerS v = lowerS n := by
  simp [isVoid]

theorem tagItem_void (cfg : Cfg) (id : Nat) (value name : String) (attrs : List CAttr) (h : isVoid cfg name = true) :
    (tagItem cfg id value name attrs).act = .leaf := by
  simp [tagItem_act, h]

/-- "a tag node whose name, lower-cased, is in the configured void list" -/
def VoidD (cfg : Cfg) (d : NodeD) : Prop := d.kind = .tag ∧ isVoid cfg d.tagName = true

instance (cfg : Cfg) (d : NodeD) : Decidable (VoidD cfg d) := by unfold VoidD; infer_instance

theorem compileTok_void {cfg : Cfg} {id : Nat} {t : HS.Token} {tbl tbl' : Tbl} {it : Item}
    (h : compileTok cfg id t tbl = (.ok it, tbl')) (hv : VoidD cfg it.d) : it.act = .leaf := by
  unfold compileTok at h
  split at h
  · obtain ⟨cs, _, h2⟩ := mapRes_ok h
    subst h2
    exact tagItem_void _ _ _ _ _ hv.2
  · cases h
  · cases h; rfl

theorem compileToks_void {cfg : Cfg} : ∀ (toks : List HS.Token) (id : Nat) (tbl tbl' : Tbl) (items : List Item),
    compileToks cfg id toks tbl = (.ok items, tbl') → ∀ it ∈ items, VoidD cfg it.d → it.act = .leaf
  | [], id, tbl, tbl', items, h => by
    simp only [compileToks, Prod.mk.injEq, LoadRes.ok.injEq] at h
    rw [← h.1]; intro it hit; cases hit
  | t :: ts, id, tbl, tbl', items, h => by
    simp only [compileToks] at h
    obtain ⟨it, t1, h1, h2⟩ := bindRes_ok h
    obtain ⟨is0, h3, h4⟩ := mapRes_ok h2
    subst h4
    intro x hx
    rcases List.mem_cons.mp hx with rfl | hx
    · exact compileTok_void h1
    · exact compileToks_void ts (id + 1) t1 tbl' is0 h3 x hx

/-! ## 2. "nodes with `P` are leaves", over whole trees -/

/-- `Sub m n`: `m` is `n` or one of its descendants (any depth) -/
inductive Sub : Node → Node → Prop
  | refl (n : Node) : Sub n n
  | step {m k n : Node} : k ∈ n.kids → Sub m k → Sub m n

theorem Sub.trans {a b c : Node} (h1 : Sub a b) (h2 : Sub b c) : Sub a c := by
  induction h2 with
  | refl => exact h1
  | step hk _ ih => exact .step hk ih

mutual
/-- every node of the tree whose data satisfies `P` has no children and no end tag -/
def LeafyN (P : NodeD → Prop) : Node → Prop
  | .mk d kids e => (P d → kids = [] ∧ e = none) ∧ LeafyL P kids
def LeafyL (P : NodeD → Prop) : List Node → Prop
  | [] => True
  | k :: ks => LeafyN P k ∧ LeafyL P ks
end

theorem leafyL_iff {P : NodeD → Prop} : ∀ {ks : List Node}, LeafyL P ks ↔ ∀ k ∈ ks, LeafyN P k
  | [] => by simp [LeafyL]
  | k :: ks => by simp [LeafyL, leafyL_iff (ks := ks)]

theorem LeafyN.here {P : NodeD → Prop} {n : Node} (h : LeafyN P n) (hp : P n.d) : n.kids = [] ∧ n.endVal = none := by
  cases n; exact h.1 hp

theorem LeafyN.kids {P : NodeD → Prop} {n : Node} (h : LeafyN P n) : ∀ k ∈ n.kids, LeafyN P k := by
  cases n; exact leafyL_iff.mp h.2

theorem LeafyN.sub {P : NodeD → Prop} {m n : Node} (h : LeafyN P n) (hs : Sub m n) : LeafyN P m := by
  induction hs with
  | refl => exact h
  | step hk _ ih => exact ih (h.kids _ hk)

/-- the tree-wide reading: at any depth -/
theorem leafyN_iff_sub {P : NodeD → Prop} (n : Node) :
    LeafyN P n ↔ ∀ m, Sub m n → P m.d → m.kids = [] ∧ m.endVal = none := by
  constructor
  · intro h m hs hp; exact (h.sub hs).here hp
  · revert n
    refine RN.Spec.Node.induct (PL := fun ks => (∀ k ∈ ks, ∀ m, Sub m k → P m.d → m.kids = [] ∧ m.endVal = none) → LeafyL P ks)
      ?_ ?_ ?_
    · intro d kids e ih h
      refine ⟨fun hp => h _ (.refl _) hp, ih ?_⟩
      intro k hk m hs
      exact h m (.step hk hs)
    · intro _; trivial
    · intro k ks ih1 ih2 h
      exact ⟨ih1 (h k (List.mem_cons_self)), ih2 (fun k' hk' => h k' (List.mem_cons_of_mem _ hk'))⟩

theorem leafyN_leaf {P : NodeD → Prop} (d : NodeD) : LeafyN P (.mk d [] none) := ⟨fun _ => ⟨rfl, rfl⟩, trivial⟩

theorem leafyN_mk {P : NodeD → Prop} {d : NodeD} {kids : List Node} {e : Option String} (hd : ¬ P d)
    (hk : ∀ k ∈ kids, LeafyN P k) : LeafyN P (.mk d kids e) := ⟨fun hp => absurd hp hd, leafyL_iff.mpr hk⟩

/-- invariant of the builder state -/
def BSLeafy (P : NodeD → Prop) (bs : BS) : Prop :=
  (∀ fr ∈ bs.stack, ¬ P fr.d ∧ ∀ k ∈ fr.before, LeafyN P k) ∧ ∀ k ∈ bs.cur, LeafyN P k

theorem stepItem_leafy {P : NodeD → Prop} {bs : BS} {it : Item} (hit : P it.d → it.act = .leaf) (h : BSLeafy P bs) :
    BSLeafy P (stepItem bs it) := by
  obtain ⟨hs, hc⟩ := h
  unfold stepItem
  cases ha : it.act with
  | leaf =>
    refine ⟨hs, ?_⟩
    intro k hk
    rcases List.mem_cons.mp hk with rfl | hk
    · exact leafyN_leaf _
    · exact hc k hk
  | open_ =>
    refine ⟨?_, (by intro k hk; cases hk)⟩
    intro fr hfr
    rcases List.mem_cons.mp hfr with rfl | hfr
    · exact ⟨fun hp => (by rw [hit hp] at ha; cases ha), hc⟩
    · exact hs fr hfr
  | close =>
    cases hst : bs.stack with
    | nil =>
      refine ⟨(by intro fr hfr; cases hfr), ?_⟩
      intro k hk
      rcases List.mem_cons.mp hk with rfl | hk
      · exact leafyN_leaf _
      · exact hc k hk
    | cons fr rest =>
      rw [hst] at hs
      obtain ⟨hfd, hfb⟩ := hs fr (List.mem_cons_self)
      refine ⟨fun fr' hfr' => hs fr' (List.mem_cons_of_mem _ hfr'), ?_⟩
      intro k hk
      rcases List.mem_cons.mp hk with rfl | hk
      · exact leafyN_mk hfd (fun k hk => hc k (List.mem_reverse.mp hk))
      · exact hfb k hk

theorem foldl_leafy {P : NodeD → Prop} : ∀ (items : List Item) (bs : BS), (∀ it ∈ items, P it.d → it.act = .leaf) →
    BSLeafy P bs → BSLeafy P (items.foldl stepItem bs)
  | [], _, _, h => h
  | it :: rest, bs, hit, h =>
    foldl_leafy rest (stepItem bs it) (fun x hx => hit x (List.mem_cons_of_mem _ hx)) (stepItem_leafy (hit it (List.mem_cons_self)) h)

theorem closeAll_leafy {P : NodeD → Prop} : ∀ (stack : List Frame) (cur : List Node),
    (∀ fr ∈ stack, ¬ P fr.d ∧ ∀ k ∈ fr.before, LeafyN P k) → (∀ k ∈ cur, LeafyN P k) →
    ∀ k ∈ closeAll stack cur, LeafyN P k
  | [], cur, _, hc => hc
  | fr :: rest, cur, hs, hc => by
    obtain ⟨hfd, hfb⟩ := hs fr (List.mem_cons_self)
    apply closeAll_leafy rest _ (fun fr' hfr' => hs fr' (List.mem_cons_of_mem _ hfr'))
    intro k hk
    rcases List.mem_cons.mp hk with rfl | hk
    · exact leafyN_mk hfd (fun k hk => hc k (List.mem_reverse.mp hk))
    · exact hfb k hk

/-- **builder invariant**: if every item with `P` is placed as a leaf (and the synthetic root does not satisfy `P`),
    every node with `P` of the assembled tree, at any depth, has no children and no end tag -/
theorem assemble_leafy {P : NodeD → Prop} (hroot : ¬ P rootD) (items : List Item)
    (hit : ∀ it ∈ items, P it.d → it.act = .leaf) : LeafyN P (assemble items) := by
  have h0 : BSLeafy P ⟨[], []⟩ := ⟨(by intro fr hfr; cases hfr), (by intro k hk; cases hk)⟩
  obtain ⟨hs, hc⟩ := foldl_leafy items _ hit h0
  unfold assemble
  exact leafyN_mk hroot (fun k hk => closeAll_leafy _ _ hs hc k (List.mem_reverse.mp hk))

theorem not_voidD_rootD (cfg : Cfg) : ¬ VoidD cfg rootD := by
  intro h; cases h.1

/-- a void item does not move the insertion point: the open elements are the same before and after it -/
theorem stepItem_of_leaf (bs : BS) (it : Item) (h : it.act = .leaf) :
    stepItem bs it = ⟨bs.stack, .mk it.d [] none :: bs.cur⟩ := by
  simp [stepItem, h]

/-! ### `annotate` and the registered fragments keep the property -/

theorem leafyN_setSib {P : NodeD → Prop} (hP : ∀ (d : NodeD) p nb, P { d with prevTag := p, nextBlank := nb } ↔ P d)
    (k : Node) (p : Option Nat) (nb : Option String) : LeafyN P (setSib k p nb) ↔ LeafyN P k := by
  cases k with
  | mk d kids e => simp only [setSib, LeafyN, RN.Node.d, RN.Node.kids, RN.Node.endVal, hP]

theorem annotate_leafy {P : NodeD → Prop} (hP : ∀ (d : NodeD) p nb, P { d with prevTag := p, nextBlank := nb } ↔ P d) :
    ∀ n : Node, LeafyN P (annotate n) ↔ LeafyN P n := by
  refine RN.Spec.Node.induct (PL := fun ks => ∀ prev, LeafyL P (annotateL prev ks) ↔ LeafyL P ks) ?_ ?_ ?_
  · intro d kids e ih
    simp only [annotate, LeafyN, ih]
    constructor
    · rintro ⟨h1, h2⟩
      refine ⟨fun hp => ?_, h2⟩
      obtain ⟨a, b⟩ := h1 hp
      refine ⟨?_, b⟩
      cases kids with
      | nil => rfl
      | cons k ks => simp [annotateL] at a
    · rintro ⟨h1, h2⟩
      refine ⟨fun hp => ?_, h2⟩
      obtain ⟨a, b⟩ := h1 hp
      subst a
      exact ⟨rfl, b⟩
  · intro prev; simp [annotateL]
  · intro k ks ih1 ih2 prev
    simp only [annotateL, LeafyL, leafyN_setSib hP, ih1, ih2]

theorem voidD_strip (cfg : Cfg) (d : NodeD) (p : Option Nat) (nb : Option String) :
    VoidD cfg { d with prevTag := p, nextBlank := nb } ↔ VoidD cfg d := Iff.rfl

theorem fragRoot_leafy {P : NodeD → Prop} (hroot : ¬ P rootD) {kids : List Node} (h : ∀ k ∈ kids, LeafyN P k) :
    LeafyN P (fragRoot kids) :=
  leafyN_mk hroot (fun k hk => h k ((trimBlankKids_sublist kids).subset hk))

theorem addDefined_leafy {P : NodeD → Prop} (hroot : ¬ P rootD) (cfg : Cfg) (cx : Ctx) :
    ∀ (n : Node) (tpls tpls' : List (String × Node)), LeafyN P n →
      addDefined cfg cx n tpls = .ok tpls' → ∀ p ∈ tpls', p ∈ tpls ∨ LeafyN P p.2 := by
  refine RN.Spec.Node.induct (PL := fun ks => ∀ (tpls tpls' : List (String × Node)), (∀ k ∈ ks, LeafyN P k) →
    addDefinedL cfg cx ks tpls = .ok tpls' → ∀ p ∈ tpls', p ∈ tpls ∨ LeafyN P p.2) ?_ ?_ ?_
  · intro d kids e ih tpls tpls' hl h p hp
    have hk : ∀ k ∈ kids, LeafyN P k := leafyL_iff.mp hl.2
    rw [addDefined] at h
    cases hd : defineHere cfg cx d kids tpls with
    | ok t =>
      simp only [hd] at h
      rcases ih t tpls' hk h p hp with hp | hp
      · rcases defineHere_sub hd p hp with hp | hp
        · exact Or.inl hp
        · right; rw [hp]; exact fragRoot_leafy hroot hk
      · exact Or.inr hp
    | err => simp [hd] at h
    | panic => simp [hd] at h
    | unsupported => simp [hd] at h
  · intro tpls tpls' _ h p hp
    simp only [addDefinedL, LoadRes.ok.injEq] at h
    exact Or.inl (h ▸ hp)
  · intro k ks ih1 ih2 tpls tpls' hl h p hp
    rw [addDefinedL] at h
    cases hk : addDefined cfg cx k tpls with
    | ok t =>
      simp only [hk] at h
      rcases ih2 t tpls' (fun k' hk' => hl k' (List.mem_cons_of_mem _ hk')) h p hp with hp | hp
      · exact ih1 tpls t (hl k (List.mem_cons_self)) hk p hp
      · exact Or.inr hp
    | err => simp [hk] at h
    | panic => simp [hk] at h
    | unsupported => simp [hk] at h

/-! ## 3. relabelling: `assemble` commutes with every map on node data that keeps `value` -/

mutual
def mapN (g : NodeD → NodeD) : Node → Node
  | .mk d kids e => .mk (g d) (mapL g kids) e
def mapL (g : NodeD → NodeD) : List Node → List Node
  | [] => []
  | k :: ks => mapN g k :: mapL g ks
end

theorem mapL_eq_map (g : NodeD → NodeD) : ∀ ks : List Node, mapL g ks = ks.map (mapN g)
  | [] => rfl
  | k :: ks => by simp [mapL, mapL_eq_map g ks]

theorem mapL_reverse (g : NodeD → NodeD) (ks : List Node) : mapL g ks.reverse = (mapL g ks).reverse := by
  simp [mapL_eq_map]

def vmapItem (g : NodeD → NodeD) (it : Item) : Item := ⟨g it.d, it.act⟩
def vmapFrame (g : NodeD → NodeD) (fr : Frame) : Frame := ⟨g fr.d, mapL g fr.before⟩
def vmapBS (g : NodeD → NodeD) (bs : BS) : BS := ⟨bs.stack.map (vmapFrame g), mapL g bs.cur⟩

theorem vstepItem_map (g : NodeD → NodeD) (hg : ∀ d, (g d).value = d.value) (bs : BS) (it : Item) :
    vmapBS g (stepItem bs it) = stepItem (vmapBS g bs) (vmapItem g it) := by
  unfold stepItem
  cases ha : it.act with
  | leaf => simp [vmapItem, ha, vmapBS, mapL, mapN]
  | open_ => simp [vmapItem, ha, vmapBS, mapL, vmapFrame]
  | close =>
    cases hst : bs.stack with
    | nil => simp [vmapItem, ha, vmapBS, mapL, mapN, hst]
    | cons fr rest => simp [vmapItem, ha, vmapBS, mapL, mapN, hst, vmapFrame, mapL_reverse, hg]

theorem foldl_map (g : NodeD → NodeD) (hg : ∀ d, (g d).value = d.value) : ∀ (items : List Item) (bs : BS),
    vmapBS g (items.foldl stepItem bs) = (items.map (vmapItem g)).foldl stepItem (vmapBS g bs)
  | [], _ => rfl
  | it :: rest, bs => by
    simp only [List.foldl_cons, List.map_cons]
    rw [foldl_map g hg rest, vstepItem_map g hg]

theorem vcloseAll_map (g : NodeD → NodeD) : ∀ (stack : List Frame) (cur : List Node),
    mapL g (closeAll stack cur) = closeAll (stack.map (vmapFrame g)) (mapL g cur)
  | [], _ => rfl
  | fr :: rest, cur => by
    simp only [closeAll, List.map_cons]
    rw [vcloseAll_map g rest]
    simp [mapL, mapN, vmapFrame, mapL_reverse]

/-- the tree of relabelled items is the relabelled tree -/
theorem vassemble_map (g : NodeD → NodeD) (hg : ∀ d, (g d).value = d.value) (hroot : g rootD = rootD) (items : List Item) :
    mapN g (assemble items) = assemble (items.map (vmapItem g)) := by
  unfold assemble
  have h := foldl_map g hg items ⟨[], []⟩
  simp only [mapN, hroot, mapL_reverse, vcloseAll_map]
  have e : vmapBS g ⟨[], []⟩ = ⟨[], []⟩ := rfl
  rw [e] at h
  rw [← h]
  rfl

/-- forget the spelling of tag names: every name lower-cased -/
def lowD (d : NodeD) : NodeD := { d with tagName := lowerS d.tagName }

theorem lowD_value (d : NodeD) : (lowD d).value = d.value := rfl
theorem lowD_rootD : lowD rootD = rootD := by
  simp [lowD, rootD, lowerS]

/-! ### re-casing void start tags -/

/-- `t'` is `t`, or `t` with the name of its (void) tag spelled in another letter case -/
def RecasedVoid (cfg : Cfg) (t t' : HS.Token) : Prop :=
  t' = t ∨ ∃ tg name', t.tag = some tg ∧ isVoid cfg (String.ofList tg.name) = true ∧
    lowerS (String.ofList name') = lowerS (String.ofList tg.name) ∧ t' = { t with tag := some { tg with name := name' } }

theorem mapRes_mapRes {α β γ : Type} (f : β → γ) (g : α → β) (r : LoadRes α × Tbl) :
    mapRes f (mapRes g r) = mapRes (fun x => f (g x)) r := by
  obtain ⟨r1, r2⟩ := r
  cases r1 <;> rfl

theorem mapRes_congr {α β : Type} {f g : α → β} (h : ∀ x, f x = g x) (r : LoadRes α × Tbl) : mapRes f r = mapRes g r := by
  have : f = g := funext h
  rw [this]

theorem tagItem_recase (cfg : Cfg) (id : Nat) (value n n' : String) (attrs : List CAttr)
    (hv : isVoid cfg n = true) (hl : lowerS n' = lowerS n) :
    vmapItem lowD (tagItem cfg id value n' attrs) = vmapItem lowD (tagItem cfg id value n attrs) := by
  have hv' : isVoid cfg n' = true := by rw [isVoid_congr cfg hl]; exact hv
  simp only [vmapItem, tagItem_void _ _ _ _ _ hv, tagItem_void _ _ _ _ _ hv', tagItem_d, lowD, hl]

theorem compileTok_recase (cfg : Cfg) (id : Nat) (t t' : HS.Token) (tbl : Tbl) (h : RecasedVoid cfg t t') :
    mapRes (vmapItem lowD) (compileTok cfg id t' tbl) = mapRes (vmapItem lowD) (compileTok cfg id t tbl) := by
  rcases h with rfl | ⟨tg, name', htag, hv, hl, rfl⟩
  · rfl
  · obtain ⟨kind, value, start, stop, tag⟩ := t
    simp only at htag
    subst htag
    cases kind
    · simp only [compileTok, mapRes_mapRes]
      exact mapRes_congr (fun cs => tagItem_recase cfg id _ _ _ cs hv hl) _
    all_goals rfl

/-- what equality up to `mapRes f` means -/
theorem mapRes_eq_cases {α β : Type} {f : α → β} {r r' : LoadRes α × Tbl} (h : mapRes f r' = mapRes f r) :
    r'.2 = r.2 ∧ ((∃ x x', r.1 = .ok x ∧ r'.1 = .ok x' ∧ f x' = f x) ∨
      (r.1 = .err ∧ r'.1 = .err) ∨ (r.1 = .panic ∧ r'.1 = .panic) ∨ (r.1 = .unsupported ∧ r'.1 = .unsupported)) := by
  obtain ⟨r1, r2⟩ := r
  obtain ⟨r1', r2'⟩ := r'
  cases r1 <;> cases r1' <;> simp [mapRes, LoadRes.map] at h ⊢ <;> simp [h]

theorem compileToks_recase (cfg : Cfg) {toks toks' : List HS.Token} (h : Aligned (RecasedVoid cfg) toks toks') :
    ∀ (id : Nat) (tbl : Tbl), mapRes (List.map (vmapItem lowD)) (compileToks cfg id toks' tbl) =
      mapRes (List.map (vmapItem lowD)) (compileToks cfg id toks tbl) := by
  induction h with
  | nil => intro id tbl; rfl
  | @cons t t' ts ts' hr _ ih =>
    intro id tbl
    simp only [compileToks]
    obtain ⟨h2, hc⟩ := mapRes_eq_cases (compileTok_recase cfg id t t' tbl hr)
    rcases hr1 : compileTok cfg id t tbl with ⟨r1, tb1⟩
    rcases hr1' : compileTok cfg id t' tbl with ⟨r1', tb1'⟩
    rw [hr1, hr1'] at hc h2
    simp only at h2 hc
    subst h2
    rcases hc with ⟨x, x', rfl, rfl, hx⟩ | ⟨rfl, rfl⟩ | ⟨rfl, rfl⟩ | ⟨rfl, rfl⟩
    · simp only [bindRes, mapRes_mapRes, List.map_cons, hx]
      have := ih (id + 1) tb1'
      rw [← mapRes_mapRes (fun l => vmapItem lowD x :: l) (List.map (vmapItem lowD)),
        ← mapRes_mapRes (fun l => vmapItem lowD x :: l) (List.map (vmapItem lowD)), this]
    all_goals rfl

/-! ## 4. position: a leaf item followed by an item that is not an end tag — consecutive children of one node -/

/-- `p` has two consecutive children: `V`, then a node with data `sd` -/
def AdjKids (V : Node) (sd : NodeD) (p : Node) : Prop := ∃ a b S, p.kids = a ++ V :: S :: b ∧ S.d = sd

/-- the same in a reversed list of finished siblings -/
def AdjRev (V : Node) (sd : NodeD) (ks : List Node) : Prop := ∃ a b S, ks = b ++ S :: V :: a ∧ S.d = sd
def Deep (V : Node) (sd : NodeD) (ks : List Node) : Prop := ∃ n ∈ ks, ∃ p, Sub p n ∧ AdjKids V sd p
def Has (V : Node) (sd : NodeD) (ks : List Node) : Prop := AdjRev V sd ks ∨ Deep V sd ks
/-- the second node is still open: `V` is the last finished sibling before it -/
def Pending (V : Node) (sd : NodeD) (fr : Frame) : Prop := fr.d = sd ∧ ∃ a, fr.before = V :: a
def BSHas (V : Node) (sd : NodeD) (stack : List Frame) (cur : List Node) : Prop :=
  Has V sd cur ∨ ∃ fr ∈ stack, Has V sd fr.before ∨ Pending V sd fr

theorem has_cons {V : Node} {sd : NodeD} {ks : List Node} (x : Node) (h : Has V sd ks) : Has V sd (x :: ks) := by
  rcases h with ⟨a, b, S, rfl, hS⟩ | ⟨n, hn, p, hp, hadj⟩
  · exact Or.inl ⟨a, x :: b, S, rfl, hS⟩
  · exact Or.inr ⟨n, List.mem_cons_of_mem _ hn, p, hp, hadj⟩

theorem node_of_has {V : Node} {sd : NodeD} {cur : List Node} (h : Has V sd cur) (d : NodeD) (e : Option String) :
    ∃ p, Sub p (.mk d cur.reverse e) ∧ AdjKids V sd p := by
  rcases h with ⟨a, b, S, rfl, hS⟩ | ⟨n, hn, p, hp, hadj⟩
  · exact ⟨_, .refl _, a.reverse, b.reverse, S, by simp [RN.Node.kids], hS⟩
  · exact ⟨p, .step (by simpa [RN.Node.kids] using hn) hp, hadj⟩

theorem has_closed {V : Node} {sd : NodeD} {cur : List Node} (h : Has V sd cur) (d : NodeD) (e : Option String)
    (rest : List Node) : Has V sd (.mk d cur.reverse e :: rest) := by
  obtain ⟨p, hp, hadj⟩ := node_of_has h d e
  exact Or.inr ⟨_, List.mem_cons_self, p, hp, hadj⟩

/-- closing the innermost open element keeps the adjacency -/
theorem has_pop {V : Node} {sd : NodeD} {fr : Frame} {rest : List Frame} {cur : List Node} (e : Option String)
    (h : BSHas V sd (fr :: rest) cur) : BSHas V sd rest (.mk fr.d cur.reverse e :: fr.before) := by
  rcases h with h | ⟨fr', hfr', h⟩
  · exact Or.inl (has_closed h _ _ _)
  · rcases List.mem_cons.mp hfr' with rfl | hfr'
    · rcases h with h | ⟨hd, a, ha⟩
      · exact Or.inl (has_cons _ h)
      · exact Or.inl (Or.inl ⟨a, [], .mk fr'.d cur.reverse e, by simp [ha], hd⟩)
    · exact Or.inr ⟨fr', hfr', h⟩

theorem stepItem_has {V : Node} {sd : NodeD} (bs : BS) (it : Item) (h : BSHas V sd bs.stack bs.cur) :
    BSHas V sd (stepItem bs it).stack (stepItem bs it).cur := by
  unfold stepItem
  cases ha : it.act with
  | leaf =>
    rcases h with h | h
    · exact Or.inl (has_cons _ h)
    · exact Or.inr h
  | open_ =>
    rcases h with h | ⟨fr, hfr, h⟩
    · exact Or.inr ⟨_, List.mem_cons_self, Or.inl h⟩
    · exact Or.inr ⟨fr, List.mem_cons_of_mem _ hfr, h⟩
  | close =>
    cases hst : bs.stack with
    | nil =>
      rw [hst] at h
      rcases h with h | ⟨fr, hfr, _⟩
      · exact Or.inl (has_cons _ h)
      · cases hfr
    | cons fr rest =>
      rw [hst] at h
      exact has_pop _ h

theorem foldl_has {V : Node} {sd : NodeD} : ∀ (items : List Item) (bs : BS), BSHas V sd bs.stack bs.cur →
    BSHas V sd (items.foldl stepItem bs).stack (items.foldl stepItem bs).cur
  | [], _, h => h
  | it :: rest, bs, h => foldl_has rest (stepItem bs it) (stepItem_has bs it h)

theorem closeAll_has {V : Node} {sd : NodeD} : ∀ (stack : List Frame) (cur : List Node), BSHas V sd stack cur →
    Has V sd (closeAll stack cur)
  | [], cur, h => by
    rcases h with h | ⟨fr, hfr, _⟩
    · exact h
    · cases hfr
  | fr :: rest, cur, h => closeAll_has rest _ (has_pop none h)

/-- **position.** An item placed as a leaf, directly followed by an item that is not an end tag: in the assembled tree
    the two are consecutive children of one node — the second is a sibling of the first, at whatever depth. -/
theorem assemble_adj (pre post : List Item) (v s : Item) (hv : v.act = .leaf) (hs : s.act ≠ .close) :
    ∃ p, Sub p (assemble (pre ++ v :: s :: post)) ∧ AdjKids (.mk v.d [] none) s.d p := by
  unfold assemble
  simp only [List.foldl_append, List.foldl_cons]
  generalize pre.foldl stepItem ⟨[], []⟩ = bs1
  rw [stepItem_of_leaf bs1 v hv]
  have h3 : BSHas (.mk v.d [] none) s.d (stepItem ⟨bs1.stack, .mk v.d [] none :: bs1.cur⟩ s).stack
      (stepItem ⟨bs1.stack, .mk v.d [] none :: bs1.cur⟩ s).cur := by
    unfold stepItem
    cases ha : s.act with
    | leaf => exact Or.inl (Or.inl ⟨bs1.cur, [], _, rfl, rfl⟩)
    | open_ => exact Or.inr ⟨_, List.mem_cons_self, Or.inr ⟨rfl, _, rfl⟩⟩
    | close => exact absurd ha hs
  have h4 := foldl_has post _ h3
  exact node_of_has (closeAll_has _ _ h4) rootD none

/-! ### token level -/

theorem compileToks_append (cfg : Cfg) : ∀ (a b : List HS.Token) (id : Nat) (tbl tbl' : Tbl) (items : List Item),
    compileToks cfg id (a ++ b) tbl = (.ok items, tbl') →
    ∃ ia ib t1, compileToks cfg id a tbl = (.ok ia, t1) ∧ compileToks cfg (id + a.length) b t1 = (.ok ib, tbl') ∧
      items = ia ++ ib
  | [], b, id, tbl, tbl', items, h => ⟨[], items, tbl, rfl, by simpa using h, rfl⟩
  | t :: a, b, id, tbl, tbl', items, h => by
    simp only [List.cons_append, compileToks] at h
    obtain ⟨it, t1, h1, h2⟩ := bindRes_ok h
    obtain ⟨is0, h3, h4⟩ := mapRes_ok h2
    obtain ⟨ia, ib, t2, r1, r2, r3⟩ := compileToks_append cfg a b (id + 1) t1 tbl' is0 h3
    refine ⟨it :: ia, ib, t2, ?_, ?_, by simp [h4, r3]⟩
    · simp only [compileToks, h1, bindRes, r1, mapRes, LoadRes.map]
    · rw [List.length_cons, ← r2]; congr 1; omega

theorem compileToks_cons {cfg : Cfg} {t : HS.Token} {ts : List HS.Token} {id : Nat} {tbl tbl' : Tbl} {items : List Item}
    (h : compileToks cfg id (t :: ts) tbl = (.ok items, tbl')) :
    ∃ it rest t1, compileTok cfg id t tbl = (.ok it, t1) ∧ compileToks cfg (id + 1) ts t1 = (.ok rest, tbl') ∧
      items = it :: rest := by
  simp only [compileToks] at h
  obtain ⟨it, t1, h1, h2⟩ := bindRes_ok h
  obtain ⟨is0, h3, h4⟩ := mapRes_ok h2
  exact ⟨it, is0, t1, h1, h3, h4⟩

/-- the token is not an end tag `</name>` (text, comment, CDATA, start tag, self-closing tag) -/
def NotEndTag (t : HS.Token) : Prop :=
  t.kind = .tag → ∀ tg, t.tag = some tg → (String.ofList tg.name).startsWith "/" = false

theorem tagItem_not_close (cfg : Cfg) (id : Nat) (value name : String) (attrs : List CAttr)
    (h : name.startsWith "/" = false) : (tagItem cfg id value name attrs).act ≠ .close := by
  rw [tagItem_act, h]
  cases isSelfClose name attrs <;> cases isVoid cfg name <;> simp

theorem compileTok_not_close {cfg : Cfg} {id : Nat} {t : HS.Token} {tbl tbl' : Tbl} {it : Item}
    (h : compileTok cfg id t tbl = (.ok it, tbl')) (hn : NotEndTag t) : it.act ≠ .close := by
  unfold compileTok at h
  split at h
  · rename_i tg hk htag
    obtain ⟨cs, _, h2⟩ := mapRes_ok h
    subst h2
    exact tagItem_not_close _ _ _ _ _ (hn hk tg htag)
  · cases h
  · cases h; simp

theorem compileTok_tag {cfg : Cfg} {id : Nat} {t : HS.Token} {tg : HS.Tag} {tbl tbl' : Tbl} {it : Item}
    (h : compileTok cfg id t tbl = (.ok it, tbl')) (hk : t.kind = .tag) (htag : t.tag = some tg) :
    ∃ cs, it = tagItem cfg id (String.ofList t.value) (String.ofList tg.name) cs := by
  obtain ⟨kind, value, start, stop, tag⟩ := t
  simp only at hk htag
  subst hk htag
  simp only [compileTok] at h
  obtain ⟨cs, _, h2⟩ := mapRes_ok h
  exact ⟨cs, h2⟩

end EN

/-! ## 5. the same invariant for the abstract builder `TB.build` (any token type, any classifier) -/
namespace TB
variable {Tok : Type}

mutual
/-- every node of the tree whose token satisfies `P` has no children and no End -/
def LeafyN (P : Tok → Prop) : Node Tok → Prop
  | .mk t kids e => (P t → kids = [] ∧ e = none) ∧ LeafyL P kids
def LeafyL (P : Tok → Prop) : List (Node Tok) → Prop
  | [] => True
  | k :: ks => LeafyN P k ∧ LeafyL P ks
end

theorem leafyL_iff {P : Tok → Prop} : ∀ {ks : List (Node Tok)}, LeafyL P ks ↔ ∀ k ∈ ks, LeafyN P k
  | [] => by simp [LeafyL]
  | k :: ks => by simp [LeafyL, leafyL_iff (ks := ks)]

theorem leafyN_leaf {P : Tok → Prop} (t : Tok) : LeafyN P (Node.leaf t) := ⟨fun _ => ⟨rfl, rfl⟩, trivial⟩

theorem leafyN_mk {P : Tok → Prop} {t : Tok} {kids : List (Node Tok)} {e : Option Tok} (ht : ¬ P t)
    (hk : ∀ k ∈ kids, LeafyN P k) : LeafyN P (.mk t kids e) := ⟨fun hp => absurd hp ht, leafyL_iff.mpr hk⟩

/-- a token for which `isVoidElement` answers true is never classified as a start tag or as an end tag -/
theorem classify_void (cfg : Cfg Tok) (t : Tok) (h : cfg.isVoid t = true) :
    cfg.classify t ≠ .open_ ∧ cfg.classify t ≠ .close := by
  unfold Cfg.classify Cfg.classifyTag
  cases cfg.nilPtr t <;> cases cfg.kind t <;> cases cfg.tagNil t <;> simp [h]

def ZLeafy (P : Tok → Prop) (z : Z Tok) : Prop :=
  (∀ fr ∈ z.stack, ¬ P fr.tok ∧ ∀ k ∈ fr.before, LeafyN P k) ∧ ∀ k ∈ z.cur, LeafyN P k

theorem step_leafy (cfg : Cfg Tok) (z z' : Z Tok) (t : Tok) (h : stepTok cfg z t = .ok z')
    (hz : ZLeafy (fun t => cfg.isVoid t = true) z) : ZLeafy (fun t => cfg.isVoid t = true) z' := by
  obtain ⟨hs, hc⟩ := hz
  unfold stepTok at h
  cases hcl : cfg.classify t <;> simp only [hcl] at h
  case bad => cases h
  case nilPtr => cases h
  case leaf =>
    cases h
    refine ⟨hs, ?_⟩
    intro k hk
    rcases List.mem_cons.mp hk with rfl | hk
    · exact leafyN_leaf _
    · exact hc k hk
  case open_ =>
    cases h
    refine ⟨?_, (by intro k hk; cases hk)⟩
    intro fr hfr
    rcases List.mem_cons.mp hfr with rfl | hfr
    · exact ⟨fun hv => (classify_void cfg t hv).1 hcl, hc⟩
    · exact hs fr hfr
  case close =>
    cases hst : z.stack with
    | nil =>
      simp only [hst] at h; cases h
      refine ⟨(by intro fr hfr; cases hfr), ?_⟩
      intro k hk
      rcases List.mem_cons.mp hk with rfl | hk
      · exact leafyN_leaf _
      · exact hc k hk
    | cons fr rest =>
      simp only [hst] at h; cases h
      rw [hst] at hs
      obtain ⟨hfd, hfb⟩ := hs fr (List.mem_cons_self)
      refine ⟨fun fr' hfr' => hs fr' (List.mem_cons_of_mem _ hfr'), ?_⟩
      intro k hk
      rcases List.mem_cons.mp hk with rfl | hk
      · exact leafyN_mk hfd (fun k hk => hc k (List.mem_reverse.mp hk))
      · exact hfb k hk

theorem run_leafy (cfg : Cfg Tok) : ∀ (toks : List Tok) (z z' : Z Tok), run cfg z toks = .ok z' →
    ZLeafy (fun t => cfg.isVoid t = true) z → ZLeafy (fun t => cfg.isVoid t = true) z'
  | [], z, z', h, hz => by simp only [run] at h; cases h; exact hz
  | t :: ts, z, z', h, hz => by
    simp only [run] at h
    cases hs : stepTok cfg z t with
    | ok z1 => simp only [hs] at h; exact run_leafy cfg ts z1 z' h (step_leafy cfg z z1 t hs hz)
    | err => simp [hs] at h
    | panic => simp [hs] at h

theorem closeAll_leafy {P : Tok → Prop} : ∀ (stack : List (Frame Tok)) (cur : List (Node Tok)),
    (∀ fr ∈ stack, ¬ P fr.tok ∧ ∀ k ∈ fr.before, LeafyN P k) → (∀ k ∈ cur, LeafyN P k) →
    ∀ k ∈ closeAll stack cur, LeafyN P k
  | [], cur, _, hc => hc
  | fr :: rest, cur, hs, hc => by
    obtain ⟨hfd, hfb⟩ := hs fr (List.mem_cons_self)
    apply closeAll_leafy rest _ (fun fr' hfr' => hs fr' (List.mem_cons_of_mem _ hfr'))
    intro k hk
    rcases List.mem_cons.mp hk with rfl | hk
    · exact leafyN_mk hfd (fun k hk => hc k (List.mem_reverse.mp hk))
    · exact hfb k hk

/-- for every token type, classifier and token list: all nodes of the built tree whose token is a void element are
    leaves -/
theorem build_void_leafy (cfg : Cfg Tok) (toks : List Tok) (d : Doc Tok) (h : build cfg toks = .ok d) :
    LeafyL (fun t => cfg.isVoid t = true) d.kids := by
  unfold build at h
  cases hr : run cfg .init toks with
  | ok z =>
    simp only [hr, Res.ok.injEq] at h
    subst h
    have h0 : ZLeafy (fun t => cfg.isVoid t = true) (Z.init : Z Tok) :=
      ⟨(by intro fr hfr; cases hfr), (by intro k hk; cases hk)⟩
    obtain ⟨hs, hc⟩ := run_leafy cfg toks _ z hr h0
    exact leafyL_iff.mpr (fun k hk => closeAll_leafy _ _ hs hc k (List.mem_reverse.mp hk))
  | err => simp [hr] at h
  | panic => simp [hr] at h

end TB
