/-! GENERATED on every run by `harness facts` from the Go sources of the working tree. Do not edit. -/
namespace Facts

/-- string constants of html/consts.go -/
def consts : List (String × String) := [
  ("DefaultAttrPrefix", ":"),
  ("DefaultTagPrefix", "t:"),
  ("attrDefine", "define"),
  ("attrElIf", "elif"),
  ("attrElse", "else"),
  ("attrElseIf", "elseif"),
  ("attrElse_If", "else-if"),
  ("attrIf", "if"),
  ("attrInsert", "insert"),
  ("attrRange", "range"),
  ("attrRaw", "raw"),
  ("attrRemove", "remove"),
  ("attrReplace", "replace"),
  ("attrShouldHaveValue", "attribute `%s` should have value (at position %v)"),
  ("attrText", "text"),
  ("attrWith", "with"),
  ("noSuchTemplate", "no such template `%v`"),
  ("removeAll1", "\"all\""),
  ("removeAll2", "'all'"),
  ("removeAllButFirst1", "\"all-but-first\""),
  ("removeAllButFirst2", "'all-but-first'"),
  ("removeBody1", "\"body\""),
  ("removeBody2", "'body'"),
  ("removeTag1", "\"tag\""),
  ("removeTag2", "'tag'"),
  ("tagNameBlock", "block"),
  ("textTrue", "true")
]

def defaultTextTags : List String := ["script", "style", "textarea", "title"]
def defaultVoidElements : List String := ["!doctype", "area", "base", "br", "col", "embed", "hr", "img", "input", "link", "meta", "source", "track", "wbr"]

/-- weight table of (*Tag).SortedAttr (html/tag.go); directives not listed weigh 0 -/
def attrWeights : List (String × Int) := [("with", -4), ("if", -3), ("else-if", -3), ("elseif", -3), ("elif", -3), ("else", -3), ("range", -2), ("remove", -1)]
/-- the lazy caches of Tag are guarded by a sync primitive -/
def tagHasSyncField : Bool := true

/-- keys of the built-in default scope (exp/scope.go) -/
def builtinNames : List String := ["true", "false", "string", "bytes", "runes", "int", "int8", "int16", "int32", "int64", "uint", "uint8", "uint16", "uint32", "uint64", "float32", "float64", "duration", "isNil", "notNil", "isNull", "notNull", "len", "cap", "print", "printf", "println"]

/-- alternatives of the left-recursive rule `expression` in the generated parser, in order:
    (Precpred level, operator tokens matched, levels of the recursive calls that follow) -/
def exprAlts : List (Nat × List String × List Nat) := [
  (6, ["/", "%", "<<", ">>", "&^", "*", "&"], [7]),
  (5, ["|", "+", "-", "^"], [6]),
  (4, ["==", "!=", "<", "<=", ">", ">="], [5]),
  (3, ["&&"], [4]),
  (2, ["||"], [3]),
  (1, ["?", ":"], [0, 2])
]
def unaryOps : List String := ["!", "+", "-", "^", "*", "&", "<-"]
def unaryOperandLevel : Nat := 7

/-- functions of html/, exp/ and the root package that contain an explicit panic( call -/
def panicFuncs : List (String × String) := [("html/scan_code.go", "CodeScanner.NextToken"), ("html/scan_html.go", "HtmlScanner.NextToken"), ("html/scan_html.go", "HtmlScanner.readTag"), ("exp/convert.go", "ReflectConvert"), ("exp/visitor.go", "visitor.VisitExpression"), ("exp/visitor.go", "visitor.VisitPrimaryExpr"), ("exp/visitor.go", "visitor.VisitOperand"), ("exp/visitor.go", "visitor.VisitLiteral"), ("exp/visitor.go", "visitor.unOp"), ("exp/visitor.go", "visitor.mulOp"), ("exp/visitor.go", "biOp3"), ("exp/visitor.go", "visitor.relOp"), ("exp/visitor.go", "visitor.logOp")]
/-- functions that contain a recover() call -/
def recoverFuncs : List (String × String) := [("exp/reflects.go", "getValue"), ("exp/reflects.go", "callFunc"), ("exp/visitor.go", "visitor.Evaluate")]

/-- render.go uses a sync/atomic primitive (the manager field is shared between Reload and requests) -/
def renderUsesSync : Bool := true
/-- number of Close() calls in html/manager.go (files opened by Parse must be closed) -/
def managerCloseCalls : Nat := 1

/-- html/scan_base.go: column delta of a tab in NextRune and in UnRead (0 = the tab case was not found) -/
def tabAdvance : Int := 4
def tabUnread : Int := -4
/-- html/template.go: const maxFragmentDepth (0 = not found) -/
def maxFragmentDepth : Nat := 256
/-- exp/visitor.go IsInt: every case of the type switch with the expression it returns -/
def isIntCases : List (String × String) := [("int", "int64(i), true"), ("int8", "int64(i), true"), ("int16", "int64(i), true"), ("int32", "int64(i), true"), ("int64", "int64(i), true"), ("uint", "int64(i), true"), ("uint8", "int64(i), true"), ("uint16", "int64(i), true"), ("uint32", "int64(i), true"), ("uint64", "int64(i), true")]
/-- exp/visitor.go IsFloat: every case of the type switch with the expression it returns -/
def isFloatCases : List (String × String) := [("float32", "float64(i), true"), ("float64", "i, true")]
/-- html/scan_code.go: characters that open a string literal inside a block -/
def blockStringOpeners : List String := ["\"", "'", "`"]
/-- html/manager.go: the field (*tplManager).GetTemplate indexes by name -/
def getTemplateLooksIn : String := "templates"
/-- process-wide or manager-wide mutable state: package-level variables that are containers, buffers, locks, atomics or pointers to composite values, and struct fields of type sync.Pool / sync.Map -/
def sharedContainers : List String := ["render.go: var htmlContentType slice"]
/-- Combine(child, parent) call sites: (function, head of the child argument, parent argument) -/
def combineSites : List (String × String × String) := [("Execute", "scope", "t.manager.globalScope"), ("processTagStart", "exp.NewScope", "data"), ("processRange", "exp.NewScope", "scope"), ("WithDefaultScope", "s", "defaultScope")]

end Facts
