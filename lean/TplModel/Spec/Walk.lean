import TplModel.Exp.Eval
/-! # Walk — what Go's own member, index and slice operations return on the value universe

An independent specification (no `find?`/`findSome?`, no name parsing, no reflection-style "kind switch after
Elem()"): plain recursion over field lists, key/value lists and element lists, written after the Go language
specification (Selectors, Index expressions, Slice expressions, Method values).  `none` means that the Go
operation does not exist on that operand or would panic; the evaluator then has to report an error.

The template language applies one pointer indirection before every access (`p.f`, `p["k"]`, `p[i]`), as Go
does for `p.f` on a pointer to a struct and for `p[i]` on a pointer to an array; `Walk.field`/`Walk.index`
do the same for every container kind.  Counting a negative index from the end is an extension of the template
language and is kept apart in `Walk.indexFromEnd`.

Selector resolution (`Walk.resolve`): Go looks for the field at the shallowest depth; depth 0 are the declared
fields (names are unique there), depth ≥ 1 the fields promoted from embedded structs.  The harness type family
has at most one embedded struct per struct (`S` embeds `In`), so "shallowest, unique" coincides with
"first in declaration order, depth-first", which is what is written here.  Embedded *pointers* do not occur in
the family and are not followed. -/
namespace Walk
open EV (Val methodsOf)

/-- name, exported, embedded, value -/
abbrev Field := String × Bool × Bool × Val

/-- a field declared in the struct itself: `(exported, value)` -/
def direct : List Field → String → Option (Bool × Val)
  | [], _ => none
  | (m, ex, _, v) :: rest, n => if m = n then some (ex, v) else direct rest n

mutual
/-- a field promoted from one of the embedded structs, in declaration order -/
def promoted : List Field → String → Option (Bool × Val)
  | [], _ => none
  | (_, _, true, v) :: rest, n =>
    match inEmbedded v n with
    | some r => some r
    | none => promoted rest n
  | (_, _, false, _) :: rest, n => promoted rest n
/-- selector resolution inside the value of an embedded field -/
def inEmbedded : Val → String → Option (Bool × Val)
  | .struct _ fs, n =>
    match direct fs n with
    | some r => some r
    | none => promoted fs n
  | _, _ => none
end

/-- the field `x.n` denotes in a struct with fields `fs`: `(exported, value)`; `none`: no such field -/
def resolve (fs : List Field) (n : String) : Option (Bool × Val) :=
  match direct fs n with
  | some r => some r
  | none => promoted fs n

/-- `x.n` for a struct value, seen from another package: only exported fields can be named -/
def structField (fs : List Field) (n : String) : Option Val :=
  match resolve fs n with
  | some (true, v) => some v
  | _ => none

/-- `m[k]` with the comma-ok form: the entry bound to `k`, `none` if there is none (never the zero value) -/
def mapEntry : List (String × Val) → String → Option Val
  | [], _ => none
  | (k', v) :: rest, k => if k' = k then some v else mapEntry rest k

/-- fields and keys of a non-pointer operand, methods not considered -/
def member : Val → String → Option Val
  | .struct _ fs, n => structField fs n
  | .map _ kvs, n => mapEntry kvs n
  | _, _ => none

/-- `x.n` / `x["n"]`: a method of the operand's method set bound to the operand (method value), else an
    exported struct field (direct or promoted) or a map entry, through at most one pointer -/
def field (x : Val) (n : String) : Option Val :=
  match x with
  | .struct ty _ => if n ∈ methodsOf ty false then some (.meth ty n x) else member x n
  | .ptr ty _ tgt =>
    if n ∈ methodsOf ty true then some (.meth ty n x)
    else match tgt with
      | some t => member t n
      | none => none                 -- nil pointer dereference
  | _ => member x n

/-- the `i`-th element of a Go list, `none` when `i` is out of range (Go panics) -/
def elem : List Val → Int → Option Val
  | [], _ => none
  | x :: rest, i => if i = 0 then some x else if i < 0 then none else elem rest (i - 1)

/-- elements of a non-pointer operand -/
def elems : Val → Option (List Val)
  | .slice _ xs _ => some xs
  | .array _ xs => some xs
  | _ => none

/-- the element list behind an operand, through at most one pointer -/
def elemsOf : Val → Option (List Val)
  | .ptr _ _ (some t) => elems t
  | .ptr _ _ none => none
  | x => elems x

/-- `x[i]` for an integer `i` -/
def index (x : Val) (i : Int) : Option Val := (elemsOf x).bind (elem · i)

/-- the template language's indexing of a list: a negative `i` counts from the end -/
def elemFromEnd (xs : List Val) (i : Int) : Option Val := elem xs (if i < 0 then xs.length + i else i)

/-- the template language's `x[i]` -/
def indexFromEnd (x : Val) (i : Int) : Option Val := (elemsOf x).bind (elemFromEnd · i)

/-- the type `[]T` of a slice of an array of type `[N]T` -/
def sliceTyOfArray (aty : String) : String :=
  "[]" ++ String.ofList ((aty.toList.dropWhile (· ≠ ']')).drop 1)

/-- operand of a slice expression as (slice type, visible elements, capacity); an array is sliced through an
    addressable copy, its capacity is its length -/
def sliceable : Val → Option (String × List Val × Nat)
  | .slice ty xs c => some (ty, xs, c)
  | .array ty xs => some (sliceTyOfArray ty, xs, xs.length)
  | _ => none

/-- Go's rule for `a[lo:hi]` (`mx = none`) and `a[lo:hi:mx]`: the indices are in range iff
    `0 ≤ lo ≤ hi ≤ cap(a)` resp. `0 ≤ lo ≤ hi ≤ mx ≤ cap(a)`; otherwise a run-time panic occurs -/
def InRange (lo hi : Int) (mx : Option Int) (cap : Nat) : Prop :=
  match mx with
  | none => 0 ≤ lo ∧ lo ≤ hi ∧ hi ≤ cap
  | some m => 0 ≤ lo ∧ lo ≤ hi ∧ hi ≤ m ∧ m ≤ cap

instance : Decidable (InRange lo hi mx cap) := by unfold InRange; cases mx <;> exact inferInstance

/-- the slice expression is well formed: in the 3-index form only `lo` may be omitted -/
def WellFormed (hi mx : Option Int) : Prop := mx.isSome → hi.isSome

instance : Decidable (WellFormed hi mx) := by unfold WellFormed; exact inferInstance

/-- the slice expression panics at run time (operand is a slice or an array) -/
def slicePanics (x : Val) (lo hi mx : Option Int) : Prop :=
  match sliceable x with
  | some (_, xs, c) => ¬ InRange (lo.getD 0) (hi.getD xs.length) mx c
  | none => False

instance : Decidable (slicePanics x lo hi mx) := by
  unfold slicePanics; split <;> exact inferInstance

/-- the elements `a[lo], …, a[hi-1]` of a list (`0 ≤ lo ≤ hi ≤ length`) -/
def segment : List Val → Nat → Nat → List Val
  | _, _, 0 => []
  | [], _, _ => []
  | x :: rest, 0, hi + 1 => x :: segment rest 0 hi
  | _ :: rest, lo + 1, hi + 1 => segment rest lo hi

/-- `a[lo:hi]` / `a[lo:hi:mx]`.  `none`: not a slice or array, malformed, indices out of range (panic), or
    `hi` beyond the length (the result would expose elements of the backing array that the value universe
    does not record).  Result: elements `lo … hi-1`, capacity `cap(a) - lo` resp. `mx - lo`. -/
def slice (x : Val) (lo hi mx : Option Int) : Option Val :=
  match sliceable x with
  | none => none
  | some (ty, xs, c) =>
    let l := lo.getD 0
    let h := hi.getD xs.length
    if WellFormed hi mx ∧ InRange l h mx c ∧ h ≤ xs.length then
      some (.slice ty (segment xs l.toNat h.toNat) ((mx.getD c).toNat - l.toNat))
    else none

/-- `Stored x c`: the value `x` is literally one of the values held by the container `c` — a field value of a
    struct (or of a struct embedded in it, at any depth), a value of a map entry, an element of a slice or
    array, or one of those behind one pointer.  Nothing else is ever "stored": in particular no zero value of
    a missing field, key or element. -/
inductive Stored : Val → Val → Prop
  | field {x : Val} {ty : String} {fs : List Field} (n : String) (ex emb : Bool) :
      (n, ex, emb, x) ∈ fs → Stored x (.struct ty fs)
  | promoted {x : Val} {ty : String} {fs : List Field} (n : String) (ex : Bool) (ty' : String) (fs' : List Field) :
      (n, ex, true, .struct ty' fs') ∈ fs → Stored x (.struct ty' fs') → Stored x (.struct ty fs)
  | entry {x : Val} {ty : String} {kvs : List (String × Val)} (k : String) :
      (k, x) ∈ kvs → Stored x (.map ty kvs)
  | elemSlice {x : Val} {ty : String} {xs : List Val} {c : Nat} : x ∈ xs → Stored x (.slice ty xs c)
  | elemArray {x : Val} {ty : String} {xs : List Val} : x ∈ xs → Stored x (.array ty xs)
  | deref {x t : Val} {ty : String} {id : Nat} : Stored x t → Stored x (.ptr ty id (some t))

end Walk
