import TplModel.Props.Loader
import TplModel.Props.RenderProps
import TplModel.Props.C05refine
/-! # C16 — rendering is a pure function of template and data

OBLIGATIONS: RN.execute_refines, RN.execute_flags, RN.refExecute_mono, RN.Props.execute_is_function_of_inputs, RN.Props.nc_dependence, RN.Props.depends_on_top_level_only, RN.Props.kids_nc_dependence, RN.Props.stale_conditions_harmless, EN.loaded_manager_ok, EN.execute_refines_loaded, EN.exec_refines_loaded -/
namespace C16

/-- `Execute` runs on a fresh directive state: the model's `execute` takes no state argument, so two executions with
    the same template and data are the same computation (the state threaded INSIDE one execution is local to it). -/
theorem execute_is_function_of_inputs {Sc : Type} (cfg : RN.Cfg) (env : RN.Env Sc) (fuel : Nat) (root : RN.Node) (sc : Sc) :
    RN.execute cfg env fuel root sc = RN.exec cfg env fuel 0 RN.emptyNc RN.emptyFl root sc := rfl

end C16
