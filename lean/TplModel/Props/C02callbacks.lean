import TplModel.Props.Callbacks
/-! # C02 — the concrete `Attr.Evaluate`: a pure block, a literal and a literal/block mixture evaluate to the concatenation of the literal text and the formatted block values, in order

The theorems live in `Props/Callbacks.lean` (helpers in `Proofs/CallbackSpec.lean`); this file lists the ones C02 relies on.

OBLIGATIONS: Callbacks.attrEvaluate_spec, Callbacks.attrEvaluate_fold, Callbacks.attrEvaluate_ok, Callbacks.attrEvaluate_err, Callbacks.attrEvaluate_pure_block, Callbacks.attrEvaluate_literal, Callbacks.attrEvaluate_mixture -/
