import TplModel.Sys.Xtpl
import TplModel.Proofs.XtplProofs
import TplModel.Props.C14
/-! # C20 — xtpl extracts every translatable literal the templates pass at run time

"The catalogue written by xtpl keeps its header entry and contains one entry per distinct (context, msgid)
that appears as string-literal arguments at the configured keyword positions of a call inside a ${...} block.
The msgid, plural and context are the strings the evaluator passes to that function at run time, every
occurrence is referenced …, and calls whose msgid argument is not a literal, or that have too few arguments,
add nothing."

OBLIGATIONS: XT.mem_calls_iff, XT.mem_doExtract_iff, XT.doExtract_id_zero, XT.mem_extractCall_iff, XT.mem_extract_iff, XT.mergeBy_inv, XT.mem_mergeBy_iff, XT.mem_keys_mergeBy_iff, XT.save_eq_of_no_header_key, XT.goKey_eq_headerKey_iff, XT.goKey_inj, XT.parseInt_toDigits, XT.parseKeywords_cons, C14.decode_encode_dq, C14.decode_encode_sq, C14.decode_encode_raw, C14.sq2dq_correct

Property theorems only; the model is `TplModel/Sys/Xtpl.lean` (namespace `XT`), the lemmas are in
`TplModel/Proofs/XtplProofs.lean`. Every statement holds for ALL expressions, ALL keyword tables and ALL
position functions.

Vocabulary (model / proofs file):
`calls e` = the call nodes of `e` in the order the ANTLR walker enters them (`calls_are_the_call_nodes`: exactly
the nodes `.call …` that occur in `e`, `Sub`);
`pos n i` = the reference (`file:line:col`) of argument `i` (1-based) of the `n`-th call node;
`litAt args i` = the decoded string literal at position `i` (`""` if `i = 0` or that argument is not a literal);
`entryOf kw args s o` = ⟨litAt args kw.ctx, s, litAt args kw.plural, o, cited⟩.

HISTORY: `-keywords 'T:0'` (also `T:-1`, `X:1c,0`) is accepted by `parseKeywords`; before the fix of `doExtract`
(`kw.MsgID < 1` ⇒ return) such a keyword appended an entry without msgid and without reference for every call
`T(…)`, and `Save` replaced the POT header by it. At HEAD a keyword without msgid position adds nothing
(`position_zero_adds_nothing`), so `extract_sound`, `extract_cited`, `header_never_replaced` and `header_kept` hold
for ALL keyword tables (no well-formedness hypothesis). -/
namespace C20
open XT EL

/-! ## concrete inputs used by the non-vacuity examples -/

def defaultKws : List Keyword :=
  [⟨"T", 0, 1, 0⟩, ⟨"N", 0, 1, 2⟩, ⟨"N64", 0, 1, 2⟩, ⟨"X", 1, 2, 0⟩, ⟨"XN", 1, 2, 3⟩, ⟨"XN64", 1, 2, 3⟩,
   ⟨"__", 0, 1, 0⟩, ⟨"_n", 0, 1, 2⟩, ⟨"_x", 1, 2, 0⟩, ⟨"_xn", 1, 2, 3⟩]

/-- `_xn("c", 'one', \`many\`, n)` -/
def callXn : E := .call (.name "_xn") [.lit "str" "\"c\"", .lit "str" "'one'", .lit "str" "`many`", .name "n"] false
/-- `t.T('hello')`, `(t?.T)('hello', 1)` -/
def callT : E := .call (.field (.name "t") false "T") [.lit "str" "'hello'"] false
def callT2 : E := .call (.paren (.field (.name "t") true "T")) [.lit "str" "'hello'", .lit "int" "1"] false
/-- `f(x, __('in'))[_n('a', 'b', 2)]` : calls nested in an argument and in an index -/
def nested : E :=
  .index (.call (.name "f") [.name "x", .call (.name "__") [.lit "str" "'in'"] false] false)
    (.call (.name "_n") [.lit "str" "'a'", .lit "str" "'b'", .lit "int" "2"] false)
/-- nothing to extract: non-literal msgid, too few arguments, empty msgid without context, unknown name,
    parenthesised literal, no arguments -/
def nothing : E :=
  .bin "+" (.call (.name "T") [.name "x"] false)
    (.bin "+" (.call (.name "_xn") [.lit "str" "'c'", .lit "str" "'id'"] false)
      (.bin "+" (.call (.name "T") [.lit "str" "''"] false)
        (.bin "+" (.call (.name "other") [.lit "str" "'x'"] false)
          (.bin "+" (.call (.name "T") [.paren (.lit "str" "'p'")] false) (.call (.name "T") [] false)))))
/-- `callT + callXn + callT2 + nested + nothing` -/
def big : E := .bin "+" callT (.bin "+" callXn (.bin "+" callT2 (.bin "+" nested nothing)))

def pos0 : Nat → Nat → Nat := fun n i => 100 * n + i

/-! ## the keyword table -/

/-- `Keyword.MaxArgIndex` is the maximum of the three positions -/
theorem maxArg_le_iff (kw : Keyword) (n : Nat) : kw.maxArg ≤ n ↔ kw.ctx ≤ n ∧ kw.id ≤ n ∧ kw.plural ≤ n := by
  unfold Keyword.maxArg; omega

/-- the default value of `-keywords` parses to the expected table -/
theorem parseKeywords_spec : parseKeywords defaultKeywordsFlag = some defaultKws := by decide

/-- a character list that can be a function name inside the flag -/
def NameOk (name : List Char) : Prop := name ≠ [] ∧ ':' ∉ name ∧ ';' ∉ name

theorem semicolon_not_mem_dec (n : Nat) : ';' ∉ dec n := not_mem_toDigits (by decide)

/-- `name` ↦ `{name, 0, 1, 0}` -/
theorem parseKeywords_name {name : List Char} (h : NameOk name) :
    parseKeywords (String.ofList name) = some [⟨String.ofList name, 0, 1, 0⟩] := by
  rw [parseKeywords_single h.2.2, parseKeyword_name h.1 h.2.1]; rfl

/-- `name:i` ↦ `{name, 0, i, 0}` (`dec i` = the decimal numeral of `i`, `i < 2^63`) -/
theorem parseKeywords_id {name : List Char} {i : Nat} (h : NameOk name) (hi : i < maxPos) :
    parseKeywords (String.ofList (name ++ ':' :: dec i)) = some [⟨String.ofList name, 0, i, 0⟩] := by
  rw [parseKeywords_single (by simp [h.2.2, semicolon_not_mem_dec]), parseKeyword_id h.1 h.2.1 hi]; rfl

/-- `name:i,j` ↦ `{name, 0, i, j}` -/
theorem parseKeywords_id_plural {name : List Char} {i j : Nat} (h : NameOk name) (hi : i < maxPos) (hj : j < maxPos) :
    parseKeywords (String.ofList (name ++ ':' :: (dec i ++ ',' :: dec j))) =
      some [⟨String.ofList name, 0, i, j⟩] := by
  rw [parseKeywords_single (by simp [h.2.2, semicolon_not_mem_dec]), parseKeyword_id_plural h.1 h.2.1 hi hj]; rfl

/-- `name:ic,j` ↦ `{name, i, j, 0}` -/
theorem parseKeywords_ctx_id {name : List Char} {i j : Nat} (h : NameOk name) (hi : i < maxPos) (hj : j < maxPos) :
    parseKeywords (String.ofList (name ++ ':' :: (dec i ++ 'c' :: ',' :: dec j))) =
      some [⟨String.ofList name, i, j, 0⟩] := by
  rw [parseKeywords_single (by simp [h.2.2, semicolon_not_mem_dec]), parseKeyword_ctx_id h.1 h.2.1 hi hj]; rfl

/-- `name:ic,j,k` ↦ `{name, i, j, k}` -/
theorem parseKeywords_ctx_id_plural {name : List Char} {i j k : Nat} (h : NameOk name)
    (hi : i < maxPos) (hj : j < maxPos) (hk : k < maxPos) :
    parseKeywords (String.ofList (name ++ ':' :: (dec i ++ 'c' :: ',' :: (dec j ++ ',' :: dec k)))) =
      some [⟨String.ofList name, i, j, k⟩] := by
  rw [parseKeywords_single (by simp [h.2.2, semicolon_not_mem_dec]),
    parseKeyword_ctx_id_plural h.1 h.2.1 hi hj hk]; rfl

/-- the flag is parsed item by item: `item;rest` -/
theorem parseKeywords_items {item rest : List Char} (h : ';' ∉ item) :
    parseKeywords (String.ofList (item ++ ';' :: rest)) =
      (parseKeyword item).bind fun kw => (parseKeywords (String.ofList rest)).map fun r => kw :: r :=
  parseKeywords_cons h

example : NameOk "_xn".toList := ⟨by decide, by decide, by decide⟩
example : parseKeywords "_xn:1c,2,3" = some [⟨"_xn", 1, 2, 3⟩] :=
  parseKeywords_ctx_id_plural (name := "_xn".toList) (i := 1) (j := 2) (k := 3) ⟨by decide, by decide, by decide⟩
    (by decide) (by decide) (by decide)
-- error cases of `parseKeywords`
example : parseKeywords "" = none := by decide
example : parseKeywords "T;" = none := by decide                 -- empty function name
example : parseKeywords ":1" = none := by decide
example : parseKeywords "a:1:2" = none := by decide              -- two colons
example : parseKeywords "a:x" = none := by decide                -- not a number
example : parseKeywords "a:1c" = none := by decide               -- a lone position cannot be a context
example : parseKeywords "a:1,2,3" = none := by decide            -- three positions need the `c`
example : parseKeywords "a:1c,2,3,4" = none := by decide         -- too many positions
example : parseKeywords "a:1_0" = none := by decide              -- no `_` in base 10
example : parseKeywords "a:9223372036854775808" = none := by decide   -- out of range
example : parseKeywords "a:+2" = some [⟨"a", 0, 2, 0⟩] := by decide  -- ParseInt accepts a sign
example : parseKeywords "a:0" = some [⟨"a", 0, 0, 0⟩] := by decide   -- accepted: `position_zero_adds_nothing`
example : parseKeywords "a:-3" = some [⟨"a", 0, 0, 0⟩] := by decide  -- negative = no position

/-- every keyword of the default table has a msgid position (so none of them is silenced by
    `position_zero_adds_nothing`) -/
theorem default_keywords_wf : ∀ kw ∈ defaultKws, 1 ≤ kw.id := by decide

/-! ## `calls`: the nodes the listener sees -/

/-- `calls e` lists exactly the call nodes that occur in `e` (at any depth: in arguments, callees, indexes,
    slice bounds, operands, branches of `?:`, parentheses) -/
theorem calls_are_the_call_nodes (e c : E) :
    c ∈ calls e ↔ Sub c e ∧ ∃ f as ell, c = .call f as ell := mem_calls_iff

example : calls nested =
    [.call (.name "f") [.name "x", .call (.name "__") [.lit "str" "'in'"] false] false,
     .call (.name "__") [.lit "str" "'in'"] false,
     .call (.name "_n") [.lit "str" "'a'", .lit "str" "'b'", .lit "int" "2"] false] := rfl

/-! ## completeness and soundness of the extraction -/

/-- exact characterisation of the entries of one expression -/
theorem mem_extract_iff (kws : List Keyword) (pos : Nat → Nat → Nat) (e : E) (x : Entry) :
    x ∈ extract kws pos e ↔
      ∃ n callee args ell kw, (calls e)[n]? = some (.call callee args ell) ∧ kw ∈ kws ∧
        fnName callee = some kw.name ∧ args ≠ [] ∧ kw.maxArg ≤ args.length ∧ 1 ≤ kw.id ∧
        ∃ a s, args[kw.id - 1]? = some a ∧ strLit a = some s ∧
          ¬ (s = "" ∧ litAt args kw.ctx = "") ∧ x = entryOf kw args s (pos n kw.id) := by
  rw [XT.mem_extract_iff]
  constructor
  · rintro ⟨n, c, hc, hx⟩
    obtain ⟨f, as, ell, rfl, hx⟩ := mem_extractNode_iff.1 hx
    obtain ⟨fn, hfn, hne, kw, hkw, hx⟩ := mem_extractCall_iff.1 hx
    obtain ⟨hname, hmax, hid, s, hs, hne', rfl⟩ := mem_doExtract_iff.1 hx
    obtain ⟨a, ha, hs⟩ := litAt?_eq.1 hs
    exact ⟨n, f, as, ell, kw, hc, hkw, by rw [hfn, hname], hne, hmax, hid, a, s, ha, hs, hne', rfl⟩
  · rintro ⟨n, f, as, ell, kw, hc, hkw, hfn, hne, hmax, hid, a, s, ha, hs, hne', rfl⟩
    refine ⟨n, _, hc, mem_extractNode_iff.2 ⟨f, as, ell, rfl, mem_extractCall_iff.2 ⟨kw.name, hfn, hne, kw, hkw, ?_⟩⟩⟩
    exact mem_doExtract_iff.2 ⟨rfl, hmax, hid, s, litAt?_eq.2 ⟨a, ha, hs⟩, hne', rfl⟩

/-- COMPLETENESS: every call node of `e` (the `n`-th one) whose callee name is a keyword, with enough arguments,
    a string literal `s` at the msgid position, and not (empty msgid and empty context) yields the entry with that
    msgid, the decoded context / plural literals, and the reference of the msgid argument -/
theorem extract_complete (kws : List Keyword) (pos : Nat → Nat → Nat) (e : E)
    {n : Nat} {callee : E} {args : List E} {ell : Bool} {kw : Keyword} {a : E} {s : String}
    (hc : (calls e)[n]? = some (.call callee args ell)) (hkw : kw ∈ kws)
    (hfn : fnName callee = some kw.name) (hid : 1 ≤ kw.id)
    (hmax : kw.ctx ≤ args.length ∧ kw.id ≤ args.length ∧ kw.plural ≤ args.length)
    (ha : args[kw.id - 1]? = some a) (hs : strLit a = some s)
    (hne : ¬ (s = "" ∧ litAt args kw.ctx = "")) :
    entryOf kw args s (pos n kw.id) ∈ extract kws pos e := by
  refine (mem_extract_iff kws pos e _).2 ⟨n, callee, args, ell, kw, hc, hkw, hfn, ?_, (maxArg_le_iff kw _).2 hmax,
    hid, a, s, ha, hs, hne, rfl⟩
  rintro rfl; simp at ha

/-- the same for a call node given as a sub-expression -/
theorem extract_complete_sub (kws : List Keyword) (pos : Nat → Nat → Nat) (e : E)
    {callee : E} {args : List E} {ell : Bool} {kw : Keyword} {a : E} {s : String}
    (hc : Sub (.call callee args ell) e) (hkw : kw ∈ kws)
    (hfn : fnName callee = some kw.name) (hid : 1 ≤ kw.id)
    (hmax : kw.ctx ≤ args.length ∧ kw.id ≤ args.length ∧ kw.plural ≤ args.length)
    (ha : args[kw.id - 1]? = some a) (hs : strLit a = some s)
    (hne : ¬ (s = "" ∧ litAt args kw.ctx = "")) :
    ∃ n, (calls e)[n]? = some (.call callee args ell) ∧ entryOf kw args s (pos n kw.id) ∈ extract kws pos e := by
  have hm : E.call callee args ell ∈ calls e := mem_calls_iff.2 ⟨hc, _, _, _, rfl⟩
  obtain ⟨n, hn⟩ := List.getElem?_of_mem hm
  exact ⟨n, hn, extract_complete kws pos e hn hkw hfn hid hmax ha hs hne⟩

/-- the fields of the extracted entry: msgid `s`; context and plural are the decoded literals at their positions
    when those arguments are literals, and empty when the keyword has no such position or the argument is not a
    literal; the reference is the one of the msgid argument -/
theorem entryOf_fields (kw : Keyword) (args : List E) (s : String) (o : Nat) :
    (entryOf kw args s o).id = s ∧ (entryOf kw args s o).occ = o ∧ (entryOf kw args s o).cited = true ∧
    (entryOf kw args s o).ctx = litAt args kw.ctx ∧ (entryOf kw args s o).plural = litAt args kw.plural ∧
    (∀ i a t, 1 ≤ i → args[i - 1]? = some a → strLit a = some t → litAt args i = t) ∧
    (∀ i a, args[i - 1]? = some a → strLit a = none → litAt args i = "") ∧ litAt args 0 = "" :=
  ⟨rfl, rfl, rfl, rfl, rfl, fun _ _ _ hi ha ht => litAt_lit hi ha ht, fun _ _ ha hn => litAt_nonlit ha hn,
    litAt_zero args⟩

/-- SOUNDNESS, as C20 words it, for ALL keyword tables: every extracted entry comes from a call node whose callee
    name is a keyword WITH a msgid position and which has at least one and at least `MaxArgIndex` arguments; the
    argument at the msgid position is a string literal, the entry is the one of `extract_complete`, and it is not
    the reserved (empty msgid, empty context) -/
theorem extract_sound (kws : List Keyword) (pos : Nat → Nat → Nat) (e : E) (x : Entry)
    (h : x ∈ extract kws pos e) :
    ∃ n callee args ell kw a s, (calls e)[n]? = some (.call callee args ell) ∧ kw ∈ kws ∧
      fnName callee = some kw.name ∧ args ≠ [] ∧ 1 ≤ kw.id ∧
      (kw.ctx ≤ args.length ∧ kw.id ≤ args.length ∧ kw.plural ≤ args.length) ∧
      args[kw.id - 1]? = some a ∧ strLit a = some s ∧ ¬ (s = "" ∧ litAt args kw.ctx = "") ∧
      x = entryOf kw args s (pos n kw.id) := by
  obtain ⟨n, f, as, ell, kw, hc, hkw, hfn, hne, hmax, hid, a, s, ha, hs, hne', rfl⟩ := (mem_extract_iff kws pos e x).1 h
  exact ⟨n, f, as, ell, kw, a, s, hc, hkw, hfn, hne, hid, (maxArg_le_iff kw _).1 hmax, ha, hs, hne', rfl⟩

/-- "add nothing", call by call: a keyword without msgid position (`-keywords T:0`, `T:-1`, `X:1c,0`: accepted by
    `parseKeywords`) — whatever the call -/
theorem position_zero_adds_nothing (kw : Keyword) (fn : String) (args : List E) (occ : Nat → Nat)
    (h : kw.id = 0) : doExtract kw fn args occ = [] := doExtract_id_zero fn args occ h

/-- … hence nothing at all is extracted with a table of such keywords -/
theorem position_zero_table_extracts_nothing (kws : List Keyword) (h : ∀ kw ∈ kws, kw.id = 0)
    (pos : Nat → Nat → Nat) (e : E) : extract kws pos e = [] := by
  apply List.eq_nil_iff_forall_not_mem.2
  intro x hx
  obtain ⟨_, _, _, _, kw, _, _, _, hkw, _, _, hid, _⟩ := extract_sound kws pos e x hx
  have := h kw hkw; omega

/-- … too few arguments -/
theorem too_few_arguments_add_nothing (kw : Keyword) (fn : String) (args : List E) (occ : Nat → Nat)
    (h : args.length < kw.ctx ∨ args.length < kw.id ∨ args.length < kw.plural) : doExtract kw fn args occ = [] := by
  apply List.eq_nil_iff_forall_not_mem.2
  intro x hx
  have := (maxArg_le_iff kw _).1 (mem_doExtract_iff.1 hx).2.1
  omega

/-- … a msgid argument that is not a string literal (a name, a concatenation, a parenthesised literal, …) -/
theorem nonliteral_msgid_adds_nothing (kw : Keyword) (fn : String) (args : List E) (occ : Nat → Nat) (a : E)
    (ha : args[kw.id - 1]? = some a) (hs : strLit a = none) : doExtract kw fn args occ = [] := by
  apply List.eq_nil_iff_forall_not_mem.2
  intro x hx
  obtain ⟨_, s, hs', _⟩ := (mem_doExtract_iff.1 hx).2.2
  obtain ⟨a', ha', hs''⟩ := litAt?_eq.1 hs'
  rw [ha] at ha'; cases ha'; rw [hs] at hs''; cases hs''

/-- … an empty msgid literal without (non-empty literal) context -/
theorem empty_msgid_without_context_adds_nothing (kw : Keyword) (fn : String) (args : List E) (occ : Nat → Nat)
    (a : E) (ha : args[kw.id - 1]? = some a) (hs : strLit a = some "")
    (hc : litAt args kw.ctx = "") : doExtract kw fn args occ = [] := by
  apply List.eq_nil_iff_forall_not_mem.2
  intro x hx
  obtain ⟨_, s, hs', hne, _⟩ := (mem_doExtract_iff.1 hx).2.2
  obtain ⟨a', ha', hs''⟩ := litAt?_eq.1 hs'
  rw [ha] at ha'; cases ha'; rw [hs] at hs''; cases hs''
  exact hne ⟨rfl, hc⟩

/-- … a callee whose name is no keyword (or that has no name: a literal, an index, a call result, an operator
    expression in parentheses), and a call without arguments -/
theorem unknown_callee_adds_nothing (kws : List Keyword) (callee : E) (args : List E) (occ : Nat → Nat)
    (h : ∀ kw ∈ kws, fnName callee ≠ some kw.name) : extractCall kws callee args occ = [] := by
  apply List.eq_nil_iff_forall_not_mem.2
  intro x hx
  obtain ⟨fn, hfn, _, kw, hkw, hx⟩ := mem_extractCall_iff.1 hx
  exact h kw hkw (by rw [hfn, (mem_doExtract_iff.1 hx).1])

theorem no_arguments_add_nothing (kws : List Keyword) (callee : E) (occ : Nat → Nat) :
    extractCall kws callee [] occ = [] := by
  unfold extractCall; cases fnName callee <;> simp

/-- calls nested (at any depth) inside an argument of another call are extracted too -/
theorem nested_calls_found (kws : List Keyword) (pos : Nat → Nat → Nat)
    {f : E} {as : List E} {ell0 : Bool} {arg : E} (harg : arg ∈ as)
    {callee : E} {args : List E} {ell : Bool} {kw : Keyword} {a : E} {s : String}
    (hc : Sub (.call callee args ell) arg) (hkw : kw ∈ kws)
    (hfn : fnName callee = some kw.name) (hid : 1 ≤ kw.id)
    (hmax : kw.ctx ≤ args.length ∧ kw.id ≤ args.length ∧ kw.plural ≤ args.length)
    (ha : args[kw.id - 1]? = some a) (hs : strLit a = some s)
    (hne : ¬ (s = "" ∧ litAt args kw.ctx = "")) :
    ∃ n, entryOf kw args s (pos n kw.id) ∈ extract kws pos (.call f as ell0) := by
  obtain ⟨n, _, h⟩ := extract_complete_sub kws pos (.call f as ell0) (.step hc (.callArg harg)) hkw hfn hid hmax ha hs hne
  exact ⟨n, h⟩

/-- the entries of all trees: `extractMany` is the concatenation, so all of the above lifts tree by tree -/
theorem mem_extractMany_iff (kws : List Keyword) (ts : List ((Nat → Nat → Nat) × E)) (x : Entry) :
    x ∈ extractMany kws ts ↔ ∃ t ∈ ts, x ∈ extract kws t.1 t.2 := XT.mem_extractMany_iff

/-! ### non-vacuity -/

-- the model on the concrete inputs
example : extract defaultKws pos0 big =
    [⟨"", "hello", "", 1, true⟩, ⟨"c", "one", "many", 102, true⟩, ⟨"", "hello", "", 201, true⟩,
     ⟨"", "in", "", 401, true⟩, ⟨"", "a", "b", 501, true⟩] := by decide
example : extract defaultKws pos0 nothing = [] := by decide
example : (calls nothing).length = 6 := by decide

-- `extract_complete` on `_xn("c", 'one', `many`, n)`, the 2nd call node of `big`
example : entryOf ⟨"_xn", 1, 2, 3⟩ [.lit "str" "\"c\"", .lit "str" "'one'", .lit "str" "`many`", .name "n"] "one"
    (pos0 1 2) ∈ extract defaultKws pos0 big :=
  extract_complete defaultKws pos0 big (n := 1) (callee := .name "_xn") (ell := false) (a := .lit "str" "'one'")
    rfl (by decide) (by decide) (by decide) (by decide) rfl (by decide) (by decide)
example : entryOf ⟨"_xn", 1, 2, 3⟩ [.lit "str" "\"c\"", .lit "str" "'one'", .lit "str" "`many`", .name "n"] "one" 102
    = ⟨"c", "one", "many", 102, true⟩ := by decide

-- `nested_calls_found` on `f(x, __('in'))`
example : ∃ n, entryOf ⟨"__", 0, 1, 0⟩ [.lit "str" "'in'"] "in" (pos0 n 1) ∈
    extract defaultKws pos0 (.call (.name "f") [.name "x", .call (.name "__") [.lit "str" "'in'"] false] false) :=
  nested_calls_found defaultKws pos0 (arg := .call (.name "__") [.lit "str" "'in'"] false) (by simp)
    (callee := .name "__") (a := .lit "str" "'in'") .refl (by decide) (by decide) (by decide) (by decide)
    rfl (by decide) (by decide)

-- `extract_sound`: its hypothesis holds on a non-empty extraction, also with a table that mixes keywords with
-- and without msgid position
example : (⟨"", "in", "", 401, true⟩ : Entry) ∈ extract defaultKws pos0 big := by decide
example : extract (⟨"T", 0, 0, 0⟩ :: ⟨"__", 1, 0, 2⟩ :: defaultKws) pos0 big = extract defaultKws pos0 big := by decide

-- the "nothing" lemmas
example : doExtract ⟨"T", 0, 0, 0⟩ "T" [.lit "str" "'hello'"] id = [] := position_zero_adds_nothing _ _ _ _ rfl
example : doExtract ⟨"X", 1, 0, 0⟩ "X" [.lit "str" "'c'", .lit "str" "'id'"] id = [] :=
  position_zero_adds_nothing _ _ _ _ rfl
example : extract [⟨"T", 0, 0, 0⟩, ⟨"_xn", 1, 0, 3⟩] pos0 big = [] :=
  position_zero_table_extracts_nothing _ (by decide) _ _

example : doExtract ⟨"_xn", 1, 2, 3⟩ "_xn" [.lit "str" "'c'", .lit "str" "'id'"] id = [] :=
  too_few_arguments_add_nothing _ _ _ _ (by decide)
example : doExtract ⟨"T", 0, 1, 0⟩ "T" [.paren (.lit "str" "'p'")] id = [] :=
  nonliteral_msgid_adds_nothing _ _ _ _ (.paren (.lit "str" "'p'")) rfl (by decide)
example : doExtract ⟨"T", 0, 1, 0⟩ "T" [.lit "str" "''"] id = [] :=
  empty_msgid_without_context_adds_nothing _ _ _ _ (.lit "str" "''") rfl (by decide) (by decide)
-- … whereas an empty msgid WITH a context is extracted (as gettext does)
example : doExtract ⟨"_x", 1, 2, 0⟩ "_x" [.lit "str" "'c'", .lit "str" "''"] id = [⟨"c", "", "", 2, true⟩] := by decide
example : extractCall defaultKws (.index (.name "t") (.lit "str" "'T'")) [.lit "str" "'x'"] id = [] :=
  unknown_callee_adds_nothing _ _ _ _ (by decide)

-- through the real parser model
example : EL.parseCode "t.T('hello')" matches .accept _ := by decide +kernel
example : (match EL.parseCode "t.T('hello') + _xn(`c`, \"one\", 'many', n) + T(x)" with
    | .accept e => extract defaultKws pos0 e
    | _ => []) = [⟨"", "hello", "", 1, true⟩, ⟨"c", "one", "many", 102, true⟩] := by decide +kernel

/-! ## the run-time strings -/

/-- the string stored for a literal argument is `EV.decodeStr` of its text — the very function the evaluator
    model applies to that literal (`EV.eval (.lit "str" t)` returns `.str s` iff `EV.decodeStr t = .ok s`; `eval`
    is a `partial def`, so this link is by the shared definition) — and `""` when `strconv.Unquote` fails -/
theorem runtime_strings_agree (t : String) :
    strLit (.lit "str" t) = match EV.decodeStr t with | .ok s => some s | _ => some "" := by
  simp only [strLit, unquote, if_true]
  cases EV.decodeStr t <;> rfl

/-- … so whenever the literal decodes, catalogue string = run-time string -/
theorem runtime_strings_agree_ok (t s : String) (h : EV.decodeStr t = .ok s) : strLit (.lit "str" t) = some s := by
  rw [runtime_strings_agree, h]

/-- every string written as a literal in one of the three quoting styles (the encoders of M5/C14) is stored as
    exactly that string -/
theorem literal_roundtrip (s : List Char) :
    strLit (.lit "str" (String.ofList (ENC.encodeDQ s))) = some (String.ofList s) ∧
    strLit (.lit "str" (String.ofList (ENC.encodeSQ s))) = some (String.ofList s) ∧
    ('`' ∉ s → '\r' ∉ s → strLit (.lit "str" (String.ofList (ENC.encodeRaw s))) = some (String.ofList s)) :=
  ⟨runtime_strings_agree_ok _ _ (C14.decode_encode_dq s), runtime_strings_agree_ok _ _ (C14.decode_encode_sq s),
    fun h1 h2 => runtime_strings_agree_ok _ _ (C14.decode_encode_raw s h1 h2)⟩

/-- only string literals count -/
theorem strLit_some_iff (a : E) (s : String) :
    strLit a = some s ↔ ∃ t, a = .lit "str" t ∧ s = unquote t := by
  cases a <;> simp [strLit]
  case lit kind text =>
    by_cases h : kind = "str"
    · subst h; simp [eq_comm]
    · simp [h]

example : strLit (.lit "str" "'it\\'s \"x\"\\n'") = some "it's \"x\"\n" :=
  runtime_strings_agree_ok _ _ (by decide)
example : strLit (.lit "str" "`raw\\n`") = some "raw\\n" := runtime_strings_agree_ok _ _ (by decide)
example : strLit (.lit "str" "\"bad \\q\"") = some "" := by decide   -- Unquote fails: xtpl stores ""
example : strLit (.lit "int" "1") = none := by decide

/-! ## the catalogue (`Save`) -/

/-- the keys of the catalogue are pairwise distinct -/
theorem catalogue_keys_distinct (es : List Entry) : ((catalogue es).map (·.1)).Nodup := by
  rw [catalogue_keys]; exact (mergeBy_inv Entry.key es).1

/-- … they are exactly the (context, msgid) pairs of the entries … -/
theorem catalogue_keys_complete (es : List Entry) (k : String × String) :
    k ∈ (catalogue es).map (·.1) ↔ ∃ e ∈ es, (e.ctx, e.id) = k := by
  rw [catalogue_keys]; exact mem_keys_mergeBy_iff Entry.key es k

/-- … in first-occurrence order -/
theorem catalogue_keys_order (es : List Entry) :
    (catalogue es).map (·.1) = firstOcc (es.map fun e => (e.ctx, e.id)) := by
  rw [catalogue_keys]; exact (mergeBy_inv Entry.key es).2.2

/-- the row of a key: its reference list is exactly the references of the entries with that key, in order, and
    its plural is the one of the LAST such entry -/
theorem catalogue_refs_complete (es : List Entry) (k : String × String) (p : String) (r : List Nat) :
    (k, p, r) ∈ catalogue es ↔
      (∃ e, (es.filter fun e => (e.ctx, e.id) = k).getLast? = some e ∧ p = e.plural) ∧
      r = (es.filter fun e => (e.ctx, e.id) = k).flatMap Entry.refs := by
  rw [mem_catalogue_iff]
  simp only [matching, Entry.key]
  constructor
  · rintro ⟨e, h1, h2, h3⟩; exact ⟨⟨e, h1, h2⟩, h3⟩
  · rintro ⟨⟨e, h1, h2⟩, h3⟩; exact ⟨e, h1, h2, h3⟩

/-- when every entry carries its reference (always, for extracted entries: `extract_cited`,
    `catalogue_refs_all_occurrences`) the reference list is the list of ALL occurrences, however many -/
theorem catalogue_refs_occ (es : List Entry) (hc : ∀ e ∈ es, e.cited = true)
    (k : String × String) (p : String) (r : List Nat) (h : (k, p, r) ∈ catalogue es) :
    r = (es.filter fun e => (e.ctx, e.id) = k).map (·.occ) ∧
    r.length = es.countP (fun e => (e.ctx, e.id) = k) := by
  have h1 := ((catalogue_refs_complete es k p r).1 h).2
  have h2 : r = (es.filter fun e => (e.ctx, e.id) = k).map (·.occ) := by
    rw [h1]; exact refs_eq_map_occ (fun e he => hc e (List.mem_filter.1 he).1)
  exact ⟨h2, by rw [h2, List.length_map, List.countP_eq_length_filter]⟩

/-- every key of an entry has a row (with the previous theorems: exactly one) -/
theorem catalogue_row_exists (es : List Entry) (e : Entry) (he : e ∈ es) :
    ∃ p r, ((e.ctx, e.id), p, r) ∈ catalogue es ∧ (e.cited = true → e.occ ∈ r) := by
  have hk : (e.ctx, e.id) ∈ (catalogue es).map (·.1) := (catalogue_keys_complete es _).2 ⟨e, he, rfl⟩
  obtain ⟨⟨k, p, r⟩, hm, hk'⟩ := List.mem_map.1 hk
  simp only at hk'; subst hk'
  refine ⟨p, r, hm, fun hc => ?_⟩
  rw [((catalogue_refs_complete es _ p r).1 hm).2, List.mem_flatMap]
  exact ⟨e, List.mem_filter.2 ⟨he, by simp⟩, by simp [Entry.refs, hc]⟩

/-- every extracted entry carries its reference, for ALL keyword tables -/
theorem extract_cited (kws : List Keyword) (pos : Nat → Nat → Nat) (e : E)
    (x : Entry) (h : x ∈ extract kws pos e) : x.cited = true := by
  obtain ⟨_, _, _, _, _, _, _, _, _, _, _, _, _, _, _, _, rfl⟩ := extract_sound kws pos e x h
  rfl

/-- … so in the catalogue of the entries of any number of trees the reference list of a row is the list of ALL
    occurrences of its (context, msgid), in extraction order -/
theorem catalogue_refs_all_occurrences (kws : List Keyword) (ts : List ((Nat → Nat → Nat) × E))
    (k : String × String) (p : String) (r : List Nat) (h : (k, p, r) ∈ catalogue (extractMany kws ts)) :
    r = ((extractMany kws ts).filter fun e => (e.ctx, e.id) = k).map (·.occ) ∧
    r.length = (extractMany kws ts).countP (fun e => (e.ctx, e.id) = k) := by
  refine catalogue_refs_occ _ (fun x hx => ?_) k p r h
  obtain ⟨t, _, hx⟩ := XT.mem_extractMany_iff.1 hx
  exact extract_cited kws t.1 t.2 x hx

-- three occurrences of one msgid (different plurals), another key in between: all references kept, last plural
example : catalogue [⟨"", "a", "", 1, true⟩, ⟨"c", "a", "", 2, true⟩, ⟨"", "a", "as", 3, true⟩, ⟨"", "a", "A", 4, true⟩]
    = [(("", "a"), "A", [1, 3, 4]), (("c", "a"), "", [2])] := by decide
example : catalogue (extract defaultKws pos0 big) =
    [(("", "hello"), "", [1, 201]), (("c", "one"), "many", [102]), (("", "in"), "", [401]), (("", "a"), "b", [501])] := by
  decide
example : (("", "a"), "A", [1, 3, 4]) ∈
    catalogue [⟨"", "a", "", 1, true⟩, ⟨"c", "a", "", 2, true⟩, ⟨"", "a", "as", 3, true⟩, ⟨"", "a", "A", 4, true⟩] ∧
    [1, 3, 4].length = 3 := by decide

/-! ## the header -/

/-- no extracted entry has the header's key (context "" and msgid ""), for ALL keyword tables … -/
theorem header_never_replaced (kws : List Keyword) (pos : Nat → Nat → Nat) (e : E)
    (x : Entry) (h : x ∈ extract kws pos e) :
    ¬ (x.ctx = "" ∧ x.id = "") ∧ x.key ≠ ("", "") ∧ x.goKey ≠ headerKey := by
  obtain ⟨n, _, args, _, kw, _, s, _, _, _, _, _, _, _, _, hne, rfl⟩ := extract_sound kws pos e x h
  have h1 : ¬ ((entryOf kw args s (pos n kw.id)).ctx = "" ∧ (entryOf kw args s (pos n kw.id)).id = "") :=
    fun hh => hne ⟨hh.2, hh.1⟩
  refine ⟨h1, ?_, fun hh => h1 ((goKey_eq_headerKey_iff _).1 hh)⟩
  intro hh
  simp only [Entry.key, Prod.mk.injEq] at hh
  exact h1 hh

/-- … so `Save` keeps the header entry: the POT entry map is the header followed by the merged entries (keyed
    by the translator's `Key()`), for the entries of any number of trees and ALL keyword tables -/
theorem header_kept (kws : List Keyword) (ts : List ((Nat → Nat → Nat) × E)) :
    save (extractMany kws ts) = (headerKey, PotEntry.header) ::
      (mergeBy Entry.goKey (extractMany kws ts)).map (fun x => (x.1, PotEntry.msg x.2.1 x.2.2)) := by
  apply save_eq_of_no_header_key
  intro x hx
  obtain ⟨t, _, hx⟩ := XT.mem_extractMany_iff.1 hx
  exact (header_never_replaced kws t.1 t.2 x hx).1

/-- the translator's key `ctxt + "\x04" + msgid` separates (context, msgid) pairs whose contexts are free of
    U+0004 (all of `catalogue_*` holds verbatim for `mergeBy Entry.goKey`: the lemmas are generic in the key) -/
theorem goKey_faithful (a b : Entry) (ha : '\x04' ∉ a.ctx.toList) (hb : '\x04' ∉ b.ctx.toList) :
    a.goKey = b.goKey ↔ (a.ctx, a.id) = (b.ctx, b.id) := by
  constructor
  · exact goKey_inj ha hb
  · intro h; simp only [Prod.mk.injEq] at h; simp [Entry.goKey, h.1, h.2]

example : save (extractMany defaultKws [(pos0, callT), (pos0, nothing), (fun n i => 1000 + pos0 n i, callT2)]) =
    [(headerKey, .header), ("\x04hello", .msg ⟨"", "hello", "", 1001, true⟩ [1, 1001])] := by decide
example : extract defaultKws pos0 big ≠ [] := by decide
-- the former counterexample (`-keywords T:0`, a call `T(x)`): the header stays
example : parseKeywords "T:0" = some [⟨"T", 0, 0, 0⟩] ∧
    save (extract [⟨"T", 0, 0, 0⟩] pos0 (.call (.name "T") [.name "x"] false)) = [(headerKey, .header)] := by decide
-- `header_kept` with a table mixing a keyword without msgid position and the default ones
example : save (extractMany (⟨"T", 0, 0, 0⟩ :: defaultKws) [(pos0, callT), (pos0, nothing)]) =
    [(headerKey, .header), ("\x04hello", .msg ⟨"", "hello", "", 1, true⟩ [1])] := by
  rw [header_kept]; decide

end C20
