import TplModel.Props.C14
/-! # C20 — xtpl extracts every translatable literal the templates pass at run time

OBLIGATIONS: C14.decode_encode_dq, C14.decode_encode_sq, C14.decode_encode_raw, C14.sq2dq_correct

Interim: the literal decoder shared by the evaluator and (as a copy) by xtpl round-trips every string in the three
quoting styles, so the catalogue strings are the run-time strings whenever both decode the same text — which
./check C20 verifies on the binary built from the working tree. The extraction model and its completeness /
soundness theorems are task T20. -/
