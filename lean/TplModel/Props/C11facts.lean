import TplModel.Generated.Facts
import TplModel.Exp.Eval
/-! # C11 / C09 — facts re-extracted from exp/visitor.go on every run

OBLIGATIONS: C11K.isInt_covers_exactly_the_ten_kinds, C11K.isFloat_covers_both_kinds

`Facts.isIntCases` / `Facts.isFloatCases` list every case of the type switches of `IsInt` / `IsFloat` with the
expression returned for it. "Whether two numbers are equal never depends on which Go integer type carries them": every
one of the ten integer kinds of the model (`EV.IK`) is recognised, and for each the value is converted with `int64(i)`
unconditionally (no kind-specific bound or branch); both float kinds are widened to float64. -/
namespace C11K
open EV

def allKinds : List IK := [.int, .int8, .int16, .int32, .int64, .uint, .uint8, .uint16, .uint32, .uint64]

theorem isInt_covers_exactly_the_ten_kinds :
    Facts.isIntCases = allKinds.map (fun k => (k.name, "int64(i), true")) := by decide

theorem isFloat_covers_both_kinds :
    Facts.isFloatCases = [("float32", "float64(i), true"), ("float64", "i, true")] := by decide

end C11K
