import TplModel.Proofs.VoidTree
import TplModel.Props.Loader
/-! # C06 / C01 — void elements in the tree builder: no children, in any letter case

Level: the loader's model of `Parser.ParseTokens`, `EN.buildTreeS` (= `EN.compileToks`, which classifies every token —
`EN.tagItem` contains the void test — followed by `EN.assemble`, the push/pop/leaf loop), i.e. exactly the trees that
`EN.addFile` registers and `RN.exec` / `RN.refNode` render; and the registry of a loaded manager (`EN.loadFiles`).
All theorems hold for every token list and every configuration (`cfg.voidTags` arbitrary). Helpers:
`TplModel/Proofs/VoidTree.lean`. Core-only.

`EN.isVoid cfg name` is `p.isVoidElement(name)`: `name` and every configured name are lower-cased (`EN.lowerS`, ASCII
letters only — see the report for the deviation from `strings.ToLower` outside ASCII) and compared.

(a) `void_has_no_children`: in the tree of ANY token list, every tag node — at any depth (`EN.Sub m root`) — whose name
    is void in any letter case has an empty child list and no end tag; `void_has_no_children_loaded`: the same for every
    template (file or fragment) of every loaded manager; `void_keeps_insertion_point`: a void start tag leaves the stack
    of open elements unchanged; `void_next_token_is_sibling`: the token after a void start tag, unless it is an end
    tag, becomes the NEXT SIBLING of the void element (an end tag closes the enclosing element: `void_then_end_tag`).
(b) `isVoid_toLower` and `void_case_insensitive` (full statement): re-spelling the names of any of the void tags in
    another letter case changes nothing in the result of `buildTreeS` (same outcome class, same expression table, and
    on success the same tree up to the spelling of tag names: `mapN lowD`; `sameShape_of_low` spells that out).
(c) `void_with_not_visible_to_sibling`: the nodes after a void element in its parent's child list are rendered by the
    specification renderer in the scope `sc` in which the parent renders its children — the scope that the void
    element's own `with` produces (`frame :: sc`, `Callbacks.lookup_after_with`) is passed to no node at all
    (`void_body_renders_no_node`). Together with `RN.exec_refines_ref` (`EN.exec_refines_loaded`) the same holds for
    the faithful renderer. Concrete run: `Examples.sibling_sees_outer`.

OBLIGATIONS: C06V.isVoid_spec, C06V.isVoid_of_mem, C06V.isVoid_toLower, C06V.isVoid_case, C06V.void_item_is_leaf, C06V.void_has_no_children, C06V.void_has_no_children_loaded, C06V.void_has_no_children_TB, C06V.void_keeps_insertion_point, C06V.void_next_token_is_sibling, C06V.void_then_end_tag, C06V.void_case_insensitive, C06V.void_case_insensitive_ok, C06V.void_case_insensitive_fn, C06V.sameShape_of_low, C06V.void_body_renders_no_node, C06V.void_with_not_visible_to_sibling -/
namespace C06V
open EN
open RN (CAttr Part NodeD Node NK)

/-! ## the void test -/

/-- **isVoid_spec.** The test of `tagItem`: some configured name equals the tag name after both are lower-cased. -/
theorem isVoid_spec (cfg : Cfg) (name : String) :
    isVoid cfg name = true ↔ ∃ v ∈ cfg.voidTags, lowerS v = lowerS name := isVoid_iff cfg name

/-- with a lower-case list (the default one is): "the name, lower-cased, is in the list" -/
theorem isVoid_of_mem (cfg : Cfg) (name : String) (h : lowerS name ∈ cfg.voidTags) : isVoid cfg name = true :=
  (isVoid_iff cfg name).mpr ⟨_, h, lowerS_idem name⟩

/-- **isVoid_toLower.** The void test depends on `lowerS name` only. -/
theorem isVoid_toLower (cfg : Cfg) (name : String) : isVoid cfg name = isVoid cfg (lowerS name) :=
  (isVoid_lowerS cfg name).symm

theorem isVoid_case (cfg : Cfg) (n n' : String) (h : lowerS n = lowerS n') : isVoid cfg n = isVoid cfg n' :=
  isVoid_congr cfg h

example : isVoid {} "INPUT" = true ∧ isVoid {} "Br" = true ∧ isVoid {} "img" = true ∧ isVoid {} "iMg" = true ∧
    isVoid {} "div" = false ∧ isVoid {} "/br" = false ∧ lowerS "INPUT" = lowerS "inPut" := by decide +kernel

/-- **void_item_is_leaf.** Whatever else the tag looks like (attributes, a trailing `/`, even a leading `/` as in
    `</br>` when `/br` is configured), a tag token with a void name is appended as a leaf: the `isVoid` disjunct of
    both tests in `ParseTokens`. -/
theorem void_item_is_leaf (cfg : Cfg) (id : Nat) (value name : String) (attrs : List CAttr) (h : isVoid cfg name = true) :
    (tagItem cfg id value name attrs).act = .leaf := tagItem_void cfg id value name attrs h

/-! ## (a) no children -/

/-- **void_has_no_children.** For every configuration, file index, token list and expression table: in the tree that
    `buildTreeS` returns, EVERY node `m` (the root, its children, …, at any depth) that is a tag node whose name is a
    void element in any letter case has no children and no end tag. So whatever tokens follow a void start tag are
    placed outside it (`buildTreeS_flatten`: none of them is lost): as siblings, or in / as the end of an ancestor. -/
theorem void_has_no_children (cfg : Cfg) (fileIdx : Nat) (toks : List HS.Token) (tbl tbl' : Tbl) (root : Node)
    (h : buildTreeS cfg fileIdx toks tbl = (.ok root, tbl')) :
    ∀ m, Sub m root → m.d.kind = .tag → isVoid cfg m.d.tagName = true → m.kids = [] ∧ m.endVal = none := by
  obtain ⟨items, h1, rfl⟩ := mapRes_ok h
  have hl : LeafyN (VoidD cfg) (assemble items) :=
    assemble_leafy (not_voidD_rootD cfg) items (compileToks_void toks _ _ _ items h1)
  intro m hs hk hv
  exact (leafyN_iff_sub _).mp hl m hs ⟨hk, hv⟩

/-- the registered form (`annotate`) and the fragments cut out of it keep the property -/
theorem addFile_void (cfg : Cfg) (fns : List (String × EV.FnSpec)) (idx : Nat) (name src : String) (m m' : Mgr)
    (hinv : ∀ p ∈ m.templates, LeafyN (VoidD cfg) p.2) (h : addFile cfg fns idx name src m = .ok m') :
    ∀ p ∈ m'.templates, LeafyN (VoidD cfg) p.2 := by
  obtain ⟨toks, root0, tbl', _, hb, hadd, _, _⟩ := addFile_ok h
  have h0 : LeafyN (VoidD cfg) root0 :=
    (leafyN_iff_sub _).mpr (fun m hs hp => void_has_no_children cfg idx toks _ tbl' root0 hb m hs hp.1 hp.2)
  have h1 : LeafyN (VoidD cfg) (annotate root0) := (annotate_leafy (voidD_strip cfg) root0).mpr h0
  intro p hp
  rcases addDefined_leafy (not_voidD_rootD cfg) cfg _ _ _ _ h1 hadd p hp with hp | hp
  · rcases List.mem_append.mp hp with hp | hp
    · exact hinv p hp
    · simp only [List.mem_singleton] at hp; subst hp; exact h1
  · exact hp

theorem loadFrom_void (cfg : Cfg) (fns : List (String × EV.FnSpec)) : ∀ (files : List (String × String)) (i : Nat) (m m' : Mgr),
    (∀ p ∈ m.templates, LeafyN (VoidD cfg) p.2) → loadFrom cfg fns i files m = .ok m' →
    ∀ p ∈ m'.templates, LeafyN (VoidD cfg) p.2
  | [], i, m, m', hinv, h => by
    simp only [loadFrom, LoadRes.ok.injEq] at h; subst h; exact hinv
  | f :: rest, i, m, m', hinv, h => by
    rw [loadFrom] at h
    cases ha : addFile cfg fns (i + 1) f.1 f.2 m with
    | ok m1 =>
      simp only [ha] at h
      exact loadFrom_void cfg fns rest (i + 1) m1 m' (addFile_void cfg fns _ _ _ m m1 hinv ha) h
    | err => simp [ha] at h
    | panic => simp [ha] at h
    | unsupported => simp [ha] at h

/-- **void_has_no_children_loaded.** Every template — file root or `define` fragment — of every manager that
    `loadFiles` returns: every void tag node in it, at any depth, has no children and no end tag. -/
theorem void_has_no_children_loaded (cfg : Cfg) (fns : List (String × EV.FnSpec)) (files : List (String × String)) (m : Mgr)
    (h : loadFiles cfg fns files = .ok m) :
    ∀ p ∈ m.templates, ∀ n, Sub n p.2 → n.d.kind = .tag → isVoid cfg n.d.tagName = true →
      n.kids = [] ∧ n.endVal = none := by
  have hinv := loadFrom_void cfg fns files 0 (emptyMgr cfg fns) m (by intro p hp; cases hp) h
  intro p hp n hs hk hv
  exact (leafyN_iff_sub _).mp (hinv p hp) n hs ⟨hk, hv⟩

/-- **void_keeps_insertion_point.** One step of the builder on the item of a void start tag: the stack of open
    elements is unchanged and the node is appended, childless, to the children of the innermost open element — so the
    next token is placed relative to the same element as the void tag was. -/
theorem void_keeps_insertion_point (cfg : Cfg) (id : Nat) (t : HS.Token) (tbl tbl' : Tbl) (it : Item) (bs : BS)
    (h : compileTok cfg id t tbl = (.ok it, tbl')) (hk : it.d.kind = .tag) (hv : isVoid cfg it.d.tagName = true) :
    stepItem bs it = ⟨bs.stack, .mk it.d [] none :: bs.cur⟩ :=
  stepItem_of_leaf bs it (compileTok_void h ⟨hk, hv⟩)

/-- the items of `pre ++ tv :: ts :: post` -/
theorem compileToks_split {cfg : Cfg} {id : Nat} {pre post : List HS.Token} {tv ts : HS.Token} {tbl tbl' : Tbl}
    {items : List Item} (h : compileToks cfg id (pre ++ tv :: ts :: post) tbl = (.ok items, tbl')) :
    ∃ ipre ipost iv is t1 t2, compileTok cfg (id + pre.length) tv t1 = (.ok iv, t2) ∧
      (∃ t3, compileTok cfg (id + pre.length + 1) ts t2 = (.ok is, t3)) ∧ items = ipre ++ iv :: is :: ipost := by
  obtain ⟨ipre, ib, t1, _, h2, rfl⟩ := compileToks_append cfg pre _ id tbl tbl' items h
  obtain ⟨iv, rest, t2, hv, h3, rfl⟩ := compileToks_cons h2
  obtain ⟨is, ipost, t3, hs, _, rfl⟩ := compileToks_cons h3
  exact ⟨ipre, ipost, iv, is, t1, t2, hv, ⟨t3, hs⟩, rfl⟩

/-- **void_next_token_is_sibling.** Token list `pre ++ tv :: ts :: post` where `tv` is a tag token whose name is void
    (any letter case, any attributes) and `ts` is anything but an end tag (text, comment, CDATA, start tag,
    self-closing tag): in the built tree some node `p` (at whatever depth `tv` occurred) has the two as CONSECUTIVE
    children `V`, `S` — `S`, and with it everything that `ts` opens, is a sibling of the void element, not a
    descendant; `V` has no children and no end tag. Nodes are identified by their id (position in the token list),
    value (source text) and name. -/
theorem void_next_token_is_sibling (cfg : Cfg) (fileIdx : Nat) (pre post : List HS.Token) (tv ts : HS.Token) (tgv : HS.Tag)
    (tbl tbl' : Tbl) (root : Node)
    (hk : tv.kind = .tag) (htag : tv.tag = some tgv) (hvoid : isVoid cfg (String.ofList tgv.name) = true)
    (hs : NotEndTag ts) (h : buildTreeS cfg fileIdx (pre ++ tv :: ts :: post) tbl = (.ok root, tbl')) :
    ∃ p a b V S, Sub p root ∧ p.kids = a ++ V :: S :: b ∧
      (V.d.id = firstId fileIdx + pre.length ∧ V.d.kind = .tag ∧ V.d.tagName = String.ofList tgv.name ∧
        V.d.value = String.ofList tv.value) ∧ V.kids = [] ∧ V.endVal = none ∧
      (S.d.id = firstId fileIdx + pre.length + 1 ∧ S.d.value = String.ofList ts.value) := by
  obtain ⟨items, h1, rfl⟩ := mapRes_ok h
  obtain ⟨ipre, ipost, iv, is, t1, t2, hv, ⟨t3, hs'⟩, rfl⟩ := compileToks_split h1
  obtain ⟨cs, hiv⟩ := compileTok_tag hv hk htag
  have hleaf : iv.act = .leaf := by rw [hiv]; exact tagItem_void _ _ _ _ _ hvoid
  have hnc : is.act ≠ .close := compileTok_not_close hs' hs
  obtain ⟨p, hp, a, b, S, hkids, hS⟩ := assemble_adj ipre ipost iv is hleaf hnc
  obtain ⟨hsr, hsid⟩ := compileTok_rel cfg _ ts t2 t3 is hs'
  refine ⟨p, a, b, _, S, hp, hkids, ⟨?_, ?_, ?_, ?_⟩, rfl, rfl, ?_, ?_⟩
  · rw [hiv]; rfl
  · rw [hiv]; rfl
  · rw [hiv]; rfl
  · rw [hiv]; rfl
  · rw [hS, hsid]
  · rw [hS, hsr.1]

/-- **void_then_end_tag.** … and when the token after the void start tag IS an end tag, it does not close the void
    element: with an enclosing element open it becomes that element's end tag (the void node being its last child),
    at the root it is kept as a leaf after the void node. -/
theorem void_then_end_tag (bs : BS) (v c : Item) (hv : v.act = .leaf) (hc : c.act = .close) :
    stepItem (stepItem bs v) c =
      match bs.stack with
      | fr :: rest => ⟨rest, .mk fr.d (bs.cur.reverse ++ [.mk v.d [] none]) (some c.d.value) :: fr.before⟩
      | [] => ⟨[], .mk c.d [] none :: .mk v.d [] none :: bs.cur⟩ := by
  rw [stepItem_of_leaf bs v hv]
  cases hst : bs.stack <;> simp [stepItem, hc]

/-- **void_has_no_children_TB.** The same invariant one level up, for the abstract model `TB.build` of `ParseTokens`
    (any token type, any classifier — `cfg.isVoid` is then an arbitrary predicate, e.g. a case-insensitive one): every
    node of the built tree, at any depth (`TB.LeafyL` recurses through all children), whose token is a void element
    has no children and no End. -/
theorem void_has_no_children_TB {Tok : Type} (cfg : TB.Cfg Tok) (toks : List Tok) (d : TB.Doc Tok)
    (h : TB.build cfg toks = .ok d) : TB.LeafyL (fun t => cfg.isVoid t = true) d.kids :=
  TB.build_void_leafy cfg toks d h

/-- the toy classifier of `Html/Tree.lean` with the case-insensitive void test of the loader -/
def ciCfg : TB.Cfg TB.DTok :=
  { TB.demo with isVoid := fun t => match t with | .op n | .cl n | .sc n => isVoid {} n | _ => false }

def ciToks : List TB.DTok :=
  [.op "p", .op "INPUT", .op "b", .txt "-", .cl "b", .op "Br", .txt "t", .op "img", .op "i", .txt "u", .cl "i", .cl "p"]

example : ∃ d, TB.build ciCfg ciToks = .ok d ∧ d.kids.length = 1 ∧ TB.LeafyL (fun t => ciCfg.isVoid t = true) d.kids := by
  have h : (match TB.build ciCfg ciToks with | .ok d => d.kids.length == 1 | _ => false) = true := by decide +kernel
  split at h
  · rename_i d hd; exact ⟨d, hd, by simpa using h, void_has_no_children_TB ciCfg ciToks d hd⟩
  all_goals cases h

/-! ## (b) letter case -/

/-- **void_case_insensitive.** `toks'` is `toks` with the names of some tags that are void elements re-spelled in any
    way that keeps the lower-cased name (`RecasedVoid`, token by token). Then `buildTreeS` behaves identically on the
    two lists: same outcome (`ok` / `err` / `panic` / `unsupported`), same expression table, and on success trees that
    are equal once tag names are lower-cased (`mapN lowD`) — same ids, kinds, values, attributes, end tags and, above
    all, the same parent/child structure. -/
theorem void_case_insensitive (cfg : Cfg) (fileIdx : Nat) (toks toks' : List HS.Token) (tbl : Tbl)
    (h : Aligned (RecasedVoid cfg) toks toks') :
    mapRes (mapN lowD) (buildTreeS cfg fileIdx toks' tbl) = mapRes (mapN lowD) (buildTreeS cfg fileIdx toks tbl) := by
  have e : ∀ r : LoadRes (List Item) × Tbl,
      mapRes (mapN lowD) (mapRes assemble r) = mapRes assemble (mapRes (List.map (vmapItem lowD)) r) := by
    intro r
    rw [mapRes_mapRes, mapRes_mapRes]
    exact mapRes_congr (fun items => vassemble_map lowD lowD_value lowD_rootD items) r
  unfold buildTreeS
  rw [e, e, compileToks_recase cfg h]

/-- the successful case spelled out -/
theorem void_case_insensitive_ok (cfg : Cfg) (fileIdx : Nat) (toks toks' : List HS.Token) (tbl tbl' : Tbl) (root : Node)
    (h : Aligned (RecasedVoid cfg) toks toks') (hb : buildTreeS cfg fileIdx toks tbl = (.ok root, tbl')) :
    ∃ root', buildTreeS cfg fileIdx toks' tbl = (.ok root', tbl') ∧ mapN lowD root' = mapN lowD root := by
  have e := void_case_insensitive cfg fileIdx toks toks' tbl h
  rw [hb] at e
  obtain ⟨root', h1, h2⟩ := mapRes_ok (f := mapN lowD) (r := buildTreeS cfg fileIdx toks' tbl) (y := mapN lowD root)
    (t := tbl') e
  exact ⟨root', h1, h2.symm⟩

/-- re-spell the name of every void tag by `f` -/
def recaseTok (cfg : Cfg) (f : List Char → List Char) (t : HS.Token) : HS.Token :=
  match t.tag with
  | some tg => if isVoid cfg (String.ofList tg.name) then { t with tag := some { tg with name := f tg.name } } else t
  | none => t

/-- **void_case_insensitive_fn.** The same for "any function on names that preserves `toLower`", applied to all void
    tags. -/
theorem void_case_insensitive_fn (cfg : Cfg) (fileIdx : Nat) (toks : List HS.Token) (tbl : Tbl) (f : List Char → List Char)
    (hf : ∀ n, lowerS (String.ofList (f n)) = lowerS (String.ofList n)) :
    mapRes (mapN lowD) (buildTreeS cfg fileIdx (toks.map (recaseTok cfg f)) tbl) =
      mapRes (mapN lowD) (buildTreeS cfg fileIdx toks tbl) := by
  apply void_case_insensitive
  induction toks with
  | nil => exact .nil
  | cons t ts ih =>
    refine .cons ?_ ih
    unfold recaseTok
    cases htag : t.tag with
    | none => exact Or.inl rfl
    | some tg =>
      simp only
      by_cases hv : isVoid cfg (String.ofList tg.name) = true
      · rw [if_pos hv]; exact Or.inr ⟨tg, f tg.name, htag, hv, hf _, rfl⟩
      · rw [if_neg hv]; exact Or.inl rfl

/-- what equality after `mapN lowD` says about two nodes: data equal except for the spelling of the tag name, same end
    tag, equally many children, and (recursively: `List.map`) the same for the children -/
theorem sameShape_of_low (n n' : Node) (h : mapN lowD n' = mapN lowD n) :
    n'.d.id = n.d.id ∧ n'.d.kind = n.d.kind ∧ n'.d.value = n.d.value ∧ n'.d.attrs = n.d.attrs ∧
    lowerS n'.d.tagName = lowerS n.d.tagName ∧ n'.endVal = n.endVal ∧ n'.kids.length = n.kids.length ∧
    n'.kids.map (mapN lowD) = n.kids.map (mapN lowD) := by
  cases n with
  | mk d kids e =>
    cases n' with
    | mk d' kids' e' =>
      simp only [mapN, Node.mk.injEq, mapL_eq_map] at h
      obtain ⟨hd, hk, he⟩ := h
      have hd' := hd
      simp only [lowD] at hd'
      have hlen := congrArg List.length hk
      simp only [List.length_map] at hlen
      cases d; cases d'
      simp only [NodeD.mk.injEq] at hd'
      obtain ⟨h1, h2, h3, h4, h5, _, _⟩ := hd'
      exact ⟨h1, h2, h3, h5, h4, he, hlen, hk⟩

/-! ## (c) rendering: the binding of a void element reaches no other node -/

/-- **void_body_renders_no_node.** The last phase of rendering an element `v` without children, in the scope `sc1`
    that its `with` produced: whatever the child mode, no node is rendered — `text` / `raw` evaluate the element's own
    attribute, everything else prints nothing. (`refChild` is the only place where the scope of an element is handed
    to other nodes of the same template.) -/
theorem void_body_renders_no_node {Sc : Type} (rc : RN.Cfg) (env : RN.Env Sc) (g depth : Nat) (nc : RN.NC) (v : Node)
    (mode : RN.ChildMode) (sc1 : Sc) (hk : v.kids = []) :
    RN.refChild rc env (g + 2) depth nc v mode sc1 =
      match mode with
      | .textLike a isText =>
        match env.evalStr a sc1 with
        | (.error c, lg) => { st := .err c, log := lg, nc := nc }
        | (.ok s, lg) => { st := .ok, out := [if isText then RN.escapeHtml s else s], log := lg, nc := nc }
      | _ => RN.Q.okQ [] nc := by
  cases mode with
  | unset => simp [RN.refChild, hk, RN.refKids]
  | nop => simp [RN.refChild]
  | textLike a isText => rcases he : env.evalStr a sc1 with ⟨c | s, lg⟩ <;> simp [RN.refChild, he]
  | abf => simp [RN.refChild, hk, RN.abfParts, RN.Q.andThen, RN.Q.okQ]

/-- **void_with_not_visible_to_sibling.** In the tree built from ANY token list, take any node `p` (any depth) and
    any of its children `V` that is a void element in any letter case — with whatever attributes, e.g.
    `:with="x := …"`. Then `V` has no children and no end tag (a), and the specification renderer treats `V` and the
    children `rest` after it like this, for every renderer configuration, evaluation interface, scope type, fuel,
    condition table and scope `sc`: `V` is rendered in `sc`, and every following sibling is rendered in the SAME `sc`
    — the scope of the parent's children; the frame that `V`'s `with` pushes (`env.withAssign a sc = frame :: sc` in
    the concrete interface, `Callbacks.lookup_after_with`) is on the scope chain of no sibling, and by
    `void_body_renders_no_node` of no node at all. The siblings see of `V` only the condition table `nc1`. -/
theorem void_with_not_visible_to_sibling {Sc : Type} (cfg : Cfg) (fileIdx : Nat) (toks : List HS.Token) (tbl tbl' : Tbl)
    (root p V : Node) (a rest : List Node) (h : buildTreeS cfg fileIdx toks tbl = (.ok root, tbl'))
    (hp : Sub p root) (hkids : p.kids = a ++ V :: rest) (hk : V.d.kind = .tag) (hv : isVoid cfg V.d.tagName = true) :
    V.kids = [] ∧ V.endVal = none ∧
    ∀ (rc : RN.Cfg) (env : RN.Env Sc) (f depth : Nat) (nc : RN.NC) (sc : Sc),
      RN.refKids rc env (f + 1) depth nc (V :: rest) sc =
        (RN.refNode rc env f depth nc V sc).andThen fun nc1 => RN.refKids rc env f depth nc1 rest sc := by
  have hV : Sub V root := Sub.trans (.step (by rw [hkids]; simp) (.refl V)) hp
  obtain ⟨h1, h2⟩ := void_has_no_children cfg fileIdx toks tbl tbl' root h V hV hk hv
  exact ⟨h1, h2, fun rc env f depth nc sc => by simp only [RN.refKids]⟩

/-! ## non-vacuity: `<p><INPUT :with="x := ${1}"><b :text="${x}">-</b><Br>t<img src=a><i>u</i></p>` -/
namespace Examples

def pos0 : HS.Pos := ⟨1, 1⟩
def tagT (raw name : String) (attrs : List HS.Attr := []) : HS.Token :=
  ⟨.tag, raw.toList, pos0, pos0, some ⟨name.toList, attrs⟩⟩
def txtT (s : String) : HS.Token := ⟨.text, s.toList, pos0, pos0, none⟩
def withA : HS.Attr := ⟨":with".toList, pos0, pos0, some "\"x := ${1}\"".toList, pos0, pos0⟩
def textA : HS.Attr := ⟨":text".toList, pos0, pos0, some "\"${x}\"".toList, pos0, pos0⟩
def srcA : HS.Attr := ⟨"src".toList, pos0, pos0, some "a".toList, pos0, pos0⟩

def pT : HS.Token := tagT "<p>" "p"
def inputT : HS.Token := tagT "<INPUT :with=\"x := ${1}\">" "INPUT" [withA]
def bT : HS.Token := tagT "<b :text=\"${x}\">" "b" [textA]
def brT : HS.Token := tagT "<Br>" "Br"
def imgT : HS.Token := tagT "<img src=a>" "img" [srcA]
def iT : HS.Token := tagT "<i>" "i"
def tail1 : List HS.Token := [txtT "-", tagT "</b>" "/b", brT, txtT "t", imgT, iT, txtT "u", tagT "</i>" "/i", tagT "</p>" "/p"]
def tail2 : List HS.Token := [imgT, iT, txtT "u", tagT "</i>" "/i", tagT "</p>" "/p"]
def tail3 : List HS.Token := [txtT "u", tagT "</i>" "/i", tagT "</p>" "/p"]

/-- the token list of the document above -/
def toks : List HS.Token := pT :: inputT :: bT :: tail1

/-- the same with the three void names in another spelling -/
def toks' : List HS.Token :=
  [pT, tagT "<INPUT :with=\"x := ${1}\">" "inPut" [withA], bT, txtT "-", tagT "</b>" "/b", tagT "<Br>" "BR", txtT "t",
   tagT "<img src=a>" "IMG" [srcA], iT, txtT "u", tagT "</i>" "/i", tagT "</p>" "/p"]

mutual
/-- names, ids and nesting of a tree, for the checks below -/
def shape : Node → String
  | .mk d kids e => d.tagName ++ "#" ++ toString d.id ++ "[" ++ shapeL kids ++ "]" ++ e.getD ""
def shapeL : List Node → String
  | [] => ""
  | k :: ks => shape k ++ " " ++ shapeL ks
end

def root0 : Node := match buildTreeS {} 1 toks #[] with | (.ok r, _) => r | _ => default
def tbl0 : Tbl := (buildTreeS {} 1 toks #[]).2

/-- INPUT, Br and img are childless; `b`, the text `t` and `i` are their next siblings -/
def buildCheck : Bool :=
  match buildTreeS {} 1 toks #[] with
  | (.ok r, _) => shape r ==
      "#0[p#100001[INPUT#100002[] b#100003[#100004[] ]</b> Br#100006[] #100007[] img#100008[] i#100009[#100010[] ]</i> ]</p> ]"
  | _ => false

set_option maxRecDepth 100000 in
theorem buildCheck_true : buildCheck = true := by decide +kernel

theorem build_ok : buildTreeS {} 1 toks #[] = (.ok root0, tbl0) := by
  have h := buildCheck_true
  unfold buildCheck at h
  unfold root0 tbl0
  rcases hb : buildTreeS {} 1 toks #[] with ⟨r | _ | _ | _, t⟩
  · rfl
  all_goals (rw [hb] at h; cases h)

/-- (a) on the concrete tree -/
example : ∀ m, Sub m root0 → m.d.kind = .tag → isVoid {} m.d.tagName = true → m.kids = [] ∧ m.endVal = none :=
  void_has_no_children {} 1 toks #[] tbl0 root0 build_ok

theorem notEnd_of_name (raw name : String) (attrs : List HS.Attr) (h : name.startsWith "/" = false) :
    NotEndTag (tagT raw name attrs) := by
  intro _ tg htag
  simp only [tagT, Option.some.injEq] at htag
  subst htag
  simpa using h

/-- the hypotheses of `void_next_token_is_sibling` for `<INPUT …>` followed by the start tag `<b …>` … -/
example : ∃ p a b V S, Sub p root0 ∧ p.kids = a ++ V :: S :: b ∧
    (V.d.id = 100002 ∧ V.d.kind = .tag ∧ V.d.tagName = "INPUT" ∧ V.d.value = "<INPUT :with=\"x := ${1}\">") ∧
    V.kids = [] ∧ V.endVal = none ∧ (S.d.id = 100003 ∧ S.d.value = "<b :text=\"${x}\">") := by
  have h := void_next_token_is_sibling {} 1 [pT] tail1 inputT bT ⟨"INPUT".toList, [withA]⟩ #[] tbl0 root0 rfl rfl
    (by decide +kernel) (notEnd_of_name _ _ _ (by decide +kernel)) build_ok
  simpa [firstId, inputT, bT, tagT] using h

/-- … for `<Br>` followed by text … -/
example : ∃ p a b V S, Sub p root0 ∧ p.kids = a ++ V :: S :: b ∧
    (V.d.id = 100006 ∧ V.d.kind = .tag ∧ V.d.tagName = "Br" ∧ V.d.value = "<Br>") ∧
    V.kids = [] ∧ V.endVal = none ∧ (S.d.id = 100007 ∧ S.d.value = "t") := by
  have h := void_next_token_is_sibling {} 1 [pT, inputT, bT, txtT "-", tagT "</b>" "/b"] tail2 brT (txtT "t")
    ⟨"Br".toList, []⟩ #[] tbl0 root0 rfl rfl (by decide +kernel) (by intro hk; cases hk) build_ok
  simpa [firstId, brT, txtT, tagT] using h

/-- … and for `<img src=a>` followed by `<i>` -/
example : ∃ p a b V S, Sub p root0 ∧ p.kids = a ++ V :: S :: b ∧
    (V.d.id = 100008 ∧ V.d.kind = .tag ∧ V.d.tagName = "img" ∧ V.d.value = "<img src=a>") ∧
    V.kids = [] ∧ V.endVal = none ∧ (S.d.id = 100009 ∧ S.d.value = "<i>") := by
  have h := void_next_token_is_sibling {} 1 [pT, inputT, bT, txtT "-", tagT "</b>" "/b", brT, txtT "t"] tail3 imgT iT
    ⟨"img".toList, [srcA]⟩ #[] tbl0 root0 rfl rfl (by decide +kernel) (notEnd_of_name _ _ _ (by decide +kernel)) build_ok
  simpa [firstId, imgT, iT, tagT] using h

/-- (c): the hypotheses of `void_with_not_visible_to_sibling` are satisfiable — the node of `<INPUT :with=…>` and the
    rest of its parent's children, as found by `void_next_token_is_sibling` -/
example : ∃ p a V rest, Sub p root0 ∧ p.kids = a ++ V :: rest ∧ V.d.kind = .tag ∧ isVoid {} V.d.tagName = true ∧
    V.d.id = 100002 ∧ rest ≠ [] ∧
    ∀ (env : RN.Env (List EV.Val)) (f : Nat) (nc : RN.NC) (sc : List EV.Val),
      RN.refKids {} env (f + 1) 0 nc (V :: rest) sc =
        (RN.refNode {} env f 0 nc V sc).andThen fun nc1 => RN.refKids {} env f 0 nc1 rest sc := by
  obtain ⟨p, a, b, V, S, hp, hk, ⟨h1, h2, h3, _⟩, _, _, _⟩ :=
    void_next_token_is_sibling {} 1 [pT] tail1 inputT bT ⟨"INPUT".toList, [withA]⟩ #[] tbl0 root0 rfl rfl
      (by decide +kernel) (notEnd_of_name _ _ _ (by decide +kernel)) build_ok
  have hv : isVoid {} V.d.tagName = true := by rw [h3]; decide +kernel
  refine ⟨p, a, V, S :: b, hp, hk, h2, hv, by simpa [firstId] using h1, by simp, ?_⟩
  intro env f nc sc
  exact (void_with_not_visible_to_sibling {} 1 toks #[] tbl0 root0 p V a (S :: b) build_ok hp hk h2 hv).2.2 {} env f 0 nc sc

/-- (b): `toks'` is `toks` with INPUT / Br / img re-spelled inPut / BR / IMG -/
theorem toks_recased : Aligned (RecasedVoid {}) toks toks' := by
  have keep : ∀ t, RecasedVoid {} t t := fun _ => Or.inl rfl
  refine .cons (keep _) (.cons ?_ (.cons (keep _) (.cons (keep _) (.cons (keep _) (.cons ?_ (.cons (keep _) (.cons ?_
    (.cons (keep _) (.cons (keep _) (.cons (keep _) (.cons (keep _) .nil)))))))))))
  · exact Or.inr ⟨⟨"INPUT".toList, [withA]⟩, "inPut".toList, rfl, by decide +kernel, by decide +kernel, rfl⟩
  · exact Or.inr ⟨⟨"Br".toList, []⟩, "BR".toList, rfl, by decide +kernel, by decide +kernel, rfl⟩
  · exact Or.inr ⟨⟨"img".toList, [srcA]⟩, "IMG".toList, rfl, by decide +kernel, by decide +kernel, rfl⟩

/-- … so the re-spelled document gives the same tree up to the spelling of the three names -/
example : ∃ root', buildTreeS {} 1 toks' #[] = (.ok root', tbl0) ∧ mapN lowD root' = mapN lowD root0 :=
  void_case_insensitive_ok {} 1 toks toks' #[] tbl0 root0 toks_recased build_ok

/-- the hypothesis of `void_case_insensitive_fn`: ASCII upper-casing keeps `lowerS` (checked on the names used here) -/
example : lowerS (String.ofList ("Br".toList.map Char.toUpper)) = lowerS (String.ofList "Br".toList) := by decide +kernel

/-! ### through the real scanner and loader, and the renderer -/

def srcVoid : String := "<p><INPUT :with=\"x := ${1}\"><b :text=\"${x}\">-</b><Br>t<img src=a><i>u</i></p>"
def srcDiv : String := "<p><DIV :with=\"x := ${1}\"><b :text=\"${x}\">-</b><Br>t<img src=a><i>u</i></p>"
def dataOuter : List EV.Val := [.map "map[string]interface {}" [("x", .str "outer")], emptyMap]

/-- load one file and render it -/
def render (src : String) (data : List EV.Val) : Option (RN.Status × String) :=
  match loadFiles {} [] [("main", src)] with
  | .ok m =>
    match (envOf m).tpl "main" with
    | some root => let r := RN.execute (rcfgOf {}) (envOf m) 200 root data; some (r.st, String.join r.out)
    | none => none
  | _ => none

/-- **sibling_sees_outer.** The binding `x := 1` on the void element `<INPUT>` is not visible to the following `<b>`:
    it prints the outer `x`, and without an outer `x` the render fails with "no such value"; on a non-void element
    (`<DIV>`, which the builder makes the parent of `<b>`) the same binding IS visible. -/
def siblingCheck : Bool :=
  render srcVoid dataOuter == some (.ok, "<p><INPUT><b>outer</b><Br>t<img src=a><i>u</i></p>") &&
  render srcVoid [emptyMap] == some (.err (.eval false true), "<p><INPUT><b>") &&
  render srcDiv dataOuter == some (.ok, "<p><DIV><b>1</b><Br>t<img src=a><i>u</i></p>")

set_option maxRecDepth 100000 in
theorem sibling_sees_outer : siblingCheck = true := by decide +kernel

/-- the hypothesis of `void_has_no_children_loaded` is satisfiable -/
def loadCheck : Bool := match loadFiles {} [] [("main", srcVoid)] with | .ok m => m.templates.length == 1 | _ => false
set_option maxRecDepth 100000 in
theorem loadCheck_true : loadCheck = true := by decide +kernel

example : ∃ m, loadFiles {} [] [("main", srcVoid)] = .ok m ∧ m.templates.length = 1 ∧
    ∀ p ∈ m.templates, ∀ n, Sub n p.2 → n.d.kind = .tag → isVoid {} n.d.tagName = true → n.kids = [] ∧ n.endVal = none := by
  have h := loadCheck_true
  unfold loadCheck at h
  split at h
  · rename_i m hm
    exact ⟨m, hm, by simpa using h, void_has_no_children_loaded {} [] _ m hm⟩
  · cases h

end Examples

end C06V
