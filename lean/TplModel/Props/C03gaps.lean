import TplModel.Proofs.ChainGaps
import TplModel.Props.RenderProps
import TplModel.Props.Loader
import TplModel.Props.Concrete
import TplModel.Props.C17round
/-! # C03 — text, comments and CDATA between chain elements do not break the chain

Property C03: "… Text and comments between chain elements do not break the chain …".

Vocabulary (`Proofs/ChainGaps.lean`): `Ins P ks ks'` — `ks'` is `ks` with nodes satisfying `P` inserted at arbitrary
positions; `RN.Spec.Gap t` — `t` is not an element and has no children (what the loader builds from a text, comment or
CDATA token); `RN.Spec.FreshFor ks t` — `t` does not carry the id of an element of `ks`.

1. Loader (`EN.annotate`, Go `GetPreviousSiblingTag`): `annotate_prevTag_skips_nontags`,
   `annotate_insert_nontag_invariant`, `annotate_makes_chain` (a written chain — `if` element, else-family elements,
   anything but elements in between — becomes a `Chain` whatever the gaps are).
2. Specification (`RN.refKids`): `Chain` itself allows arbitrary non-element siblings between its elements
   (`ChainTail.skip`), so `chain_refines_spec`, `chain_first_true`, `chain_none_true` already apply to chains with gaps.
   Made explicit here: `chain_ignores_nontag_siblings` (a chain with gaps inserted is a chain; its run is the run
   without the gaps with the printed gaps interleaved — stated on the per-sibling trace of `chainRun`: the trace of the
   longer list is the trace of the shorter one with the entries `(t, Q.okQ (sibChunks t) _)` of the inserted nodes
   inserted; status, events and final conditions are equal), `kids_ignore_gaps` (the same for ANY sibling list, chain
   or not), `chain_first_true_gaps`, `chain_none_true_gaps` (closed forms: the SAME branch is selected, the same
   events), `chain_with_gap_between`, `chain_with_comment_between`, `chain_with_text_between`.
3. End to end (`E2E`): `E2E.Src.comment_between_loaded` — for EVERY comment text `c` the scanner accepts, the file
   `<p :if="${a}">A</p><!--c--><p :else>B</p>` loads (real scanner, tree builder, `annotate`, registry) and the faithful
   model prints `<p>A</p><!--c-->` / `<!--c--><p>B</p>`; `E2E.comment_node_between` — the same for every comment NODE put
   into the loaded tree; `E2E.demo_true` — concrete files through the scanner (comment, hidden comment, CDATA, text,
   blank text, several in a row), `E2E.brokenDemo_true` — an ELEMENT in between does break the chain.

OBLIGATIONS: C03G.annotate_prevTag_skips_nontags, C03G.annotateL_prevTag, C03G.annotate_insert_nontag_invariant, C03G.annotate_makes_chain, C03G.kids_ignore_gaps, C03G.chain_ignores_nontag_siblings, C03G.chain_first_true_gaps, C03G.chain_none_true_gaps, C03G.chain_with_gap_between, C03G.chain_with_comment_between, C03G.chain_with_text_between, C03G.chain_tag_results_identical, C03G.E2E.comment_node_between, C03G.E2E.demo_true, C03G.E2E.brokenDemo_true, C03G.E2E.Src.load_src, C03G.E2E.Src.comment_between_loaded -/
namespace C03G
open RN RN.Spec RN.Props EN
variable {Sc : Type}

/-! ## 1. the loader: `prevTag` skips everything that is not an element -/

/-- **annotateL_prevTag.** In a sibling list `pre ++ k :: post` processed by `annotateL prev`, the node at position
    `pre.length` is `annotate k` with `prevTag := prevTagAt prev pre` (and `nextBlank` from `post`), where
    * if `pre = a ++ t :: g` with `t` an element and no element in `g` — however long `g` is — that value is `some t.d.id`;
    * if `pre` contains no element it is the incoming `prev` (`none` for the children of a node). -/
theorem annotateL_prevTag (prev : Option Nat) (pre post : List Node) (k : Node) :
    (annotateL prev (pre ++ k :: post))[pre.length]? = some (setSib (annotate k) (prevTagAt prev pre) (nextBlankOf post)) ∧
    (∀ a t g, pre = a ++ t :: g → isTagNode t = true → (∀ x ∈ g, isTagNode x = false) → prevTagAt prev pre = some t.d.id) ∧
    ((∀ x ∈ pre, isTagNode x = false) → prevTagAt prev pre = prev) := by
  refine ⟨?_, ?_, prevTagAt_nontags pre prev⟩
  · obtain ⟨pre', hl, he⟩ := annotateL_split pre prev k post
    rw [he, ← hl]
    simp
  · rintro a t g rfl ht hg
    exact prevTagAt_tag_gap prev a g t ht hg

/-- **annotate_prevTag_skips_nontags.** After `annotate`, the child at position `pre.length` of a node with children
    `pre ++ k :: post` has `prevTag` = the id of the nearest PRECEDING sibling that is an element, whatever number of
    non-elements (text, comments, CDATA — anything with `isTagNode = false`) lie in between; and `none` iff there is no
    preceding element. (`nextBlank` is the value of the directly following sibling when that is blank text.) -/
theorem annotate_prevTag_skips_nontags (d : NodeD) (e : Option String) (pre post : List Node) (k : Node) :
    ∃ k', (annotate (.mk d (pre ++ k :: post) e)).kids[pre.length]? = some k' ∧
      k' = setSib (annotate k) (prevTagAt none pre) (nextBlankOf post) ∧
      k'.d.prevTag = prevTagAt none pre ∧
      (∀ a t g, pre = a ++ t :: g → isTagNode t = true → (∀ x ∈ g, isTagNode x = false) → k'.d.prevTag = some t.d.id) ∧
      (k'.d.prevTag = none ↔ ∀ x ∈ pre, isTagNode x = false) := by
  obtain ⟨h1, h2, _⟩ := annotateL_prevTag none pre post k
  refine ⟨_, h1, rfl, setSib_d_prevTag _ _ _, ?_, ?_⟩
  · intro a t g hp ht hg; rw [setSib_d_prevTag]; exact h2 a t g hp ht hg
  · rw [setSib_d_prevTag]; exact prevTagAt_none_iff pre

/-- **annotate_insert_nontag_invariant.** Let `ks'` be `ks` with non-elements inserted at arbitrary positions (no
    condition on their ids or shape). Then the annotated children of a node with children `ks'` are those of the node
    with children `ks` with the annotated inserted nodes inserted, and every common node is the same up to the field
    `nextBlank` (`AnnIns`; `nextBlank` DOES change when a node is inserted directly after it, see the example below). In
    particular the elements are the same, in the same order, each with the same `prevTag` (and id, attributes,
    annotated children). -/
theorem annotate_insert_nontag_invariant (d : NodeD) (e : Option String) (ks ks' : List Node)
    (hi : Ins (fun t => isTagNode t = false) ks ks') :
    AnnIns (annotate (.mk d ks e)).kids (annotate (.mk d ks' e)).kids ∧
    ((annotate (.mk d ks' e)).kids.filter isTagNode).map clearNB = ((annotate (.mk d ks e)).kids.filter isTagNode).map clearNB ∧
    ((annotate (.mk d ks' e)).kids.filter isTagNode).map (fun n => (n.d.id, n.d.prevTag)) =
      ((annotate (.mk d ks e)).kids.filter isTagNode).map (fun n => (n.d.id, n.d.prevTag)) := by
  have h := annotateL_ins hi none
  refine ⟨h, h.tags, ?_⟩
  have := congrArg (List.map fun n => (n.d.id, n.d.prevTag)) h.tags
  simp only [List.map_map] at this
  have e1 : ((fun n : Node => (n.d.id, n.d.prevTag)) ∘ clearNB) = fun n => (n.d.id, n.d.prevTag) := by
    funext n; cases n; rfl
  rw [e1] at this
  exact this

/-- **annotate_makes_chain.** A node whose children, as written, are an `if` element followed by else-family elements
    with ANY non-elements in between (`RawChain`), with pairwise distinct ids (which `buildTree` guarantees,
    `EN.loaded_uniq`): after `annotate` its children form a `Chain` — every else-family element names the previous
    ELEMENT of the chain as its `prevTag`. -/
theorem annotate_makes_chain (cfg : RN.Cfg) (d : NodeD) (e : Option String) (ks : List Node)
    (h : RawChain cfg ks) (hnd : (RN.Spec.idsL ks).Nodup) : Chain cfg (annotate (.mk d ks e)).kids :=
  annotateL_chain cfg h hnd none

/-- `RawChain` is insensitive to inserted non-elements (after the first element) -/
theorem rawChain_ins (cfg : RN.Cfg) {e : Node} {ks ks' : List Node} (h : RawChain cfg (e :: ks))
    (hi : Ins (fun t => t.d.kind ≠ .tag) ks ks') : RawChain cfg (e :: ks') := by
  cases h with
  | mk _ _ ca v hk hc hv ht =>
    refine .mk e ks' ca v hk hc hv ?_
    clear hk hc hv
    induction hi with
    | nil => exact ht
    | keep k _ ih =>
      cases ht with
      | skip _ _ hk' ht' => exact .skip k _ hk' (ih ht')
      | elem _ _ ca' v' hk' hc' hv' ht' => exact .elem k _ ca' v' hk' hc' hv' (ih ht')
    | ins t ht' _ ih => exact .skip t _ ht' (ih ht)

/-! ## 2. the renderer specification -/

/-- a gap node is printed and leaves the recorded conditions unchanged -/
theorem gap_node (cfg : RN.Cfg) (env : Env Sc) (g depth : Nat) (nc : NC) (t : Node) (sc : Sc) (ht : Gap t) :
    refNode cfg env (g + 2) depth nc t sc = Q.okQ (sibChunks t) nc := leaf_node cfg env g depth nc t sc ht.1 ht.2

/-- **kids_ignore_gaps.** ANY sibling list (chain or not), with gap nodes inserted anywhere: every original sibling is
    rendered with the same recorded conditions, hence gives the same result (chunks, events, status); the inserted nodes
    are printed (`sibChunks`) at their positions. On the per-sibling trace: the trace of `ks'` is the trace of `ks` with
    the entries of the inserted nodes inserted. -/
theorem kids_ignore_gaps (cfg : RN.Cfg) (env : Env Sc) (F depth : Nat) (nc : NC) (sc : Sc) (ks ks' : List Node)
    (hi : Ins Gap ks ks') (hf : (refKids cfg env F depth nc ks' sc).st ≠ .fuel) :
    (refKids cfg env F depth nc ks sc).st ≠ .fuel ∧
    Ins (GapEntry Gap) (kidsTrace (fun nc k => refNode cfg env F depth nc k sc) nc ks)
      (kidsTrace (fun nc k => refNode cfg env F depth nc k sc) nc ks') ∧
    (refKids cfg env F depth nc ks' sc).st = (refKids cfg env F depth nc ks sc).st ∧
    (refKids cfg env F depth nc ks' sc).log = (refKids cfg env F depth nc ks sc).log ∧
    (refKids cfg env F depth nc ks' sc).nc = (refKids cfg env F depth nc ks sc).nc ∧
    (refKids cfg env F depth nc ks sc).out =
      (kidsTrace (fun nc k => refNode cfg env F depth nc k sc) nc ks).flatMap (·.2.out) ∧
    (refKids cfg env F depth nc ks' sc).out =
      (kidsTrace (fun nc k => refNode cfg env F depth nc k sc) nc ks').flatMap (·.2.out) := by
  have hf0 := refKids_ins_fuel cfg env hi F depth nc sc hf
  rw [refKids_unf cfg env F depth nc ks' sc hf, refKids_unf cfg env F depth nc ks sc hf0, kidsRun_eq_stRun, kidsRun_eq_stRun]
  refine ⟨by rw [← kidsRun_eq_stRun, ← refKids_unf cfg env F depth nc ks sc hf0]; exact hf0, ?_⟩
  cases ks' with
  | nil =>
    cases hi
    exact ⟨.nil, rfl, rfl, rfl, rfl, rfl⟩
  | cons k' ks'' =>
    obtain ⟨g, rfl⟩ := fuel_ge_two cfg env F depth nc k' ks'' sc hf
    obtain ⟨i1, i2, i3, i4⟩ := stRun_ins (fun (_ : Unit) nc k => (refNode cfg env (g + 2) depth nc k sc, ())) Gap
      (fun _ nc t ht => by rw [gap_node cfg env g depth nc t sc ht]) hi () nc
    exact ⟨i1, i2, i3, i4, stRun_out _ _ _ _, stRun_out _ _ _ _⟩

/-- **chain_ignores_nontag_siblings.** Let `e :: ks` be a chain and `ks'` be `ks` with gap nodes (text, comment, CDATA
    leaves whose ids are not those of chain elements) inserted anywhere between or after the chain elements. Then
    `e :: ks'` is a chain; the specification computes `chainRun` on both lists; the per-sibling trace of the run over
    `e :: ks'` is the trace of the run over `e :: ks` with the entries `(t, Q.okQ (sibChunks t) _)` of the inserted
    nodes inserted at their positions — so every chain element is reached with the same satisfied-so-far flag and the
    same conditions and has the SAME result (rendered body / empty chunk / failure, events), i.e. the same branch is
    selected; the output is the concatenation of the per-sibling chunks, the events, the final status and the final
    conditions are identical. (If the run over the longer list has enough fuel, so has the run over the shorter one.) -/
theorem chain_ignores_nontag_siblings (cfg : RN.Cfg) (env : Env Sc) (F depth : Nat) (nc : NC) (sc : Sc)
    (e : Node) (ks ks' : List Node) (hch : Chain cfg (e :: ks))
    (hi : Ins (fun t => Gap t ∧ FreshFor (e :: ks) t) ks ks')
    (hf : (refKids cfg env F depth nc (e :: ks') sc).st ≠ .fuel) :
    let nodeF := fun nc k => refNode cfg env F depth nc k sc
    let restF := fun nc k sc1 => refRest cfg env (F - 1) depth nc k sc1
    Chain cfg (e :: ks') ∧
    (refKids cfg env F depth nc (e :: ks) sc).st ≠ .fuel ∧
    refKids cfg env F depth nc (e :: ks') sc = chainRun cfg env nodeF restF sc false nc (e :: ks') ∧
    refKids cfg env F depth nc (e :: ks) sc = chainRun cfg env nodeF restF sc false nc (e :: ks) ∧
    Ins (GapEntry Gap) (chainTrace cfg env nodeF restF sc false nc (e :: ks))
      (chainTrace cfg env nodeF restF sc false nc (e :: ks')) ∧
    (refKids cfg env F depth nc (e :: ks') sc).st = (refKids cfg env F depth nc (e :: ks) sc).st ∧
    (refKids cfg env F depth nc (e :: ks') sc).log = (refKids cfg env F depth nc (e :: ks) sc).log ∧
    (refKids cfg env F depth nc (e :: ks') sc).nc = (refKids cfg env F depth nc (e :: ks) sc).nc ∧
    (refKids cfg env F depth nc (e :: ks) sc).out =
      (chainTrace cfg env nodeF restF sc false nc (e :: ks)).flatMap (·.2.out) ∧
    (refKids cfg env F depth nc (e :: ks') sc).out =
      (chainTrace cfg env nodeF restF sc false nc (e :: ks')).flatMap (·.2.out) := by
  intro nodeF restF
  have hch' : Chain cfg (e :: ks') := Chain.ins cfg hch (hi.mono fun t ht => ⟨ht.1.1, ht.2⟩)
  have hig : Ins Gap (e :: ks) (e :: ks') := .keep e (hi.mono fun t ht => ht.1)
  have hf0 := refKids_ins_fuel cfg env hig F depth nc sc hf
  have e1 := chain_refines_spec cfg env F depth nc (e :: ks') sc hch' hf
  have e0 := chain_refines_spec cfg env F depth nc (e :: ks) sc hch hf0
  obtain ⟨g, rfl⟩ := fuel_ge_two cfg env F depth nc e ks' sc hf
  refine ⟨hch', hf0, e1, e0, ?_⟩
  rw [e1, e0]
  simp only [chainRun_eq_stRun, chainTrace]
  obtain ⟨i1, i2, i3, i4⟩ := stRun_ins (chainStepF cfg env nodeF restF sc) Gap
    (fun sat nc t ht => by
      simp only [chainStepF, ht.1, if_false]
      rw [show nodeF nc t = _ from gap_node cfg env g depth nc t sc ht]) hig false nc
  exact ⟨i1, i2, i3, i4, stRun_out _ _ _ _, stRun_out _ _ _ _⟩

/-- the entries of the chain elements are identical in both traces, in the same order -/
theorem chain_tag_results_identical (cfg : RN.Cfg) (env : Env Sc) (F depth : Nat) (nc : NC) (sc : Sc)
    (e : Node) (ks ks' : List Node) (hch : Chain cfg (e :: ks))
    (hi : Ins (fun t => Gap t ∧ FreshFor (e :: ks) t) ks ks')
    (hf : (refKids cfg env F depth nc (e :: ks') sc).st ≠ .fuel) :
    let nodeF := fun nc k => refNode cfg env F depth nc k sc
    let restF := fun nc k sc1 => refRest cfg env (F - 1) depth nc k sc1
    (chainTrace cfg env nodeF restF sc false nc (e :: ks')).filter (fun x => isTagNode x.1) =
      (chainTrace cfg env nodeF restF sc false nc (e :: ks)).filter (fun x => isTagNode x.1) := by
  intro nodeF restF
  obtain ⟨_, _, _, _, h, _⟩ := chain_ignores_nontag_siblings cfg env F depth nc sc e ks ks' hch hi hf
  exact h.filter_not _ (fun x hx => by simp [isTagNode, hx.1.1])

/-! ### closed forms -/

theorem allFalse_ins {cfg : RN.Cfg} {env : Env Sc} {sc : Sc} {ks ks' : List Node} (hi : Ins Gap ks ks')
    (h : AllFalse cfg env sc ks) : AllFalse cfg env sc ks' := by
  intro k hk
  rcases hi.mem hk with hk | hg
  · exact h k hk
  · exact ⟨fun ht => absurd ht hg.1, fun _ => hg.2⟩

theorem allWith_ins {cfg : RN.Cfg} {env : Env Sc} {sc : Sc} {ks ks' : List Node} (hi : Ins Gap ks ks')
    (h : AllWith cfg env sc ks) : AllWith cfg env sc ks' := by
  intro k hk
  rcases hi.mem hk with hk | hg
  · exact h k hk
  · exact ⟨fun ht => absurd ht hg.1, fun _ => hg.2⟩

theorem ncMark_ins {ks ks' : List Node} (hi : Ins Gap ks ks') : ∀ (b : Bool) (nc : NC), ncMark b nc ks' = ncMark b nc ks := by
  induction hi with
  | nil => intro b nc; rfl
  | keep k _ ih => intro b nc; simp only [ncMark, ih]
  | ins t ht _ ih => intro b nc; simp only [ncMark, ht.1, if_false, ih]

theorem falseLog_ins {cfg : RN.Cfg} {env : Env Sc} {sc : Sc} {ks ks' : List Node} (hi : Ins Gap ks ks') :
    ks'.flatMap (falseLog cfg env sc) = ks.flatMap (falseLog cfg env sc) :=
  hi.flatMap_eq _ (fun t ht => by simp [falseLog, ht.1])

theorem withLog_ins {cfg : RN.Cfg} {env : Env Sc} {sc : Sc} {ks ks' : List Node} (hi : Ins Gap ks ks') :
    ks'.flatMap (withLog cfg env sc) = ks.flatMap (withLog cfg env sc) :=
  hi.flatMap_eq _ (fun t ht => by simp [withLog, ht.1])

/-- **chain_first_true_gaps.** `pre ++ e :: post` with gap nodes inserted: `pre' ++ e :: post'` (a chain, e.g. by
    `chain_ignores_nontag_siblings`). If in the list WITHOUT the gaps the conditions of `pre` are not "true", that of
    `e` is, and the `with` assignments of `post` succeed, then on the list WITH the gaps the same element `e` is
    rendered, with the same body (same scope, same recorded conditions), the events are those of the list without the
    gaps, and so are the final conditions; the chunks are those of `chain_first_true` with the printed gaps at their
    positions (`pre'.flatMap sibChunks` is `pre.flatMap sibChunks` with the `sibChunks` of the inserted nodes inserted). -/
theorem chain_first_true_gaps (cfg : RN.Cfg) (env : Env Sc) (F depth : Nat) (nc : NC) (sc : Sc)
    (pre post pre' post' : List Node) (e : Node) (ev : ElemEval Sc)
    (hi1 : Ins Gap pre pre') (hi2 : Ins Gap post post')
    (hch : Chain cfg (pre' ++ e :: post')) (hf : (refKids cfg env F depth nc (pre' ++ e :: post') sc).st ≠ .fuel)
    (hpre : AllFalse cfg env sc pre) (hk : e.d.kind = .tag) (hev : elemEval cfg env sc e = some ev)
    (hv : (ev.v == "true") = true) (hpost : AllWith cfg env sc post) :
    let body := refRest cfg env (F - 1) depth (setNc (ncMark false nc pre) e.d.id true) e ev.sc1
    refKids cfg env F depth nc (pre' ++ e :: post') sc =
      if body.st = .ok then
        { st := .ok,
          out := pre'.flatMap sibChunks ++ ([String.join body.out] ++ post'.flatMap sibChunks),
          log := pre.flatMap (falseLog cfg env sc) ++ (ev.lw ++ (ev.lc ++ body.log) ++ post.flatMap (withLog cfg env sc)),
          nc := ncMark true body.nc post }
      else
        { st := body.st, out := pre'.flatMap sibChunks ++ [],
          log := pre.flatMap (falseLog cfg env sc) ++ (ev.lw ++ (ev.lc ++ body.log)), nc := body.nc } := by
  intro body
  have h := chain_first_true cfg env F depth nc sc pre' post' e ev hch hf (allFalse_ins hi1 hpre) hk hev hv
    (allWith_ins hi2 hpost)
  simp only [ncMark_ins hi1, ncMark_ins hi2, falseLog_ins hi1, withLog_ins hi2] at h
  exact h

/-- **chain_none_true_gaps.** No condition "true": every element gives the empty chunk, the gaps are printed; events
    and final conditions are those of the list without the gaps. -/
theorem chain_none_true_gaps (cfg : RN.Cfg) (env : Env Sc) (F depth : Nat) (nc : NC) (sc : Sc) (ks ks' : List Node)
    (hi : Ins Gap ks ks') (hch : Chain cfg ks') (hf : (refKids cfg env F depth nc ks' sc).st ≠ .fuel)
    (h : AllFalse cfg env sc ks) :
    refKids cfg env F depth nc ks' sc =
      { st := .ok, out := ks'.flatMap sibChunks, log := ks.flatMap (falseLog cfg env sc), nc := ncMark false nc ks } := by
  rw [chain_none_true cfg env F depth nc sc ks' hch hf (allFalse_ins hi h), ncMark_ins hi, falseLog_ins hi]

/-- the chunks of a sibling list with gaps: those of the list without, with the printed gaps spliced in -/
theorem sibChunks_ins {ks ks' : List Node} (hi : Ins Gap ks ks') :
    Ins (fun o : Node × List String => Gap o.1 ∧ o.2 = sibChunks o.1) (ks.map fun k => (k, sibChunks k))
      (ks'.map fun k => (k, sibChunks k)) :=
  hi.map _ (fun _ ht => ⟨ht, rfl⟩)

/-! ### one gap between two chain elements -/

/-- the result `r` with the chunks `g` put after its first chunk -/
def spliceAfterFirst (g : List String) (r : Q) : Q :=
  { r with out := match r.out with | [] => [] | x :: rest => x :: (g ++ rest) }

theorem chainElem_out (cfg : RN.Cfg) (env : Env Sc) (restF : NC → Sc → Q) (d : NodeD) (ca : CAttr) (sc : Sc) (sat : Bool) (nc : NC) :
    ((chainElem cfg env restF d ca sc sat nc).1.st = .ok → ∃ x, (chainElem cfg env restF d ca sc sat nc).1.out = [x]) ∧
    ((chainElem cfg env restF d ca sc sat nc).1.st ≠ .ok → (chainElem cfg env restF d ca sc sat nc).1.out = []) := by
  unfold chainElem
  cases withPhase cfg env d sc with
  | mk e lg =>
    cases e with
    | error c => simp
    | ok sc1 =>
      simp only []
      cases sat with
      | true => simp
      | false =>
        simp only [Bool.false_eq_true, if_false]
        cases env.evalStr ca sc1 with
        | mk e2 lgc =>
          cases e2 with
          | error c => simp
          | ok v =>
            simp only []
            split
            · refine ⟨fun h => ⟨_, Q.buffered_out_ok h⟩, fun h => Q.buffered_out_not_ok h⟩
            · simp

/-- **chain_with_gap_between.** `a` (an `if` element) and `b` (an else-family element naming `a`) form a chain. Any gap
    node `c` whose id is not that of `a` between them: `[a, c, b]` is a chain and renders exactly as `[a, b]` — same
    status, events, final conditions — with the printed `c` between the chunk of `a` and the chunk of `b`. (When `a`
    fails there is no chunk and `c` is not reached.) -/
theorem chain_with_gap_between (cfg : RN.Cfg) (env : Env Sc) (F depth : Nat) (nc : NC) (sc : Sc) (a b c : Node)
    (hch : Chain cfg [a, b]) (hc : Gap c) (hid : a.d.id ∉ RN.Spec.ids c)
    (hf : (refKids cfg env F depth nc [a, c, b] sc).st ≠ .fuel) :
    Chain cfg [a, c, b] ∧ (refKids cfg env F depth nc [a, b] sc).st ≠ .fuel ∧
    refKids cfg env F depth nc [a, c, b] sc = spliceAfterFirst (sibChunks c) (refKids cfg env F depth nc [a, b] sc) := by
  have hch' : Chain cfg [a, c, b] := by
    cases hch with
    | mk _ _ ca v hk hcond hv hid' ht => exact .mk a _ ca v hk hcond hv hid' (.skip _ c _ hc.1 hid ht)
  have hig : Ins Gap [a, b] [a, c, b] := .keep a (.ins c hc (Ins.refl _))
  have hf0 := refKids_ins_fuel cfg env hig F depth nc sc hf
  refine ⟨hch', hf0, ?_⟩
  rw [chain_refines_spec cfg env F depth nc _ sc hch' hf, chain_refines_spec cfg env F depth nc _ sc hch hf0]
  obtain ⟨g, rfl⟩ := fuel_ge_two cfg env F depth nc a [c, b] sc hf
  have hka : a.d.kind = .tag := by cases hch with | mk _ _ _ _ hk _ _ _ _ => exact hk
  simp only [chainRun, hka, if_true, hc.1, if_false]
  have hgn : ∀ nc', refNode cfg env (g + 2) depth nc' c sc = Q.okQ (sibChunks c) nc' :=
    fun nc' => gap_node cfg env g depth nc' c sc hc
  simp only [hgn]
  obtain ⟨o1, o2⟩ := chainElem_out cfg env (fun nc sc1 => refRest cfg env (g + 2 - 1) depth nc a sc1) a.d (condOf cfg a) sc false nc
  by_cases hok : (chainElem cfg env (fun nc sc1 => refRest cfg env (g + 2 - 1) depth nc a sc1) a.d (condOf cfg a) sc false nc).1.st = .ok
  · obtain ⟨x, hx⟩ := o1 hok
    rw [Q.andThen_ok _ hok, Q.andThen_ok _ hok]
    simp only [Q.okQ_andThen, spliceAfterFirst, hx, List.cons_append, List.nil_append]
  · rw [Q.andThen_not_ok _ hok, Q.andThen_not_ok _ hok]
    simp only [spliceAfterFirst, o2 hok]
    exact Q.ext' rfl (o2 hok) rfl rfl

/-- **chain_with_comment_between.** A comment between `if` and `else` (or `else-if`): the chain is not broken. The
    comment is printed as written — or as the empty chunk when it is a hidden comment (body `/*` … `*/`) — between the
    chunk of the `if` element and the chunk of the `else` element; everything else is as without the comment. -/
theorem chain_with_comment_between (cfg : RN.Cfg) (env : Env Sc) (F depth : Nat) (nc : NC) (sc : Sc) (a b c : Node)
    (hch : Chain cfg [a, b]) (hk : c.d.kind = .comment) (hkids : c.kids = []) (hend : c.endVal = none)
    (hid : c.d.id ≠ a.d.id) (hf : (refKids cfg env F depth nc [a, c, b] sc).st ≠ .fuel) :
    Chain cfg [a, c, b] ∧ (refKids cfg env F depth nc [a, b] sc).st ≠ .fuel ∧
    refKids cfg env F depth nc [a, c, b] sc =
      spliceAfterFirst [if isHiddenComment c.d.value then "" else c.d.value] (refKids cfg env F depth nc [a, b] sc) := by
  have hg : Gap c := ⟨by rw [hk]; decide, hkids⟩
  have h := chain_with_gap_between cfg env F depth nc sc a b c hch hg (by rw [ids_gap hg]; simpa using Ne.symm hid) hf
  have hs : sibChunks c = [if isHiddenComment c.d.value then "" else c.d.value] := by
    simp [sibChunks, hk, headChunk, endChunks, hend]
  rw [hs] at h
  exact h

/-- **chain_with_text_between.** Any text node — blank or not — between `if` and `else`: the chain is not broken; the
    text is printed between the two chunks. (The same holds for CDATA: `chain_with_gap_between`.) -/
theorem chain_with_text_between (cfg : RN.Cfg) (env : Env Sc) (F depth : Nat) (nc : NC) (sc : Sc) (a b c : Node)
    (hch : Chain cfg [a, b]) (hk : c.d.kind = .text) (hkids : c.kids = []) (hend : c.endVal = none)
    (hid : c.d.id ≠ a.d.id) (hf : (refKids cfg env F depth nc [a, c, b] sc).st ≠ .fuel) :
    Chain cfg [a, c, b] ∧ (refKids cfg env F depth nc [a, b] sc).st ≠ .fuel ∧
    refKids cfg env F depth nc [a, c, b] sc = spliceAfterFirst [c.d.value] (refKids cfg env F depth nc [a, b] sc) := by
  have hg : Gap c := ⟨by rw [hk]; decide, hkids⟩
  have h := chain_with_gap_between cfg env F depth nc sc a b c hch hg (by rw [ids_gap hg]; simpa using Ne.symm hid) hf
  have hs : sibChunks c = [c.d.value] := by simp [sibChunks, hk, headChunk, endChunks, hend]
  rw [hs] at h
  exact h

/-! ### non-vacuity of §1 and §2 (toy environment of `Props/RenderProps.lean`; kernel evaluation) -/

def cmt (id : Nat) (v : String) : Node := .mk { id := id, kind := .comment, value := v, tagName := "", attrs := [] } [] none
def cdat (id : Nat) (v : String) : Node := .mk { id := id, kind := .cdata, value := v, tagName := "", attrs := [] } [] none

/-- the chain of `RenderProps` as the tree builder leaves it: no `prevTag` yet -/
def rawIf : Node := el 1 "p" [at_ ":if" "a"] [txt 2 "A"]
def rawElif : Node := el 4 "p" [at_ ":elif" "b"] [txt 5 "B"]
def rawElse : Node := el 7 "p" [at_ ":else" "T"] [txt 8 "C"]
def rawKids : List Node := [rawIf, rawElif, rawElse]
/-- … with a comment and a blank text, then a CDATA section, then a hidden comment inserted -/
def rawKids' : List Node := [rawIf, cmt 9 "<!-- c -->", txt 3 " ", rawElif, cdat 10 "<![CDATA[x]]>", rawElse, cmt 11 "<!--/* h */-->"]

theorem rawKids_ins : Ins (fun t => isTagNode t = false) rawKids rawKids' :=
  .keep _ (.ins _ rfl (.ins _ rfl (.keep _ (.ins _ rfl (.keep _ (.ins _ rfl .nil))))))

theorem rawKids_chain : RawChain {} rawKids :=
  .mk rawIf _ (at_ ":if" "a") "a" (by decide +kernel) (by decide +kernel) rfl
    (.elem rawElif _ (at_ ":elif" "b") "b" (by decide +kernel) (by decide +kernel) rfl
      (.elem rawElse _ (at_ ":else" "T") "T" (by decide +kernel) (by decide +kernel) rfl .nil))

/-- the hypotheses of `annotate_insert_nontag_invariant`, `annotate_makes_chain`, `rawChain_ins` hold; what `annotate`
    computes: the `elif` names the `if` (id 1) across a comment and a text, the `else` names the `elif` (id 4) across
    CDATA; in the list without gaps the values are the same -/
example : Ins (fun t => isTagNode t = false) rawKids rawKids' ∧ RawChain {} rawKids ∧ RawChain {} rawKids' ∧
    (RN.Spec.idsL rawKids').Nodup ∧
    (annotate (rootOf rawKids')).kids.map (·.d.prevTag) = [none, some 1, some 1, some 1, some 4, some 4, some 7] ∧
    (annotate (rootOf rawKids)).kids.map (·.d.prevTag) = [none, some 1, some 4] ∧
    Chain {} (annotate (rootOf rawKids')).kids :=
  have hr : RawChain {} rawKids' := rawChain_ins {} rawKids_chain
    (.ins _ (by decide) (.ins _ (by decide) (.keep _ (.ins _ (by decide) (.keep _ (.ins _ (by decide) .nil))))))
  have hn : (RN.Spec.idsL rawKids').Nodup := by decide +kernel
  ⟨rawKids_ins, rawKids_chain, hr, hn, by decide +kernel, by decide +kernel, annotate_makes_chain {} _ _ _ hr hn⟩

/-- `nextBlank` is NOT invariant: a blank text directly after an element is its `nextBlank` (the separator of `range`
    items), a comment in between takes it away — which is why `annotate_insert_nontag_invariant` is stated up to that
    field (the Go code computes it at render time by `GetNextSibling`, with the same effect) -/
example : (annotate (rootOf [rawIf, txt 3 " "])).kids.map (·.d.nextBlank) = [some " ", none] ∧
    (annotate (rootOf [rawIf, cmt 9 "<!-- c -->", txt 3 " "])).kids.map (·.d.nextBlank) = [none, some " ", none] := by
  decide +kernel

/-- the chain without gaps, annotated (`ifN`, `elifN`, `elseN` of `RenderProps`) -/
def baseKids : List Node := [ifN, elifN, elseN]
def gapKids : List Node := [ifN, cmt 9 "<!-- c -->", txt 3 " ", elifN, cdat 10 "<![CDATA[x]]>", elseN, cmt 11 "<!--/* h */-->"]

theorem baseKids_chain : Chain {} baseKids :=
  Chain.mk ifN _ (at_ ":if" "a") "a" (by decide +kernel) (by decide +kernel) rfl (by decide +kernel)
    (ChainTail.elem 1 elifN _ (at_ ":elif" "b") "b" (by decide +kernel) rfl (by decide +kernel) rfl (by decide +kernel)
      (ChainTail.elem 4 elseN _ (at_ ":else" "T") "T" (by decide +kernel) rfl (by decide +kernel) rfl (by decide +kernel)
        (ChainTail.nil 7)))

theorem freshFor_base (t : Node) (h : ∀ j ∈ [1, 4, 7], j ∉ RN.Spec.ids t) : FreshFor baseKids t := by
  intro e he _
  simp only [baseKids, List.mem_cons, List.not_mem_nil, or_false] at he
  rcases he with rfl | rfl | rfl
  · exact h 1 (by simp)
  · exact h 4 (by simp)
  · exact h 7 (by simp)

theorem gapKids_ins : Ins (fun t => Gap t ∧ FreshFor baseKids t) [elifN, elseN] (gapKids.drop 1) :=
  .ins _ ⟨⟨by decide, rfl⟩, freshFor_base _ (by decide +kernel)⟩
    (.ins _ ⟨⟨by decide, rfl⟩, freshFor_base _ (by decide +kernel)⟩
      (.keep _ (.ins _ ⟨⟨by decide, rfl⟩, freshFor_base _ (by decide +kernel)⟩
        (.keep _ (.ins _ ⟨⟨by decide, rfl⟩, freshFor_base _ (by decide +kernel)⟩ .nil)))))

/-- the hypotheses of `chain_ignores_nontag_siblings` (and of `kids_ignore_gaps`) hold on this chain; `if` false, `elif`
    true: with and without the gaps the events are `eval a`, `eval b`; the chunks differ by the printed gaps (the hidden
    comment prints the empty chunk) -/
example : Chain {} baseKids ∧ Ins (fun t => Gap t ∧ FreshFor baseKids t) [elifN, elseN] (gapKids.drop 1) ∧
    (refKids {} toyEnv 20 0 emptyNc gapKids chainSc).st ≠ .fuel ∧
    (refKids {} toyEnv 20 0 emptyNc gapKids chainSc).out = ["", "<!-- c -->", " ", "<p>B</p>", "<![CDATA[x]]>", "", ""] ∧
    (refKids {} toyEnv 20 0 emptyNc baseKids chainSc).out = ["", "<p>B</p>", ""] ∧
    (refKids {} toyEnv 20 0 emptyNc gapKids chainSc).log = ["eval a", "eval b"] ∧
    (refKids {} toyEnv 20 0 emptyNc baseKids chainSc).log = ["eval a", "eval b"] :=
  ⟨baseKids_chain, gapKids_ins, by decide +kernel, by decide +kernel, by decide +kernel, by decide +kernel, by decide +kernel⟩

example : Chain {} gapKids :=
  (chain_ignores_nontag_siblings {} toyEnv 20 0 emptyNc chainSc ifN [elifN, elseN] (gapKids.drop 1) baseKids_chain gapKids_ins
    (by decide +kernel)).1

/-- hypotheses of `chain_first_true_gaps` / `chain_none_true_gaps`: `pre = [ifN]`, `e = elifN`, `post = [elseN]` -/
example : Ins Gap [ifN] [ifN, cmt 9 "<!-- c -->", txt 3 " "] ∧ Ins Gap [elseN] [cdat 10 "<![CDATA[x]]>", elseN, cmt 11 "<!--/* h */-->"] ∧
    gapKids = [ifN, cmt 9 "<!-- c -->", txt 3 " "] ++ elifN :: [cdat 10 "<![CDATA[x]]>", elseN, cmt 11 "<!--/* h */-->"] ∧
    allFalseB {} toyEnv chainSc [ifN] = true ∧ elemEval {} toyEnv chainSc elifN = some ⟨chainSc, [], "true", ["eval b"]⟩ ∧
    allWithB {} toyEnv chainSc [elseN] = true ∧
    allFalseB {} toyEnv [("a", "no"), ("b", "no"), ("T", "no")] baseKids = true ∧
    (refKids {} toyEnv 20 0 emptyNc gapKids [("a", "no"), ("b", "no"), ("T", "no")]).out =
      ["", "<!-- c -->", " ", "", "<![CDATA[x]]>", "", ""] :=
  ⟨.keep _ (.ins _ ⟨by decide, rfl⟩ (.ins _ ⟨by decide, rfl⟩ .nil)),
   .ins _ ⟨by decide, rfl⟩ (.keep _ (.ins _ ⟨by decide, rfl⟩ .nil)), rfl, by decide +kernel, by decide +kernel,
   by decide +kernel, by decide +kernel, by decide +kernel⟩

/-- `chain_with_comment_between` / `chain_with_text_between`: `if` + `else` -/
def elseAfterIf : Node := el 7 "p" [at_ ":else" "T"] [txt 8 "C"] (some 1)

theorem ifElse_chain : Chain {} [ifN, elseAfterIf] :=
  Chain.mk ifN _ (at_ ":if" "a") "a" (by decide +kernel) (by decide +kernel) rfl (by decide +kernel)
    (ChainTail.elem 1 elseAfterIf _ (at_ ":else" "T") "T" (by decide +kernel) rfl (by decide +kernel) rfl (by decide +kernel)
      (ChainTail.nil 7))

example : Chain {} [ifN, elseAfterIf] ∧
    (refKids {} toyEnv 20 0 emptyNc [ifN, cmt 9 "<!-- c -->", elseAfterIf] [("a", "true"), ("T", "true")]).st ≠ .fuel ∧
    (refKids {} toyEnv 20 0 emptyNc [ifN, cmt 9 "<!-- c -->", elseAfterIf] [("a", "true"), ("T", "true")]).out = ["<p>A</p>", "<!-- c -->", ""] ∧
    (refKids {} toyEnv 20 0 emptyNc [ifN, cmt 9 "<!-- c -->", elseAfterIf] [("a", "no"), ("T", "true")]).out = ["", "<!-- c -->", "<p>C</p>"] ∧
    (refKids {} toyEnv 20 0 emptyNc [ifN, cmt 9 "<!--/* h */-->", elseAfterIf] [("a", "no"), ("T", "true")]).out = ["", "", "<p>C</p>"] ∧
    (refKids {} toyEnv 20 0 emptyNc [ifN, txt 9 "not blank", elseAfterIf] [("a", "no"), ("T", "true")]).out = ["", "not blank", "<p>C</p>"] ∧
    (refKids {} toyEnv 20 0 emptyNc [ifN, elseAfterIf] [("a", "no"), ("T", "true")]).out = ["", "<p>C</p>"] ∧
    (refKids {} toyEnv 20 0 emptyNc [ifN, txt 9 "not blank", elseAfterIf] [("a", "no"), ("T", "true")]).st ≠ .fuel :=
  ⟨ifElse_chain, by decide +kernel, by decide +kernel, by decide +kernel, by decide +kernel, by decide +kernel,
   by decide +kernel, by decide +kernel⟩

/-! ## 3. end to end: `<p :if="${a}">A</p>` GAP `<p :else>B</p>`

(a) `E2E.comment_node_between`: the file `<p :if="${a}">A</p><p :else>B</p>` is loaded (`EN.loadFiles`, real scanner and
    tree builder); between its two elements ANY comment node is put (tree level: any value, any fresh id). Every
    finished run of the FAITHFUL model `RN.execute` on that tree prints `<p>A</p>` + the comment when `a` is `true` and
    the comment + `<p>B</p>` when `a` is `false` (a hidden comment prints nothing); nothing is evaluated besides `a`.
(b) `E2E.demo_true`: the same through the scanner, by kernel evaluation, for an ordinary comment, a hidden comment, a
    CDATA section, a non-blank text and a blank text between the two elements. -/
namespace E2E
open EV (Val)
open Concrete Concrete.Demo

def files0 : List (String × String) := [("t", "<p :if=\"${a}\">A</p><p :else>B</p>")]
def dataOf (b : Bool) : List Val := [frame [("a", .bool b)], emptyMap]

def facts0 (m : Mgr) : Bool :=
  let r := tplOf m "t"
  hasTpl m "t" && isRoot r && decide (r.d.id = 0) && r.kids.length == 2 && chainB rc r.kids &&
  qIs (refKids rc (envOf m) 20 0 emptyNc r.kids (dataOf true)) .ok ["<p>A</p>", ""] [] &&
  qIs (refKids rc (envOf m) 20 0 emptyNc r.kids (dataOf false)) .ok ["", "<p>B</p>"] []

def demo0 : Bool :=
  match loadFiles {} [] files0 with
  | .ok m => facts0 m
  | _ => false

set_option maxRecDepth 100000 in
theorem demo0_true : demo0 = true := by decide +kernel

/-- the loaded manager -/
def m0 : Mgr := match loadFiles {} [] files0 with | .ok m => m | _ => emptyMgr {} []

theorem load0_ok : loadFiles {} [] files0 = .ok m0 := by
  have h := demo0_true
  unfold demo0 at h
  unfold m0
  cases hl : loadFiles {} [] files0 <;> simp only [hl] at h ⊢ <;> cases h

theorem facts0_true : facts0 m0 = true := by
  have h := demo0_true
  unfold demo0 at h
  rw [load0_ok] at h
  exact h

def r0 : Node := tplOf m0 "t"
/-- `<p :if="${a}">A</p>` and `<p :else>B</p>` as loaded -/
def a0 : Node := kid r0 0
def b0 : Node := kid r0 1
/-- the loaded tree with the node `cn` between its two elements -/
def withGap (cn : Node) : Node := .mk r0.d [a0, cn, b0] none

theorem r0_facts : (envOf m0).tpl "t" = some r0 ∧ r0.d.kind = .root ∧ r0.endVal = none ∧ r0.d.id = 0 ∧ r0.kids = [a0, b0] ∧
    Chain rc [a0, b0] ∧
    (∀ b, refKids rc (envOf m0) 20 0 emptyNc [a0, b0] (dataOf b) =
      { st := .ok, out := if b then ["<p>A</p>", ""] else ["", "<p>B</p>"], log := [],
        nc := (refKids rc (envOf m0) 20 0 emptyNc [a0, b0] (dataOf b)).nc }) := by
  have h := facts0_true
  simp only [facts0, Bool.and_eq_true, decide_eq_true_eq, beq_iff_eq, and_assoc] at h
  obtain ⟨h1, h2, h3, h4, h5, h6, h7⟩ := h
  have hk : (tplOf m0 "t").kids = [a0, b0] := by
    have : ∀ l : List Node, l.length = 2 → l = [l[0]?.getD default, l[1]?.getD default] := by
      intro l hl
      match l, hl with
      | [x, y], _ => rfl
    exact this _ h4
  refine ⟨tpl_some h1, (isRoot_iff h2).1, (isRoot_iff h2).2, h3, hk, ?_, ?_⟩
  · rw [← hk]; exact chain_of_B h5
  · intro b
    rw [← hk]
    cases b
    · obtain ⟨q1, q2, q3⟩ := qIs_iff h7
      exact Q.ext' q1 (by simpa using q2) q3 rfl
    · obtain ⟨q1, q2, q3⟩ := qIs_iff h6
      exact Q.ext' q1 (by simpa using q2) q3 rfl

theorem m0_tplOK : TplOK rc (envOf m0) := tplOK_of_inv {} m0 (loaded_manager_ok _ _ _ _ load0_ok).2

/-- two runs of the same sibling list that both have enough fuel agree -/
theorem refKids_fuel_indep (cfg : RN.Cfg) (env : Env Sc) {f g depth : Nat} {nc : NC} {ks : List Node} {sc : Sc}
    (hf : (refKids cfg env f depth nc ks sc).st ≠ .fuel) (hg : (refKids cfg env g depth nc ks sc).st ≠ .fuel) :
    refKids cfg env f depth nc ks sc = refKids cfg env g depth nc ks sc := by
  rcases Nat.le_total f g with h | h
  · exact (refKids_mono cfg env h hf).symm
  · exact refKids_mono cfg env h hg

/-- the tree with a comment node put between the two loaded elements satisfies the hypotheses of the refinement theorem -/
theorem withGap_ok (cn : Node) (hkids : cn.kids = []) (hattrs : cn.d.attrs = []) (hid : cn.d.id ≠ 0) :
    Uniq (withGap cn) ∧ Sorted rc (withGap cn) := by
  obtain ⟨hr, _, _, hid0, hk, _, _⟩ := r0_facts
  obtain ⟨hu, hs⟩ := m0_tplOK "t" r0 hr
  have hu1 := hu.notin
  have hu2 := hu.kids
  have hs1 := hs.order
  have hs2 := hs.kids
  rw [hk] at hu1 hu2 hs2
  simp only [UniqL, SortedL, RN.idsL, List.append_nil, List.mem_append, not_or] at hu1 hu2 hs2
  have hcn : RN.ids cn = [cn.d.id] := by rw [RN.ids_eq, hkids]; rfl
  have hucn : Uniq cn := by
    cases cn with
    | mk d kids e =>
      simp only [RN.Node.kids] at hkids
      subst hkids
      simp [Uniq, UniqL, RN.idsL]
  have hscn : Sorted rc cn := by
    cases cn with
    | mk d kids e =>
      simp only [RN.Node.kids, RN.Node.d] at hkids hattrs
      subst hkids
      simp only [Sorted, SortedL, hattrs, and_true]
      decide
  refine ⟨?_, ?_⟩
  · simp only [withGap, Uniq, UniqL, RN.idsL, List.append_nil, List.mem_append, not_or, hcn, List.mem_singleton, and_true]
    exact ⟨⟨hu1.1, by rw [hid0]; exact fun h => hid h.symm, hu1.2⟩, hu2.1, hucn, hu2.2.1⟩
  · simp only [withGap, Sorted, SortedL, and_true]
    exact ⟨hs1, hs2.1, hscn, hs2.2.1⟩

/-- **comment_node_between (C03, end to end at tree level).** The loaded file `<p :if="${a}">A</p><p :else>B</p>` with
    ANY comment node `cn` (any value; an id that does not occur in the loaded tree) between its two elements, data
    `a = b`: every run of the
    faithful model `RN.execute` that does not run out of fuel succeeds, evaluates nothing but `a` (no events), and
    writes the root's empty chunk followed by `<p>A</p>`, the comment, `""` when `b = true`, and by `""`, the comment,
    `<p>B</p>` when `b = false` — the `else` is selected ACROSS the comment. A hidden comment (body `/*` … `*/`) is
    written as the empty chunk. -/
theorem comment_node_between (cn : Node) (hk : cn.d.kind = .comment) (hkids : cn.kids = []) (hend : cn.endVal = none)
    (hattrs : cn.d.attrs = []) (hfresh : cn.d.id ∉ RN.ids r0) (b : Bool) (fuel : Nat)
    (hne : (execute rc (envOf m0) fuel (withGap cn) (dataOf b)).st ≠ .fuel) :
    (execute rc (envOf m0) fuel (withGap cn) (dataOf b)).st = .ok ∧
    (execute rc (envOf m0) fuel (withGap cn) (dataOf b)).out =
      (if b then ["", "<p>A</p>", if isHiddenComment cn.d.value then "" else cn.d.value, ""]
       else ["", "", if isHiddenComment cn.d.value then "" else cn.d.value, "<p>B</p>"]) ∧
    (execute rc (envOf m0) fuel (withGap cn) (dataOf b)).log = [] := by
  obtain ⟨hr, hroot, _, hid0, hkk, hch, hq⟩ := r0_facts
  rw [RN.ids_eq, hkk, hid0] at hfresh
  simp only [RN.idsL, List.mem_cons, List.mem_append, not_or, RN.ids_eq a0] at hfresh
  obtain ⟨hid, ⟨hida, _⟩, _⟩ := hfresh
  obtain ⟨hu, hs⟩ := withGap_ok cn hkids hattrs hid
  obtain ⟨g, hg⟩ := execute_refines rc (envOf m0) m0_tplOK fuel (withGap cn) (dataOf b) hu hs hne
  have hgf : (refNode rc (envOf m0) g 0 emptyNc (withGap cn) (dataOf b)).st ≠ .fuel := by
    have : (refExecute rc (envOf m0) g (withGap cn) (dataOf b)).st ≠ .fuel := by rw [hg]; exact hne
    exact this
  obtain ⟨hkf, hroot'⟩ := root_render rc (envOf m0) g 0 emptyNc (withGap cn) (dataOf b) hroot rfl hgf
  have hkf' : (refKids rc (envOf m0) g 0 emptyNc [a0, cn, b0] (dataOf b)).st ≠ .fuel := hkf
  obtain ⟨_, hf0, he⟩ := chain_with_comment_between rc (envOf m0) g 0 emptyNc (dataOf b) a0 b0 cn hch hk hkids hend hida hkf'
  have h20 : (refKids rc (envOf m0) 20 0 emptyNc [a0, b0] (dataOf b)).st ≠ .fuel := by rw [hq b]; simp
  have hQ : refNode rc (envOf m0) g 0 emptyNc (withGap cn) (dataOf b) = (execute rc (envOf m0) fuel (withGap cn) (dataOf b)).toQ := hg
  rw [hroot'] at hQ
  have hkids' : (withGap cn).kids = [a0, cn, b0] := rfl
  rw [hkids', he, refKids_fuel_indep rc (envOf m0) hf0 h20, hq b] at hQ
  have h1 := congrArg Q.st hQ
  have h2 := congrArg Q.out hQ
  have h3 := congrArg Q.log hQ
  simp only [R.toQ, spliceAfterFirst] at h1 h2 h3
  refine ⟨h1.symm, ?_, h3.symm⟩
  rw [← h2]
  cases b <;> rfl

/-- the hypotheses of `comment_node_between` are satisfiable (an ordinary and a hidden comment; both data) -/
example : (cmt 7 "<!-- c -->").d.kind = .comment ∧ (cmt 7 "<!-- c -->").kids = [] ∧ (cmt 7 "<!-- c -->").endVal = none ∧
    (cmt 7 "<!-- c -->").d.attrs = [] ∧ 7 ∉ RN.ids r0 ∧
    (execute rc (envOf m0) 50 (withGap (cmt 7 "<!-- c -->")) (dataOf true)).st ≠ .fuel ∧
    (execute rc (envOf m0) 50 (withGap (cmt 7 "<!-- c -->")) (dataOf false)).st ≠ .fuel ∧
    (execute rc (envOf m0) 50 (withGap (cmt 7 "<!--/* h */-->")) (dataOf false)).st ≠ .fuel ∧
    (execute rc (envOf m0) 50 (withGap (cmt 7 "<!--/* h */-->")) (dataOf false)).out = ["", "", "", "<p>B</p>"] :=
  ⟨rfl, rfl, rfl, rfl, by decide +kernel, by decide +kernel, by decide +kernel, by decide +kernel, by decide +kernel⟩

example : (execute rc (envOf m0) 50 (withGap (cmt 7 "<!-- c -->")) (dataOf true)).out = ["", "<p>A</p>", "<!-- c -->", ""] := by
  have h := (comment_node_between (cmt 7 "<!-- c -->") rfl rfl rfl rfl (by decide +kernel) true 50 (by decide +kernel)).2.1
  have hh : isHiddenComment (cmt 7 "<!-- c -->").d.value = false := by decide +kernel
  rw [h, hh]; rfl

/-! ### (b) through the scanner -/

/-- load one file, run the faithful model on it with `a = b`, compare the text written -/
def rendersTo (src : String) (b : Bool) (expected : String) : Bool :=
  match loadFiles {} [] [("t", src)] with
  | .ok m =>
    match (envOf m).tpl "t" with
    | some r => EN.Example.runIs (execute rc (envOf m) 100 r (dataOf b)) expected
    | none => false
  | _ => false

/-- the chain is not broken by: an ordinary comment, a hidden comment (prints nothing), a CDATA section, a non-blank
    text, a blank text, several of them in a row; and the `prevTag` of the `else` element is the id of the `if` element
    in every case -/
def demo : Bool :=
  rendersTo "<p :if=\"${a}\">A</p><!-- c --><p :else>B</p>" true "<p>A</p><!-- c -->" &&
  rendersTo "<p :if=\"${a}\">A</p><!-- c --><p :else>B</p>" false "<!-- c --><p>B</p>" &&
  rendersTo "<p :if=\"${a}\">A</p><!--/* h */--><p :else>B</p>" true "<p>A</p>" &&
  rendersTo "<p :if=\"${a}\">A</p><!--/* h */--><p :else>B</p>" false "<p>B</p>" &&
  rendersTo "<p :if=\"${a}\">A</p><![CDATA[ x<y ]]><p :else>B</p>" true "<p>A</p><![CDATA[ x<y ]]>" &&
  rendersTo "<p :if=\"${a}\">A</p><![CDATA[ x<y ]]><p :else>B</p>" false "<![CDATA[ x<y ]]><p>B</p>" &&
  rendersTo "<p :if=\"${a}\">A</p> or <p :else>B</p>" true "<p>A</p> or " &&
  rendersTo "<p :if=\"${a}\">A</p> or <p :else>B</p>" false " or <p>B</p>" &&
  rendersTo "<p :if=\"${a}\">A</p>\n  <p :else>B</p>" false "\n  <p>B</p>" &&
  rendersTo "<p :if=\"${a}\">A</p>\n<!-- 1 -->x<![CDATA[2]]><!--/* 3 */--> <p :else>B</p>" true "<p>A</p>\n<!-- 1 -->x<![CDATA[2]]> " &&
  rendersTo "<p :if=\"${a}\">A</p>\n<!-- 1 -->x<![CDATA[2]]><!--/* 3 */--> <p :else>B</p>" false "\n<!-- 1 -->x<![CDATA[2]]> <p>B</p>"

set_option maxRecDepth 100000 in
theorem demo_true : demo = true := by decide +kernel

/-- … whereas an ELEMENT in between does break it: the `else` then follows an element without condition -/
def brokenDemo : Bool :=
  match loadFiles {} [] [("t", "<p :if=\"${a}\">A</p><br><p :else>B</p>")] with
  | .ok m =>
    match (envOf m).tpl "t" with
    | some r => decide ((execute rc (envOf m) 100 r (dataOf false)).st = .err .unexpectedElse)
    | none => false
  | _ => false

set_option maxRecDepth 100000 in
theorem brokenDemo_true : brokenDemo = true := by decide +kernel

/-! ### (c) through the scanner, for EVERY comment text

`Src.comment_between_loaded`: for every comment text `c` that the scanner accepts as the body of a comment
(`HS.RT.commentOK`: no `-->`, `--!>`, `<!--` inside, not starting with `>` or `->`, not ending with `<!-`), the file
`<p :if="${a}">A</p><!--c--><p :else>B</p>` loads, and every finished run of the faithful model prints `<p>A</p><!--c-->`
when `a` is true and `<!--c--><p>B</p>` when `a` is false (a hidden comment prints nothing).

Proof: the scanner round trip `HS.RT.scan_printL_emb` gives the tokens; the token compiler does not look at positions
(`EN.compileToks_forget`) and is sequential (`EN.compileToks_app_eq`), so the result is assembled from the closed parts
before and after the comment (evaluated by the kernel) and the comment item; `annotate` gives the `else` element the id
of the `if` element as `prevTag` across the comment; nothing is defined, so the manager is `mC c`. Rendering: refinement
(`EN.loaded_manager_ok`), `chain_with_comment_between`, and `RN.Spec.tplIndep_all` (the two elements do not consult the
registry, which is the only part of the environment that depends on `c`). -/
namespace Src
open HS.RT (Tok Lay emb concTok forget print printL printTok embL rawAfter tokOK textOK wfSeq ctxAfter commentOK)
open EV (Val)
open Concrete Concrete.Demo

def srcOf (c : String) : String := "<p :if=\"${a}\">A</p><!--" ++ c ++ "--><p :else>B</p>"

def A3 : List Tok := [.open "p".toList [⟨":if".toList, some (.dq, "${a}".toList)⟩] false, .text "A".toList, .close "p".toList]
def B3 : List Tok := [.open "p".toList [⟨":else".toList, none⟩] false, .text "B".toList, .close "p".toList]
def rtToks (c : List Char) : List Tok := A3 ++ .comment c :: B3

theorem printL_append_nil (a b : List Tok) : printL (a ++ b) [] = printL a [] ++ printL b [] := by
  induction a with
  | nil => rfl
  | cons t a ih => simp [printL, ih]

theorem lit_open : "<!--".toList = ['<','!','-','-'] := by decide +kernel
theorem lit_close : "-->".toList = ['-','-','>'] := by decide +kernel

theorem litA : "<p :if=\"${a}\">A</p><!--".toList = printL A3 [] ++ ['<','!','-','-'] := by decide +kernel
theorem litB : "--><p :else>B</p>".toList = ['-','-','>'] ++ printL B3 [] := by decide +kernel

theorem src_toList (c : String) :
    (srcOf c).toList = "<p :if=\"${a}\">A</p><!--".toList ++ c.toList ++ "--><p :else>B</p>".toList := by
  unfold srcOf
  rw [String.toList_append, String.toList_append]

theorem print_rt (c : String) : print (rtToks c.toList) = (srcOf c).toList := by
  rw [src_toList, litA, litB, print, rtToks, printL_append_nil]
  simp only [printL, List.tail_nil, printTok, List.append_assoc]

theorem wf_rt (c : List Char) (hc : commentOK c = true) : wfSeq (scanCfg {}) .normal (rtToks c) = true := by
  have k1 : tokOK (.open "p".toList [⟨":if".toList, some (.dq, "${a}".toList)⟩] false) = true := by decide +kernel
  have r1 : rawAfter (scanCfg {}) (.open "p".toList [⟨":if".toList, some (.dq, "${a}".toList)⟩] false) = none := by decide +kernel
  have k2 : textOK "A".toList = true := by decide +kernel
  have k3 : tokOK (.close "p".toList) = true := by decide +kernel
  have r3 : rawAfter (scanCfg {}) (.close "p".toList) = none := by decide +kernel
  have k4 : tokOK (.open "p".toList [⟨":else".toList, none⟩] false) = true := by decide +kernel
  have r4 : rawAfter (scanCfg {}) (.open "p".toList [⟨":else".toList, none⟩] false) = none := by decide +kernel
  have k5 : textOK "B".toList = true := by decide +kernel
  have k6 : tokOK (.comment c) = true := hc
  have r6 : rawAfter (scanCfg {}) (.comment c) = none := rfl
  simp only [rtToks, A3, B3, List.cons_append, List.nil_append, wfSeq, ctxAfter, k1, r1, k2, k3, r3, k4, r4, k5, k6, r6,
    Bool.and_self]

/-- the tokens without positions -/
def tokF (t : Tok) : HS.Token := concTok (emb t Lay.dflt)
def CA : List HS.Token := A3.map tokF
def CB : List HS.Token := B3.map tokF

/-- the scanner accepts the file and reports these tokens (up to positions) -/
theorem scan_src (c : String) (hc : commentOK c.toList = true) :
    ∃ ts', HS.scan (scanCfg {}) (srcOf c).toList = .ok ts' ∧
      ts'.map forget = (CA ++ tokF (.comment c.toList) :: CB).map forget := by
  obtain ⟨ts', h1, h2⟩ := HS.RT.scan_printL_emb (scanCfg {}) (rtToks c.toList) [] (wf_rt _ hc) rfl
  refine ⟨ts', ?_, ?_⟩
  · rw [← print_rt]; exact h1
  · rw [h2, HS.RT.embL_nil_lay]
    simp [rtToks, CA, CB, tokF, Function.comp_def]

/-- the compiled items before and after the comment (closed terms, evaluated by the kernel) -/
def RA : LoadRes (List Item) × Tbl := compileToks {} 100001 CA #[]
def ia : List Item := okOr [] RA.1
def tA : Tbl := RA.2
def RB : LoadRes (List Item) × Tbl := compileToks {} 100005 CB tA
def ib : List Item := okOr [] RB.1
def tB : Tbl := RB.2

theorem RA_eq : RA = (.ok ia, tA) := okB_eq (d := []) (show RA.1.okB = true by decide +kernel)
theorem RB_eq : RB = (.ok ib, tB) := okB_eq (d := []) (show RB.1.okB = true by decide +kernel)
theorem ia_acts : ia.map (·.act) = [.open_, .leaf, .close] := by decide +kernel
theorem ib_acts : ib.map (·.act) = [.open_, .leaf, .close] := by decide +kernel

/-- the two elements as the tree builder leaves them -/
def nA : Node := (assemble ia).kids.headD default
def nB : Node := (assemble ib).kids.headD default
def dC (c : List Char) : NodeD :=
  { id := 100004, kind := .comment, value := String.ofList ("<!--".toList ++ c ++ "-->".toList), tagName := "", attrs := [] }

theorem compile_all (c : List Char) :
    compileToks {} 100001 (CA ++ tokF (.comment c) :: CB) #[] = (.ok (ia ++ ⟨dC c, .leaf⟩ :: ib), tB) := by
  have hlen : CA.length = 3 := rfl
  have hc : compileTok {} 100004 (tokF (.comment c)) tA = (.ok ⟨dC c, .leaf⟩, tA) := by
    simp only [compileTok, tokF, emb, concTok, printTok, dC, nkOf, lit_open, lit_close, Option.map_none]
  rw [compileToks_app_eq, show compileToks {} 100001 CA #[] = RA from rfl, RA_eq]
  simp only [bindRes, hlen, compileToks, hc, show compileToks {} 100005 CB tA = RB from rfl, RB_eq, mapRes, LoadRes.map]

theorem assemble_all (c : List Char) :
    assemble (ia ++ ⟨dC c, .leaf⟩ :: ib) = .mk rootD [nA, .mk (dC c) [] none, nB] none := by
  obtain ⟨x0, x1, x2, hx, h0, h1, h2⟩ := three_acts ia_acts
  obtain ⟨y0, y1, y2, hy, g0, g1, g2⟩ := three_acts ib_acts
  simp only [nA, nB, hx, hy, assemble, List.foldl_cons, List.foldl_nil, List.cons_append, List.nil_append, stepItem, h0, h1, h2, g0, g1, g2,
    closeAll, List.reverse_cons, List.reverse_nil, RN.Node.kids, List.headD_cons]

/-- the loaded elements, the loaded comment node, the loaded root -/
def a1 : Node := setSib (annotate nA) none none
def b1 : Node := setSib (annotate nB) (some nA.d.id) none
def c1 (c : List Char) : Node := .mk { dC c with prevTag := some nA.d.id } [] none
def rootC (c : List Char) : Node := .mk rootD [a1, c1 c, b1] none

theorem annotate_all (c : List Char) : annotate (.mk rootD [nA, .mk (dC c) [] none, nB] none) = rootC c := by
  have t1 : isTagNode nA = true := by decide +kernel
  have t2 : isBlankText nB = false := by decide +kernel
  have t3 : isBlankText (.mk (dC c) [] none) = false := by simp [isBlankText, dC, RN.Node.d]
  have t4 : isTagNode (.mk (dC c) [] none) = false := by simp [isTagNode, dC, RN.Node.d]
  simp only [annotate, annotateL, nextBlankOf, nextPrev, t1, t2, t3, t4, if_true, Bool.false_eq_true, if_false, rootC, a1, b1, c1]
  rfl

def cx0 : EN.Ctx := { exprs := tB, fns := [] }

theorem collect_all (c : List Char) : collect {} cx0 (rootC c) = .ok [] := by
  have h1 : collect {} cx0 a1 = .ok [] := isOkNil_eq (by decide +kernel)
  have h2 : collect {} cx0 b1 = .ok [] := isOkNil_eq (by decide +kernel)
  have h3 : collect {} cx0 (c1 c) = .ok [] := by
    simp [c1, collect, collectL, defOf, dC, LoadRes.app, LoadRes.map]
  have h0 : defOf {} cx0 rootD [a1, c1 c, b1] = .ok [] := by simp [defOf, rootD]
  simp only [rootC, collect, collectL, h0, h1, h2, h3, LoadRes.app, LoadRes.map, List.append_nil]

/-- the manager that loading the file yields -/
def mC (c : List Char) : Mgr := { cfg := {}, templates := [("t", rootC c)], files := ["t"], cx := cx0 }

theorem load_of_scan (c : List Char) (src : String) (ts' : List HS.Token)
    (hscan : HS.scan (scanCfg {}) src.toList = .ok ts')
    (hf : ts'.map forget = (CA ++ tokF (.comment c) :: CB).map forget) :
    loadFiles {} [] [("t", src)] = .ok (mC c) := by
  have hb : buildTreeS {} 1 ts' #[] = (.ok (.mk rootD [nA, .mk (dC c) [] none, nB] none), tB) := by
    have h1 : (1 * 100000 + 1 : Nat) = 100001 := rfl
    simp only [buildTreeS, firstId, compileToks_forget {} _ _ _ _ hf, h1, compile_all, mapRes, LoadRes.map, assemble_all]
  have hadd : addDefined {} cx0 (rootC c) [("t", rootC c)] = .ok [("t", rootC c)] :=
    (addDefined_iff {} cx0 (rootC c) _ _).mpr ⟨[], collect_all c, trivial, by simp⟩
  simp only [loadFiles, loadFrom, addFile, emptyMgr, List.any_nil, Bool.false_eq_true, if_false, hscan, hb, registerFile,
    annotate_all, List.nil_append]
  rw [show ({ exprs := tB, fns := [] } : EN.Ctx) = cx0 from rfl, hadd]
  rfl

/-- **the file loads, for every comment text** -/
theorem load_src (c : String) (hc : commentOK c.toList = true) : loadFiles {} [] [("t", srcOf c)] = .ok (mC c.toList) := by
  obtain ⟨ts', h1, h2⟩ := scan_src c hc
  exact load_of_scan c.toList (srcOf c) ts' h1 h2

/-! #### rendering -/

/-- a manager with the same expression table and an EMPTY registry: its environment is closed (does not depend on `c`) -/
def m00 : Mgr := { cfg := {}, templates := [], files := [], cx := cx0 }
def env0 : Env (List Val) := envOf m00

theorem env_eq (c : List Char) : envOf (mC c) = withTpl env0 (envOf (mC c)).tpl := by
  simp only [envOf, withTpl, env0, m00, mC]

def srcFacts : Bool :=
  chainB rc [a1, b1] && noFragBL rc [a1, b1] && decide (a1.d.id = 100001) &&
  qIs (refKids rc env0 20 0 emptyNc [a1, b1] (dataOf true)) .ok ["<p>A</p>", ""] [] &&
  qIs (refKids rc env0 20 0 emptyNc [a1, b1] (dataOf false)) .ok ["", "<p>B</p>"] []

set_option maxRecDepth 100000 in
theorem srcFacts_true : srcFacts = true := by decide +kernel

theorem val_eq (c : String) : String.ofList ("<!--".toList ++ c.toList ++ "-->".toList) = "<!--" ++ c ++ "-->" := by
  rw [← String.toList_append, ← String.toList_append, String.ofList_toList]

/-- what a comment prints: itself, or nothing when it is a hidden comment (body `/*` … `*/`) -/
def shown (c : String) : String := if isHiddenComment ("<!--" ++ c ++ "-->") then "" else "<!--" ++ c ++ "-->"

/-- **comment_between_loaded (C03, end to end, every comment text).** For every text `c` that the scanner accepts as a
    comment body, the file `<p :if="${a}">A</p><!--c--><p :else>B</p>` LOADS (real scanner, tree builder, `annotate`,
    registry); the `else` element's `prevTag` is the `if` element; and with data `a = b` every run of the faithful model
    `RN.execute` that does not run out of fuel succeeds, has no events, and writes — after the root's empty chunk —
    `<p>A</p>`, the comment, `""` when `b = true` and `""`, the comment, `<p>B</p>` when `b = false`. The comment is
    written as it stands, or as the empty chunk when it is a hidden comment. -/
theorem comment_between_loaded (c : String) (hc : commentOK c.toList = true) :
    ∃ m root, loadFiles {} [] [("t", srcOf c)] = .ok m ∧ (envOf m).tpl "t" = some root ∧
      (root.kids.map fun k => (k.d.kind, k.d.prevTag)) = [(.tag, none), (.comment, some 100001), (.tag, some 100001)] ∧
      ∀ (b : Bool) (fuel : Nat), (execute rc (envOf m) fuel root (dataOf b)).st ≠ .fuel →
        (execute rc (envOf m) fuel root (dataOf b)).st = .ok ∧
        (execute rc (envOf m) fuel root (dataOf b)).out =
          (if b then ["", "<p>A</p>", shown c, ""] else ["", "", shown c, "<p>B</p>"]) ∧
        String.join (execute rc (envOf m) fuel root (dataOf b)).out =
          (if b then "<p>A</p>" ++ shown c else shown c ++ "<p>B</p>") ∧
        (execute rc (envOf m) fuel root (dataOf b)).log = [] := by
  have hload := load_src c hc
  have hfacts := srcFacts_true
  simp only [srcFacts, Bool.and_eq_true, decide_eq_true_eq, and_assoc] at hfacts
  obtain ⟨f1, f2, f3, f4, f5⟩ := hfacts
  have hch : Chain rc [a1, b1] := chain_of_B f1
  have htpl : (envOf (mC c.toList)).tpl "t" = some (rootC c.toList) := by
    simp [envOf, mC]
  have hTplOK : TplOK rc (envOf (mC c.toList)) :=
    tplOK_of_inv {} (mC c.toList) (loaded_manager_ok _ _ _ _ hload).2
  obtain ⟨hu, hs⟩ := hTplOK "t" _ htpl
  have hq : ∀ b, refKids rc env0 20 0 emptyNc [a1, b1] (dataOf b) =
      { st := .ok, out := if b then ["<p>A</p>", ""] else ["", "<p>B</p>"], log := [],
        nc := (refKids rc env0 20 0 emptyNc [a1, b1] (dataOf b)).nc } := by
    intro b
    cases b
    · obtain ⟨q1, q2, q3⟩ := qIs_iff f5
      exact Q.ext' q1 (by simpa using q2) q3 rfl
    · obtain ⟨q1, q2, q3⟩ := qIs_iff f4
      exact Q.ext' q1 (by simpa using q2) q3 rfl
  refine ⟨mC c.toList, rootC c.toList, hload, htpl, ?_, ?_⟩
  · have p1 : a1.d.kind = .tag ∧ a1.d.prevTag = none ∧ b1.d.kind = .tag ∧ b1.d.prevTag = some 100001 ∧ nA.d.id = 100001 := by
      decide +kernel
    have e : ((rootC c.toList).kids.map fun k => (k.d.kind, k.d.prevTag)) =
        [(a1.d.kind, a1.d.prevTag), (.comment, some nA.d.id), (b1.d.kind, b1.d.prevTag)] := rfl
    rw [e, p1.1, p1.2.1, p1.2.2.1, p1.2.2.2.1, p1.2.2.2.2]
  · intro b fuel hne
    obtain ⟨g, hg⟩ := execute_refines rc (envOf (mC c.toList)) hTplOK fuel (rootC c.toList) (dataOf b) hu hs hne
    have hgf : (refNode rc (envOf (mC c.toList)) g 0 emptyNc (rootC c.toList) (dataOf b)).st ≠ .fuel := by
      have : (refExecute rc (envOf (mC c.toList)) g (rootC c.toList) (dataOf b)).st ≠ .fuel := by rw [hg]; exact hne
      exact this
    obtain ⟨hkf, hroot'⟩ := root_render rc (envOf (mC c.toList)) g 0 emptyNc (rootC c.toList) (dataOf b) rfl rfl hgf
    have hkf' : (refKids rc (envOf (mC c.toList)) g 0 emptyNc [a1, c1 c.toList, b1] (dataOf b)).st ≠ .fuel := hkf
    have hida : (c1 c.toList).d.id ≠ a1.d.id := by
      rw [f3]; show (100004 : Nat) ≠ 100001; decide
    obtain ⟨_, hf0, he⟩ := chain_with_comment_between rc (envOf (mC c.toList)) g 0 emptyNc (dataOf b) a1 b1 (c1 c.toList)
      hch rfl rfl rfl hida hkf'
    -- the two elements do not consult the registry
    have hind : refKids rc (envOf (mC c.toList)) g 0 emptyNc [a1, b1] (dataOf b) = refKids rc env0 g 0 emptyNc [a1, b1] (dataOf b) := by
      rw [env_eq]; exact (tplIndep_all rc env0 _ g).kids 0 emptyNc [a1, b1] (dataOf b) f2
    have h20 : (refKids rc env0 20 0 emptyNc [a1, b1] (dataOf b)).st ≠ .fuel := by rw [hq b]; simp
    have hQ : refNode rc (envOf (mC c.toList)) g 0 emptyNc (rootC c.toList) (dataOf b) =
        (execute rc (envOf (mC c.toList)) fuel (rootC c.toList) (dataOf b)).toQ := hg
    rw [hroot'] at hQ
    have hkids' : (rootC c.toList).kids = [a1, c1 c.toList, b1] := rfl
    rw [hind] at hf0 he
    rw [hkids', he, refKids_fuel_indep rc env0 hf0 h20, hq b] at hQ
    have hval : (c1 c.toList).d.value = "<!--" ++ c ++ "-->" := val_eq c
    have h1 := congrArg Q.st hQ
    have h2 := congrArg Q.out hQ
    have h3 := congrArg Q.log hQ
    simp only [R.toQ, spliceAfterFirst, hval] at h1 h2 h3
    have hout : (execute rc (envOf (mC c.toList)) fuel (rootC c.toList) (dataOf b)).out =
        (if b then ["", "<p>A</p>", shown c, ""] else ["", "", shown c, "<p>B</p>"]) := by
      rw [← h2]; cases b <;> rfl
    refine ⟨h1.symm, hout, ?_, h3.symm⟩
    rw [hout]
    cases b <;> simp [String.join_cons]

/-- non-vacuity: comment bodies the scanner accepts (ordinary, hidden, empty, with single dashes and `>`), one it does not;
    the source text; and the run on the loaded manager has enough fuel -/
example : commentOK " c ".toList = true ∧ commentOK "/* h */".toList = true ∧ commentOK "".toList = true ∧
    commentOK " a - b > c -- d ".toList = true ∧ commentOK "a-->b".toList = false ∧
    srcOf " c " = "<p :if=\"${a}\">A</p><!-- c --><p :else>B</p>" ∧
    shown " c " = "<!-- c -->" ∧ shown "/* h */" = "" ∧
    (execute rc (envOf (mC " c ".toList)) 100 (rootC " c ".toList) (dataOf true)).st ≠ .fuel ∧
    (execute rc (envOf (mC "/* h */".toList)) 100 (rootC "/* h */".toList) (dataOf false)).st ≠ .fuel := by
  decide +kernel

/-- the theorem instantiated: `<!-- c -->`, `a = false` -/
example : ∃ m root, loadFiles {} [] [("t", "<p :if=\"${a}\">A</p><!-- c --><p :else>B</p>")] = .ok m ∧
    (envOf m).tpl "t" = some root ∧
    String.join (execute rc (envOf m) 100 root (dataOf false)).out = "<!-- c --><p>B</p>" := by
  have hc : commentOK " c ".toList = true := by decide +kernel
  obtain ⟨m, root, h1, h2, _, h4⟩ := comment_between_loaded " c " hc
  have hsrc : srcOf " c " = "<p :if=\"${a}\">A</p><!-- c --><p :else>B</p>" := by decide +kernel
  have hm : m = mC " c ".toList := by
    have := load_src " c " hc
    rw [this] at h1
    exact (LoadRes.ok.inj h1).symm
  subst hm
  have hr : root = rootC " c ".toList := by
    have : (envOf (mC " c ".toList)).tpl "t" = some (rootC " c ".toList) := by simp [envOf, mC]
    rw [this] at h2
    exact (Option.some.inj h2).symm
  subst hr
  rw [hsrc] at h1
  refine ⟨_, _, h1, h2, ?_⟩
  have hs : shown " c " = "<!-- c -->" := by decide +kernel
  have := (h4 false 100 (by decide +kernel)).2.2.1
  rw [this, hs]
  decide +kernel

end Src

end E2E

end C03G
