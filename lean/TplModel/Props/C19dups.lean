import TplModel.Props.C19loader
import TplModel.Proofs.DupNames
/-! # C19 — one namespace: duplicates inside ONE file are rejected too

"… registers exactly the matching files plus every fragment they define, in one namespace. A second registration of a name
fails with the duplicate-name error …"

OBLIGATIONS: C19D.duplicate_define_same_file, C19D.duplicate_define_not_ok, C19D.duplicate_define_same_file_all_eval, C19D.define_named_like_own_file, C19D.file_named_like_earlier_name, C19D.define_named_like_earlier_name, C19D.addFile_ok_names_fresh, C19D.add_duplicate_leaves_prefix_registered, C19D.duplicate_leaves_prefix_registered, C19D.parse_clash_at, C19D.parse_duplicate_define_same_file, C19D.parse_define_named_like_own_file, C19D.parse_define_named_like_earlier_name, C19D.loadFiles_duplicate_define_same_file, EN.definesName_iff, EN.nameFailsAt_iff, EN.defSeqP_snd, EN.defSeqP_split, EN.defSeqP_mem, EN.defSeq_eq_before, EN.mem_seqBefore, EN.mem_namesBefore, EN.mem_defSeq, EN.clash_at, EN.addFile_clash_at, FP.regPrefix_clash, FP.add_dup_at, FP.add_clash_at

`Props/C19loader.lean` states duplicates on the LIST of names a text asks for (`EN.definedBy`, computed by the loader's own
traversal).  Here the same is said about the TREE (`TplModel/Proofs/DupNames.lean`):

* `EN.parsed cfg src = some (root, E)` — the tree `Add` builds from the text before it registers anything (scan +
  `ParseTokens`, canonical numbering; `EN.addFile` walks a renumbering of it, `EN.defSeq_map`), `E` its compiled `${…}`;
* `EN.nodeAt p root = some k` — `k` is the node reached by the child indices `p`: ANY element, at any depth — a sibling,
  an element nested in another `define`, an element inside the (discarded) body of an `insert`/`replace` host;
* `EN.DefinesName cfg ⟨E, fns⟩ k n` — `k` is a tag with a `define` attribute whose value evaluates to `n`
  (`EN.definesName_iff`); `EN.NameFailsAt` — … fails to evaluate (`EN.nameFailsAt_iff`);
* `p < q` on paths (lexicographic, a prefix first) is the pre-order of `addDefinedTpl`; `EN.namesBefore … root q` are the
  names of the `define` elements at paths `< q` (`EN.mem_namesBefore`).

**The duplicate kind.**  `EN.addFile` returns `LoadRes Mgr`; its only error class for a rejected file is `.err` (a taken
file name, a scan/parse error, a failing `define` name and a duplicate fragment alike) and it has no manager on failure.
The KIND of the error and the LEFTOVER registry are carried by the abstract `Add`, `FP.add s name (FP.contentOf cfg fns src)`,
whose content is computed from the text by the concrete loader (`C19.loader_simulation`): the duplicate-name error
(`ErrDuplicatedTplName`) is `FP.Result.err FP.ErrKind.duplicate`.  Every statement below gives both:
`EN.addFile … = .err` and `(FP.add …).1 = .err .duplicate`, and, lifted through the simulation, `FP.run … = .err .duplicate`
together with `EN.loadFiles … = .err`.

**"Whatever else the file contains" — one exception, as in Go.**  `addDefinedTpl` evaluates and tests the names one by one in
pre-order and returns at the first error.  A `define` whose name FAILS to evaluate and that comes BEFORE the second of the
two equal names is met first, and Go returns that evaluation error, not the duplicate-name error (observed on HEAD:
`<p :define="a">1</p><p :define>2</p><p :define="a">3</p>` → "attribute value expected", `errors.Is(err,
ErrDuplicatedTplName) = false`, `Templates() = {a.html, a}`).  Hence the hypothesis `hev` ("no `define` before the later
one has a failing name"); everything else — other elements, other `define`s, a failing name BEHIND the clash, the rest of
the manager — is arbitrary.  Without `hev` the file is still rejected (`duplicate_define_not_ok`); with all names
evaluating `hev` is automatic (`duplicate_define_same_file_all_eval`).  A text that does not parse has no tree: it is
rejected before anything is registered (`C19.loader_fails_at_same_file`, kind `load`).  No deviation from `/repo` found
(`html/manager.go` `Add`/`addDefinedTpl`; a tag cannot carry two `define` attributes, the scanner rejects it).

**What stays registered** (`duplicate_leaves_prefix_registered`): Go rolls nothing back.  After the duplicate-name error for
the `define` at `q` the registry is the old one, plus the file name, plus the names of the `define`s before `q`; the file IS
in `Files()`; no `define` from `q` on is registered.  (Go on HEAD: `<p :define="c">0</p><p :define="a">1</p>
<p :define="a">2</p><p :define="d">3</p>` → `Templates() = {a.html, c, a}`, `d` missing.)  `EN.addFile` has no state on
failure, so this is a statement about `FP.add`/`FP.run` on the loader-computed content. -/
namespace C19D
open FP
open EN (names Fresh nodeAt DefinesName NameFailsAt namesBefore seqBefore)
open RN (Node)

variable (cfg : EN.Cfg) (fns : List (String × EV.FnSpec))

/-! ## 1. two `define`s with the same name in one file -/

/-- **duplicate_define_same_file.**  The text parses to `root`; the elements at two different positions `p`, `q` (anywhere
    in the tree) are `define`s whose names evaluate to the same `n`; no `define` before the later of the two has a failing
    name.  Then, whatever else the file contains, under whatever name and number it is added, and whatever the manager
    held: `addFile` is `.err`, and the abstract `Add` on the content of the text is the duplicate-name error from ANY
    registry. -/
theorem duplicate_define_same_file (i : Nat) (name src : String) (m : EN.Mgr) {root : Node} {E : EN.Tbl}
    (hp : EN.parsed cfg src = some (root, E)) {p q : List Nat} {kp kq : Node} {n : String} (hpq : p ≠ q)
    (hkp : nodeAt p root = some kp) (hkq : nodeAt q root = some kq)
    (hnp : DefinesName cfg ⟨E, fns⟩ kp n) (hnq : DefinesName cfg ⟨E, fns⟩ kq n)
    (hev : ∀ r k, r < p ∨ r < q → nodeAt r root = some k → ¬ NameFailsAt cfg ⟨E, fns⟩ k) :
    EN.addFile cfg fns i name src m = .err ∧
    ∀ s : State, (add s name (contentOf cfg fns src)).1 = .err .duplicate := by
  -- the later of the two is where `addDefinedTpl` finds the name taken
  have key : ∀ {p q : List Nat} {kp kq : Node}, p < q → nodeAt p root = some kp → nodeAt q root = some kq →
      DefinesName cfg ⟨E, fns⟩ kp n → DefinesName cfg ⟨E, fns⟩ kq n →
      (∀ r k, r < q → nodeAt r root = some k → ¬ NameFailsAt cfg ⟨E, fns⟩ k) →
      EN.addFile cfg fns i name src m = .err ∧
      ∀ s : State, (add s name (contentOf cfg fns src)).1 = .err .duplicate := by
    intro p q kp kq hlt hkp hkq hnp hnq hev
    have hev' := (EN.none_not_mem_seqBefore cfg ⟨E, fns⟩ root q).mpr hev
    have hmem := EN.mem_namesBefore_of_two cfg ⟨E, fns⟩ root hlt hkp hnp hev'
    exact ⟨EN.addFile_clash_at cfg fns i name src m hp q kq n hkq hnq hev' (Or.inr (Or.inr hmem)),
      fun s => add_dup_at cfg fns s name src hp q kq n hkq hnq hev' (Or.inr (Or.inr hmem))⟩
  rcases EN.path_lt_or_gt hpq with hlt | hlt
  · exact key hlt hkp hkq hnp hnq (fun r k hr => hev r k (Or.inr hr))
  · exact key hlt hkq hkp hnq hnp (fun r k hr => hev r k (Or.inl hr))

/-- **without `hev`: still rejected.**  Two `define`s with the same name, nothing else assumed: `addFile` does not succeed
    and neither does the abstract `Add` (the error is the duplicate-name error or the evaluation error of a `define` name
    in front of the second one, whichever `addDefinedTpl` meets first). -/
theorem duplicate_define_not_ok (i : Nat) (name src : String) (m : EN.Mgr) {root : Node} {E : EN.Tbl}
    (hp : EN.parsed cfg src = some (root, E)) {p q : List Nat} {kp kq : Node} {n : String} (hpq : p ≠ q)
    (hkp : nodeAt p root = some kp) (hkq : nodeAt q root = some kq)
    (hnp : DefinesName cfg ⟨E, fns⟩ kp n) (hnq : DefinesName cfg ⟨E, fns⟩ kq n) :
    (∀ m1, EN.addFile cfg fns i name src m ≠ .ok m1) ∧
    ∀ s : State, (add s name (contentOf cfg fns src)).1 ≠ .ok := by
  have hall : EN.nameFails cfg fns src = false →
      ∀ r k, r < p ∨ r < q → nodeAt r root = some k → ¬ NameFailsAt cfg ⟨E, fns⟩ k := by
    intro hnf r k _ hr hf
    have : none ∈ EN.defSeq cfg ⟨E, fns⟩ root := (EN.mem_defSeq cfg ⟨E, fns⟩ root none).mpr ⟨r, k, hr, hf⟩
    rw [← EN.nameFails_of_parsed hp, hnf] at this
    cases this
  constructor
  · intro m1 hm1
    have hl := ((EN.addFile_ok_names cfg fns i name src m).mp ⟨m1, hm1⟩).1
    have hnf := ((EN.loads_iff_parses cfg fns src).mp hl).2
    rw [(duplicate_define_same_file cfg fns i name src m hp hpq hkp hkq hnp hnq (hall hnf)).1] at hm1
    cases hm1
  · intro s hok
    have hnf := ((add_ok_iff_fresh s name _).mp hok).2.1
    rw [contentOf_nameErr] at hnf
    rw [(duplicate_define_same_file cfg fns 0 name src m hp hpq hkp hkq hnp hnq (hall hnf)).2 s] at hok
    cases hok

/-- when every `define` name of the text evaluates, two equal names anywhere are the duplicate-name error -/
theorem duplicate_define_same_file_all_eval (i : Nat) (name src : String) (m : EN.Mgr) {root : Node} {E : EN.Tbl}
    (hp : EN.parsed cfg src = some (root, E)) (hnf : EN.nameFails cfg fns src = false)
    {p q : List Nat} {kp kq : Node} {n : String} (hpq : p ≠ q)
    (hkp : nodeAt p root = some kp) (hkq : nodeAt q root = some kq)
    (hnp : DefinesName cfg ⟨E, fns⟩ kp n) (hnq : DefinesName cfg ⟨E, fns⟩ kq n) :
    EN.addFile cfg fns i name src m = .err ∧
    ∀ s : State, (add s name (contentOf cfg fns src)).1 = .err .duplicate := by
  apply duplicate_define_same_file cfg fns i name src m hp hpq hkp hkq hnp hnq
  intro r k _ hr hf
  have : none ∈ EN.defSeq cfg ⟨E, fns⟩ root := (EN.mem_defSeq cfg ⟨E, fns⟩ root none).mpr ⟨r, k, hr, hf⟩
  rw [← EN.nameFails_of_parsed hp, hnf] at this
  cases this

/-! ## 2. a fragment named like the file it is in -/

/-- **define_named_like_own_file.**  The element at `q` is a `define` whose name evaluates to the name the file is being
    registered under, and no `define` before it has a failing name: the duplicate-name error (the file was registered
    first, `Add` stores it before `addDefinedTpl` runs). -/
theorem define_named_like_own_file (i : Nat) (name src : String) (m : EN.Mgr) {root : Node} {E : EN.Tbl}
    (hp : EN.parsed cfg src = some (root, E)) {q : List Nat} {kq : Node}
    (hkq : nodeAt q root = some kq) (hnq : DefinesName cfg ⟨E, fns⟩ kq name)
    (hev : ∀ r k, r < q → nodeAt r root = some k → ¬ NameFailsAt cfg ⟨E, fns⟩ k) :
    EN.addFile cfg fns i name src m = .err ∧
    ∀ s : State, (add s name (contentOf cfg fns src)).1 = .err .duplicate := by
  have hev' := (EN.none_not_mem_seqBefore cfg ⟨E, fns⟩ root q).mpr hev
  exact ⟨EN.addFile_clash_at cfg fns i name src m hp q kq name hkq hnq hev' (Or.inr (Or.inl rfl)),
    fun s => add_dup_at cfg fns s name src hp q kq name hkq hnq hev' (Or.inr (Or.inl rfl))⟩

/-! ## 3. a name that is registered already; the converse -/

/-- **a FILE named like any registered name** — a file or a fragment of an earlier file — is the duplicate-name error,
    whatever its text (it is not even scanned). -/
theorem file_named_like_earlier_name (i : Nat) (name src : String) (m : EN.Mgr) (h : name ∈ names m.templates) :
    EN.addFile cfg fns i name src m = .err ∧
    ∀ s : State, s.templates = names m.templates →
      add s name (contentOf cfg fns src) = (.err .duplicate, s) := by
  refine ⟨EN.addFile_name_taken cfg fns i name src m h, fun s hs => ?_⟩
  unfold add
  rw [if_pos (hs ▸ h)]

/-- **define_named_like_earlier_name.**  The element at `q` is a `define` whose name evaluates to a name in the registry
    of the manager — a file name or a fragment name of an earlier file — and no `define` before it has a failing name:
    the duplicate-name error. -/
theorem define_named_like_earlier_name (i : Nat) (name src : String) (m : EN.Mgr) {root : Node} {E : EN.Tbl}
    (hp : EN.parsed cfg src = some (root, E)) {q : List Nat} {kq : Node} {n : String}
    (hkq : nodeAt q root = some kq) (hnq : DefinesName cfg ⟨E, fns⟩ kq n) (hn : n ∈ names m.templates)
    (hev : ∀ r k, r < q → nodeAt r root = some k → ¬ NameFailsAt cfg ⟨E, fns⟩ k) :
    EN.addFile cfg fns i name src m = .err ∧
    ∀ s : State, s.templates = names m.templates → (add s name (contentOf cfg fns src)).1 = .err .duplicate := by
  have hev' := (EN.none_not_mem_seqBefore cfg ⟨E, fns⟩ root q).mpr hev
  exact ⟨EN.addFile_clash_at cfg fns i name src m hp q kq n hkq hnq hev' (Or.inl hn),
    fun s hs => add_dup_at cfg fns s name src hp q kq n hkq hnq hev' (Or.inl (hs ▸ hn))⟩

/-- **addFile_ok_names_fresh** (the converse).  If `addFile` succeeds then
    * the file name followed by the fragment names of the text is duplicate-free and disjoint from the registry before,
      and the registry after is exactly the old one followed by those names; the file list grows by the file name
      (instances of `EN.addFile_ok_names`, `EN.addFile_names`, `EN.Fresh_iff`);
    * on the tree: the text parses, no `define` name fails, the fragment names are exactly the names of the `define`
      elements of the tree, two `define`s at different positions have different names, and no `define` is named like the
      file or like anything registered before. -/
theorem addFile_ok_names_fresh (i : Nat) (name src : String) (m m1 : EN.Mgr)
    (h : EN.addFile cfg fns i name src m = .ok m1) :
    (name :: EN.fragNames cfg fns src).Nodup ∧
    (∀ x ∈ name :: EN.fragNames cfg fns src, x ∉ names m.templates) ∧
    names m1.templates = names m.templates ++ name :: EN.fragNames cfg fns src ∧
    m1.files = m.files ++ [name] ∧
    ∃ root E, EN.parsed cfg src = some (root, E) ∧
      (∀ r k, nodeAt r root = some k → ¬ NameFailsAt cfg ⟨E, fns⟩ k) ∧
      (∀ x, x ∈ EN.fragNames cfg fns src ↔ ∃ r k, nodeAt r root = some k ∧ DefinesName cfg ⟨E, fns⟩ k x) ∧
      (∀ p q kp kq x y, p ≠ q → nodeAt p root = some kp → nodeAt q root = some kq →
        DefinesName cfg ⟨E, fns⟩ kp x → DefinesName cfg ⟨E, fns⟩ kq y → x ≠ y) ∧
      (∀ r k x, nodeAt r root = some k → DefinesName cfg ⟨E, fns⟩ k x → x ≠ name ∧ x ∉ names m.templates) := by
  obtain ⟨hl, hfr⟩ := (EN.addFile_ok_names cfg fns i name src m).mp ⟨m1, h⟩
  obtain ⟨hnd, hdis⟩ := (EN.Fresh_iff _ _).mp hfr
  obtain ⟨hn1, hn2⟩ := EN.addFile_names h
  obtain ⟨hpar, hnf⟩ := (EN.loads_iff_parses cfg fns src).mp hl
  refine ⟨hnd, hdis, hn1, hn2, ?_⟩
  unfold EN.parses at hpar
  cases hpp : EN.parsed cfg src with
  | none => rw [hpp] at hpar; cases hpar
  | some pr =>
    obtain ⟨root, E⟩ := pr
    have hnone : none ∉ EN.defSeq cfg ⟨E, fns⟩ root := by
      rw [← EN.nameFails_of_parsed hpp, hnf]; simp
    have hfn : EN.fragNames cfg fns src = definedNames (EN.defSeq cfg ⟨E, fns⟩ root) := by
      rw [EN.fragNames_eq_definedBy hl, EN.definedBy_of_parsed hpp]
    have hmem : ∀ x, x ∈ EN.fragNames cfg fns src ↔ ∃ r k, nodeAt r root = some k ∧ DefinesName cfg ⟨E, fns⟩ k x := by
      intro x
      rw [hfn, EN.mem_definedNames_of_no_none hnone, EN.mem_defSeq]
      rfl
    refine ⟨root, E, rfl, ?_, hmem, ?_, ?_⟩
    · intro r k hr hf
      exact hnone ((EN.mem_defSeq cfg ⟨E, fns⟩ root none).mpr ⟨r, k, hr, hf⟩)
    · intro p q kp kq x y hpq hkp hkq hx hy hxy
      subst hxy
      exact (duplicate_define_not_ok cfg fns i name src m hpp hpq hkp hkq hx hy).1 m1 h
    · intro r k x hr hx
      have hxm : x ∈ EN.fragNames cfg fns src := (hmem x).mpr ⟨r, k, hr, hx⟩
      refine ⟨?_, hdis x (List.mem_cons_of_mem _ hxm)⟩
      rintro rfl
      exact (List.nodup_cons.mp hnd).1 hxm

/-! ## 4. what stays registered after the duplicate-name error -/

/-- **one `Add`** (from any registry `s`).  The file name is free; the `define` at `q`, named `n`, is the FIRST clash: no
    name fails before `q`, the names of the `define`s before `q` are fresh on top of the registry and the file name, and
    `n` is taken (by the registry, the file name, or a `define` before `q`).  Then `Add` returns the duplicate-name error
    and leaves registered: everything that was, the file (also in `files`), and the fragments before `q` — a name is
    registered afterwards iff it was before, or is the file name, or is the name of a `define` at a position `< q`.
    In particular no `define` at a position `≥ q` is registered by this call. -/
theorem add_duplicate_leaves_prefix_registered (s : State) (name src : String) {root : Node} {E : EN.Tbl}
    (hp : EN.parsed cfg src = some (root, E)) {q : List Nat} {kq : Node} {n : String}
    (hkq : nodeAt q root = some kq) (hnq : DefinesName cfg ⟨E, fns⟩ kq n)
    (hev : ∀ r k, r < q → nodeAt r root = some k → ¬ NameFailsAt cfg ⟨E, fns⟩ k)
    (hfresh : Fresh s.templates (name :: namesBefore cfg ⟨E, fns⟩ root q))
    (hclash : n ∈ s.templates ∨ n = name ∨ n ∈ namesBefore cfg ⟨E, fns⟩ root q) :
    let r := add s name (contentOf cfg fns src)
    r.1 = .err .duplicate ∧
    r.2.templates = s.templates ++ name :: namesBefore cfg ⟨E, fns⟩ root q ∧
    r.2.files = s.files ++ [name] ∧
    (∀ y, y ∈ r.2.templates ↔
      y ∈ s.templates ∨ y = name ∨ ∃ r' k, r' < q ∧ nodeAt r' root = some k ∧ DefinesName cfg ⟨E, fns⟩ k y) := by
  intro r
  have hev' := (EN.none_not_mem_seqBefore cfg ⟨E, fns⟩ root q).mpr hev
  obtain ⟨h1, h2, h3⟩ := add_clash_at cfg fns s name src hp q kq n hkq hnq hev' hfresh.1 hfresh.2 hclash
  refine ⟨h1, h2, h3, fun y => ?_⟩
  show y ∈ (add s name (contentOf cfg fns src)).2.templates ↔ _
  rw [h2, List.mem_append, List.mem_cons, EN.mem_namesBefore cfg ⟨E, fns⟩ root q hev']

variable (mt : String → Bool)

/-- **parse_clash_at** (the general step, lifted to `Parse`).  `pre` was parsed (manager `mg`), the next accepted file `x`
    parses to `root`, its element at `q` is a `define` named `n`, no `define` before `q` has a failing name, and `n` is
    taken — by the registry of `mg`, by the path of `x`, or by a `define` before `q`.  Then, whatever follows: the walk
    returns the duplicate-name error and `EN.loadFiles` returns `.err`. -/
theorem parse_clash_at (pre : List Src) (x : Src) (post : List Src) (mg : EN.Mgr)
    (hpre : EN.loadFiles cfg fns (visited mt pre) = .ok mg) (hacc : x.isDir = false ∧ mt x.path = true)
    {root : Node} {E : EN.Tbl} (hp : EN.parsed cfg x.src = some (root, E)) {q : List Nat} {kq : Node} {n : String}
    (hkq : nodeAt q root = some kq) (hnq : DefinesName cfg ⟨E, fns⟩ kq n)
    (hev : ∀ r k, r < q → nodeAt r root = some k → ¬ NameFailsAt cfg ⟨E, fns⟩ k)
    (hclash : n ∈ names mg.templates ∨ n = x.path ∨ n ∈ namesBefore cfg ⟨E, fns⟩ root q) :
    (run mt (entriesOf cfg fns (pre ++ x :: post))).1 = .err .duplicate ∧
    EN.loadFiles cfg fns (visited mt (pre ++ x :: post)) = .err := by
  have hev' := (EN.none_not_mem_seqBefore cfg ⟨E, fns⟩ root q).mpr hev
  obtain ⟨s0, s1, _, _, hs1t, _, _, _, hstep, hload⟩ := C19.pre_step cfg fns mt pre x mg hpre hacc
  have hadd := add_dup_at cfg fns s1 x.path x.src hp q kq n hkq hnq hev' (hs1t ▸ hclash)
  have herr := EN.addFile_clash_at cfg fns ((visited mt pre).length + 1) x.path x.src mg hp q kq n hkq hnq hev' hclash
  constructor
  · rw [hstep post]
    rcases hc : add s1 x.path (contentOf cfg fns x.src) with ⟨rr, ss⟩
    rw [hc] at hadd
    simp only at hadd
    subst hadd
    rfl
  · rw [hload post, EN.loadFrom_cons_fail cfg fns _ (x.path, x.src) _ mg (fun m1 hm1 => by rw [herr] at hm1; cases hm1)]
    exact herr

/-- **duplicate_leaves_prefix_registered** (lifted to `Parse`).  `pre` was parsed (manager `mg`); the next accepted file
    `x` parses to `root`; the `define` at `q`, named `n`, is the FIRST clash of `x` (no name fails before `q`; the path of
    `x` and the names of the `define`s before `q` are fresh on top of the registry of `mg`; `n` is taken).  Then, whatever
    follows: the walk returns the duplicate-name error, `EN.loadFiles` returns `.err`, and — nothing is rolled back —
    the registry is the one of `mg` plus the path of `x` plus the names of the `define`s before `q`; `x` is a registered
    file; a name is registered iff `mg` had it, or it is the path of `x`, or it is the name of a `define` of `x` at a
    position `< q`: no LATER fragment of the failing file (and nothing of the files behind it) is registered; the files
    opened are those of `pre` and `x`, all closed. -/
theorem duplicate_leaves_prefix_registered (pre : List Src) (x : Src) (post : List Src) (mg : EN.Mgr)
    (hpre : EN.loadFiles cfg fns (visited mt pre) = .ok mg) (hacc : x.isDir = false ∧ mt x.path = true)
    {root : Node} {E : EN.Tbl} (hp : EN.parsed cfg x.src = some (root, E)) {q : List Nat} {kq : Node} {n : String}
    (hkq : nodeAt q root = some kq) (hnq : DefinesName cfg ⟨E, fns⟩ kq n)
    (hev : ∀ r k, r < q → nodeAt r root = some k → ¬ NameFailsAt cfg ⟨E, fns⟩ k)
    (hfresh : Fresh (names mg.templates) (x.path :: namesBefore cfg ⟨E, fns⟩ root q))
    (hclash : n ∈ names mg.templates ∨ n = x.path ∨ n ∈ namesBefore cfg ⟨E, fns⟩ root q) :
    let st := (run mt (entriesOf cfg fns (pre ++ x :: post))).2
    (run mt (entriesOf cfg fns (pre ++ x :: post))).1 = .err .duplicate ∧
    EN.loadFiles cfg fns (visited mt (pre ++ x :: post)) = .err ∧
    st.templates = names mg.templates ++ x.path :: namesBefore cfg ⟨E, fns⟩ root q ∧
    st.files = mg.files ++ [x.path] ∧
    (∀ y, y ∈ st.templates ↔
      y ∈ names mg.templates ∨ y = x.path ∨
        ∃ r k, r < q ∧ nodeAt r root = some k ∧ DefinesName cfg ⟨E, fns⟩ k y) ∧
    st.opens = (visited mt pre).map (·.1) ++ [x.path] ∧ st.closes = st.opens := by
  intro st
  have hev' := (EN.none_not_mem_seqBefore cfg ⟨E, fns⟩ root q).mpr hev
  obtain ⟨d1, d2⟩ := parse_clash_at cfg fns mt pre x post mg hpre hacc hp hkq hnq hev hclash
  obtain ⟨d1', _⟩ := parse_clash_at cfg fns mt pre x [] mg hpre hacc hp hkq hnq hev hclash
  have hfail : (run mt (entriesOf cfg fns (pre ++ [x]))).1 ≠ .ok := by rw [d1']; intro h; cases h
  obtain ⟨e1, e2, e3, e4⟩ := C19.loader_error_state cfg fns mt pre x post mg hpre hacc hfail
  have hstays : x.path ∉ names mg.templates ∧ EN.parses cfg x.src = true := ⟨hfresh.1, EN.parses_of_parsed hp⟩
  rw [if_pos hstays] at e1 e2
  obtain ⟨C, hC⟩ := EN.definedNames_defSeq_at cfg ⟨E, fns⟩ root q kq n hkq hnq hev'
  have hclash' : n ∈ names mg.templates ++ [x.path] ∨ n ∈ namesBefore cfg ⟨E, fns⟩ root q := by
    rcases hclash with h | h | h
    · exact Or.inl (List.mem_append_left _ h)
    · exact Or.inl (List.mem_append_right _ (by simp [h]))
    · exact Or.inr h
  have ht : st.templates = names mg.templates ++ x.path :: namesBefore cfg ⟨E, fns⟩ root q := by
    show (run mt (entriesOf cfg fns (pre ++ x :: post))).2.templates = _
    rw [e1, EN.definedBy_of_parsed hp, hC, regPrefix_clash _ _ _ _ hfresh.2 hclash']
  refine ⟨d1, d2, ht, e2, fun y => ?_, e3, e4⟩
  rw [ht, List.mem_append, List.mem_cons, EN.mem_namesBefore cfg ⟨E, fns⟩ root q hev']

/-! ## 1–3 lifted to `Parse` -/

/-- `duplicate_define_same_file` for `Parse`: `pre` was parsed, the next accepted file contains two `define`s named `n`
    (`p` before `q` in pre-order) and no `define` before `q` has a failing name: the walk returns the duplicate-name error
    and `EN.loadFiles` returns `.err`, whatever `pre` registered and whatever follows. -/
theorem parse_duplicate_define_same_file (pre : List Src) (x : Src) (post : List Src) (mg : EN.Mgr)
    (hpre : EN.loadFiles cfg fns (visited mt pre) = .ok mg) (hacc : x.isDir = false ∧ mt x.path = true)
    {root : Node} {E : EN.Tbl} (hp : EN.parsed cfg x.src = some (root, E)) {p q : List Nat} {kp kq : Node} {n : String}
    (hpq : p < q) (hkp : nodeAt p root = some kp) (hkq : nodeAt q root = some kq)
    (hnp : DefinesName cfg ⟨E, fns⟩ kp n) (hnq : DefinesName cfg ⟨E, fns⟩ kq n)
    (hev : ∀ r k, r < q → nodeAt r root = some k → ¬ NameFailsAt cfg ⟨E, fns⟩ k) :
    (run mt (entriesOf cfg fns (pre ++ x :: post))).1 = .err .duplicate ∧
    EN.loadFiles cfg fns (visited mt (pre ++ x :: post)) = .err :=
  parse_clash_at cfg fns mt pre x post mg hpre hacc hp hkq hnq hev
    (Or.inr (Or.inr (EN.mem_namesBefore_of_two cfg ⟨E, fns⟩ root hpq hkp hnp
      ((EN.none_not_mem_seqBefore cfg ⟨E, fns⟩ root q).mpr hev))))

/-- `define_named_like_own_file` for `Parse` -/
theorem parse_define_named_like_own_file (pre : List Src) (x : Src) (post : List Src) (mg : EN.Mgr)
    (hpre : EN.loadFiles cfg fns (visited mt pre) = .ok mg) (hacc : x.isDir = false ∧ mt x.path = true)
    {root : Node} {E : EN.Tbl} (hp : EN.parsed cfg x.src = some (root, E)) {q : List Nat} {kq : Node}
    (hkq : nodeAt q root = some kq) (hnq : DefinesName cfg ⟨E, fns⟩ kq x.path)
    (hev : ∀ r k, r < q → nodeAt r root = some k → ¬ NameFailsAt cfg ⟨E, fns⟩ k) :
    (run mt (entriesOf cfg fns (pre ++ x :: post))).1 = .err .duplicate ∧
    EN.loadFiles cfg fns (visited mt (pre ++ x :: post)) = .err :=
  parse_clash_at cfg fns mt pre x post mg hpre hacc hp hkq hnq hev (Or.inr (Or.inl rfl))

/-- `define_named_like_earlier_name` for `Parse`: the name is the path of an earlier accepted file or a fragment name of
    one (`n ∈ names mg.templates`, which is `C19.requested … pre` by `C19.loader_registry_eq_requested`) -/
theorem parse_define_named_like_earlier_name (pre : List Src) (x : Src) (post : List Src) (mg : EN.Mgr)
    (hpre : EN.loadFiles cfg fns (visited mt pre) = .ok mg) (hacc : x.isDir = false ∧ mt x.path = true)
    {root : Node} {E : EN.Tbl} (hp : EN.parsed cfg x.src = some (root, E)) {q : List Nat} {kq : Node} {n : String}
    (hkq : nodeAt q root = some kq) (hnq : DefinesName cfg ⟨E, fns⟩ kq n)
    (hn : n ∈ C19.requested cfg fns mt pre)
    (hev : ∀ r k, r < q → nodeAt r root = some k → ¬ NameFailsAt cfg ⟨E, fns⟩ k) :
    (run mt (entriesOf cfg fns (pre ++ x :: post))).1 = .err .duplicate ∧
    EN.loadFiles cfg fns (visited mt (pre ++ x :: post)) = .err :=
  parse_clash_at cfg fns mt pre x post mg hpre hacc hp hkq hnq hev
    (Or.inl (by rw [C19.loader_registry_eq_requested cfg fns mt pre mg hpre]; exact hn))

/-- `duplicate_define_same_file` for `EN.loadFiles` on any list of (name, text) pairs: the files before load, the next one
    has two `define`s named `n` and nothing failing before the later one: `.err`, whatever follows -/
theorem loadFiles_duplicate_define_same_file (pre : List (String × String)) (name src : String)
    (post : List (String × String)) (mg : EN.Mgr) (hpre : EN.loadFiles cfg fns pre = .ok mg)
    {root : Node} {E : EN.Tbl} (hp : EN.parsed cfg src = some (root, E)) {p q : List Nat} {kp kq : Node} {n : String}
    (hpq : p ≠ q) (hkp : nodeAt p root = some kp) (hkq : nodeAt q root = some kq)
    (hnp : DefinesName cfg ⟨E, fns⟩ kp n) (hnq : DefinesName cfg ⟨E, fns⟩ kq n)
    (hev : ∀ r k, r < p ∨ r < q → nodeAt r root = some k → ¬ NameFailsAt cfg ⟨E, fns⟩ k) :
    EN.loadFiles cfg fns (pre ++ (name, src) :: post) = .err := by
  have herr := (duplicate_define_same_file cfg fns (pre.length + 1) name src mg hp hpq hkp hkq hnp hnq hev).1
  unfold EN.loadFiles at hpre ⊢
  rw [EN.loadFrom_append_ok cfg fns pre _ 0 _ mg hpre, Nat.zero_add,
    EN.loadFrom_cons_fail cfg fns _ (name, src) _ mg (fun m1 hm1 => by rw [herr] at hm1; cases hm1)]
  exact herr

/-! ## 5. non-vacuity: the three shapes, a control, and the hypotheses of every theorem on concrete texts -/
namespace Examples
open C19 (html)

/-- two siblings with the same name -/
def dupSib : String := "<p :define=\"a\">1</p><p :define=\"a\">2</p>"
/-- a `define` nested in a `define` of the same name -/
def dupNest : String := "<p :define=\"a\"><i :define=\"a\">x</i></p>"
/-- a fragment named like its file (`x.html`) -/
def dupOwn : String := "<p :define=\"x.html\">1</p>"
/-- the second one inside the (discarded) body of an `insert` host; a third `define` and a failing name BEHIND the clash -/
def dupHost : String := "<p :define=\"a\">1</p><div :insert=\"zz\"><b><u :define=\"a\">2</u></b></div><p :define=\"d\">3</p><p :define>4</p>"
/-- control: distinct names -/
def distinct : String := "<p :define=\"a\">1</p><p :define=\"b\"><i :define=\"c\">x</i></p>"
/-- an earlier file -/
def earlier : String := "<p :define=\"a\">1</p>"
/-- the first clash is the third `define`; a fourth one behind it -/
def dupThird : String := "<p :define=\"c\">0</p><p :define=\"a\">1</p><p :define=\"a\">2</p><p :define=\"d\">3</p>"
/-- a failing name BETWEEN the two equal names: Go returns the evaluation error -/
def failBetween : String := "<p :define=\"a\">1</p><p :define>2</p><p :define=\"a\">3</p>"

def isErr : EN.LoadRes EN.Mgr → Bool | .err => true | _ => false

def loadedNames : EN.LoadRes EN.Mgr → Option (List String × List String)
  | .ok m => some (names m.templates, m.files)
  | _ => none

set_option maxRecDepth 100000 in
/-- **the concrete loader**: the three shapes (and the host variant) are `.err`; the control loads with exactly its names;
    a fragment named like a fragment, or like the file name, of an EARLIER file is `.err` -/
theorem addFile_examples :
    isErr (EN.addFile {} [] 1 "a.html" dupSib (EN.emptyMgr {} [])) = true ∧
    isErr (EN.addFile {} [] 1 "a.html" dupNest (EN.emptyMgr {} [])) = true ∧
    isErr (EN.addFile {} [] 1 "x.html" dupOwn (EN.emptyMgr {} [])) = true ∧
    isErr (EN.addFile {} [] 1 "a.html" dupHost (EN.emptyMgr {} [])) = true ∧
    loadedNames (EN.addFile {} [] 1 "a.html" distinct (EN.emptyMgr {} [])) = some (["a.html", "a", "b", "c"], ["a.html"]) ∧
    loadedNames (EN.addFile {} [] 1 "y.html" dupOwn (EN.emptyMgr {} [])) = some (["y.html", "x.html"], ["y.html"]) ∧
    isErr (EN.loadFiles {} [] [("a.html", earlier), ("b.html", "<p :define=\"b\">1</p><p :define=\"a\">2</p>")]) = true ∧
    isErr (EN.loadFiles {} [] [("a.html", earlier), ("b.html", "<p :define=\"a.html\">1</p>")]) = true ∧
    isErr (EN.loadFiles {} [] [("a.html", "<p :define=\"b.html\">1</p>"), ("b.html", "<p>1</p>")]) = true := by
  decide +kernel

set_option maxRecDepth 100000 in
/-- **the abstract `Add` on the loader-computed content**: the duplicate-name error, with the file and the earlier
    fragments registered (Go on HEAD: `Templates()` = {`a.html`, `a`}; {`x.html`}; {`a.html`, `c`, `a`}); the control is
    `ok`; a failing name between the two equal names is the evaluation error (kind `load`), as in Go -/
theorem add_examples :
    add {} "a.html" (contentOf {} [] dupSib) = (.err .duplicate, { files := ["a.html"], templates := ["a.html", "a"] }) ∧
    add {} "a.html" (contentOf {} [] dupNest) = (.err .duplicate, { files := ["a.html"], templates := ["a.html", "a"] }) ∧
    add {} "x.html" (contentOf {} [] dupOwn) = (.err .duplicate, { files := ["x.html"], templates := ["x.html"] }) ∧
    add {} "a.html" (contentOf {} [] dupHost) = (.err .duplicate, { files := ["a.html"], templates := ["a.html", "a"] }) ∧
    add {} "a.html" (contentOf {} [] dupThird) =
      (.err .duplicate, { files := ["a.html"], templates := ["a.html", "c", "a"] }) ∧
    add {} "a.html" (contentOf {} [] distinct) = (.ok, { files := ["a.html"], templates := ["a.html", "a", "b", "c"] }) ∧
    add {} "a.html" (contentOf {} [] failBetween) = (.err .load, { files := ["a.html"], templates := ["a.html", "a"] }) := by
  decide +kernel

set_option maxRecDepth 100000 in
/-- **`Parse`** over a tree: the walk stops at the file with the duplicate, with the duplicate-name error -/
theorem run_examples :
    run html (entriesOf {} [] [{ path := "a.html", src := dupSib }, { path := "b.html", src := distinct }]) =
      (.err .duplicate, { files := ["a.html"], templates := ["a.html", "a"], opens := ["a.html"], closes := ["a.html"] }) ∧
    run html (entriesOf {} [] [{ path := "x.html", src := dupOwn }]) =
      (.err .duplicate, { files := ["x.html"], templates := ["x.html"], opens := ["x.html"], closes := ["x.html"] }) ∧
    run html (entriesOf {} [] [{ path := "a.html", src := earlier }, { path := "b.html", src := dupThird }]) =
      (.err .duplicate, { files := ["a.html", "b.html"], templates := ["a.html", "a", "b.html", "c"],
                          opens := ["a.html", "b.html"], closes := ["a.html", "b.html"] }) ∧
    run html (entriesOf {} [] [{ path := "z.html", src := distinct }]) =
      (.ok, { files := ["z.html"], templates := ["z.html", "a", "b", "c"], opens := ["z.html"], closes := ["z.html"] }) := by
  decide +kernel

/-! ### the hypotheses of the theorems hold on these texts -/

instance (cfg : EN.Cfg) (cx : EN.Ctx) (k : Node) (n : String) : Decidable (DefinesName cfg cx k n) :=
  inferInstanceAs (Decidable (_ = _))

/-- executable form of "the text parses, the element at `q` is a `define` named `n`, nothing fails before `q`, and the
    names before `q` are `before`" -/
def defAtB (src : String) (q : List Nat) (n : String) (before : List String) : Bool :=
  (EN.parsed {} src).any fun pr =>
    (nodeAt q pr.1).any (fun k => decide (DefinesName {} ⟨pr.2, []⟩ k n)) &&
    decide (none ∉ seqBefore {} ⟨pr.2, []⟩ pr.1 q) && decide (namesBefore {} ⟨pr.2, []⟩ pr.1 q = before)

theorem of_defAtB {src : String} {q : List Nat} {n : String} {before : List String} (h : defAtB src q n before = true)
    {root : Node} {E : EN.Tbl} (hp : EN.parsed {} src = some (root, E)) :
    ∃ k, nodeAt q root = some k ∧ DefinesName {} ⟨E, []⟩ k n ∧
      (∀ r k', r < q → nodeAt r root = some k' → ¬ NameFailsAt {} ⟨E, []⟩ k') ∧
      namesBefore {} ⟨E, []⟩ root q = before := by
  unfold defAtB at h
  rw [hp] at h
  simp only [Option.any_some, Bool.and_eq_true, decide_eq_true_eq] at h
  obtain ⟨⟨h1, h2⟩, h3⟩ := h
  cases hk : nodeAt q root with
  | none => rw [hk] at h1; cases h1
  | some k =>
    rw [hk] at h1
    simp only [Option.any_some, decide_eq_true_eq] at h1
    exact ⟨k, rfl, h1, (EN.none_not_mem_seqBefore {} ⟨E, []⟩ root q).mp h2, h3⟩

theorem parsed_of_parses {src : String} (h : EN.parses {} src = true) : ∃ root E, EN.parsed {} src = some (root, E) := by
  unfold EN.parses at h
  cases hp : EN.parsed {} src with
  | none => rw [hp] at h; cases h
  | some pr => exact ⟨pr.1, pr.2, rfl⟩

set_option maxRecDepth 100000 in
theorem checks :
    EN.parses {} dupSib = true ∧ defAtB dupSib [0] "a" [] = true ∧ defAtB dupSib [1] "a" ["a"] = true ∧
    EN.parses {} dupNest = true ∧ defAtB dupNest [0] "a" [] = true ∧ defAtB dupNest [0, 0] "a" ["a"] = true ∧
    EN.parses {} dupOwn = true ∧ defAtB dupOwn [0] "x.html" [] = true ∧
    EN.parses {} dupHost = true ∧ defAtB dupHost [0] "a" [] = true ∧ defAtB dupHost [1, 0, 0] "a" ["a"] = true ∧
    EN.parses {} dupThird = true ∧ defAtB dupThird [1] "a" ["c"] = true ∧ defAtB dupThird [2] "a" ["c", "a"] = true ∧
    EN.nameFails {} [] dupSib = false := by
  decide +kernel

/-- `duplicate_define_same_file` (siblings), `duplicate_define_not_ok`, `duplicate_define_same_file_all_eval`: the
    hypotheses hold for `dupSib` with `p = [0]`, `q = [1]`, `n = "a"`; the conclusion for a non-empty manager -/
example : ∃ root E kp kq, EN.parsed {} dupSib = some (root, E) ∧ ([0] : List Nat) ≠ [1] ∧
    nodeAt [0] root = some kp ∧ nodeAt [1] root = some kq ∧
    DefinesName {} ⟨E, []⟩ kp "a" ∧ DefinesName {} ⟨E, []⟩ kq "a" ∧
    (∀ r k, r < [0] ∨ r < [1] → nodeAt r root = some k → ¬ NameFailsAt {} ⟨E, []⟩ k) ∧
    EN.nameFails {} [] dupSib = false ∧
    ∀ i name m, EN.addFile {} [] i name dupSib m = .err := by
  obtain ⟨c1, c2, c3, _, _, _, _, _, _, _, _, _, _, _, c15⟩ := checks
  obtain ⟨root, E, hp⟩ := parsed_of_parses c1
  obtain ⟨kp, p1, p2, _, _⟩ := of_defAtB c2 hp
  obtain ⟨kq, q1, q2, q3, _⟩ := of_defAtB c3 hp
  have hev : ∀ r k, r < [0] ∨ r < [1] → nodeAt r root = some k → ¬ NameFailsAt {} ⟨E, []⟩ k := by
    intro r k hr
    rcases hr with hr | hr
    · exact q3 r k (List.lt_trans hr (by decide))
    · exact q3 r k hr
  exact ⟨root, E, kp, kq, hp, by decide, p1, q1, p2, q2, hev, c15,
    fun i name m => (duplicate_define_same_file {} [] i name dupSib m hp (by decide) p1 q1 p2 q2 hev).1⟩

/-- `duplicate_define_same_file` with the second `define` NESTED in the first (`q = [0, 0]` under `p = [0]`) -/
example : ∃ root E kp kq, EN.parsed {} dupNest = some (root, E) ∧
    nodeAt [0] root = some kp ∧ nodeAt [0, 0] root = some kq ∧
    DefinesName {} ⟨E, []⟩ kp "a" ∧ DefinesName {} ⟨E, []⟩ kq "a" ∧
    (∀ r k, r < [0, 0] → nodeAt r root = some k → ¬ NameFailsAt {} ⟨E, []⟩ k) := by
  obtain ⟨_, _, _, c4, c5, c6, _⟩ := checks
  obtain ⟨root, E, hp⟩ := parsed_of_parses c4
  obtain ⟨kp, p1, p2, _, _⟩ := of_defAtB c5 hp
  obtain ⟨kq, q1, q2, q3, _⟩ := of_defAtB c6 hp
  exact ⟨root, E, kp, kq, hp, p1, q1, p2, q2, q3⟩

/-- … and with the second `define` inside the discarded body of an `insert` host (`q = [1, 0, 0]`) -/
example : ∃ root E kp kq, EN.parsed {} dupHost = some (root, E) ∧
    nodeAt [0] root = some kp ∧ nodeAt [1, 0, 0] root = some kq ∧
    DefinesName {} ⟨E, []⟩ kp "a" ∧ DefinesName {} ⟨E, []⟩ kq "a" ∧
    (∀ r k, r < [1, 0, 0] → nodeAt r root = some k → ¬ NameFailsAt {} ⟨E, []⟩ k) := by
  obtain ⟨_, _, _, _, _, _, _, _, c9, c10, c11, _⟩ := checks
  obtain ⟨root, E, hp⟩ := parsed_of_parses c9
  obtain ⟨kp, p1, p2, _, _⟩ := of_defAtB c10 hp
  obtain ⟨kq, q1, q2, q3, _⟩ := of_defAtB c11 hp
  exact ⟨root, E, kp, kq, hp, p1, q1, p2, q2, q3⟩

/-- `define_named_like_own_file` / `parse_define_named_like_own_file`: `dupOwn` registered as `x.html` -/
example : ∃ root E kq, EN.parsed {} dupOwn = some (root, E) ∧ nodeAt [0] root = some kq ∧
    DefinesName {} ⟨E, []⟩ kq "x.html" ∧
    (∀ r k, r < [0] → nodeAt r root = some k → ¬ NameFailsAt {} ⟨E, []⟩ k) ∧
    ∀ m, EN.addFile {} [] 1 "x.html" dupOwn m = .err := by
  obtain ⟨_, _, _, _, _, _, c7, c8, _⟩ := checks
  obtain ⟨root, E, hp⟩ := parsed_of_parses c7
  obtain ⟨kq, q1, q2, q3, _⟩ := of_defAtB c8 hp
  exact ⟨root, E, kq, hp, q1, q2, q3, fun m => (define_named_like_own_file {} [] 1 "x.html" dupOwn m hp q1 q2 q3).1⟩

/-- the manager after `a.html` = `earlier` -/
theorem earlier_loaded : ∃ mg, EN.loadFiles {} [] (visited html [{ path := "a.html", src := earlier }]) = .ok mg ∧
    names mg.templates = ["a.html", "a"] ∧ mg.files = ["a.html"] := by
  have hrun : run html (entriesOf {} [] [{ path := "a.html", src := earlier }]) =
      (.ok, { files := ["a.html"], templates := ["a.html", "a"], opens := ["a.html"], closes := ["a.html"] }) := by
    set_option maxRecDepth 100000 in decide +kernel
  obtain ⟨mg, hmg⟩ := (C19.loader_simulation {} [] html [{ path := "a.html", src := earlier }]).1.mp (by rw [hrun])
  obtain ⟨h1, h2, _⟩ := (C19.loader_simulation {} [] html [{ path := "a.html", src := earlier }]).2 mg hmg
  rw [hrun] at h1 h2
  exact ⟨mg, hmg, h1.symm, h2.symm⟩

/-- `file_named_like_earlier_name`, `define_named_like_earlier_name`, `parse_define_named_like_earlier_name`,
    `add_duplicate_leaves_prefix_registered`, `duplicate_leaves_prefix_registered`, `parse_clash_at`:
    `pre := [a.html = earlier]`, `x := b.html = dupThird`; the FIRST clash is the `define` at `[1]` (named `a`, taken by
    the fragment of `a.html`), the names before it are `["c"]`; the later `define`s `a` (again) and `d` are not registered -/
example : ∃ mg root E kq, EN.loadFiles {} [] (visited html [{ path := "a.html", src := earlier }]) = .ok mg ∧
    EN.parsed {} dupThird = some (root, E) ∧ nodeAt [1] root = some kq ∧ DefinesName {} ⟨E, []⟩ kq "a" ∧
    "a" ∈ names mg.templates ∧ "a.html" ∈ names mg.templates ∧ "a" ∈ C19.requested {} [] html [{ path := "a.html", src := earlier }] ∧
    (∀ r k, r < [1] → nodeAt r root = some k → ¬ NameFailsAt {} ⟨E, []⟩ k) ∧
    Fresh (names mg.templates) ("b.html" :: namesBefore {} ⟨E, []⟩ root [1]) ∧
    (run html (entriesOf {} [] ([{ path := "a.html", src := earlier }] ++ { path := "b.html", src := dupThird } ::
      [{ path := "c.html", src := distinct }]))).2.templates = ["a.html", "a", "b.html", "c"] := by
  obtain ⟨mg, hmg, hn, _⟩ := earlier_loaded
  obtain ⟨_, _, _, _, _, _, _, _, _, _, _, c12, c13, _⟩ := checks
  obtain ⟨root, E, hp⟩ := parsed_of_parses c12
  obtain ⟨kq, q1, q2, q3, q4⟩ := of_defAtB c13 hp
  have hfresh : Fresh (names mg.templates) ("b.html" :: namesBefore {} ⟨E, []⟩ root [1]) := by
    rw [hn, q4]; decide
  have hreq : "a" ∈ C19.requested {} [] html [{ path := "a.html", src := earlier }] := by
    rw [← C19.loader_registry_eq_requested {} [] html _ mg hmg, hn]; decide
  obtain ⟨_, _, ht, _⟩ := duplicate_leaves_prefix_registered {} [] html [{ path := "a.html", src := earlier }]
    { path := "b.html", src := dupThird } [{ path := "c.html", src := distinct }] mg hmg (by decide) hp q1 q2 q3 hfresh
    (Or.inl (by rw [hn]; decide))
  refine ⟨mg, root, E, kq, hmg, hp, q1, q2, by rw [hn]; decide, by rw [hn]; decide, hreq, q3, hfresh, ?_⟩
  rw [ht, hn, q4]
  rfl

/-- `addFile_ok_names_fresh`: the control file is added to the empty manager -/
example : ∃ m1, EN.addFile {} [] 1 "a.html" distinct (EN.emptyMgr {} []) = .ok m1 := by
  have h : (loadedNames (EN.addFile {} [] 1 "a.html" distinct (EN.emptyMgr {} []))).isSome = true := by
    rw [addFile_examples.2.2.2.2.1]; rfl
  cases hr : EN.addFile {} [] 1 "a.html" distinct (EN.emptyMgr {} []) with
  | ok m1 => exact ⟨m1, rfl⟩
  | err => rw [hr] at h; cases h
  | panic => rw [hr] at h; cases h
  | unsupported => rw [hr] at h; cases h

/-- `loadFiles_duplicate_define_same_file`: `[a.html = earlier]` loads; then `dupNest` under any name is `.err` -/
example : ∃ mg, EN.loadFiles {} [] [("a.html", earlier)] = .ok mg := by
  obtain ⟨mg, hmg, _⟩ := earlier_loaded
  exact ⟨mg, hmg⟩

end Examples

end C19D

