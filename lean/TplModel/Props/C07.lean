import TplModel.Props.Loader
import TplModel.Props.RenderProps
import TplModel.Props.C05refine
/-! # C07 — fragments: define is invisible, insert wraps, replace substitutes

OBLIGATIONS: RN.exec_refines_ref, RN.execute_refines, RN.Props.define_emits_nothing, RN.Props.replace_substitutes, RN.Props.insert_wraps, RN.Props.insert_no_children, RN.Props.unknown_name_is_tplNotFound, RN.Props.fragment_gets_fresh_conditions, RN.Props.fragment_independent_of_nc, RN.Props.fragment_depth_bounded, EN.loaded_manager_ok, EN.exec_refines_loaded, EN.addFile_lookup_stable, EN.addFile_appends, EN.loaded_names_nodup

Fragments are executed by `RN.execFrag` on a fresh flag / condition state with the call-site scope; the refinement
theorem covers them (hypothesis `TplOK`: every registered template has unique ids and sorted attributes, checked at
run time by the driver for every loaded manager). The define/insert/replace corollaries on the specification are in
Props/RenderProps (listed above); registry semantics (one namespace, duplicates rejected, order independence given
distinct names) is `C19.templates_are_files_plus_defines`. -/
