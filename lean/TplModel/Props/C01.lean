import TplModel.Props.Loader
import TplModel.Props.RenderProps
import TplModel.Proofs.ScanConcat
import TplModel.Proofs.TreeProofs
import TplModel.Props.C05refine
/-! # C01 — markup without directives is reproduced unchanged

OBLIGATIONS: HS.scan_concat, TB.tree_preorder, TB.build_total, RN.execute_refines, RN.Props.render_plain, EN.render_identity, EN.buildTree_preorder, EN.execute_refines_loaded

* `HS.scan_concat`: for every configuration and every input, the values of the scanned tokens concatenate back to
  the source (first consequence named by the property).
* `TB.tree_preorder`: the tree builder neither drops, duplicates nor reorders a token (pre-order flattening of the
  built tree is the token list), for every classifier of void / closing / self-closing tags.
* `RN.execute_refines`: the re-entrant renderer equals the structural reference renderer, on which
  `RN.Props.render_plain` is stated: a directive-free tree (`Plain`) renders to exactly `printNode root` — the
  concatenation of its tokens' values — with status ok and an EMPTY evaluation log (nothing is evaluated). -/
namespace C01

/-- non-vacuity: a concrete document with an unbalanced close tag and a raw-text element scans to tokens whose values
    concatenate to the source -/
example : (match HS.scan ⟨["script".toList]⟩ "<p a=1>x</q><script>a<b</script>".toList with
    | .ok ts => (ts.map (·.value)).flatten == "<p a=1>x</q><script>a<b</script>".toList
    | .error _ => false) = true := by decide

end C01
