import TplModel.Props.Loader
import TplModel.Proofs.TagReprint
import TplModel.Proofs.TagRescan
/-! # C01 — what exactly changes when a directive-free template is rendered

OBLIGATIONS: HS.tag_reprint, HS.tag_rescan, HS.rawClose_squeeze_iff, C01.tokOut_nonSp, C01.tokOut_eq_squeeze, C01.render_exact, C01.tokOut_fixed_point, C01.render_squeezeDoc_partial, HS.nonSp_squeeze, HS.squeeze_idem

`EN.render_identity` says: output = one part per source token, each part the token's text verbatim or the re-printed
tag `EN.tokOut t`.  This file says how `tokOut t` relates to the token's text:

* `tokOut_nonSp`: for EVERY tag token of EVERY scanned source, `nonSp (tokOut t) = nonSp t.value` — only white space
  differs (tag name, attribute names, `=`, quotes, values, letter case are those of the source, in order).
* `HS.squeeze` (Proofs/TagReprint.lean): character-level normalisation of the text of a tag — white space between the
  parts of the tag is dropped, ONE blank is written before every attribute (also where the source had none, directly
  after a closing quote), nothing before `>`, nothing around `=`; everything else — tag name, attribute names, `=`,
  quotes, values including the white space inside quotes, `/` — is copied.  `HS.nonSp_squeeze`: without white space the
  text is unchanged.  `HS.squeeze_idem`: it is a normal form.
* `tokOut_eq_squeeze`: `tokOut t = squeeze t.value` for every scanned tag token, EXCEPT closing tags of raw-text
  elements (`HS.RawClose`; recognised case-insensitively and with white space anywhere; the recorded name is the text
  between `<` and `>` as written, minus its white space) that are written with a blank INSIDE `</name`
  (`¬ HS.Tight`, e.g. `</scr ipt>`): for these `tokOut t` = the text without white space.  `HS.rawClose_squeeze_iff`:
  for a raw-text closing tag, `squeeze value = nonSp value ↔ Tight value` (the corner is exactly "a blank that is not
  directly before `>`").  Such a token is re-printed only when it is stray (e.g. after a self-closed `<script />`).
  `<script />x</SCRIPT >` renders as `<script />x</SCRIPT>` (`Example.cornerDemo_true`; before the repair of the Go
  scanner the name was lower-cased: `</script>`), `<script />x</SCR IPT >` as `<script />x</SCRIPT>`
  (`Example.cornerDemo2_true`).
* `render_exact`: `render_identity` with these three possibilities per part, and `nonSp out = nonSp src`.
* `render_squeezeDoc_partial`: source and output agree after squeezing every tag (token-aligned form).
* `tokOut_fixed_point`: scanning `tokOut t` alone gives one tag token with the same name and attributes, re-printed
  identically — for every tag token, raw-text closing tags included (per-tag step of "rendering the output again yields
  the same output").
The document-level statements — the second scan cuts the output at the same token boundaries (`HS.rescan_parts`), and
rendering the output again yields the same output (`C01.render_idempotent`) — are in Proofs/DocRescan.lean and
Props/C01idem.lean. -/
namespace C01
open EN

theorem attrOut_toList (a : HS.Attr) : (attrOut a).toList = HS.attrPrint a := by
  unfold attrOut HS.attrPrint
  cases a.value <;> simp [String.toList_append]

theorem join_attrOut_toList (as : List HS.Attr) : (String.join (as.map attrOut)).toList = HS.attrsPrint as := by
  induction as with
  | nil => rfl
  | cons a as ih =>
    simp only [List.map_cons, String.join_cons, String.toList_append, ih, attrOut_toList]
    simp [HS.attrsPrint]

/-- the characters the renderer writes for a tag token: `HS.tagPrint` of its tag record -/
theorem tokOut_toList (t : HS.Token) :
    (tokOut t).toList = (match t.tag with | some tg => HS.tagPrint tg | none => t.value) := by
  unfold tokOut
  cases t.tag with
  | none => simp
  | some tg =>
    simp only [String.toList_append, join_attrOut_toList, String.toList_ofList, HS.tagPrint]
    simp

/-- **tokOut_nonSp: only white space differs.**  For every tag token `t` of a successful scan (any configuration, any
    source) the text the renderer writes for it, `tokOut t` (`<name attr[=value]…>`), is — white space aside — the
    source text of the tag: tag name, attribute names, `=`, quote characters, attribute values, letter case, byte for
    byte and in the same order. -/
theorem tokOut_nonSp (cfg : HS.Cfg) (src : List Char) (toks : List HS.Token) (h : HS.scan cfg src = .ok toks)
    (t : HS.Token) (ht : t ∈ toks) (hk : t.kind = .tag) :
    HS.nonSp (tokOut t).toList = HS.nonSp t.value := by
  obtain ⟨tg, h1, h2, _⟩ := HS.tag_reprint cfg src toks h t ht hk
  rw [tokOut_toList, h1]; exact h2

/-- **tokOut_eq_squeeze.**  Sharper: `tokOut t` is the SQUEEZED source text of the tag — only the white space between
    the parts of the tag is normalised (`HS.squeeze`: removed, one blank before every attribute; white space inside
    quoted values is kept).  The ONLY exception is the closing tag of a raw-text element (`HS.RawClose`; the scanner
    recognises it in any letter case and with white space anywhere) written with a blank INSIDE `</name`
    (`¬ HS.Tight`: `</scr ipt>`, `</ script>`, `< /script>`): the recorded name is the text between `<` and `>` without
    its blanks, so `tokOut t` is the source text without white space (`</script>`), whereas `squeeze` — which follows
    the ordinary tag grammar — keeps one blank (`</scr ipt>`). -/
theorem tokOut_eq_squeeze (cfg : HS.Cfg) (src : List Char) (toks : List HS.Token) (h : HS.scan cfg src = .ok toks)
    (t : HS.Token) (ht : t ∈ toks) (hk : t.kind = .tag) :
    tokOut t = String.ofList (HS.squeeze t.value) ∨
    (HS.RawClose cfg t ∧ ¬ HS.Tight t.value ∧ tokOut t = String.ofList (HS.nonSp t.value)) := by
  obtain ⟨tg, h1, _, h2 | ⟨hr, hti, h2⟩⟩ := HS.tag_reprint cfg src toks h t ht hk
  · left
    rw [← String.toList_inj, tokOut_toList, h1, String.toList_ofList]
    exact h2
  · right
    refine ⟨hr, hti, ?_⟩
    rw [← String.toList_inj, tokOut_toList, h1, String.toList_ofList]
    exact h2

/-- every tag token except a raw-text closing tag with a blank inside `</name` is re-printed as its squeezed text -/
theorem tokOut_eq_squeeze_regular (cfg : HS.Cfg) (src : List Char) (toks : List HS.Token)
    (h : HS.scan cfg src = .ok toks) (t : HS.Token) (ht : t ∈ toks) (hk : t.kind = .tag)
    (hreg : HS.RawClose cfg t → HS.Tight t.value) :
    tokOut t = String.ofList (HS.squeeze t.value) := by
  rcases tokOut_eq_squeeze cfg src toks h t ht hk with h1 | ⟨hr, hti, _⟩
  · exact h1
  · exact absurd (hreg hr) hti

/-- what is printed for a token of a directive-free document: its source text, or — for a start / void /
    self-closing / stray closing tag — its squeezed source text, or — for a stray closing tag of a raw-text element
    written with a blank inside `</name` — its source text without white space -/
def PartRelX (cfg : HS.Cfg) (t : HS.Token) (p : String) : Prop :=
  p = String.ofList t.value ∨ (t.kind = .tag ∧ p = String.ofList (HS.squeeze t.value)) ∨
  (t.kind = .tag ∧ HS.RawClose cfg t ∧ ¬ HS.Tight t.value ∧ p = String.ofList (HS.nonSp t.value))

/-- in each of the three cases only white space differs -/
theorem PartRelX.nonSp {cfg : HS.Cfg} {t : HS.Token} {p : String} (h : PartRelX cfg t p) :
    HS.nonSp p.toList = HS.nonSp t.value := by
  rcases h with rfl | ⟨_, rfl⟩ | ⟨_, _, _, rfl⟩
  · simp
  · simp [HS.nonSp_squeeze]
  · simp [HS.nonSp_idem]

/-- **render_exact (C01).**  `EN.render_identity` with the re-printed tags spelled out: the output of a `Plain`
    loaded template is the concatenation of one part per source token, and each part is the token's text VERBATIM
    (text runs, comments, CDATA, closing tags of open elements), or the token's text with the white space between the
    parts of the tag normalised (`HS.squeeze`), or — stray closing tag of a raw-text element written with a blank inside
    `</name` — the token's text without white space.  In particular (last clause) output and source are equal up to
    white space: `nonSp out = nonSp src`. -/
theorem render_exact (cfg : Cfg) (fns : List (String × EV.FnSpec)) (idx : Nat) (name src : String) (m0 m : Mgr)
    (hinv : TplInv cfg m0.templates) (h : addFile cfg fns idx name src m0 = .ok m)
    (r : RN.Node) (hr : (envOf m).tpl name = some r) (hp : RN.Spec.Plain (rcfgOf cfg) r)
    (fuel : Nat) (sc : List EV.Val) (hf : (RN.execute (rcfgOf cfg) (envOf m) fuel r sc).st ≠ .fuel) :
    (RN.execute (rcfgOf cfg) (envOf m) fuel r sc).st = .ok ∧
    (RN.execute (rcfgOf cfg) (envOf m) fuel r sc).log = [] ∧
    (∃ toks parts, HS.scan (scanCfg cfg) src.toList = .ok toks ∧
      (toks.map (·.value)).flatten = src.toList ∧
      Aligned (PartRelX (scanCfg cfg)) toks parts ∧
      String.join (RN.execute (rcfgOf cfg) (envOf m) fuel r sc).out = String.join parts) ∧
    HS.nonSp (String.join (RN.execute (rcfgOf cfg) (envOf m) fuel r sc).out).toList = HS.nonSp src.toList := by
  obtain ⟨h1, h2, toks, parts, hs, hc, hal, ho⟩ := render_identity cfg fns idx name src m0 m hinv h r hr hp fuel sc hf
  have halx : Aligned (PartRelX (scanCfg cfg)) toks parts := by
    refine hal.imp_mem ?_
    intro t p ht _ hrel
    rcases hrel with hv | ⟨hk, ho⟩
    · exact Or.inl hv
    · rcases tokOut_eq_squeeze _ _ _ hs t ht hk with e | ⟨hr, hti, e⟩
      · exact Or.inr (Or.inl ⟨hk, by rw [ho, e]⟩)
      · exact Or.inr (Or.inr ⟨hk, hr, hti, by rw [ho, e]⟩)
  refine ⟨h1, h2, ⟨toks, parts, hs, hc, halx, ho⟩, ?_⟩
  rw [ho, ← hc]
  clear hal ho hc hs
  induction halx with
  | nil => rfl
  | @cons t p ts ps hr _ ih =>
    simp only [String.join_cons, String.toList_append, HS.nonSp_append, List.map_cons, List.flatten_cons, ih, hr.nonSp]

/-- the normalised text of a token: tags squeezed, everything else verbatim -/
def normTok (t : HS.Token) : List Char := if t.kind = .tag then HS.squeeze t.value else t.value

/-- a document with the white space between the parts of its tags normalised (text, comments, CDATA verbatim) -/
def squeezeDoc (cfg : HS.Cfg) (src : List Char) : List Char :=
  match HS.scan cfg src with
  | .ok toks => (toks.map normTok).flatten
  | .error _ => src

/-- the same normalisation applied to the printed part of token `t` -/
def normPart (t : HS.Token) (p : String) : List Char := if t.kind = .tag then HS.squeeze p.toList else p.toList

/-- no closing tag of a raw-text element is written with a blank inside `</name` (any letter case is fine) -/
def RegularRawClose (cfg : HS.Cfg) (toks : List HS.Token) : Prop :=
  ∀ t ∈ toks, HS.RawClose cfg t → HS.Tight t.value

theorem aligned_norm {cfg : HS.Cfg} {toks : List HS.Token} {parts : List String}
    (hal : Aligned (PartRelX cfg) toks parts) (hreg : RegularRawClose cfg toks) :
    (List.zipWith normPart toks parts).flatten = (toks.map normTok).flatten := by
  induction hal with
  | nil => rfl
  | @cons t p ts ps hr _ ih =>
    have ih' := ih (fun t ht => hreg t (List.mem_cons_of_mem _ ht))
    simp only [List.zipWith_cons_cons, List.flatten_cons, List.map_cons, ih']
    congr 1
    unfold normPart normTok
    rcases hr with rfl | ⟨hk, rfl⟩ | ⟨hk, hrc, hti, rfl⟩
    · simp
    · simp [hk, HS.squeeze_idem]
    · exact absurd (hreg t (by simp) hrc) hti

/-- **render_squeezeDoc (partial).**  Unless the source contains a closing tag of a raw-text element written with a
    blank inside `</name`, the output and the source of a `Plain` template agree after normalising the white space between the parts
    of every tag: the parts of the output, normalised token by token, concatenate to `squeezeDoc src`.
    (FULL STATEMENT, not proved here: `squeezeDoc cfg out = squeezeDoc cfg src` with the output RE-SCANNED by
    `squeezeDoc`; the document-level second scan — scanning the output cuts it into `parts` — is `HS.rescan_parts` in
    Proofs/DocRescan.lean, the per-tag step is `tokOut_fixed_point`; what is left is to put the two together, and the
    corner of `RegularRawClose`.) -/
theorem render_squeezeDoc_partial (cfg : Cfg) (fns : List (String × EV.FnSpec)) (idx : Nat) (name src : String) (m0 m : Mgr)
    (hinv : TplInv cfg m0.templates) (h : addFile cfg fns idx name src m0 = .ok m)
    (r : RN.Node) (hr : (envOf m).tpl name = some r) (hp : RN.Spec.Plain (rcfgOf cfg) r)
    (fuel : Nat) (sc : List EV.Val) (hf : (RN.execute (rcfgOf cfg) (envOf m) fuel r sc).st ≠ .fuel) :
    ∃ toks parts, HS.scan (scanCfg cfg) src.toList = .ok toks ∧ parts.length = toks.length ∧
      String.join (RN.execute (rcfgOf cfg) (envOf m) fuel r sc).out = String.join parts ∧
      (RegularRawClose (scanCfg cfg) toks →
        (List.zipWith normPart toks parts).flatten = squeezeDoc (scanCfg cfg) src.toList) := by
  obtain ⟨_, _, ⟨toks, parts, hs, _, hal, ho⟩, _⟩ := render_exact cfg fns idx name src m0 m hinv h r hr hp fuel sc hf
  refine ⟨toks, parts, hs, hal.length_eq.symm, ho, fun hreg => ?_⟩
  rw [aligned_norm hal hreg]
  simp [squeezeDoc, hs]

/-- **render_idempotent, token form (the re-printed form is a fixed point).**  For EVERY tag token `t` of a successful
    scan (closing tags of raw-text elements included, in any spelling): scanning the re-printed tag `tokOut t` on its
    own succeeds and yields exactly ONE token `t'`, a tag token with the same name and the same attribute names and
    values, whose text is `tokOut t` and which is re-printed identically: `tokOut t' = tokOut t`.
    (The document-level statement is `C01.render_idempotent` in Props/C01idem.lean.) -/
theorem tokOut_fixed_point (cfg : HS.Cfg) (src : List Char) (toks : List HS.Token)
    (h : HS.scan cfg src = .ok toks) (t : HS.Token) (ht : t ∈ toks) (hk : t.kind = .tag) :
    ∃ t', HS.scan cfg (tokOut t).toList = .ok [t'] ∧ t'.kind = .tag ∧ t'.value = (tokOut t).toList ∧
      HS.TagEq t t' ∧ tokOut t' = tokOut t := by
  obtain ⟨tg, t', htg, hs, hk', hv, heq⟩ := HS.tag_rescan cfg src toks h t ht hk
  have e' : (tokOut t).toList = HS.tagPrint tg := by rw [tokOut_toList, htg]
  refine ⟨t', by rw [e']; exact hs, hk', by rw [e']; exact hv, heq, ?_⟩
  obtain ⟨tg1, tg', h1, h2, h3⟩ := heq.print_eq
  rw [← String.toList_inj, tokOut_toList, tokOut_toList, h1, h2]
  exact h3

/-! ## non-vacuity (all checks by kernel evaluation) -/
namespace Example

/-- irregular white space inside tags (blanks, tab, newline; around `=`; before `>` and `/>`), valueless attributes,
    unquoted / single-quoted / double-quoted values (with blanks inside the quotes, an empty one), a quoted value
    directly followed by the next attribute, self-closing tags, upper-case names -/
def src : String :=
  "<P  CLASS = \"a  b\"\n id='x y'\tdata-k=v  hidden ><BR  />t<IMG src=a.png alt = \"\" /><i x=\"1\"y='2'z></i ></P\n>"

def toks : List HS.Token :=
  match HS.scan (scanCfg {}) src.toList with
  | .ok ts => ts
  | .error _ => []

set_option maxRecDepth 100000 in
theorem scan_ok : HS.scan (scanCfg {}) src.toList = .ok toks := by
  have h : (match HS.scan (scanCfg {}) src.toList with | .ok _ => true | .error _ => false) = true := by decide +kernel
  unfold toks
  cases hs : HS.scan (scanCfg {}) src.toList with
  | ok ts => rfl
  | error e => rw [hs] at h; cases h

/-- the squeezed token texts: only blanks between the parts of the tags changed (tab, newline and double blanks became
    one blank or nothing, `"1"y` became `"1" y`); blanks inside quotes, letter case, quotes are kept -/
def squeezed : List String :=
  toks.map (fun t => if t.kind = .tag then String.ofList (HS.squeeze t.value) else String.ofList t.value)

set_option maxRecDepth 100000 in
theorem squeezed_eq : squeezed =
    ["<P CLASS=\"a  b\" id='x y' data-k=v hidden>", "<BR />", "t", "<IMG src=a.png alt=\"\" />",
     "<i x=\"1\" y='2' z>", "</i>", "</P>"] := by decide +kernel

/-- `tokOut_eq_squeeze` applies to every tag token of this source, and says something non-trivial -/
example : ∀ t ∈ toks, t.kind = .tag → tokOut t = String.ofList (HS.squeeze t.value) := by
  intro t ht hk
  refine tokOut_eq_squeeze_regular _ _ _ scan_ok t ht hk ?_
  rintro ⟨n, ⟨x, hx, rfl⟩, _, hlow, _⟩
  -- no token of this source is the closing tag of a raw-text element
  have hall : toks.all (fun t => !(["</script>", "</style>", "</textarea>", "</title>"].contains
      (String.ofList (HS.lower (HS.nonSp t.value))))) = true := by decide +kernel
  have := List.all_eq_true.mp hall t ht
  rw [hlow] at this
  simp only [scanCfg, List.mem_map] at hx
  obtain ⟨y, hy, rfl⟩ := hx
  have hy' : y ∈ ["script", "style", "textarea", "title"] := hy
  simp only [List.mem_cons, List.not_mem_nil, or_false] at hy'
  exfalso
  rcases hy' with rfl | rfl | rfl | rfl <;> revert this <;> decide +kernel

/-- `tokOut_nonSp` on this source: for every tag token only white space differs -/
example : ∀ t ∈ toks, t.kind = .tag → HS.nonSp (tokOut t).toList = HS.nonSp t.value :=
  fun t ht hk => tokOut_nonSp _ _ _ scan_ok t ht hk

/-- `tokOut_fixed_point` applies to the first token of this source: re-scanning `tokOut` gives one tag token
    that is re-printed identically -/
example : ∃ t ∈ toks, t.kind = .tag ∧ tokOut t = "<P CLASS=\"a  b\" id='x y' data-k=v hidden>" ∧
    ∃ t', HS.scan (scanCfg {}) (tokOut t).toList = .ok [t'] ∧ tokOut t' = tokOut t := by
  have hh : (match toks.head? with
      | some t => t.kind == .tag && tokOut t == "<P CLASS=\"a  b\" id='x y' data-k=v hidden>"
      | none => false) = true := by decide +kernel
  cases hd : toks.head? with
  | none => rw [hd] at hh; cases hh
  | some t =>
    rw [hd] at hh
    simp only [Bool.and_eq_true, beq_iff_eq] at hh
    obtain ⟨hk, ho⟩ := hh
    have ht : t ∈ toks := List.mem_of_mem_head? hd
    obtain ⟨t', h1, _, _, _, h2⟩ := tokOut_fixed_point _ _ _ scan_ok t ht hk
    exact ⟨t, ht, hk, ho, t', h1, h2⟩

/-- rendered: start / void / self-closing tags squeezed, closing tags of open elements verbatim (`</i >`, `</P\n>`) -/
def demo : Bool :=
  match addFile {} [] 1 "t" src (emptyMgr {} []) with
  | .ok m =>
    match (envOf m).tpl "t" with
    | some r => RN.Spec.plainB (rcfgOf {}) r && EN.Example.runIs (RN.execute (rcfgOf {}) (envOf m) 100 r [])
        "<P CLASS=\"a  b\" id='x y' data-k=v hidden><BR />t<IMG src=a.png alt=\"\" /><i x=\"1\" y='2' z></i ></P\n>"
    | none => false
  | _ => false

set_option maxRecDepth 100000 in
theorem demo_true : demo = true := by decide +kernel

/-- the hypotheses of `render_exact` are satisfiable -/
example : ∃ m r, addFile {} [] 1 "t" src (emptyMgr {} []) = .ok m ∧ (envOf m).tpl "t" = some r ∧
    RN.Spec.Plain (rcfgOf {}) r ∧ (RN.execute (rcfgOf {}) (envOf m) 100 r []).st ≠ .fuel ∧
    ∃ toks parts, HS.scan (scanCfg {}) src.toList = .ok toks ∧ Aligned (PartRelX (scanCfg {})) toks parts ∧
      String.join (RN.execute (rcfgOf {}) (envOf m) 100 r []).out = String.join parts := by
  have h := demo_true
  unfold demo at h
  split at h
  · rename_i m hm
    split at h
    · rename_i r hr
      simp only [EN.Example.runIs, Bool.and_eq_true, decide_eq_true_eq] at h
      have hinv : TplInv {} (emptyMgr {} []).templates := by intro p hp; cases hp
      obtain ⟨_, _, ⟨toks, parts, h1, _, h2, h3⟩, _⟩ := render_exact _ _ _ _ _ _ _ hinv hm r hr h.1 100 [] h.2.1
      exact ⟨m, r, hm, hr, h.1, h.2.1, toks, parts, h1, h2, h3⟩
    · cases h
  · cases h

/-- THE FORMER DEFECT IS GONE (model = repaired Go code): a self-closed raw-text element followed by its closing tag
    written in upper case with a blank. The closing tag is stray (nothing is open), so it is re-printed from the
    recorded name — now the name AS WRITTEN: `</SCRIPT >` comes out as its squeezed text `</SCRIPT>` (it used to come out
    as `</script>`, a letter-case change). -/
def cornerSrc : String := "<script />x</SCRIPT >"

def cornerDemo : Bool :=
  match addFile {} [] 1 "t" cornerSrc (emptyMgr {} []) with
  | .ok m =>
    match (envOf m).tpl "t" with
    | some r => RN.Spec.plainB (rcfgOf {}) r && EN.Example.runIs (RN.execute (rcfgOf {}) (envOf m) 100 r [])
        "<script />x</SCRIPT>"
    | none => false
  | _ => false

set_option maxRecDepth 100000 in
theorem cornerDemo_true : cornerDemo = true := by decide +kernel

set_option maxRecDepth 100000 in
/-- the third token is the raw-text closing tag: text `</SCRIPT >`, squeezed and re-printed `</SCRIPT>` -/
example : (match HS.scan (scanCfg {}) cornerSrc.toList with
    | .ok [_, _, t] => String.ofList t.value == "</SCRIPT >" && String.ofList (HS.squeeze t.value) == "</SCRIPT>" &&
        tokOut t == "</SCRIPT>" && String.ofList (HS.nonSp t.value) == "</SCRIPT>"
    | _ => false) = true := by decide +kernel

/-- THE REMAINING CORNER (white space only): the closing tag written with a blank inside the name. `</SCR IPT >` is
    accepted by the scanner as the end tag (name `/SCRIPT`); when stray it is re-printed as `</SCRIPT>` = its text
    without white space, not its squeezed text `</SCR IPT>`. -/
def cornerSrc2 : String := "<script />x</SCR IPT >"

def cornerDemo2 : Bool :=
  match addFile {} [] 1 "t" cornerSrc2 (emptyMgr {} []) with
  | .ok m =>
    match (envOf m).tpl "t" with
    | some r => RN.Spec.plainB (rcfgOf {}) r && EN.Example.runIs (RN.execute (rcfgOf {}) (envOf m) 100 r [])
        "<script />x</SCRIPT>"
    | none => false
  | _ => false

set_option maxRecDepth 100000 in
theorem cornerDemo2_true : cornerDemo2 = true := by decide +kernel

set_option maxRecDepth 100000 in
example : (match HS.scan (scanCfg {}) cornerSrc2.toList with
    | .ok [_, _, t] => String.ofList t.value == "</SCR IPT >" && String.ofList (HS.squeeze t.value) == "</SCR IPT>" &&
        tokOut t == "</SCRIPT>" && String.ofList (HS.nonSp t.value) == "</SCRIPT>"
    | _ => false) = true := by decide +kernel

end Example

end C01
