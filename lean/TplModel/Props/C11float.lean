import TplModel.Proofs.FloatOps
import TplModel.Props.C11
/-! # C11 — comparison operators, FLOAT operands (`exp/visitor.go`: relOp, numEqual, relOp3[float64])

"`a != b` is the negation of `a == b`; for numeric operands exactly one of `a < b`, `a == b`, `a > b` holds and
`<=` / `>=` are the corresponding unions.  Whether two numbers are equal never depends on which Go integer type
carries them."  (Go / IEEE-754: with a NaN operand all of `<`, `<=`, `>`, `>=`, `==` are false and `!=` is true; the
trichotomy is for non-NaN operands.)

`Props/C11.lean` proves this for two integer-valued operands.  This file covers the remaining numeric case, the
FLOAT branch: both operands are numbers and at least one is a float32/float64; each operand is compared through its
float64 image (`EV.floatImage`: `float64(i)` for an integer operand, the value itself for a float operand).  The
model compares the IEEE-754 bit patterns of the images with `F64.eq/lt/le/gt/ge` (`TplModel/Exp/F64Cmp.lean`),
which the kernel can unfold, so the laws are proved

 * part 1: for ALL bit patterns `a b c : UInt64` (NaNs, infinities, zeros, subnormals included);
 * part 2: for the evaluator operator `EV.relOp fns op l r` run in an arbitrary state `st`, for ALL values `l r` in the
   float branch and ALL float images (`Float.ofInt`, `Float.toBits` stay opaque: nothing is assumed about them).

That `F64.*` are the hardware float64 comparisons is validated by execution (`TplModel/Exp/F64CmpTest.lean`) and, for
the shape of the definitions, by `eq_iff`, `lt_same_sign_pos`, `lt_same_sign_neg`, `lt_neg_pos` below.

OBLIGATIONS: C11F.ne_not_eq, C11F.nan_all_false, C11F.nan_ne_true, C11F.trichotomy, C11F.le_iff_lt_or_eq, C11F.ge_iff_gt_or_eq, C11F.gt_iff_lt_swap, C11F.ge_iff_le_swap, C11F.eq_symm, C11F.eq_refl_iff_not_nan, C11F.zeros_equal, C11F.lt_irrefl, C11F.lt_trans, C11F.lt_asymm, C11F.eq_trans, C11F.lt_of_lt_of_eq, C11F.lt_of_eq_of_lt, C11F.le_iff_not_gt, C11F.le_trans, C11F.le_antisymm, C11F.eq_iff, C11F.lt_same_sign_pos, C11F.lt_same_sign_neg, C11F.lt_neg_pos, C11F.lt_pos_neg, C11F.inf_greatest, C11F.float_matches, C11F.float_ne_is_not_eq, C11F.float_le_is_lt_or_eq, C11F.float_ge_is_gt_or_eq, C11F.float_trichotomy, C11F.float_nan_compares_false, C11F.float_eq_kind_independent, C11F.float_eq_kind_independent_right, C11F.float_eq_kind_independent_kinds, C11F.float_gt_is_lt_swapped, C11F.float_eq_symm -/
namespace C11F
open F64

/-! ## part 1: the laws on ALL bit patterns -/

section bits
variable (a b c : UInt64)

/-- `!=` is the negation of `==` (by definition) -/
theorem ne_not_eq : ne a b = !eq a b := rfl

/-- a NaN operand makes all five of `==`, `<`, `<=`, `>`, `>=` false … -/
theorem nan_all_false (h : isNaN a = true ∨ isNaN b = true) :
    eq a b = false ∧ lt a b = false ∧ le a b = false ∧ gt a b = false ∧ ge a b = false := by
  have ho : ordered a b = false := by
    rcases h with h | h <;> simp [ordered, h]
  simp [eq, lt, le, gt, ge, ho]

/-- … and `!=` true -/
theorem nan_ne_true (h : isNaN a = true ∨ isNaN b = true) : ne a b = true := by
  rw [ne_not_eq, (nan_all_false a b h).1]; rfl

private theorem ordered_of (ha : isNaN a = false) (hb : isNaN b = false) : ordered a b = true := by
  simp [ordered, ha, hb]

/-- without NaN operands exactly one of `<`, `==`, `>` is true -/
theorem trichotomy (ha : isNaN a = false) (hb : isNaN b = false) :
    (lt a b = true ∧ eq a b = false ∧ gt a b = false) ∨ (lt a b = false ∧ eq a b = true ∧ gt a b = false) ∨
      (lt a b = false ∧ eq a b = false ∧ gt a b = true) := by
  simp only [lt, eq, gt, ordered_of a b ha hb, Bool.true_and, decide_eq_true_iff, decide_eq_false_iff_not,
    beq_iff_eq, beq_eq_false_iff_ne, ne_eq]
  omega

/-- `<=` is the union of `<` and `==`: ALL patterns, NaNs included -/
theorem le_iff_lt_or_eq : le a b = (lt a b || eq a b) := by
  simp only [le, lt, eq]
  cases ordered a b
  · rfl
  · rw [Bool.eq_iff_iff]
    simp only [Bool.true_and, Bool.or_eq_true, decide_eq_true_iff, beq_iff_eq]
    omega

/-- `>=` is the union of `>` and `==`: ALL patterns, NaNs included -/
theorem ge_iff_gt_or_eq : ge a b = (gt a b || eq a b) := by
  simp only [ge, gt, eq]
  cases ordered a b
  · rfl
  · rw [Bool.eq_iff_iff]
    simp only [Bool.true_and, Bool.or_eq_true, decide_eq_true_iff, beq_iff_eq]
    omega

private theorem ordered_comm : ordered a b = ordered b a := by
  simp only [ordered, Bool.and_comm]

/-- `a > b` is `b < a` -/
theorem gt_iff_lt_swap : gt a b = lt b a := by
  simp only [gt, lt, ordered_comm a b]

/-- `a >= b` is `b <= a` -/
theorem ge_iff_le_swap : ge a b = le b a := by
  simp only [ge, le, ordered_comm a b]

theorem eq_symm : eq a b = eq b a := by
  simp only [eq, ordered_comm a b]
  cases ordered b a
  · rfl
  · rw [Bool.eq_iff_iff]
    simp only [Bool.true_and, beq_iff_eq]
    omega

/-- `x == x` fails exactly for NaN -/
theorem eq_refl_iff_not_nan : eq a a = !isNaN a := by
  simp only [eq, ordered, Bool.and_self, beq_self_eq_true, Bool.and_true]

/-- +0 == −0 -/
theorem zeros_equal : eq 0x0000000000000000 0x8000000000000000 = true := by decide

theorem lt_irrefl : lt a a = false := by
  simp [lt]

theorem lt_trans (h1 : lt a b = true) (h2 : lt b c = true) : lt a c = true := by
  simp only [lt, ordered, Bool.and_eq_true, Bool.not_eq_true', decide_eq_true_iff] at h1 h2 ⊢
  exact ⟨⟨h1.1.1, h2.1.2⟩, by omega⟩

theorem lt_asymm (h : lt a b = true) : lt b a = false := by
  simp only [lt, ordered, Bool.and_eq_true, Bool.not_eq_true', decide_eq_true_iff] at h
  simp only [lt, Bool.and_eq_false_iff, decide_eq_false_iff_not]
  right; omega

/-- `==` is transitive (a true `==` already excludes NaN operands, so no extra hypothesis is needed) -/
theorem eq_trans (h1 : eq a b = true) (h2 : eq b c = true) : eq a c = true := by
  simp only [eq, ordered, Bool.and_eq_true, Bool.not_eq_true', beq_iff_eq] at h1 h2 ⊢
  exact ⟨⟨h1.1.1, h2.1.2⟩, by omega⟩

/-- `<` is compatible with `==` on the right … -/
theorem lt_of_lt_of_eq (h1 : lt a b = true) (h2 : eq b c = true) : lt a c = true := by
  simp only [lt, eq, ordered, Bool.and_eq_true, Bool.not_eq_true', beq_iff_eq, decide_eq_true_iff] at h1 h2 ⊢
  exact ⟨⟨h1.1.1, h2.1.2⟩, by omega⟩

/-- … and on the left -/
theorem lt_of_eq_of_lt (h1 : eq a b = true) (h2 : lt b c = true) : lt a c = true := by
  simp only [lt, eq, ordered, Bool.and_eq_true, Bool.not_eq_true', beq_iff_eq, decide_eq_true_iff] at h1 h2 ⊢
  exact ⟨⟨h1.1.1, h2.1.2⟩, by omega⟩

/-- without NaN operands `<=` is the negation of `>` (total order) -/
theorem le_iff_not_gt (ha : isNaN a = false) (hb : isNaN b = false) : le a b = !gt a b := by
  simp only [le, gt, ordered_of a b ha hb, Bool.true_and]
  rw [Bool.eq_iff_iff]
  simp only [Bool.not_eq_true', decide_eq_true_iff, decide_eq_false_iff_not]
  omega

theorem le_trans (h1 : le a b = true) (h2 : le b c = true) : le a c = true := by
  simp only [le, ordered, Bool.and_eq_true, Bool.not_eq_true', decide_eq_true_iff] at h1 h2 ⊢
  exact ⟨⟨h1.1.1, h2.1.2⟩, by omega⟩

theorem le_antisymm (h1 : le a b = true) (h2 : le b a = true) : eq a b = true := by
  simp only [le, eq, ordered, Bool.and_eq_true, Bool.not_eq_true', decide_eq_true_iff, beq_iff_eq] at h1 h2 ⊢
  exact ⟨h1.1, by omega⟩

/-! ### what the definitions say on the patterns (validation of `key`) -/

/-- `==`: no NaN, and the same pattern or the two zeros -/
theorem eq_iff : eq a b = true ↔
    isNaN a = false ∧ isNaN b = false ∧ (a = b ∨ (isZero a = true ∧ isZero b = true)) := by
  simp only [eq, ordered, Bool.and_eq_true, Bool.not_eq_true', beq_iff_eq, key_eq_key_iff]
  exact ⟨fun ⟨⟨h1, h2⟩, h3⟩ => ⟨h1, h2, h3⟩, fun ⟨h1, h2, h3⟩ => ⟨⟨h1, h2⟩, h3⟩⟩

private theorem toNat_lt_iff : a < b ↔ a.toNat < b.toNat := UInt64.lt_iff_toNat_lt

/-- two non-negative non-NaN patterns compare like the unsigned integers they are -/
theorem lt_same_sign_pos (ha : isNaN a = false) (hb : isNaN b = false) (sa : sign a = false) (sb : sign b = false) :
    lt a b = decide (a < b) := by
  have h1 := toNat_eq a; have h2 := toNat_eq b
  simp only [sa, sb, Bool.false_eq_true, if_false] at h1 h2
  simp only [lt, ordered_of a b ha hb, Bool.true_and, key, sa, sb, Bool.false_eq_true, if_false, toNat_lt_iff]
  rw [Bool.eq_iff_iff]; simp only [decide_eq_true_iff]; omega

/-- two negative non-NaN patterns compare in the reverse order of the unsigned integers -/
theorem lt_same_sign_neg (ha : isNaN a = false) (hb : isNaN b = false) (sa : sign a = true) (sb : sign b = true) :
    lt a b = decide (b < a) := by
  have h1 := toNat_eq a; have h2 := toNat_eq b
  simp only [sa, sb, if_true] at h1 h2
  simp only [lt, ordered_of a b ha hb, Bool.true_and, key, sa, sb, if_true, toNat_lt_iff]
  rw [Bool.eq_iff_iff]; simp only [decide_eq_true_iff]; omega

/-- a negative pattern is below a non-negative one, except −0 against +0 -/
theorem lt_neg_pos (ha : isNaN a = false) (hb : isNaN b = false) (sa : sign a = true) (sb : sign b = false) :
    lt a b = !(isZero a && isZero b) := by
  simp only [lt, ordered_of a b ha hb, Bool.true_and, key, sa, sb, if_true, Bool.false_eq_true, if_false, isZero]
  rw [Bool.eq_iff_iff]
  simp only [decide_eq_true_iff, Bool.not_eq_true', Bool.and_eq_false_iff, beq_eq_false_iff_ne, ne_eq]
  omega

/-- a non-negative pattern is never below a negative one -/
theorem lt_pos_neg (sa : sign a = false) (sb : sign b = true) : lt a b = false := by
  simp only [lt, key, sa, sb, if_true, Bool.false_eq_true, if_false, Bool.and_eq_false_iff, decide_eq_false_iff_not]
  right; omega

/-- +Inf is above and −Inf below every non-NaN pattern -/
theorem inf_greatest (ha : isNaN a = false) :
    le a 0x7FF0000000000000 = true ∧ le 0xFFF0000000000000 a = true := by
  have hn : ¬ (0x7FF0000000000000 < mag a) := by
    rw [← isNaN_iff_mag, ha]; simp
  have h1 : isNaN 0x7FF0000000000000 = false := by decide
  have h2 : isNaN 0xFFF0000000000000 = false := by decide
  have k1 : key 0x7FF0000000000000 = 0x7FF0000000000000 := by decide
  have k2 : key 0xFFF0000000000000 = -0x7FF0000000000000 := by decide
  have hk : key a ≤ 0x7FF0000000000000 ∧ -0x7FF0000000000000 ≤ key a := by
    unfold key; split <;> omega
  unfold le ordered
  rw [ha, h1, h2, k1, k2]
  simp only [Bool.not_false, Bool.and_self, Bool.true_and, decide_eq_true_iff]
  exact hk

end bits

/-! ## part 2: the evaluator operator `EV.relOp` in the float branch

Float branch = both operands are numbers (`floatImage … = some …`) and not both are integers (`hmix`).  The results are
stated for an arbitrary state `st`, which is returned unchanged; nothing in the float branch errs or panics. -/

section eval
open EV
variable (fns : List (String × FnSpec)) {l r : Val} {fa fb : Float}

/-- the six operators compute `F64.eq/ne/lt/le/gt/ge` of the bit patterns of the two float images -/
theorem float_matches (hmix : isInt l = none ∨ isInt r = none)
    (hl : floatImage l = some fa) (hr : floatImage r = some fb) (st : St) :
    (relOp fns "==" l r).run st = .ok (.bool (F64.eq fa.toBits fb.toBits), st) ∧
    (relOp fns "!=" l r).run st = .ok (.bool (F64.ne fa.toBits fb.toBits), st) ∧
    (relOp fns "<" l r).run st = .ok (.bool (F64.lt fa.toBits fb.toBits), st) ∧
    (relOp fns "<=" l r).run st = .ok (.bool (F64.le fa.toBits fb.toBits), st) ∧
    (relOp fns ">" l r).run st = .ok (.bool (F64.gt fa.toBits fb.toBits), st) ∧
    (relOp fns ">=" l r).run st = .ok (.bool (F64.ge fa.toBits fb.toBits), st) :=
  ⟨relOp_float_run hmix hl hr st, relOp_float_run hmix hl hr st, relOp_float_run hmix hl hr st,
   relOp_float_run hmix hl hr st, relOp_float_run hmix hl hr st, relOp_float_run hmix hl hr st⟩

/-- `!=` yields the negation of what `==` yields -/
theorem float_ne_is_not_eq (hmix : isInt l = none ∨ isInt r = none)
    (hl : floatImage l = some fa) (hr : floatImage r = some fb) (st : St) :
    ∃ x : Bool, (relOp fns "==" l r).run st = .ok (.bool x, st) ∧
      (relOp fns "!=" l r).run st = .ok (.bool (!x), st) := by
  obtain ⟨h1, h2, -⟩ := float_matches fns hmix hl hr st
  exact ⟨_, h1, h2⟩

/-- `<=` is the union of `<` and `==` (NaN images included) -/
theorem float_le_is_lt_or_eq (hmix : isInt l = none ∨ isInt r = none)
    (hl : floatImage l = some fa) (hr : floatImage r = some fb) (st : St) :
    ∃ x y : Bool,
      (relOp fns "<" l r).run st = .ok (.bool x, st) ∧
      (relOp fns "==" l r).run st = .ok (.bool y, st) ∧
      (relOp fns "<=" l r).run st = .ok (.bool (x || y), st) := by
  obtain ⟨h1, -, h3, h4, -, -⟩ := float_matches fns hmix hl hr st
  refine ⟨_, _, h3, h1, ?_⟩
  rw [h4, le_iff_lt_or_eq]

/-- `>=` is the union of `>` and `==` (NaN images included) -/
theorem float_ge_is_gt_or_eq (hmix : isInt l = none ∨ isInt r = none)
    (hl : floatImage l = some fa) (hr : floatImage r = some fb) (st : St) :
    ∃ x y : Bool,
      (relOp fns ">" l r).run st = .ok (.bool x, st) ∧
      (relOp fns "==" l r).run st = .ok (.bool y, st) ∧
      (relOp fns ">=" l r).run st = .ok (.bool (x || y), st) := by
  obtain ⟨h1, -, -, -, h5, h6⟩ := float_matches fns hmix hl hr st
  refine ⟨_, _, h5, h1, ?_⟩
  rw [h6, ge_iff_gt_or_eq]

/-- when neither image is a NaN exactly one of `<`, `==`, `>` yields `true` (the other two yield `false`) -/
theorem float_trichotomy (hmix : isInt l = none ∨ isInt r = none)
    (hl : floatImage l = some fa) (hr : floatImage r = some fb)
    (ha : F64.isNaN fa.toBits = false) (hb : F64.isNaN fb.toBits = false) (st : St) :
    ∃ lt eq gt : Bool,
      (relOp fns "<" l r).run st = .ok (.bool lt, st) ∧
      (relOp fns "==" l r).run st = .ok (.bool eq, st) ∧
      (relOp fns ">" l r).run st = .ok (.bool gt, st) ∧
      ((lt = true ∧ eq = false ∧ gt = false) ∨ (lt = false ∧ eq = true ∧ gt = false) ∨
        (lt = false ∧ eq = false ∧ gt = true)) := by
  obtain ⟨h1, -, h3, -, h5, -⟩ := float_matches fns hmix hl hr st
  exact ⟨_, _, _, h3, h1, h5, trichotomy _ _ ha hb⟩

/-- when an image is a NaN all of `<`, `<=`, `>`, `>=`, `==` yield `false` and `!=` yields `true` -/
theorem float_nan_compares_false (hmix : isInt l = none ∨ isInt r = none)
    (hl : floatImage l = some fa) (hr : floatImage r = some fb)
    (hn : F64.isNaN fa.toBits = true ∨ F64.isNaN fb.toBits = true) (st : St) :
    (relOp fns "<" l r).run st = .ok (.bool false, st) ∧
    (relOp fns "<=" l r).run st = .ok (.bool false, st) ∧
    (relOp fns ">" l r).run st = .ok (.bool false, st) ∧
    (relOp fns ">=" l r).run st = .ok (.bool false, st) ∧
    (relOp fns "==" l r).run st = .ok (.bool false, st) ∧
    (relOp fns "!=" l r).run st = .ok (.bool true, st) := by
  obtain ⟨h1, h2, h3, h4, h5, h6⟩ := float_matches fns hmix hl hr st
  obtain ⟨e1, e2, e3, e4, e5⟩ := nan_all_false _ _ hn
  rw [e1] at h1; rw [nan_ne_true _ _ hn] at h2; rw [e2] at h3; rw [e3] at h4; rw [e4] at h5; rw [e5] at h6
  exact ⟨h3, h4, h5, h6, h1, h2⟩

/-- `a > b` yields what `b < a` yields, `a == b` what `b == a` yields -/
theorem float_gt_is_lt_swapped (hmix : isInt l = none ∨ isInt r = none)
    (hl : floatImage l = some fa) (hr : floatImage r = some fb) (st : St) :
    ∃ x : Bool, (relOp fns ">" l r).run st = .ok (.bool x, st) ∧ (relOp fns "<" r l).run st = .ok (.bool x, st) := by
  obtain ⟨-, -, -, -, h5, -⟩ := float_matches fns hmix hl hr st
  obtain ⟨-, -, h3, -⟩ := float_matches fns hmix.symm hr hl st
  refine ⟨_, h5, ?_⟩
  rw [h3, gt_iff_lt_swap]

theorem float_eq_symm (hmix : isInt l = none ∨ isInt r = none)
    (hl : floatImage l = some fa) (hr : floatImage r = some fb) (st : St) :
    ∃ x : Bool, (relOp fns "==" l r).run st = .ok (.bool x, st) ∧ (relOp fns "==" r l).run st = .ok (.bool x, st) := by
  obtain ⟨h1, -⟩ := float_matches fns hmix hl hr st
  obtain ⟨h1', -⟩ := float_matches fns hmix.symm hr hl st
  refine ⟨_, h1, ?_⟩
  rw [h1', eq_symm]

/-- Kind independence against a float: two integer operands with the same int64 value (of ANY of the ten kinds) give
    the same result, for every operator, against a given float operand on the right … -/
theorem float_eq_kind_independent {l l' r : Val} {a : Int} {fb : Float} (op : String)
    (hl : isInt l = some a) (hl' : isInt l' = some a) (hr : isFloat r = some fb) :
    relOp fns op l r = relOp fns op l' r := by
  have hmix : ∀ x : Val, isInt x = none ∨ isInt r = none := fun _ => .inr (isInt_none_of_isFloat hr)
  rw [relOp_float (hmix l) (floatImage_of_isInt hl) (floatImage_of_isFloat hr),
    relOp_float (hmix l') (floatImage_of_isInt hl') (floatImage_of_isFloat hr)]

/-- … and on the left -/
theorem float_eq_kind_independent_right {l r r' : Val} {b : Int} {fa : Float} (op : String)
    (hl : isFloat l = some fa) (hr : isInt r = some b) (hr' : isInt r' = some b) :
    relOp fns op l r = relOp fns op l r' := by
  have hmix : ∀ x : Val, isInt l = none ∨ isInt x = none := fun _ => .inl (isInt_none_of_isFloat hl)
  rw [relOp_float (hmix r) (floatImage_of_isFloat hl) (floatImage_of_isInt hr),
    relOp_float (hmix r') (floatImage_of_isFloat hl) (floatImage_of_isInt hr')]

/-- explicit form: the same mathematical integer `v` (representable in int64, the property's domain) carried by ANY
    two of the ten kinds compares the same way against a float64 `x`, e.g. `int8(1) == 1.0` iff `uint64(1) == 1.0`;
    the common result is the comparison of `float64(v)` with `x`. -/
theorem float_eq_kind_independent_kinds (k₁ k₂ : IK) (v : Int) (hv : inI64 v) (x : Float) (st : St) :
    (relOp fns "==" (.int k₁ v) (.f64 x)).run st = .ok (.bool (F64.eq (Float.ofInt v).toBits x.toBits), st) ∧
    (relOp fns "==" (.int k₂ v) (.f64 x)).run st = .ok (.bool (F64.eq (Float.ofInt v).toBits x.toBits), st) := by
  have hw : wrap64 v = v := by
    obtain ⟨h1, h2⟩ := hv
    rw [wrap64_spec]; omega
  have h (k : IK) : isInt (.int k v) = some v := by
    rw [isInt_int]; split <;> simp [hw]
  exact ⟨(float_matches fns (.inr rfl) (floatImage_of_isInt (h k₁)) (floatImage_f64 x) st).1,
    (float_matches fns (.inr rfl) (floatImage_of_isInt (h k₂)) (floatImage_f64 x) st).1⟩

end eval

/-! ## examples and non-vacuity -/

section examples
open EV

-- part 1, literal patterns (the kernel evaluates these)
example : isNaN 0x7FF8000000000000 = true ∧ isNaN 0xFFF0000000000001 = true ∧ isNaN 0x7FF0000000000000 = false ∧
    isNaN 0x3FF0000000000000 = false ∧ isNaN 0x8000000000000000 = false := by decide
-- 1.0 vs 2.0; −1.0 vs 1.0; −2.0 vs −1.0; subnormal vs 0; −Inf vs −MaxFloat64
example : lt 0x3FF0000000000000 0x4000000000000000 = true ∧ lt 0xBFF0000000000000 0x3FF0000000000000 = true ∧
    lt 0xC000000000000000 0xBFF0000000000000 = true ∧ lt 0x0000000000000000 0x0000000000000001 = true ∧
    lt 0xFFF0000000000000 0xFFEFFFFFFFFFFFFF = true := by decide
-- 0.1 + 0.2 = 0x3FD3333333333334 > 0.3 = 0x3FD3333333333333
example : gt 0x3FD3333333333334 0x3FD3333333333333 = true ∧ eq 0x3FD3333333333334 0x3FD3333333333333 = false := by
  decide
-- NaN against itself and against 1.0
example : eq 0x7FF8000000000000 0x7FF8000000000000 = false ∧ ne 0x7FF8000000000000 0x7FF8000000000000 = true ∧
    le 0x7FF8000000000000 0x3FF0000000000000 = false ∧ ge 0x7FF8000000000000 0x3FF0000000000000 = false := by decide
-- −0 vs +0: equal, neither below the other
example : eq 0x8000000000000000 0x0000000000000000 = true ∧ lt 0x8000000000000000 0x0000000000000000 = false ∧
    le 0x8000000000000000 0x0000000000000000 = true := by decide
-- the hypotheses of `trichotomy`, `lt_trans`, `eq_trans`, `lt_of_lt_of_eq`, `nan_all_false` on concrete patterns
example : (lt 0xBFF0000000000000 0x3FF0000000000000 = true ∧ eq 0xBFF0000000000000 0x3FF0000000000000 = false ∧
      gt 0xBFF0000000000000 0x3FF0000000000000 = false) ∨
    (lt 0xBFF0000000000000 0x3FF0000000000000 = false ∧ eq 0xBFF0000000000000 0x3FF0000000000000 = true ∧
      gt 0xBFF0000000000000 0x3FF0000000000000 = false) ∨
    (lt 0xBFF0000000000000 0x3FF0000000000000 = false ∧ eq 0xBFF0000000000000 0x3FF0000000000000 = false ∧
      gt 0xBFF0000000000000 0x3FF0000000000000 = true) :=
  trichotomy 0xBFF0000000000000 0x3FF0000000000000 (by decide) (by decide)
example : lt 0xBFF0000000000000 0x4000000000000000 = true :=
  lt_trans 0xBFF0000000000000 0x3FF0000000000000 0x4000000000000000 (by decide) (by decide)
example : lt 0xBFF0000000000000 0x8000000000000000 = true :=
  lt_of_lt_of_eq 0xBFF0000000000000 0x0000000000000000 0x8000000000000000 (by decide) (by decide)
example : eq 0x8000000000000000 0x8000000000000000 = true :=
  eq_trans 0x8000000000000000 0x0000000000000000 0x8000000000000000 (by decide) (by decide)
example : le 0x7FF8000000000000 0x3FF0000000000000 = false :=
  (nan_all_false 0x7FF8000000000000 0x3FF0000000000000 (.inl (by decide))).2.2.1

-- part 2: the hypotheses hold for every float operand, and for mixed integer/float operands
example (x y : Float) : (isInt (Val.f64 x) = none ∨ isInt (Val.f32 y) = none) ∧
    floatImage (.f64 x) = some x ∧ floatImage (.f32 y) = some y := ⟨.inl rfl, rfl, rfl⟩
example (y : Float) : (isInt (Val.int .uint8 200) = none ∨ isInt (Val.f64 y) = none) ∧
    floatImage (.int .uint8 200) = some (Float.ofInt 200) ∧ floatImage (.f64 y) = some y :=
  ⟨.inr rfl, floatImage_of_isInt (by decide), rfl⟩
-- `float64 <= float32`, operands built from bit patterns
example (st : St) : ∃ x y : Bool,
    (relOp [] "<" (.f64 (Float.ofBits 0x3FD3333333333334)) (.f32 (Float.ofBits 0x3FD3333333333333))).run st
      = .ok (.bool x, st) ∧
    (relOp [] "==" (.f64 (Float.ofBits 0x3FD3333333333334)) (.f32 (Float.ofBits 0x3FD3333333333333))).run st
      = .ok (.bool y, st) ∧
    (relOp [] "<=" (.f64 (Float.ofBits 0x3FD3333333333334)) (.f32 (Float.ofBits 0x3FD3333333333333))).run st
      = .ok (.bool (x || y), st) :=
  float_le_is_lt_or_eq [] (.inl rfl) rfl rfl st
-- `int16 >= float64`
example (x : Float) (st : St) : ∃ g e : Bool,
    (relOp [] ">" (.int .int16 (-3)) (.f64 x)).run st = .ok (.bool g, st) ∧
    (relOp [] "==" (.int .int16 (-3)) (.f64 x)).run st = .ok (.bool e, st) ∧
    (relOp [] ">=" (.int .int16 (-3)) (.f64 x)).run st = .ok (.bool (g || e), st) :=
  float_ge_is_gt_or_eq [] (.inr rfl) (floatImage_of_isInt (a := -3) (by decide)) rfl st
-- int8(7) and uint32(7) compare the same way against any float64, for every operator
example (x : Float) (op : String) : relOp [] op (.int .int8 7) (.f64 x) = relOp [] op (.int .uint32 7) (.f64 x) :=
  float_eq_kind_independent [] op (a := 7) (by decide) (by decide) rfl
-- … and so do uint64(2^64-1) and int(-1) (the lossy uint64 conversion of IsInt)
example (x : Float) (op : String) :
    relOp [] op (.f32 x) (.int .uint64 (2^64 - 1)) = relOp [] op (.f32 x) (.int .int (-1)) :=
  float_eq_kind_independent_right [] op (b := -1) rfl (by decide) (by decide)
-- NaN-ness of an image is a property of its pattern: any float whose pattern is a NaN pattern compares false
example (x y : Float) (hx : x.toBits = 0x7FF8000000000000) (st : St) :
    (relOp [] "==" (.f64 x) (.f64 y)).run st = .ok (.bool false, st) ∧
    (relOp [] "!=" (.f64 x) (.f64 y)).run st = .ok (.bool true, st) :=
  have h := float_nan_compares_false [] (l := .f64 x) (r := .f64 y) (.inl rfl) rfl rfl (.inl (by rw [hx]; decide)) st
  ⟨h.2.2.2.2.1, h.2.2.2.2.2⟩
-- trichotomy for any two floats with the patterns of 1.0 and 2.0
example (x y : Float) (hx : x.toBits = 0x3FF0000000000000) (hy : y.toBits = 0x4000000000000000) (st : St) :
    ∃ lt eq gt : Bool,
      (relOp [] "<" (.f64 x) (.f64 y)).run st = .ok (.bool lt, st) ∧
      (relOp [] "==" (.f64 x) (.f64 y)).run st = .ok (.bool eq, st) ∧
      (relOp [] ">" (.f64 x) (.f64 y)).run st = .ok (.bool gt, st) ∧
      ((lt = true ∧ eq = false ∧ gt = false) ∨ (lt = false ∧ eq = true ∧ gt = false) ∨
        (lt = false ∧ eq = false ∧ gt = true)) :=
  float_trichotomy [] (.inl rfl) rfl rfl (by rw [hx]; decide) (by rw [hy]; decide) st

end examples

end C11F
