import TplModel.Proofs.LoaderSafety
import TplModel.Proofs.CodeScanReject
/-! # C10 at the level of the LOADER — a directive value is interpreted in full or rejected when the file is loaded

Models (unchanged): `EN.compileParts`, `EN.compileAttrS`, … `EN.addFile`, `EN.loadFiles` (TplModel/Html/Engine.lean;
`html/scan_html.go` `compileAttr`, `html/scan_code.go` `compile`, `html/manager.go` `Add`), `CS.scan`
(`CodeScanner.GetAllTokens`), `EL.parseCode` (`exp.ParseCode`).  Helper lemmas: TplModel/Proofs/LoaderSafety.lean.

* `compileParts_ok_iff`, `compileAttr_ok_iff` — exact characterisation of a successful compilation of a directive
  attribute: the code scanner accepts the value AND every `${…}` block text `s` has `ParseCode s = accept e`; the `e`
  are appended to the expression table in order, the `i`-th block is stored as `.code (size + i)`, literal parts are
  kept verbatim and in order.
* `loaded_attr_parts`, `loaded_blocks_consumed` — in every loaded manager every compiled part of every attribute of
  every node of every template (file roots and fragments) is, token by token, the literal verbatim or an index into the
  manager's expression table whose entry is the FULL parse of the block's source text; with
  `C10.parseCode_consumes_all`: nothing after a complete expression was dropped.
* `addFile_ok_values`, `addFile_err_of_bad`, and the rejection corollaries (`addFile_rejects_*`) — a file with one
  directive value that the code scanner does not accept, or with one block that `ParseCode` rejects, is a load ERROR.

The block's source text cannot be read off the compiled attribute alone (a `CAttr` keeps the value and the parts but
not the start position of the value); positions do not influence token *values*, so the stored-side theorems say
"there is a start position such that the scan of the stored value at that position …" (`AttrInv`); the input-side
theorems (`compileAttr_ok_iff`, `addFile_ok_values`) use the actual position `a.valueStart`. -/
namespace C10L
open EN
open RN (CAttr Part NodeD Node)

/-! ## 1. one attribute -/

/-- **compileParts_ok_iff** (input side, on the code scanner's tokens). -/
theorem compileParts_ok_iff (toks : List CS.CTok) (tbl tbl' : Tbl) (parts : List Part) :
    compileParts toks tbl = (.ok parts, tbl') ↔
      ∃ es, Aligned Accepts (blockTexts toks) es ∧ tbl' = tbl ++ es ∧ parts = partsFrom tbl.size toks :=
  EN.compileParts_ok_iff toks tbl tbl' parts

/-- **compileAttr_ok_iff.** For an attribute whose name carries the directive prefix and which has a value `v` (as
    `compileAttr` sees it: the written value, or `"true"` for a bare `:else`): it compiles iff the code scanner accepts
    `v` AND every `${…}` block text `s` satisfies `ParseCode s = accept e`; the `es` are appended to the table in
    order (`tbl' = tbl ++ es`), block `i` is stored as `.code (tbl.size + i)` and literals are kept verbatim, in order
    (`partsFrom`). -/
theorem compileAttr_ok_iff (cfg : Cfg) (a : HS.Attr) (v : List Char) (tbl tbl' : Tbl) (ca : CAttr)
    (hdir : (String.ofList a.name).startsWith cfg.attrPrefix = true) (hv : attrValueOf cfg a = some v) :
    compileAttrS cfg a tbl = (.ok ca, tbl') ↔
      CS.Succ (CS.scan a.valueStart v) ∧
      ∃ es, Aligned Accepts (blockTexts (CS.scan a.valueStart v)) es ∧ tbl' = tbl ++ es ∧
        ca = ⟨String.ofList a.name, some (String.ofList v), partsFrom tbl.size (CS.scan a.valueStart v)⟩ :=
  compileAttrS_dir_ok_iff cfg a v tbl tbl' ca hdir hv

/-- the same in the loader monad -/
theorem compileAttr_run_ok_iff (cfg : Cfg) (a : HS.Attr) (v : List Char) (tbl tbl' : Tbl) (ca : CAttr)
    (hdir : (String.ofList a.name).startsWith cfg.attrPrefix = true) (hv : attrValueOf cfg a = some v) :
    (compileAttr cfg a).run tbl = (.ok ca, tbl') ↔
      CS.Succ (CS.scan a.valueStart v) ∧
      ∃ es, Aligned Accepts (blockTexts (CS.scan a.valueStart v)) es ∧ tbl' = tbl ++ es ∧
        ca = ⟨String.ofList a.name, some (String.ofList v), partsFrom tbl.size (CS.scan a.valueStart v)⟩ :=
  compileAttrS_dir_ok_iff cfg a v tbl tbl' ca hdir hv

/-- what `partsFrom` and `tbl ++ es` say part by part: token `t` of the value and the part compiled from it -/
theorem compileAttr_parts (cfg : Cfg) (a : HS.Attr) (v : List Char) (tbl tbl' : Tbl) (ca : CAttr)
    (hdir : (String.ofList a.name).startsWith cfg.attrPrefix = true) (hv : attrValueOf cfg a = some v)
    (h : compileAttrS cfg a tbl = (.ok ca, tbl')) :
    Aligned (PartOK tbl') (CS.scan a.valueStart v) ca.parts := by
  obtain ⟨_, es, hal, h1, h2⟩ := (compileAttr_ok_iff cfg a v tbl tbl' ca hdir hv).1 h
  rw [h2, h1]; exact partsFrom_aligned _ _ _ hal

/-- an attribute without the prefix or without a value compiles nothing and is stored as written -/
theorem compileAttr_plain (cfg : Cfg) (a : HS.Attr) (tbl : Tbl)
    (h : (String.ofList a.name).startsWith cfg.attrPrefix = false ∨ attrValueOf cfg a = none) :
    compileAttrS cfg a tbl = (.ok ⟨String.ofList a.name, (attrValueOf cfg a).map String.ofList, []⟩, tbl) :=
  compileAttrS_plain cfg a tbl h

/-! ## 2. every loaded manager -/

/-- **loaded_attr_parts.** In every loaded manager, every attribute `ca` of every node `d` of every registered template
    (file roots and fragments) either has no compiled parts, or is a directive with a value `s` that the code scanner
    accepts and whose parts are — token by token, in order, nothing dropped — the literals verbatim and, for each
    `${…}` block, an index into the manager's expression table holding the full parse of that block's text. -/
theorem loaded_attr_parts (cfg : Cfg) (fns : List (String × EV.FnSpec)) (files : List (String × String)) (m : Mgr)
    (h : loadFiles cfg fns files = .ok m) :
    ∀ p ∈ m.templates, ∀ d, Sum.inl d ∈ flatD p.2 → ∀ ca ∈ d.attrs,
      ca.parts = [] ∨
      ∃ s start, ca.value = some s ∧ ca.name.startsWith cfg.attrPrefix = true ∧ CS.Succ (CS.scan start s.toList) ∧
        Aligned (PartOK m.cx.exprs) (CS.scan start s.toList) ca.parts :=
  fun p hp d hd ca hca => loadFiles_regInv cfg fns files m h p hp d hd ca hca

/-- **loaded_blocks_consumed.** In every loaded manager, every `.code k` part of every attribute of every template
    refers to a table entry `e` (the one the evaluator reads: `m.cx.exprs[k]!`) that is the FULL parse of the source
    text of a `${…}` block of that attribute's value: `ParseCode` accepted the text, and by
    `C10.parseCode_consumes_all` the expression consumed all of its tokens except at most one trailing non-`;` `EOS`,
    with no unlexable rest — nothing after a complete expression was dropped. -/
theorem loaded_blocks_consumed (cfg : Cfg) (fns : List (String × EV.FnSpec)) (files : List (String × String)) (m : Mgr)
    (h : loadFiles cfg fns files = .ok m) :
    ∀ p ∈ m.templates, ∀ d, Sum.inl d ∈ flatD p.2 → ∀ ca ∈ d.attrs, ∀ k, Part.code k ∈ ca.parts →
      ∃ s start ct e, ca.value = some s ∧ ca.name.startsWith cfg.attrPrefix = true ∧
        CS.Succ (CS.scan start s.toList) ∧ ct ∈ CS.scan start s.toList ∧ ct.kind = .codeValue ∧
        m.cx.exprs[k]? = some e ∧ m.cx.exprs[k]! = e ∧
        EL.parseCode (String.ofList ct.value) = .accept e ∧
        ∃ ts consumed tail, EL.lex (String.ofList ct.value) = .ok ts ∧ ts = consumed ++ tail ∧
          EL.expr (4 * ts.length + 8) 0 ts = some (e, tail) ∧
          (tail = [] ∨ ∃ t, t ≠ ";" ∧ tail = [.eos t]) ∧ EL.Tok.lexerr ∉ ts := by
  intro p hp d hd ca hca k hk
  rcases loaded_attr_parts cfg fns files m h p hp d hd ca hca with h0 | ⟨s, start, h1, h2, h3, h4⟩
  · rw [h0] at hk; cases hk
  · obtain ⟨ct, hct, hok⟩ := h4.mem_right hk
    unfold PartOK at hok
    cases hkind : ct.kind <;> simp only [hkind] at hok <;> try (cases hok; done)
    obtain ⟨k', e, hk', he, hacc⟩ := hok
    cases hk'
    refine ⟨s, start, ct, e, h1, h2, h3, hct, hkind, he, ?_, hacc, C10.parseCode_consumes_all _ _ hacc⟩
    rw [getElem!_def, he]

/-! ## 3. a file with a bad directive value is a load error -/

/-- membership in `dirVals` spelled out: `(start, v)` is the position and the text (as `compileAttr` sees it) of the
    value of a prefixed attribute of a tag token -/
theorem mem_dirVals {cfg : Cfg} {toks : List HS.Token} {p : HS.Pos × List Char} :
    p ∈ dirVals cfg toks ↔
      ∃ t ∈ toks, t.kind = .tag ∧ ∃ tg, t.tag = some tg ∧ ∃ a ∈ tg.attrs,
        (String.ofList a.name).startsWith cfg.attrPrefix = true ∧ attrValueOf cfg a = some p.2 ∧ a.valueStart = p.1 := by
  have hattr : ∀ a : HS.Attr, attrDirVal cfg a = some p ↔
      ((String.ofList a.name).startsWith cfg.attrPrefix = true ∧ attrValueOf cfg a = some p.2 ∧ a.valueStart = p.1) := by
    intro a
    unfold attrDirVal
    by_cases hd : (String.ofList a.name).startsWith cfg.attrPrefix = true
    · simp only [hd, if_true, true_and]
      cases hv : attrValueOf cfg a with
      | none => simp
      | some v =>
        simp only [Option.map_some, Option.some.injEq]
        constructor
        · rintro rfl; exact ⟨rfl, rfl⟩
        · rintro ⟨h1, h2⟩; exact Prod.ext h2 h1
    · simp [hd]
  simp only [dirVals, List.mem_flatMap]
  constructor
  · rintro ⟨t, ht, hp⟩
    unfold tokDirVals at hp
    split at hp
    · rename_i tg hk htag
      obtain ⟨a, ha, hav⟩ := List.mem_filterMap.mp hp
      exact ⟨t, ht, hk, tg, htag, a, ha, (hattr a).mp hav⟩
    · cases hp
  · rintro ⟨t, ht, hk, tg, htag, a, ha, hav⟩
    refine ⟨t, ht, ?_⟩
    unfold tokDirVals
    simp only [hk, htag]
    exact List.mem_filterMap.mpr ⟨a, ha, (hattr a).mpr hav⟩

/-- **addFile_ok_values.** If a file loads, then EVERY directive value of the scanned file is accepted by the code
    scanner and EVERY `${…}` block of the file is accepted in full by `ParseCode`. -/
theorem addFile_ok_values (cfg : Cfg) (fns : List (String × EV.FnSpec)) (idx : Nat) (name src : String) (m m' : Mgr)
    (h : addFile cfg fns idx name src m = .ok m') :
    ∃ toks, HS.scan (scanCfg cfg) src.toList = .ok toks ∧
      (∀ p ∈ dirVals cfg toks, CS.Succ (CS.scan p.1 p.2)) ∧
      (∀ s ∈ fileBlocks cfg toks, ∃ e, EL.parseCode s = .accept e) := by
  obtain ⟨toks, root0, tbl', hscan, hb, _, _⟩ := addFile_ok' h
  obtain ⟨items, h1, _⟩ := mapRes_ok hb
  have hg := compileToks_good cfg toks _ _ _ _ h1
  refine ⟨toks, hscan, fun p hp => (hg p hp).1, ?_⟩
  intro s hs
  obtain ⟨p, hp, hs'⟩ := mem_fileBlocks.mp hs
  exact (hg p hp).2 s hs'

/-- **addFile_err_of_bad.** If the scanned file contains a directive value that the code scanner does not accept, or a
    block that `ParseCode` does not accept, and no block of the file lies outside the modelled expression language
    (`.unsupported`), then `Add` returns an error — whatever the file name, the manager and the rest of the file. -/
theorem addFile_err_of_bad (cfg : Cfg) (fns : List (String × EV.FnSpec)) (idx : Nat) (name src : String) (m : Mgr)
    (toks : List HS.Token) (hscan : HS.scan (scanCfg cfg) src.toList = .ok toks)
    (hcov : ∀ s ∈ fileBlocks cfg toks, EL.parseCode s ≠ .unsupported)
    (hbad : (∃ p ∈ dirVals cfg toks, ¬ CS.Succ (CS.scan p.1 p.2)) ∨ (∃ s ∈ fileBlocks cfg toks, EL.parseCode s = .reject)) :
    addFile cfg fns idx name src m = .err := by
  have hbad' : ∃ p ∈ dirVals cfg toks, ¬ GoodVal p := by
    rcases hbad with ⟨p, hp, hn⟩ | ⟨s, hs, hr⟩
    · exact ⟨p, hp, fun hg => hn hg.1⟩
    · obtain ⟨p, hp, hs'⟩ := mem_fileBlocks.mp hs
      refine ⟨p, hp, fun hg => ?_⟩
      obtain ⟨e, he⟩ := hg.2 s hs'
      unfold Accepts at he; rw [hr] at he; cases he
  have hb := buildTreeS_err_of_bad cfg idx toks m.cx.exprs hcov hbad'
  unfold addFile
  split
  · rfl
  · simp only [hscan]
    unfold registerFile
    rw [hb]

/-- without the coverage hypothesis: never `.ok` (and never `.panic`) -/
theorem addFile_not_ok_of_bad (cfg : Cfg) (fns : List (String × EV.FnSpec)) (idx : Nat) (name src : String) (m : Mgr)
    (toks : List HS.Token) (hscan : HS.scan (scanCfg cfg) src.toList = .ok toks)
    (hbad : (∃ p ∈ dirVals cfg toks, ¬ CS.Succ (CS.scan p.1 p.2)) ∨ (∃ s ∈ fileBlocks cfg toks, EL.parseCode s = .reject)) :
    (∀ m', addFile cfg fns idx name src m ≠ .ok m') ∧ addFile cfg fns idx name src m ≠ .panic := by
  refine ⟨fun m' h => ?_, addFile_ne_panic cfg fns idx name src m⟩
  obtain ⟨toks', hscan', h1, h2⟩ := addFile_ok_values cfg fns idx name src m m' h
  rw [hscan] at hscan'; cases hscan'
  rcases hbad with ⟨p, hp, hn⟩ | ⟨s, hs, hr⟩
  · exact hn (h1 p hp)
  · obtain ⟨e, he⟩ := h2 s hs
    rw [hr] at he; cases he

/-- a failing file fails the whole load: `loadFiles` never returns a manager when one of the files does not load -/
theorem loadFrom_err_of_addFile_err (cfg : Cfg) (fns : List (String × EV.FnSpec)) (i : Nat) (f : String × String)
    (rest : List (String × String)) (m : Mgr) (h : addFile cfg fns (i + 1) f.1 f.2 m = .err) :
    loadFrom cfg fns i (f :: rest) m = .err := by
  rw [loadFrom, h]

/-! ### the rejection corollaries

Each takes the scanned tokens of the file, the coverage hypothesis (no block of the file is outside the modelled
expression language; without it the conclusion is "never `.ok`, never `.panic`": `addFile_not_ok_of_bad`) and the
hypotheses of one rejection lemma of `Props/C10.lean` (or of `Proofs/CodeScanReject.lean`) about ONE directive value
or ONE block of the file; the conclusion is that `Add` returns an error.

The full-strength statement is `addFile_err_of_bad` itself (EVERY value the code scanner does not accept, EVERY block
`ParseCode` rejects).  The two syntactic instances `addFile_rejects_unterminated_block/_string` describe the text in
front of the offending `${` by `CS.WfPre` (literal text and complete blocks whose code has no braces and no string
quotes); a syntactic description of *all* prefixes (earlier blocks with nested braces / strings) is not given — such
values are covered by `addFile_err_of_bad` / `addFile_ok_values` only semantically (via `CS.Succ`). -/

section
variable (cfg : Cfg) (fns : List (String × EV.FnSpec)) (idx : Nat) (name src : String) (m : Mgr)
  (toks : List HS.Token) (hscan : HS.scan (scanCfg cfg) src.toList = .ok toks)
  (hcov : ∀ s ∈ fileBlocks cfg toks, EL.parseCode s ≠ .unsupported)
include hscan hcov

/-- a directive value that is a proper prefix of a value whose opening quote occurs only at its end — i.e. a value cut
    off anywhere: inside a literal, inside `${…`, inside a string (`C10.truncated_rejected`) -/
theorem addFile_rejects_truncated (start : HS.Pos) (v p : List Char) (hq : C10.quoteOnlyAtEnd v = true)
    (hp : p <+: v) (hne : p ≠ v) (hmem : (start, p) ∈ dirVals cfg toks) :
    addFile cfg fns idx name src m = .err :=
  addFile_err_of_bad cfg fns idx name src m toks hscan hcov
    (Or.inl ⟨(start, p), hmem, C10.truncated_rejected start v p hq hp hne⟩)

/-- an unterminated `${`: after literal text and complete simple blocks, a `${` after which no `}` follows
    (`CS.unterminated_block_fails`; the rest may contain the closing quote of the value) -/
theorem addFile_rejects_unterminated_block (start : HS.Pos) (q : Char) (pre rest : List Char)
    (hq : CS.isQuote q = true) (hp : CS.WfPre q pre) (hr : '}' ∉ rest)
    (hmem : (start, q :: (pre ++ '$' :: '{' :: rest)) ∈ dirVals cfg toks) :
    addFile cfg fns idx name src m = .err :=
  addFile_err_of_bad cfg fns idx name src m toks hscan hcov
    (Or.inl ⟨_, hmem, CS.unterminated_block_fails start q pre rest hq hp hr⟩)

/-- an unterminated string inside a block: `${`, simple code, a string quote that does not occur again
    (`CS.unterminated_string_fails`, cf. `C10.eof_inside_string_fails`) -/
theorem addFile_rejects_unterminated_string (start : HS.Pos) (q sq : Char) (pre code rest : List Char)
    (hq : CS.isQuote q = true) (hp : CS.WfPre q pre) (hc : CS.SimpleCode code)
    (hsq : sq = '"' ∨ sq = '\'' ∨ sq = '`') (hr : sq ∉ rest)
    (hmem : (start, q :: (pre ++ '$' :: '{' :: (code ++ sq :: rest))) ∈ dirVals cfg toks) :
    addFile cfg fns idx name src m = .err :=
  addFile_err_of_bad cfg fns idx name src m toks hscan hcov
    (Or.inl ⟨_, hmem, CS.unterminated_string_fails start q sq pre code rest hq hp hc hsq hr⟩)

/-- a block with trailing text after a complete expression (`C10.leftover_rejected`: the expression parser stops in
    front of a non-empty rest that is not a single non-`;` `EOS`) -/
theorem addFile_rejects_leftover (s : String) (hs : s ∈ fileBlocks cfg toks) {ts rest : List EL.Tok} {e : EL.E} {f : Nat}
    (hl : EL.lex s = .ok ts) (he : EL.expr f 0 ts = some (e, rest)) (hne : rest ≠ [])
    (hrest : ∀ t, rest = [.eos t] → t = ";") : addFile cfg fns idx name src m = .err :=
  addFile_err_of_bad cfg fns idx name src m toks hscan hcov (Or.inr ⟨s, hs, C10.leftover_rejected hl he hne hrest⟩)

/-- a block `e ; …` (`C10.trailing_semicolon_rejected`) -/
theorem addFile_rejects_trailing_semicolon (s : String) (hs : s ∈ fileBlocks cfg toks) {ts rest : List EL.Tok} {e : EL.E}
    {f : Nat} (hl : EL.lex s = .ok (ts ++ .eos ";" :: rest))
    (he : EL.expr f 0 (ts ++ .eos ";" :: rest) = some (e, .eos ";" :: rest)) : addFile cfg fns idx name src m = .err :=
  addFile_err_of_bad cfg fns idx name src m toks hscan hcov (Or.inr ⟨s, hs, C10.trailing_semicolon_rejected hl he⟩)

/-- a block with an unlexable rest, e.g. an unterminated string or comment inside the block text (`C10.lexerr_rejected`) -/
theorem addFile_rejects_lexerr (s : String) (hs : s ∈ fileBlocks cfg toks) {ts : List EL.Tok}
    (hl : EL.lex s = .ok ts) (hm : EL.Tok.lexerr ∈ ts) : addFile cfg fns idx name src m = .err :=
  addFile_err_of_bad cfg fns idx name src m toks hscan hcov (Or.inr ⟨s, hs, C10.lexerr_rejected hl hm⟩)

/-- a block that is not an expression at all (`C10.parse_failure_rejected`) -/
theorem addFile_rejects_parse_failure (s : String) (hs : s ∈ fileBlocks cfg toks) {ts : List EL.Tok}
    (hl : EL.lex s = .ok ts) (he : EL.expr (4 * ts.length + 8) 0 ts = none) : addFile cfg fns idx name src m = .err :=
  addFile_err_of_bad cfg fns idx name src m toks hscan hcov (Or.inr ⟨s, hs, C10.parse_failure_rejected hl he⟩)

end

/-! ## 4. non-vacuity (kernel evaluation) -/
namespace Example

def isErr : LoadRes Mgr → Bool | .err => true | _ => false
def isUnsupported : EL.ParseRes → Bool | .unsupported => true | _ => false
theorem ne_unsupported {r : EL.ParseRes} (h : isUnsupported r = false) : r ≠ .unsupported := by
  intro e; rw [e] at h; cases h
theorem eq_reject {r : EL.ParseRes} (h : r.isReject = true) : r = .reject := by
  cases r <;> simp [EL.ParseRes.isReject] at h ⊢

/-- the attributes of all nodes of a tree, in document order -/
def attrsOf (n : Node) : List (List CAttr) :=
  (flatD n).filterMap fun e => match e with | .inl d => some d.attrs | .inr _ => none

/-- `x + 1` -/
def isXplus1 : EL.E → Bool
  | .bin op (.name x) (.lit k t) => op == "+" && x == "x" && k == "int" && t == "1"
  | _ => false

def good : String := "<p :text=\"a ${x + 1} b\">t</p>"

/-- the file loads; the attribute keeps its value, its parts are quote, literal `a `, `${`, block 0, `}`, literal ` b`,
    quote; the table holds exactly the parse of `x + 1` -/
def goodCheck : Bool :=
  match loadFiles {} [] [("f", good)] with
  | .ok m =>
    (m.templates.map fun p => (p.1, attrsOf p.2)) ==
      [("f", [[], [⟨":text", some "\"a ${x + 1} b\"", [.other, .lit "a ", .other, .code 0, .other, .lit " b", .other]⟩], []])] &&
    (match m.cx.exprs.toList with | [e] => isXplus1 e | _ => false)
  | _ => false

set_option maxRecDepth 100000 in
theorem goodCheck_true : goodCheck = true := by decide +kernel

/-- `loaded_attr_parts` / `loaded_blocks_consumed`: the hypothesis is satisfiable and there is a `.code` part to talk
    about -/
example : ∃ m, loadFiles {} [] [("f", good)] = .ok m ∧
    (∃ p ∈ m.templates, ∃ d, Sum.inl d ∈ flatD p.2 ∧ ∃ ca ∈ d.attrs, Part.code 0 ∈ ca.parts) := by
  have h := goodCheck_true
  unfold goodCheck at h
  split at h
  · rename_i m hm
    refine ⟨m, hm, ?_⟩
    simp only [Bool.and_eq_true, beq_iff_eq] at h
    have h1 := h.1
    cases hm' : m.templates with
    | nil => rw [hm'] at h1; cases h1
    | cons p ps =>
      rw [hm'] at h1
      simp only [List.map_cons, List.cons.injEq, Prod.mk.injEq] at h1
      have h2 := h1.1.2
      refine ⟨p, List.mem_cons_self, ?_⟩
      have hmem : [⟨":text", some "\"a ${x + 1} b\"", [.other, .lit "a ", .other, .code 0, .other, .lit " b", .other]⟩] ∈ attrsOf p.2 := by
        rw [h2]; simp
      unfold attrsOf at hmem
      obtain ⟨e, he, hd⟩ := List.mem_filterMap.mp hmem
      cases e with
      | inl d =>
        simp only [Option.some.injEq] at hd
        exact ⟨d, he, _, by rw [hd]; exact List.mem_cons_self, by simp⟩
      | inr v => cases hd
  · cases h

/-- the three bad files of the task are load errors -/
def bad1 : String := "<p :text=\"${x + }\">t</p>"
def bad2 : String := "<p :text=\"${x} ${\">t</p>"
def bad3 : String := "<p :text=\"${1;2}\">t</p>"

set_option maxRecDepth 100000 in
example : isErr (loadFiles {} [] [("f", bad1)]) = true := by decide +kernel
set_option maxRecDepth 100000 in
example : isErr (loadFiles {} [] [("f", bad2)]) = true := by decide +kernel
set_option maxRecDepth 100000 in
example : isErr (loadFiles {} [] [("f", bad3)]) = true := by decide +kernel
set_option maxRecDepth 100000 in
/-- … also after a good file, and inside a larger document -/
example : isErr (loadFiles {} [] [("g", good), ("f", "<div><i :if=\"${true}\">x</i><p :text=\"${1;2}\">t</p></div>")]) = true := by
  decide +kernel

/-- tokens of a source (for stating the hypotheses of `addFile_err_of_bad`) -/
def toksOf (src : String) : List HS.Token :=
  match HS.scan (scanCfg {}) src.toList with
  | .ok ts => ts
  | .error _ => []

theorem scan_toksOf (src : String)
    (h : (match HS.scan (scanCfg {}) src.toList with | .ok _ => true | .error _ => false) = true) :
    HS.scan (scanCfg {}) src.toList = .ok (toksOf src) := by
  unfold toksOf
  cases hs : HS.scan (scanCfg {}) src.toList with
  | ok ts => rfl
  | error e => rw [hs] at h; cases h

set_option maxRecDepth 100000 in
/-- `addFile_err_of_bad`, second disjunct: the block `1;2` is rejected by `ParseCode` (`C10.trailing_semicolon_rejected`),
    it is the only block of the file -/
example (fns : List (String × EV.FnSpec)) (idx : Nat) (name : String) (m : Mgr) :
    addFile {} fns idx name bad3 m = .err := by
  refine addFile_err_of_bad {} fns idx name bad3 m (toksOf bad3) (scan_toksOf bad3 (by decide +kernel)) ?_ (Or.inr ?_)
  · have h : (fileBlocks {} (toksOf bad3)).all (fun s => !isUnsupported (EL.parseCode s)) = true := by decide +kernel
    intro s hs
    have := List.all_eq_true.mp h s hs
    exact ne_unsupported (by simpa using this)
  · have h : fileBlocks {} (toksOf bad3) = ["1;2"] := by decide +kernel
    exact ⟨"1;2", by rw [h]; simp, eq_reject (by decide +kernel)⟩

set_option maxRecDepth 100000 in
/-- `addFile_err_of_bad`, first disjunct: the value `"${x} ${"` is not accepted by the code scanner -/
example (fns : List (String × EV.FnSpec)) (idx : Nat) (name : String) (m : Mgr) :
    addFile {} fns idx name bad2 m = .err := by
  refine addFile_err_of_bad {} fns idx name bad2 m (toksOf bad2) (scan_toksOf bad2 (by decide +kernel)) ?_ (Or.inl ?_)
  · have h : (fileBlocks {} (toksOf bad2)).all (fun s => !isUnsupported (EL.parseCode s)) = true := by decide +kernel
    intro s hs
    have := List.all_eq_true.mp h s hs
    exact ne_unsupported (by simpa using this)
  · have h : (dirVals {} (toksOf bad2)).any (fun p => decide (¬ CS.Succ (CS.scan p.1 p.2))) = true := by decide +kernel
    obtain ⟨p, hp, hd⟩ := List.any_eq_true.mp h
    exact ⟨p, hp, of_decide_eq_true hd⟩

theorem cov_of_all {toks : List HS.Token}
    (h : (fileBlocks {} toks).all (fun s => !isUnsupported (EL.parseCode s)) = true) :
    ∀ s ∈ fileBlocks {} toks, EL.parseCode s ≠ .unsupported := by
  intro s hs
  have := List.all_eq_true.mp h s hs
  exact ne_unsupported (by simpa using this)

set_option maxRecDepth 100000 in
/-- `addFile_rejects_unterminated_block` on `bad2`: the value is `"` + prefix `${x} ` + `${` + rest `"` -/
example (fns : List (String × EV.FnSpec)) (idx : Nat) (name : String) (m : Mgr) :
    addFile {} fns idx name bad2 m = .err := by
  refine addFile_rejects_unterminated_block {} fns idx name bad2 m (toksOf bad2) (scan_toksOf bad2 (by decide +kernel))
    (cov_of_all (by decide +kernel)) ⟨1, 10⟩ '"' "${x} ".toList "\"".toList (by decide)
    (.block ['x'] _ (by decide) (.lit ' ' [] (by decide) (by decide) .nil)) (by decide) ?_
  have h : dirVals {} (toksOf bad2) = [(⟨1, 10⟩, "\"${x} ${\"".toList)] := by decide +kernel
  rw [h]; simp

set_option maxRecDepth 100000 in
/-- `addFile_rejects_unterminated_string`: `:text="a ${ f('x }"` -/
example (fns : List (String × EV.FnSpec)) (idx : Nat) (name : String) (m : Mgr) :
    addFile {} fns idx name "<p :text=\"a ${ f('x }\">t</p>" m = .err := by
  refine addFile_rejects_unterminated_string {} fns idx name _ m (toksOf "<p :text=\"a ${ f('x }\">t</p>")
    (scan_toksOf _ (by decide +kernel)) (cov_of_all (by decide +kernel)) ⟨1, 10⟩ '"' '\'' "a ".toList " f(".toList
    "x }\"".toList (by decide) (.lit 'a' _ (by decide) (by decide) (.lit ' ' [] (by decide) (by decide) .nil))
    (by decide) (Or.inr (Or.inl rfl)) (by decide) ?_
  have h : dirVals {} (toksOf "<p :text=\"a ${ f('x }\">t</p>") = [(⟨1, 10⟩, "\"a ${ f('x }\"".toList)] := by decide +kernel
  rw [h]; simp

set_option maxRecDepth 100000 in
/-- `addFile_rejects_trailing_semicolon` on `bad3` -/
example (fns : List (String × EV.FnSpec)) (idx : Nat) (name : String) (m : Mgr) :
    addFile {} fns idx name bad3 m = .err := by
  have h : fileBlocks {} (toksOf bad3) = ["1;2"] := by decide +kernel
  exact addFile_rejects_trailing_semicolon {} fns idx name bad3 m (toksOf bad3) (scan_toksOf bad3 (by decide +kernel))
    (cov_of_all (by decide +kernel)) "1;2" (by rw [h]; simp) (ts := [.int "1"]) (rest := [.int "2"]) (f := 5)
    (by decide +kernel) (by rfl)

/-- `compileAttr_ok_iff`: its hypotheses and its right-hand side hold for the attribute of `good` -/
def goodVal : List Char := "\"a ${x + 1} b\"".toList
def goodAttr : HS.Attr :=
  { name := ":text".toList, nameStart := ⟨1, 4⟩, nameEnd := ⟨1, 9⟩, value := some goodVal, valueStart := ⟨1, 10⟩, valueEnd := ⟨1, 25⟩ }

set_option maxRecDepth 100000 in
theorem goodAttr_hyps : (String.ofList goodAttr.name).startsWith ({} : Cfg).attrPrefix = true ∧
    attrValueOf {} goodAttr = some goodVal ∧ CS.Succ (CS.scan goodAttr.valueStart goodVal) ∧
    blockTexts (CS.scan goodAttr.valueStart goodVal) = ["x + 1"] ∧
    partsFrom 7 (CS.scan goodAttr.valueStart goodVal) = [.other, .lit "a ", .other, .code 7, .other, .lit " b", .other] := by
  decide +kernel

/-- compiled into a table that already has 7 entries, the block gets index 7 and the table grows by one entry -/
example (tbl : Tbl) (h7 : tbl.size = 7) : ∃ e, EL.parseCode "x + 1" = .accept e ∧
    compileAttrS {} goodAttr tbl =
      (.ok ⟨":text", some (String.ofList goodVal), [.other, .lit "a ", .other, .code 7, .other, .lit " b", .other]⟩, tbl ++ [e]) := by
  obtain ⟨h1, h2, h3, h4, h5⟩ := goodAttr_hyps
  have hp : (EL.parseCode "x + 1").isAccept = true := by decide +kernel
  cases he : EL.parseCode "x + 1" with
  | accept e =>
    refine ⟨e, rfl, (compileAttr_ok_iff {} goodAttr goodVal tbl _ _ h1 h2).2 ⟨h3, [e], ?_, rfl, ?_⟩⟩
    · rw [h4]; exact .cons he .nil
    · rw [h7, h5]; rfl
  | reject => rw [he] at hp; cases hp
  | unsupported => rw [he] at hp; cases hp

end Example

end C10L
