import TplModel.Proofs.RenderRefine
/-! # C05 (refinement): the re-entrant renderer of html/template.go computes the structural specification

`RN.exec` is the faithful model of `(*htmlTemplate).execute` (re-execution of the same node by the if-family and by
`range`, per-node flags in `currentAttrs`, chain results in `nodeCondition`); `RN.refNode` is the structural
specification (with → condition → range → rest, each once, no flags, no re-entry).

Hypotheses (all decidable on concrete trees):
* `Uniq node` — no node has the id of one of its own descendants (implied by pairwise distinct ids, `uniq_of_nodup`);
* `Sorted cfg node` — every node's (sorted) attribute list satisfies `OrderOK cfg`: at most one `with`, then the
  if-family attributes, then `range`, then everything else;
* `TplOK cfg env` — the same two properties for every template `env.tpl` can return (fragments);
* the flags of the node and of all its descendants are clear at entry.

Conclusion: every finished run (status ≠ out-of-fuel) equals the specification at some fuel — status (ok / error
class), chunk list, event log and final `nodeCondition` — and restores the flags (also on error results). -/
namespace RN
variable {Sc : Type}

/-- General form (all three entry modes of a visit, "eventually" form of the specification fuel). -/
theorem exec_refines_spec (cfg : Cfg) (env : Env Sc) (htpl : TplOK cfg env) (fuel depth : Nat) (nc : NC) (fl : Fl)
    (node : Node) (sc : Sc) (hu : Uniq node) (hs : Sorted cfg node) (hc : ClearOn fl (idsL node.kids))
    (hm : ModeOK cfg fl node) (hne : (exec cfg env fuel depth nc fl node sc).st ≠ .fuel) :
    (∃ g, ∀ g', g ≤ g' → specOf cfg env depth fl nc node sc g' = (exec cfg env fuel depth nc fl node sc).toQ) ∧
    (exec cfg env fuel depth nc fl node sc).fl = fl :=
  (refAt_all htpl fuel).exec depth nc fl node sc hu hs hc hm hne

/-- **Main theorem.** A finished faithful execution of a node whose flags (and those of its descendants) are clear
    equals the structural specification and leaves the flags as they were. -/
theorem exec_refines_ref (cfg : Cfg) (env : Env Sc) (htpl : TplOK cfg env) (fuel depth : Nat) (nc : NC) (fl : Fl)
    (node : Node) (sc : Sc) (hu : Uniq node) (hs : Sorted cfg node) (hc : ClearOn fl (ids node))
    (hne : (exec cfg env fuel depth nc fl node sc).st ≠ .fuel) :
    (∃ g, refNode cfg env g depth nc node sc = (exec cfg env fuel depth nc fl node sc).toQ) ∧
    (exec cfg env fuel depth nc fl node sc).fl = fl := by
  obtain ⟨hev, hk⟩ := exec_clear (refAt_all htpl fuel) depth nc fl node sc hu hs hc hne
  exact ⟨hev.ex, hk⟩

/-- the same with "for all sufficiently large specification fuels" -/
theorem exec_refines_ref_ev (cfg : Cfg) (env : Env Sc) (htpl : TplOK cfg env) (fuel depth : Nat) (nc : NC) (fl : Fl)
    (node : Node) (sc : Sc) (hu : Uniq node) (hs : Sorted cfg node) (hc : ClearOn fl (ids node))
    (hne : (exec cfg env fuel depth nc fl node sc).st ≠ .fuel) :
    ∃ g, ∀ g', g ≤ g' → refNode cfg env g' depth nc node sc = (exec cfg env fuel depth nc fl node sc).toQ :=
  (exec_clear (refAt_all htpl fuel) depth nc fl node sc hu hs hc hne).1

/-- **Corollary for `Execute`.** -/
theorem execute_refines (cfg : Cfg) (env : Env Sc) (htpl : TplOK cfg env) (fuel : Nat) (root : Node) (sc : Sc)
    (hu : Uniq root) (hs : Sorted cfg root) (hne : (execute cfg env fuel root sc).st ≠ .fuel) :
    ∃ g, refExecute cfg env g root sc = (execute cfg env fuel root sc).toQ :=
  (exec_refines_ref cfg env htpl fuel 0 emptyNc emptyFl root sc hu hs (clearOn_empty _) hne).1

/-- `Execute` leaves `currentAttrs` empty -/
theorem execute_flags (cfg : Cfg) (env : Env Sc) (htpl : TplOK cfg env) (fuel : Nat) (root : Node) (sc : Sc)
    (hu : Uniq root) (hs : Sorted cfg root) (hne : (execute cfg env fuel root sc).st ≠ .fuel) :
    (execute cfg env fuel root sc).fl = emptyFl :=
  (exec_refines_ref cfg env htpl fuel 0 emptyNc emptyFl root sc hu hs (clearOn_empty _) hne).2

/-- special case: no fragments -/
theorem execute_refines_nofrag (cfg : Cfg) (env : Env Sc) (hnf : env.tpl = fun _ => none) (fuel : Nat) (root : Node) (sc : Sc)
    (hu : Uniq root) (hs : Sorted cfg root) (hne : (execute cfg env fuel root sc).st ≠ .fuel) :
    ∃ g, refExecute cfg env g root sc = (execute cfg env fuel root sc).toQ :=
  execute_refines cfg env (fun name t h => by rw [hnf] at h; cases h) fuel root sc hu hs hne

/-! ## non-vacuity: a concrete document with with / if / range / insert / else and a fragment -/
namespace Example

def frag : Node := .mk { id := 10, kind := .root, value := "", tagName := "", attrs := [] }
  [.mk { id := 11, kind := .text, value := "F", tagName := "", attrs := [] } [] none] none

def env : Env Nat where
  evalStr := fun a sc => (.ok (if a.name = ":insert" then "frag" else "true"), ["eval " ++ a.name ++ " @" ++ toString sc])
  withAssign := fun _ sc => (.ok (sc + 1), ["with"])
  rangeItems := fun _ sc => (.ok [sc, sc + 10], ["range"])
  tpl := fun name => if name = "frag" then some frag else none

def div : Node := .mk
  { id := 1, kind := .tag, value := "<div ...>", tagName := "div",
    attrs := [⟨":with", some "x", []⟩, ⟨":if", some "y", []⟩, ⟨":range", some "z", []⟩, ⟨":insert", some "f", []⟩,
              ⟨"class", some "\"c\"", []⟩],
    nextBlank := some "\n" }
  [.mk { id := 2, kind := .text, value := "hi", tagName := "", attrs := [] } [] none,
   .mk { id := 3, kind := .tag, value := "<b>", tagName := "b", attrs := [] } [] (some "</b>")]
  (some "</div>")

def root : Node := .mk { id := 0, kind := .root, value := "", tagName := "", attrs := [] }
  [div,
   .mk { id := 4, kind := .text, value := "\n", tagName := "", attrs := [] } [] none,
   .mk { id := 5, kind := .tag, value := "<p :else>", tagName := "p", attrs := [⟨":else", some "", []⟩], prevTag := some 1 }
     [] (some "</p>")]
  none

theorem tplOK : TplOK {} env := by
  intro name t h
  simp only [env] at h
  split at h
  · cases h
    refine ⟨?_, ?_⟩
    · simp [frag, Uniq, UniqL, ids, idsL]
    · simp only [frag, Sorted, SortedL]; exact ⟨by decide +kernel, ⟨by decide +kernel, trivial⟩, trivial⟩
  · cases h

theorem uniq_root : Uniq root := by
  simp [root, div, Uniq, UniqL, ids, idsL]

theorem sorted_root : Sorted {} root := by
  simp only [root, div, Sorted, SortedL]
  refine ⟨by decide +kernel, ⟨by decide +kernel, ⟨by decide +kernel, trivial⟩, ⟨by decide +kernel, trivial⟩, trivial⟩,
    ⟨by decide +kernel, trivial⟩, ⟨by decide +kernel, trivial⟩, trivial⟩

theorem finishes : (execute {} env 40 root 0).st ≠ .fuel := by decide +kernel

/-- the hypotheses of `execute_refines` hold for this document, hence its conclusion -/
example : ∃ g, refExecute {} env g root 0 = (execute {} env 40 root 0).toQ :=
  execute_refines {} env tplOK 40 root 0 uniq_root sorted_root finishes

/-- non-vacuity of the monotonicity theorem `refExecute_mono` -/
example : refExecute {} env 100 root 0 = refExecute {} env 40 root 0 :=
  refExecute_mono {} env 40 100 root 0 (by decide) (by decide +kernel)

/-- the flags hypothesis with non-empty flags elsewhere: `ClearOn` only constrains the ids of the tree -/
example : ClearOn (setFl emptyFl 99 3) (ids root) := by
  intro j hj
  have : j ≠ 99 := by
    intro e; subst e
    simp [root, div, ids, idsL] at hj
  simp [setFl, this, emptyFl]

end Example
end RN
