import TplModel.Generated.Facts
/-! # C14 / C10 — fact re-extracted from html/scan_code.go on every run

OBLIGATIONS: C14K.block_scanner_skips_all_three_literal_styles

"a literal in a `${...}` block may contain braces, `${` and the other quote characters without ending the block early":
inside a block the code scanner hands a string literal of EVERY style to `scanString` (the case of `scanCode` that calls
it lists the three opening characters); the model's `CS.scanCode` does the same (`c = '"' || c = '\'' || c = '`'`). -/
namespace C14K

theorem block_scanner_skips_all_three_literal_styles : Facts.blockStringOpeners = ["\"", "'", "`"] := by decide

end C14K
