import TplModel.Proofs.CallbackSpec
import TplModel.Props.C02render
import TplModel.Props.C04hdr
import TplModel.Props.C06
import TplModel.Props.Loader
/-! # The evaluation callbacks of a loaded manager, in closed form — and what the generic renderer clauses say with them

`RN.refExecute` and the clauses of `Props/RenderProps.lean` / `Props/C02render.lean` hold for ANY environment `RN.Env`.
The environment of a loaded manager is `EN.envOf m` = (`EN.attrEvaluate`, `EN.withAssign`, `EN.rangeItems`, registry
lookup), the first two written with `Id.run`/`for` (Go: `Attr.Evaluate`, `Attr.WithAssign` + `exp.Combine(exp.NewScope(
result), data)`, `processRange`). `Engine.lean` is unchanged; the loops are proved equal to recursive functions in
`TplModel/Proofs/CallbackSpec.lean`. This file states what the callbacks compute and instantiates the generic clauses.

1. `attrEvaluate_spec` (+ `attrEvaluate_fold`, `attrEvaluate_ok`, `attrEvaluate_err`; corollaries `attrEvaluate_pure_block`,
   `attrEvaluate_literal`, `attrEvaluate_mixture`);
2. `withAssign_spec`, `withAssign_accepts_iff` (grammar), `evalAll_ok` / `evalAll_err` (order of evaluation, every
   expression in the element's scope: an assignment does not see an earlier assignment of the same attribute — as in Go,
   which evaluates every block against `input`), `lookup_after_with`, `lookup_after_with_tree`, `name_after_with`;
3. `rangeItems_spec`, `rangeHeader_eq_C04`, per kind: `rangeItems_slice`, `rangeItems_array`, `rangeItems_string`,
   `rangeItems_map` (+ `rangeItems_map_perm`: only the multiset of a map's items is meaningful), `rangeItems_empty`,
   `rangeItems_not_collection`, `rangeItems_eval_error`, `rangeItems_bad_object`; `rangeItems_scopes_extend`,
   `lookup_in_item_scope`;
4. `range_text_concrete`: `<li :range="i, x : xs" :text="${x}">` renders `<li>`esc(fmt xₖ)`</li>` for k = 1…n;
5. examples on a loaded manager (`decide +kernel`).
Core-only.

OBLIGATIONS: Callbacks.attrEvaluate_spec, Callbacks.attrEvaluate_fold, Callbacks.attrEvaluate_ok, Callbacks.attrEvaluate_err, Callbacks.partVal_error_iff, Callbacks.attrEvaluate_pure_block, Callbacks.attrEvaluate_literal, Callbacks.attrEvaluate_mixture, Callbacks.withAssign_spec, Callbacks.withAssign_accepts_iff, Callbacks.waName_spec, Callbacks.withAssign_syntax_error, Callbacks.withAssign_ok, Callbacks.withAssign_err, Callbacks.lookup_after_with, Callbacks.name_after_with, Callbacks.other_name_after_with, Callbacks.lookup_after_with_tree, Callbacks.rangeItems_spec, Callbacks.rangeHeader_eq_C04, Callbacks.rangeHeader_forms, Callbacks.rangeItems_slice, Callbacks.rangeItems_array, Callbacks.rangeItems_string, Callbacks.rangeItems_map, Callbacks.rangeItems_map_perm, Callbacks.rangeItems_not_collection, Callbacks.rangeItems_eval_error, Callbacks.rangeItems_empty, Callbacks.rangeItems_bad_object, Callbacks.rangePairs_none_iff, Callbacks.rangePairs_nil_iff, Callbacks.rangeItems_scopes_extend, Callbacks.lookup_in_item_scope, Callbacks.item_var_evaluates, Callbacks.index_var_evaluates, Callbacks.outer_var_evaluates, Callbacks.li_body, Callbacks.range_text_concrete, Callbacks.range_text_concrete_exec, Callbacks.Examples.li0_renders -/
namespace Callbacks
open EN
open EV (Val FnSpec fmtV)
open RN (CAttr Part NodeD Node NK Cls)

/-! ## 1. `Attr.Evaluate` -/

/-- **attrEvaluate_spec.** No value: `attrValueExpected`. No compiled parts (an attribute that is not a directive):
    the value as written. Otherwise the loop over the parts, `EN.evalParts` started with the empty buffer and log:
    literals are appended verbatim, `.other` parts (quotes, `${`, `}`) contribute nothing, a block `.code k` is
    evaluated with `evalExpr cx sc cx.exprs[k]!`: a failure ends the loop with its error class and the log so far plus
    its own events; otherwise `fmtV` of the value is appended (a value without modelled `%v` appends nothing and logs
    the `unsupported` marker). -/
theorem attrEvaluate_spec (cx : Ctx) (a : CAttr) (sc : List Val) :
    attrEvaluate cx a sc =
      match a.value with
      | none => (.error .attrValueExpected, [])
      | some v => if a.parts.isEmpty then (.ok v, []) else evalParts cx sc a.parts "" [] :=
  attrEvaluate_loop cx a sc

/-- the loop is the left-to-right fold `EN.partsVal` of the per-part contributions `EN.partVal` -/
theorem attrEvaluate_fold (cx : Ctx) (sc : List Val) (ps : List Part) :
    evalParts cx sc ps "" [] = partsVal cx sc ps := by
  rw [evalParts_eq]
  rcases partsVal cx sc ps with ⟨c | t, l⟩ <;> simp [prefixRes]

/-- all blocks succeed: the string is the concatenation of the literals and the formatted block values in order, the
    log the concatenation of the blocks' logs -/
theorem attrEvaluate_ok (cx : Ctx) (a : CAttr) (sc : List Val) (v : String) (hv : a.value = some v)
    (hp : a.parts ≠ []) (hall : ∀ p ∈ a.parts, IsOk (partVal cx sc p).1) :
    attrEvaluate cx a sc =
      (.ok (String.join (a.parts.map (partText cx sc))), a.parts.flatMap fun p => (partVal cx sc p).2) := by
  rw [attrEvaluate_spec, hv]
  have : a.parts.isEmpty = false := by cases h : a.parts <;> simp_all
  simp only [this, Bool.false_eq_true, if_false]
  rw [attrEvaluate_fold, partsVal_ok cx sc _ hall]

/-- the first failing block stops the evaluation with its error class; the log is that of the parts before it and
    its own -/
theorem attrEvaluate_err (cx : Ctx) (a : CAttr) (sc : List Val) (v : String) (hv : a.value = some v)
    (pre post : List Part) (p : Part) (c : Cls) (l : List String) (hps : a.parts = pre ++ p :: post)
    (hpre : ∀ q ∈ pre, IsOk (partVal cx sc q).1) (hp : partVal cx sc p = (.error c, l)) :
    attrEvaluate cx a sc = (.error c, (pre.flatMap fun q => (partVal cx sc q).2) ++ l) := by
  rw [attrEvaluate_spec, hv]
  have : a.parts.isEmpty = false := by rw [hps]; cases pre <;> rfl
  simp only [this, Bool.false_eq_true, if_false]
  rw [attrEvaluate_fold, hps, partsVal_err cx sc pre p post c l hpre hp]

/-- only a `.code` part can fail, and then with the class and the events of its evaluation -/
theorem partVal_error_iff (cx : Ctx) (sc : List Val) (p : Part) (c : Cls) (l : List String) :
    partVal cx sc p = (.error c, l) ↔ ∃ k, p = .code k ∧ evalExpr cx sc cx.exprs[k]! = (.error c, l) := by
  cases p with
  | lit s => simp [partVal]
  | other => simp [partVal]
  | code k =>
    simp only [partVal, Part.code.injEq, exists_eq_left']
    rcases evalExpr cx sc cx.exprs[k]! with ⟨c' | r, l'⟩
    · simp
    · cases hfm : fmtV r <;> simp [hfm]

/-- **a pure `${e}` value** — `compileAttr` turns `"${e}"` into the five parts quote, `${`, block, `}`, quote
    (`EN.compileAttr_block`): the result is `fmtV` of the value of `e`, the log that of its evaluation -/
theorem attrEvaluate_pure_block (cx : Ctx) (name v : String) (k : Nat) (sc : List Val) :
    attrEvaluate cx ⟨name, some v, [.other, .other, .code k, .other, .other]⟩ sc =
      match evalExpr cx sc cx.exprs[k]! with
      | (.error c, l) => (.error c, l)
      | (.ok r, l) =>
        match fmtV r with
        | some s => (.ok s, l)
        | none => (.ok "", l ++ [unsupportedEv]) := by
  rw [attrEvaluate_spec]
  simp only [List.isEmpty_cons, Bool.false_eq_true, if_false, evalParts]
  rcases evalExpr cx sc cx.exprs[k]! with ⟨c | r, l⟩
  · simp
  · cases hfm : fmtV r <;> simp [hfm]

/-- **a literal-only directive value** `"lit"` (parts: quote, literal, quote) yields the literal -/
theorem attrEvaluate_literal (cx : Ctx) (name v s : String) (sc : List Val) :
    attrEvaluate cx ⟨name, some v, [.other, .lit s, .other]⟩ sc = (.ok s, []) := by
  rw [attrEvaluate_spec]
  simp [evalParts]

/-- **a mixture** `"a${e}b"` (parts: quote, literal, `${`, block, `}`, literal, quote) yields `a ++ fmt e ++ b` -/
theorem attrEvaluate_mixture (cx : Ctx) (name v a b s : String) (k : Nat) (sc : List Val) (r : Val) (l : List String)
    (he : evalExpr cx sc cx.exprs[k]! = (.ok r, l)) (hf : fmtV r = some s) :
    attrEvaluate cx ⟨name, some v, [.other, .lit a, .other, .code k, .other, .lit b, .other]⟩ sc =
      (.ok (a ++ s ++ b), l) := by
  rw [attrEvaluate_spec]
  simp [evalParts, he, hf]

/-! ## 2. `Attr.WithAssign` + `exp.Combine(exp.NewScope(result), data)` -/

/-- **withAssign_spec.** No value: `attrValueExpected`. The parts must form the grammar `EN.waAccept`
    (`withAssign_accepts_iff`), otherwise `withSyntax` (nothing is evaluated: empty log). Then the blocks are evaluated
    in the order written, ALL in the scope `sc` of the element (`EN.evalAll`); the first failing block ends the
    evaluation with its error class and the log so far. On success the new scope is `frame :: sc`, the frame being the
    map with `m[name] = value` executed in order (`EN.bindAll`). -/
theorem withAssign_spec (cx : Ctx) (a : CAttr) (sc : List Val) :
    withAssign cx a sc =
      match a.value with
      | none => (.error .attrValueExpected, [])
      | some _ =>
        match waAccept a.parts with
        | none => (.error .withSyntax, [])
        | some prs =>
          match evalAll cx sc prs with
          | (.error c, lg) => (.error c, lg)
          | (.ok bs, lg) => (.ok (Val.map "map[string]interface {}" (bindAll [] bs) :: sc), lg) :=
  withAssign_eq cx a sc

/-- **the accepted syntax.** Ignoring what the Go loop ignores (`EN.waSig`: quote / `${` / `}` tokens and literals
    that are blank), the parts must be a NON-EMPTY sequence `lit₁ code₁ lit₂ code₂ … litₙ codeₙ` (`EN.WaShape`) where
    `lit₁`, trimmed, is `name :=` and every later `litᵢ`, trimmed, is `; name :=` (`EN.waName`: the text must end
    with `:=`; for `i > 1` what precedes `:=`, trimmed, must start with `;`; the name is what is left, trimmed — it may
    be empty or contain anything). The result lists the names with the table indices of their blocks. -/
theorem withAssign_accepts_iff (ps : List Part) (prs : List (String × Nat)) :
    waAccept ps = some prs ↔ prs ≠ [] ∧ WaShape true (waSig ps) prs :=
  waAccept_iff ps prs

/-- how a literal names a variable -/
theorem waName_spec (first : Bool) (l : String) :
    waName first l =
      if !(RN.trimSpace l).endsWith ":=" then none
      else if first then some (RN.trimSpace (RN.trimSuffixS (RN.trimSpace l) ":="))
      else if !(RN.trimSpace (RN.trimSuffixS (RN.trimSpace l) ":=")).startsWith ";" then none
      else some (RN.trimSpace (RN.trimPrefixS (RN.trimSpace (RN.trimSuffixS (RN.trimSpace l) ":=")) ";")) := rfl

/-- the syntax error is reported before anything is evaluated -/
theorem withAssign_syntax_error (cx : Ctx) (a : CAttr) (sc : List Val) (v : String) (hv : a.value = some v)
    (h : waAccept a.parts = none) : withAssign cx a sc = (.error .withSyntax, []) := by
  rw [withAssign_spec, hv, h]

/-- **order of evaluation, success**: every block is evaluated in `sc` — the scope of the element, NOT extended by the
    earlier assignments of the same attribute (Go: `exp.Evaluate(tok.Start, tok.Tree, input)` for every block; in
    `:with="w := ${1}; v := ${w}"` the `w` of the second block is the OUTER `w`) — in the order written -/
theorem withAssign_ok (cx : Ctx) (a : CAttr) (sc : List Val) (v : String) (prs : List (String × Nat))
    (hv : a.value = some v) (hacc : waAccept a.parts = some prs)
    (hall : ∀ p ∈ prs, IsOk (evalExpr cx sc cx.exprs[p.2]!).1) :
    withAssign cx a sc =
      (.ok (Val.map "map[string]interface {}" (bindAll [] (prs.map fun p => (p.1, pairVal cx sc p))) :: sc),
       prs.flatMap (pairLog cx sc)) := by
  rw [withAssign_spec, hv, hacc]
  simp only [evalAll_ok cx sc prs hall]

/-- **order of evaluation, failure**: the first failing block stops with its error; later blocks are not evaluated -/
theorem withAssign_err (cx : Ctx) (a : CAttr) (sc : List Val) (v : String) (pre post : List (String × Nat))
    (p : String × Nat) (c : Cls) (l : List String)
    (hv : a.value = some v) (hacc : waAccept a.parts = some (pre ++ p :: post))
    (hpre : ∀ q ∈ pre, IsOk (evalExpr cx sc cx.exprs[q.2]!).1)
    (hp : evalExpr cx sc cx.exprs[p.2]! = (.error c, l)) :
    withAssign cx a sc = (.error c, pre.flatMap (pairLog cx sc) ++ l) := by
  rw [withAssign_spec, hv, hacc]
  simp only [evalAll_err cx sc pre p post c l hpre hp]

/-- **lookup_after_with.** After a successful `with`, the new scope is `frame :: sc`; `Scope.Get name` (the model's
    `EV.scopeGet`, which `EV.eval` uses for a variable: `EN.evalExpr_name`) returns, for a name assigned by the
    attribute, the value of its LAST assignment, and falls through to `sc` for every other name. -/
theorem lookup_after_with (cx : Ctx) (a : CAttr) (sc sc' : List Val) (lg : List String)
    (h : withAssign cx a sc = (.ok sc', lg)) :
    ∃ prs, waAccept a.parts = some prs ∧ (∀ p ∈ prs, IsOk (evalExpr cx sc cx.exprs[p.2]!).1) ∧
      lg = prs.flatMap (pairLog cx sc) ∧
      sc' = Val.map "map[string]interface {}" (bindAll [] (prs.map fun p => (p.1, pairVal cx sc p))) :: sc ∧
      ∀ name, EV.scopeGet sc' name =
        match prs.reverse.find? (fun p => p.1 = name) with
        | some p => .found (pairVal cx sc p)
        | none => EV.scopeGet sc name := by
  rw [withAssign_spec] at h
  cases hv : a.value with
  | none => rw [hv] at h; cases h
  | some v =>
    rw [hv] at h
    simp only at h
    cases hacc : waAccept a.parts with
    | none => rw [hacc] at h; cases h
    | some prs =>
      rw [hacc] at h
      simp only at h
      rcases he : evalAll cx sc prs with ⟨c | bs, lg'⟩
      · rw [he] at h; cases h
      · have hall := evalAll_ok_inv cx sc prs bs lg' he
        rw [evalAll_ok cx sc prs hall] at he h
        simp only [Prod.mk.injEq, Except.ok.injEq] at h
        obtain ⟨h1, h2⟩ := h
        refine ⟨prs, rfl, hall, h2.symm, h1.symm, ?_⟩
        intro name
        rw [← h1, EV.scopeGet, getValue_map, bindAll_find, ← List.map_reverse, List.find?_map]
        cases hf : prs.reverse.find? ((fun kv : String × Val => decide (kv.1 = name)) ∘ fun p => (p.1, pairVal cx sc p)) with
        | none =>
          have : prs.reverse.find? (fun p => decide (p.1 = name)) = none := hf
          simp [this]
        | some p =>
          have : prs.reverse.find? (fun p => decide (p.1 = name)) = some p := hf
          simp [this]

/-- a variable bound by `with` evaluates to its bound value, without events -/
theorem name_after_with (cx : Ctx) (a : CAttr) (sc sc' : List Val) (lg : List String)
    (h : withAssign cx a sc = (.ok sc', lg)) (prs : List (String × Nat)) (hacc : waAccept a.parts = some prs)
    (name : String) (p : String × Nat) (hp : prs.reverse.find? (fun p => p.1 = name) = some p) :
    evalExpr cx sc' (.name name) = (.ok (pairVal cx sc p), []) := by
  obtain ⟨prs', h1, _, _, _, h5⟩ := lookup_after_with cx a sc sc' lg h
  rw [hacc] at h1
  cases h1
  rw [evalExpr_name, h5 name, hp]

/-- … and a name that the attribute does not assign is evaluated as in the enclosing scope -/
theorem other_name_after_with (cx : Ctx) (a : CAttr) (sc sc' : List Val) (lg : List String)
    (h : withAssign cx a sc = (.ok sc', lg)) (prs : List (String × Nat)) (hacc : waAccept a.parts = some prs)
    (name : String) (hn : ∀ p ∈ prs, p.1 ≠ name) :
    evalExpr cx sc' (.name name) = evalExpr cx sc (.name name) := by
  obtain ⟨prs', h1, _, _, _, h5⟩ := lookup_after_with cx a sc sc' lg h
  rw [hacc] at h1
  cases h1
  have : prs.reverse.find? (fun p => decide (p.1 = name)) = none := by
    rw [List.find?_eq_none]
    intro p hp
    simpa using hn p (List.mem_reverse.1 hp)
  rw [evalExpr_name, evalExpr_name, h5 name, this]

/-- the same lookup on the scope TREE that the Go code builds — `WithDefaultScope(Combine(NewScope(result), data))`
    with `data` the renderer's chain of frames over the global data — through `C06.renderer_chain_agrees` -/
theorem lookup_after_with_tree (frame : Val) (frames : List Val) (global : Val) (n : String) :
    (EV.WithDefaultScope (EV.Scope.chain (frame :: frames) (EV.NewScope global))).viaApi.get n =
      match EV.getValue n frame with
      | .absent => EV.scopeGet (frames ++ [global]) n
      | r => r := by
  rw [C06.renderer_chain_agrees, List.cons_append]
  exact (C06.bindings_do_not_leak frame (frames ++ [global]) n n).2

/-! ## 3. `processRange` up to the loop -/

/-- **rangeItems_spec.** No value: `attrValueExpected`. The value, without one pair of surrounding quotes, is split by
    `extractRange` into `(indexName, itemName, objName)` (`EN.rangeHeader`; `rangeHeader_eq_C04`). `objName` is compiled
    (`rangeObject` if it is not an expression) and evaluated ONCE, in `sc`; an evaluation error is the result. The value
    must be a slice, array, string or map (`EN.rangePairs`, otherwise `rangeKind`); the result is one child scope per
    (index, item) pair, `itemFrame … :: sc`, in order; the log is that of the one evaluation. -/
theorem rangeItems_spec (cx : Ctx) (a : CAttr) (sc : List Val) :
    rangeItems cx a sc =
      match a.value with
      | none => (.error .attrValueExpected, [])
      | some av =>
        match EL.parseCode (rangeHeader av).2.2 with
        | .reject => (.error .rangeObject, [])
        | .unsupported => (.error .rangeObject, [unsupportedEv])
        | .accept e =>
          match evalExpr cx sc e with
          | (.error c, lg) => (.error c, lg)
          | (.ok obj, lg) =>
            match rangePairs obj with
            | none => (.error .rangeKind, lg)
            | some prs =>
              (.ok (prs.map fun p => itemFrame (rangeHeader av).1 (rangeHeader av).2.1 p.1 p.2 :: sc), lg) := by
  unfold rangeItems
  cases a.value with
  | none => rfl
  | some av =>
    simp only [rangeHeader, rangeValue]
    generalize extractRange _ = hd
    obtain ⟨iv, xv, obj⟩ := hd
    simp only
    cases EL.parseCode obj with
    | reject => rfl
    | unsupported => rfl
    | accept e =>
      simp only
      rcases evalExpr cx sc e with ⟨c | o, lg⟩
      · rfl
      · cases o <;> rfl

/-- the header is the `extractRange` of Props/C04hdr.lean (`C04.extractRange_spec`, `C04.header_cases`) applied to the
    characters of the unquoted value -/
theorem rangeHeader_eq_C04 (av : String) :
    rangeHeader av =
      (String.ofList (AT.extractRange (rangeValue av).toList).1, String.ofList (AT.extractRange (rangeValue av).toList).2.1,
       String.ofList (AT.extractRange (rangeValue av).toList).2.2) :=
  extractRange_eq_AT _

/-- the three header forms, by the first `:` and the first `,` before it (from `C04.extractRange_spec`) -/
theorem rangeHeader_forms (av : String) :
    (':' ∉ (rangeValue av).toList → rangeHeader av = ("", "", String.ofList (AT.trimSpace (rangeValue av).toList))) ∧
    (∀ a b, (rangeValue av).toList = a ++ ':' :: b → ':' ∉ a →
      (',' ∉ a → rangeHeader av = (String.ofList (AT.trimSpace a), "", String.ofList (AT.trimSpace b))) ∧
      (∀ i j, a = i ++ ',' :: j → ',' ∉ i →
        rangeHeader av = (String.ofList (AT.trimSpace i), String.ofList (AT.trimSpace j), String.ofList (AT.trimSpace b)))) := by
  obtain ⟨h0, h1⟩ := C04.extractRange_spec (rangeValue av).toList
  refine ⟨fun h => ?_, fun a b hs ha => ⟨fun hc => ?_, fun i j hij hi => ?_⟩⟩
  · rw [rangeHeader_eq_C04, h0 h]
  · rw [rangeHeader_eq_C04, ((h1 a b hs ha).1 hc)]
  · rw [rangeHeader_eq_C04, ((h1 a b hs ha).2 i j hij hi)]

section RangeKinds
variable (cx : Ctx) (a : CAttr) (sc : List Val) (av : String) (e : EL.E) (lg : List String)
variable (hv : a.value = some av) (hp : EL.parseCode (rangeHeader av).2.2 = .accept e)
include hv hp

/-- **slice** `[x₁ … xₙ]`: `n` child scopes, the k-th (0-based position `k`) binds the index name to the `int` `k+1`
    and the item name to `xₖ` on top of `sc`. Both header names are ALWAYS bound, also when empty (absent from the
    header) or `_` (an ordinary name for `processRange`): Go builds `map[string]any{indexName: i, itemName: n}`; when the
    two names coincide the item wins (`EN.itemFrame`). -/
theorem rangeItems_slice (ty : String) (xs : List Val) (cap : Nat) (he : evalExpr cx sc e = (.ok (.slice ty xs cap), lg)) :
    rangeItems cx a sc =
      (.ok (xs.mapIdx fun k x => itemFrame (rangeHeader av).1 (rangeHeader av).2.1 (.int .int (k + 1)) x :: sc), lg) := by
  rw [rangeItems_spec, hv]; simp only [hp, he, rangePairs, map_mapIdx']

/-- **array**: as a slice -/
theorem rangeItems_array (ty : String) (xs : List Val) (he : evalExpr cx sc e = (.ok (.array ty xs), lg)) :
    rangeItems cx a sc =
      (.ok (xs.mapIdx fun k x => itemFrame (rangeHeader av).1 (rangeHeader av).2.1 (.int .int (k + 1)) x :: sc), lg) := by
  rw [rangeItems_spec, hv]; simp only [hp, he, rangePairs, map_mapIdx']

/-- **string**: its BYTES (UTF-8), as `uint8` values, with 1-based `int` index -/
theorem rangeItems_string (s : String) (he : evalExpr cx sc e = (.ok (.str s), lg)) :
    rangeItems cx a sc =
      (.ok (s.toUTF8.toList.mapIdx fun k b =>
        itemFrame (rangeHeader av).1 (rangeHeader av).2.1 (.int .int (k + 1)) (.int .uint8 b.toNat) :: sc), lg) := by
  rw [rangeItems_spec, hv]; simp only [hp, he, rangePairs, map_mapIdx']

/-- **map**: one scope per entry, binding the index name to the key (a string) and the item name to the value. The
    model enumerates the entries in the order of the value's entry list; Go's iteration order is unspecified, so a
    property may only rely on the items up to permutation (`rangeItems_map_perm`). -/
theorem rangeItems_map (ty : String) (kvs : List (String × Val)) (he : evalExpr cx sc e = (.ok (.map ty kvs), lg)) :
    rangeItems cx a sc =
      (.ok (kvs.map fun kv => itemFrame (rangeHeader av).1 (rangeHeader av).2.1 (.str kv.1) kv.2 :: sc), lg) := by
  rw [rangeItems_spec, hv]; simp only [hp, he, rangePairs, List.map_map]; rfl

/-- **nil / not a collection**: the error class `rangeKind`; the events of the evaluation are kept -/
theorem rangeItems_not_collection (obj : Val) (he : evalExpr cx sc e = (.ok obj, lg)) (hk : rangePairs obj = none) :
    rangeItems cx a sc = (.error .rangeKind, lg) := by
  rw [rangeItems_spec, hv]; simp only [hp, he, hk]

/-- **evaluation error**: that error -/
theorem rangeItems_eval_error (c : Cls) (he : evalExpr cx sc e = (.error c, lg)) :
    rangeItems cx a sc = (.error c, lg) := by
  rw [rangeItems_spec, hv]; simp only [hp, he]

/-- **empty collection** (of any kind): no child scope -/
theorem rangeItems_empty (obj : Val) (he : evalExpr cx sc e = (.ok obj, lg)) (hk : rangePairs obj = some []) :
    rangeItems cx a sc = (.ok [], lg) := by
  rw [rangeItems_spec, hv]; simp only [hp, he, hk, List.map_nil]

/-- **rangeItems_scopes_extend**: every child scope is `frame :: sc` — one new innermost frame (binding at most the two
    header names) on top of the UNCHANGED scope of the element -/
theorem rangeItems_scopes_extend (items : List (List Val)) (h : rangeItems cx a sc = (.ok items, lg)) :
    ∀ s ∈ items, ∃ i x, s = itemFrame (rangeHeader av).1 (rangeHeader av).2.1 i x :: sc := by
  rw [rangeItems_spec, hv] at h
  simp only [hp] at h
  rcases he : evalExpr cx sc e with ⟨c | obj, lg'⟩
  · rw [he] at h; cases h
  · rw [he] at h
    simp only at h
    cases hk : rangePairs obj with
    | none => rw [hk] at h; cases h
    | some prs =>
      rw [hk] at h
      simp only [Prod.mk.injEq, Except.ok.injEq] at h
      intro s hs
      rw [← h.1] at hs
      obtain ⟨p, _, rfl⟩ := List.mem_map.1 hs
      exact ⟨p.1, p.2, rfl⟩

end RangeKinds

/-- which values are nil / not a collection -/
theorem rangePairs_none_iff (obj : Val) :
    rangePairs obj = none ↔ (∀ ty xs cap, obj ≠ .slice ty xs cap) ∧ (∀ ty xs, obj ≠ .array ty xs) ∧ (∀ s, obj ≠ .str s) ∧
      (∀ ty kvs, obj ≠ .map ty kvs) := by
  cases obj <;> simp [rangePairs]

/-- which values are empty collections -/
theorem rangePairs_nil_iff (obj : Val) :
    rangePairs obj = some [] ↔ (∃ ty cap, obj = .slice ty [] cap) ∨ (∃ ty, obj = .array ty []) ∨
      (∃ s, obj = .str s ∧ s.toUTF8.toList = []) ∨ (∃ ty, obj = .map ty []) := by
  cases obj <;> simp [rangePairs]

/-- a rejected object expression -/
theorem rangeItems_bad_object (cx : Ctx) (a : CAttr) (sc : List Val) (av : String) (hv : a.value = some av)
    (hp : EL.parseCode (rangeHeader av).2.2 = .reject) : rangeItems cx a sc = (.error .rangeObject, []) := by
  rw [rangeItems_spec, hv]; simp only [hp]

/-- map order is not part of the property: permuting the entries of the map permutes the child scopes -/
theorem rangeItems_map_perm (iv xv : String) (sc : List Val) (kvs kvs' : List (String × Val)) (h : kvs.Perm kvs') :
    (kvs.map fun kv => itemFrame iv xv (.str kv.1) kv.2 :: sc).Perm (kvs'.map fun kv => itemFrame iv xv (.str kv.1) kv.2 :: sc) :=
  h.map _

/-- **lookup in an item scope**: the item name gives the item, the index name the index (the item wins when both names
    are equal), every other name is looked up in the scope of the element: loop variables shadow, outer bindings stay
    visible -/
theorem lookup_in_item_scope (iv xv : String) (i x : Val) (sc : List Val) (n : String) :
    EV.scopeGet (itemFrame iv xv i x :: sc) n =
      if n = xv then .found x else if n = iv then .found i else EV.scopeGet sc n :=
  scopeGet_itemFrame iv xv i x sc n

/-- … in terms of the evaluator: the item variable evaluates to the item -/
theorem item_var_evaluates (cx : Ctx) (iv xv : String) (i x : Val) (sc : List Val) :
    evalExpr cx (itemFrame iv xv i x :: sc) (.name xv) = (.ok x, []) := by
  rw [evalExpr_name, lookup_in_item_scope, if_pos rfl]

/-- … the index variable to the index -/
theorem index_var_evaluates (cx : Ctx) (iv xv : String) (i x : Val) (sc : List Val) (h : iv ≠ xv) :
    evalExpr cx (itemFrame iv xv i x :: sc) (.name iv) = (.ok i, []) := by
  rw [evalExpr_name, lookup_in_item_scope, if_neg h, if_pos rfl]

/-- … and any other variable as outside the loop -/
theorem outer_var_evaluates (cx : Ctx) (iv xv n : String) (i x : Val) (sc : List Val) (h1 : n ≠ xv) (h2 : n ≠ iv) :
    evalExpr cx (itemFrame iv xv i x :: sc) (.name n) = evalExpr cx sc (.name n) := by
  rw [evalExpr_name, evalExpr_name, lookup_in_item_scope, if_neg h1, if_neg h2]

/-! ## 4. end to end: `<li :range="i, x : xs" :text="${x}">`

The generic clauses `RN.Props.range_once_per_item` (one body per child scope of `env.rangeItems`) and
`C02.Render.text_emits_escaped` (the content chunk is `escapeHtml v` for `env.evalStr a sc = (.ok v, _)`) instantiated
with `rangeItems_slice` / `rangeItems_array`, `attrEvaluate_pure_block`, `item_var_evaluates`.

The compiled parts of the two attributes are HYPOTHESES (`hattrs`): `compileAttr` produces exactly these parts from the
source text (`EN.compileAttr_block` for `"${x}"`, given the token list of the code scanner; the parts of the `range`
attribute are irrelevant: `processRange` re-reads the VALUE) — the example in §5 obtains them from `loadFiles` on the
source text. Deriving them from the text for an arbitrary start position needs the position-independence of `CS.scan`
(open, see Props/C01idem.lean). -/

section EndToEnd
open RN RN.Spec RN.Props RN.Tie C02.Render

/-- the two directive attributes of `<li :range="i, x : xs" :text="${x}">` as `compileAttr` stores them -/
def liRange (rp : List Part) : CAttr := ⟨":range", some "\"i, x : xs\"", rp⟩
def liText (k : Nat) : CAttr := ⟨":text", some "\"${x}\"", [.other, .other, .code k, .other, .other]⟩

theorem classify_name (cfg : RN.Cfg) (n : String) (v : Option String) (ps : List Part) :
    classify cfg ⟨n, v, ps⟩ = classify cfg ⟨n, none, []⟩ := rfl

theorem liRange_class (rp : List Part) : classify {} (liRange rp) = .range := by
  rw [liRange, classify_name]; decide +kernel
theorem liText_class (k : Nat) : classify {} (liText k) = .text := by
  rw [liText, classify_name]; decide +kernel

theorem li_header : rangeHeader "\"i, x : xs\"" = ("i", "x", "xs") := by decide +kernel
theorem li_obj : EL.parseCode "xs" = .accept (.name "xs") := by rfl


theorem li_body (m : Mgr) (node : Node) (rp : List Part) (k : Nat)
    (htag : node.d.tagName = "li") (hattrs : node.d.attrs = [liRange rp, liText k])
    (hk : m.cx.exprs[k]! = .name "x")
    (f depth : Nat) (nc : NC) (i x : Val) (sc : List Val) (s : String) (hfm : fmtV x = some s)
    (hf : (refBody {} (envOf m) f depth nc node (itemFrame "i" "x" i x :: sc)).st ≠ .fuel) :
    refBody {} (envOf m) f depth nc node (itemFrame "i" "x" i x :: sc) =
      { st := .ok, out := ["<li>", RN.escapeHtml s] ++ endChunks node.endVal false, log := [], nc := nc } := by
  have hE : (envOf m).evalStr (liText k) (itemFrame "i" "x" i x :: sc) = (.ok s, []) := by
    show attrEvaluate m.cx (liText k) _ = _
    rw [liText, attrEvaluate_pure_block, hk, item_var_evaluates]
    simp only [hfm]
  have hnf : noFrag {} node.d = true := by
    rw [noFrag_iff, hattrs]
    intro a ha
    simp only [List.mem_cons, List.not_mem_nil, or_false] at ha
    rcases ha with rfl | rfl
    · simp [liRange_class]
    · simp [liText_class]
  have hio : initOpt {} node.d 3 = (false, .unset) := by
    rw [initOpt_noFrag hnf, htag]
    have : (trimSlash (RN.lowerS "li") == ({} : RN.Cfg).tagPrefix ++ "block") = false := by decide +kernel
    rw [this]
  have hA : AttrsOk {} (envOf m) f depth nc node (itemFrame "i" "x" i x :: sc) := by
    unfold AttrsOk
    rw [hattrs]
    simp [attrsRun, isCtl, liRange_class, liText_class, bodyStep, startPS, hio, PR.andThen]
  have h := text_emits_escaped {} (envOf m) f depth nc node _ [liRange rp] [] (liText k) s [] hf hA
    (by rw [hattrs]; rfl) (liText_class k) (by intro a ha; simp at ha; subst ha; simp [leavesUnset, liRange_class])
    (by intro a ha; cases ha) hnf hE
  rw [h]
  have hnp : noPrintOf {} node.d = false := by
    unfold noPrintOf
    rw [hattrs, hio]
    simp [optFold, optStep, liRange_class, liText_class, textOpt]
  have hst : startTag {} (envOf m) node.d (itemFrame "i" "x" i x :: sc) = "<li>" := by
    unfold startTag
    rw [hattrs, htag]
    simp only [List.map_cons, List.map_nil, attrText, liRange_class, liText_class]
    decide +kernel
  have hrl : restLog {} (envOf m) f depth nc node (itemFrame "i" "x" i x :: sc) = [] := by
    unfold restLog
    rw [hattrs]
    simp [attrLog, liRange_class, liText_class]
  rw [hnp, hst, hrl]
  rfl

/-- **range_text_concrete.** Manager `m` with the default prefixes (`hcfg`); `node` is an `li` element whose
    attributes are, in `SortedAttr` order, `:range="i, x : xs"` and `:text="${x}"` as compiled by the loader (`hattrs`:
    the `text` value is the five parts quote `${` block `}` quote, the block being entry `k` of the manager's
    expression table, which is the parse of `x`: `hk`; the parts `rp` of the range attribute are arbitrary). In the
    scope `sc` the variable `xs` is a slice or an array of values `x₁ … xₙ` (`hxs`, `hobj`) each of which has a
    modelled `%v` (`hfmt`: nil, bool, integers, strings, and slices / arrays / maps of these). The run is not out of
    fuel (`hf`). Then the element renders successfully to ONE chunk,

      `<li>` esc(fmt x₁) `</li>` sep `<li>` esc(fmt x₂) `</li>` sep … `<li>` esc(fmt xₙ) `</li>`

    (`esc` = `html.EscapeString`, `fmt` = `%v`, `</li>` = the end tag as written, nothing if the element was not
    closed; `sep` = the blank text that follows the element, nothing if what follows is not blank text); the chunk is
    `""` for `n = 0`. No events; the conditions are unchanged. The element's own children are not rendered. -/
theorem range_text_concrete (m : Mgr) (hcfg : rcfgOf m.cfg = {})
    (node : Node) (rp : List Part) (k : Nat)
    (hkind : node.d.kind = .tag) (htag : node.d.tagName = "li")
    (hattrs : node.d.attrs = [liRange rp, liText k])
    (hk : m.cx.exprs[k]! = .name "x")
    (sc : List Val) (obj : Val) (ty : String) (xs : List Val) (cap : Nat)
    (hxs : EV.scopeGet sc "xs" = .found obj) (hobj : obj = .slice ty xs cap ∨ obj = .array ty xs)
    (hfmt : ∀ x ∈ xs, ∃ s, fmtV x = some s)
    (f depth : Nat) (nc : NC)
    (hf : (refNode (rcfgOf m.cfg) (envOf m) f depth nc node sc).st ≠ .fuel) :
    refNode (rcfgOf m.cfg) (envOf m) f depth nc node sc =
      { st := .ok,
        out := [String.join ((xs.map fun x => "<li>" ++ RN.escapeHtml ((fmtV x).getD "") ++ node.endVal.getD "").intersperse
                  (node.d.nextBlank.getD ""))],
        log := [], nc := nc } := by
  rw [hcfg] at hf ⊢
  have hw : withPhase {} (envOf m) node.d sc = (.ok sc, []) := by
    unfold withPhase withAttr
    rw [hattrs]
    simp only [List.find?, liRange_class, liText_class]
    rfl
  have hc : condAttr {} node.d.attrs = none := by
    unfold condAttr
    rw [hattrs]
    simp only [List.findSome?, liRange_class, liText_class]
  have hr : rangeAttr {} node.d.attrs = some (liRange rp) := by
    unfold rangeAttr
    rw [hattrs]
    simp only [List.find?, liRange_class]
    rfl
  have hv : (liRange rp).value = some "\"i, x : xs\"" := rfl
  have hE : (envOf m).rangeItems (liRange rp) sc =
      (.ok (xs.zipIdx.map fun p => itemFrame "i" "x" (.int .int (p.2 + 1)) p.1 :: sc), []) := by
    have he : evalExpr m.cx sc (.name "xs") = (.ok obj, []) := by rw [evalExpr_name, hxs]
    have hp : EL.parseCode (rangeHeader "\"i, x : xs\"").2.2 = .accept (.name "xs") := by rw [li_header]; exact li_obj
    rcases hobj with rfl | rfl
    · have := rangeItems_slice m.cx (liRange rp) sc _ (.name "xs") [] hv hp ty xs cap he
      rw [li_header, List.mapIdx_eq_zipIdx_map] at this
      exact this
    · have := rangeItems_array m.cx (liRange rp) sc _ (.name "xs") [] hv hp ty xs he
      rw [li_header, List.mapIdx_eq_zipIdx_map] at this
      exact this
  obtain ⟨p1, _, p3⟩ := range_once_per_item {} (envOf m) f depth nc node sc sc [] [] (liRange rp) _ _ hkind hw hc hr hv hE hf
  rcases threadBodies_ok_or_fuel (fun nc sc => refBody {} (envOf m) f depth nc node sc)
      (fun p : Val × Nat => itemFrame "i" "x" (.int .int (p.2 + 1)) p.1 :: sc)
      (fun p => ["<li>", RN.escapeHtml ((fmtV p.1).getD "")] ++ endChunks node.endVal false) (fun _ => []) xs.zipIdx nc
      (by
        intro nc' p hp hfu
        obtain ⟨s, hs⟩ := hfmt p.1 (List.fst_mem_of_mem_zipIdx hp)
        rw [li_body m node rp k htag hattrs hk f depth nc' _ p.1 sc s hs hfu, hs]
        rfl) with hb | ⟨pre, r, post, h1, h2, h3⟩
  · have hall : ∀ r ∈ threadBodies (fun nc sc => refBody {} (envOf m) f depth nc node sc) nc
        (xs.zipIdx.map fun p => itemFrame "i" "x" (.int .int (p.2 + 1)) p.1 :: sc), r.st = .ok := by
      rw [hb]; intro r hr; obtain ⟨_, _, rfl⟩ := List.mem_map.1 hr; rfl
    obtain ⟨q1, q2, q3, q4⟩ := p1 hall
    rw [hb] at q2 q3 q4
    have hext : ∀ (q : Q) (a : Status) (b c : List String) (d : NC), q.st = a → q.out = b → q.log = c → q.nc = d →
        q = { st := a, out := b, log := c, nc := d } := by
      intro q a b c d h1 h2 h3 h4; cases q; simp_all
    refine hext _ _ _ _ _ q1 ?_ ?_ ?_
    · rw [q2, joinItems_true, List.map_map]
      have hfun : ((fun r : Q => String.join r.out) ∘ fun p : Val × Nat =>
            ({ st := .ok, out := ["<li>", RN.escapeHtml ((fmtV p.1).getD "")] ++ endChunks node.endVal false,
               log := [], nc := nc } : Q)) =
          (fun x : Val => "<li>" ++ RN.escapeHtml ((fmtV x).getD "") ++ node.endVal.getD "") ∘ Prod.fst := by
        funext p
        cases node.endVal <;> simp [endChunks, String.join, String.append_assoc]
      rw [hfun, ← List.map_map, List.zipIdx_map_fst]
    · rw [q3]
      simp only [List.nil_append, List.flatMap_eq_nil_iff]
      intro r hr; obtain ⟨_, _, rfl⟩ := List.mem_map.1 hr; rfl
    · rw [q4]
      exact lastNc_const nc _ (by intro r hr; obtain ⟨_, _, rfl⟩ := List.mem_map.1 hr; rfl)
  · have := (p3 pre r post h1 h2 (by rw [h3]; decide)).1
    rw [h3] at this
    exact (hf this).elim

/-- the same for the FAITHFUL renderer model `RN.exec` (re-entrant, with flags), through `RN.exec_refines_ref`: for a
    node with distinct ids and sorted attributes (`hu`, `hs`: every template of a loaded manager, `EN.loaded_manager_ok`)
    in an environment whose templates are well-formed (`htpl`: `EN.tplOK_of_inv`), flags clear (`hc`) -/
theorem range_text_concrete_exec (m : Mgr) (hcfg : rcfgOf m.cfg = {})
    (htpl : TplOK (rcfgOf m.cfg) (envOf m))
    (node : Node) (rp : List Part) (k : Nat)
    (hkind : node.d.kind = .tag) (htag : node.d.tagName = "li")
    (hattrs : node.d.attrs = [liRange rp, liText k])
    (hk : m.cx.exprs[k]! = .name "x")
    (sc : List Val) (obj : Val) (ty : String) (xs : List Val) (cap : Nat)
    (hxs : EV.scopeGet sc "xs" = .found obj) (hobj : obj = .slice ty xs cap ∨ obj = .array ty xs)
    (hfmt : ∀ x ∈ xs, ∃ s, fmtV x = some s)
    (fuel depth : Nat) (nc : NC) (fl : Fl)
    (hu : Uniq node) (hs : Sorted (rcfgOf m.cfg) node) (hc : ClearOn fl (RN.ids node))
    (hne : (exec (rcfgOf m.cfg) (envOf m) fuel depth nc fl node sc).st ≠ .fuel) :
    (exec (rcfgOf m.cfg) (envOf m) fuel depth nc fl node sc).toQ =
      { st := .ok,
        out := [String.join ((xs.map fun x => "<li>" ++ RN.escapeHtml ((fmtV x).getD "") ++ node.endVal.getD "").intersperse
                  (node.d.nextBlank.getD ""))],
        log := [], nc := nc } ∧
    (exec (rcfgOf m.cfg) (envOf m) fuel depth nc fl node sc).fl = fl := by
  obtain ⟨⟨g, hg⟩, hfl⟩ := exec_refines_ref _ _ htpl fuel depth nc fl node sc hu hs hc hne
  refine ⟨?_, hfl⟩
  rw [← hg]
  exact range_text_concrete m hcfg node rp k hkind htag hattrs hk sc obj ty xs cap hxs hobj hfmt g depth nc
    (by rw [hg]; exact hne)

end EndToEnd

/-! ## 5. examples (kernel-evaluated) and non-vacuity -/

namespace Examples
open RN RN.Spec RN.Props

/-- observable class of a lookup (`Val` has no `DecidableEq`) -/
def look : EV.Look → String
  | .found v => "found " ++ EV.canonDeep v
  | .absent => "absent"
  | .failed => "failed"

/-- the parts `compileParts` produces for a directive value, and the number of compiled blocks -/
def partsOf (v : String) : Option (List Part × Nat) :=
  match compileParts (CS.scan ⟨1, 1⟩ v.toList) #[] with
  | (.ok ps, tbl) => some (ps, tbl.size)
  | _ => none

/-- the part shapes of the corollaries of §1 and of `liRange` / `liText` are what the loader produces -/
example : partsOf "\"${x}\"" = some ([.other, .other, .code 0, .other, .other], 1) ∧
    partsOf "\"abc\"" = some ([.other, .lit "abc", .other], 0) ∧
    partsOf "\"a ${x} b\"" = some ([.other, .lit "a ", .other, .code 0, .other, .lit " b", .other], 1) ∧
    partsOf "'a := ${x}; b := ${y}'" =
      some ([.other, .lit "a := ", .other, .code 0, .other, .lit "; b := ", .other, .code 1, .other, .other], 2) ∧
    partsOf "\"i, x : xs\"" = some ([.other, .lit "i, x : xs", .other], 0) := by decide +kernel

def frame (kvs : List (String × Val)) : Val := .map "map[string]interface {}" kvs
/-- expression table: `x`, `y`, `1`, `w`, `nope`, `f` -/
def cx1 : Ctx := ⟨#[.name "x", .name "y", .lit "int" "1", .name "w", .name "nope", .name "f"], []⟩
def sc1 : List Val := [frame [("x", .int .int 7), ("y", .str "<b>"), ("w", .int .int 5), ("f", .f64 1.5)]]

/-- `Attr.Evaluate`: pure block, literal, mixture, first failing block (the later block is not evaluated), a value
    without modelled `%v` -/
example :
    attrEvaluate cx1 ⟨":title", some "\"${x}\"", [.other, .other, .code 0, .other, .other]⟩ sc1 = (.ok "7", []) ∧
    attrEvaluate cx1 ⟨":title", some "\"abc\"", [.other, .lit "abc", .other]⟩ sc1 = (.ok "abc", []) ∧
    attrEvaluate cx1 ⟨":title", some "\"a ${x} b\"", [.other, .lit "a ", .other, .code 0, .other, .lit " b", .other]⟩ sc1 =
      (.ok "a 7 b", []) ∧
    attrEvaluate cx1 ⟨":title", some "\"a ${nope} b ${x}\"",
        [.other, .lit "a ", .other, .code 4, .other, .lit " b", .other, .code 0, .other, .other]⟩ sc1 =
      (.error (.eval false true), []) ∧
    attrEvaluate cx1 ⟨":title", some "\"${f}!\"", [.other, .other, .code 5, .other, .lit "!", .other]⟩ sc1 =
      (.ok "!", [unsupportedEv]) ∧
    attrEvaluate cx1 ⟨"title", some "\"${x}\"", []⟩ sc1 = (.ok "\"${x}\"", []) ∧
    attrEvaluate cx1 ⟨":title", none, []⟩ sc1 = (.error .attrValueExpected, []) := by decide +kernel

/-- the hypotheses of `attrEvaluate_mixture` / `attrEvaluate_ok` / `attrEvaluate_err` are satisfiable -/
example : ∃ r, evalExpr cx1 sc1 cx1.exprs[0]! = (.ok r, []) ∧ fmtV r = some "7" :=
  ⟨.int .int 7, by rw [show cx1.exprs[0]! = .name "x" from rfl, evalExpr_name]; rfl, rfl⟩
example : partVal cx1 sc1 (.code 4) = (.error (.eval false true), []) ∧ IsOk (partVal cx1 sc1 (.lit "a ")).1 ∧
    IsOk (partVal cx1 sc1 (.code 0)).1 := by
  refine ⟨?_, trivial, ?_⟩
  · simp only [partVal, show cx1.exprs[4]! = .name "nope" from rfl, evalExpr_name]; rfl
  · simp only [partVal, show cx1.exprs[0]! = .name "x" from rfl, evalExpr_name]; trivial

/-- `WithAssign`: accepted and rejected syntax (missing `;`, `=` for `:=`, name without block, block without name, no
    assignment at all); blank literals are ignored; an empty name is accepted -/
example :
    waAccept [.other, .lit "a := ", .other, .code 0, .other, .lit "; b := ", .other, .code 1, .other, .other] =
      some [("a", 0), ("b", 1)] ∧
    waAccept [.other, .lit "a := ", .other, .code 0, .other, .lit " b := ", .other, .code 1, .other, .other] = none ∧
    waAccept [.other, .lit "a = ", .other, .code 0, .other, .other] = none ∧
    waAccept [.other, .lit "a := ", .other, .code 0, .other, .lit ";", .other] = none ∧
    waAccept [.other, .lit "a := ", .other, .code 0, .other, .other, .code 1, .other, .other] = none ∧
    waAccept [.other, .other] = none ∧
    waAccept [.other, .lit "  ", .other, .other, .lit " := ", .other, .code 3, .other, .lit "\n", .other] = some [("", 3)] := by
  decide +kernel

/-- `:with='w := ${1}; v := ${w}'` in a scope where `w = 5`: both blocks are evaluated in the OUTER scope, so `v = 5`
    (not 1); afterwards `w = 1` shadows the outer `w`, and `x` is still visible -/
def waAttr : CAttr :=
  ⟨":with", some "'w := ${1}; v := ${w}'",
    [.other, .lit "w := ", .other, .code 2, .other, .lit "; v := ", .other, .code 3, .other, .other]⟩

def waShown : Option (String × String × String × String × List String) :=
  match withAssign cx1 waAttr sc1 with
  | (.ok s, lg) => some (look (EV.scopeGet s "w"), look (EV.scopeGet s "v"), look (EV.scopeGet s "x"), look (EV.scopeGet s "q"), lg)
  | _ => none

example : waShown = some ("found int64:1", "found int:5", "found int:7", "absent", []) ∧
    waAccept waAttr.parts = some [("w", 2), ("v", 3)] := by decide +kernel

/-- the hypotheses of `lookup_after_with` / `name_after_with` hold for it -/
example : ∃ sc' lg, withAssign cx1 waAttr sc1 = (.ok sc', lg) ∧ waAccept waAttr.parts = some [("w", 2), ("v", 3)] ∧
    [("w", 2), ("v", 3)].reverse.find? (fun p => p.1 = "v") = some ("v", 3) := by
  have h : (match withAssign cx1 waAttr sc1 with | (.ok _, _) => true | _ => false) = true := by decide +kernel
  rcases hw : withAssign cx1 waAttr sc1 with ⟨c | sc', lg⟩
  · rw [hw] at h; cases h
  · exact ⟨sc', lg, rfl, by decide +kernel, by decide⟩

/-- `:with='a := ${x}; b := ${nope}; c := ${y}'`: the second block fails (no such value), the third is not evaluated -/
def waBad : CAttr :=
  ⟨":with", some "'a := ${x}; b := ${nope}; c := ${y}'",
    [.other, .lit "a := ", .other, .code 0, .other, .lit "; b := ", .other, .code 4, .other, .lit "; c := ", .other, .code 1,
     .other, .other]⟩

/-- the hypotheses of `withAssign_err` (and of `withAssign_ok` for the prefix) are satisfiable, and its conclusion is
    what the model computes -/
example : waAccept waBad.parts = some ([("a", 0)] ++ ("b", 4) :: [("c", 1)]) ∧
    (∀ q ∈ [("a", 0)], IsOk (evalExpr cx1 sc1 cx1.exprs[q.2]!).1) ∧
    evalExpr cx1 sc1 cx1.exprs[("b", 4).2]! = (.error (.eval false true), []) ∧
    (match withAssign cx1 waBad sc1 with | (.error c, lg) => c = .eval false true ∧ lg = [] | _ => False) := by
  have h3 : evalExpr cx1 sc1 cx1.exprs[("b", 4).2]! = (.error (.eval false true), []) := by
    rw [show cx1.exprs[("b", 4).2]! = .name "nope" from rfl, evalExpr_name]; rfl
  have h1 : waAccept waBad.parts = some ([("a", 0)] ++ ("b", 4) :: [("c", 1)]) := by decide +kernel
  have h2 : ∀ q ∈ [("a", 0)], IsOk (evalExpr cx1 sc1 cx1.exprs[q.2]!).1 := by
    intro q hq
    simp only [List.mem_cons, List.not_mem_nil, or_false] at hq
    subst hq
    rw [show cx1.exprs[("a", 0).2]! = .name "x" from rfl, evalExpr_name]; trivial
  refine ⟨h1, h2, h3, ?_⟩
  rw [withAssign_err cx1 waBad sc1 _ [("a", 0)] [("c", 1)] ("b", 4) _ _ rfl h1 h2 h3]
  refine ⟨rfl, ?_⟩
  simp only [List.flatMap_cons, List.flatMap_nil, pairLog, List.append_nil]
  rw [show cx1.exprs[("a", 0).2]! = .name "x" from rfl, evalExpr_name]; rfl

def rAttr (v : String) : CAttr := ⟨":range", some v, []⟩
def sc2 : List Val :=
  [frame [("xs", .slice "[]int" [.int .int 4, .int .int 5] 2), ("s", .str "hé"),
    ("m", .map "map[string]int" [("k", .int .int 1), ("j", .int .int 2)]), ("e", .slice "[]int" [] 0), ("n", .nil),
    ("i", .int .int 99)]]

def clsName : Cls → String
  | .eval s n => "eval " ++ toString s ++ " " ++ toString n
  | .rangeObject => "rangeObject" | .rangeKind => "rangeKind" | .attrValueExpected => "attrValueExpected"
  | _ => "other"

/-- index / item / outer variable `xs` as seen from every child scope -/
def showItems (r : Except Cls (List (List Val)) × List String) : List String :=
  match r with
  | (.ok items, _) =>
    items.map fun s => look (EV.scopeGet s "i") ++ "/" ++ look (EV.scopeGet s "x") ++ "/" ++ look (EV.scopeGet s "xs")
  | (.error c, _) => ["error " ++ clsName c]

/-- `processRange`: slice (1-based `int` index, the loop variable `i` shadows the outer `i = 99`, `xs` stays visible);
    `key : items` binds only the index; string = bytes (`é` is two bytes); map = entries (key as string); empty; nil;
    not a collection; unknown variable; not an expression; `_` is an ordinary name; no header -/
example :
    showItems (rangeItems cx1 (rAttr "\"i, x : xs\"") sc2) =
      ["found int:1/found int:4/found [int:4 int:5]", "found int:2/found int:5/found [int:4 int:5]"] ∧
    showItems (rangeItems cx1 (rAttr "\"x : xs\"") sc2) =
      ["found int:99/found int:1/found [int:4 int:5]", "found int:99/found int:2/found [int:4 int:5]"] ∧
    showItems (rangeItems cx1 (rAttr "\"i, x : s\"") sc2) =
      ["found int:1/found uint8:104/found [int:4 int:5]", "found int:2/found uint8:195/found [int:4 int:5]",
       "found int:3/found uint8:169/found [int:4 int:5]"] ∧
    showItems (rangeItems cx1 (rAttr "\"i, x : m\"") sc2) =
      ["found string:6b/found int:1/found [int:4 int:5]", "found string:6a/found int:2/found [int:4 int:5]"] ∧
    showItems (rangeItems cx1 (rAttr "\"i, x : e\"") sc2) = [] ∧
    showItems (rangeItems cx1 (rAttr "\"i, x : n\"") sc2) = ["error rangeKind"] ∧
    showItems (rangeItems cx1 (rAttr "\"i, x : i\"") sc2) = ["error rangeKind"] ∧
    showItems (rangeItems cx1 (rAttr "\"i, x : zz\"") sc2) = ["error eval false true"] ∧
    showItems (rangeItems cx1 (rAttr "\"i, x : )\"") sc2) = ["error rangeObject"] ∧
    showItems (rangeItems cx1 (rAttr "'_, x : xs'") sc2) =
      ["found int:99/found int:4/found [int:4 int:5]", "found int:99/found int:5/found [int:4 int:5]"] ∧
    showItems (rangeItems cx1 (rAttr "xs") sc2) =
      ["found int:99/absent/found [int:4 int:5]", "found int:99/absent/found [int:4 int:5]"] ∧
    showItems (rangeItems cx1 ⟨":range", none, []⟩ sc2) = ["error attrValueExpected"] := by decide +kernel

/-- the hypotheses of `rangeItems_slice` are satisfiable; its conclusion on this input -/
example : ∃ items, rangeItems cx1 (rAttr "\"i, x : xs\"") sc2 = (.ok items, []) ∧ items.length = 2 ∧
    ∀ s ∈ items, ∃ i x, s = itemFrame "i" "x" i x :: sc2 := by
  have hv : (rAttr "\"i, x : xs\"").value = some "\"i, x : xs\"" := rfl
  have hp : EL.parseCode (rangeHeader "\"i, x : xs\"").2.2 = .accept (.name "xs") := by rw [li_header]; exact li_obj
  have he : evalExpr cx1 sc2 (.name "xs") = (.ok (.slice "[]int" [.int .int 4, .int .int 5] 2), []) := by
    rw [evalExpr_name]
    unfold sc2
    rw [EV.scopeGet, frame, getValue_map]
    simp [List.find?]
  have h := rangeItems_slice cx1 _ sc2 _ _ [] hv hp _ _ _ he
  have h' := rangeItems_scopes_extend cx1 _ sc2 _ _ [] hv hp _ h
  rw [li_header] at h h'
  exact ⟨_, h, by simp, h'⟩

/-- headers -/
example : rangeHeader "\"i, x : xs\"" = ("i", "x", "xs") ∧ rangeHeader "'k : m'" = ("k", "", "m") ∧
    rangeHeader "xs" = ("", "", "xs") ∧ rangeHeader "\" i ,x:  data.items[0] \"" = ("i", "x", "data.items[0]") := by
  decide +kernel

/-! ### the end-to-end theorem on a loaded manager -/

def src : String := "<ul>\n <li :range=\"i, x : xs\" :text=\"${x}\">-</li>\n</ul>"

/-- the manager after loading the one file `t` -/
def m0 : Mgr := match loadFiles {} [] [("t", src)] with | .ok m => m | _ => emptyMgr {} []
def root0 : Node := match (envOf m0).tpl "t" with | some r => r | none => default
/-- the `li` element: second child of the `ul` element -/
def liOf (r : Node) : Node := match r.kids with | ul :: _ => (match ul.kids with | _ :: li :: _ => li | _ => r) | _ => r
def li0 : Node := liOf root0

def data : List Val :=
  [frame [("xs", .slice "[]interface {}" [.str "a<b", .str "c&d", .int .int 7, .slice "[]int" [.int .int 1, .int .int 2] 2] 4)], emptyMap]

def isNameX : EL.E → Bool | .name n => n == "x" | _ => false

/-- everything `range_text_concrete` asks of manager and node, as a Boolean; and the run itself -/
def liDemo : Bool :=
  (match loadFiles {} [] [("t", src)] with | .ok _ => true | _ => false) &&
  m0.cfg.tagPrefix == "t:" && m0.cfg.attrPrefix == ":" && decide (li0.d.kind = .tag) && li0.d.tagName == "li" &&
  li0.d.attrs == [liRange [.other, .lit "i, x : xs", .other], liText 0] && isNameX m0.cx.exprs[0]! &&
  li0.endVal == some "</li>" && li0.d.nextBlank == some "\n" &&
  decide ((refNode (rcfgOf m0.cfg) (envOf m0) 20 0 emptyNc li0 data).st ≠ .fuel) &&
  (refExecute (rcfgOf m0.cfg) (envOf m0) 50 root0 data).out ==
    ["", "<ul>", "\n ", "<li>a&lt;b</li>\n<li>c&amp;d</li>\n<li>7</li>\n<li>[1 2]</li>", "\n", "</ul>"] &&
  (execute (rcfgOf m0.cfg) (envOf m0) 50 root0 data).out ==
    ["", "<ul>", "\n ", "<li>a&lt;b</li>\n<li>c&amp;d</li>\n<li>7</li>\n<li>[1 2]</li>", "\n", "</ul>"] &&
  decide ((exec (rcfgOf m0.cfg) (envOf m0) 30 0 emptyNc emptyFl li0 data).st ≠ .fuel)

set_option maxRecDepth 100000 in
/-- the file loads; the `li` element is as `range_text_concrete` requires; specification and faithful model print the
    predicted document -/
theorem liDemo_true : liDemo = true := by decide +kernel

theorem rcfgOf_default (cfg : EN.Cfg) (h1 : cfg.tagPrefix = "t:") (h2 : cfg.attrPrefix = ":") : rcfgOf cfg = {} := by
  unfold rcfgOf; rw [h1, h2]

def xs0 : List Val := [.str "a<b", .str "c&d", .int .int 7, .slice "[]int" [.int .int 1, .int .int 2] 2]

theorem data_xs : EV.scopeGet data "xs" = .found (.slice "[]interface {}" xs0 4) := by
  unfold data
  rw [EV.scopeGet, frame, getValue_map]
  simp [List.find?, xs0]

theorem data_fmt : ∀ x ∈ xs0, ∃ s, fmtV x = some s := by
  intro x hx
  simp only [xs0, List.mem_cons, List.not_mem_nil, or_false] at hx
  rcases hx with rfl | rfl | rfl | rfl
  · exact ⟨_, rfl⟩
  · exact ⟨_, rfl⟩
  · exact ⟨_, rfl⟩
  · exact ⟨"[1 2]", by decide +kernel⟩

/-- **non-vacuity of `range_text_concrete`**: all its hypotheses hold for the `li` element of the loaded file
    (`liDemo_true`, `data_xs`, `data_fmt`), and its conclusion is the chunk that the run shows -/
theorem li0_renders : refNode (rcfgOf m0.cfg) (envOf m0) 20 0 emptyNc li0 data =
    { st := .ok, out := ["<li>a&lt;b</li>\n<li>c&amp;d</li>\n<li>7</li>\n<li>[1 2]</li>"], log := [], nc := emptyNc } := by
  have h := liDemo_true
  simp only [liDemo, Bool.and_eq_true, decide_eq_true_eq, beq_iff_eq] at h
  obtain ⟨⟨⟨⟨⟨⟨⟨⟨⟨⟨⟨⟨_, h1⟩, h2⟩, hkind⟩, htag⟩, hattrs⟩, hk⟩, hend⟩, hnb⟩, hf⟩, _⟩, _⟩, _⟩ := h
  have hk' : m0.cx.exprs[0]! = .name "x" := by
    cases he : m0.cx.exprs[0]! <;> simp only [he, isNameX] at hk <;> try (cases hk; done)
    rw [beq_iff_eq] at hk; rw [hk]
  rw [range_text_concrete m0 (rcfgOf_default _ h1 h2) li0 _ 0 hkind htag hattrs hk' data _ _ xs0 _ data_xs (.inl rfl) data_fmt
    20 0 emptyNc hf, hend, hnb]
  have : String.join ((xs0.map fun x => "<li>" ++ RN.escapeHtml ((fmtV x).getD "") ++ (some "</li>").getD "").intersperse
      ((some "\n").getD "")) = "<li>a&lt;b</li>\n<li>c&amp;d</li>\n<li>7</li>\n<li>[1 2]</li>" := by decide +kernel
  rw [this]

theorem sortedL_mem {cfg : RN.Cfg} : ∀ {ks : List Node} {k : Node}, SortedL cfg ks → k ∈ ks → Sorted cfg k
  | _ :: _, _, h, hk => by
    simp only [SortedL] at h
    rcases List.mem_cons.1 hk with rfl | hk
    · exact h.1
    · exact sortedL_mem h.2 hk

theorem uniqL_mem : ∀ {ks : List Node} {k : Node}, UniqL ks → k ∈ ks → Uniq k
  | _ :: _, _, h, hk => by
    simp only [UniqL] at h
    rcases List.mem_cons.1 hk with rfl | hk
    · exact h.1
    · exact uniqL_mem h.2 hk

theorem liOf_cases (r : Node) : liOf r = r ∨ ∃ ul ∈ r.kids, liOf r ∈ ul.kids := by
  unfold liOf
  cases h : r.kids with
  | nil => exact .inl rfl
  | cons ul rest =>
    simp only
    cases h2 : ul.kids with
    | nil => exact .inl rfl
    | cons a t =>
      cases t with
      | nil => exact .inl rfl
      | cons li t' => exact .inr ⟨ul, by simp, by rw [h2]; simp⟩

theorem liOf_ok {cfg : RN.Cfg} (r : Node) (hu : Uniq r) (hs : Sorted cfg r) : Uniq (liOf r) ∧ Sorted cfg (liOf r) := by
  rcases liOf_cases r with e | ⟨ul, h1, h2⟩
  · rw [e]; exact ⟨hu, hs⟩
  · exact ⟨uniqL_mem (uniqL_mem hu.kids h1).kids h2, sortedL_mem (sortedL_mem hs.kids h1).kids h2⟩

/-- **non-vacuity of `range_text_concrete_exec`**: the manager is loaded (hence `TplOK`, and the root of `t` has
    distinct ids and sorted attributes, so its `li` element has), the flags are clear, the run finishes -/
example : (exec (rcfgOf m0.cfg) (envOf m0) 30 0 emptyNc emptyFl li0 data).toQ =
    { st := .ok, out := ["<li>a&lt;b</li>\n<li>c&amp;d</li>\n<li>7</li>\n<li>[1 2]</li>"], log := [], nc := emptyNc } := by
  have h := liDemo_true
  simp only [liDemo, Bool.and_eq_true, decide_eq_true_eq, beq_iff_eq] at h
  obtain ⟨⟨⟨⟨⟨⟨⟨⟨⟨⟨⟨⟨hl, h1⟩, h2⟩, hkind⟩, htag⟩, hattrs⟩, hk⟩, hend⟩, hnb⟩, _⟩, _⟩, _⟩, hne⟩ := h
  have hk' : m0.cx.exprs[0]! = .name "x" := by
    cases he : m0.cx.exprs[0]! <;> simp only [he, isNameX] at hk <;> try (cases hk; done)
    rw [beq_iff_eq] at hk; rw [hk]
  have hload : loadFiles {} [] [("t", src)] = .ok m0 := by
    unfold m0
    cases hx : loadFiles {} [] [("t", src)] <;> simp only [hx] at hl ⊢ <;> cases hl
  have hcfg := rcfgOf_default _ h1 h2
  have hm0 : m0.cfg = {} := (loaded_manager_ok _ _ _ _ hload).1
  have htpl : TplOK (rcfgOf m0.cfg) (envOf m0) := by
    rw [hm0]; exact tplOK_of_inv {} m0 (loaded_manager_ok _ _ _ _ hload).2
  have hroot : (envOf m0).tpl "t" = some root0 := by
    unfold root0
    cases hx : (envOf m0).tpl "t" with
    | some r => rfl
    | none =>
      exfalso
      have : li0.d.tagName = (default : Node).d.tagName := by unfold li0 root0; rw [hx]; rfl
      rw [htag] at this
      revert this; decide +kernel
  obtain ⟨hu, hs⟩ := liOf_ok root0 (htpl "t" root0 hroot).1 (htpl "t" root0 hroot).2
  have := (range_text_concrete_exec m0 hcfg htpl li0 _ 0 hkind htag hattrs hk' data _ _ xs0 _ data_xs (.inl rfl) data_fmt
    30 0 emptyNc emptyFl hu hs (fun _ _ => rfl) hne).1
  rw [this, hend, hnb]
  have : String.join ((xs0.map fun x => "<li>" ++ RN.escapeHtml ((fmtV x).getD "") ++ (some "</li>").getD "").intersperse
      ((some "\n").getD "")) = "<li>a&lt;b</li>\n<li>c&amp;d</li>\n<li>7</li>\n<li>[1 2]</li>" := by decide +kernel
  rw [this]

end Examples

end Callbacks
