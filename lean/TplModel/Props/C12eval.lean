import TplModel.Proofs.EvalProofs
/-! # C12 (expression part): failures propagate; unselected operands are not evaluated

Statements about the total evaluator `EV.eval` (`TplModel/Exp/Eval.lean`, the model of `exp/visitor.go`), run in
`M = StateT St (Except Unit)`:  `eval fns data e st` is `.error ()` (a Go panic, turned into an error by
`Evaluate`'s recover) or `.ok (v, st')`; `st'.err` is the visitor's sticky `error` field, `st'.calls` the log of
user-function calls (newest first).  `Evaluate` returns `(v, st'.err)`; the driver (`Ops.evalOp`) and the template
engine (`Engine.evalExpr`) report a failure whenever `st'.err = some _` (`observe` below).

* `sticky_is_first_failure`, `sticky_exception_exact`   — with an error recorded every visit returns nil at once
* `short_circuit_and`, `short_circuit_or`, `cond_selects_true/false` — unselected operands contribute nothing
* `error_propagates_*`                                   — per constructor: the FIRST error survives the compound
* `nothing_called_after_failure`                          — at every depth: after the first failure no user function runs
* `calls_are_prefix_closed`, `no_value_for_failure`       — the log only grows; a recorded error is never cleared

FIXED FINDING (history): the visitor does not stop at a failure, it continues with `nil` substituted for the failed
operand.  `nil` can flow through `+` (string concatenation formats it as `<nil>`) and `==`/`!=` into a non-nil value,
so a callee expression evaluated AFTER a failure can still yield a function, and a call without arguments did not
re-check the error: `m["f" + nosuch]()` CALLED `m["f<nil>"]` although `nosuch` had failed (the error was still
returned, the side effect happened).  `VisitPrimaryExpr` now returns right after a failed primary expression
(`callStep` starts with the error check), so the callee case is as strict as all the others
(`error_propagates_callee`), the former witness calls nothing (`no_call_after_failure`) and the general statement
`nothing_called_after_failure` holds. -/
namespace EV
open EL (E)

/-! ## what `Evaluate` reports -/

/-- `Evaluate`: recovered panic, the recorded error, or the value -/
def observe : Except Unit (Val × St) → Out
  | .error _ => .panicked
  | .ok (v, st) => match st.err with | some e => .err e | none => .val v

/-- the run is reported as a failure (error or recovered panic), never as a value -/
def Failed (r : Except Unit (Val × St)) : Prop :=
  match r with
  | .error _ => True
  | .ok (_, st) => st.err.isSome = true

/-- a run that ends with a recorded error is a failure, whatever value it carries -/
theorem failed_of_err {v : Val} {s : St} {x : Err} (h : s.err = some x) : Failed (.ok (v, s)) := by
  simp [Failed, h]

/-! ## 1. stickiness -/

variable (fns : List (String × FnSpec)) (data : List Val)

/-- Once an error is recorded, evaluating ANY expression (outside the exception set) returns nil immediately:
    same error, same call log, same everything, no panic. -/
theorem sticky_is_first_failure {e : E} (hp : NoUncondPanic e) {st : St} {x : Err} (h : st.err = some x) :
    eval fns data e st = .ok (.nil, st) :=
  eval_of_err fns data hp h

/-- The exception set is exact: a literal of unknown kind panics from every state. -/
theorem sticky_exception_exact {e : E} (hp : ¬ NoUncondPanic e) (st : St) : eval fns data e st = .error () :=
  eval_uncond_panic fns data hp st

/-- … hence, for every expression: with an error recorded, a run that returns has changed nothing. -/
theorem sticky_any (e : E) {st s : St} {x : Err} {v : Val} (h : st.err = some x)
    (hr : eval fns data e st = .ok (v, s)) : v = .nil ∧ s = st :=
  eval_id_of_err fns data e h hr

/-- Unary `&` panics unconditionally — but after its guard and its operand: from a clean state whose operand
    evaluates, or from a state that records an error while the operand is evaluated. -/
theorem un_amp_panics {e : E} {st s1 : St} {v : Val} (h : st.err = none) (he : eval fns data e st = .ok (v, s1)) :
    eval fns data (.un "&" e) st = .error () := by
  rw [eval_un_eq fns data "&" h he]; rfl

/-- argument lists: with an error recorded nothing is evaluated -/
theorem sticky_args {as : List E} (hp : ∀ a ∈ as, NoUncondPanic a) {st : St} {x : Err} (h : st.err = some x) :
    evalArgs fns data as st = .ok (as.map (fun _ => Val.nil), st) :=
  evalArgs_of_err fns data hp h

/-! ## 2. short circuit -/

/-- `l && r` with `l ↦ false`: the result is `false` and the final state is the state after `l`: `r` contributes
    nothing (no value, no error, no call, no panic). -/
theorem short_circuit_and {l : E} (r : E) {st s1 : St} (h : st.err = none)
    (hl : eval fns data l st = .ok (.bool false, s1)) :
    eval fns data (.bin "&&" l r) st = .ok (.bool false, s1) := by
  rw [eval_and_eq fns data r h hl]; rfl

theorem short_circuit_or {l : E} (r : E) {st s1 : St} (h : st.err = none)
    (hl : eval fns data l st = .ok (.bool true, s1)) :
    eval fns data (.bin "||" l r) st = .ok (.bool true, s1) := by
  rw [eval_or_eq fns data r h hl]; rfl

/-- in particular the result does not depend on the unselected operand at all -/
theorem short_circuit_and_indep {l : E} (r r' : E) {st s1 : St} (h : st.err = none)
    (hl : eval fns data l st = .ok (.bool false, s1)) :
    eval fns data (.bin "&&" l r) st = eval fns data (.bin "&&" l r') st := by
  rw [short_circuit_and fns data r h hl, short_circuit_and fns data r' h hl]

theorem short_circuit_or_indep {l : E} (r r' : E) {st s1 : St} (h : st.err = none)
    (hl : eval fns data l st = .ok (.bool true, s1)) :
    eval fns data (.bin "||" l r) st = eval fns data (.bin "||" l r') st := by
  rw [short_circuit_or fns data r h hl, short_circuit_or fns data r' h hl]

/-- otherwise the right operand IS evaluated (from the state after `l`), and both must be bool -/
theorem and_evaluates_right {l : E} (r : E) {a : Val} {st s1 : St} (h : st.err = none)
    (hl : eval fns data l st = .ok (a, s1)) (ha : a ≠ .bool false) :
    eval fns data (.bin "&&" l r) st = (eval fns data r >>= fun b => logOp (· && ·) a b) s1 := by
  rw [eval_and_eq fns data r h hl]
  unfold andStep
  split
  · exact absurd rfl ha
  · rfl

theorem or_evaluates_right {l : E} (r : E) {a : Val} {st s1 : St} (h : st.err = none)
    (hl : eval fns data l st = .ok (a, s1)) (ha : a ≠ .bool true) :
    eval fns data (.bin "||" l r) st = (eval fns data r >>= fun b => logOp (· || ·) a b) s1 := by
  rw [eval_or_eq fns data r h hl]
  unfold orStep
  split
  · exact absurd rfl ha
  · rfl

/-- `c ? a : b` with `c ↦ true` has exactly the effects of `c` followed by `a`; `b` is never evaluated -/
theorem cond_selects_true {c : E} (a b : E) {st s1 : St} (h : st.err = none)
    (hc : eval fns data c st = .ok (.bool true, s1)) :
    eval fns data (.cond c a b) st = eval fns data a s1 := by
  rw [eval_cond_eq fns data a b h hc]; rfl

theorem cond_selects_false {c : E} (a b : E) {st s1 : St} (h : st.err = none)
    (hc : eval fns data c st = .ok (.bool false, s1)) :
    eval fns data (.cond c a b) st = eval fns data b s1 := by
  rw [eval_cond_eq fns data a b h hc]; rfl

/-- a condition that is not a bool: neither branch is evaluated, an error is recorded -/
theorem cond_not_bool {c : E} (a b : E) {cv : Val} {st s1 : St} (h : st.err = none)
    (hc : eval fns data c st = .ok (cv, s1)) (hcv : ∀ x, cv ≠ .bool x) :
    eval fns data (.cond c a b) st = setErr false false s1 := by
  rw [eval_cond_eq fns data a b h hc]
  unfold condStep
  split
  · exact absurd rfl (hcv true)
  · exact absurd rfl (hcv false)
  · rfl

/-! ## 3. an error recorded by an evaluated operand survives the compound

Shape: the operand, evaluated from the state in which the compound evaluates it (no error recorded so far), ends
in `s1` with `s1.err = some x`.  Then every normally-returning run of the compound ends with `err = some x` (the
FIRST error: later `SetError`s are dropped) and, except for the callee of a call, with the call log of `s1`
(nothing is called after the failure).  A run that does not return normally is a Go panic, which `Evaluate` turns
into an error as well: `Failed` in both cases (`error_propagates_failed`). -/

/-- the conclusion shared by the lemmas below -/
def KeepsErr (s1 : St) (x : Err) (r : Except Unit (Val × St)) : Prop :=
  ∀ v s, r = .ok (v, s) → s.err = some x ∧ s.calls = s1.calls

theorem KeepsErr.of_resp {s1 : St} {x : Err} {m : M Val} (hm : Resp RQ m) (hx : s1.err = some x) :
    KeepsErr s1 x (m s1) :=
  fun v s hr => hm s1 v s hr x hx

theorem KeepsErr.failed {s1 : St} {x : Err} {r : Except Unit (Val × St)} (h : KeepsErr s1 x r) : Failed r := by
  cases r with
  | error u => trivial
  | ok p => obtain ⟨v, s⟩ := p; exact failed_of_err (h v s rfl).1

theorem error_propagates_paren {e : E} {st s1 : St} {v : Val} {x : Err} (h : st.err = none)
    (he : eval fns data e st = .ok (v, s1)) (_hx : s1.err = some x) :
    eval fns data (.paren e) st = .ok (v, s1) := by
  rw [eval_paren_eq fns data e h, he]

theorem error_propagates_un (op : String) {e : E} {st s1 : St} {v : Val} {x : Err} (h : st.err = none)
    (he : eval fns data e st = .ok (v, s1)) (hx : s1.err = some x) :
    KeepsErr s1 x (eval fns data (.un op e) st) := by
  rw [eval_un_eq fns data op h he]
  exact KeepsErr.of_resp (Resp.ofN RQ.good (unOp_resp op v)) hx

/-- left operand of any binary operator (including `&&`, `||`) -/
theorem error_propagates_bin_left (op : String) {l : E} (r : E) {st s1 : St} {a : Val} {x : Err} (h : st.err = none)
    (hl : eval fns data l st = .ok (a, s1)) (hx : s1.err = some x) :
    KeepsErr s1 x (eval fns data (.bin op l r) st) := by
  rw [eval_bin_eq fns data op l r h]
  unfold binStep
  split
  · rw [bind_apply_ok hl]
    exact KeepsErr.of_resp (andStep_resp RQ.good a (eval_quiet fns data r)) hx
  · split
    · rw [bind_apply_ok hl]
      exact KeepsErr.of_resp (orStep_resp RQ.good a (eval_quiet fns data r)) hx
    · rw [bind_apply_ok hl]
      exact KeepsErr.of_resp
        (Resp.bind RQ.good (eval_quiet fns data r) (fun b => Resp.ofN RQ.good (binOp_resp fns op a b))) hx

/-- right operand of a binary operator, when it is evaluated (for `&&` / `||`: when the left one does not decide) -/
theorem error_propagates_bin_right {op : String} {l r : E} {st s1 s2 : St} {a b : Val} {x : Err} (h : st.err = none)
    (hl : eval fns data l st = .ok (a, s1)) (hand : op = "&&" → a ≠ .bool false) (hor : op = "||" → a ≠ .bool true)
    (hr : eval fns data r s1 = .ok (b, s2)) (hx : s2.err = some x) :
    KeepsErr s2 x (eval fns data (.bin op l r) st) := by
  by_cases h1 : op = "&&"
  · subst h1
    rw [and_evaluates_right fns data r h hl (hand rfl), bind_apply_ok hr]
    exact KeepsErr.of_resp (Resp.ofN RQ.good (logOp_resp _ a b)) hx
  · by_cases h2 : op = "||"
    · subst h2
      rw [or_evaluates_right fns data r h hl (hor rfl), bind_apply_ok hr]
      exact KeepsErr.of_resp (Resp.ofN RQ.good (logOp_resp _ a b)) hx
    · rw [eval_binop_eq fns data ⟨h1, h2⟩ h hl hr]
      exact KeepsErr.of_resp (Resp.ofN RQ.good (binOp_resp fns op a b)) hx

/-- the condition of `?:` (neither branch does anything then) -/
theorem error_propagates_cond {c : E} (a b : E) {st s1 : St} {cv : Val} {x : Err} (h : st.err = none)
    (hc : eval fns data c st = .ok (cv, s1)) (hx : s1.err = some x) :
    KeepsErr s1 x (eval fns data (.cond c a b) st) := by
  rw [eval_cond_eq fns data a b h hc]
  exact KeepsErr.of_resp (condStep_resp RQ.good cv (eval_quiet fns data a) (eval_quiet fns data b)) hx

/-- the selected branch of `?:` -/
theorem error_propagates_cond_branch {c a b : E} {st s1 s2 : St} {t : Bool} {v : Val} {x : Err} (h : st.err = none)
    (hc : eval fns data c st = .ok (.bool t, s1))
    (hs : eval fns data (if t then a else b) s1 = .ok (v, s2)) (_hx : s2.err = some x) :
    eval fns data (.cond c a b) st = .ok (v, s2) := by
  cases t
  · rw [cond_selects_false fns data a b h hc]; exact hs
  · rw [cond_selects_true fns data a b h hc]; exact hs

theorem error_propagates_field {e : E} (safe : Bool) (n : String) {st s1 : St} {pv : Val} {x : Err} (h : st.err = none)
    (he : eval fns data e st = .ok (pv, s1)) (hx : s1.err = some x) :
    KeepsErr s1 x (eval fns data (.field e safe n) st) := by
  rw [eval_field_eq fns data safe n h he]
  exact KeepsErr.of_resp (Resp.ofN RQ.good (lookRes_resp _)) hx

/-- the indexed operand of `e[i]` -/
theorem error_propagates_index_base {e : E} (i : E) {st s1 : St} {pv : Val} {x : Err} (h : st.err = none)
    (he : eval fns data e st = .ok (pv, s1)) (hx : s1.err = some x) :
    KeepsErr s1 x (eval fns data (.index e i) st) := by
  rw [eval, guardErr_ok h, bind_apply_ok he]
  exact KeepsErr.of_resp
    (Resp.bind RQ.good (eval_quiet fns data i) (fun iv => Resp.ofN RQ.good (indexOp_resp pv iv))) hx

/-- the index of `e[i]` -/
theorem error_propagates_index {e i : E} {st s1 s2 : St} {pv iv : Val} {x : Err} (h : st.err = none)
    (he : eval fns data e st = .ok (pv, s1)) (hi : eval fns data i s1 = .ok (iv, s2)) (hx : s2.err = some x) :
    KeepsErr s2 x (eval fns data (.index e i) st) := by
  rw [eval_index_eq fns data h he hi]
  exact KeepsErr.of_resp (Resp.ofN RQ.good (indexOp_resp pv iv)) hx

/-- the sliced operand of `e[lo:hi:cap]` -/
theorem error_propagates_slice_base {e : E} (lo hi cap : Option E) {st s1 : St} {pv : Val} {x : Err}
    (h : st.err = none) (he : eval fns data e st = .ok (pv, s1)) (hx : s1.err = some x) :
    KeepsErr s1 x (eval fns data (.slice e lo hi cap) st) := by
  rw [eval_slice_eq fns data lo hi cap h he]
  exact KeepsErr.of_resp (sliceStep_resp RQ.good pv _ (evalOpt_quiet fns data lo) (evalOpt_quiet fns data hi)
    (evalOpt_quiet fns data cap)) hx

/-- The callee of a call, with or without arguments, whatever value the failed callee expression yields (it need
    not be nil: `"f" + nosuch` is `"f<nil>"`): the call returns nil in the state right after the callee: the error
    is kept, no argument is evaluated, nothing is called. -/
theorem error_propagates_callee {e : E} (args : List E) (ell : Bool) {st s1 : St} {pv : Val} {x : Err}
    (h : st.err = none) (he : eval fns data e st = .ok (pv, s1)) (hx : s1.err = some x) :
    eval fns data (.call e args ell) st = .ok (.nil, s1) := by
  rw [eval_call_eq fns data args ell h he]
  exact callStep_of_err fns pv _ ell _ hx

/-- … in the shape of the other lemmas -/
theorem error_propagates_callee_keeps {e : E} (args : List E) (ell : Bool) {st s1 : St} {pv : Val} {x : Err}
    (h : st.err = none) (he : eval fns data e st = .ok (pv, s1)) (hx : s1.err = some x) :
    KeepsErr s1 x (eval fns data (.call e args ell) st) := by
  intro v s hr
  rw [error_propagates_callee fns data args ell h he hx] at hr
  cases hr
  exact ⟨hx, rfl⟩

/-- evaluation of an argument list splits at every position -/
theorem evalArgs_append (pre post : List E) (st : St) :
    evalArgs fns data (pre ++ post) st
      = (evalArgs fns data pre >>= fun vs => evalArgs fns data post >>= fun ws => pure (vs ++ ws)) st := by
  induction pre generalizing st with
  | nil =>
    rw [List.nil_append, evalArgs, bind_apply_ok (pure_apply _ _), bind_apply]
    cases evalArgs fns data post st with
    | error u => rfl
    | ok p => obtain ⟨ws, s⟩ := p; rfl
  | cons a rest ih =>
    simp only [List.cons_append, evalArgs, bind_apply]
    cases eval fns data a st with
    | error u => rfl
    | ok p =>
      obtain ⟨v, s1⟩ := p
      simp only [ih, bind_apply]
      cases evalArgs fns data rest s1 with
      | error u => rfl
      | ok q =>
        obtain ⟨vs, s2⟩ := q
        simp only [pure_apply]
        cases evalArgs fns data post s2 with
        | error u => rfl
        | ok q2 => obtain ⟨ws, s3⟩ := q2; rfl

theorem evalArgs_append_fn (pre post : List E) :
    evalArgs fns data (pre ++ post)
      = (evalArgs fns data pre >>= fun vs => evalArgs fns data post >>= fun ws => pure (vs ++ ws)) :=
  funext (evalArgs_append fns data pre post)

/-- An argument (at any position) that records an error: the arguments after it do nothing, the function is NOT
    called, the call returns nil in the state right after that argument. -/
theorem error_propagates_arg {e a : E} (pre post : List E) (ell : Bool) {st s1 s2 s3 : St} {pv v : Val}
    {vs : List Val} {x : Err} (h : st.err = none) (he : eval fns data e st = .ok (pv, s1)) (h1 : s1.err = none)
    (hf : isFuncVal pv = true) (hpre : evalArgs fns data pre s1 = .ok (vs, s2))
    (ha : eval fns data a s2 = .ok (v, s3)) (hx : s3.err = some x) :
    ∀ w s, eval fns data (.call e (pre ++ a :: post) ell) st = .ok (w, s) → w = .nil ∧ s = s3 := by
  intro w s hr
  rw [eval_call_eq fns data _ ell h he, callStep_of_ok fns pv _ ell _ h1] at hr
  have hemp : (pre ++ a :: post).isEmpty = false := by cases pre <;> rfl
  simp only [hf, hemp, Bool.not_true, Bool.false_eq_true, if_false] at hr
  rw [bind_apply, evalArgs_append, bind_apply_ok hpre, evalArgs, bind_apply, bind_apply_ok ha, bind_apply] at hr
  cases hpost : evalArgs fns data post s3 with
  | error u => rw [hpost] at hr; cases hr
  | ok q =>
    obtain ⟨ws, s4⟩ := q
    obtain rfl := evalArgs_id_of_err fns data post hx hpost
    rw [hpost] at hr
    simp only [pure_apply, bind_apply, hasErr_apply, hx, Option.isSome_some, if_true] at hr
    cases hr
    exact ⟨rfl, rfl⟩

/-- A user function that returns a non-nil error, or panics when entered: the call records an error (wrapping the
    sentinel in the first case) — no value is produced.  `callFn` describes the function's behaviour. -/
theorem error_propagates_fn_result {pv : Val} {vs : List Val} {s1 : St} (h1 : s1.err = none) :
    (∀ r q, callFn fns pv vs = .results [r, q] (some true) →
       ∃ s, invoke fns pv vs s1 = .ok (.nil, s) ∧ s.err = some ⟨true, false⟩) ∧
    (callFn fns pv vs = .panicInside → ∃ s, invoke fns pv vs s1 = .ok (.nil, s) ∧ s.err = some ⟨false, false⟩) ∧
    (callFn fns pv vs = .notEntered → ∃ s, invoke fns pv vs s1 = .ok (.nil, s) ∧ s.err = some ⟨false, false⟩) := by
  refine ⟨?_, ?_, ?_⟩
  · intro r q hc
    unfold invoke
    simp only [hc, if_true]
    split
    · split
      · rw [bind_apply_ok (logCall_apply _ _)]
        exact ⟨_, setErr_of_ok (by exact h1), rfl⟩
      · exact ⟨_, setErr_of_ok h1, rfl⟩
    · simp only [Bool.false_eq_true, if_false]
      exact ⟨_, setErr_of_ok h1, rfl⟩
  · intro hc
    unfold invoke
    simp only [hc]
    split
    · split
      · rw [bind_apply_ok (logCall_apply _ _)]
        exact ⟨_, setErr_of_ok (by exact h1), rfl⟩
      · exact ⟨_, setErr_of_ok h1, rfl⟩
    · simp only [Bool.false_eq_true, if_false]
      exact ⟨_, setErr_of_ok h1, rfl⟩
  · intro hc
    unfold invoke
    simp only [hc]
    exact ⟨_, setErr_of_ok h1, rfl⟩

/-- summary: in every case above the compound is reported as a failure -/
theorem error_propagates_failed {s1 : St} {x : Err} {r : Except Unit (Val × St)} (h : KeepsErr s1 x r) : Failed r :=
  h.failed

/-! ## 3b. … at every depth

`EvalAt e st e' st'`: while `e` is evaluated from `st`, its sub-expression `e'` is evaluated from `st'`; the rules
follow the evaluation order of the visitor (operands that `&&`, `||`, `?:` do not select are NOT reachable).
`error_propagates_deep`: an error recorded by a sub-expression evaluated at any depth is the error of the whole. -/

/-- `r` is the sub-evaluation `m` run from `s_in`, followed by a continuation that keeps a recorded error, only
    extends the call log and — once an error is recorded — does not touch the log at all (`RS`) -/
def Through (r : Except Unit (Val × St)) (m : M Val) (s_in : St) : Prop :=
  ∃ k : Val → M Val, (∀ v, Resp RS (k v)) ∧ r = (m >>= k) s_in

/-- an error recorded by the sub-evaluation is the error of the whole, and the log stays as the sub-evaluation
    left it -/
theorem Through.keeps {r : Except Unit (Val × St)} {m : M Val} {s_in s1 : St} {v : Val} {x : Err}
    (h : Through r m s_in) (hm : m s_in = .ok (v, s1)) (hx : s1.err = some x) : KeepsErr s1 x r := by
  obtain ⟨k, hk, rfl⟩ := h
  intro w s hr
  rw [bind_apply_ok hm] at hr
  exact (hk v s1 w s hr).2 x hx

/-- whatever the sub-evaluation does: the log it leaves is extended, never rewritten -/
theorem Through.log_grows {r : Except Unit (Val × St)} {m : M Val} {s_in s1 : St} {v : Val}
    (h : Through r m s_in) (hm : m s_in = .ok (v, s1)) : ∀ w s, r = .ok (w, s) → s1.calls <:+ s.calls := by
  obtain ⟨k, hk, rfl⟩ := h
  intro w s hr
  rw [bind_apply_ok hm] at hr
  exact (hk v s1 w s hr).1.2

/-- a panic of the sub-evaluation is a panic of the whole -/
theorem Through.panics {r : Except Unit (Val × St)} {m : M Val} {s_in : St} (h : Through r m s_in)
    (hp : m s_in = .error ()) : r = .error () := by
  obtain ⟨k, _, rfl⟩ := h
  exact bind_apply_error hp

theorem Through.self (m : M Val) (s : St) : Through (m s) m s :=
  ⟨pure, fun v => Resp.pure RS.good v, by rw [bind_pure]⟩

theorem Through.trans {r : Except Unit (Val × St)} {m m' : M Val} {s s' : St} (h1 : Through r m s)
    (h2 : Through (m s) m' s') : Through r m' s' := by
  obtain ⟨k1, hk1, rfl⟩ := h1
  obtain ⟨k2, hk2, h2⟩ := h2
  refine ⟨fun v => fun t => match k2 v t with | .ok (w, t') => k1 w t' | .error u => .error u, ?_, ?_⟩
  · intro v t w t'' hr
    simp only at hr
    cases hk : k2 v t with
    | error u => rw [hk] at hr; cases hr
    | ok p =>
      obtain ⟨w', t'⟩ := p
      rw [hk] at hr
      exact RS.good.trans (hk2 v t w' t' hk) (hk1 w' t' w t'' hr)
  · rw [bind_apply, h2, bind_apply, bind_apply]
    cases m' s' with
    | error u => rfl
    | ok p =>
      obtain ⟨v, t⟩ := p
      simp only
      cases k2 v t with
      | error u => rfl
      | ok q => obtain ⟨w, t'⟩ := q; rfl

section through
variable {st s1 s2 s3 : St}

theorem through_paren {e : E} (h : st.err = none) : Through (eval fns data (.paren e) st) (eval fns data e) st := by
  rw [eval_paren_eq fns data e h]; exact Through.self _ _

theorem through_un (op : String) {e : E} (h : st.err = none) :
    Through (eval fns data (.un op e) st) (eval fns data e) st := by
  rw [eval, guardErr_ok h]
  exact ⟨_, fun v => Resp.ofN RS.good (unOp_resp op v), rfl⟩

theorem through_bin_left (op : String) (l r : E) (h : st.err = none) :
    Through (eval fns data (.bin op l r) st) (eval fns data l) st := by
  rw [eval_bin_eq fns data op l r h]
  unfold binStep
  split
  · exact ⟨_, fun a => andStep_resp RS.good a (eval_rs fns data r), rfl⟩
  · split
    · exact ⟨_, fun a => orStep_resp RS.good a (eval_rs fns data r), rfl⟩
    · exact ⟨_, fun a => Resp.bind RS.good (eval_rs fns data r)
        (fun b => Resp.ofN RS.good (binOp_resp fns op a b)), rfl⟩

theorem through_bin_right {op : String} {l : E} (r : E) {a : Val} (h : st.err = none)
    (hl : eval fns data l st = .ok (a, s1)) (hand : op = "&&" → a ≠ .bool false) (hor : op = "||" → a ≠ .bool true) :
    Through (eval fns data (.bin op l r) st) (eval fns data r) s1 := by
  by_cases h1 : op = "&&"
  · subst h1
    rw [and_evaluates_right fns data r h hl (hand rfl)]
    exact ⟨_, fun b => Resp.ofN RS.good (logOp_resp _ a b), rfl⟩
  · by_cases h2 : op = "||"
    · subst h2
      rw [or_evaluates_right fns data r h hl (hor rfl)]
      exact ⟨_, fun b => Resp.ofN RS.good (logOp_resp _ a b), rfl⟩
    · rw [eval_bin_eq fns data op l r h]
      unfold binStep
      rw [if_neg h1, if_neg h2, bind_apply_ok hl]
      exact ⟨_, fun b => Resp.ofN RS.good (binOp_resp fns op a b), rfl⟩

theorem through_cond (c a b : E) (h : st.err = none) :
    Through (eval fns data (.cond c a b) st) (eval fns data c) st := by
  rw [eval, guardErr_ok h]
  exact ⟨_, fun cv => condStep_resp RS.good cv (eval_rs fns data a) (eval_rs fns data b), rfl⟩

theorem through_cond_branch {c : E} (a b : E) {t : Bool} (h : st.err = none)
    (hc : eval fns data c st = .ok (.bool t, s1)) :
    Through (eval fns data (.cond c a b) st) (eval fns data (if t then a else b)) s1 := by
  cases t
  · rw [cond_selects_false fns data a b h hc]; exact Through.self _ _
  · rw [cond_selects_true fns data a b h hc]; exact Through.self _ _

theorem through_field (e : E) (safe : Bool) (n : String) (h : st.err = none) :
    Through (eval fns data (.field e safe n) st) (eval fns data e) st := by
  rw [eval, guardErr_ok h]
  exact ⟨_, fun pv => Resp.ofN RS.good (lookRes_resp _), rfl⟩

theorem through_index_base (e i : E) (h : st.err = none) :
    Through (eval fns data (.index e i) st) (eval fns data e) st := by
  rw [eval, guardErr_ok h]
  exact ⟨_, fun pv => Resp.bind RS.good (eval_rs fns data i)
    (fun iv => Resp.ofN RS.good (indexOp_resp pv iv)), rfl⟩

theorem through_index {e : E} (i : E) {pv : Val} (h : st.err = none) (he : eval fns data e st = .ok (pv, s1)) :
    Through (eval fns data (.index e i) st) (eval fns data i) s1 := by
  rw [eval, guardErr_ok h, bind_apply_ok he]
  exact ⟨_, fun iv => Resp.ofN RS.good (indexOp_resp pv iv), rfl⟩

theorem through_slice_base (e : E) (lo hi cap : Option E) (h : st.err = none) :
    Through (eval fns data (.slice e lo hi cap) st) (eval fns data e) st := by
  rw [eval, guardErr_ok h]
  exact ⟨_, fun pv => sliceStep_resp RS.good pv _ (evalOpt_rs fns data lo) (evalOpt_rs fns data hi)
    (evalOpt_rs fns data cap), rfl⟩

/-- discharge the `Resp RS` obligation of the remainder of `sliceStep` -/
local macro "slice_rest" fns:term:max data:term:max : tactic =>
  `(tactic| repeat' (first
      | exact evalOpt_rs $fns $data _ _
      | exact Resp.pure RS.good _ | exact Resp.setErr RS.good _ _ | exact Resp.unsupp RS.good | exact Resp.goPanic
      | (refine Resp.bind RS.good ?_ (fun _ => ?_))
      | (dsimp only)
      | split))

theorem through_slice_lo {e : E} (ex : E) (hi cap : Option E) {pv : Val} {t : String × List Val × Nat}
    (h : st.err = none) (he : eval fns data e st = .ok (pv, s1)) (hpv : asSlice pv = some t) :
    Through (eval fns data (.slice e (some ex) hi cap) st) (eval fns data ex) s1 := by
  obtain ⟨sty, xs, c⟩ := t
  rw [eval_slice_eq fns data _ hi cap h he]
  unfold sliceStep
  simp only [hpv, evalOpt, bind_assoc, pure_bind]
  exact ⟨_, fun v => by slice_rest fns data, rfl⟩

theorem through_slice_hi {e : E} (lo : Option E) (ex : E) (cap : Option E) {pv : Val} {t : String × List Val × Nat}
    {i : Int} (h : st.err = none) (he : eval fns data e st = .ok (pv, s1)) (hpv : asSlice pv = some t)
    (hlo : evalOpt fns data lo 0 s1 = .ok (some i, s2)) :
    Through (eval fns data (.slice e lo (some ex) cap) st) (eval fns data ex) s2 := by
  obtain ⟨sty, xs, c⟩ := t
  rw [eval_slice_eq fns data lo _ cap h he]
  unfold sliceStep
  simp only [hpv]
  rw [bind_apply_ok hlo]
  simp only [evalOpt, bind_assoc, pure_bind]
  exact ⟨_, fun v => by slice_rest fns data, rfl⟩

theorem through_slice_cap {e : E} (lo hi : Option E) (ex : E) {pv : Val} {t : String × List Val × Nat}
    {i j : Int} (h : st.err = none) (he : eval fns data e st = .ok (pv, s1)) (hpv : asSlice pv = some t)
    (hlo : evalOpt fns data lo 0 s1 = .ok (some i, s2))
    (hhi : evalOpt fns data hi t.2.1.length s2 = .ok (some j, s3)) :
    Through (eval fns data (.slice e lo hi (some ex)) st) (eval fns data ex) s3 := by
  obtain ⟨sty, xs, c⟩ := t
  rw [eval_slice_eq fns data lo hi _ h he]
  unfold sliceStep
  simp only [hpv]
  rw [bind_apply_ok hlo]
  simp only
  rw [bind_apply_ok hhi]
  simp only [Option.isSome_some, Bool.not_true, Bool.false_eq_true, if_false, evalOpt, bind_assoc, pure_bind]
  exact ⟨_, fun v => by slice_rest fns data, rfl⟩

theorem through_callee (e : E) (args : List E) (ell : Bool) (h : st.err = none) :
    Through (eval fns data (.call e args ell) st) (eval fns data e) st := by
  rw [eval, guardErr_ok h]
  exact ⟨_, fun pv => callStep_rs fns pv _ ell (evalArgs_mono fns data args), rfl⟩

theorem through_arg {e : E} (pre : List E) (a : E) (post : List E) (ell : Bool) {pv : Val} {vs : List Val}
    (h : st.err = none) (he : eval fns data e st = .ok (pv, s1)) (h1 : s1.err = none) (hf : isFuncVal pv = true)
    (hpre : evalArgs fns data pre s1 = .ok (vs, s2)) :
    Through (eval fns data (.call e (pre ++ a :: post) ell) st) (eval fns data a) s2 := by
  rw [eval_call_eq fns data _ ell h he, callStep_of_ok fns pv _ ell _ h1]
  have hemp : (pre ++ a :: post).isEmpty = false := by cases pre <;> rfl
  simp only [hf, hemp, Bool.not_true, Bool.false_eq_true, if_false]
  rw [evalArgs_append_fn, bind_assoc, bind_apply_ok hpre]
  simp only [evalArgs, bind_assoc, pure_bind]
  exact ⟨_, fun v => callRest_rs fns pv ell (evalArgs_rs fns data post) (fun ws => vs ++ v :: ws), rfl⟩

end through

/-- the sub-expression occurrences that ARE evaluated, with the state they are evaluated from -/
inductive EvalAt : E → St → E → St → Prop
  | here (e : E) (st : St) : EvalAt e st e st
  | paren {e e' : E} {st st' : St} : st.err = none → EvalAt e st e' st' → EvalAt (.paren e) st e' st'
  | un (op : String) {e e' : E} {st st' : St} : st.err = none → EvalAt e st e' st' → EvalAt (.un op e) st e' st'
  | binL (op : String) {l : E} (r : E) {e' : E} {st st' : St} :
      st.err = none → EvalAt l st e' st' → EvalAt (.bin op l r) st e' st'
  | binR {op : String} {l r e' : E} {st s1 st' : St} {a : Val} :
      st.err = none → eval fns data l st = .ok (a, s1) → (op = "&&" → a ≠ .bool false) →
      (op = "||" → a ≠ .bool true) → EvalAt r s1 e' st' → EvalAt (.bin op l r) st e' st'
  | condC {c : E} (a b : E) {e' : E} {st st' : St} :
      st.err = none → EvalAt c st e' st' → EvalAt (.cond c a b) st e' st'
  | condB {c a b e' : E} {st s1 st' : St} {t : Bool} :
      st.err = none → eval fns data c st = .ok (.bool t, s1) → EvalAt (if t then a else b) s1 e' st' →
      EvalAt (.cond c a b) st e' st'
  | field {e : E} (safe : Bool) (n : String) {e' : E} {st st' : St} :
      st.err = none → EvalAt e st e' st' → EvalAt (.field e safe n) st e' st'
  | indexB {e : E} (i : E) {e' : E} {st st' : St} :
      st.err = none → EvalAt e st e' st' → EvalAt (.index e i) st e' st'
  | indexI {e i e' : E} {st s1 st' : St} {pv : Val} :
      st.err = none → eval fns data e st = .ok (pv, s1) → EvalAt i s1 e' st' → EvalAt (.index e i) st e' st'
  | sliceB {e : E} (lo hi cap : Option E) {e' : E} {st st' : St} :
      st.err = none → EvalAt e st e' st' → EvalAt (.slice e lo hi cap) st e' st'
  | sliceLo {e ex : E} (hi cap : Option E) {e' : E} {st s1 st' : St} {pv : Val} {t : String × List Val × Nat} :
      st.err = none → eval fns data e st = .ok (pv, s1) → asSlice pv = some t → EvalAt ex s1 e' st' →
      EvalAt (.slice e (some ex) hi cap) st e' st'
  | sliceHi {e ex : E} (lo cap : Option E) {e' : E} {st s1 s2 st' : St} {pv : Val} {t : String × List Val × Nat}
      {i : Int} :
      st.err = none → eval fns data e st = .ok (pv, s1) → asSlice pv = some t →
      evalOpt fns data lo 0 s1 = .ok (some i, s2) → EvalAt ex s2 e' st' →
      EvalAt (.slice e lo (some ex) cap) st e' st'
  | sliceCap {e ex : E} (lo hi : Option E) {e' : E} {st s1 s2 s3 st' : St} {pv : Val}
      {t : String × List Val × Nat} {i j : Int} :
      st.err = none → eval fns data e st = .ok (pv, s1) → asSlice pv = some t →
      evalOpt fns data lo 0 s1 = .ok (some i, s2) → evalOpt fns data hi t.2.1.length s2 = .ok (some j, s3) →
      EvalAt ex s3 e' st' → EvalAt (.slice e lo hi (some ex)) st e' st'
  | callee {e : E} (args : List E) (ell : Bool) {e' : E} {st st' : St} :
      st.err = none → EvalAt e st e' st' → EvalAt (.call e args ell) st e' st'
  | arg {e : E} (pre : List E) {a : E} (post : List E) (ell : Bool) {e' : E} {st s1 s2 st' : St} {pv : Val}
      {vs : List Val} :
      st.err = none → eval fns data e st = .ok (pv, s1) → s1.err = none → isFuncVal pv = true →
      evalArgs fns data pre s1 = .ok (vs, s2) → EvalAt a s2 e' st' →
      EvalAt (.call e (pre ++ a :: post) ell) st e' st'

/-- the whole evaluation goes through every evaluated occurrence -/
theorem EvalAt.through {e e' : E} {st st' : St} (h : EvalAt fns data e st e' st') :
    Through (eval fns data e st) (eval fns data e') st' := by
  induction h with
  | here e st => exact Through.self _ _
  | paren h _ ih => exact Through.trans (through_paren fns data h) ih
  | un op h _ ih => exact Through.trans (through_un fns data op h) ih
  | binL op r h _ ih => exact Through.trans (through_bin_left fns data op _ r h) ih
  | binR h hl hand hor _ ih => exact Through.trans (through_bin_right fns data _ h hl hand hor) ih
  | condC a b h _ ih => exact Through.trans (through_cond fns data _ a b h) ih
  | condB h hc _ ih => exact Through.trans (through_cond_branch fns data _ _ h hc) ih
  | field safe n h _ ih => exact Through.trans (through_field fns data _ safe n h) ih
  | indexB i h _ ih => exact Through.trans (through_index_base fns data _ i h) ih
  | indexI h he _ ih => exact Through.trans (through_index fns data _ h he) ih
  | sliceB lo hi cap h _ ih => exact Through.trans (through_slice_base fns data _ lo hi cap h) ih
  | sliceLo hi cap h he hpv _ ih => exact Through.trans (through_slice_lo fns data _ hi cap h he hpv) ih
  | sliceHi lo cap h he hpv hlo _ ih => exact Through.trans (through_slice_hi fns data lo _ cap h he hpv hlo) ih
  | sliceCap lo hi h he hpv hlo hhi _ ih => exact Through.trans (through_slice_cap fns data lo hi _ h he hpv hlo hhi) ih
  | callee args ell h _ ih => exact Through.trans (through_callee fns data _ args ell h) ih
  | arg pre post ell h he h1 hf hpre _ ih => exact Through.trans (through_arg fns data pre _ post ell h he h1 hf hpre) ih

/-- NOTHING IS CALLED AFTER A FAILURE, anywhere in the expression: if a sub-expression occurrence that is evaluated
    (from `st'`, at any depth, in any operand position the visitor reaches) ends with the error `x` recorded, in
    state `s1`, then every normally-returning run of the whole expression ends with exactly this error and with
    the call log of `s1`: no user function runs after the first failure.  (A run that does not return normally is
    a Go panic: see `panic_propagates_deep`; calls made BEFORE the failure stay in the log, `calls_before_failure_kept`.) -/
theorem nothing_called_after_failure {e e' : E} {st st' s1 : St} {v : Val} {x : Err}
    (h : EvalAt fns data e st e' st') (he : eval fns data e' st' = .ok (v, s1)) (hx : s1.err = some x) :
    ∀ w s, eval fns data e st = .ok (w, s) → s.err = some x ∧ s.calls = s1.calls :=
  (EvalAt.through fns data h).keeps he hx

/-- the log a sub-evaluation leaves is only extended by the rest of the evaluation -/
theorem calls_before_failure_kept {e e' : E} {st st' s1 : St} {v : Val}
    (h : EvalAt fns data e st e' st') (he : eval fns data e' st' = .ok (v, s1)) :
    ∀ w s, eval fns data e st = .ok (w, s) → s1.calls <:+ s.calls :=
  (EvalAt.through fns data h).log_grows he

/-- the same with the place of the first failure made explicit: the occurrence `e'` is entered without a recorded
    error and left with one.  The calls of the whole run are exactly those made up to that point. -/
theorem first_failure_freezes_log {e e' : E} {st st' s1 s : St} {v w : Val} {x : Err}
    (h : EvalAt fns data e st e' st') (_h0 : st'.err = none) (he : eval fns data e' st' = .ok (v, s1))
    (hx : s1.err = some x) (hr : eval fns data e st = .ok (w, s)) :
    s.err = some x ∧ s.calls = s1.calls ∧ st.calls <:+ s1.calls := by
  obtain ⟨h1, h2⟩ := nothing_called_after_failure fns data h he hx w s hr
  exact ⟨h1, h2, h2 ▸ (eval_mono fns data e st w s hr).2⟩

/-- FAILURES PROPAGATE, at every depth: if a sub-expression occurrence that is evaluated (from `st'`) records the
    error `x`, then the whole evaluation either panics (reported as an error by `Evaluate`) or returns with exactly
    this error recorded — it is never reported as a value. -/
theorem error_propagates_deep {e e' : E} {st st' s1 : St} {v : Val} {x : Err} (h : EvalAt fns data e st e' st')
    (he : eval fns data e' st' = .ok (v, s1)) (hx : s1.err = some x) :
    (∀ w s, eval fns data e st = .ok (w, s) → s.err = some x) ∧ Failed (eval fns data e st) := by
  have key : ∀ w s, eval fns data e st = .ok (w, s) → s.err = some x :=
    fun w s hr => (nothing_called_after_failure fns data h he hx w s hr).1
  refine ⟨key, ?_⟩
  cases hr : eval fns data e st with
  | error u => trivial
  | ok p => obtain ⟨w, s⟩ := p; exact failed_of_err (key w s hr)

/-- … and a Go panic in an evaluated sub-expression (nil dereference, division by zero, uncomparable `==`, …)
    unwinds to `Evaluate`: the whole evaluation panics. -/
theorem panic_propagates_deep {e e' : E} {st st' : St} (h : EvalAt fns data e st e' st')
    (he : eval fns data e' st' = .error ()) : eval fns data e st = .error () :=
  (EvalAt.through fns data h).panics he

/-! ## 4. the log only grows; a recorded error is never cleared -/

/-- `st.calls` (newest first) is a suffix of the final log: chronologically, what was called before stays a prefix -/
theorem calls_are_prefix_closed (e : E) {st s : St} {v : Val} (hr : eval fns data e st = .ok (v, s)) :
    st.calls <:+ s.calls ∧ st.calls.reverse <+: s.calls.reverse := by
  have := (eval_mono fns data e st v s hr).2
  exact ⟨this, List.reverse_prefix.2 this⟩

/-- `eval` never clears (or replaces) a recorded error: `Evaluate` then returns a non-nil error -/
theorem no_value_for_failure (e : E) {st s : St} {v : Val} {x : Err} (h : st.err = some x)
    (hr : eval fns data e st = .ok (v, s)) : s.err = some x :=
  (eval_mono fns data e st v s hr).1 x h

/-- in terms of what `Evaluate` reports: started with a recorded error, the outcome is never a value -/
theorem no_value_for_failure_observe (e : E) {st : St} {x : Err} (h : st.err = some x) :
    Failed (eval fns data e st) := by
  cases hr : eval fns data e st with
  | error u => trivial
  | ok p =>
    obtain ⟨v, s⟩ := p
    exact failed_of_err (no_value_for_failure fns data e h hr)

/-- `Failed` runs are exactly those `observe` does not report as a value -/
theorem failed_iff_observe (r : Except Unit (Val × St)) : Failed r ↔ ∀ v, observe r ≠ .val v := by
  cases r with
  | error u => simp [Failed, observe]
  | ok p =>
    obtain ⟨w, s⟩ := p
    cases hs : s.err with
    | none => simp [Failed, observe, hs]
    | some e => simp [Failed, observe, hs]

/-! ## 5. non-vacuity: a concrete environment

One map frame with two bools, an int, a slice, a nested map and four user functions: `ok()` returns 1, `fail()` returns
`(0, sentinel error)`, `boom()` panics when entered, `id(x)` takes one argument.  Hypotheses of the form
`eval … = .ok (v, s)` are discharged by evaluating the model in the kernel (`decide +kernel` on a sound boolean
test, `Val` has no decidable equality because of `Float`). -/

section examples

deriving instance DecidableEq for Err
deriving instance DecidableEq for St

/- equality test on the simple values used in the examples (sound, not complete) -/
mutual
def Val.simpleEq : Val → Val → Bool
  | .nil, .nil => true
  | .bool a, .bool b => a == b
  | .int k a, .int k' b => k == k' && a == b
  | .str a, .str b => a == b
  | .func a, .func b => a == b
  | .slice t xs c, .slice t' ys c' => t == t' && c == c' && Val.simpleEqs xs ys
  | _, _ => false
def Val.simpleEqs : List Val → List Val → Bool
  | [], [] => true
  | x :: xs, y :: ys => Val.simpleEq x y && Val.simpleEqs xs ys
  | _, _ => false
end

mutual
theorem Val.simpleEq_sound : ∀ {a b : Val}, Val.simpleEq a b = true → a = b
  | .nil, b, h => by cases b <;> simp_all [Val.simpleEq]
  | .bool _, b, h => by cases b <;> simp_all [Val.simpleEq]
  | .int _ _, b, h => by cases b <;> simp_all [Val.simpleEq]
  | .str _, b, h => by cases b <;> simp_all [Val.simpleEq]
  | .func _, b, h => by cases b <;> simp_all [Val.simpleEq]
  | .slice t xs c, b, h => by
    cases b <;> simp [Val.simpleEq] at h
    obtain ⟨⟨rfl, rfl⟩, h3⟩ := h
    rw [Val.simpleEqs_sound h3]
  | .f64 _, b, h => by simp [Val.simpleEq] at h
  | .f32 _, b, h => by simp [Val.simpleEq] at h
  | .array _ _, b, h => by simp [Val.simpleEq] at h
  | .map _ _, b, h => by simp [Val.simpleEq] at h
  | .struct _ _, b, h => by simp [Val.simpleEq] at h
  | .ptr _ _ _, b, h => by simp [Val.simpleEq] at h
  | .meth _ _ _, b, h => by simp [Val.simpleEq] at h
theorem Val.simpleEqs_sound : ∀ {xs ys : List Val}, Val.simpleEqs xs ys = true → xs = ys
  | [], [], _ => rfl
  | [], _ :: _, h => by simp [Val.simpleEqs] at h
  | _ :: _, [], h => by simp [Val.simpleEqs] at h
  | x :: xs, y :: ys, h => by
    simp [Val.simpleEqs] at h
    rw [Val.simpleEq_sound h.1, Val.simpleEqs_sound h.2]
end

def runIs (r : Except Unit (Val × St)) (v : Val) (s : St) : Bool :=
  match r with
  | .error _ => false
  | .ok (v', s') => Val.simpleEq v' v && decide (s' = s)

theorem runIs_sound {r : Except Unit (Val × St)} {v : Val} {s : St} (h : runIs r v s = true) : r = .ok (v, s) := by
  cases r with
  | error u => cases h
  | ok p =>
    obtain ⟨v', s'⟩ := p
    simp only [runIs, Bool.and_eq_true, decide_eq_true_eq] at h
    rw [Val.simpleEq_sound h.1, h.2]

def fnsX : List (String × FnSpec) :=
  [("ok", { sig := "func() int", arity := 0, ret := .int .int 1 }),
   ("fail", { sig := "func() (int, error)", arity := 0, ret := .int .int 0, second := some true }),
   ("boom", { sig := "func() int", arity := 0, ret := .nil, panics := true }),
   ("id", { sig := "func(int) int", arity := 1, ret := .int .int 7 })]

def dataX : List Val :=
  [.map "map[string]interface {}" [("t", .bool true), ("f", .bool false), ("n", .int .int 3),
     ("ok", .func "ok"), ("fail", .func "fail"), ("boom", .func "boom"), ("id", .func "id"),
     ("xs", .slice "[]int" [.int .int 10, .int .int 20, .int .int 30] 3),
     ("m", .map "map[string]interface {}" [("f<nil>", .func "ok"), ("k", .int .int 5)])]]

/-- `f()` -/
def call0 (f : String) : E := .call (.name f) [] false

/-- the error recorded for an unknown name / by `fail()` / by a wrong operand kind -/
def eNoSuch : Err := ⟨false, true⟩
def eSentinel : Err := ⟨true, false⟩
def ePlain : Err := ⟨false, false⟩

-- the building blocks, evaluated by the kernel
theorem xT : eval fnsX dataX (.name "t") {} = .ok (.bool true, {}) := runIs_sound (by decide +kernel)
theorem xF : eval fnsX dataX (.name "f") {} = .ok (.bool false, {}) := runIs_sound (by decide +kernel)
theorem xN : eval fnsX dataX (.name "n") {} = .ok (.int .int 3, {}) := runIs_sound (by decide +kernel)
theorem xId : eval fnsX dataX (.name "id") {} = .ok (.func "id", {}) := runIs_sound (by decide +kernel)
theorem xXs : eval fnsX dataX (.name "xs") {} = .ok (.slice "[]int" [.int .int 10, .int .int 20, .int .int 30] 3, {}) :=
  runIs_sound (by decide +kernel)
theorem xNoSuch : eval fnsX dataX (.name "nosuch") {} = .ok (.nil, { err := some eNoSuch }) :=
  runIs_sound (by decide +kernel)
theorem xOk : eval fnsX dataX (call0 "ok") {} = .ok (.int .int 1, { calls := ["ok"] }) :=
  runIs_sound (by decide +kernel)
theorem xFail : eval fnsX dataX (call0 "fail") {} = .ok (.nil, { err := some eSentinel, calls := ["fail"] }) :=
  runIs_sound (by decide +kernel)
theorem xBoom : eval fnsX dataX (call0 "boom") {} = .ok (.nil, { err := some ePlain, calls := ["boom"] }) :=
  runIs_sound (by decide +kernel)

-- 1. stickiness: with an error recorded `ok()` is not called; from a clean state it is (xOk)
example : eval fnsX dataX (call0 "ok") { err := some eNoSuch } = .ok (.nil, { err := some eNoSuch }) :=
  sticky_is_first_failure fnsX dataX (by decide) rfl
example : ¬ NoUncondPanic (.lit "other" "?") := by decide
example : eval fnsX dataX (.lit "other" "?") { err := some eNoSuch } = .error () :=
  sticky_exception_exact fnsX dataX (by decide) _
example : eval fnsX dataX (.un "&" (.name "n")) {} = .error () := un_amp_panics fnsX dataX rfl xN
example : evalArgs fnsX dataX [call0 "ok", call0 "boom"] { err := some eNoSuch }
    = .ok ([.nil, .nil], { err := some eNoSuch }) :=
  sticky_args fnsX dataX (by decide) rfl

-- 2. short circuit: `f && boom()` and `t || fail()` call nothing; `t && boom()` does call and fails
example : eval fnsX dataX (.bin "&&" (.name "f") (call0 "boom")) {} = .ok (.bool false, {}) :=
  short_circuit_and fnsX dataX _ rfl xF
example : eval fnsX dataX (.bin "||" (.name "t") (call0 "fail")) {} = .ok (.bool true, {}) :=
  short_circuit_or fnsX dataX _ rfl xT
example : runIs (eval fnsX dataX (.bin "&&" (.name "t") (call0 "boom")) {}) .nil
    { err := some ePlain, calls := ["boom"] } = true := by decide +kernel
example : eval fnsX dataX (.bin "&&" (.name "t") (call0 "boom")) {}
    = (eval fnsX dataX (call0 "boom") >>= fun b => logOp (· && ·) (.bool true) b) {} :=
  and_evaluates_right fnsX dataX _ rfl xT (by simp)
example : eval fnsX dataX (.bin "||" (.name "f") (call0 "ok")) {}
    = (eval fnsX dataX (call0 "ok") >>= fun b => logOp (· || ·) (.bool false) b) {} :=
  or_evaluates_right fnsX dataX _ rfl xF (by simp)

-- 3. `t ? ok() : boom()` is `ok()`; `f ? boom() : ok()` is `ok()`; `n ? ok() : boom()` calls nothing
example : eval fnsX dataX (.cond (.name "t") (call0 "ok") (call0 "boom")) {} = .ok (.int .int 1, { calls := ["ok"] }) :=
  (cond_selects_true fnsX dataX _ _ rfl xT).trans xOk
example : eval fnsX dataX (.cond (.name "f") (call0 "boom") (call0 "ok")) {} = .ok (.int .int 1, { calls := ["ok"] }) :=
  (cond_selects_false fnsX dataX _ _ rfl xF).trans xOk
example : eval fnsX dataX (.cond (.name "n") (call0 "ok") (call0 "boom")) {} = .ok (.nil, { err := some ePlain }) :=
  (cond_not_bool fnsX dataX _ _ rfl xN (by simp)).trans rfl

-- 4. error propagation, one constructor at a time
example : Failed (eval fnsX dataX (.un "-" (.name "nosuch")) {}) :=
  (error_propagates_un fnsX dataX "-" rfl xNoSuch rfl).failed
example : Failed (eval fnsX dataX (.bin "+" (.name "nosuch") (call0 "ok")) {}) :=
  (error_propagates_bin_left fnsX dataX "+" _ rfl xNoSuch rfl).failed
-- … and `ok()` was not called after the failure:
example : runIs (eval fnsX dataX (.bin "+" (.name "nosuch") (call0 "ok")) {}) .nil { err := some eNoSuch } = true := by
  decide +kernel
example : KeepsErr { err := some eSentinel, calls := ["fail"] } eSentinel
    (eval fnsX dataX (.bin "+" (.name "n") (call0 "fail")) {}) :=
  error_propagates_bin_right fnsX dataX rfl xN (fun h => absurd h (by decide)) (fun h => absurd h (by decide)) xFail rfl
example : KeepsErr { err := some ePlain, calls := ["boom"] } ePlain
    (eval fnsX dataX (.bin "&&" (.name "t") (call0 "boom")) {}) :=
  error_propagates_bin_right fnsX dataX rfl xT (fun _ => by simp) (fun h => absurd h (by decide)) xBoom rfl
example : Failed (eval fnsX dataX (.cond (.name "nosuch") (call0 "ok") (call0 "boom")) {}) :=
  (error_propagates_cond fnsX dataX _ _ rfl xNoSuch rfl).failed
example : eval fnsX dataX (.cond (.name "t") (call0 "fail") (call0 "ok")) {}
    = .ok (.nil, { err := some eSentinel, calls := ["fail"] }) :=
  error_propagates_cond_branch fnsX dataX (t := true) rfl xT xFail rfl
example : Failed (eval fnsX dataX (.field (.name "nosuch") false "x") {}) :=
  (error_propagates_field fnsX dataX false "x" rfl xNoSuch rfl).failed
example : Failed (eval fnsX dataX (.index (.name "nosuch") (call0 "ok")) {}) :=
  (error_propagates_index_base fnsX dataX _ rfl xNoSuch rfl).failed
example : Failed (eval fnsX dataX (.index (.name "n") (call0 "fail")) {}) :=
  (error_propagates_index fnsX dataX rfl xN xFail rfl).failed
example : Failed (eval fnsX dataX (.slice (.name "nosuch") (some (call0 "ok")) none none) {}) :=
  (error_propagates_slice_base fnsX dataX _ _ _ rfl xNoSuch rfl).failed
example : eval fnsX dataX (.call (.name "nosuch") [call0 "ok"] false) {} = .ok (.nil, { err := some eNoSuch }) :=
  error_propagates_callee fnsX dataX _ false rfl xNoSuch rfl
-- `nosuch()`: the same without arguments
example : eval fnsX dataX (call0 "nosuch") {} = .ok (.nil, { err := some eNoSuch }) :=
  error_propagates_callee fnsX dataX [] false rfl xNoSuch rfl
example : Failed (eval fnsX dataX (call0 "nosuch") {}) :=
  (error_propagates_callee_keeps fnsX dataX [] false rfl xNoSuch rfl).failed
-- what the user functions of the environment do: `fail()` returns a non-nil error, `boom()` panics, `id()` lacks
-- an argument (reflect.Call panics, recovered by callFunc)
example : ∃ s, invoke fnsX (.func "fail") [] {} = .ok (.nil, s) ∧ s.err = some eSentinel :=
  (error_propagates_fn_result fnsX (pv := .func "fail") (vs := []) (s1 := {}) rfl).1 _ _ rfl
example : ∃ s, invoke fnsX (.func "boom") [] {} = .ok (.nil, s) ∧ s.err = some ePlain :=
  (error_propagates_fn_result fnsX (pv := .func "boom") (vs := []) (s1 := {}) rfl).2.1 rfl
example : ∃ s, invoke fnsX (.func "id") [] {} = .ok (.nil, s) ∧ s.err = some ePlain :=
  (error_propagates_fn_result fnsX (pv := .func "id") (vs := []) (s1 := {}) rfl).2.2 rfl
-- `id(fail())`: `id` is not called
example : ∀ w s, eval fnsX dataX (.call (.name "id") [call0 "fail"] false) {} = .ok (w, s) →
    w = .nil ∧ s = { err := some eSentinel, calls := ["fail"] } :=
  error_propagates_arg fnsX dataX [] [] false rfl xId rfl rfl rfl xFail rfl
example : runIs (eval fnsX dataX (.call (.name "id") [call0 "fail"] false) {}) .nil
    { err := some eSentinel, calls := ["fail"] } = true := by decide +kernel

/-- `m["f" + nosuch]`: the callee expression of the former finding.  `nosuch` fails, the visitor goes on with nil,
    `"f" + nil` is `"f<nil>"`, and the lookup under that key succeeds: a failed evaluation that yields a FUNCTION. -/
def calleeAfterFailure : E := .index (.name "m") (.bin "+" (.lit "str" "\"f\"") (.name "nosuch"))

theorem xCalleeAfter : eval fnsX dataX calleeAfterFailure {} = .ok (.func "ok", { err := some eNoSuch }) :=
  runIs_sound (by decide +kernel)
theorem xCalleeAfter' : eval fnsX dataX calleeAfterFailure { calls := ["ok"] }
    = .ok (.func "ok", { err := some eNoSuch, calls := ["ok"] }) :=
  runIs_sound (by decide +kernel)

/-- FIXED FINDING: `m["f" + nosuch]()` with `m = {"f<nil>": ok}` used to CALL `ok` although `nosuch` had failed
    before (result `1`, log `["ok"]`, error `nosuch`).  With the re-check after the primary expression the call
    returns nil, the log stays empty and the `nosuch` error is reported. -/
theorem no_call_after_failure :
    runIs (eval fnsX dataX (.call calleeAfterFailure [] false) {}) .nil { err := some eNoSuch, calls := [] } = true := by
  decide +kernel

-- the same from the general lemma (the callee value is `.func "ok"`, not nil)
example : eval fnsX dataX (.call calleeAfterFailure [] false) {} = .ok (.nil, { err := some eNoSuch }) :=
  error_propagates_callee fnsX dataX [] false rfl xCalleeAfter rfl

-- nothing is called after the first failure: `(ok() + m["f" + nosuch]()) + ok()` — one call before the failure,
-- the failure inside a callee, one call after it that does not happen
example : ∀ w s, eval fnsX dataX
      (.bin "+" (.bin "+" (call0 "ok") (.call calleeAfterFailure [] false)) (call0 "ok")) {} = .ok (w, s) →
    s.err = some eNoSuch ∧ s.calls = ["ok"] :=
  nothing_called_after_failure fnsX dataX
    (EvalAt.binL "+" _ rfl
      (EvalAt.binR rfl xOk (fun h => absurd h (by decide)) (fun h => absurd h (by decide))
        (EvalAt.callee [] false rfl (EvalAt.here _ _))))
    xCalleeAfter' rfl
-- … and the hypothesis "the run returns" is satisfiable: this is the run
example : runIs (eval fnsX dataX
      (.bin "+" (.bin "+" (call0 "ok") (.call calleeAfterFailure [] false)) (call0 "ok")) {})
    .nil { err := some eNoSuch, calls := ["ok"] } = true := by decide +kernel
example : ∀ w s, eval fnsX dataX (.bin "+" (call0 "ok") (.call calleeAfterFailure [] false)) {} = .ok (w, s) →
    (["ok"] : List String) <:+ s.calls :=
  calls_before_failure_kept fnsX dataX
    (EvalAt.binR rfl xOk (fun h => absurd h (by decide)) (fun h => absurd h (by decide))
      (EvalAt.callee [] false rfl (EvalAt.here _ _)))
    xCalleeAfter'
example : ({ err := some eNoSuch, calls := ["ok"] } : St).err = some eNoSuch ∧
    ({ err := some eNoSuch, calls := ["ok"] } : St).calls = ["ok"] ∧ ([] : List String) <:+ ["ok"] :=
  first_failure_freezes_log fnsX dataX (st := {}) (w := .nil)
    (e := .bin "+" (call0 "ok") (.call calleeAfterFailure [] false))
    (EvalAt.binR rfl xOk (fun h => absurd h (by decide)) (fun h => absurd h (by decide))
      (EvalAt.callee [] false rfl (EvalAt.here _ _)))
    rfl xCalleeAfter' rfl
    (runIs_sound (v := .nil) (s := { err := some eNoSuch, calls := ["ok"] }) (by decide +kernel))

-- at depth: `t && (n + id(-nosuch))` — the failing leaf sits under `&&` (right), `+` (right), a call argument, `-`
example : Failed (eval fnsX dataX
    (.bin "&&" (.name "t") (.bin "+" (.name "n") (.call (.name "id") [.un "-" (.name "nosuch")] false))) {}) :=
  (error_propagates_deep fnsX dataX
    (EvalAt.binR rfl xT (fun _ => by simp) (fun h => absurd h (by decide))
      (EvalAt.binR rfl xN (fun h => absurd h (by decide)) (fun h => absurd h (by decide))
        (EvalAt.arg [] [] false rfl xId rfl rfl rfl
          (EvalAt.un "-" rfl (EvalAt.here _ _)))))
    xNoSuch rfl).2
-- slice bounds: `xs[fail():]`, `xs[:fail()]`, `xs[:2:fail()]`
example : Failed (eval fnsX dataX (.slice (.name "xs") (some (call0 "fail")) none none) {}) :=
  (error_propagates_deep fnsX dataX (EvalAt.sliceLo none none rfl xXs rfl (EvalAt.here _ _)) xFail rfl).2
example : Failed (eval fnsX dataX (.slice (.name "xs") none (some (call0 "fail")) none) {}) :=
  (error_propagates_deep fnsX dataX (EvalAt.sliceHi none none rfl xXs rfl rfl (EvalAt.here _ _)) xFail rfl).2
example : Failed (eval fnsX dataX (.slice (.name "xs") none (some (.lit "int" "2")) (some (call0 "fail"))) {}) :=
  (error_propagates_deep fnsX dataX
    (EvalAt.sliceCap none (some (.lit "int" "2")) rfl xXs rfl rfl (j := 2) (s3 := {}) (by rfl)
      (EvalAt.here _ _)) xFail rfl).2
-- a slice that works, for contrast: `xs[1:]`
example : runIs (eval fnsX dataX (.slice (.name "xs") (some (.lit "int" "1")) none none) {})
    (.slice "[]int" [.int .int 20, .int .int 30] 2) {} = true := by decide +kernel
-- a panicking leaf at the same place: `t && (n + id(&n))`
example : eval fnsX dataX
    (.bin "&&" (.name "t") (.bin "+" (.name "n") (.call (.name "id") [.un "&" (.name "n")] false))) {} = .error () :=
  panic_propagates_deep fnsX dataX
    (EvalAt.binR rfl xT (fun _ => by simp) (fun h => absurd h (by decide))
      (EvalAt.binR rfl xN (fun h => absurd h (by decide)) (fun h => absurd h (by decide))
        (EvalAt.arg [] [] false rfl xId rfl rfl rfl (EvalAt.here _ _))))
    (un_amp_panics fnsX dataX rfl xN)

-- 5. log and error monotonicity on a run that calls twice and fails in between: `ok() + fail() + ok()`
example : runIs (eval fnsX dataX (.bin "+" (.bin "+" (call0 "ok") (call0 "fail")) (call0 "ok")) {}) .nil
    { err := some eSentinel, calls := ["fail", "ok"] } = true := by decide +kernel
example : (["ok"] : List String) <:+ ["fail", "ok"] :=
  (calls_are_prefix_closed fnsX dataX (call0 "fail") (st := { calls := ["ok"] })
    (runIs_sound (v := .nil) (s := { err := some eSentinel, calls := ["fail", "ok"] }) (by decide +kernel))).1
example : Failed (eval fnsX dataX (call0 "ok") { err := some eNoSuch }) :=
  no_value_for_failure_observe fnsX dataX _ rfl

end examples

end EV
