import TplModel.Proofs.LoaderSafety
import TplModel.Proofs.RenderFuel
/-! # C08 at the level of the LOADER and of a render run — results or error values, never a panic

Models (unchanged): `EN.addFile` / `EN.loadFiles` (`html/manager.go` `Add`, with `compileAttr` of `html/scan_html.go` and
`ParseTokens` of `html/parser.go`), `RN.execute` (`html/template.go`), `EN.evalExpr` (`exp.Evaluate`).
Helper lemmas: TplModel/Proofs/LoaderSafety.lean, TplModel/Proofs/RenderFuel.lean.

`EN.LoadRes.panic` stands for a Go panic that escapes the loader.  In the model it is *introduced* at exactly one
place — `addFile` maps a scanner result `.error (.panic site)` (the two `panic("unexpected state …")` assertions of
`scan_html.go`) to `.panic`; every other `.panic` in Engine.lean merely propagates one.  `HS.scan_no_panic` shows the
scanner never takes those branches, hence the loader never panics.  The code scanner model `CS.scan` has no panic
result at all: the only `panic(` of `scan_code.go` is the `default:` branch of the state switch in `NextToken`, and
`state` only ever holds one of the four constants handled by the other branches (the model is that switch). -/
namespace C08L
open EN
open RN (CAttr Part NodeD Node Cls Status)

/-! ## 1. loading -/

/-- **addFile_never_panics.** `tplManager.Add` on any manager, any name, any source text ends with a manager, an error
    value, or (outside the modelled fragment) `unsupported` — never with a panic. -/
theorem addFile_never_panics : ∀ (cfg : Cfg) (fns : List (String × EV.FnSpec)) (idx : Nat) (name src : String) (m : Mgr),
    addFile cfg fns idx name src m ≠ .panic :=
  addFile_ne_panic

/-- **loadFiles_never_panics.** -/
theorem loadFiles_never_panics (cfg : Cfg) (fns : List (String × EV.FnSpec)) (files : List (String × String)) :
    loadFiles cfg fns files ≠ .panic :=
  loadFrom_ne_panic cfg fns files 0 (emptyMgr cfg fns)

/-- the outcome of a load, spelled out -/
theorem loadFiles_outcome (cfg : Cfg) (fns : List (String × EV.FnSpec)) (files : List (String × String)) :
    (∃ m, loadFiles cfg fns files = .ok m) ∨ loadFiles cfg fns files = .err ∨ loadFiles cfg fns files = .unsupported := by
  have h := loadFiles_never_panics cfg fns files
  cases hr : loadFiles cfg fns files with
  | ok m => exact Or.inl ⟨m, rfl⟩
  | err => exact Or.inr (Or.inl rfl)
  | panic => exact absurd hr h
  | unsupported => exact Or.inr (Or.inr rfl)

/-- every phase of the loader separately (the state-passing functions return a pair; the first component is the result) -/
theorem loader_phases_never_panic (cfg : Cfg) :
    (∀ toks tbl, (compileParts toks tbl).1 ≠ .panic) ∧
    (∀ a tbl, (compileAttrS cfg a tbl).1 ≠ .panic) ∧
    (∀ as tbl, (compileAttrsS cfg as tbl).1 ≠ .panic) ∧
    (∀ id t tbl, (compileTok cfg id t tbl).1 ≠ .panic) ∧
    (∀ toks id tbl, (compileToks cfg id toks tbl).1 ≠ .panic) ∧
    (∀ idx toks tbl, (buildTreeS cfg idx toks tbl).1 ≠ .panic) ∧
    (∀ cx n tpls, addDefined cfg cx n tpls ≠ .panic) :=
  ⟨compileParts_ne_panic, compileAttrS_ne_panic cfg, compileAttrsS_ne_panic cfg, compileTok_ne_panic cfg,
   compileToks_ne_panic cfg, buildTreeS_ne_panic cfg, addDefined_ne_panic cfg⟩

/-! ## 2. evaluating an expression -/

/-- **evalExpr_never_escapes.** `exp.Evaluate` on any context, scope and expression returns a value or an error of
    class `eval …`; in particular a panic inside the evaluator (`EV.eval … = .error ()`: reflect panics, user function
    panics, the visitor's own assertions) is turned into the error value `.eval false false` by the `recover()` in
    `Evaluate` — it does not escape.  (By definition of `EN.evalExpr`; stated so that the obligation is visible:
    the Go side of it is `C08.recover_sites_present` / `C08.exp_panic_sites_are_under_recover`.) -/
theorem evalExpr_never_escapes (cx : Ctx) (sc : List EV.Val) (e : EL.E) :
    (∃ v, (evalExpr cx sc e).1 = .ok v) ∨ (∃ s n, (evalExpr cx sc e).1 = .error (.eval s n)) := by
  unfold evalExpr
  split
  · exact Or.inr ⟨false, false, rfl⟩
  · rename_i v st _
    simp only
    cases st.err with
    | none => exact Or.inl ⟨v, rfl⟩
    | some er => exact Or.inr ⟨er.sentinel, er.nosuch, rfl⟩

/-- the recovered panic, explicitly -/
theorem evalExpr_recovers (cx : Ctx) (sc : List EV.Val) (e : EL.E) (h : (EV.eval cx.fns sc e).run {} = .error ()) :
    evalExpr cx sc e = (.error (.eval false false), []) := by
  unfold evalExpr; rw [h]

/-! ## 3. rendering -/

/-- **render_total** (status trichotomy). Every run of `Execute` on any tree, any environment (in particular
    `envOf m` of a loaded manager), any data and any fuel ends with `ok`, an error class, or `fuel` (= the model's
    recursion budget was too small; not an outcome of the Go code). -/
theorem render_total {Sc : Type} (cfg : RN.Cfg) (env : RN.Env Sc) (fuel : Nat) (root : Node) (sc : Sc) :
    (RN.execute cfg env fuel root sc).st = .ok ∨ (∃ c, (RN.execute cfg env fuel root sc).st = .err c) ∨
    (RN.execute cfg env fuel root sc).st = .fuel := by
  cases (RN.execute cfg env fuel root sc).st with
  | ok => exact Or.inl rfl
  | err c => exact Or.inr (Or.inl ⟨c, rfl⟩)
  | fuel => exact Or.inr (Or.inr rfl)

/-- the cost of the most expensive registered template (see `RN.cost`): an upper bound of the longest call chain inside
    one template when no range expansion has more than `L` items -/
def tplCost (L : Nat) (m : Mgr) : Nat := RN.costL L (m.templates.map (·.2))

theorem tpl_cost_le (L : Nat) (m : Mgr) (name : String) (t : Node) (h : (envOf m).tpl name = some t) :
    RN.cost L t ≤ tplCost L m := by
  simp only [envOf, Option.map_eq_some_iff] at h
  obtain ⟨p, hp, rfl⟩ := h
  exact RN.cost_le_costL L (List.mem_map.mpr ⟨p, List.mem_of_find?_eq_some hp, rfl⟩)

/-- number of items `processRange` iterates over for a range object -/
def rangeSize : EV.Val → Nat
  | .slice _ xs _ => xs.length
  | .array _ xs => xs.length
  | .str s => s.toUTF8.toList.length
  | .map _ kvs => kvs.length
  | _ => 0

/-- the text of the range object in the value of a `range` attribute (`processRange`: quotes stripped, `extractRange`) -/
def rangeObjText (av : String) : String :=
  (extractRange (stripOwnQuotes av)).2.2

theorem rangeObjText_eq (av : String) : rangeObjText av =
    (extractRange (stripOwnQuotes av)).2.2 := rfl

/-- the number of child scopes of a range expansion is the size of the evaluated range object (elements of a slice or
    array, bytes of a string, entries of a map) -/
theorem rangeItems_length (cx : Ctx) (a : CAttr) (sc : List EV.Val) (its : List (List EV.Val)) (lg : List String)
    (h : rangeItems cx a sc = (.ok its, lg)) :
    ∃ av e obj lg', a.value = some av ∧ EL.parseCode (rangeObjText av) = .accept e ∧
      (evalExpr cx sc e) = (.ok obj, lg') ∧ its.length = rangeSize obj := by
  unfold rangeItems at h
  split at h
  · cases h
  · rename_i av hav
    simp only at h
    generalize hO : (extractRange (stripOwnQuotes av)) = tr at h
    split at h
    · cases h
    · cases h
    · rename_i e hp
      split at h
      · cases h
      · rename_i obj lg' hev
        have hp' : EL.parseCode (rangeObjText av) = .accept e := by unfold rangeObjText; rw [hO]; exact hp
        clear hp
        refine ⟨av, e, obj, lg', hav, hp', hev, ?_⟩
        cases obj <;> simp only at h <;> first | (cases h; done) | skip
        all_goals
          simp only [Prod.mk.injEq, Except.ok.injEq] at h
          rw [← h.1]
          simp [rangeSize]

/-- **render_fuel_sufficient** (the bound). For ANY manager (in particular every loaded one), any registered template
    `root` and any data `sc`: let `I node sc` be an invariant of the pairs (node being executed, scope) of the run —
    it holds of `(root, sc)` and is kept by descending to a child, by a `with` assignment, by a range expansion and
    by entering a registered template — such that every range expansion under `I` has at most `L` items
    (`rangeItems_length`: the number of items is the size of the evaluated range object).  Then a run with
      `fuel ≥ (maxDepth + 1) * (tplCost L m + 1)`        (`maxDepth` = 256 = `maxFragmentDepth`)
    does not end in `fuel`: it ends in `ok` or in an error class.  `tplCost L m` is explicit in the loaded trees:
    per node `3·(|attrs|+2) + 2·(L+2) + |kids| + 3`, summed along the most expensive root-to-leaf path of the most
    expensive template.  No hypothesis on the trees (`RN.keeps_all` replaces the uniqueness of node ids). -/
theorem render_fuel_sufficient (m : Mgr) (I : Node → List EV.Val → Prop) (L : Nat)
    (hkid : ∀ node sc k, I node sc → k ∈ node.kids → I k sc)
    (hwith : ∀ node sc a sc' lg, I node sc → a ∈ node.d.attrs → RN.classify (rcfgOf m.cfg) a = .with_ →
      withAssign m.cx a sc = (.ok sc', lg) → I node sc')
    (hitems : ∀ node sc a its lg, I node sc → a ∈ node.d.attrs → RN.classify (rcfgOf m.cfg) a = .range →
      rangeItems m.cx a sc = (.ok its, lg) → its.length ≤ L ∧ ∀ s ∈ its, I node s)
    (htpl : ∀ node sc name t, I node sc → (envOf m).tpl name = some t → I t sc)
    (name : String) (root : Node) (hr : (envOf m).tpl name = some root) (sc : List EV.Val) (hi : I root sc) (fuel : Nat)
    (hf : ((rcfgOf m.cfg).maxDepth + 1) * (tplCost L m + 1) ≤ fuel) :
    (RN.execute (rcfgOf m.cfg) (envOf m) fuel root sc).st = .ok ∨
    ∃ c, (RN.execute (rcfgOf m.cfg) (envOf m) fuel root sc).st = .err c := by
  have hb : RN.Bounded (rcfgOf m.cfg) (envOf m) I L (tplCost L m) :=
    ⟨hkid, hwith, hitems, fun node sc name t h1 h2 => ⟨tpl_cost_le L m name t h2, htpl node sc name t h1 h2⟩⟩
  have hroot := tpl_cost_le L m name root hr
  have hne := RN.execute_fuel_bound (rcfgOf m.cfg) (envOf m) I L (tplCost L m) hb root sc hi fuel (by
    rw [Nat.add_mul, Nat.one_mul] at hf; omega)
  rcases render_total (rcfgOf m.cfg) (envOf m) fuel root sc with h | h | h
  · exact Or.inl h
  · exact Or.inr h
  · exact absurd h hne

/-- the general form (any tree, any environment, any scope type): `RN.execute_fuel_bound` -/
theorem render_fuel_bound {Sc : Type} (cfg : RN.Cfg) (env : RN.Env Sc) (I : Node → Sc → Prop) (L H : Nat)
    (hb : RN.Bounded cfg env I L H) (root : Node) (sc : Sc) (hi : I root sc) (fuel : Nat)
    (hf : RN.cost L root + cfg.maxDepth * (H + 1) + 1 ≤ fuel) : (RN.execute cfg env fuel root sc).st ≠ .fuel :=
  RN.execute_fuel_bound cfg env I L H hb root sc hi fuel hf

/-- the special case of a global bound on all range expansions of the environment -/
theorem render_fuel_bound_global {Sc : Type} (cfg : RN.Cfg) (env : RN.Env Sc) (L H : Nat)
    (hitems : ∀ a sc its lg, env.rangeItems a sc = (.ok its, lg) → its.length ≤ L)
    (htpl : ∀ name t, env.tpl name = some t → RN.cost L t ≤ H) (root : Node) (sc : Sc) (fuel : Nat)
    (hf : RN.cost L root + cfg.maxDepth * (H + 1) + 1 ≤ fuel) : (RN.execute cfg env fuel root sc).st ≠ .fuel :=
  RN.execute_fuel_bound cfg env (fun _ _ => True) L H
    ⟨fun _ _ _ _ _ => trivial, fun _ _ _ _ _ _ _ _ _ => trivial,
     fun _ sc a its lg _ _ _ h => ⟨hitems a sc its lg h, fun _ _ => trivial⟩,
     fun _ _ name t _ h => ⟨htpl name t h, trivial⟩⟩ root sc trivial fuel hf

/-! ### managers without `range`: a bound that needs no hypothesis on the data -/

mutual
/-- no node of the tree carries a `range` directive -/
def noRange (cfg : RN.Cfg) : Node → Bool
  | .mk d kids _ => !RN.hasRange cfg d.attrs && noRangeL cfg kids
def noRangeL (cfg : RN.Cfg) : List Node → Bool
  | [] => true
  | k :: ks => noRange cfg k && noRangeL cfg ks
end

theorem noRangeL_mem (cfg : RN.Cfg) : ∀ {ks : List Node} {k : Node}, noRangeL cfg ks = true → k ∈ ks → noRange cfg k = true
  | k' :: ks, k, h, hk => by
    rw [noRangeL, Bool.and_eq_true] at h
    rcases List.mem_cons.mp hk with rfl | hk
    · exact h.1
    · exact noRangeL_mem cfg h.2 hk

/-- **render_fuel_sufficient_norange.** If no registered template contains a `range` directive, then for every
    registered template and EVERY data value a run with `fuel ≥ (maxDepth + 1) * (tplCost 0 m + 1)` ends in `ok` or in
    an error class. -/
theorem render_fuel_sufficient_norange (m : Mgr)
    (hnr : ∀ p ∈ m.templates, noRange (rcfgOf m.cfg) p.2 = true)
    (name : String) (root : Node) (hr : (envOf m).tpl name = some root) (sc : List EV.Val) (fuel : Nat)
    (hf : ((rcfgOf m.cfg).maxDepth + 1) * (tplCost 0 m + 1) ≤ fuel) :
    (RN.execute (rcfgOf m.cfg) (envOf m) fuel root sc).st = .ok ∨
    ∃ c, (RN.execute (rcfgOf m.cfg) (envOf m) fuel root sc).st = .err c := by
  have htpl : ∀ name t, (envOf m).tpl name = some t → noRange (rcfgOf m.cfg) t = true := by
    intro name t h
    simp only [envOf, Option.map_eq_some_iff] at h
    obtain ⟨p, hp, rfl⟩ := h
    exact hnr p (List.mem_of_find?_eq_some hp)
  refine render_fuel_sufficient m (fun node _ => noRange (rcfgOf m.cfg) node = true) 0 ?_ ?_ ?_ ?_ name root hr sc
    (htpl name root hr) fuel hf
  · intro node sc k h hk
    cases node with
    | mk d kids e =>
      rw [noRange, Bool.and_eq_true] at h
      exact noRangeL_mem _ h.2 hk
  · intro node sc a sc' lg h _ _ _; exact h
  · intro node sc a its lg h ha hc _
    exfalso
    cases node with
    | mk d kids e =>
      rw [noRange, Bool.and_eq_true] at h
      have h1 : RN.hasRange (rcfgOf m.cfg) d.attrs = false := by simpa using h.1
      have : RN.hasRange (rcfgOf m.cfg) d.attrs = true := by
        unfold RN.hasRange RN.hasKind
        exact List.any_eq_true.mpr ⟨a, ha, by rw [hc]; rfl⟩
      rw [h1] at this; cases this
  · intro node sc name t _ h; exact htpl name t h

/-! ## 4. non-vacuity (kernel evaluation) -/
namespace Example

/-- two files: conditions, a `with`, a fragment definition, a fragment insertion, an `else`; no `range` -/
def files : List (String × String) :=
  [("lib", "<div id=c :if=\"${true}\" :with=\"x := ${1}\"><br/>hi</q></div>\n<p :define=\"'f'\"> <b>z</b> </p>"),
   ("main", "<i :if=\"${x}\">yes</i><i :else>no</i><u :insert=\"'f'\">x</u>")]

def check : Bool :=
  match loadFiles {} [] files with
  | .ok m => m.templates.all (fun p => noRange (rcfgOf m.cfg) p.2) && ((envOf m).tpl "main").isSome &&
      tplCost 0 m == 63
  | _ => false

set_option maxRecDepth 100000 in
theorem check_true : check = true := by decide +kernel

/-- the hypotheses of `render_fuel_sufficient_norange` (hence of `render_fuel_sufficient`) are satisfiable: the loaded
    manager has no `range`, `tplCost 0 m = 63`, so `257 * 64 = 16448` units of fuel suffice for `main` on ANY data -/
example : ∃ m root, loadFiles {} [] files = .ok m ∧ (envOf m).tpl "main" = some root ∧
    ∀ sc, (RN.execute (rcfgOf m.cfg) (envOf m) 16448 root sc).st = .ok ∨
      ∃ c, (RN.execute (rcfgOf m.cfg) (envOf m) 16448 root sc).st = .err c := by
  have h := check_true
  unfold check at h
  split at h
  · rename_i m hm
    simp only [Bool.and_eq_true, beq_iff_eq, List.all_eq_true] at h
    obtain ⟨⟨h1, h2⟩, h3⟩ := h
    cases hroot : (envOf m).tpl "main" with
    | none => rw [hroot] at h2; cases h2
    | some root =>
      refine ⟨m, root, hm, hroot, fun sc => ?_⟩
      have hcfg : m.cfg = {} := (loaded_manager_ok {} [] files m hm).1
      refine render_fuel_sufficient_norange m h1 "main" root hroot sc 16448 ?_
      rw [h3, hcfg]; decide
  · cases h

/-! a manager WITH a `range` (over a string literal, so that the number of items does not depend on the data): the
    invariant `I node _ := "every range attribute of the subtree is the one of the file"` -/

/-- size of the range object when an evaluator run ended without a recorded error -/
def runSize (r : Except Unit (EV.Val × EV.St)) : Option Nat :=
  match r with
  | .ok (v, st) => if st.err.isNone then some (rangeSize v) else none
  | .error _ => none

theorem evalExpr_ok_size (cx : Ctx) (sc : List EV.Val) (e : EL.E) (obj : EV.Val) (lg : List String)
    (h : evalExpr cx sc e = (.ok obj, lg)) : runSize ((EV.eval cx.fns sc e).run {}) = some (rangeSize obj) := by
  unfold evalExpr at h
  split at h
  · cases h
  · rename_i v st hrun
    rw [hrun]
    simp only at h
    cases hs : st.err with
    | none =>
      simp only [hs, Prod.mk.injEq, Except.ok.injEq] at h
      simp [runSize, hs, h.1]
    | some er => simp [hs] at h

def rangeVal : String := "\"c : 'ab'\""
def rfiles : List (String × String) := [("r", "<ul><li :range=\"c : 'ab'\" :text=\"${c}\">-</li></ul>")]

mutual
def okN (cfg : RN.Cfg) : Node → Bool
  | .mk d kids _ => d.attrs.all (fun a => !(RN.classify cfg a == .range) || a.value == some rangeVal) && okNL cfg kids
def okNL (cfg : RN.Cfg) : List Node → Bool
  | [] => true
  | k :: ks => okN cfg k && okNL cfg ks
end

theorem okNL_mem (cfg : RN.Cfg) : ∀ {ks : List Node} {k : Node}, okNL cfg ks = true → k ∈ ks → okN cfg k = true
  | k' :: ks, k, h, hk => by
    rw [okNL, Bool.and_eq_true] at h
    rcases List.mem_cons.mp hk with rfl | hk
    · exact h.1
    · exact okNL_mem cfg h.2 hk

set_option maxRecDepth 100000 in
/-- a range over `'ab'` has two items, whatever the scope -/
theorem rangeVal_items (cx : Ctx) (a : CAttr) (sc : List EV.Val) (its : List (List EV.Val)) (lg : List String)
    (hv : a.value = some rangeVal) (h : rangeItems cx a sc = (.ok its, lg)) : its.length = 2 := by
  obtain ⟨av, e, obj, lg', hav, hp, hev, hlen⟩ := rangeItems_length cx a sc its lg h
  rw [hv] at hav; cases hav
  have h1 : rangeObjText rangeVal = "'ab'" := by decide +kernel
  have h2 : EL.parseCode "'ab'" = .accept (.lit "str" "'ab'") := by rfl
  rw [h1, h2] at hp
  cases hp
  have h3 := evalExpr_ok_size cx sc _ obj lg' hev
  rw [EV.eval] at h3
  have h4 : runSize ((EV.evalLit "str" "'ab'").run {}) = some 2 := by decide +kernel
  rw [h4] at h3
  rw [hlen]; exact (Option.some.inj h3).symm

def rcheck : Bool :=
  match loadFiles {} [] rfiles with
  | .ok m => m.templates.all (fun p => okN (rcfgOf m.cfg) p.2) && ((envOf m).tpl "r").isSome && tplCost 2 m == 77
  | _ => false

set_option maxRecDepth 100000 in
theorem rcheck_true : rcheck = true := by decide +kernel

/-- the hypotheses of `render_fuel_sufficient` are satisfiable with `L = 2` on a manager with a `range` -/
example : ∃ m root, loadFiles {} [] rfiles = .ok m ∧ (envOf m).tpl "r" = some root ∧
    ∀ sc, (RN.execute (rcfgOf m.cfg) (envOf m) 20046 root sc).st = .ok ∨
      ∃ c, (RN.execute (rcfgOf m.cfg) (envOf m) 20046 root sc).st = .err c := by
  have h := rcheck_true
  unfold rcheck at h
  split at h
  · rename_i m hm
    simp only [Bool.and_eq_true, beq_iff_eq, List.all_eq_true] at h
    obtain ⟨⟨h1, h2⟩, h3⟩ := h
    cases hroot : (envOf m).tpl "r" with
    | none => rw [hroot] at h2; cases h2
    | some root =>
      refine ⟨m, root, hm, hroot, fun sc => ?_⟩
      have hcfg : m.cfg = {} := (loaded_manager_ok {} [] rfiles m hm).1
      have htpl : ∀ name t, (envOf m).tpl name = some t → okN (rcfgOf m.cfg) t = true := by
        intro name t h
        simp only [envOf, Option.map_eq_some_iff] at h
        obtain ⟨p, hp, rfl⟩ := h
        exact h1 p (List.mem_of_find?_eq_some hp)
      refine render_fuel_sufficient m (fun node _ => okN (rcfgOf m.cfg) node = true) 2 ?_ ?_ ?_ ?_ "r" root hroot sc
        (htpl "r" root hroot) 20046 (by rw [h3, hcfg]; decide)
      · intro node sc k h hk
        cases node with
        | mk d kids e => rw [okN, Bool.and_eq_true] at h; exact okNL_mem _ h.2 hk
      · intro node sc a sc' lg h _ _ _; exact h
      · intro node sc a its lg h ha hc hr
        refine ⟨?_, fun _ _ => h⟩
        cases node with
        | mk d kids e =>
          rw [okN, Bool.and_eq_true] at h
          have := List.all_eq_true.mp h.1 a ha
          rw [hc] at this
          simp only [beq_self_eq_true, Bool.not_true, Bool.false_or, beq_iff_eq] at this
          rw [rangeVal_items m.cx a sc its lg this hr]; exact Nat.le_refl 2
      · intro node sc name t _ h; exact htpl name t h
  · cases h

/-- `loadFiles_never_panics` / `loadFiles_outcome` on inputs of all three kinds -/
example : loadFiles {} [] files ≠ .panic := loadFiles_never_panics _ _ _
set_option maxRecDepth 100000 in
example : (match loadFiles {} [] [("f", "<p :text=\"${1;2}\">t</p>")] with | .err => true | _ => false) = true := by
  decide +kernel
set_option maxRecDepth 100000 in
example : (match loadFiles {} [] [("f", "<p a=1 a=2>")] with | .err => true | _ => false) = true := by decide +kernel

end Example

end C08L
