import TplModel.Generated.Facts
import TplModel.Sys.FsParse
import TplModel.Proofs.FsParse
/-! # C19 — the manager registers exactly the matching files under unique names

"Parsing a file system registers exactly the files accepted by the suffix, pattern or predicate,
recursively, each under its slash-separated path relative to the configured sub-directory, plus every
fragment they define, in one namespace. A second registration of a name fails with the duplicate-name
error, looking up an unregistered name fails with the not-found error, files that do not match are never
read, file-system errors are returned, and every file that was opened is closed."

Property theorems only; the model is `TplModel/Sys/FsParse.lean` (namespace `FP`), helper lemmas (proved
for an arbitrary start state) are in `TplModel/Proofs/FsParse.lean`. All statements hold for EVERY entry
list (= every directory tree with every placement of walk/open/load faults) and EVERY matcher.

Vocabulary (defined in the model file, input-only):
`acceptedPaths m es` = paths of the non-directory entries accepted by `m`, walk order;
`definedNames ds` = the names of the `define`s `ds` in front of the first one whose name fails to evaluate
(`none`); `e.names` = the path of `e` followed by `definedNames e.content.defines`;
`allNames m es` = `e.names` for each such entry, concatenated;
`NoFsFault m es` = no walk error, and no open/load error and no failing `define` name (`Content.nameErr`)
at an accepted file;
`Clean m es` = `NoFsFault m es ∧ (allNames m es).Nodup`;
`faultOf m seen e` = the error entry `e` must yield when `seen` are the names registered before it.

A `define` whose NAME fails to evaluate (valueless `:define`, `:define="${1/0}"`, …) is a fault of its own:
`addDefinedTpl` returns the evaluation error (kind `load`: neither a file-system nor the duplicate-name
error) when it reaches that `define`, i.e. after the file and the fragments in front of it were registered
and unless one of those clashes first (`define_name_error`; the clash first: `duplicate_is_error`). -/
namespace C19
open FP

/-! ## concrete inputs used by the non-vacuity examples -/

/-- a tree with a sub-directory, a non-matching file that could neither be opened nor loaded, fragments -/
def tree : List Entry :=
  [ { path := ".", isDir := true },
    { path := "a.html", content := { defines := [some "hdr", some "ftr"] } },
    { path := "notes.txt", openErr := true, content := { loadErr := true } },
    { path := "sub", isDir := true },
    { path := "sub/b.html", content := { defines := [some "card"] } },
    { path := "sub/c.html.bak", content := { defines := [some "hdr"] } } ]

/-- `sub/b.html` re-defines fragment `hdr` after defining `card`; a later file would fail to open -/
def dupTree : List Entry :=
  [ { path := ".", isDir := true },
    { path := "a.html", content := { defines := [some "hdr", some "ftr"] } },
    { path := "sub", isDir := true },
    { path := "sub/b.html", content := { defines := [some "card", some "hdr", some "late"] } },
    { path := "z.html", openErr := true } ]

/-- the same tree with a fault injected at entry number `i` -/
def inject (f : Entry → Entry) (i : Nat) (es : List Entry) : List Entry := es.modify i f

def html : String → Bool := hasSuffix ".html"

example : run html tree =
    (.ok, { files := ["a.html", "sub/b.html"],
            templates := ["a.html", "hdr", "ftr", "sub/b.html", "card"],
            opens := ["a.html", "sub/b.html"], closes := ["a.html", "sub/b.html"] }) := by decide

/-- duplicate fragment: the file and its earlier fragment `card` REMAIN registered, `late` is not, the
    file is closed, `z.html` is never reached -/
example : run html dupTree =
    (.err .duplicate, { files := ["a.html", "sub/b.html"],
                        templates := ["a.html", "hdr", "ftr", "sub/b.html", "card"],
                        opens := ["a.html", "sub/b.html"], closes := ["a.html", "sub/b.html"] }) := by decide

/-- a file whose own name is taken (here by a fragment) fails BEFORE it is scanned: load error not seen -/
example : (run html [ { path := "a.html", content := { defines := [some "b.html"] } },
                      { path := "b.html", content := { loadErr := true } } ]).1 = .err .duplicate := by decide

example : (run html (inject (fun e => { e with walkErr := true }) 3 tree)) =
    (.err .walk, { files := ["a.html"], templates := ["a.html", "hdr", "ftr"],
                   opens := ["a.html"], closes := ["a.html"] }) := by decide
example : (run html (inject (fun e => { e with openErr := true }) 4 tree)).1 = .err .open := by decide
example : (run html (inject (fun e => { e with content := { e.content with loadErr := true } }) 4 tree)) =
    (.err .load, { files := ["a.html"], templates := ["a.html", "hdr", "ftr"],
                   opens := ["a.html", "sub/b.html"], closes := ["a.html", "sub/b.html"] }) := by decide

/-! ## success characterised on the input -/

/-- The parse succeeds exactly on fault-free inputs in which no name is requested twice. -/
theorem ok_iff_clean (m : String → Bool) (es : List Entry) :
    (run m es).1 = .ok ↔ Clean m es := by
  have := walk_ok_iff m {} es (by simp)
  simpa [run, Clean] using this

example : Clean html tree := (ok_iff_clean html tree).mp (by decide)
example : ¬ Clean html dupTree := fun h => absurd ((ok_iff_clean html dupTree).mpr h) (by decide)

/-! ## registered_exactly -/

/-- If the parse succeeds, `Files()` are exactly the paths (as delivered by the walk over the sub file
    system, i.e. slash-separated and relative to the configured sub-directory) of the non-directory entries
    accepted by the matcher, at any depth, in walk order. -/
theorem registered_exactly (m : String → Bool) (es : List Entry) (h : (run m es).1 = .ok) :
    (run m es).2.files = (es.filter (fun e => !e.isDir && m e.path)).map (·.path) :=
  (walk_ok m {} es h).1

/-- membership form: a name is a registered file iff it is the path of a matching non-directory entry -/
theorem registered_exactly_mem (m : String → Bool) (es : List Entry) (h : (run m es).1 = .ok) (p : String) :
    p ∈ (run m es).2.files ↔ ∃ e ∈ es, e.path = p ∧ e.isDir = false ∧ m e.path = true := by
  have := (walk_ok m {} es h).1
  simp only [run] at this ⊢
  rw [this]
  simpa using mem_acceptedPaths (m := m) (es := es) (p := p)

example : (run html tree).1 = .ok ∧ (run html tree).2.files = ["a.html", "sub/b.html"] := by decide

/-! ## templates_are_files_plus_defines -/

/-- If the parse succeeds, `Templates()` is, for each registered file in order, its path followed by the
    fragments it defines — one namespace — and no name occurs twice.  "The fragments it defines" are ALL its
    `define`s: on success no `define` name failed to evaluate, so `definedNames` cuts nothing off (second
    conjunct).  What is registered when the parse FAILS is `registered_prefix_always` (a prefix of
    `allNames`: the names in front of the first fault), `fs_error_returned` and `define_name_error`. -/
theorem templates_are_files_plus_defines (m : String → Bool) (es : List Entry) (h : (run m es).1 = .ok) :
    (run m es).2.templates =
      (es.filter (fun e => !e.isDir && m e.path)).flatMap
        (fun e => e.path :: definedNames e.content.defines) ∧
    (∀ e ∈ es.filter (fun e => !e.isDir && m e.path),
      (definedNames e.content.defines).map some = e.content.defines) ∧
    (run m es).2.templates.Nodup := by
  refine ⟨?_, ?_, walk_nodup m {} es (by simp)⟩
  · have := (walk_ok m {} es h).2.1
    simp only [List.nil_append] at this
    exact this
  · intro e he
    obtain ⟨he1, he2⟩ := List.mem_filter.mp he
    have hc := ((walk_ok_iff m {} es (by simp)).mp h).1 e he1
    exact map_some_definedNames (hc.2 he2).2.2

/-- the same with the names wrapped: the registry IS the paths and the `define` lists of the matching files -/
theorem templates_are_files_plus_defines' (m : String → Bool) (es : List Entry) (h : (run m es).1 = .ok) :
    (run m es).2.templates.map some =
      (es.filter (fun e => !e.isDir && m e.path)).flatMap (fun e => some e.path :: e.content.defines) := by
  obtain ⟨h1, h2, _⟩ := templates_are_files_plus_defines m es h
  rw [h1]
  generalize es.filter (fun e => !e.isDir && m e.path) = l at h2
  induction l with
  | nil => rfl
  | cons e l ih =>
    simp only [List.flatMap_cons, List.map_append, List.map_cons]
    rw [h2 e (by simp), ih (fun x hx => h2 x (List.mem_cons_of_mem _ hx))]

/-- every registered file is also a registered template (the file itself is a template) -/
theorem files_subset_templates (m : String → Bool) (es : List Entry) (h : (run m es).1 = .ok) :
    ∀ p ∈ (run m es).2.files, p ∈ (run m es).2.templates := by
  intro p hp
  have h1 := (walk_ok m {} es h).1
  have h2 := (walk_ok m {} es h).2.1
  simp only [run] at hp ⊢
  rw [h1] at hp; rw [h2]
  simp only [List.nil_append, acceptedPaths, allNames, List.mem_map, List.mem_flatMap] at hp ⊢
  obtain ⟨e, he, rfl⟩ := hp
  exact ⟨e, he, by simp [Entry.names]⟩

example : (run html tree).1 = .ok ∧
    (run html tree).2.templates = ["a.html", "hdr", "ftr", "sub/b.html", "card"] := by decide

/-- In EVERY outcome (also after an error) the namespace has no duplicate, and what is registered is an
    initial segment of what the input asks for: nothing else is ever registered. -/
theorem registered_prefix_always (m : String → Bool) (es : List Entry) :
    (run m es).2.files <+: acceptedPaths m es ∧ (run m es).2.templates <+: allNames m es ∧
    (run m es).2.templates.Nodup := by
  obtain ⟨f, t, hf, hfp, ht, htp⟩ := walk_prefix m {} es
  refine ⟨?_, ?_, walk_nodup m {} es (by simp)⟩
  · simp only [run]; rw [hf]; simpa using hfp
  · simp only [run]; rw [ht]; simpa using htp

/-! ## fs_error_returned -/

/-- The result is the error of the FIRST failing entry in walk order: if everything before `e` is
    fault-free (`Clean`) and `e` has fault `k` (walk error, open error, duplicate file name, load error,
    duplicate fragment name — tested in the order the code can observe them), then the result is `err k`,
    the final state does not depend on the entries after `e` at all (they are not visited, hence not opened
    and not registered), and the files opened are exactly the accepted files before `e`, plus `e` itself
    iff its fault occurs after a successful open. -/
theorem fs_error_returned (m : String → Bool) (pre : List Entry) (e : Entry) (post : List Entry)
    (k : ErrKind) (hpre : Clean m pre) (hf : faultOf m (allNames m pre) e = some k) :
    (run m (pre ++ e :: post)).1 = .err k ∧
    (run m (pre ++ e :: post)).2 = (run m (pre ++ [e])).2 ∧
    (run m (pre ++ e :: post)).2.opens =
      acceptedPaths m pre ++ (if e.opened m then [e.path] else []) := by
  have hok := (ok_iff_clean m pre).mpr hpre
  have h1 := walk_first_fault m {} pre e post k (by simp) hok (by simpa using hf)
  have h2 := walk_first_fault m {} pre e [] k (by simp) hok (by simpa using hf)
  have hl := (visit_log m (walk m {} pre).2 e).1
  have ho := (walk_ok m {} pre hok).2.2.1
  simp only [run] at *
  rw [h1, h2]
  refine ⟨rfl, rfl, ?_⟩
  simp only
  rw [hl, ho]
  simp

/-- Conversely every error has such a first failing entry: the characterisation is complete. -/
theorem error_has_first_fault (m : String → Bool) (es : List Entry) (k : ErrKind)
    (h : (run m es).1 = .err k) :
    ∃ pre e post, es = pre ++ e :: post ∧ Clean m pre ∧ faultOf m (allNames m pre) e = some k := by
  obtain ⟨pre, e, post, hes, hpre, hf⟩ := walk_err_split m {} es k (by simp) h
  exact ⟨pre, e, post, hes, (ok_iff_clean m pre).mp hpre, by simpa using hf⟩

/-- which input fault is behind an fs error kind -/
theorem error_cause (m : String → Bool) (es : List Entry) :
    ((run m es).1 = .err .walk → ∃ e ∈ es, e.walkErr = true) ∧
    ((run m es).1 = .err .open → ∃ e ∈ es, e.isDir = false ∧ m e.path = true ∧ e.openErr = true) ∧
    ((run m es).1 = .err .load → ∃ e ∈ es, e.isDir = false ∧ m e.path = true ∧
      (e.content.loadErr = true ∨ e.content.nameErr = true)) := by
  refine ⟨fun h => walk_err_cause m {} es .walk h, fun h => ?_, fun h => ?_⟩
  · obtain ⟨e, he, ha, ho⟩ := walk_err_cause m {} es .open h
    simp [Entry.accepted] at ha
    exact ⟨e, he, ha.1, ha.2, ho⟩
  · obtain ⟨e, he, ha, ho⟩ := walk_err_cause m {} es .load h
    simp [Entry.accepted] at ha
    exact ⟨e, he, ha.1, ha.2, ho⟩

/-- non-vacuity: prefix of `tree` up to `sub`, then `sub/b.html` with a load error, then more entries -/
example : Clean html (tree.take 4) ∧
    faultOf html (allNames html (tree.take 4))
      { path := "sub/b.html", content := { loadErr := true } } = some .load :=
  ⟨(ok_iff_clean html _).mp (by decide), by decide⟩
example : faultOf html (allNames html (tree.take 4)) { path := "sub", walkErr := true, isDir := true }
    = some .walk := by decide
example : faultOf html (allNames html (tree.take 4)) { path := "sub/b.html", openErr := true }
    = some .open := by decide
example : faultOf html (allNames html (tree.take 4)) { path := "hdr" ++ ".html", content := {defines := [some "ftr"]} }
    = some .duplicate := by decide

/-! ## duplicate_is_error -/

/-- A second registration of a name fails with the duplicate-name error. Precisely, on the input: `e` is an
    accepted file reached without walk/open error, everything before it is fault-free, the concatenated
    names up to and including `e` contain a duplicate, and no earlier error occurs inside `e` either (the
    clash is on the file name itself, which is tested before loading, or the file loads). -/
theorem duplicate_is_error (m : String → Bool) (pre : List Entry) (e : Entry) (post : List Entry)
    (hpre : Clean m pre) (hw : e.walkErr = false) (ha : e.isDir = false ∧ m e.path = true)
    (ho : e.openErr = false)
    (hdup : ¬ (allNames m (pre ++ [e])).Nodup)
    (hearly : e.path ∈ allNames m pre ∨ e.content.loadErr = false) :
    (run m (pre ++ e :: post)).1 = .err .duplicate := by
  apply (fs_error_returned m pre e post .duplicate hpre ?_).1
  have hacc : e.accepted m = true := by simp [Entry.accepted, ha.1, ha.2]
  have hn : allNames m (pre ++ [e]) = allNames m pre ++ e.names := by
    rw [allNames_append, allNames_cons, allNames_nil]; simp [hacc]
  rw [hn] at hdup
  unfold faultOf
  simp only [hw, hacc, ho, Bool.false_eq_true, if_false]
  by_cases h1 : e.path ∈ allNames m pre
  · simp [h1]
  · rcases hearly with h | h
    · exact absurd h h1
    · simp [h1, h, hdup]

/-- Global form: without any file-system/load fault, a name requested twice always ends in the
    duplicate-name error (wherever the two requests are). -/
theorem duplicate_is_error_global (m : String → Bool) (es : List Entry)
    (hfs : NoFsFault m es) (hdup : ¬ (allNames m es).Nodup) :
    (run m es).1 = .err .duplicate := by
  cases hr : (run m es).1 with
  | ok => exact absurd ((ok_iff_clean m es).mp hr).2 hdup
  | err k =>
    have hc := error_cause m es
    cases k with
    | duplicate => rfl
    | walk =>
      obtain ⟨e, he, hw⟩ := hc.1 hr
      rw [(hfs e he).1] at hw; cases hw
    | «open» =>
      obtain ⟨e, he, hd, hm, ho⟩ := hc.2.1 hr
      rw [((hfs e he).2 (by simp [Entry.accepted, hd, hm])).1] at ho; cases ho
    | load =>
      obtain ⟨e, he, hd, hm, hl⟩ := hc.2.2 hr
      have hh := (hfs e he).2 (by simp [Entry.accepted, hd, hm])
      rw [hh.2.1, hh.2.2] at hl
      rcases hl with hl | hl <;> cases hl

/-- Conversely a successful parse means no name was requested twice. -/
theorem ok_implies_nodup (m : String → Bool) (es : List Entry) (h : (run m es).1 = .ok) :
    (allNames m es).Nodup := ((ok_iff_clean m es).mp h).2

/-- non-vacuity of `duplicate_is_error`: `dupTree = take 3 ++ sub/b.html :: [z.html]` -/
example : Clean html (dupTree.take 3) ∧ ¬ (allNames html (dupTree.take 3 ++ [dupTree[3]])).Nodup ∧
    dupTree[3].content.loadErr = false ∧ dupTree = dupTree.take 3 ++ dupTree[3] :: dupTree.drop 4 :=
  ⟨(ok_iff_clean html _).mp (by decide), by decide, by decide, by decide⟩
/-- non-vacuity of `duplicate_is_error_global` -/
example : NoFsFault html (dupTree.take 4) ∧ ¬ (allNames html (dupTree.take 4)).Nodup :=
  ⟨by decide, by decide⟩

/-! ## unknown_is_notFound -/

/-- `GetTemplate` fails with the not-found error exactly for the names that are not registered. -/
theorem unknown_is_notFound (s : State) (name : String) :
    getTemplate s name = .notFound ↔ name ∉ s.templates := by
  unfold getTemplate; split <;> simp [*]

/-- After a successful parse the names that can be looked up are exactly the files and their fragments. -/
theorem lookup_after_parse (m : String → Bool) (es : List Entry) (h : (run m es).1 = .ok) (name : String) :
    getTemplate (run m es).2 name = .found ↔ name ∈ allNames m es := by
  have ht : (run m es).2.templates = allNames m es := by
    have := (walk_ok m {} es h).2.1
    simp only [List.nil_append] at this
    exact this
  simp only [getTemplate, ht]
  split <;> simp [*]

/-- In every outcome, a name the input never asks to register is not found. -/
theorem never_requested_is_notFound (m : String → Bool) (es : List Entry) (name : String)
    (h : name ∉ allNames m es) : getTemplate (run m es).2 name = .notFound := by
  rw [unknown_is_notFound]
  exact fun hm => h ((registered_prefix_always m es).2.1.subset hm)

example : getTemplate (run html tree).2 "notes.txt" = .notFound ∧
    getTemplate (run html tree).2 "card" = .found ∧
    getTemplate (run html tree).2 "sub/b.html" = .found ∧
    getTemplate (run html tree).2 "b.html" = .notFound := by decide

/-! ## nonmatching_never_opened -/

/-- Every file ever opened (in any outcome) is a non-directory entry of the walk accepted by the matcher:
    files that do not match are never opened, hence never read. -/
theorem nonmatching_never_opened (m : String → Bool) (es : List Entry) :
    ∀ p ∈ (run m es).2.opens, m p = true ∧ ∃ e ∈ es, e.path = p ∧ e.isDir = false := by
  obtain ⟨os, h1, _, h3⟩ := walk_log m {} es
  intro p hp
  simp only [run] at hp
  rw [h1] at hp
  obtain ⟨e, he, rfl, hd, hm⟩ := h3 p (by simpa using hp)
  exact ⟨hm, e, he, rfl, hd⟩

/-- `notes.txt` (unopenable, unparsable) and the directory entries are not in the log -/
example : (run html tree).2.opens = ["a.html", "sub/b.html"] := by decide

/-! ## opened_eq_closed -/

/-- In every outcome, success or any error, every opened file has been closed (same files, same order). -/
theorem opened_eq_closed (m : String → Bool) (es : List Entry) :
    (run m es).2.opens = (run m es).2.closes := by
  obtain ⟨os, h1, h2, _⟩ := walk_log m {} es
  simp only [run]
  rw [h1, h2]

/-- non-vacuity: an error AFTER a successful open (load error, duplicate) still closes the file -/
example : (run html dupTree).1 = .err .duplicate ∧ (run html dupTree).2.closes = ["a.html", "sub/b.html"] := by
  decide

/-! ## define_name_error -/

/-- `sub/b.html` has a `define` whose name fails to evaluate, after `card`; behind it a clash (`hdr`) and
    `late`; a later file would fail to open -/
def nameErrTree : List Entry :=
  [ { path := ".", isDir := true },
    { path := "a.html", content := { defines := [some "hdr", some "ftr"] } },
    { path := "sub", isDir := true },
    { path := "sub/b.html", content := { defines := [some "card", none, some "hdr", some "late"] } },
    { path := "z.html", openErr := true } ]

/-- the evaluation error is returned; the file and `card` REMAIN registered; the clash behind the failing name
    is never seen; the file is closed; `z.html` is never reached -/
example : run html nameErrTree =
    (.err .load, { files := ["a.html", "sub/b.html"],
                   templates := ["a.html", "hdr", "ftr", "sub/b.html", "card"],
                   opens := ["a.html", "sub/b.html"], closes := ["a.html", "sub/b.html"] }) := by decide

/-- a clash IN FRONT of the failing name wins: the duplicate-name error -/
example : (run html [ { path := "a.html", content := { defines := [some "x"] } },
                      { path := "b.html", content := { defines := [some "x", none] } } ]) =
    (.err .duplicate, { files := ["a.html", "b.html"], templates := ["a.html", "x", "b.html"],
                        opens := ["a.html", "b.html"], closes := ["a.html", "b.html"] }) := by decide

/-- **A `define` whose name fails to evaluate.**  Everything before `e` is fault-free; `e` is an accepted file
    reached without walk/open error that loads; the names requested up to `e`, those of `e` only as far as
    its first failing `define` name, contain no duplicate; and some `define` name of `e` fails.  Then the
    result is the evaluation error (kind `load`) and NOTHING is rolled back: the registered files are the
    accepted files of `pre` and `e`, the registered templates are all names of `pre`, the path of `e` and its
    fragments in front of the failing one; `e` was opened and closed; `post` is never looked at (the
    `define`s of `e` behind the failing one are not even mentioned in the conclusion). -/
theorem define_name_error (m : String → Bool) (pre : List Entry) (e : Entry) (post : List Entry)
    (hpre : Clean m pre) (hw : e.walkErr = false) (ha : e.isDir = false ∧ m e.path = true)
    (ho : e.openErr = false) (hl : e.content.loadErr = false)
    (hnd : (allNames m (pre ++ [e])).Nodup) (hne : none ∈ e.content.defines) :
    (run m (pre ++ e :: post)).1 = .err .load ∧
    (run m (pre ++ e :: post)).2.files = acceptedPaths m pre ++ [e.path] ∧
    (run m (pre ++ e :: post)).2.templates = allNames m pre ++ e.path :: definedNames e.content.defines ∧
    (run m (pre ++ e :: post)).2.opens = acceptedPaths m pre ++ [e.path] ∧
    (run m (pre ++ e :: post)).2.closes = acceptedPaths m pre ++ [e.path] := by
  have hacc : e.accepted m = true := by simp [Entry.accepted, ha.1, ha.2]
  have hn : allNames m (pre ++ [e]) = allNames m pre ++ e.names := by
    rw [allNames_append, allNames_cons, allNames_nil]; simp [hacc]
  rw [hn] at hnd
  have hfresh : e.path ∉ allNames m pre := fun hmem =>
    (List.nodup_append.mp hnd).2.2 _ hmem _ (by simp [Entry.names]) rfl
  have hf : faultOf m (allNames m pre) e = some .load := by
    unfold faultOf
    simp [hw, hacc, ho, hfresh, hl, hnd, (nameErr_iff _).mpr hne]
  have hok := (ok_iff_clean m pre).mpr hpre
  obtain ⟨r1, _, r3⟩ := fs_error_returned m pre e post .load hpre hf
  have hst := walk_first_fault m {} pre e post .load (by simp) hok (by simpa using hf)
  obtain ⟨w1, w2, _, _⟩ := walk_ok m {} pre hok
  simp only [List.nil_append] at w1 w2
  have hv : (visit m (walk m {} pre).2 e).1 = .err .load := by
    have := visit_result m (walk m {} pre).2 e (walk_nodup m {} pre (by simp))
    rw [w2, hf] at this
    exact this
  obtain ⟨v1, v2⟩ := visit_registered m (walk m {} pre).2 e hw hacc ho (by rw [w2]; exact hfresh) hl
    (by rw [hv]; simp)
  have hopen : e.opened m = true := by simp [Entry.opened, hw, hacc, ho]
  have hoc := opened_eq_closed m (pre ++ e :: post)
  rw [hopen, if_pos rfl] at r3
  refine ⟨r1, ?_, ?_, r3, by rw [← hoc]; exact r3⟩
  · simp only [run]; rw [hst]; simp only; rw [v1, w1]
  · simp only [run]; rw [hst]; simp only; rw [v2, w2]; rfl

/-- non-vacuity: `nameErrTree = take 3 ++ sub/b.html :: [z.html]` -/
example : Clean html (nameErrTree.take 3) ∧ (allNames html (nameErrTree.take 3 ++ [nameErrTree[3]])).Nodup ∧
    none ∈ nameErrTree[3].content.defines ∧ nameErrTree[3].content.loadErr = false ∧
    nameErrTree = nameErrTree.take 3 ++ nameErrTree[3] :: nameErrTree.drop 4 :=
  ⟨(ok_iff_clean html _).mp (by decide), by decide, by decide, by decide, by decide⟩
example : faultOf html (allNames html (nameErrTree.take 3)) nameErrTree[3] = some .load := by decide

/-! ## a fault at every entry (the quantifier of the S3 search, here as a theorem) -/

/-- Injecting a walk error at any position `i` of a fault-free input yields exactly `err walk`, and the
    files opened are exactly the accepted ones before position `i`. -/
theorem walk_fault_at_every_entry (m : String → Bool) (es : List Entry) (i : Nat) (hi : i < es.length)
    (hc : Clean m es) :
    (run m (es.modify i (fun e => { e with walkErr := true }))).1 = .err .walk ∧
    (run m (es.modify i (fun e => { e with walkErr := true }))).2.opens = acceptedPaths m (es.take i) := by
  have hsplit : es.modify i (fun e => { e with walkErr := true }) =
      es.take i ++ { es[i] with walkErr := true } :: es.drop (i + 1) := by
    rw [List.modify_eq_take_cons_drop hi]
  have hpre : Clean m (es.take i) := by
    rw [← ok_iff_clean]
    have := (ok_iff_clean m es).mpr hc
    have hw := walk_append m {} (es.take i) (es.drop i)
    rw [List.take_append_drop] at hw
    simp only [run] at this ⊢
    rw [hw] at this
    rcases hx : walk m {} (es.take i) with ⟨r, s⟩
    rw [hx] at this
    cases r with
    | ok => rfl
    | err k => simp at this
  have := fs_error_returned m (es.take i) { es[i] with walkErr := true } (es.drop (i + 1)) .walk hpre
    (by simp [faultOf])
  rw [hsplit]
  refine ⟨this.1, ?_⟩
  rw [this.2.2]
  simp [Entry.opened]

example : Clean html tree ∧ 4 < tree.length := ⟨(ok_iff_clean html tree).mp (by decide), by decide⟩


/-- tie to the code: html/manager.go closes what it opens (at least one Close call; re-extracted every run) -/
theorem manager_closes_files : 0 < Facts.managerCloseCalls := by decide

end C19
