import TplModel.Proofs.OpsProofs
/-! # C11 — comparison operators (`exp/visitor.go`: relOp, numEqual, relOp3), integer fragment

"`a != b` is the negation of `a == b`; for numeric operands exactly one of `a < b`, `a == b`, `a > b` holds and
`<=` / `>=` are the corresponding unions.  Whether two numbers are equal never depends on which Go integer type
carries them."

Every theorem gives the exact result of running the model operator `EV.relOp fns op l r` in an arbitrary state `st`
(`.ok (v, st)`: value `v`, state unchanged; `.error ()`: Go panic, recovered by `Evaluate` into an error).
None of the value results depends on `st`, so no `st.err = none` hypothesis is needed.
Integer-valued operand = `isInt v = some a`, i.e. any of the ten Go integer kinds (`EV.isInt_eq_some`).
Float operands (the other numeric case) are covered by `Props/C11float.lean`: the model compares the IEEE-754 bit
patterns (`TplModel/Exp/F64Cmp.lean`), which the kernel can unfold.  `ifaceEq` (Go interface equality) is treated as
an uninterpreted function by `ne_is_not_eq`; no theorem here depends on what it computes. -/
namespace C11
open EV

variable (fns : List (String × FnSpec))

/-! ## `!=` is the negation of `==` — all values -/

/-- For ALL values `l r` (numbers, strings, bools, nil, pointers, …): either `==` yields a boolean `x` and `!=`
    yields `!x`, both leaving the state unchanged, or both panic. -/
theorem ne_is_not_eq (l r : Val) (st : St) :
    (∃ x, (relOp fns "==" l r).run st = .ok (.bool x, st) ∧ (relOp fns "!=" l r).run st = .ok (.bool (!x), st))
    ∨ ((relOp fns "==" l r).run st = .error () ∧ (relOp fns "!=" l r).run st = .error ()) := by
  rw [relOp_eq, relOp_ne, R.run_toM, R.run_toM]
  cases eqRes fns l r with
  | some x => exact .inl ⟨x, rfl, rfl⟩
  | none => exact .inr ⟨rfl, rfl⟩

/-- the same as an equivalence: `!=` yields `!x` exactly when `==` yields `x` -/
theorem ne_is_not_eq_iff (l r : Val) (st : St) (x : Bool) :
    (relOp fns "!=" l r).run st = .ok (.bool (!x), st) ↔ (relOp fns "==" l r).run st = .ok (.bool x, st) := by
  rw [relOp_eq, relOp_ne, R.run_toM, R.run_toM]
  cases eqRes fns l r with
  | some y =>
    simp only [R.run]
    constructor
    · intro h; injection h with h; injection h with h _; injection h with h
      cases x <;> cases y <;> simp_all
    · intro h; injection h with h; injection h with h _; injection h with h
      rw [h]
  | none => simp [R.run]

/-- `==`/`!=` never record an error and never touch the state: the only outcomes are a boolean or a panic -/
theorem eq_ne_outcomes (l r : Val) (st : St) (op : String) (hop : op = "==" ∨ op = "!=") :
    (∃ x, (relOp fns op l r).run st = .ok (.bool x, st)) ∨ (relOp fns op l r).run st = .error () := by
  rcases ne_is_not_eq fns l r st with ⟨x, h1, h2⟩ | ⟨h1, h2⟩ <;> rcases hop with rfl | rfl
  · exact .inl ⟨x, h1⟩
  · exact .inl ⟨!x, h2⟩
  · exact .inr h1
  · exact .inr h2

/-! ## integer-valued operands of any kinds -/

section ints
variable {l r : Val} {a b : Int}

/-- the six operators compute the mathematical comparison of the two int64 values -/
theorem eq_matches_int (hl : isInt l = some a) (hr : isInt r = some b) (st : St) :
    (relOp fns "==" l r).run st = .ok (.bool (decide (a = b)), st) := by
  rw [relOp_int hl hr, R.run_toM]
  show Except.ok (Val.bool (a == b), st) = _
  rw [beq_eq_decide]

theorem ne_matches_int (hl : isInt l = some a) (hr : isInt r = some b) (st : St) :
    (relOp fns "!=" l r).run st = .ok (.bool (decide (a ≠ b)), st) := by
  rw [relOp_int hl hr, R.run_toM]
  show Except.ok (Val.bool (!(a == b)), st) = _
  rw [not_beq_eq_decide]

theorem lt_matches_int (hl : isInt l = some a) (hr : isInt r = some b) (st : St) :
    (relOp fns "<" l r).run st = .ok (.bool (decide (a < b)), st) := by
  rw [relOp_int hl hr, R.run_toM]; rfl

theorem le_matches_int (hl : isInt l = some a) (hr : isInt r = some b) (st : St) :
    (relOp fns "<=" l r).run st = .ok (.bool (decide (a ≤ b)), st) := by
  rw [relOp_int hl hr, R.run_toM]
  show Except.ok (Val.bool (decide (a < b) || a == b), st) = _
  rw [lt_or_beq_eq_decide]

theorem gt_matches_int (hl : isInt l = some a) (hr : isInt r = some b) (st : St) :
    (relOp fns ">" l r).run st = .ok (.bool (decide (a > b)), st) := by
  rw [relOp_int hl hr, R.run_toM]; rfl

theorem ge_matches_int (hl : isInt l = some a) (hr : isInt r = some b) (st : St) :
    (relOp fns ">=" l r).run st = .ok (.bool (decide (a ≥ b)), st) := by
  rw [relOp_int hl hr, R.run_toM]
  show Except.ok (Val.bool (decide (b < a) || a == b), st) = _
  rw [gt_or_beq_eq_decide]

/-- exactly one of `<`, `==`, `>` yields `true` (the other two yield `false`; none errs or panics) -/
theorem trichotomy_int (hl : isInt l = some a) (hr : isInt r = some b) (st : St) :
    ∃ lt eq gt : Bool,
      (relOp fns "<" l r).run st = .ok (.bool lt, st) ∧
      (relOp fns "==" l r).run st = .ok (.bool eq, st) ∧
      (relOp fns ">" l r).run st = .ok (.bool gt, st) ∧
      ((lt = true ∧ eq = false ∧ gt = false) ∨ (lt = false ∧ eq = true ∧ gt = false) ∨
        (lt = false ∧ eq = false ∧ gt = true)) := by
  refine ⟨_, _, _, lt_matches_int fns hl hr st, eq_matches_int fns hl hr st, gt_matches_int fns hl hr st, ?_⟩
  simp only [decide_eq_true_eq, decide_eq_false_iff_not]
  omega

/-- `<=` is the union of `<` and `==` -/
theorem le_is_lt_or_eq (hl : isInt l = some a) (hr : isInt r = some b) (st : St) :
    ∃ lt eq : Bool,
      (relOp fns "<" l r).run st = .ok (.bool lt, st) ∧
      (relOp fns "==" l r).run st = .ok (.bool eq, st) ∧
      (relOp fns "<=" l r).run st = .ok (.bool (lt || eq), st) := by
  refine ⟨_, _, lt_matches_int fns hl hr st, eq_matches_int fns hl hr st, ?_⟩
  rw [le_matches_int fns hl hr st, decide_le_eq_or]

/-- `>=` is the union of `>` and `==` -/
theorem ge_is_gt_or_eq (hl : isInt l = some a) (hr : isInt r = some b) (st : St) :
    ∃ gt eq : Bool,
      (relOp fns ">" l r).run st = .ok (.bool gt, st) ∧
      (relOp fns "==" l r).run st = .ok (.bool eq, st) ∧
      (relOp fns ">=" l r).run st = .ok (.bool (gt || eq), st) := by
  refine ⟨_, _, gt_matches_int fns hl hr st, eq_matches_int fns hl hr st, ?_⟩
  rw [ge_matches_int fns hl hr st, decide_ge_eq_or]

/-- `<=` is the negation of `>`, `>=` the negation of `<` (total order) -/
theorem le_is_not_gt (hl : isInt l = some a) (hr : isInt r = some b) (st : St) :
    ∃ gt : Bool, (relOp fns ">" l r).run st = .ok (.bool gt, st) ∧
      (relOp fns "<=" l r).run st = .ok (.bool (!gt), st) := by
  refine ⟨_, gt_matches_int fns hl hr st, ?_⟩
  rw [le_matches_int fns hl hr st, decide_le_eq_not_gt]

/-- equal numbers compare equal whatever kinds carry them … -/
theorem eq_kind_independent {l r : Val} {a : Int} (hl : isInt l = some a) (hr : isInt r = some a) (st : St) :
    (relOp fns "==" l r).run st = .ok (.bool true, st) := by
  rw [eq_matches_int fns hl hr st]; simp

/-- … and different numbers compare unequal whatever kinds carry them -/
theorem ne_kind_independent (hl : isInt l = some a) (hr : isInt r = some b) (hab : a ≠ b) (st : St) :
    (relOp fns "==" l r).run st = .ok (.bool false, st) := by
  rw [eq_matches_int fns hl hr st]; simp [hab]

end ints

/-- explicit form: the same mathematical integer `v` (representable in int64, the property's domain) carried by ANY
    two of the ten kinds `k₁`, `k₂`: `==` is true. -/
theorem eq_kind_independent_kinds (k₁ k₂ : IK) (v : Int) (hv : inI64 v) (st : St) :
    (relOp fns "==" (.int k₁ v) (.int k₂ v)).run st = .ok (.bool true, st) := by
  have hw : wrap64 v = v := by
    obtain ⟨h1, h2⟩ := hv
    rw [wrap64_spec]; omega
  have h (k : IK) : isInt (.int k v) = some v := by
    rw [isInt_int]; split <;> simp [hw]
  exact eq_kind_independent fns (h k₁) (h k₂) st

/-- the result of any comparison of two integer-valued operands depends only on the two int64 values, not on the
    kinds (all six operators at once) -/
theorem rel_kind_independent {l r l' r' : Val} {a b : Int} (op : String)
    (hl : isInt l = some a) (hr : isInt r = some b) (hl' : isInt l' = some a) (hr' : isInt r' = some b) :
    relOp fns op l r = relOp fns op l' r' := by
  rw [relOp_int hl hr, relOp_int hl' hr']

/-! ## examples and non-vacuity -/

-- hypotheses are satisfiable for every kind
example (k : IK) : ∃ a, isInt (.int k 5) = some a := ⟨_, isInt_int k 5⟩
example : isInt (.int .int8 (-128)) = some (-128) := by decide
example : isInt (.int .uint64 (2^64 - 1)) = some (-1) := by decide
example : isInt (.int .int64 (2^63 - 1)) = some (2^63 - 1) := by decide

-- int8(7) == uint32(7), int64 min < int64 max, at the boundaries
example (st : St) : (relOp [] "==" (.int .int8 7) (.int .uint32 7)).run st = .ok (.bool true, st) :=
  eq_kind_independent [] (a := 7) (by decide) (by decide) st
example (st : St) : (relOp [] "<" (.int .int64 (-2^63)) (.int .int (2^63 - 1))).run st = .ok (.bool true, st) :=
  lt_matches_int [] (a := -2^63) (b := 2^63 - 1) (by decide) (by decide) st
example (st : St) : (relOp [] ">=" (.int .int64 (-2^63)) (.int .int16 0)).run st = .ok (.bool false, st) :=
  ge_matches_int [] (a := -2^63) (b := 0) (by decide) (by decide) st
-- the lossy uint64 conversion of IsInt: uint64(2^64-1) == int(-1) (Go agrees: int64(u) = -1)
example (st : St) : (relOp [] "==" (.int .uint64 (2^64 - 1)) (.int .int (-1))).run st = .ok (.bool true, st) :=
  eq_kind_independent [] (a := -1) (by decide) (by decide) st
example (st : St) : (relOp [] "<" (.int .uint64 (2^63)) (.int .int 0)).run st = .ok (.bool true, st) :=
  lt_matches_int [] (a := -2^63) (b := 0) (by decide) (by decide) st

-- `ne_is_not_eq` has no hypotheses (nothing to be vacuous about); a concrete instance of its first disjunct.
-- (For non-numbers the outcome is whatever the model's `ifaceEq` says; that function is `partial`, hence cannot be
-- evaluated by the kernel, so no closed example with strings can be *proved*.)
example (st : St) : (relOp [] "==" (.int .int8 7) (.int .uint16 8)).run st = .ok (.bool false, st) ∧
    (relOp [] "!=" (.int .int8 7) (.int .uint16 8)).run st = .ok (.bool true, st) :=
  ⟨eq_matches_int [] (a := 7) (b := 8) (by decide) (by decide) st,
   ne_matches_int [] (a := 7) (b := 8) (by decide) (by decide) st⟩
example (st : St) : (relOp [] "!=" (.int .int8 7) (.int .uint16 8)).run st = .ok (.bool (!false), st) :=
  (ne_is_not_eq_iff [] _ _ st false).2 (eq_matches_int [] (a := 7) (b := 8) (by decide) (by decide) st)

-- trichotomy instance
example (st : St) : ∃ lt eq gt : Bool,
    (relOp [] "<" (.int .uint8 200) (.int .int8 (-3))).run st = .ok (.bool lt, st) ∧
    (relOp [] "==" (.int .uint8 200) (.int .int8 (-3))).run st = .ok (.bool eq, st) ∧
    (relOp [] ">" (.int .uint8 200) (.int .int8 (-3))).run st = .ok (.bool gt, st) ∧
    ((lt = true ∧ eq = false ∧ gt = false) ∨ (lt = false ∧ eq = true ∧ gt = false) ∨
      (lt = false ∧ eq = false ∧ gt = true)) :=
  trichotomy_int [] (a := 200) (b := -3) (by decide) (by decide) st

end C11
