import TplModel.Proofs.FragContent
/-! # C07 (content clause) — what a name resolves to: a file is its whole tree, a definition is the trimmed content

"Fragments and files are resolved by name in one registry … insert wraps / replace substitutes the named fragment's
content … the content of a `:define` element with blank text at its start and end trimmed …"

OBLIGATIONS: C07C.trimBlank_general, C07C.trimBlank_spec, C07C.trimBlank_fixed, C07C.dropBlankEnds_char, C07C.trimBlank_three_blank, C07C.scanner_text_runs_maximal, C07C.loaded_children_no_adjacent_text, C07C.loaded_templates_are_roots, C07C.define_content_is_trimmed_children, C07C.define_is_registered, C07C.file_template_is_untrimmed_root, C07C.root_renders_kids, C07C.depth_only_matters_for_limit, C07C.frag_is_execute, C07C.insert_file_renders_file, C07C.replace_file_renders_file, C07C.frag_text_is_execute_text, C07C.insert_loaded_renders_execute, C07C.replace_loaded_renders_execute, C07C.Demo.demo_true, C07C.Demo.file_demo_true, C07C.Demo.define_demo_true, C07C.Demo.blank_define_demo_true, C07C.Demo.registry_demo_true

**Which trimming function.** The model uses `EN.trimBlankKids`, a transcription of Go's
`(*Node).GetChildrenWithoutHeadTailBlankText` (html/node.go): child `i` is skipped iff `(i == 0 || i == count-1)` and it is
blank text.  So AT MOST ONE node is removed at each end (`trimBlank_general`): of three blank text children the middle
one would stay (`trimBlank_three_blank`).  That corner cannot occur in a loaded tree: the scanner emits maximal text runs
(`scanner_text_runs_maximal`: no two adjacent text tokens), hence no node of a loaded tree has two adjacent text
children (`loaded_children_no_adjacent_text`), and on such lists the function IS "remove the maximal prefix and the
maximal suffix of blank text nodes" (`trimBlank_spec`, `dropBlankEnds_char`).  Model and Go agree (checked on the inputs
of §4 and on `<p :define="'g'"> <!--c--> <i>g</i> </p>`, which keeps ` ` after the comment).

**Registry.** `define_content_is_trimmed_children` / `define_is_registered`: in every manager that `loadFiles` returns, a
name resolves either to a file's annotated root — all children, nothing trimmed (`file_template_is_untrimmed_root`) —
or to `.mk rootD (dropBlankEnds kids) none` where `kids` are the children of a `define` element of a registered file
tree: literally the same nodes (ids, attributes, `prevTag` / `nextBlank` annotations untouched), a contiguous piece of
`kids` whose complement is blank text (`dropBlankEnds_char`); and every `define` element of every loaded file is
registered like that.  The name is the value of the `define` attribute evaluated in the manager's final context.

**Rendering.** `insert_wraps` / `replace_substitutes` (Props/RenderProps.lean) already say that the host's content is the
joined output of `refNode … (depth + 1) emptyNc t` for the root `t` the name resolves to.  Here: a root renders `""` and
then its children (`root_renders_kids`), the nesting depth only matters for the limit (`depth_only_matters_for_limit`),
so that run IS the run of `refExecute` on `t` in the call-site scope, at the same fuel (`frag_is_execute`); the file
statements `insert_file_renders_file` / `replace_file_renders_file` are corollaries, and for loaded managers the text is
the text of the faithful `RN.execute` on the file (`insert_loaded_renders_execute`, `replace_loaded_renders_execute`). -/
namespace C07C
open EN
open EV (Val FnSpec)
open RN (CAttr Part NodeD Node NK Cls Env NC Q Status refNode refKids refBody refFrag refExecute emptyNc classify hasKind)
open RN.Spec (AttrsOk attrText endChunks)
open RN.Props (restLog)

/-! ## 1. the trimming function -/

/-- **the model's trimming, exactly** (for every list): the first node goes iff it is blank text, then the last node of
    the rest goes iff it is blank text — at most one node at each end, as in Go. -/
theorem trimBlank_general (l : List Node) : trimBlankKids l = dropLast1 (dropHead1 l) := trimBlankKids_general l

/-- **trimBlank_spec.** On a list without two adjacent blank text nodes (every child list of a loaded tree,
    `loaded_children_no_adjacent_text`): the result is the list without its maximal blank prefix and suffix; trimming
    twice is trimming once; a list of blank nodes only (there is at most one then) becomes `[]`. -/
theorem trimBlank_spec (l : List Node) (h : NoAdj RN.isBlankText l) :
    trimBlankKids l = dropBlankEnds l ∧
    trimBlankKids (trimBlankKids l) = trimBlankKids l ∧
    ((∀ k ∈ l, RN.isBlankText k = true) → trimBlankKids l = []) :=
  ⟨EN.trimBlank_spec l h, trimBlank_idem l h, trimBlank_all_blank l h⟩

/-- a list that neither starts nor ends with blank text is left alone (every list; blank nodes inside stay) -/
theorem trimBlank_fixed (l : List Node) (h1 : ∀ k, l.head? = some k → RN.isBlankText k = false)
    (h2 : ∀ k, l.getLast? = some k → RN.isBlankText k = false) : trimBlankKids l = l ∧ dropBlankEnds l = l :=
  ⟨EN.trimBlank_fixed l h1 h2, dropBlankEnds_fixed l h1 h2⟩

/-- **"drop-while-blank from both ends", characterised** (every list): `dropBlankEnds l` is a contiguous piece of `l`
    (the same nodes in the same order), what is cut off on either side is blank text, the piece neither starts nor ends
    with blank text (so prefix and suffix are maximal); the operation is idempotent and sends all-blank lists to `[]`. -/
theorem dropBlankEnds_char (l : List Node) :
    (∃ pre suf, l = pre ++ dropBlankEnds l ++ suf ∧ (∀ k ∈ pre, RN.isBlankText k = true) ∧
      (∀ k ∈ suf, RN.isBlankText k = true)) ∧
    (∀ k, (dropBlankEnds l).head? = some k → RN.isBlankText k = false) ∧
    (∀ k, (dropBlankEnds l).getLast? = some k → RN.isBlankText k = false) ∧
    dropBlankEnds (dropBlankEnds l) = dropBlankEnds l ∧
    ((∀ k ∈ l, RN.isBlankText k = true) → dropBlankEnds l = []) :=
  ⟨dropBlankEnds_decomp l, dropBlankEnds_head l, dropBlankEnds_last l, dropBlankEnds_idem l, dropBlankEnds_all_blank l⟩

/-- the corner in which "one node at each end" and "maximal" differ (unreachable from source text) -/
theorem trimBlank_three_blank (a b c : Node) (ha : RN.isBlankText a = true) (hb : RN.isBlankText b = true)
    (hc : RN.isBlankText c = true) : trimBlankKids [a, b, c] = [b] ∧ dropBlankEnds [a, b, c] = [] :=
  EN.trimBlank_three_blank a b c ha hb hc

/-- text runs are maximal: the scanner never emits two adjacent text tokens -/
theorem scanner_text_runs_maximal (cfg : HS.Cfg) (src : List Char) (toks : List HS.Token)
    (h : HS.scan cfg src = .ok toks) : NoAdj HS.tokIsText toks := HS.scan_noAdjText cfg src toks h

/-! ## 2. the registry of a loaded manager -/

/-- `root` is the annotated tree (`ParseTokens`, then the sibling annotations) of the file `fname` of `files`, for some
    numbering of nodes and compiled expressions -/
def IsFileTree (cfg : Cfg) (files : List (String × String)) (fname : String) (root : Node) : Prop :=
  ∃ src idx toks tbl tbl' root0, (fname, src) ∈ files ∧ HS.scan (scanCfg cfg) src.toList = .ok toks ∧
    buildTreeS cfg idx toks tbl = (.ok root0, tbl') ∧ root = annotate root0

theorem _root_.EN.FileRec.isFileTree {cfg : Cfg} {fs : List (String × String)} {m : Mgr} {fname : String} {root : Node} {tbl' : Tbl}
    (h : FileRec cfg fs m fname root tbl') : IsFileTree cfg fs fname root := by
  obtain ⟨src, idx, toks, tbl, root0, h1, h2, h3, h4⟩ := h.built
  exact ⟨src, idx, toks, tbl, tbl', root0, h1, h2, h3, h4⟩

/-- no node of a file tree has two adjacent text children; in particular no two adjacent blank text children -/
theorem loaded_children_no_adjacent_text (cfg : Cfg) (files : List (String × String)) (fname : String) (root : Node)
    (hr : IsFileTree cfg files fname root) (d : NodeD) (ks : List Node) (e : Option String)
    (hs : Sub (.mk d ks e) root) : NoAdj isText ks ∧ NoAdj RN.isBlankText ks := by
  obtain ⟨src, idx, toks, tbl, tbl', root0, _, h2, h3, rfl⟩ := hr
  have hg : GoodN (annotate root0) := buildTreeS_good (HS.scan_noAdjText _ _ _ h2) h3
  exact ⟨(hg.sub hs).1, (hg.sub hs).kids⟩

/-- everything registered is a root: kind root, id 0, no end tag (so `root_renders_kids` applies to it) -/
theorem loaded_templates_are_roots (cfg : Cfg) (fns : List (String × FnSpec)) (files : List (String × String)) (m : Mgr)
    (h : loadFiles cfg fns files = .ok m) (n : String) (t : Node) (ht : (envOf m).tpl n = some t) :
    t.d = rootD ∧ t.endVal = none := by
  obtain ⟨hi, _⟩ := loaded_linv h
  obtain ⟨fname, root, tbl', hrec, hp⟩ := hi.sound (n, t) (lookupL_mem ht)
  rcases hp with hp | ⟨d, kids, e, a, lg, _, _, _, hp⟩
  · cases hp; exact hrec.isRoot
  · simp only at hp; rw [hp]; exact ⟨rfl, rfl⟩

/-- **define_content_is_trimmed_children.** In every manager produced by `loadFiles`, a name `n` resolves either to the
    tree of the file `n` (see `file_template_is_untrimmed_root`), or — a `define` name — to a root (`rootD`: kind root,
    id 0; no end tag) whose child list is EXACTLY `dropBlankEnds kids`, where `kids` are the children of an element
    `.mk d kids e` of a registered file tree `root` that carries the `define` attribute `a` (the first attribute named
    `<attrPrefix>define`), and `n` is the value of `a` evaluated on the empty scope in the manager's context.  The
    children are the nodes of the file tree themselves (same ids, attributes, `prevTag` / `nextBlank`), minus the
    maximal blank prefix and suffix (`dropBlankEnds_char`); that is also what `trimBlankKids`, the function the loader
    calls, returns on them. -/
theorem define_content_is_trimmed_children (cfg : Cfg) (fns : List (String × FnSpec)) (files : List (String × String))
    (m : Mgr) (h : loadFiles cfg fns files = .ok m) (n : String) (t : Node) (ht : (envOf m).tpl n = some t) :
    IsFileTree cfg files n t ∨
    ∃ fname root d kids e a lg, IsFileTree cfg files fname root ∧ (envOf m).tpl fname = some root ∧
      Sub (.mk d kids e) root ∧ defAttr cfg d = some a ∧ attrEvaluate m.cx a [emptyMap] = (.ok n, lg) ∧
      t = .mk rootD (dropBlankEnds kids) none ∧ trimBlankKids kids = dropBlankEnds kids := by
  obtain ⟨hi, _⟩ := loaded_linv h
  obtain ⟨fname, root, tbl', hrec, hp⟩ := hi.sound (n, t) (lookupL_mem ht)
  rcases hp with hp | ⟨d, kids, e, a, lg, hs, hd, hev, hp⟩
  · cases hp; exact Or.inl hrec.isFileTree
  · refine Or.inr ⟨fname, root, d, kids, e, a, lg, hrec.isFileTree, hrec.look, hs, hd, ?_, hp,
      EN.trimBlank_spec kids (hrec.good.sub hs).kids⟩
    rw [hrec.eval_stable hs hd, hi.fnsEq]; exact hev

/-- **every `define` is registered.** Conversely: every file of `files` is registered under its name, and for every
    element `.mk d kids e` of its tree with a `define` attribute `a`, the value of `a` is a name that resolves to the root
    over `dropBlankEnds kids`. -/
theorem define_is_registered (cfg : Cfg) (fns : List (String × FnSpec)) (files : List (String × String))
    (m : Mgr) (h : loadFiles cfg fns files = .ok m) (fname src : String) (hf : (fname, src) ∈ files) :
    ∃ root, (envOf m).tpl fname = some root ∧ IsFileTree cfg files fname root ∧
      ∀ d kids e a, Sub (.mk d kids e) root → defAttr cfg d = some a →
        ∃ n lg, attrEvaluate m.cx a [emptyMap] = (.ok n, lg) ∧
          (envOf m).tpl n = some (.mk rootD (dropBlankEnds kids) none) := by
  obtain ⟨hi, hfiles⟩ := loaded_linv h
  have hmem : fname ∈ m.files := by rw [hfiles]; exact List.mem_map.mpr ⟨_, hf, rfl⟩
  obtain ⟨root, tbl', hrec, hc⟩ := hi.complete fname hmem
  refine ⟨root, hrec.look, hrec.isFileTree, ?_⟩
  intro d kids e a hs hd
  obtain ⟨n, lg, h1, h2⟩ := hc (a, kids) ((mem_defNodes cfg a kids root).mpr ⟨d, e, hs, hd⟩)
  refine ⟨n, lg, ?_, h2⟩
  rw [hrec.eval_stable hs hd, hi.fnsEq]; exact h1

/-- **file_template_is_untrimmed_root.** The template registered under a FILE name is the file's annotated root itself:
    `annotate root0` for the tree `root0` that `ParseTokens` builds from the file's tokens — no trimming is applied.
    All children are there: the pre-order flattening of the registered tree is the complete token list, and when the
    file starts with a text token `t` (blank or not) the first child of the registered root is that text node. -/
theorem file_template_is_untrimmed_root (cfg : Cfg) (fns : List (String × FnSpec)) (files : List (String × String))
    (m : Mgr) (h : loadFiles cfg fns files = .ok m) (fname src : String) (hf : (fname, src) ∈ files) :
    ∃ src' idx toks tbl tbl' root0, (fname, src') ∈ files ∧ HS.scan (scanCfg cfg) src'.toList = .ok toks ∧
      buildTreeS cfg idx toks tbl = (.ok root0, tbl') ∧
      (envOf m).tpl fname = some (annotate root0) ∧
      flatten (annotate root0) = toks.map (fun t => String.ofList t.value) ∧
      (annotate root0).kids.length = root0.kids.length ∧
      ∀ t ts, toks = t :: ts → ∃ k ks, (annotate root0).kids = k :: ks ∧ k.d.value = String.ofList t.value ∧
        (k.d.kind == .text) = HS.tokIsText t := by
  obtain ⟨root, hlook, ⟨src', idx, toks, tbl, tbl', root0, h1, h2, h3, rfl⟩, _⟩ :=
    define_is_registered cfg fns files m h fname src hf
  refine ⟨src', idx, toks, tbl, tbl', root0, h1, h2, h3, hlook, (buildTree_preorder cfg idx toks tbl tbl' root0 h3).2, ?_, ?_⟩
  · cases root0 with
    | mk d kids e =>
      simp only [annotate, RN.Node.kids]
      have : ∀ (p : Option Nat) (l : List Node), (annotateL p l).length = l.length := by
        intro p l
        induction l generalizing p with
        | nil => simp [annotateL]
        | cons x xs ih => simp [annotateL, ih]
      exact this _ _
  · intro t ts ht
    subst ht
    exact buildTreeS_first_kid h3

/-! ## 3. rendering: a fragment run is an `Execute` run -/

variable {Sc : Type}

/-- a root without end tag — every registered template (`loaded_templates_are_roots`) — renders the empty chunk and then
    exactly what `refKids` renders for its children: nothing trimmed, nothing added -/
theorem root_renders_kids (cfg : RN.Cfg) (env : Env Sc) (f depth : Nat) (nc : NC) (t : Node) (sc : Sc)
    (hk : t.d.kind = .root) (he : t.endVal = none) (h : (refNode cfg env f depth nc t sc).st ≠ .fuel) :
    refNode cfg env f depth nc t sc =
      { refKids cfg env f depth nc t.kids sc with out := "" :: (refKids cfg env f depth nc t.kids sc).out } :=
  RN.Spec.refNode_root cfg env f depth nc t sc hk he h

/-- **the depth offset.** The nesting depth is only compared with `cfg.maxDepth`: a run at depth `d'` that does not fail
    with `tooDeep` equals, at the same fuel, the run at every smaller depth `d` — status, chunks, log, conditions. -/
theorem depth_only_matters_for_limit (cfg : RN.Cfg) (env : Env Sc) (f d d' : Nat) (nc : NC) (hd : d ≤ d') :
    (∀ node sc, (refNode cfg env f d' nc node sc).st ≠ .err .tooDeep →
      refNode cfg env f d nc node sc = refNode cfg env f d' nc node sc) ∧
    (∀ ks sc, (refKids cfg env f d' nc ks sc).st ≠ .err .tooDeep →
      refKids cfg env f d nc ks sc = refKids cfg env f d' nc ks sc) :=
  ⟨fun _ _ h => RN.Spec.refNode_shift cfg env hd h, fun _ _ h => RN.Spec.refKids_shift cfg env hd h⟩

/-- **frag_is_execute.** The run of a successful fragment call (depth `depth + 1`, fresh conditions, call-site scope) is
    the run of `refExecute` (depth 0) on the same root in the same scope, at the same fuel. -/
theorem frag_is_execute (cfg : RN.Cfg) (env : Env Sc) (f depth : Nat) (nc : NC) (t : Node) (sc : Sc)
    (hok : (refFrag cfg env f depth nc t sc).st = .ok) :
    refNode cfg env f (depth + 1) emptyNc t sc = refExecute cfg env f t sc ∧ (refExecute cfg env f t sc).st = .ok :=
  RN.Spec.frag_is_execute cfg env f depth nc t sc hok

/-- **insert_file_renders_file** (corollary of `RN.Props.insert_wraps`, `root_renders_kids`, `frag_is_execute`).
    Host element with exactly one `insert`, whose name resolves to the root `t` (a file root, or any registered root).
    With `K := refKids … (depth + 1) emptyNc t.kids sc`, the chunks of ALL of `t`'s children in the call-site scope:
    the host renders `<tag attrs>` ++ join of `K`'s chunks, then its end tag; `K` succeeded; executing the file itself
    (`refExecute`, depth 0) in that scope gives `""` followed by exactly the chunks of `K` (same log, same status); and
    `K` is also the children's run at depth 0. -/
theorem insert_file_renders_file (cfg : RN.Cfg) (env : Env Sc) (f depth : Nat) (nc : NC) (node : Node) (sc : Sc)
    (pre post : List CAttr) (a : CAttr) (name : String) (lg : List String) (t : Node)
    (hf : (refBody cfg env f depth nc node sc).st ≠ .fuel) (hA : AttrsOk cfg env f depth nc node sc)
    (has : node.d.attrs = pre ++ a :: post) (hk : classify cfg a = .insert)
    (hpre : ∀ x ∈ pre, classify cfg x ≠ .insert) (hpost : ∀ x ∈ post, classify cfg x ≠ .insert)
    (hndr : hasKind cfg node.d.attrs (fun k => k == .define || k == .replace) = false)
    (hnrm : hasKind cfg node.d.attrs (· == .remove) = false)
    (hnb : (RN.trimSlash (RN.lowerS node.d.tagName) == cfg.tagPrefix ++ "block") = false)
    (hE : env.evalStr a sc = (.ok name, lg)) (hT : env.tpl name = some t)
    (hfr : (refFrag cfg env f depth nc t sc).st = .ok)
    (hroot : t.d.kind = .root) (hend : t.endVal = none) :
    refBody cfg env f depth nc node sc =
      { st := .ok,
        out := ["<" ++ node.d.tagName ++ String.join (node.d.attrs.map (attrText cfg env node.d sc)) ++ ">" ++
                  String.join (refKids cfg env f (depth + 1) emptyNc t.kids sc).out] ++ endChunks node.endVal false,
        log := restLog cfg env f depth nc node sc, nc := nc } ∧
    (refKids cfg env f (depth + 1) emptyNc t.kids sc).st = .ok ∧
    refExecute cfg env f t sc =
      { refKids cfg env f (depth + 1) emptyNc t.kids sc with
        out := "" :: (refKids cfg env f (depth + 1) emptyNc t.kids sc).out } ∧
    refKids cfg env f 0 emptyNc t.kids sc = refKids cfg env f (depth + 1) emptyNc t.kids sc := by
  obtain ⟨e1, e2⟩ := frag_is_execute cfg env f depth nc t sc hfr
  have hnf : (refNode cfg env f (depth + 1) emptyNc t sc).st ≠ .fuel := by rw [e1, e2]; simp
  have hr := root_renders_kids cfg env f (depth + 1) emptyNc t sc hroot hend hnf
  have hst : (refKids cfg env f (depth + 1) emptyNc t.kids sc).st = .ok := by
    have := congrArg Q.st hr; rw [e1, e2] at this; exact this.symm
  refine ⟨?_, hst, by rw [← e1]; exact hr, ?_⟩
  · rw [RN.Props.insert_wraps cfg env f depth nc node sc pre post a name lg t hf hA has hk hpre hpost hndr hnrm hnb hE hT hfr,
      hr]
    simp only [RN.Spec.join_cons_empty]
  · exact RN.Spec.refKids_shift cfg env (Nat.zero_le _) (by rw [hst]; simp)

/-- **replace_file_renders_file** (corollary of `RN.Props.replace_substitutes`): the same without the host's tags — the
    single chunk is the join of the chunks of all of `t`'s children. -/
theorem replace_file_renders_file (cfg : RN.Cfg) (env : Env Sc) (f depth : Nat) (nc : NC) (node : Node) (sc : Sc)
    (pre post : List CAttr) (a : CAttr) (name : String) (lg : List String) (t : Node)
    (hf : (refBody cfg env f depth nc node sc).st ≠ .fuel) (hA : AttrsOk cfg env f depth nc node sc)
    (has : node.d.attrs = pre ++ a :: post) (hk : classify cfg a = .replace)
    (hpre : ∀ x ∈ pre, classify cfg x ≠ .replace) (hpost : ∀ x ∈ post, classify cfg x ≠ .replace)
    (hE : env.evalStr a sc = (.ok name, lg)) (hT : env.tpl name = some t)
    (hfr : (refFrag cfg env f depth nc t sc).st = .ok)
    (hroot : t.d.kind = .root) (hend : t.endVal = none) :
    refBody cfg env f depth nc node sc =
      { st := .ok, out := [String.join (refKids cfg env f (depth + 1) emptyNc t.kids sc).out],
        log := restLog cfg env f depth nc node sc, nc := nc } ∧
    (refKids cfg env f (depth + 1) emptyNc t.kids sc).st = .ok ∧
    refExecute cfg env f t sc =
      { refKids cfg env f (depth + 1) emptyNc t.kids sc with
        out := "" :: (refKids cfg env f (depth + 1) emptyNc t.kids sc).out } ∧
    refKids cfg env f 0 emptyNc t.kids sc = refKids cfg env f (depth + 1) emptyNc t.kids sc := by
  obtain ⟨e1, e2⟩ := frag_is_execute cfg env f depth nc t sc hfr
  have hnf : (refNode cfg env f (depth + 1) emptyNc t sc).st ≠ .fuel := by rw [e1, e2]; simp
  have hr := root_renders_kids cfg env f (depth + 1) emptyNc t sc hroot hend hnf
  have hst : (refKids cfg env f (depth + 1) emptyNc t.kids sc).st = .ok := by
    have := congrArg Q.st hr; rw [e1, e2] at this; exact this.symm
  refine ⟨?_, hst, by rw [← e1]; exact hr, ?_⟩
  · rw [RN.Props.replace_substitutes cfg env f depth nc node sc pre post a name lg t hf hA has hk hpre hpost hE hT hfr, hr]
    simp only [RN.Spec.join_cons_empty]
  · exact RN.Spec.refKids_shift cfg env (Nat.zero_le _) (by rw [hst]; simp)

/-- the text of a successful fragment call in a loaded manager is the text the faithful renderer `RN.execute` prints for
    the same root and scope (any fuel that suffices) -/
theorem frag_text_is_execute_text (cfg : Cfg) (fns : List (String × FnSpec)) (files : List (String × String)) (m : Mgr)
    (h : loadFiles cfg fns files = .ok m) (name : String) (t : Node) (hT : (envOf m).tpl name = some t)
    (f depth : Nat) (nc : NC) (sc : List Val)
    (hfr : (refFrag (rcfgOf cfg) (envOf m) f depth nc t sc).st = .ok)
    (F : Nat) (hF : (RN.execute (rcfgOf cfg) (envOf m) F t sc).st ≠ .fuel) :
    refNode (rcfgOf cfg) (envOf m) f (depth + 1) emptyNc t sc = (RN.execute (rcfgOf cfg) (envOf m) F t sc).toQ := by
  obtain ⟨e1, e2⟩ := frag_is_execute (rcfgOf cfg) (envOf m) f depth nc t sc hfr
  obtain ⟨g, hg⟩ := execute_refines_loaded cfg fns files m h name t hT F sc hF
  have hgf : (refExecute (rcfgOf cfg) (envOf m) g t sc).st ≠ .fuel := by rw [hg]; exact hF
  have hff : (refExecute (rcfgOf cfg) (envOf m) f t sc).st ≠ .fuel := by rw [e2]; simp
  rw [e1, ← hg]
  rcases Nat.le_total f g with hle | hle
  · exact (RN.Spec.refExecute_mono _ _ hle hff).symm
  · exact RN.Spec.refExecute_mono _ _ hle hgf

/-- **insert, loaded manager, faithful renderer.** In a manager produced by `loadFiles`, a host with one `insert` whose
    name resolves to `t` prints its start tag, then the text that executing `t` itself (`RN.execute`, the faithful
    renderer, top level) prints for the call-site scope, then its end tag. -/
theorem insert_loaded_renders_execute (cfg : Cfg) (fns : List (String × FnSpec)) (files : List (String × String)) (m : Mgr)
    (h : loadFiles cfg fns files = .ok m)
    (f depth : Nat) (nc : NC) (node : Node) (sc : List Val)
    (pre post : List CAttr) (a : CAttr) (name : String) (lg : List String) (t : Node)
    (hf : (refBody (rcfgOf cfg) (envOf m) f depth nc node sc).st ≠ .fuel)
    (hA : AttrsOk (rcfgOf cfg) (envOf m) f depth nc node sc)
    (has : node.d.attrs = pre ++ a :: post) (hk : classify (rcfgOf cfg) a = .insert)
    (hpre : ∀ x ∈ pre, classify (rcfgOf cfg) x ≠ .insert) (hpost : ∀ x ∈ post, classify (rcfgOf cfg) x ≠ .insert)
    (hndr : hasKind (rcfgOf cfg) node.d.attrs (fun k => k == .define || k == .replace) = false)
    (hnrm : hasKind (rcfgOf cfg) node.d.attrs (· == .remove) = false)
    (hnb : (RN.trimSlash (RN.lowerS node.d.tagName) == (rcfgOf cfg).tagPrefix ++ "block") = false)
    (hE : attrEvaluate m.cx a sc = (.ok name, lg)) (hT : (envOf m).tpl name = some t)
    (hfr : (refFrag (rcfgOf cfg) (envOf m) f depth nc t sc).st = .ok)
    (F : Nat) (hF : (RN.execute (rcfgOf cfg) (envOf m) F t sc).st ≠ .fuel) :
    refBody (rcfgOf cfg) (envOf m) f depth nc node sc =
      { st := .ok,
        out := ["<" ++ node.d.tagName ++
                  String.join (node.d.attrs.map (attrText (rcfgOf cfg) (envOf m) node.d sc)) ++ ">" ++
                  String.join (RN.execute (rcfgOf cfg) (envOf m) F t sc).out] ++ endChunks node.endVal false,
        log := restLog (rcfgOf cfg) (envOf m) f depth nc node sc, nc := nc } ∧
    (RN.execute (rcfgOf cfg) (envOf m) F t sc).st = .ok := by
  have e := frag_text_is_execute_text cfg fns files m h name t hT f depth nc sc hfr F hF
  have e2 := (frag_is_execute (rcfgOf cfg) (envOf m) f depth nc t sc hfr)
  refine ⟨?_, ?_⟩
  · rw [RN.Props.insert_wraps (rcfgOf cfg) (envOf m) f depth nc node sc pre post a name lg t hf hA has hk hpre hpost hndr
      hnrm hnb hE hT hfr, e]
    rfl
  · have := congrArg Q.st e
    rw [e2.1, e2.2] at this
    exact this.symm

/-- **replace, loaded manager, faithful renderer**: the host is replaced by the text that executing `t` itself prints. -/
theorem replace_loaded_renders_execute (cfg : Cfg) (fns : List (String × FnSpec)) (files : List (String × String)) (m : Mgr)
    (h : loadFiles cfg fns files = .ok m)
    (f depth : Nat) (nc : NC) (node : Node) (sc : List Val)
    (pre post : List CAttr) (a : CAttr) (name : String) (lg : List String) (t : Node)
    (hf : (refBody (rcfgOf cfg) (envOf m) f depth nc node sc).st ≠ .fuel)
    (hA : AttrsOk (rcfgOf cfg) (envOf m) f depth nc node sc)
    (has : node.d.attrs = pre ++ a :: post) (hk : classify (rcfgOf cfg) a = .replace)
    (hpre : ∀ x ∈ pre, classify (rcfgOf cfg) x ≠ .replace) (hpost : ∀ x ∈ post, classify (rcfgOf cfg) x ≠ .replace)
    (hE : attrEvaluate m.cx a sc = (.ok name, lg)) (hT : (envOf m).tpl name = some t)
    (hfr : (refFrag (rcfgOf cfg) (envOf m) f depth nc t sc).st = .ok)
    (F : Nat) (hF : (RN.execute (rcfgOf cfg) (envOf m) F t sc).st ≠ .fuel) :
    refBody (rcfgOf cfg) (envOf m) f depth nc node sc =
      { st := .ok, out := [String.join (RN.execute (rcfgOf cfg) (envOf m) F t sc).out],
        log := restLog (rcfgOf cfg) (envOf m) f depth nc node sc, nc := nc } ∧
    (RN.execute (rcfgOf cfg) (envOf m) F t sc).st = .ok := by
  have e := frag_text_is_execute_text cfg fns files m h name t hT f depth nc sc hfr F hF
  have e2 := (frag_is_execute (rcfgOf cfg) (envOf m) f depth nc t sc hfr)
  refine ⟨?_, ?_⟩
  · rw [RN.Props.replace_substitutes (rcfgOf cfg) (envOf m) f depth nc node sc pre post a name lg t hf hA has hk hpre hpost
      hE hT hfr, e]
    rfl
  · have := congrArg Q.st e
    rw [e2.1, e2.2] at this
    exact this.symm

/-! ## 4. concrete inputs (kernel evaluation) and non-vacuity -/
namespace Demo
open RN.Props (TSc toyEnv txt el rootOf at_)

/-! ### lists -/

def blank : Node := txt 1 " \n"
def blank2 : Node := txt 2 "\t"
def word : Node := txt 3 " w "
def elem : Node := el 4 "i" [] [txt 5 "f"]

/-- `trimBlank_spec`, `trimBlank_fixed`, `dropBlankEnds_char`: hypotheses satisfiable on ` ⏎`, `<i>f</i>`, ` w `, `⇥`;
    the inner blank-free text ` w ` stays, both blank ends go -/
example : NoAdj RN.isBlankText [blank, elem, word, blank2] ∧
    trimBlankKids [blank, elem, word, blank2] = [elem, word] ∧ dropBlankEnds [blank, elem, word, blank2] = [elem, word] ∧
    trimBlankKids [elem, blank, word] = [elem, blank, word] ∧
    trimBlankKids [blank] = [] ∧ RN.isBlankText blank = true ∧ RN.isBlankText word = false := by
  have hb : RN.isBlankText blank = true := by decide +kernel
  have hb2 : RN.isBlankText blank2 = true := by decide +kernel
  have hw : RN.isBlankText word = false := by decide +kernel
  have he : RN.isBlankText elem = false := by decide +kernel
  have hn : NoAdj RN.isBlankText [blank, elem, word, blank2] := by simp [NoAdj, he, hw]
  have h1 := (trimBlank_spec _ hn).1
  have h2 : dropBlankEnds [blank, elem, word, blank2] = [elem, word] := by
    simp [dropBlankEnds, List.dropWhile, hb, hb2, hw, he]
  refine ⟨hn, h1.trans h2, h2, (trimBlank_fixed [elem, blank, word] ?_ ?_).1, ?_, hb, hw⟩
  · intro k hk; simp only [List.head?_cons, Option.some.injEq] at hk; subst hk; exact he
  · intro k hk; simp only [List.getLast?_cons_cons, List.getLast?_singleton, Option.some.injEq] at hk; subst hk; exact hw
  · rw [trim_one, hb]; rfl

/-- `trimBlank_three_blank`: three blank text nodes — not obtainable from source text -/
example : trimBlankKids [blank, blank2, blank] = [blank2] ∧ dropBlankEnds [blank, blank2, blank] = [] :=
  trimBlank_three_blank _ _ _ (by decide +kernel) (by decide +kernel) (by decide +kernel)

/-- `scanner_text_runs_maximal`: a document that scans (13 tokens) -/
example : NoAdj HS.tokIsText EN.Example.toks := scanner_text_runs_maximal _ _ _ EN.Example.scan_ok

/-! ### specification level: a file with blank ends, inserted and replaced -/

/-- the root of a "file" `⏎<b>x</b>⏎` -/
def fileT : Node := rootOf [txt 903 "\n", el 901 "b" [] [txt 902 "x"], txt 904 "\n"]
def env2 : Env TSc := { toyEnv with tpl := fun n => if n == "part.html" then some fileT else none }
def insN : Node := el 1 "pre" [at_ ":insert" "f"] [txt 2 "old"]
def repN : Node := el 1 "s" [at_ ":replace" "f"] [txt 2 "old"]
def sc2 : TSc := [("f", "part.html")]

/-- what the theorems say on these inputs, computed: the white space around `<b>x</b>` is kept, the host's `old` is gone;
    executing the file itself gives the same chunks after the empty root chunk -/
example : (refBody {} env2 20 3 emptyNc insN sc2).out = ["<pre>\n<b>x</b>\n", "</pre>"] ∧
    (refBody {} env2 20 3 emptyNc repN sc2).out = ["\n<b>x</b>\n"] ∧
    (refKids {} env2 20 4 emptyNc fileT.kids sc2).out = ["\n", "<b>", "x", "</b>", "\n"] ∧
    (refExecute {} env2 20 fileT sc2).out = ["", "\n", "<b>", "x", "</b>", "\n"] := by decide +kernel

/-- the hypotheses of `root_renders_kids`, `depth_only_matters_for_limit` (at a node and at a child list),
    `frag_is_execute` are satisfiable (call site at depth 3) -/
example : True := by
  have := root_renders_kids {} env2 20 4 emptyNc fileT sc2 rfl rfl (by decide +kernel)
  have := (depth_only_matters_for_limit {} env2 20 0 4 emptyNc (by decide)).1 fileT sc2 (by decide +kernel)
  have := (depth_only_matters_for_limit {} env2 20 0 4 emptyNc (by decide)).2 fileT.kids sc2 (by decide +kernel)
  have := frag_is_execute {} env2 20 3 emptyNc fileT sc2 (by decide +kernel)
  trivial

/-- the hypotheses of `insert_file_renders_file` are satisfiable -/
example : True := by
  have := insert_file_renders_file {} env2 20 3 emptyNc insN sc2 [] [] (at_ ":insert" "f") "part.html" ["eval f"] fileT
    (by decide +kernel) (by unfold AttrsOk; decide +kernel) rfl (by decide +kernel)
    (by intro x hx; cases hx) (by intro x hx; cases hx) (by decide +kernel) (by decide +kernel) (by decide +kernel)
    (by decide +kernel) rfl (by decide +kernel) rfl rfl
  trivial

/-- the hypotheses of `replace_file_renders_file` are satisfiable -/
example : True := by
  have := replace_file_renders_file {} env2 20 3 emptyNc repN sc2 [] [] (at_ ":replace" "f") "part.html" ["eval f"] fileT
    (by decide +kernel) (by unfold AttrsOk; decide +kernel) rfl (by decide +kernel)
    (by intro x hx; cases hx) (by intro x hx; cases hx) (by decide +kernel) rfl (by decide +kernel) rfl rfl
  trivial

/-- the depth limit is the only thing the depth is used for: at the limit the same call fails -/
example : (refFrag { maxDepth := 3 } env2 20 3 emptyNc fileT sc2).st = .err .tooDeep ∧
    (refFrag { maxDepth := 4 } env2 20 3 emptyNc fileT sc2).st = .ok := by decide +kernel

/-! ### end to end: source text → `loadFiles` → `RN.execute` -/

/-- `t` inserts the whole file `part.html` (white space at both ends); `lib` defines `'f'` (blank text around its
    content), `'e'` (one blank text node), `'g'` (blank, comment, blank, element, blank); `main` uses them -/
def libSrc : String := "<p :define=\"'f'\"> <i>f</i> </p><p :define=\"'e'\"> </p><p :define=\"'g'\"> <!--c--> <i>g</i> </p>"
def files : List (String × String) :=
  [("t", "<pre :insert=\"part.html\">old</pre>"),
   ("part.html", "\n<b>x</b>\n"),
   ("lib", libSrc),
   ("main", "<u :insert=\"'f'\">x</u>|<u :insert=\"'e'\">y</u>|<s :replace=\"'e'\">z</s>|<s :replace=\"part.html\">z</s>|" ++
      "<s :replace=\"'g'\">z</s>|")]

def data : List Val := [emptyMap]
def rc : RN.Cfg := rcfgOf {}
def tplOf (m : Mgr) (n : String) : Node := ((envOf m).tpl n).getD default
def hasTpl (m : Mgr) (n : String) : Bool := ((envOf m).tpl n).isSome
def kid (r : Node) (i : Nat) : Node := r.kids[i]?.getD default
def dirOf (n : Node) : CAttr := n.d.attrs.headD default
/-- the faithful renderer finished successfully with exactly these chunks -/
def rendersAs (m : Mgr) (name : String) (out : List String) : Bool :=
  hasTpl m name && decide ((RN.execute rc (envOf m) 200 (tplOf m name) data).st = .ok) &&
    (RN.execute rc (envOf m) 200 (tplOf m name) data).out == out
def kidValues (m : Mgr) (name : String) : List String := (tplOf m name).kids.map (·.d.value)

/-- `<pre :insert="part.html">old</pre>` with `part.html` = `⏎<b>x</b>⏎` renders `<pre>⏎<b>x</b>⏎</pre>`; the file itself
    renders `⏎<b>x</b>⏎`; its registered root has the three children `⏎`, `<b>`, `⏎`, the first and last blank text -/
def fileFacts (m : Mgr) : Bool :=
  rendersAs m "t" ["", "<pre>\n<b>x</b>\n", "</pre>"] &&
  String.join (RN.execute rc (envOf m) 200 (tplOf m "t") data).out == "<pre>\n<b>x</b>\n</pre>" &&
  rendersAs m "part.html" ["", "\n", "<b>", "x", "</b>", "\n"] &&
  kidValues m "part.html" == ["\n", "<b>", "\n"] &&
  RN.isBlankText (kid (tplOf m "part.html") 0) && RN.isBlankText (kid (tplOf m "part.html") 2)

/-- same id, value, attributes, annotations, number of children -/
def sameNode (a b : Node) : Bool :=
  a.d.id == b.d.id && a.d.value == b.d.value && a.d.attrs == b.d.attrs && a.d.prevTag == b.d.prevTag &&
    a.d.nextBlank == b.d.nextBlank && a.kids.length == b.kids.length

/-- a `:define` with ` <i>f</i> ` inserted renders `<i>f</i>`; the registered root has the single child `<i>`;
    `'g'` keeps the blank text between the comment and the element -/
def defineFacts (m : Mgr) : Bool :=
  rendersAs m "main" ["", "<u><i>f</i>", "</u>", "|", "<u>", "</u>", "|", "", "|", "\n<b>x</b>\n", "|", "<!--c--> <i>g</i>", "|"] &&
  kidValues m "'f'" == ["<i>"] &&
  kidValues m "'g'" == ["<!--c-->", " ", "<i>"] &&
  sameNode (kid (tplOf m "'f'") 0) (kid (kid (tplOf m "lib") 0) 1) &&
  (kid (tplOf m "'f'") 0).d.nextBlank == some " "

/-- a `:define` whose body is one blank text node loads without error, registers a root without children, and renders
    nothing — inserted (`<u></u>`) or replaced (empty chunk) -/
def blankDefineFacts (m : Mgr) : Bool :=
  hasTpl m "'e'" && kidValues m "'e'" == [] &&
  (kid (tplOf m "lib") 1).kids.length == 1 && RN.isBlankText (kid (kid (tplOf m "lib") 1) 0) &&
  rendersAs m "'e'" [""] && rendersAs m "lib" ["", "", "", ""]

/-- the hypotheses of `insert_loaded_renders_execute` on `<pre :insert="part.html">old</pre>` and of
    `replace_loaded_renders_execute` on `<s :replace="part.html">z</s>` -/
def hypFacts (m : Mgr) : Bool :=
  let nPre := kid (tplOf m "t") 0
  let nS := kid (tplOf m "main") 6
  let t := tplOf m "part.html"
  hasTpl m "part.html" &&
  decide ((refBody rc (envOf m) 100 0 emptyNc nPre data).st ≠ .fuel) &&
  decide ((RN.Spec.attrsRun rc (envOf m) (RN.Spec.fragOf rc (envOf m) 100 0 emptyNc) nPre.d emptyNc nPre.d.attrs
    (RN.Spec.startPS rc nPre.d data)).st = .ok) &&
  decide (nPre.d.attrs = [] ++ dirOf nPre :: []) && decide (classify rc (dirOf nPre) = .insert) &&
  hasKind rc nPre.d.attrs (fun k => k == .define || k == .replace) == false &&
  hasKind rc nPre.d.attrs (· == .remove) == false &&
  (RN.trimSlash (RN.lowerS nPre.d.tagName) == rc.tagPrefix ++ "block") == false &&
  decide (attrEvaluate m.cx (dirOf nPre) data = (.ok "part.html", [])) &&
  decide ((refFrag rc (envOf m) 100 0 emptyNc t data).st = .ok) &&
  decide ((RN.execute rc (envOf m) 100 t data).st ≠ .fuel) &&
  -- replace
  decide ((refBody rc (envOf m) 100 0 emptyNc nS data).st ≠ .fuel) &&
  decide ((RN.Spec.attrsRun rc (envOf m) (RN.Spec.fragOf rc (envOf m) 100 0 emptyNc) nS.d emptyNc nS.d.attrs
    (RN.Spec.startPS rc nS.d data)).st = .ok) &&
  decide (nS.d.attrs = [] ++ dirOf nS :: []) && decide (classify rc (dirOf nS) = .replace) &&
  decide (attrEvaluate m.cx (dirOf nS) data = (.ok "part.html", []))

def demo : Bool :=
  match loadFiles {} [] files with
  | .ok m => fileFacts m && defineFacts m && blankDefineFacts m && hypFacts m &&
      m.templates.map (·.1) == ["t", "part.html", "lib", "'f'", "'e'", "'g'", "main"]
  | _ => false

set_option maxRecDepth 100000 in
/-- the four files load (seven names) and all the facts above hold -/
theorem demo_true : demo = true := by decide +kernel

/-- the loaded manager -/
def mm : Mgr := match loadFiles {} [] files with | .ok m => m | _ => emptyMgr {} []

theorem load_ok : loadFiles {} [] files = .ok mm := by
  have h := demo_true
  unfold demo at h
  unfold mm
  cases hl : loadFiles {} [] files <;> simp only [hl] at h ⊢ <;> cases h

theorem facts : fileFacts mm = true ∧ defineFacts mm = true ∧ blankDefineFacts mm = true ∧ hypFacts mm = true := by
  have h := demo_true
  unfold demo at h
  rw [load_ok] at h
  simp only [Bool.and_eq_true] at h
  exact ⟨h.1.1.1.1, h.1.1.1.2, h.1.1.2, h.1.2⟩

/-- **file_demo**: `t = <pre :insert="part.html">old</pre>`, `part.html = "⏎<b>x</b>⏎"` render `<pre>⏎<b>x</b>⏎</pre>` -/
theorem file_demo_true : fileFacts mm = true := facts.1
/-- **define_demo**: a `:define` with ` <i>f</i> ` inserted renders `<i>f</i>` -/
theorem define_demo_true : defineFacts mm = true := facts.2.1
/-- **blank_define_demo**: a `:define` whose body is one blank text node renders nothing and loads without error -/
theorem blank_define_demo_true : blankDefineFacts mm = true := facts.2.2.1
/-- the registry lists files and definitions in one namespace, in load / document order -/
theorem registry_demo_true : mm.templates.map (·.1) = ["t", "part.html", "lib", "'f'", "'e'", "'g'", "main"] := by
  have h := demo_true
  unfold demo at h
  rw [load_ok] at h
  simp only [Bool.and_eq_true, beq_iff_eq] at h
  exact h.2

theorem tpl_some {m : Mgr} {n : String} (h : hasTpl m n = true) : (envOf m).tpl n = some (tplOf m n) := by
  unfold hasTpl at h
  unfold tplOf
  cases ht : (envOf m).tpl n with
  | none => rw [ht] at h; cases h
  | some r => rfl

/-- the hypotheses of `loaded_templates_are_roots`, `define_content_is_trimmed_children`, `define_is_registered`,
    `file_template_is_untrimmed_root`, `loaded_children_no_adjacent_text` are satisfiable: the manager of four files, the
    names `'f'` (a definition) and `part.html` (a file) -/
example : ∃ m tf tp, loadFiles {} [] files = .ok m ∧ (envOf m).tpl "'f'" = some tf ∧ (envOf m).tpl "part.html" = some tp ∧
    ("part.html", "\n<b>x</b>\n") ∈ files ∧ tf.d = rootD ∧ tp.endVal = none ∧
    (∃ root, (envOf m).tpl "lib" = some root ∧ IsFileTree {} files "lib" root) := by
  have hf : hasTpl mm "'f'" = true := by
    have := blank_define_demo_true
    have h2 := define_demo_true
    simp only [defineFacts, rendersAs, Bool.and_eq_true] at h2
    cases hh : hasTpl mm "'f'"
    · -- an unknown name has no children: contradicts `kidValues mm "'f'" = ["<i>"]`
      have : kidValues mm "'f'" = [] := by
        unfold hasTpl at hh
        unfold kidValues tplOf
        cases ht : (envOf mm).tpl "'f'" with
        | none => rfl
        | some r => rw [ht] at hh; cases hh
      rw [this] at h2
      simp at h2
    · rfl
  have hp : hasTpl mm "part.html" = true := by
    have := file_demo_true
    simp only [fileFacts, rendersAs, Bool.and_eq_true] at this
    exact this.1.1.1.2.1.1
  obtain ⟨root, hroot, hft, _⟩ := define_is_registered {} [] files mm load_ok "lib" libSrc (by simp [files])
  exact ⟨mm, _, _, load_ok, tpl_some hf, tpl_some hp, by simp [files],
    (loaded_templates_are_roots {} [] files mm load_ok _ _ (tpl_some hf)).1,
    (loaded_templates_are_roots {} [] files mm load_ok _ _ (tpl_some hp)).2, root, hroot, hft⟩

/-- the hypotheses of `insert_loaded_renders_execute` and `replace_loaded_renders_execute` are satisfiable:
    `<pre :insert="part.html">old</pre>` and `<s :replace="part.html">z</s>` in the loaded manager, call site at depth 0 -/
example : True := by
  have h := facts.2.2.2
  simp only [hypFacts, Bool.and_eq_true, decide_eq_true_eq, beq_iff_eq, and_assoc] at h
  obtain ⟨h0, h1, h2, h3, h4, h5, h6, h7, h8, h9, h10, k1, k2, k3, k4, k5⟩ := h
  have hT := tpl_some h0
  have := insert_loaded_renders_execute {} [] files mm load_ok 100 0 emptyNc (kid (tplOf mm "t") 0) data [] []
    (dirOf (kid (tplOf mm "t") 0)) "part.html" [] (tplOf mm "part.html") h1 h2 h3 h4
    (by intro x hx; cases hx) (by intro x hx; cases hx) h5 h6 h7 h8 hT h9 100 h10
  have := replace_loaded_renders_execute {} [] files mm load_ok 100 0 emptyNc (kid (tplOf mm "main") 6) data [] []
    (dirOf (kid (tplOf mm "main") 6)) "part.html" [] (tplOf mm "part.html") k1 k2 k3 k4
    (by intro x hx; cases hx) (by intro x hx; cases hx) k5 hT h9 100 h10
  trivial

end Demo

end C07C

