import TplModel.Props.C01exact
import TplModel.Proofs.DocRescan
/-! # C01 — rendering the output of a directive-free template again yields the same output

OBLIGATIONS: HS.rescan_parts, C01.render_idempotent, C01.second_load_ok, C01.render_idempotent_loaded

`HS.rescan_parts` (Proofs/DocRescan.lean): scanning the concatenation of the parts (token text verbatim, or the
re-printed tag) cuts it at the same token boundaries and reports the same tags.  This file adds the loader side: the
tree builder decides what to do with a token (leaf / open / close) from the tag name and the names and values of its
attributes only, and the renderer prints a node without directives from its kind, name, attributes and — for text,
comments, CDATA — its text; so the second tree has the same shape and prints the same parts (`emits_congr`).
`render_idempotent`: if the output of a `Plain` loaded template is loaded as a new template (under any name, into any
well-formed manager), that template is `Plain` again and rendering it yields exactly the same output.
`second_load_ok`: that second load succeeds for every fresh name, provided no tag of the source carries an attribute with
the directive prefix (`NoPrefixedAttrs`; `Plain` does not constrain the closing tags of open elements, whose attributes
are compiled and then ignored — for those one would have to show that the expression compiler `CS.scan` /
`compileParts` succeeds independently of source positions and table indices; not done).
`render_idempotent_loaded`: both together. -/
namespace C01
open EN
open RN (CAttr Part NodeD Node NK)

/-! ## what `compileTok` decides from the position-free token -/

/-- name and value of a compiled attribute -/
def ckv (c : CAttr) : String × Option String := (c.name, c.value)

/-- name and value of a compiled attribute, from the scanned attribute -/
def akv (cfg : Cfg) (a : HS.Attr) : String × Option String :=
  (String.ofList a.name, (attrValueOf cfg a).map String.ofList)

theorem compileAttrS_kv (cfg : Cfg) (a : HS.Attr) (tbl tbl' : Tbl) (c : CAttr)
    (h : compileAttrS cfg a tbl = (.ok c, tbl')) : ckv c = akv cfg a := by
  unfold compileAttrS at h
  simp only at h
  cases hv : attrValueOf cfg a with
  | none => simp only [hv] at h; cases h; simp [ckv, akv, hv]
  | some v =>
    simp only [hv] at h
    split at h
    · cases h; simp [ckv, akv, hv]
    · split at h
      · cases h
      · obtain ⟨x, _, hc⟩ := mapRes_ok h
        rw [hc]; simp [ckv, akv, hv]

theorem compileAttrsS_kv (cfg : Cfg) : ∀ (as : List HS.Attr) (tbl tbl' : Tbl) (cs : List CAttr),
    compileAttrsS cfg as tbl = (.ok cs, tbl') → cs.map ckv = as.map (akv cfg)
  | [], tbl, tbl', cs, h => by
    simp only [compileAttrsS, Prod.mk.injEq, LoadRes.ok.injEq] at h
    rw [← h.1]; rfl
  | a :: as, tbl, tbl', cs, h => by
    simp only [compileAttrsS] at h
    obtain ⟨c, t1, h1, h2⟩ := bindRes_ok h
    obtain ⟨cs0, h3, h4⟩ := mapRes_ok h2
    rw [h4]
    simp only [List.map_cons, compileAttrS_kv cfg a tbl t1 c h1, compileAttrsS_kv cfg as t1 tbl' cs0 h3]

/-- `compileTok` succeeded on `t` with the item `it` -/
def CT (cfg : Cfg) (t : HS.Token) (it : Item) : Prop := ∃ id tbl tbl', compileTok cfg id t tbl = (.ok it, tbl')

theorem compileToks_ct (cfg : Cfg) : ∀ (toks : List HS.Token) (id : Nat) (tbl tbl' : Tbl) (items : List Item),
    compileToks cfg id toks tbl = (.ok items, tbl') → Aligned (CT cfg) toks items
  | [], id, tbl, tbl', items, h => by
    simp only [compileToks, Prod.mk.injEq, LoadRes.ok.injEq] at h
    rw [← h.1]; exact .nil
  | t :: ts, id, tbl, tbl', items, h => by
    simp only [compileToks] at h
    obtain ⟨it, t1, h1, h2⟩ := bindRes_ok h
    obtain ⟨is0, h3, h4⟩ := mapRes_ok h2
    rw [h4]
    exact .cons ⟨id, tbl, t1, h1⟩ (compileToks_ct cfg ts (id + 1) t1 tbl' is0 h3)

/-- the two shapes of a compiled token -/
theorem ct_cases {cfg : Cfg} {t : HS.Token} {it : Item} (h : CT cfg t it) :
    (t.kind = .tag ∧ ∃ tg cs id, t.tag = some tg ∧ Aligned (AttrRel cfg) tg.attrs cs ∧ cs.map ckv = tg.attrs.map (akv cfg) ∧
      it = tagItem cfg id (String.ofList t.value) (String.ofList tg.name) cs) ∨
    (t.kind ≠ .tag ∧ ∃ id, it = ⟨{ id := id, kind := nkOf t.kind, value := String.ofList t.value, tagName := "", attrs := [] }, .leaf⟩) := by
  obtain ⟨id, tbl, tbl', h⟩ := h
  unfold compileTok at h
  split at h
  · rename_i tg hk htag
    obtain ⟨cs, h1, h2⟩ := mapRes_ok h
    exact Or.inl ⟨hk, tg, cs, id, htag, compileAttrsS_rel cfg _ _ _ _ h1, compileAttrsS_kv cfg _ _ _ _ h1, h2⟩
  · cases h
  · rename_i hno1 hno2
    cases h
    refine Or.inr ⟨fun hk => ?_, id, rfl⟩
    cases htag : t.tag with
    | none => exact absurd htag (hno2 hk)
    | some tg => exact absurd htag (hno1 tg hk)

/-- `IsSelfClose` looks at the name and value of the last attribute only -/
def selfCloseOf (name : String) : Option (String × Option String) → Bool
  | none => name.endsWith "/"
  | some (n, none) => n.endsWith "/"
  | some (_, some v) => v.endsWith "/"

theorem isSelfClose_kv (name : String) (cs : List CAttr) : isSelfClose name cs = selfCloseOf name (cs.map ckv).getLast? := by
  rw [List.getLast?_map]
  unfold isSelfClose
  cases cs.getLast? with
  | none => rfl
  | some c => cases hv : c.value <;> simp [selfCloseOf, ckv, hv]

theorem tagItem_act_congr (cfg : Cfg) (id1 id2 : Nat) (v1 v2 name : String) (cs1 cs2 : List CAttr)
    (h : cs2.map ckv = cs1.map ckv) : (tagItem cfg id2 v2 name cs2).act = (tagItem cfg id1 v1 name cs1).act := by
  simp only [tagItem, isSelfClose_kv, h]

/-- `akv` does not look at positions -/
def akv' (cfg : Cfg) (x : HS.RT.AAttr) : String × Option String :=
  (String.ofList x.name,
    (if x.value.isNone && String.ofList x.name == cfg.attrPrefix ++ "else" then some "\"true\"".toList else x.value).map
      String.ofList)

theorem akv_forget (cfg : Cfg) (as : List HS.Attr) : as.map (akv cfg) = (as.map HS.RT.forgetAttr).map (akv' cfg) := by
  rw [List.map_map]; rfl

/-- without directive attributes the compiled attributes are determined by the names and values -/
theorem plain_attrs_congr {cfg : Cfg} : ∀ {as1 : List HS.Attr} {cs1 : List CAttr}, Aligned (AttrRel cfg) as1 cs1 →
    ∀ {as2 : List HS.Attr} {cs2 : List CAttr}, Aligned (AttrRel cfg) as2 cs2 →
    as2.map HS.RT.forgetAttr = as1.map HS.RT.forgetAttr →
    (∀ c ∈ cs1, c.name.startsWith cfg.attrPrefix = false) → cs2 = cs1 := by
  intro as1 cs1 h1
  induction h1 with
  | nil =>
    intro as2 cs2 h2 hf _
    cases h2 with
    | nil => rfl
    | cons _ _ => simp at hf
  | @cons a1 c1 as1' cs1' hr1 _ ih =>
    intro as2 cs2 h2 hf hp
    cases h2 with
    | nil => simp at hf
    | @cons a2 c2 as2' cs2' hr2 h2' =>
      simp only [List.map_cons, List.cons.injEq] at hf
      obtain ⟨hfa, hfr⟩ := hf
      have hn : a2.name = a1.name := congrArg HS.RT.AAttr.name hfa
      have hv : a2.value = a1.value := congrArg HS.RT.AAttr.value hfa
      have hc1 := hp c1 (by simp)
      rw [hr1.1] at hc1
      have e1 := hr1.2 hc1
      have e2 := hr2.2 (by rw [hn]; exact hc1)
      rw [e1, e2, hn, hv, ih h2' hfr (fun c hc => hp c (by simp [hc]))]

/-- what the tree builder and the printer need to know about the item of a token, and is the same for two tokens that
    differ in positions and text only -/
structure IR (cfg : Cfg) (it1 it2 : Item) : Prop where
  act : it2.act = it1.act
  kind : it2.d.kind = it1.d.kind
  noroot : it1.d.kind ≠ .root
  name : it2.d.tagName = it1.d.tagName
  attrs : plainD (rcfgOf cfg) it1.d = true → it2.d.attrs = it1.d.attrs

theorem item_congr {cfg : Cfg} {t1 t2 : HS.Token} {it1 it2 : Item} (h1 : CT cfg t1 it1) (h2 : CT cfg t2 it2)
    (hk : t2.kind = t1.kind) (ht : t2.tag.map HS.RT.forgetTag = t1.tag.map HS.RT.forgetTag) :
    IR cfg it1 it2 ∧ it2.d.value = String.ofList t2.value := by
  rcases ct_cases h1 with ⟨hk1, tg1, cs1, id1, htg1, hal1, hkv1, rfl⟩ | ⟨hk1, id1, rfl⟩
  · rcases ct_cases h2 with ⟨hk2, tg2, cs2, id2, htg2, hal2, hkv2, rfl⟩ | ⟨hk2, _, _⟩
    · rw [htg1, htg2] at ht
      simp only [Option.map_some, Option.some.injEq, HS.RT.forgetTag, Prod.mk.injEq] at ht
      obtain ⟨hn, ha⟩ := ht
      have hkv : cs2.map ckv = cs1.map ckv := by rw [hkv1, hkv2, akv_forget, akv_forget, ha]
      rw [hn]
      refine ⟨⟨tagItem_act_congr cfg _ _ _ _ _ _ _ hkv, rfl, by simp [tagItem], rfl, ?_⟩, rfl⟩
      intro hp
      simp only [tagItem, plainD, Bool.and_eq_true] at hp ⊢
      have hpa := hp.1
      simp only [RN.Spec.plainAttrs, List.all_eq_true, Bool.not_eq_true', rcfgOf] at hpa
      have hcs : ∀ c ∈ cs1, c.name.startsWith cfg.attrPrefix = false :=
        fun c hc => hpa c ((sortedAttrs_perm cfg cs1).mem_iff.mpr hc)
      rw [plain_attrs_congr hal1 hal2 ha hcs]
    · exact absurd (hk.trans hk1) hk2
  · rcases ct_cases h2 with ⟨hk2, _⟩ | ⟨hk2, id2, rfl⟩
    · exact absurd (hk.symm.trans hk2) hk1
    · refine ⟨⟨rfl, by simp [hk], ?_, rfl, fun _ => rfl⟩, rfl⟩
      cases t1.kind <;> simp [nkOf] at hk1 ⊢

/-- same print and same plainness -/
theorem ir_print {cfg : Cfg} {it1 it2 : Item} (h : IR cfg it1 it2) (hp : plainD (rcfgOf cfg) it1.d = true)
    (hv : it1.d.kind ≠ .tag → it2.d.value = it1.d.value) :
    headPrint it2.d = headPrint it1.d ∧ plainD (rcfgOf cfg) it2.d = true := by
  have ha := h.attrs hp
  have hn := h.name
  have hr := h.noroot
  cases hkk : it1.d.kind with
  | root => exact absurd hkk hr
  | tag =>
    have hk2 : it2.d.kind = .tag := h.kind.trans hkk
    refine ⟨by simp only [headPrint, hk2, hkk, ha, hn], ?_⟩
    simp only [plainD, hkk] at hp
    simp only [plainD, hk2, ha, hn]
    exact hp
  | text =>
    have hk2 : it2.d.kind = .text := h.kind.trans hkk
    have hv' := hv (by rw [hkk]; simp)
    exact ⟨by simp only [headPrint, hk2, hkk, hv'], by simp only [plainD, hk2]⟩
  | cdata =>
    have hk2 : it2.d.kind = .cdata := h.kind.trans hkk
    have hv' := hv (by rw [hkk]; simp)
    exact ⟨by simp only [headPrint, hk2, hkk, hv'], by simp only [plainD, hk2]⟩
  | comment =>
    have hk2 : it2.d.kind = .comment := h.kind.trans hkk
    have hv' := hv (by rw [hkk]; simp)
    refine ⟨by simp only [headPrint, hk2, hkk, hv'], ?_⟩
    simp only [plainD, hkk] at hp
    simp only [plainD, hk2, hv']
    exact hp

/-! ## the second tree has the same shape and prints the same parts -/

theorem emitOf_cases (bs : BS) (it : Item) :
    (it.act = .close ∧ bs.stack ≠ [] ∧ emitOf bs it = .inr it.d.value) ∨
    (¬ (it.act = .close ∧ bs.stack ≠ []) ∧ emitOf bs it = .inl it.d) := by
  unfold emitOf
  cases ha : it.act <;> cases hs : bs.stack <;> simp

theorem stepItem_len (bs1 bs2 : BS) (it1 it2 : Item) (hl : bs1.stack.length = bs2.stack.length) (ha : it2.act = it1.act) :
    (stepItem bs1 it1).stack.length = (stepItem bs2 it2).stack.length := by
  unfold stepItem
  rw [ha]
  cases it1.act <;> cases h1 : bs1.stack <;> cases h2 : bs2.stack <;> simp_all

theorem headPrint_nontag (d : NodeD) (h1 : d.kind ≠ .tag) (h2 : d.kind ≠ .root) : headPrint d = d.value := by
  unfold headPrint
  cases hk : d.kind <;> simp_all

/-- two item lists that agree in what the tree builder and the printer look at (`IR`), the second carrying as token
    texts what the first prints: the second prints the same, and is `Plain` if the first is -/
theorem emits_congr (cfg : Cfg) : ∀ {items1 items2 : List Item}, Aligned (IR cfg) items1 items2 →
    ∀ (bs1 bs2 : BS), bs1.stack.length = bs2.stack.length →
    items2.map (·.d.value) = (emits bs1 items1).map entryPrint →
    (∀ d, Sum.inl d ∈ emits bs1 items1 → plainD (rcfgOf cfg) d = true) →
    (emits bs2 items2).map entryPrint = (emits bs1 items1).map entryPrint ∧
    (∀ d, Sum.inl d ∈ emits bs2 items2 → plainD (rcfgOf cfg) d = true) := by
  intro items1 items2 hal
  induction hal with
  | nil => intro bs1 bs2 _ _ _; exact ⟨rfl, by intro d hd; simp [emits] at hd⟩
  | @cons it1 it2 rest1 rest2 hir _ ih =>
    intro bs1 bs2 hl hv hp
    simp only [emits, List.map_cons, List.cons.injEq] at hv
    obtain ⟨hv1, hv2⟩ := hv
    obtain ⟨ih1, ih2⟩ := ih (stepItem bs1 it1) (stepItem bs2 it2) (stepItem_len bs1 bs2 it1 it2 hl hir.act) hv2
      (fun d hd => hp d (by simp [emits, hd]))
    have hne : bs1.stack ≠ [] ↔ bs2.stack ≠ [] := by
      rw [← List.length_pos_iff, ← List.length_pos_iff, hl]
    simp only [emits, List.map_cons, ih1, List.cons.injEq, and_true, List.mem_cons]
    rcases emitOf_cases bs1 it1 with ⟨ha1, hs1, he1⟩ | ⟨hn1, he1⟩
    · rcases emitOf_cases bs2 it2 with ⟨_, _, he2⟩ | ⟨hn2, _⟩
      · rw [he1] at hv1
        refine ⟨by rw [he1, he2]; exact hv1, ?_⟩
        intro d hd
        rcases hd with hd | hd
        · rw [he2] at hd; cases hd
        · exact ih2 d hd
      · exact absurd ⟨hir.act.trans ha1, hne.mp hs1⟩ hn2
    · rcases emitOf_cases bs2 it2 with ⟨ha2, hs2, _⟩ | ⟨_, he2⟩
      · exact absurd ⟨hir.act.symm.trans ha2, hne.mpr hs2⟩ hn1
      · have hp1 : plainD (rcfgOf cfg) it1.d = true := hp it1.d (by simp [emits, he1])
        rw [he1] at hv1
        simp only [entryPrint] at hv1
        obtain ⟨hh, hpl⟩ := ir_print hir hp1 (fun hk => by rw [hv1, headPrint_nontag _ hk hir.noroot])
        refine ⟨by rw [he1, he2]; simp only [entryPrint]; exact hh, ?_⟩
        intro d hd
        rcases hd with hd | hd
        · rw [he2] at hd; cases hd; exact hpl
        · exact ih2 d hd

/-! ## loading and rendering, with the compiled token list exposed -/

theorem join_toList (l : List String) : (String.join l).toList = (l.map String.toList).flatten := by
  induction l with
  | nil => rfl
  | cons a l ih => simp [String.join_cons, String.toList_append, ih]

/-- a loaded file resolves to the annotated tree of its compiled tokens -/
theorem load_items (cfg : Cfg) (fns : List (String × EV.FnSpec)) (idx : Nat) (name src : String) (m0 m : Mgr)
    (h : addFile cfg fns idx name src m0 = .ok m) (r : Node) (hr : (envOf m).tpl name = some r) :
    ∃ toks items tbl', HS.scan (scanCfg cfg) src.toList = .ok toks ∧
      compileToks cfg (firstId idx) toks m0.cx.exprs = (.ok items, tbl') ∧ r = annotate (assemble items) := by
  obtain ⟨toks, root0, tbl', hscan, hb, hadd, _, hnew⟩ := addFile_ok h
  obtain ⟨extra, hextra⟩ := addDefined_prefix cfg _ _ _ _ hadd
  have hr' : r = annotate root0 := by
    have := find_registered (root := annotate root0) (extra := extra) hnew
    simp only [envOf, hextra] at hr
    rw [this] at hr
    exact (Option.some.inj hr).symm
  obtain ⟨items, h1, h2⟩ := mapRes_ok hb
  exact ⟨toks, items, tbl', hscan, h1, by rw [hr', h2]⟩

theorem plain_items_iff (cfg : Cfg) (items : List Item) :
    RN.Spec.Plain (rcfgOf cfg) (annotate (assemble items)) ↔
      ∀ d, Sum.inl d ∈ emits ⟨[], []⟩ items → plainD (rcfgOf cfg) d = true := by
  rw [annotate_plain]
  unfold RN.Spec.Plain
  rw [plain_flat, assemble_flat]
  constructor
  · intro h d hd; exact h d (List.mem_cons_of_mem _ hd)
  · intro h d hd
    simp only [List.mem_cons, Sum.inl.injEq] at hd
    rcases hd with rfl | hd
    · rfl
    · exact h d hd

/-- `EN.render_identity` with the parts spelled out: the output of a `Plain` loaded template is what the flattening of
    its compiled tokens prints -/
theorem render_items (cfg : Cfg) (fns : List (String × EV.FnSpec)) (idx : Nat) (name src : String) (m0 m : Mgr)
    (hinv : TplInv cfg m0.templates) (h : addFile cfg fns idx name src m0 = .ok m)
    (items : List Item) (hr : (envOf m).tpl name = some (annotate (assemble items)))
    (hp : RN.Spec.Plain (rcfgOf cfg) (annotate (assemble items)))
    (fuel : Nat) (sc : List EV.Val)
    (hf : (RN.execute (rcfgOf cfg) (envOf m) fuel (annotate (assemble items)) sc).st ≠ .fuel) :
    (RN.execute (rcfgOf cfg) (envOf m) fuel (annotate (assemble items)) sc).st = .ok ∧
    (RN.execute (rcfgOf cfg) (envOf m) fuel (annotate (assemble items)) sc).log = [] ∧
    String.join (RN.execute (rcfgOf cfg) (envOf m) fuel (annotate (assemble items)) sc).out =
      String.join ((emits ⟨[], []⟩ items).map entryPrint) := by
  have hinv' := addFile_tplOK cfg fns idx name src m0 m hinv h
  have htpl := tplOK_of_inv cfg m hinv'
  obtain ⟨hu, hs⟩ := htpl name _ hr
  obtain ⟨g, hg⟩ := RN.execute_refines _ _ htpl fuel _ sc hu hs hf
  have hgf : (RN.refExecute (rcfgOf cfg) (envOf m) g (annotate (assemble items)) sc).st ≠ .fuel := by rw [hg]; exact hf
  obtain ⟨p1, p2, p3⟩ := RN.Props.render_plain (rcfgOf cfg) (envOf m) g (annotate (assemble items)) sc hp hgf
  rw [hg] at p1 p2 p3
  simp only [RN.R.toQ] at p1 p2 p3
  refine ⟨p1, p3, p2.trans ?_⟩
  rw [annotate_print, printNode_root _ rfl rfl, assemble_kids_flat]

/-- the items of two token lists that differ in positions and texts only -/
theorem items_congr (cfg : Cfg) : ∀ {toks1 : List HS.Token} {items1 : List Item}, Aligned (CT cfg) toks1 items1 →
    ∀ {toks2 : List HS.Token} {items2 : List Item}, Aligned (CT cfg) toks2 items2 →
    ∀ (ps : List (List Char)), toks1.length = ps.length →
    toks2.map HS.RT.forget =
      List.zipWith (fun t p => (⟨t.kind, p, t.tag.map HS.RT.forgetTag⟩ : HS.RT.ATok)) toks1 ps →
    Aligned (IR cfg) items1 items2 ∧ items2.map (·.d.value) = ps.map String.ofList := by
  intro toks1 items1 h1
  induction h1 with
  | nil =>
    intro toks2 items2 h2 ps hl hf
    cases ps with
    | nil =>
      cases h2 with
      | nil => exact ⟨.nil, rfl⟩
      | cons _ _ => simp at hf
    | cons _ _ => simp at hl
  | @cons t1 it1 ts1 is1 hc1 _ ih =>
    intro toks2 items2 h2 ps hl hf
    cases ps with
    | nil => simp at hl
    | cons p ps =>
      cases h2 with
      | nil => simp at hf
      | @cons t2 it2 ts2 is2 hc2 h2' =>
        simp only [List.map_cons, List.zipWith_cons_cons, List.cons.injEq] at hf
        obtain ⟨hft, hfr⟩ := hf
        have hk : t2.kind = t1.kind := congrArg HS.RT.ATok.kind hft
        have hv : t2.value = p := congrArg HS.RT.ATok.value hft
        have htg : t2.tag.map HS.RT.forgetTag = t1.tag.map HS.RT.forgetTag := congrArg HS.RT.ATok.tag hft
        obtain ⟨hir, hval⟩ := item_congr hc1 hc2 hk htg
        obtain ⟨ih1, ih2⟩ := ih h2' ps (by simpa using hl) hfr
        exact ⟨.cons hir ih1, by simp only [List.map_cons, hval, hv, ih2]⟩

theorem partsOK_of_aligned : ∀ {toks : List HS.Token} {parts : List String}, Aligned PartRel toks parts →
    HS.PartsOK toks (parts.map String.toList)
  | _, _, .nil => trivial
  | _, _, @Aligned.cons _ _ _ t p ts ps hr hrest => by
    refine ⟨?_, partsOK_of_aligned hrest⟩
    rcases hr with rfl | ⟨hk, rfl⟩
    · exact Or.inl (by simp)
    · cases htg : t.tag with
      | none => exact Or.inl (by simp [tokOut_toList, htg])
      | some tg => exact Or.inr ⟨hk, tg, htg, by simp [tokOut_toList, htg]⟩

/-- the core: the tokens of the output, compiled in any way, give a `Plain` tree that prints the same parts -/
theorem second_core (cfg : Cfg) (src : List Char) (toks1 : List HS.Token) (hs1 : HS.scan (scanCfg cfg) src = .ok toks1)
    (id1 : Nat) (tbl1 tbl1' : Tbl) (items1 : List Item)
    (hc1 : compileToks cfg id1 toks1 tbl1 = (.ok items1, tbl1'))
    (hp : RN.Spec.Plain (rcfgOf cfg) (annotate (assemble items1))) :
    ∃ toks2, HS.scan (scanCfg cfg) (String.join ((emits ⟨[], []⟩ items1).map entryPrint)).toList = .ok toks2 ∧
      toks2.map HS.RT.forget =
        List.zipWith (fun t p => (⟨t.kind, p, t.tag.map HS.RT.forgetTag⟩ : HS.RT.ATok)) toks1
          (((emits ⟨[], []⟩ items1).map entryPrint).map String.toList) ∧
      ∀ (id2 : Nat) (tbl2 tbl2' : Tbl) (items2 : List Item),
        compileToks cfg id2 toks2 tbl2 = (.ok items2, tbl2') →
        RN.Spec.Plain (rcfgOf cfg) (annotate (assemble items2)) ∧
        (emits ⟨[], []⟩ items2).map entryPrint = (emits ⟨[], []⟩ items1).map entryPrint := by
  have hpl1 := (plain_items_iff cfg items1).mp hp
  have hct1 := compileToks_ct cfg _ _ _ _ _ hc1
  have hal1 : Aligned PartRel toks1 ((emits ⟨[], []⟩ items1).map entryPrint) := by
    have := assemble_parts (compileToks_rel cfg _ _ _ _ _ hc1).1 ((annotate_plain _ _).mp hp)
    rwa [assemble_kids_flat] at this
  generalize hparts : (emits ⟨[], []⟩ items1).map entryPrint = parts1 at hal1
  obtain ⟨toks2, hs2, hfg⟩ := HS.rescan_parts (scanCfg cfg) src toks1 hs1 (parts1.map String.toList)
    (partsOK_of_aligned hal1)
  refine ⟨toks2, by rw [join_toList]; exact hs2, hfg, ?_⟩
  intro id2 tbl2 tbl2' items2 hc2
  have hct2 := compileToks_ct cfg _ _ _ _ _ hc2
  obtain ⟨hir, hvals⟩ := items_congr cfg hct1 hct2 (parts1.map String.toList)
    (by rw [List.length_map]; exact hal1.length_eq) hfg
  have hvals' : items2.map (·.d.value) = (emits ⟨[], []⟩ items1).map entryPrint := by
    rw [hvals, hparts, List.map_map]; simp [Function.comp_def]
  obtain ⟨hsame, hpl2⟩ := emits_congr cfg hir ⟨[], []⟩ ⟨[], []⟩ rfl hvals' hpl1
  exact ⟨(plain_items_iff cfg items2).mpr hpl2, by rw [hsame, hparts]⟩

/-- **render_idempotent (C01).**  Let `out` be the output of a `Plain` template loaded from `src`.  Whenever `out` is
    loaded as a template itself — under any name `name2`, file index, function table, into any manager `m0'` with
    well-formed templates — the template it resolves to is `Plain` again, and every execution of it that does not run
    out of fuel succeeds, evaluates nothing and prints exactly `out`: rendering the output again yields the same
    output.  (The second scan cuts `out` at the same token boundaries — `HS.rescan_parts` —, the tree builder makes the
    same decisions — `item_congr` —, and every node prints the same text — `emits_congr`.)
    That the second load succeeds is `second_load_ok` below. -/
theorem render_idempotent (cfg : Cfg) (fns : List (String × EV.FnSpec)) (idx : Nat) (name src : String) (m0 m : Mgr)
    (hinv : TplInv cfg m0.templates) (h : addFile cfg fns idx name src m0 = .ok m)
    (r : RN.Node) (hr : (envOf m).tpl name = some r) (hp : RN.Spec.Plain (rcfgOf cfg) r)
    (fuel : Nat) (sc : List EV.Val) (hf : (RN.execute (rcfgOf cfg) (envOf m) fuel r sc).st ≠ .fuel)
    (fns2 : List (String × EV.FnSpec)) (idx2 : Nat) (name2 : String) (m0' m2 : Mgr)
    (hinv2 : TplInv cfg m0'.templates)
    (h2 : addFile cfg fns2 idx2 name2 (String.join (RN.execute (rcfgOf cfg) (envOf m) fuel r sc).out) m0' = .ok m2)
    (r2 : RN.Node) (hr2 : (envOf m2).tpl name2 = some r2) :
    RN.Spec.Plain (rcfgOf cfg) r2 ∧
    ∀ (fuel2 : Nat) (sc2 : List EV.Val), (RN.execute (rcfgOf cfg) (envOf m2) fuel2 r2 sc2).st ≠ .fuel →
      (RN.execute (rcfgOf cfg) (envOf m2) fuel2 r2 sc2).st = .ok ∧
      (RN.execute (rcfgOf cfg) (envOf m2) fuel2 r2 sc2).log = [] ∧
      String.join (RN.execute (rcfgOf cfg) (envOf m2) fuel2 r2 sc2).out =
        String.join (RN.execute (rcfgOf cfg) (envOf m) fuel r sc).out := by
  obtain ⟨toks1, items1, tbl1, hs1, hc1, rfl⟩ := load_items cfg fns idx name src m0 m h r hr
  obtain ⟨_, _, ho1⟩ := render_items cfg fns idx name src m0 m hinv h items1 hr hp fuel sc hf
  obtain ⟨toks2', hs2', _, hcore⟩ := second_core cfg src.toList toks1 hs1 _ _ _ items1 hc1 hp
  obtain ⟨toks2, items2, tbl2, hs2, hc2, rfl⟩ := load_items cfg fns2 idx2 name2 _ m0' m2 h2 r2 hr2
  rw [ho1, hs2'] at hs2
  cases hs2
  obtain ⟨hp2, hsame⟩ := hcore _ _ _ _ hc2
  refine ⟨hp2, fun fuel2 sc2 hf2 => ?_⟩
  obtain ⟨q1, q2, q3⟩ := render_items cfg fns2 idx2 name2 _ m0' m2 hinv2 h2 items2 hr2 hp2 fuel2 sc2 hf2
  exact ⟨q1, q2, by rw [q3, hsame, ho1]⟩

/-! ## the second load succeeds -/

/-- no tag token carries an attribute whose name starts with the directive prefix.  (`Plain` says this for every tag
    that becomes a NODE of the tree; the closing tag of an open element is not a node, so `Plain` does not constrain
    its attributes — `</p :if="…">` is scanned, compiled and ignored.) -/
def NoPrefixedAttrs (cfg : Cfg) (toks : List HS.Token) : Prop :=
  ∀ t ∈ toks, ∀ tg, t.tag = some tg → ∀ a ∈ tg.attrs, (String.ofList a.name).startsWith cfg.attrPrefix = false

/-- the compiled form of an attribute that is not a directive -/
def plainC (a : HS.Attr) : CAttr := ⟨String.ofList a.name, a.value.map String.ofList, []⟩

theorem compileAttrsS_plain_ok (cfg : Cfg) : ∀ (as : List HS.Attr) (tbl : Tbl),
    (∀ a ∈ as, (String.ofList a.name).startsWith cfg.attrPrefix = false) →
    compileAttrsS cfg as tbl = (.ok (as.map plainC), tbl)
  | [], tbl, _ => rfl
  | a :: as, tbl, h => by
    have ha := h a (by simp)
    have h1 : compileAttrS cfg a tbl = (.ok (plainC a), tbl) := by
      unfold compileAttrS
      simp only [attrValueOf_plain cfg a ha, ha]
      cases hv : a.value <;> simp [plainC, hv]
    simp only [compileAttrsS, h1, bindRes, compileAttrsS_plain_ok cfg as tbl (fun b hb => h b (by simp [hb])), mapRes,
      LoadRes.map, List.map_cons]

theorem compileToks_plain_ok (cfg : Cfg) : ∀ (toks : List HS.Token) (id : Nat) (tbl : Tbl),
    (∀ t ∈ toks, t.kind = .tag → ∃ tg, t.tag = some tg ∧
      ∀ a ∈ tg.attrs, (String.ofList a.name).startsWith cfg.attrPrefix = false) →
    ∃ items, compileToks cfg id toks tbl = (.ok items, tbl)
  | [], id, tbl, _ => ⟨[], rfl⟩
  | t :: ts, id, tbl, h => by
    obtain ⟨items, hi⟩ := compileToks_plain_ok cfg ts (id + 1) tbl (fun t' ht' => h t' (by simp [ht']))
    have h1 : ∃ it, compileTok cfg id t tbl = (.ok it, tbl) := by
      unfold compileTok
      by_cases hk : t.kind = .tag
      · obtain ⟨tg, htg, hat⟩ := h t (by simp) hk
        simp only [hk, htg, compileAttrsS_plain_ok cfg tg.attrs tbl hat, mapRes, LoadRes.map]
        exact ⟨_, rfl⟩
      · cases hkk : t.kind <;> simp [hkk] at hk ⊢
    obtain ⟨it, hit⟩ := h1
    exact ⟨it :: items, by simp only [compileToks, hit, bindRes, hi, mapRes, LoadRes.map]⟩

theorem defineHere_plain (cfg : Cfg) (cx : Ctx) (d : NodeD) (kids : List Node) (tpls : List (String × Node))
    (hp : plainD (rcfgOf cfg) d = true) : defineHere cfg cx d kids tpls = .ok tpls := by
  unfold defineHere
  by_cases hk : d.kind = .tag
  · simp only [hk, beq_self_eq_true, if_true]
    have hnone : d.attrs.find? (fun a => a.name == cfg.attrPrefix ++ "define") = none := by
      rw [List.find?_eq_none]
      intro a ha hn
      simp only [beq_iff_eq] at hn
      simp only [plainD, hk, Bool.and_eq_true, RN.Spec.plainAttrs, List.all_eq_true, Bool.not_eq_true', rcfgOf] at hp
      have := hp.1 a ha
      rw [hn] at this
      have h1 := RN.Spec.startsWith_prefix_append cfg.attrPrefix "define"
      exact Bool.noConfusion (h1.symm.trans this)
    rw [hnone]
  · have : (d.kind == NK.tag) = false := by simpa using hk
    simp [this]

theorem addDefined_plain (cfg : Cfg) (cx : Ctx) : ∀ (n : Node) (tpls : List (String × Node)),
    RN.Spec.Plain (rcfgOf cfg) n → addDefined cfg cx n tpls = .ok tpls := by
  refine RN.Spec.Node.induct (PL := fun ks => ∀ (tpls : List (String × Node)),
    RN.Spec.plainL (rcfgOf cfg) ks = true → addDefinedL cfg cx ks tpls = .ok tpls) ?_ ?_ ?_
  · intro d kids e ih tpls hp
    unfold RN.Spec.Plain at hp
    rw [RN.Spec.plainB, Bool.and_eq_true] at hp
    rw [addDefined, defineHere_plain cfg cx d kids tpls (by unfold plainD; exact hp.1)]
    exact ih tpls hp.2
  · intro tpls _; rfl
  · intro k ks ih1 ih2 tpls hp
    rw [RN.Spec.plainL, Bool.and_eq_true] at hp
    rw [addDefinedL, ih1 tpls hp.1]
    exact ih2 tpls hp.2

/-- **the second load succeeds.**  If moreover no tag of the source carries an attribute with the directive prefix
    (see `NoPrefixedAttrs`; `Plain` alone leaves the closing tags of open elements unconstrained, and for those the
    expression compiler is run again on the second load), then the output can be loaded under every name that is not
    yet registered. -/
theorem second_load_ok (cfg : Cfg) (fns : List (String × EV.FnSpec)) (idx : Nat) (name src : String) (m0 m : Mgr)
    (hinv : TplInv cfg m0.templates) (h : addFile cfg fns idx name src m0 = .ok m)
    (r : RN.Node) (hr : (envOf m).tpl name = some r) (hp : RN.Spec.Plain (rcfgOf cfg) r)
    (fuel : Nat) (sc : List EV.Val) (hf : (RN.execute (rcfgOf cfg) (envOf m) fuel r sc).st ≠ .fuel)
    (hno : ∀ toks, HS.scan (scanCfg cfg) src.toList = .ok toks → NoPrefixedAttrs cfg toks)
    (fns2 : List (String × EV.FnSpec)) (idx2 : Nat) (name2 : String) (m0' : Mgr)
    (hfresh : m0'.templates.any (·.1 == name2) = false) :
    ∃ m2, addFile cfg fns2 idx2 name2 (String.join (RN.execute (rcfgOf cfg) (envOf m) fuel r sc).out) m0' = .ok m2 := by
  obtain ⟨toks1, items1, tbl1, hs1, hc1, rfl⟩ := load_items cfg fns idx name src m0 m h r hr
  obtain ⟨_, _, ho1⟩ := render_items cfg fns idx name src m0 m hinv h items1 hr hp fuel sc hf
  obtain ⟨toks2, hs2, hfg, hcore⟩ := second_core cfg src.toList toks1 hs1 _ _ _ items1 hc1 hp
  have hno1 := hno toks1 hs1
  have hct1 := compileToks_ct cfg _ _ _ _ _ hc1
  -- the tokens of the output carry the same attributes
  have hno2 : ∀ t ∈ toks2, t.kind = .tag → ∃ tg, t.tag = some tg ∧
      ∀ a ∈ tg.attrs, (String.ofList a.name).startsWith cfg.attrPrefix = false := by
    have key : ∀ (ts1 : List HS.Token) (is1 : List Item), Aligned (CT cfg) ts1 is1 → NoPrefixedAttrs cfg ts1 →
        ∀ (ts2 : List HS.Token) (ps : List (List Char)),
        ts2.map HS.RT.forget =
          List.zipWith (fun t p => (⟨t.kind, p, t.tag.map HS.RT.forgetTag⟩ : HS.RT.ATok)) ts1 ps →
        ∀ t ∈ ts2, t.kind = .tag → ∃ tg, t.tag = some tg ∧
          ∀ a ∈ tg.attrs, (String.ofList a.name).startsWith cfg.attrPrefix = false := by
      intro ts1 is1 hal
      induction hal with
      | nil => intro _ ts2 ps hf t ht; cases ts2 <;> simp_all
      | @cons t1 it1 ts1' is1' hc _ ih =>
        intro hn ts2 ps hf t ht hk
        cases ts2 with
        | nil => cases ht
        | cons t2 ts2' =>
          cases ps with
          | nil => simp at hf
          | cons p ps' =>
            simp only [List.map_cons, List.zipWith_cons_cons, List.cons.injEq] at hf
            obtain ⟨hft, hfr⟩ := hf
            simp only [List.mem_cons] at ht
            rcases ht with rfl | ht
            · have hk1 : t1.kind = .tag := by rw [← hk]; exact (congrArg HS.RT.ATok.kind hft).symm
              have htg : t.tag.map HS.RT.forgetTag = t1.tag.map HS.RT.forgetTag := congrArg HS.RT.ATok.tag hft
              rcases ct_cases hc with ⟨_, tg1, _, _, htg1, _⟩ | ⟨hne, _⟩
              · rw [htg1] at htg
                cases htt : t.tag with
                | none => rw [htt] at htg; cases htg
                | some tg =>
                  rw [htt] at htg
                  simp only [Option.map_some, Option.some.injEq, HS.RT.forgetTag, Prod.mk.injEq] at htg
                  refine ⟨tg, rfl, fun a ha => ?_⟩
                  have : HS.RT.forgetAttr a ∈ tg1.attrs.map HS.RT.forgetAttr := by
                    rw [← htg.2]; exact List.mem_map_of_mem ha
                  obtain ⟨a1, ha1, he⟩ := List.mem_map.mp this
                  have hn1 : a.name = a1.name := (congrArg HS.RT.AAttr.name he).symm
                  rw [hn1]
                  exact hn t1 (by simp) tg1 htg1 a1 ha1
              · exact absurd hk1 hne
            · exact ih (fun t' ht' => hn t' (by simp [ht'])) ts2' ps' hfr t ht hk
    exact key toks1 items1 hct1 hno1 toks2 _ hfg
  obtain ⟨items2, hc2⟩ := compileToks_plain_ok cfg toks2 (firstId idx2) m0'.cx.exprs hno2
  obtain ⟨hp2, _⟩ := hcore _ _ _ _ hc2
  rw [ho1]
  unfold addFile
  simp only [hfresh, Bool.false_eq_true, if_false, hs2, registerFile, buildTreeS, hc2, mapRes, LoadRes.map,
    addDefined_plain cfg _ _ _ hp2, withTemplates]
  exact ⟨_, rfl⟩

/-- **render_idempotent, unconditional form**: under the hypotheses of `second_load_ok` the output CAN be loaded again
    under any fresh name, and rendering it yields the same output. -/
theorem render_idempotent_loaded (cfg : Cfg) (fns : List (String × EV.FnSpec)) (idx : Nat) (name src : String) (m0 m : Mgr)
    (hinv : TplInv cfg m0.templates) (h : addFile cfg fns idx name src m0 = .ok m)
    (r : RN.Node) (hr : (envOf m).tpl name = some r) (hp : RN.Spec.Plain (rcfgOf cfg) r)
    (fuel : Nat) (sc : List EV.Val) (hf : (RN.execute (rcfgOf cfg) (envOf m) fuel r sc).st ≠ .fuel)
    (hno : ∀ toks, HS.scan (scanCfg cfg) src.toList = .ok toks → NoPrefixedAttrs cfg toks)
    (fns2 : List (String × EV.FnSpec)) (idx2 : Nat) (name2 : String) (m0' : Mgr) (hinv2 : TplInv cfg m0'.templates)
    (hfresh : m0'.templates.any (·.1 == name2) = false) :
    ∃ m2 r2, addFile cfg fns2 idx2 name2 (String.join (RN.execute (rcfgOf cfg) (envOf m) fuel r sc).out) m0' = .ok m2 ∧
      (envOf m2).tpl name2 = some r2 ∧ RN.Spec.Plain (rcfgOf cfg) r2 ∧
      ∀ (fuel2 : Nat) (sc2 : List EV.Val), (RN.execute (rcfgOf cfg) (envOf m2) fuel2 r2 sc2).st ≠ .fuel →
        (RN.execute (rcfgOf cfg) (envOf m2) fuel2 r2 sc2).st = .ok ∧
        String.join (RN.execute (rcfgOf cfg) (envOf m2) fuel2 r2 sc2).out =
          String.join (RN.execute (rcfgOf cfg) (envOf m) fuel r sc).out := by
  obtain ⟨m2, h2⟩ := second_load_ok cfg fns idx name src m0 m hinv h r hr hp fuel sc hf hno fns2 idx2 name2 m0' hfresh
  obtain ⟨toks2, root2, tbl2, _, _, hadd, _, hnew⟩ := addFile_ok h2
  obtain ⟨extra, hextra⟩ := addDefined_prefix cfg _ _ _ _ hadd
  have hr2 : (envOf m2).tpl name2 = some (annotate root2) := by
    simp only [envOf, hextra]
    exact find_registered (root := annotate root2) (extra := extra) hnew
  obtain ⟨hp2, hex⟩ := render_idempotent cfg fns idx name src m0 m hinv h r hr hp fuel sc hf fns2 idx2 name2 m0' m2 hinv2 h2
    _ hr2
  exact ⟨m2, _, h2, hr2, hp2, fun fuel2 sc2 hf2 => ⟨(hex fuel2 sc2 hf2).1, (hex fuel2 sc2 hf2).2.2⟩⟩

/-! ## non-vacuity (kernel evaluation) -/
namespace IdemExample

/-- irregular blanks inside tags, a quoted value directly followed by the next attribute, verbatim closing tags of
    open elements (`</i >`, `</P⏎>`, `</STYLE >`), a stray closing tag (`</q >`), a self-closed raw-text element whose
    stray end tag has a blank inside the name (`</SCR IPT >`), a raw-text element, a comment -/
def src : String :=
  "<P  CLASS = \"a  b\"\n id='x y' hidden ><BR  />t<i x=\"1\"y='2'z></i ></P\n></q ><script />x</SCR IPT ><Style>a<b</STYLE ><!-- c -->"

def out : String :=
  "<P CLASS=\"a  b\" id='x y' hidden><BR />t<i x=\"1\" y='2' z></i ></P\n></q><script />x</SCRIPT><Style>a<b</STYLE ><!-- c -->"

/-- load `src` as `t`, render; load the output as `u` into the same manager, render again -/
def demo : Bool :=
  match addFile {} [] 1 "t" src (emptyMgr {} []) with
  | .ok m =>
    match (envOf m).tpl "t" with
    | some r =>
      RN.Spec.plainB (rcfgOf {}) r && EN.Example.runIs (RN.execute (rcfgOf {}) (envOf m) 100 r []) out &&
      (match addFile {} [] 2 "u" out m with
        | .ok m2 =>
          (match (envOf m2).tpl "u" with
            | some r2 => EN.Example.runIs (RN.execute (rcfgOf {}) (envOf m2) 100 r2 []) out
            | none => false)
        | _ => false)
    | none => false
  | _ => false

set_option maxRecDepth 100000 in
theorem demo_true : demo = true := by decide +kernel

/-- the hypotheses of `render_idempotent` are satisfiable (and its conclusion is what `demo` computed) -/
example : ∃ m r m2 r2, addFile {} [] 1 "t" src (emptyMgr {} []) = .ok m ∧ (envOf m).tpl "t" = some r ∧
    RN.Spec.Plain (rcfgOf {}) r ∧ (RN.execute (rcfgOf {}) (envOf m) 100 r []).st ≠ .fuel ∧
    addFile {} [] 2 "u" (String.join (RN.execute (rcfgOf {}) (envOf m) 100 r []).out) m = .ok m2 ∧
    (envOf m2).tpl "u" = some r2 ∧ RN.Spec.Plain (rcfgOf {}) r2 ∧
    (RN.execute (rcfgOf {}) (envOf m2) 100 r2 []).st ≠ .fuel ∧
    String.join (RN.execute (rcfgOf {}) (envOf m2) 100 r2 []).out = String.join (RN.execute (rcfgOf {}) (envOf m) 100 r []).out := by
  have h := demo_true
  unfold demo at h
  split at h
  · rename_i m hm
    split at h
    · rename_i r hr
      simp only [EN.Example.runIs, Bool.and_eq_true, decide_eq_true_eq, beq_iff_eq] at h
      obtain ⟨⟨hpl, hf, hout⟩, h3⟩ := h
      split at h3
      · rename_i m2 hm2
        split at h3
        · rename_i r2 hr2
          simp only [Bool.and_eq_true, decide_eq_true_eq, beq_iff_eq] at h3
          have hinv : TplInv {} (emptyMgr {} []).templates := by intro p hp; cases hp
          have hinv2 := addFile_tplOK _ _ _ _ _ _ _ hinv hm
          have hm2' : addFile {} [] 2 "u" (String.join (RN.execute (rcfgOf {}) (envOf m) 100 r []).out) m = .ok m2 := by
            rw [hout]; exact hm2
          obtain ⟨hp2, hex⟩ := render_idempotent {} [] 1 "t" src _ m hinv hm r hr hpl 100 [] hf [] 2 "u" m m2 hinv2 hm2' r2 hr2
          exact ⟨m, r, m2, r2, hm, hr, hpl, hf, hm2', hr2, hp2, h3.1, (hex 100 [] h3.1).2.2⟩
        · cases h3
      · cases h3
    · cases h
  · cases h

/-- `second_load_ok`: its extra hypothesis holds for this source (the default prefix is `:`) -/
example : ∀ toks, HS.scan (scanCfg {}) src.toList = .ok toks → NoPrefixedAttrs {} toks := by
  intro toks hs
  have hb : (match HS.scan (scanCfg {}) src.toList with
      | .ok ts => ts.all (fun t => match t.tag with
          | some tg => tg.attrs.all (fun a => !(String.ofList a.name).startsWith ":")
          | none => true)
      | .error _ => false) = true := by decide +kernel
  rw [hs] at hb
  intro t ht tg htg a ha
  have h1 := List.all_eq_true.mp hb t ht
  rw [htg] at h1
  have h2 := List.all_eq_true.mp h1 a ha
  simpa using h2

end IdemExample

end C01
