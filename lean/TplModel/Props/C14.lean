import TplModel.Exp.Lex
import TplModel.Exp.Eval
import TplModel.Exp.Encode
import TplModel.Proofs.Encode
/-! # C14 — every string can be written as a literal in each of the three quoting styles and evaluates to
exactly that string

Encoders: `ENC.encodeDQ`, `ENC.encodeSQ`, `ENC.encodeRaw` (`TplModel/Exp/Encode.lean`).
Decoder / lexer: `EV.decodeStr` (VisitLiteral: strconv.Unquote, `singleQuoteToDouble`), `EL.lexDefault`
(GoLexer.g4 RAW_STRING_LIT, INTERPRETED_STRING_LIT, SINGER_QUOT_STRING_LIT) — unchanged.
Helper lemmas: `TplModel/Proofs/Encode.lean`.

Raw literals cannot express every string: a back-quote ends the token and strconv.Unquote drops `\r`; the raw
theorems carry exactly these two hypotheses (and the examples at the end show both are necessary). -/
namespace C14
open ENC EV EL

/-! ## decode ∘ encode = id -/

/-- double-quoted: all strings -/
theorem decode_encode_dq (s : List Char) :
    EV.decodeStr (String.ofList (encodeDQ s)) = .ok (String.ofList s) := by
  simp only [decodeStr, encodeDQ, String.toList_ofList]
  simp [uq_encodeBody]

/-- single-quoted: all strings -/
theorem decode_encode_sq (s : List Char) :
    EV.decodeStr (String.ofList (encodeSQ s)) = .ok (String.ofList s) := by
  simp only [decodeStr, encodeSQ, String.toList_ofList]
  simp [sq2dq_encodeBody, uq_encodeBody]

/-- raw: strings without back-quote and carriage return -/
theorem decode_encode_raw (s : List Char) (_h1 : '`' ∉ s) (h2 : '\r' ∉ s) :
    EV.decodeStr (String.ofList (encodeRaw s)) = .ok (String.ofList s) := by
  simp only [decodeStr, encodeRaw, String.toList_ofList]
  have : s.filter (· ≠ '\r') = s := by
    rw [List.filter_eq_self]; intro a ha; simp; intro hh; subst hh; exact h2 ha
  simp only [List.length_append, List.length_cons, List.length_nil, Nat.add_sub_cancel, List.take_left', this]

/-! ## the lexer takes the whole literal as one string token (and switches to NLSEMI mode) -/

theorem lex_accepts_dq (s : List Char) :
    EL.lexDefault (encodeDQ s) = some (some (.str (String.ofList (encodeDQ s))), (encodeDQ s).length, true) := by
  have h := strBody_encodeBody '"' (Or.inl rfl) s [] ((encodeBody '"' s ++ ['"']).length + 1) (by simp; omega)
  unfold encodeDQ
  rw [lexDefault_str _ (Or.inl rfl) _ _ h, List.take_of_length_le (by simp)]
  simp

theorem lex_accepts_sq (s : List Char) :
    EL.lexDefault (encodeSQ s) = some (some (.str (String.ofList (encodeSQ s))), (encodeSQ s).length, true) := by
  have h := strBody_encodeBody '\'' (Or.inr rfl) s [] ((encodeBody '\'' s ++ ['\'']).length + 1) (by simp; omega)
  unfold encodeSQ
  rw [lexDefault_str _ (Or.inr rfl) _ _ h, List.take_of_length_le (by simp)]
  simp

theorem lex_accepts_raw (s : List Char) (h1 : '`' ∉ s) :
    EL.lexDefault (encodeRaw s) = some (some (.str (String.ofList (encodeRaw s))), (encodeRaw s).length, true) := by
  unfold encodeRaw
  rw [lexDefault_raw s h1]
  simp

/-- the literal alone, as a complete expression text, lexes to exactly one token — for each style -/
theorem lex_dq (s : List Char) :
    EL.lex (String.ofList (encodeDQ s)) = .ok [.str (String.ofList (encodeDQ s))] :=
  lex_single _ _ (by simp [encodeDQ]) (lex_accepts_dq s)

theorem lex_sq (s : List Char) :
    EL.lex (String.ofList (encodeSQ s)) = .ok [.str (String.ofList (encodeSQ s))] :=
  lex_single _ _ (by simp [encodeSQ]) (lex_accepts_sq s)

theorem lex_raw (s : List Char) (h1 : '`' ∉ s) :
    EL.lex (String.ofList (encodeRaw s)) = .ok [.str (String.ofList (encodeRaw s))] :=
  lex_single _ _ (by simp [encodeRaw]) (lex_accepts_raw s h1)

/-! ## `singleQuoteToDouble` is correct on every lexer-accepted body -/

/-- For every body `b` the single-quote rule of the lexer accepts (`'b'` is one token), the implementation's
    route — `sq2dq`, then strconv.Unquote of the double-quoted text — computes the direct single-quote reading
    `unquoteQ '\'' true`: bare `'`/newline rejected, `\'` ↦ `'`, bare `"` ↦ `"`, `\"` ↦ `"`, the other escapes as in
    double quotes. -/
theorem sq2dq_correct (b : List Char) (F : Nat) (h : strBody '\'' F (b ++ ['\'']) = some (b.length + 1)) :
    unquoteBody ((sq2dq b).length + 1) (sq2dq b) [] = unquoteQ '\'' true (b.length + 1) b [] := by
  rw [unquoteBody_eq]
  exact sq2dq_aux F b [] _ _ h (by omega) (by omega)

/-- the same, stated on `decodeStr` of the literal text -/
theorem decodeStr_sq (b : List Char) (F : Nat) (h : strBody '\'' F (b ++ ['\'']) = some (b.length + 1)) :
    EV.decodeStr (String.ofList ('\'' :: (b ++ ['\'']))) = unquoteQ '\'' true (b.length + 1) b [] := by
  simp only [decodeStr, String.toList_ofList]
  simpa using sq2dq_correct b F h

/-- the double-quote decoder of the model is the reference reading with quote `"` (strict) -/
theorem unquoteBody_is_reading (f : Nat) (b acc : List Char) :
    unquoteBody f b acc = unquoteQ '"' false f b acc := unquoteBody_eq f b acc

/-- The exact mirror image of Go's double-quote rule (`\"` rejected inside single quotes) only rejects more than
    the implementation: whenever it accepts, the implementation agrees. -/
theorem strict_reading_le (f : Nat) (b acc : List Char) :
    unquoteQ '\'' false f b acc = .bad ∨ unquoteQ '\'' false f b acc = unquoteQ '\'' true f b acc :=
  unquoteQ_strict '\'' f b acc

/-! ## examples (kernel evaluation by `decide`, no native code) and non-vacuity -/

/-- quotes of all three kinds' worth of trouble, backslash, braces, `$`, newline, tab, CR, a control character, DEL,
    é (U+00E9) and an astral character (U+1F600) -/
def sample : List Char :=
  ['a', '"', 'b', '\'', 'c', '\\', 'd', '{', '{', '$', 'x', '}', '}', '\n', '\t', '\r', '\x01', '\x7f', 'é', '😀']
/-- the same without CR (and without back-quote): admissible for a raw literal -/
def sampleRaw : List Char :=
  ['a', '"', 'b', '\'', 'c', '\\', 'd', '{', '{', '$', 'x', '}', '}', '\n', '\t', '\x01', '\x7f', 'é', '😀']

example : String.ofList (encodeDQ sample) = "\"a\\\"b'c\\\\d{{$x}}\\n\\t\\r\\x01\\x7fé😀\"" := by decide
example : String.ofList (encodeSQ sample) = "'a\"b\\'c\\\\d{{$x}}\\n\\t\\r\\x01\\x7fé😀'" := by decide
example : encodeRaw ['a', '\\', 'n', '"'] = ['`', 'a', '\\', 'n', '"', '`'] := by decide

-- the general theorems, instantiated …
example : decodeStr (String.ofList (encodeDQ sample)) = .ok (String.ofList sample) := decode_encode_dq _
example : decodeStr (String.ofList (encodeSQ sample)) = .ok (String.ofList sample) := decode_encode_sq _
example : decodeStr (String.ofList (encodeRaw sampleRaw)) = .ok (String.ofList sampleRaw) :=
  decode_encode_raw _ (by decide) (by decide)        -- the hypotheses of the raw theorem are satisfiable
-- … and checked independently by evaluating the model
example : decodeStr (String.ofList (encodeDQ sample)) = .ok (String.ofList sample) := by decide
example : decodeStr (String.ofList (encodeSQ sample)) = .ok (String.ofList sample) := by decide
example : decodeStr (String.ofList (encodeRaw sampleRaw)) = .ok (String.ofList sampleRaw) := by decide
example : lexDefault (encodeDQ sample) = some (some (.str (String.ofList (encodeDQ sample))), 33, true) := by decide
example : lexDefault (encodeSQ sample) = some (some (.str (String.ofList (encodeSQ sample))), 33, true) := by decide
example : lexDefault (encodeRaw sampleRaw) = some (some (.str (String.ofList (encodeRaw sampleRaw))), 21, true) := by
  decide
example : decodeStr "\"caf\\xe9\"" = .unsupported := by decide   -- what the encoders avoid: é is written literally

/-- both hypotheses of the raw theorems are necessary -/
example : decodeStr (String.ofList (encodeRaw ['a', '\r', 'b'])) = .ok "ab" := by decide
example : lexDefault (encodeRaw ['a', '`', 'b']) = some (some (.str "`a`"), 3, true) := by decide

/-- `sq2dq_correct`: its hypothesis holds for a body using `\'`, a bare `"`, `\n` and `\"`; the reading gives the
    expected string; the strictly mirrored reading would reject `'\"'`, the implementation accepts it -/
example : strBody '\'' 9 (['a', '\\', '\'', '"', '\\', 'n', '\\', '"'] ++ ['\'']) = some 9 := by decide
example : unquoteQ '\'' true 9 ['a', '\\', '\'', '"', '\\', 'n', '\\', '"'] [] = .ok "a'\"\n\"" := by decide
example : decodeStr "'a\\'\"\\n\\\"'" = .ok "a'\"\n\"" := by decide
example : unquoteQ '\'' false 3 ['\\', '"'] [] = .bad := by decide
example : decodeStr "'\\\"'" = .ok "\"" := by decide
/-- without the lexer hypothesis `sq2dq_correct` fails (hex digits are not re-validated after the lexer) -/
example : unquoteBody 9 (sq2dq ['\\', 'x', '"', '4']) [] ≠ unquoteQ '\'' true 5 ['\\', 'x', '"', '4'] [] := by decide

end C14
