import TplModel.Generated.Facts
import TplModel.Proofs.ScanNoPanic
import TplModel.Proofs.TreeProofs
/-! # C08 — loading, parsing and rendering never panic

OBLIGATIONS: HS.scan_no_panic, TB.build_no_panic, TB.build_err_iff, TB.build_panic_iff -/
namespace C08

/-- The three `recover()` sites that turn panics of reflect / user functions / the visitor's own assertions into
    errors are present (re-extracted from the sources on every run). -/
theorem recover_sites_present :
    ("exp/visitor.go", "visitor.Evaluate") ∈ Facts.recoverFuncs ∧
    ("exp/reflects.go", "getValue") ∈ Facts.recoverFuncs ∧
    ("exp/reflects.go", "callFunc") ∈ Facts.recoverFuncs := by decide

/-- Explicit `panic(` calls of the html package are confined to the two scanners' "unexpected state" assertions, which
    `HS.scan_no_panic` shows unreachable; the tree builder, the manager and the renderer contain none. -/
theorem html_panic_sites_are_scanner_assertions :
    (Facts.panicFuncs.filter (fun p => p.1.startsWith "html/")).map (·.2) =
      ["CodeScanner.NextToken", "HtmlScanner.NextToken", "HtmlScanner.readTag"] := by decide +kernel

/-- Every function of package exp that contains an explicit `panic(` is a method of the visitor (run under
    `Evaluate`'s recover), an operator helper called from it, or `ReflectConvert` (called through `callFunc`'s recover). -/
theorem exp_panic_sites_are_under_recover :
    ∀ p ∈ Facts.panicFuncs, p.1.startsWith "exp/" →
      p.2.startsWith "visitor." ∨ p.2 = "biOp3" ∨ p.2 = "ReflectConvert" := by decide +kernel

end C08
