import TplModel.Generated.Facts
import TplModel.Sys.Conc
import TplModel.Proofs.Conc
/-! # C15 — concurrent rendering from one manager is race-free and equals serial (the LOGIC)

Model: `TplModel/Sys/Conc.lean` (threads = lists of atomic actions on shared locations, interleavings = program
order respecting merges, sequentially consistent execution, happens-before = program order + release→acquire on
a mutex, data race = conflicting accesses unordered by happens-before).  Helper lemmas: `TplModel/Proofs/Conc.lean`.

Reading of the model for pub-go/tpl: a thread is one `Execute` call; the locations are the fields of the shared
parsed tree (`Node`, `Tag`, `Attr`, …); `initCache m l v` is `(*Tag).AttrMap` / `(*Tag).SortedAttr` at HEAD
(`t.mu.Lock(); if not built { build from t.Attrs }; return cache; unlock`), where `v` is a function of the
immutable attribute list and `0` stands for "not built yet"; the per-execution maps `currentAttrs`/`nodeCondition`
are private (a fresh `htmlTemplate` per `Execute`) and therefore are not shared locations at all.

NOT captured here (see the header of `Sys/Conc.lean`): the Go memory model (only its DRF-SC guarantee is used,
informally), real schedules, goroutine creation, and that the code's accesses are the assumed ones — the
orchestrator discharges those premises with the generated fact module and the `go test -race` harness.
The theorems quantify over ANY number of threads, any thread bodies, any initial store and any interleaving. -/
namespace C15
open CC

/-! ## (1) read-only threads -/

theorem readOnly_initDiscipline {ts : List (List Act)} (h : ReadOnly ts) : InitDiscipline ts :=
  ⟨fun t ht l v hm => by simpa [Act.mutates] using h t ht _ hm,
   fun t ht _ _ m l v _ _ hm _ => by simpa [Act.mutates] using h t ht _ hm,
   fun t ht m l v hm => by simpa [Act.mutates] using h t ht _ hm,
   fun _ _ _ _ _ _ ⟨t', ht', m, v, hm⟩ => by simpa [Act.mutates] using h t' ht' _ hm⟩

/-- If no thread writes (only reads, and lock/unlock), no interleaving has a data race. -/
theorem readonly_race_free (ts : List (List Act)) (s0 : Store) (sched : Sched)
    (hro : ReadOnly ts) (hi : Interleaving ts sched) : ¬ Race s0 sched := by
  rintro ⟨i, j, ti, tj, ai, aj, l, _, hi', hj', _, _, _, hw, _⟩
  have nw : ∀ (k t : Nat) (a : Act), sched[k]? = some (t, a) → ∀ s, writesIn s a = false := by
    intro k t a hk s
    have hm : a ∈ proj t sched := mem_proj.2 (List.mem_of_getElem? hk)
    rw [hi.proj_eq t] at hm
    cases hti : ts[t]? with
    | none => simp [hti] at hm
    | some th =>
      have := hro th (List.mem_of_getElem? hti) a (by simpa [hti] using hm)
      cases a <;> simp_all [Act.mutates, writesIn]
  rcases hw with hw | hw
  · rw [nw i ti ai hi'] at hw; exact Bool.noConfusion hw
  · rw [nw j tj aj hj'] at hw; exact Bool.noConfusion hw

/-- … and the shared store is never changed … -/
theorem readonly_store_unchanged (ts : List (List Act)) (s0 : Store) (sched : Sched)
    (hro : ReadOnly ts) (hi : Interleaving ts sched) : finalStore s0 sched = s0 := by
  have nw : ∀ x ∈ sched, x.2.mutates = false := by
    intro x hx
    have hm : x.2 ∈ proj x.1 sched := mem_proj.2 hx
    rw [hi.proj_eq x.1] at hm
    cases hti : ts[x.1]? with
    | none => simp [hti] at hm
    | some th => exact hro th (List.mem_of_getElem? hti) _ (by simpa [hti] using hm)
  clear hi
  induction sched with
  | nil => rfl
  | cons x rest ih =>
    obtain ⟨j, a⟩ := x
    have ha : a.mutates = false := nw (j, a) (by simp)
    have : stepStore s0 a = s0 := by cases a <;> simp_all [Act.mutates, stepStore]
    simp only [finalStore, this]
    exact ih fun x hx => nw x (List.mem_cons_of_mem _ hx)

/-! ## (2) lock-protected idempotent lazy initialisation -/

/-- Under the initialisation discipline (no plain writes; all `initCache` on a location agree on mutex and on a
    non-zero value; cache locations are read only after an own `initCache`) no interleaving has a data race. -/
theorem idempotent_init_race_free (ts : List (List Act)) (s0 : Store) (sched : Sched)
    (hd : InitDiscipline ts) (hi : Interleaving ts sched) : ¬ Race s0 sched :=
  (hd.threadsDisc.sched hi).race_free hd.cv_ne_zero

/-- … and every thread observes, in every interleaving, exactly what it observes when run alone on the initial
    store. -/
theorem idempotent_init_serial_equiv (ts : List (List Act)) (s0 : Store) (sched : Sched)
    (hd : InitDiscipline ts) (hi : Interleaving ts sched) :
    ∀ (i : Nat) (h : i < ts.length), runObs i s0 sched = solo s0 ts[i] := by
  intro i h
  have hT := hd.threadsDisc
  have hcv := hd.cv_ne_zero
  have h1 := (hT.sched hi).runObs_eq (s0 := s0) hcv i
  have h2 := ((hT.single (List.getElem_mem h)).sched (interleaving_solo ts[i])).runObs_eq (s0 := s0) hcv 0
  rw [h1, solo, h2, proj_map_self, hi.proj_eq i]
  simp [h]

/-- … every thread's observation list in every interleaving equals its observations when run alone. -/
theorem readonly_serial_equiv (ts : List (List Act)) (s0 : Store) (sched : Sched)
    (hro : ReadOnly ts) (hi : Interleaving ts sched) :
    ∀ (i : Nat) (h : i < ts.length), runObs i s0 sched = solo s0 ts[i] :=
  idempotent_init_serial_equiv ts s0 sched (readOnly_initDiscipline hro) hi

/-- Any number of goroutines running the same disciplined program form a disciplined system
    (so the two theorems above apply to `List.replicate n t` for every `n`, in particular 2..64). -/
theorem initDiscipline_replicate {t : List Act} (h : InitDiscipline [t]) (n : Nat) :
    InitDiscipline (List.replicate n t) := by
  have e : ∀ t' ∈ List.replicate n t, t' = t := fun _ ht => List.eq_of_mem_replicate ht
  refine ⟨?_, ?_, ?_, ?_⟩
  · intro t' ht'; rw [e t' ht']; exact h.noWrite t (by simp)
  · intro t' ht' t'' ht''; rw [e t' ht', e t'' ht'']; exact h.agree t (by simp) t (by simp)
  · intro t' ht'; rw [e t' ht']; exact h.nonzero t (by simp)
  · intro t' ht' pre l post he ⟨t'', ht'', hm⟩
    rw [e t' ht'] at he; rw [e t'' ht''] at hm
    exact h.readAfterInit t (by simp) pre l post he ⟨t, by simp, hm⟩

/-! ## (3) witnesses for the defects before the fix -/

/-- Unprotected lazy initialisation (`if cache == nil { cache = build() }` without the mutex — the pinned code):
    two threads doing `read l; write l v` have an interleaving with a data race (for every store, location, value). -/
theorem unprotected_lazy_init_races (s0 : Store) (l : Loc) (v : Nat) :
    ∃ sched, Interleaving [[.read l, .write l v], [.read l, .write l v]] sched ∧ Race s0 sched := by
  refine ⟨[(0, .read l), (1, .read l), (0, .write l v), (1, .write l v)], ?_, ?_⟩
  · exact .cons (i := 0) rfl (.cons (i := 1) rfl (.cons (i := 0) rfl (.cons (i := 1) rfl (.nil (by simp)))))
  · refine ⟨2, 3, 0, 1, .write l v, .write l v, l, by omega, rfl, rfl, by omega, rfl, rfl, .inl rfl, fun hb => ?_⟩
    obtain ⟨t, a, b, h1, h2⟩ := hb.same_thread_of_no_rel (by simp [Act.rel?])
    simp at h1 h2
    omega

/-- in that interleaving both threads find the cache empty and both initialise it -/
example (s0 : Store) (l : Loc) (v : Nat) :
    let sched : Sched := [(0, .read l), (1, .read l), (0, .write l v), (1, .write l v)]
    runObs 0 s0 sched = [s0 l] ∧ runObs 1 s0 sched = [s0 l] := by
  simp [runObs, obsAct, stepStore]

/-- Shared mutable execution state (one template object whose `currentAttrs`/`nodeCondition` maps are used by two
    concurrent executions — the code before the fix): two threads that write and then read a shared location can
    observe each other's value, i.e. the execution is not serially equivalent (and it has a data race). -/
theorem shared_mutable_state_not_serial (s0 : Store) (l : Loc) (v w : Nat) (hvw : v ≠ w) :
    ∃ sched, Interleaving [[.write l v, .read l], [.write l w, .read l]] sched ∧
      runObs 0 s0 sched = [w] ∧ solo s0 [.write l v, .read l] = [v] ∧
      runObs 0 s0 sched ≠ solo s0 [.write l v, .read l] ∧ Race s0 sched := by
  refine ⟨[(0, .write l v), (1, .write l w), (0, .read l), (1, .read l)], ?_, ?_, ?_, ?_, ?_⟩
  · exact .cons (i := 0) rfl (.cons (i := 1) rfl (.cons (i := 0) rfl (.cons (i := 1) rfl (.nil (by simp)))))
  · simp [runObs, obsAct, stepStore, upd]
  · simp [solo, runObs, obsAct, stepStore, upd]
  · simp [solo, runObs, obsAct, stepStore, upd]; exact fun h => hvw h.symm
  · refine ⟨0, 1, 0, 1, .write l v, .write l w, l, by omega, rfl, rfl, by omega, rfl, rfl, .inl rfl, fun hb => ?_⟩
    obtain ⟨t, a, b, h1, h2⟩ := hb.same_thread_of_no_rel (by simp [Act.rel?])
    simp at h1 h2
    omega

/-! ## examples (non-vacuity; everything below is checked by `decide` on the executable definitions) -/

/-- initial store of the examples: the tree is parsed (`loc 10 ↦ 5`, `loc 11 ↦ 6`), the caches are empty -/
def st0 : Store := fun l => if l = 10 then 5 else if l = 11 then 6 else 0

/-- one `Execute`: read the node, `AttrMap` (mutex 1, cache 20 ↦ 7), `SortedAttr` (mutex 1, cache 21 ↦ 9),
    use both caches, read another node -/
def render : List Act := [.read 10, .initCache 1 20 7, .initCache 1 21 9, .read 20, .read 21, .read 11]
/-- an execution that only needs `SortedAttr` -/
def render' : List Act := [.read 11, .initCache 1 21 9, .read 21, .read 10]
/-- a read-only execution (no directive on the path) -/
def plain : List Act := [.read 10, .read 11, .read 10]

/-- hypotheses of `readonly_*` hold on a non-trivial system -/
example : ReadOnly [plain, plain, [.read 11]] := by decide

def roSched : Sched := [(1, .read 10), (0, .read 10), (2, .read 11), (0, .read 11), (1, .read 11), (1, .read 10), (0, .read 10)]
example : Interleaving [plain, plain, [.read 11]] roSched := by decide
example : ¬ Race st0 roSched := readonly_race_free [plain, plain, [.read 11]] _ _ (by decide) (by decide)
example : ¬ Race st0 roSched := by decide
example : runObs 0 st0 roSched = [5, 6, 5] ∧ solo st0 plain = [5, 6, 5] := by decide

/-- hypotheses of `idempotent_init_*` hold on a non-trivial system -/
theorem sys_disciplined : InitDiscipline [render, render', plain, render] := initDisciplineB_sound (by decide)

/-- a schedule in which thread 1 initialises cache 21 first, thread 0 cache 20, thread 3 finds both built -/
def initSched : Sched :=
  [(0, .read 10), (1, .read 11), (3, .read 10), (1, .initCache 1 21 9), (0, .initCache 1 20 7), (2, .read 10),
   (3, .initCache 1 20 7), (0, .initCache 1 21 9), (1, .read 21), (3, .initCache 1 21 9), (0, .read 20),
   (3, .read 20), (2, .read 11), (0, .read 21), (3, .read 21), (1, .read 10), (0, .read 11), (2, .read 10), (3, .read 11)]

example : Interleaving [render, render', plain, render] initSched := by decide
example : lockFeasible [] initSched = true := by decide
example : ¬ Race st0 initSched := idempotent_init_race_free _ _ _ sys_disciplined (by decide)
example : ∀ (i : Nat) (h : i < 4), runObs i st0 initSched = solo st0 [render, render', plain, render][i] :=
  idempotent_init_serial_equiv _ _ _ sys_disciplined (by decide)
example : ¬ Race st0 initSched := by decide
example : runObs 0 st0 initSched = solo st0 render ∧ runObs 3 st0 initSched = solo st0 render ∧
    solo st0 render = [5, 7, 9, 7, 9, 6] := by decide
example : (exec 4 st0 initSched).2 = [solo st0 render, solo st0 render', solo st0 plain, solo st0 render] := by decide

/-- any number of identical goroutines -/
example (n : Nat) : InitDiscipline (List.replicate n render) :=
  initDiscipline_replicate (initDisciplineB_sound (by decide)) n

/-- the discipline is needed: reading the cache location WITHOUT going through `initCache` first races with
    another thread's initialisation (and the checker rejects the system) -/
example : initDisciplineB [[.read 20], [.initCache 1 20 7]] = false := by decide
example : Race st0 [(0, .read 20), (1, .initCache 1 20 7)] := by decide
/-- … and so is agreement on the value: with different values the result depends on who comes first -/
example : initDisciplineB [[.initCache 1 20 7], [.initCache 1 20 8]] = false := by decide
example : runObs 0 st0 [(1, .initCache 1 20 8), (0, .initCache 1 20 7)] ≠ solo st0 [.initCache 1 20 7] := by decide
/-- … and on the mutex: two different mutexes do not order the two initialisations -/
example : Race st0 [(0, .initCache 1 20 7), (1, .initCache 2 20 7)] := by decide

/-- the defect witnesses on concrete data, by evaluation -/
example : Race st0 [(0, .read 20), (1, .read 20), (0, .write 20 7), (1, .write 20 7)] := by decide
/-- a mutex around the check-and-set (explicit `lock`/`unlock`) removes that race in the serialised schedule -/
example : ¬ Race st0 [(0, .lock 1), (0, .read 20), (0, .write 20 7), (0, .unlock 1),
                       (1, .lock 1), (1, .read 20), (1, .unlock 1)] := by decide


/-- tie to the code: the lazy caches of `Tag` sit next to a sync primitive in html/tag.go (re-extracted every run) -/
theorem tag_caches_guarded : Facts.tagHasSyncField = true := by decide

end C15
