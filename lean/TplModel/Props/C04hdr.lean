import TplModel.Html.Attr
import TplModel.Proofs.AttrProofs
/-! # C04 — the `:range` header `idx, item : obj` is split as documented (`extractRange`, html/template.go)

`AT.extractRange` mirrors the Go function statement by statement (outer `TrimSpace`, first `:`, then first `,`
of the part before it, every piece trimmed).  The theorems below describe its result for ALL strings by the
position of the first `:` and the first `,` of the RAW string: the outer `TrimSpace` is invisible, because
`TrimSpace (a ++ ':' :: b) = TrimLeft a ++ ':' :: TrimRight b` and trimming is idempotent. -/
namespace C04
open AT

/-- The same statement relative to the string after the outer `TrimSpace` (`s' := trimSpace s`), i.e. the
    literal reading of the Go code. -/
theorem extractRange_spec' (s : List Char) :
    let s' := trimSpace s
    (':' ∉ s' → extractRange s = ([], [], s')) ∧
    (∀ a b, s' = a ++ ':' :: b → ':' ∉ a →
      (',' ∉ a → extractRange s = (trimSpace a, [], trimSpace b)) ∧
      (∀ i j, a = i ++ ',' :: j → ',' ∉ i → extractRange s = (trimSpace i, trimSpace j, trimSpace b))) := by
  intro s'
  refine ⟨fun h => ?_, fun a b hs ha => ⟨fun hc => ?_, fun i j hij hi => ?_⟩⟩
  · show (match splitFirst ':' s' with
        | none => ([], [], s')
        | some (a, b) => ((splitNames a).1, (splitNames a).2, trimSpace b)) = _
    rw [splitFirst_none h]
  · show (match splitFirst ':' s' with
        | none => ([], [], s')
        | some (a, b) => ((splitNames a).1, (splitNames a).2, trimSpace b)) = _
    rw [hs, splitFirst_append ha]
    simp only [splitNames, splitFirst_none hc]
  · show (match splitFirst ':' s' with
        | none => ([], [], s')
        | some (a, b) => ((splitNames a).1, (splitNames a).2, trimSpace b)) = _
    rw [hs, splitFirst_append ha, hij]
    simp only [splitNames, splitFirst_append hi]

/-- **C04 header theorem.**  For every string `s`:
    * no `:` in `s` ⇒ the result is `("", "", trim s)`;
    * `s = a ++ ":" ++ b` with no `:` in `a` ⇒ `obj = trim b`, and
      - no `,` in `a` ⇒ `idx = trim a`, `item = ""`;
      - `a = i ++ "," ++ j` with no `,` in `i` ⇒ `idx = trim i`, `item = trim j`.
    The cases are exhaustive (`header_cases`). -/
theorem extractRange_spec (s : List Char) :
    (':' ∉ s → extractRange s = ([], [], trimSpace s)) ∧
    (∀ a b, s = a ++ ':' :: b → ':' ∉ a →
      (',' ∉ a → extractRange s = (trimSpace a, [], trimSpace b)) ∧
      (∀ i j, a = i ++ ',' :: j → ',' ∉ i → extractRange s = (trimSpace i, trimSpace j, trimSpace b))) := by
  have h' := extractRange_spec' s
  refine ⟨fun h => h'.1 (fun hm => h (mem_of_mem_trimSpace hm)), fun a b hs ha => ?_⟩
  have hs' : trimSpace s = trimLeft a ++ ':' :: trimRight b := by rw [hs, trimSpace_split colon_not_space]
  have ha' : ':' ∉ trimLeft a := fun hm => ha (mem_of_mem_trimLeft hm)
  obtain ⟨h1, h2⟩ := h'.2 (trimLeft a) (trimRight b) hs' ha'
  refine ⟨fun hc => ?_, fun i j hij hi => ?_⟩
  · rw [h1 (fun hm => hc (mem_of_mem_trimLeft hm)), trimSpace_trimLeft, trimSpace_trimRight]
  · have hij' : trimLeft a = trimLeft i ++ ',' :: j := by rw [hij, trimLeft_append_stop comma_not_space]
    rw [h2 (trimLeft i) j hij' (fun hm => hi (mem_of_mem_trimLeft hm)), trimSpace_trimLeft, trimSpace_trimRight]

/-- the case distinction of `extractRange_spec` is exhaustive and the decompositions are unique -/
theorem header_cases (s : List Char) :
    ':' ∉ s ∨ ∃ a b, s = a ++ ':' :: b ∧ ':' ∉ a ∧ (',' ∉ a ∨ ∃ i j, a = i ++ ',' :: j ∧ ',' ∉ i) := by
  cases h : splitFirst ':' s with
  | none => exact .inl (splitFirst_eq_none h)
  | some ab =>
    obtain ⟨a, b⟩ := ab
    obtain ⟨hs, ha⟩ := splitFirst_some h
    refine .inr ⟨a, b, hs, ha, ?_⟩
    cases h2 : splitFirst ',' a with
    | none => exact .inl (splitFirst_eq_none h2)
    | some ij =>
      obtain ⟨i, j⟩ := ij
      obtain ⟨hij, hi⟩ := splitFirst_some h2
      exact .inr ⟨i, j, hij, hi⟩

/-- every component of the result is trimmed (`TrimSpace` is idempotent on it) -/
theorem extractRange_trimmed (s : List Char) :
    trimSpace (extractRange s).1 = (extractRange s).1 ∧
    trimSpace (extractRange s).2.1 = (extractRange s).2.1 ∧
    trimSpace (extractRange s).2.2 = (extractRange s).2.2 := by
  obtain ⟨h0, h1⟩ := extractRange_spec s
  rcases header_cases s with h | ⟨a, b, hs, ha, hc | ⟨i, j, hij, hi⟩⟩
  · rw [h0 h]; exact ⟨rfl, rfl, trimSpace_idem s⟩
  · rw [(h1 a b hs ha).1 hc]; exact ⟨trimSpace_idem a, rfl, trimSpace_idem b⟩
  · rw [(h1 a b hs ha).2 i j hij hi]; exact ⟨trimSpace_idem i, trimSpace_idem j, trimSpace_idem b⟩

/-- outer white space never matters -/
theorem extractRange_trim (s : List Char) : extractRange (trimSpace s) = extractRange s := by
  show (match splitFirst ':' (trimSpace (trimSpace s)) with
        | none => ([], [], trimSpace (trimSpace s))
        | some (a, b) => ((splitNames a).1, (splitNames a).2, trimSpace b)) = extractRange s
  rw [trimSpace_idem]; rfl

/-! ## the header forms of the property statement -/

example : extractRange "xs".toList = ("".toList, "".toList, "xs".toList) := by decide
example : extractRange "i : xs".toList = ("i".toList, "".toList, "xs".toList) := by decide
example : extractRange "i, x : xs".toList = ("i".toList, "x".toList, "xs".toList) := by decide
example : extractRange ", x : xs".toList = ("".toList, "x".toList, "xs".toList) := by decide
example : extractRange "_, x : xs".toList = ("_".toList, "x".toList, "xs".toList) := by decide
/-- Unicode white space (`unicode.IsSpace`: NBSP, ideographic space, tab, newline) is trimmed everywhere -/
example : extractRange "  i\t,　x\n: data.items[0] \r\n".toList =
    ("i".toList, "x".toList, "data.items[0]".toList) := by decide
/-- only the FIRST comma splits: later ones stay in the item name -/
example : extractRange "i, x, y : xs".toList = ("i".toList, "x, y".toList, "xs".toList) := by decide
/-- only the FIRST colon splits: later ones stay in the object expression -/
example : extractRange "i, x : c ? a : b".toList = ("i".toList, "x".toList, "c ? a : b".toList) := by decide

/-- Known finding F20 (design limitation, recorded): a header-less object expression containing `:` is split
    at that colon. -/
theorem F20_witness :
    extractRange "xs[1:]".toList = ("xs[1".toList, "".toList, "]".toList) ∧
    extractRange "c ? a : b".toList = ("c ? a".toList, "".toList, "b".toList) := by decide

/-! ## non-vacuity of the hypotheses of `extractRange_spec` -/

example : ':' ∉ " xs ".toList := by decide
example : ∃ a b, " k : m ".toList = a ++ ':' :: b ∧ ':' ∉ a ∧ ',' ∉ a := ⟨" k ".toList, " m ".toList, by decide⟩
example : ∃ a b i j, " i , x : xs ".toList = a ++ ':' :: b ∧ ':' ∉ a ∧ a = i ++ ',' :: j ∧ ',' ∉ i :=
  ⟨" i , x ".toList, " xs ".toList, " i ".toList, " x ".toList, by decide⟩
/-- the spec instantiated on such an input gives the expected concrete answer -/
example : extractRange " i , x : xs ".toList = ("i".toList, "x".toList, "xs".toList) :=
  ((extractRange_spec _).2 " i , x ".toList " xs ".toList (by decide) (by decide)).2
    " i ".toList " x ".toList (by decide) (by decide)

end C04
