import TplModel.Props.C02
import TplModel.Props.RenderProps
import TplModel.Proofs.EscapeTie
import TplModel.Proofs.ScanFrame
/-! # C02 on the renderer: what `text`, `raw` and dynamic attributes emit, and why it cannot change the markup

`Props/C02.lean` is about the escaping function `Esc.escape` and the HTML scanner model on their own. This file ties
them to the renderer model (`Html/Render.lean`), on its structural specification `RN.refBody` (the faithful model
`RN.exec` refines it: `RN.exec_refines_ref`, Props/C05refine.lean).

1. **tie** — `escapeHtml_eq : RN.escapeHtml s = Esc.escapeStr s`; hence `escapeHtml_roundtrip`, `escapeHtml_safe`,
   `escapeHtml_amp_starts_entity`, `escapeHtml_injective`.
2. **what is emitted** (all `cfg`, `env`, scope types, trees, fuels; "not out of fuel" hypothesis):
   * `text_emits_escaped` — start chunk, ONE content chunk `escapeHtml v`, end tag; the element's children do not occur
     (`text_ignores_children`); a consumer reads `v` back (`text_roundtrip`);
   * `raw_emits_verbatim` — the same with the content chunk `v`;
   * `dyn_attr_emits_escaped` — the attribute contributes exactly ` cmd="` ++ `escapeHtml v` ++ `"` to the start tag.
     The value `v` is `env.evalStr a sc`, Go's `attr.Evaluate(data)`: a pure `${…}` value and a literal/`${…}` mixture
     are both evaluated there (the renderer escapes the whole result once), so this is one statement;
     `dyn_attr_step` is the same fact for one step of the attribute loop;
   * `only_raw_is_unescaped` — the chunks of a successfully rendered element are `RN.Tie.elemForm`, a function of
     template, fragment texts, children's rendering and the table `emitted` of emitted strings; `elemForm` has no access
     to `Env`; `emitted` holds `escapeHtml v` for every attribute but `raw` ones; the content chunk comes from a
     `text` / `raw` attribute of the element only. `attr_contribution_cases` lists the three shapes of an attribute's
     contribution to the start tag.
3. **composition with the scanner** — `attr_hole_skeleton_invariant`, `text_hole_skeleton_invariant`,
   `two_hole_skeleton_invariant`, `element_skeleton_invariant` (the element of the property statement in an arbitrary
   context), `rendered_element_skeleton_invariant` (two renderings of the same element, joined, in the same context,
   have the same token skeleton). The full skeleton records whether there is a text token, so these need
   `w = "" ↔ w' = ""`; the *sequence of tags and attribute names* (`tagSkeleton`) is the same for ALL values:
   `text_hole_tags_invariant`, `two_hole_tags_invariant`, `element_tags_invariant`, `rendered_element_tags_invariant`
   (new scanner lemma `HS.init_text_insert_tags`, Proofs/ScanFrame.lean).
4. examples with the hostile value `"><script>&amp;'`.

Hypotheses `leavesUnset` / `keepsText` (Proofs/EscapeTie.lean): before the `text` attribute no `text`, `raw`,
`remove`=all/body/all-but-first; after it no `remove`=all/body. (In `SortedAttr` order `remove` precedes `text`, so the
second condition always holds for trees built by the loader.) Helper lemmas: `TplModel/Proofs/EscapeTie.lean`.
Core-only. -/
namespace C02.Render
open RN RN.Spec RN.Props RN.Tie Esc
variable {Sc : Type}

/-! ## 1. the renderer's escaping is the escaping model -/

/-- `RN.escapeHtml`, called by the renderer model exactly where Go calls `html.EscapeString`, is `Esc.escapeStr` -/
theorem escapeHtml_eq : ∀ s : String, RN.escapeHtml s = Esc.escapeStr s := RN.Tie.escapeHtml_eq

theorem escapeHtml_toList : ∀ s : String, (RN.escapeHtml s).toList = Esc.escape s.toList := RN.Tie.escapeHtml_toList

/-- HTML-unescaping what the renderer emits yields the evaluated string -/
theorem escapeHtml_roundtrip : ∀ s : String, unescape5Str (RN.escapeHtml s) = s := RN.Tie.unescape_escapeHtml

/-- the emitted text contains none of `< > " '` -/
theorem escapeHtml_safe : ∀ (s : String) (c : Char), c ∈ (RN.escapeHtml s).toList → c ≠ '<' ∧ c ≠ '>' ∧ c ≠ '"' ∧ c ≠ '\'' :=
  RN.Tie.escapeHtml_safe

/-- every `&` of the emitted text starts one of `&amp; &#39; &lt; &gt; &#34;` -/
theorem escapeHtml_amp_starts_entity : ∀ (s : String) (a b : List Char), (RN.escapeHtml s).toList = a ++ '&' :: b →
    ∃ t ∈ entityTails, t <+: b := RN.Tie.escapeHtml_amp_starts_entity

theorem escapeHtml_injective : ∀ a b : String, RN.escapeHtml a = RN.escapeHtml b → a = b :=
  fun _ _ h => RN.Tie.escapeHtml_injective h

/-- the hostile value of the examples: it closes a double-quoted attribute value and opens a `script` element, if
    written unescaped -/
def hostile : String := "\"><script>&amp;'"

example : RN.escapeHtml hostile = "&#34;&gt;&lt;script&gt;&amp;amp;&#39;" ∧
    unescape5Str (RN.escapeHtml hostile) = hostile ∧ '<' ∈ hostile.toList ∧ '"' ∈ hostile.toList := by decide +kernel

/-! ## 2. what the specification emits -/

/-- the element does not print its tag (`remove`=all/tag, block tag, define/replace) -/
def noPrintOf (cfg : RN.Cfg) (d : NodeD) : Bool := (optFold cfg d.attrs (initOpt cfg d 3)).1

theorem child_of_text (cfg : RN.Cfg) (d : NodeD) (pre post : List CAttr) (a : CAttr) (t : Bool)
    (has : d.attrs = pre ++ a :: post) (hk : classify cfg a = if t then .text else .raw)
    (hpre : ∀ x ∈ pre, leavesUnset cfg x = true) (hpost : ∀ x ∈ post, keepsText cfg x = true)
    (hnf : noFrag cfg d = true) :
    (optFold cfg d.attrs (initOpt cfg d 3)).2 = .textLike a t := by
  rw [initOpt_noFrag hnf, has]
  exact optFold_text cfg pre post a t _ hk hpre hpost

/-- common form of (2a) and (2b) -/
theorem textLike_emits (cfg : RN.Cfg) (env : Env Sc) (f depth : Nat) (nc : NC) (node : Node) (sc : Sc)
    (pre post : List CAttr) (a : CAttr) (t : Bool) (v : String) (lg : List String)
    (hf : (refBody cfg env f depth nc node sc).st ≠ .fuel) (hA : AttrsOk cfg env f depth nc node sc)
    (has : node.d.attrs = pre ++ a :: post) (hk : classify cfg a = if t then .text else .raw)
    (hpre : ∀ x ∈ pre, leavesUnset cfg x = true) (hpost : ∀ x ∈ post, keepsText cfg x = true)
    (hnf : noFrag cfg node.d = true)
    (hE : env.evalStr a sc = (.ok v, lg)) :
    refBody cfg env f depth nc node sc =
      { st := .ok,
        out := [if noPrintOf cfg node.d then "" else startTag cfg env node.d sc, if t then RN.escapeHtml v else v] ++
          endChunks node.endVal (noPrintOf cfg node.d),
        log := restLog cfg env f depth nc node sc ++ lg, nc := nc } := by
  have ho := child_of_text cfg node.d pre post a t has hk hpre hpost hnf
  rw [body_textLike cfg env f depth nc node sc a t v lg hf hA ho hE,
    startChunk_nofrag cfg env _ node.d sc hnf]
  rfl

/-- **(2a) `text` emits the escaped value.** An element whose first content directive is the `text` attribute `a`
    (see the file header for `hpre`, `hpost`; `hnf`: no insert / define / replace), `a` evaluating to `v`, renders to
    exactly: the start chunk (the start tag, or `""` when the tag is not printed), the content chunk
    `escapeHtml v`, the end tag (if the element has one and the tag is printed). The right-hand side does not
    mention `node.kids`: the element's own children are not rendered. -/
theorem text_emits_escaped (cfg : RN.Cfg) (env : Env Sc) (f depth : Nat) (nc : NC) (node : Node) (sc : Sc)
    (pre post : List CAttr) (a : CAttr) (v : String) (lg : List String)
    (hf : (refBody cfg env f depth nc node sc).st ≠ .fuel) (hA : AttrsOk cfg env f depth nc node sc)
    (has : node.d.attrs = pre ++ a :: post) (hk : classify cfg a = .text)
    (hpre : ∀ x ∈ pre, leavesUnset cfg x = true) (hpost : ∀ x ∈ post, keepsText cfg x = true)
    (hnf : noFrag cfg node.d = true)
    (hE : env.evalStr a sc = (.ok v, lg)) :
    refBody cfg env f depth nc node sc =
      { st := .ok,
        out := [if noPrintOf cfg node.d then "" else startTag cfg env node.d sc, RN.escapeHtml v] ++
          endChunks node.endVal (noPrintOf cfg node.d),
        log := restLog cfg env f depth nc node sc ++ lg, nc := nc } :=
  textLike_emits cfg env f depth nc node sc pre post a true v lg hf hA has hk hpre hpost hnf hE

/-- **(2b) `raw` emits the value verbatim**: the same three parts, the content chunk is `v` itself. -/
theorem raw_emits_verbatim (cfg : RN.Cfg) (env : Env Sc) (f depth : Nat) (nc : NC) (node : Node) (sc : Sc)
    (pre post : List CAttr) (a : CAttr) (v : String) (lg : List String)
    (hf : (refBody cfg env f depth nc node sc).st ≠ .fuel) (hA : AttrsOk cfg env f depth nc node sc)
    (has : node.d.attrs = pre ++ a :: post) (hk : classify cfg a = .raw)
    (hpre : ∀ x ∈ pre, leavesUnset cfg x = true) (hpost : ∀ x ∈ post, keepsText cfg x = true)
    (hnf : noFrag cfg node.d = true)
    (hE : env.evalStr a sc = (.ok v, lg)) :
    refBody cfg env f depth nc node sc =
      { st := .ok,
        out := [if noPrintOf cfg node.d then "" else startTag cfg env node.d sc, v] ++
          endChunks node.endVal (noPrintOf cfg node.d),
        log := restLog cfg env f depth nc node sc ++ lg, nc := nc } :=
  textLike_emits cfg env f depth nc node sc pre post a false v lg hf hA has hk hpre hpost hnf hE

/-- the children of a `text` / `raw` element are not rendered: two elements that differ only in their children
    render identically -/
theorem text_ignores_children (cfg : RN.Cfg) (env : Env Sc) (f depth : Nat) (nc : NC) (node node' : Node) (sc : Sc)
    (pre post : List CAttr) (a : CAttr) (t : Bool) (v : String) (lg : List String)
    (hd : node'.d = node.d) (he : node'.endVal = node.endVal)
    (hf : (refBody cfg env f depth nc node sc).st ≠ .fuel) (hf' : (refBody cfg env f depth nc node' sc).st ≠ .fuel)
    (hA : AttrsOk cfg env f depth nc node sc)
    (has : node.d.attrs = pre ++ a :: post) (hk : classify cfg a = if t then .text else .raw)
    (hpre : ∀ x ∈ pre, leavesUnset cfg x = true) (hpost : ∀ x ∈ post, keepsText cfg x = true)
    (hnf : noFrag cfg node.d = true)
    (hE : env.evalStr a sc = (.ok v, lg)) :
    refBody cfg env f depth nc node' sc = refBody cfg env f depth nc node sc := by
  have hA' : AttrsOk cfg env f depth nc node' sc := by unfold AttrsOk at hA ⊢; rw [hd]; exact hA
  rw [textLike_emits cfg env f depth nc node sc pre post a t v lg hf hA has hk hpre hpost hnf hE,
    textLike_emits cfg env f depth nc node' sc pre post a t v lg hf' hA' (hd ▸ has) hk hpre hpost (hd ▸ hnf) hE]
  simp only [hd, he, restLog]

/-- an HTML consumer reads back the evaluated string from the content chunk of a `text` element -/
theorem text_roundtrip (cfg : RN.Cfg) (env : Env Sc) (f depth : Nat) (nc : NC) (node : Node) (sc : Sc)
    (pre post : List CAttr) (a : CAttr) (v : String) (lg : List String)
    (hf : (refBody cfg env f depth nc node sc).st ≠ .fuel) (hA : AttrsOk cfg env f depth nc node sc)
    (has : node.d.attrs = pre ++ a :: post) (hk : classify cfg a = .text)
    (hpre : ∀ x ∈ pre, leavesUnset cfg x = true) (hpost : ∀ x ∈ post, keepsText cfg x = true)
    (hnf : noFrag cfg node.d = true)
    (hE : env.evalStr a sc = (.ok v, lg)) :
    ((refBody cfg env f depth nc node sc).out[1]?).map unescape5Str = some v := by
  rw [text_emits_escaped cfg env f depth nc node sc pre post a v lg hf hA has hk hpre hpost hnf hE]
  simp [RN.Tie.unescape_escapeHtml]

/-- **(2c) a dynamic attribute emits its escaped value between double quotes**, one step of the attribute loop: the
    tag buffer grows by exactly ` cmd="` ++ `escapeHtml v` ++ `"` (nothing is appended when the tag is not printed).
    `v` is the result of `env.evalStr a`, i.e. of `attr.Evaluate`: pure `${…}` values and literal/`${…}` mixtures alike. -/
theorem dyn_attr_step (cfg : RN.Cfg) (env : Env Sc) (frag : Node → Sc → R) (d : NodeD) (a : CAttr) (cmd v : String)
    (lg : List String) (ps : PS Sc) (nc : NC) (fl : Fl)
    (hk : classify cfg a = .dyn cmd) (hE : env.evalStr a ps.data = (.ok v, lg)) :
    (bodyStep cfg env frag d a (classify cfg a) ps nc fl).st = .ok ∧
    (bodyStep cfg env frag d a (classify cfg a) ps nc fl).ps.tagBuf =
      (if ps.noPrint then ps.tagBuf else ps.tagBuf ++ " " ++ cmd ++ "=\"" ++ RN.escapeHtml v ++ "\"") ∧
    (bodyStep cfg env frag d a (classify cfg a) ps nc fl).log = lg := by
  rw [hk]
  simp only [bodyStep, hE]
  cases ps.noPrint <;> simp

/-- **(2c) a dynamic attribute emits its escaped value between double quotes**, on the element: for a printed
    element with `attrs = pre ++ a :: post`, `a` the dynamic attribute `cmd` evaluating to `v`, the first chunk is
    (text of replaced fragments, empty unless the element carries `replace`, then) `<name`, the contributions of
    `pre`, ` cmd="` ++ `escapeHtml v` ++ `"`, the contributions of `post`, `>`, (text of inserted fragments). -/
theorem dyn_attr_emits_escaped (cfg : RN.Cfg) (env : Env Sc) (f depth : Nat) (nc : NC) (node : Node) (sc : Sc)
    (pre post : List CAttr) (a : CAttr) (cmd v : String) (lg : List String)
    (hf : (refBody cfg env f depth nc node sc).st ≠ .fuel) (hA : AttrsOk cfg env f depth nc node sc)
    (has : node.d.attrs = pre ++ a :: post) (hk : classify cfg a = .dyn cmd)
    (hE : env.evalStr a sc = (.ok v, lg)) (hnp : noPrintOf cfg node.d = false) :
    attrText cfg env node.d sc a = " " ++ cmd ++ "=\"" ++ RN.escapeHtml v ++ "\"" ∧
    ∃ rest, (refBody cfg env f depth nc node sc).out =
      (replText cfg env f depth nc node sc ++
        ("<" ++ node.d.tagName ++ String.join (pre.map (attrText cfg env node.d sc)) ++
          " " ++ cmd ++ "=\"" ++ RN.escapeHtml v ++ "\"" ++ String.join (post.map (attrText cfg env node.d sc)) ++ ">") ++
        String.join (node.d.attrs.map (insTextOf cfg env (fragOf cfg env f depth nc) sc))) :: rest := by
  refine ⟨attrText_dyn cfg env node.d sc a cmd v lg hk hE, ?_⟩
  obtain ⟨rest, hr⟩ := refBody_out_head cfg env f depth nc node sc hf hA
  refine ⟨rest, ?_⟩
  rw [hr]
  unfold noPrintOf at hnp
  have hj : String.join (node.d.attrs.map (attrText cfg env node.d sc)) =
      String.join (pre.map (attrText cfg env node.d sc)) ++ (" " ++ cmd ++ "=\"" ++ RN.escapeHtml v ++ "\"") ++
        String.join (post.map (attrText cfg env node.d sc)) := by
    rw [has, join_map_split, attrText_dyn cfg env node.d sc a cmd v lg hk hE]
  simp only [startChunk, hnp, Bool.false_eq_true, if_false, replText, hj, String.append_assoc]

/-- the three shapes of an attribute's contribution to the start tag: nothing (directives, overridden static
    attributes, failed evaluation); ` cmd="` ++ ESCAPED evaluated string ++ `"` (dynamic attribute); ` name` /
    ` name=source` copied from the template (static attribute, no evaluated string) -/
theorem attr_contribution_cases (cfg : RN.Cfg) (env : Env Sc) (d : NodeD) (sc : Sc) (a : CAttr) :
    attrText cfg env d sc a = "" ∨
    (∃ cmd v lg, classify cfg a = .dyn cmd ∧ env.evalStr a sc = (.ok v, lg) ∧
      attrText cfg env d sc a = " " ++ cmd ++ "=\"" ++ RN.escapeHtml v ++ "\"") ∨
    (classify cfg a = .plain ∧
      attrText cfg env d sc a = " " ++ a.name ++ (match a.value with | some s => "=" ++ s | none => "")) :=
  attrText_cases cfg env d sc a

/-- **(2d) only `raw` is unescaped.** The chunks of a successfully rendered element are `elemForm` applied to the
    template data (`cfg`, `node.d`, `node.endVal`), the table `emitted cfg env sc` of emitted strings, the texts of the
    replaced / inserted fragments and the rendering of the children (both are renderings themselves). `elemForm`
    does not take the evaluation interface: an evaluated string can reach the output only through `emitted`, and
    * `emitted … a = some (escapeHtml v)` whenever `a` evaluates to `v` and is not a `raw` attribute,
    * `emitted … a = some v` only for `raw` attributes;
    * the content chunk `childForm … (.textLike a t)` arises for a `text` (`t = true`) or `raw` (`t = false`)
      attribute `a` of the element, and for no other. -/
theorem only_raw_is_unescaped (cfg : RN.Cfg) (env : Env Sc) (f depth : Nat) (nc : NC) (node : Node) (sc : Sc)
    (hok : (refBody cfg env f depth nc node sc).st = .ok) :
    (refBody cfg env f depth nc node sc).out =
      elemForm cfg node.d node.endVal (emitted cfg env sc)
        (replText cfg env f depth nc node sc)
        (String.join (node.d.attrs.map (insTextOf cfg env (fragOf cfg env f depth nc) sc)))
        (refChild cfg env f depth nc node (optFold cfg node.d.attrs (initOpt cfg node.d 3)).2 sc).out ∧
    (∀ a v lg, env.evalStr a sc = (.ok v, lg) → classify cfg a ≠ .raw → emitted cfg env sc a = some (RN.escapeHtml v)) ∧
    (∀ a v lg, env.evalStr a sc = (.ok v, lg) → classify cfg a = .raw → emitted cfg env sc a = some v) ∧
    (∀ a t, (optFold cfg node.d.attrs (initOpt cfg node.d 3)).2 = .textLike a t →
      a ∈ node.d.attrs ∧ classify cfg a = if t then .text else .raw) :=
  ⟨refBody_out_elemForm cfg env f depth nc node sc hok,
   fun a v lg hE => (emitted_eq cfg env sc a v lg hE).1,
   fun a v lg hE => (emitted_eq cfg env sc a v lg hE).2,
   fun _ _ h => child_textLike_origin cfg node.d h⟩

/-! ## 3. composition with the scanner: the token skeleton does not depend on the inserted strings

`C02.skeleton scfg doc` is the scan result of `doc` with positions, text, attribute values and raw tag text erased
(kept: token kinds, tag names, attribute names in order, has-value flags, the error if any). The hypotheses describe
the scanner state at the insertion point, as in `C02.attr_insert_skeleton_invariant` /
`C02.first_text_insert_skeleton_invariant`; they are checked by `rfl` on concrete contexts (examples below). -/

/-- one attribute hole: after `A` the scanner is inside a double-quoted attribute value -/
theorem attr_hole_skeleton_invariant (scfg : HS.Cfg) (A P : String) (s0 : HS.S) (l0 : HS.TagL)
    (hA : A.toList.foldlM (HS.step scfg) HS.initS = .ok s0) (hm0 : s0.mode = .tag l0) (hst : l0.st = .attrValue)
    (hlast : l0.attrValue.getLast? = some '"') (v : String) :
    skeleton scfg (A ++ RN.escapeHtml v ++ P).toList = skeleton scfg (A ++ P).toList := by
  simp only [String.toList_append, RN.Tie.escapeHtml_toList]
  exact attr_insert_skeleton_invariant scfg A.toList P.toList s0 l0 hA hm0 hst hlast v.toList

/-- one text hole directly after a tag (scanner between tokens, not inside a raw-text element): all non-empty
    values give the same skeleton (an empty value produces no text token) -/
theorem text_hole_skeleton_invariant (scfg : HS.Cfg) (A P : String) (s1 : HS.S)
    (hA : A.toList.foldlM (HS.step scfg) HS.initS = .ok s1) (hm1 : s1.mode = .init)
    (hraw : HS.rawTagOf scfg s1.toks = none) (w w' : String) (hww : w = "" ↔ w' = "") :
    skeleton scfg (A ++ RN.escapeHtml w ++ P).toList = skeleton scfg (A ++ RN.escapeHtml w' ++ P).toList := by
  by_cases hw : w = ""
  · rw [hw, hww.mp hw]
  · have hw' : w' ≠ "" := fun h => hw (hww.mpr h)
    simp only [String.toList_append, RN.Tie.escapeHtml_toList]
    refine first_text_insert_skeleton_invariant scfg A.toList P.toList s1 hA hm1 hraw w.toList w'.toList ?_ ?_
    · intro h; exact hw (String.toList_inj.mp (h.trans String.toList_empty.symm))
    · intro h; exact hw' (String.toList_inj.mp (h.trans String.toList_empty.symm))

/-- a text hole after other text of the same element (scanner in ordinary text mode): no restriction on the value -/
theorem text_hole_after_text_skeleton_invariant (scfg : HS.Cfg) (A P : String) (s1 : HS.S) (l : HS.TextL)
    (hA : A.toList.foldlM (HS.step scfg) HS.initS = .ok s1) (hm1 : s1.mode = .text l) (hraw : l.raw = none)
    (w : String) :
    skeleton scfg (A ++ RN.escapeHtml w ++ P).toList = skeleton scfg (A ++ P).toList := by
  simp only [String.toList_append, RN.Tie.escapeHtml_toList]
  exact text_insert_skeleton_invariant scfg A.toList P.toList s1 l hA hm1 hraw w.toList

/-- an attribute hole and a text hole: `A` ends inside a double-quoted attribute value, `B` closes the value and
    the tag. The skeleton of `A ++ escapeHtml v ++ B ++ escapeHtml w ++ P` is the same for all `v` and all `w`
    (`w` empty or not makes the one difference: the text token is absent for an empty `w`). -/
theorem two_hole_skeleton_invariant (scfg : HS.Cfg) (A B P : String) (s0 s1 : HS.S) (l0 : HS.TagL)
    (hA : A.toList.foldlM (HS.step scfg) HS.initS = .ok s0) (hm0 : s0.mode = .tag l0) (hst : l0.st = .attrValue)
    (hlast : l0.attrValue.getLast? = some '"')
    (hB : B.toList.foldlM (HS.step scfg) s0 = .ok s1) (hm1 : s1.mode = .init) (hraw : HS.rawTagOf scfg s1.toks = none)
    (v v' w w' : String) (hww : w = "" ↔ w' = "") :
    skeleton scfg (A ++ RN.escapeHtml v ++ B ++ RN.escapeHtml w ++ P).toList =
      skeleton scfg (A ++ RN.escapeHtml v' ++ B ++ RN.escapeHtml w' ++ P).toList := by
  have hAB : (A ++ B).toList.foldlM (HS.step scfg) HS.initS = .ok s1 := by
    rw [String.toList_append, HS.foldlM_step_append, hA]; exact hB
  have e1 : ∀ x y : String, A ++ RN.escapeHtml x ++ B ++ RN.escapeHtml y ++ P =
      A ++ RN.escapeHtml x ++ (B ++ RN.escapeHtml y ++ P) := by intro x y; simp only [String.append_assoc]
  have e2 : ∀ y : String, A ++ (B ++ RN.escapeHtml y ++ P) = (A ++ B) ++ RN.escapeHtml y ++ P := by
    intro y; simp only [String.append_assoc]
  rw [e1, e1, attr_hole_skeleton_invariant scfg A _ s0 l0 hA hm0 hst hlast v,
    attr_hole_skeleton_invariant scfg A _ s0 l0 hA hm0 hst hlast v', e2, e2]
  exact text_hole_skeleton_invariant scfg (A ++ B) P s1 hAB hm1 hraw w w' hww

/-- decidable form of the scanner-state hypotheses of `two_hole_skeleton_invariant`: after `A` the scanner is inside a
    double-quoted attribute value, and `B` takes it from there to the state between tokens, outside raw-text elements -/
def holesOk (scfg : HS.Cfg) (A B : String) : Bool :=
  match A.toList.foldlM (HS.step scfg) HS.initS with
  | .ok s0 =>
    (match s0.mode with
     | .tag l0 =>
       l0.st == .attrValue && l0.attrValue.getLast? == some '"' &&
       (match B.toList.foldlM (HS.step scfg) s0 with
        | .ok s1 => (match s1.mode with | .init => (HS.rawTagOf scfg s1.toks).isNone | _ => false)
        | .error _ => false)
     | _ => false)
  | .error _ => false

theorem holesOk_iff (scfg : HS.Cfg) (A B : String) :
    holesOk scfg A B = true ↔
      ∃ s0 s1 l0, A.toList.foldlM (HS.step scfg) HS.initS = .ok s0 ∧ s0.mode = .tag l0 ∧ l0.st = .attrValue ∧
        l0.attrValue.getLast? = some '"' ∧ B.toList.foldlM (HS.step scfg) s0 = .ok s1 ∧ s1.mode = .init ∧
        HS.rawTagOf scfg s1.toks = none := by
  unfold holesOk
  constructor
  · intro h
    cases hA : A.toList.foldlM (HS.step scfg) HS.initS with
    | error e => simp [hA] at h
    | ok s0 =>
      simp only [hA] at h
      cases hm0 : s0.mode with
      | init => simp [hm0] at h
      | text l => simp [hm0] at h
      | tag l0 =>
        simp only [hm0, Bool.and_eq_true, beq_iff_eq] at h
        obtain ⟨⟨hst, hlast⟩, h⟩ := h
        cases hB : B.toList.foldlM (HS.step scfg) s0 with
        | error e => simp [hB] at h
        | ok s1 =>
          simp only [hB] at h
          cases hm1 : s1.mode with
          | text l => simp [hm1] at h
          | tag l => simp [hm1] at h
          | init =>
            simp only [hm1, Option.isNone_iff_eq_none] at h
            exact ⟨s0, s1, l0, rfl, hm0, hst, hlast, hB, hm1, h⟩
  · rintro ⟨s0, s1, l0, hA, hm0, hst, hlast, hB, hm1, hraw⟩
    simp [hA, hm0, hst, hlast, hB, hm1, hraw]

/-- the emitted element of the property statement, in a context -/
def elemDoc (ctxPre tag attrsBefore cmd v attrsAfter w ctxPost : String) : String :=
  ctxPre ++ "<" ++ tag ++ attrsBefore ++ " " ++ cmd ++ "=\"" ++ RN.escapeHtml v ++ "\"" ++ attrsAfter ++ ">" ++
    RN.escapeHtml w ++ "</" ++ tag ++ ">" ++ ctxPost

/-- **(3)** the token skeleton (kinds, tag names, attribute names, has-value flags) of the emitted element
    `<tag attrsBefore cmd="escapeHtml v" attrsAfter>escapeHtml w</tag>` in the context `ctxPre … ctxPost` does not
    depend on `v` and `w`. Hypothesis `holesOk` (decidable; `holesOk_iff`): up to the opening quote of `cmd`'s value
    the scanner is in a double-quoted attribute value; the closing quote, `attrsAfter` and `>` bring it back
    between tokens, outside raw-text elements (`tag` is not `script`/`style`/…). -/
theorem element_skeleton_invariant (scfg : HS.Cfg) (ctxPre tag attrsBefore cmd attrsAfter ctxPost : String)
    (hctx : holesOk scfg (ctxPre ++ "<" ++ tag ++ attrsBefore ++ " " ++ cmd ++ "=\"") ("\"" ++ attrsAfter ++ ">") = true)
    (v v' w w' : String) (hww : w = "" ↔ w' = "") :
    skeleton scfg (elemDoc ctxPre tag attrsBefore cmd v attrsAfter w ctxPost).toList =
      skeleton scfg (elemDoc ctxPre tag attrsBefore cmd v' attrsAfter w' ctxPost).toList := by
  obtain ⟨s0, s1, l0, hA, hm0, hst, hlast, hB, hm1, hraw⟩ := (holesOk_iff scfg _ _).mp hctx
  have e : ∀ x y : String, elemDoc ctxPre tag attrsBefore cmd x attrsAfter y ctxPost =
      (ctxPre ++ "<" ++ tag ++ attrsBefore ++ " " ++ cmd ++ "=\"") ++ RN.escapeHtml x ++ ("\"" ++ attrsAfter ++ ">") ++
        RN.escapeHtml y ++ ("</" ++ tag ++ ">" ++ ctxPost) := by
    intro x y; simp only [elemDoc, String.append_assoc]
  rw [e, e]
  exact two_hole_skeleton_invariant scfg _ _ _ s0 s1 l0 hA hm0 hst hlast hB hm1 hraw v v' w w' hww

/-! ### the sequence of tags and attribute names (no restriction on the inserted strings)

`tagSkeleton` drops the text tokens from the skeleton: what remains are the tags (name, attribute names in order,
has-value flags), comments and CDATA sections in order, or the scan error. An empty and a non-empty inserted text differ
in the presence of one text token, and in nothing else (`HS.init_text_insert_tags`, Proofs/ScanFrame.lean). -/

/-- the skeleton without its text tokens -/
def tagSkeleton (scfg : HS.Cfg) (doc : List Char) : Except HS.Err (List HS.Token) := HS.tagsOf (HS.scan scfg doc)

theorem tagSkeleton_of_skeleton {scfg : HS.Cfg} {d1 d2 : List Char} (h : skeleton scfg d1 = skeleton scfg d2) :
    tagSkeleton scfg d1 = tagSkeleton scfg d2 := HS.tagsOf_congr h

/-- one text hole directly after a tag: the tags do not depend on the value at all -/
theorem text_hole_tags_invariant (scfg : HS.Cfg) (A P : String) (s1 : HS.S)
    (hA : A.toList.foldlM (HS.step scfg) HS.initS = .ok s1) (hm1 : s1.mode = .init)
    (hraw : HS.rawTagOf scfg s1.toks = none) (w : String) :
    tagSkeleton scfg (A ++ RN.escapeHtml w ++ P).toList = tagSkeleton scfg (A ++ P).toList := by
  by_cases hw : w = ""
  · rw [hw]; simp
  · have hne : (RN.escapeHtml w).toList ≠ [] := by
      intro h
      exact hw ((RN.Tie.escapeHtml_eq_empty_iff w).mp (String.toList_inj.mp (h.trans String.toList_empty.symm)))
    have hlt : '<' ∉ (RN.escapeHtml w).toList := fun h => (RN.Tie.escapeHtml_safe w _ h).1 rfl
    unfold tagSkeleton
    simp only [String.toList_append, HS.scan_eq_runFrom, List.append_assoc]
    rw [HS.runFrom_append scfg _ _ _ _ hA, HS.runFrom_append scfg _ _ _ _ hA]
    exact HS.init_text_insert_tags scfg s1 hm1 hraw _ hne hlt _

/-- attribute hole and text hole: the sequence of tags and attribute names of
    `A ++ escapeHtml v ++ B ++ escapeHtml w ++ P` is the same for ALL `v`, `w` -/
theorem two_hole_tags_invariant (scfg : HS.Cfg) (A B P : String) (s0 s1 : HS.S) (l0 : HS.TagL)
    (hA : A.toList.foldlM (HS.step scfg) HS.initS = .ok s0) (hm0 : s0.mode = .tag l0) (hst : l0.st = .attrValue)
    (hlast : l0.attrValue.getLast? = some '"')
    (hB : B.toList.foldlM (HS.step scfg) s0 = .ok s1) (hm1 : s1.mode = .init) (hraw : HS.rawTagOf scfg s1.toks = none)
    (v w : String) :
    tagSkeleton scfg (A ++ RN.escapeHtml v ++ B ++ RN.escapeHtml w ++ P).toList = tagSkeleton scfg (A ++ B ++ P).toList := by
  have hAB : (A ++ B).toList.foldlM (HS.step scfg) HS.initS = .ok s1 := by
    rw [String.toList_append, HS.foldlM_step_append, hA]; exact hB
  have e1 : A ++ RN.escapeHtml v ++ B ++ RN.escapeHtml w ++ P = A ++ RN.escapeHtml v ++ (B ++ RN.escapeHtml w ++ P) := by
    simp only [String.append_assoc]
  have e2 : A ++ (B ++ RN.escapeHtml w ++ P) = (A ++ B) ++ RN.escapeHtml w ++ P := by simp only [String.append_assoc]
  rw [e1, tagSkeleton_of_skeleton (attr_hole_skeleton_invariant scfg A _ s0 l0 hA hm0 hst hlast v), e2]
  exact text_hole_tags_invariant scfg (A ++ B) P s1 hAB hm1 hraw w

/-- **(3), the clause of the property**: the sequence of tags and attribute names of the emitted element
    `<tag attrsBefore cmd="escapeHtml v" attrsAfter>escapeHtml w</tag>` in its context is the same whatever the
    inserted strings `v`, `w` contain — it is that of the element with both strings empty. -/
theorem element_tags_invariant (scfg : HS.Cfg) (ctxPre tag attrsBefore cmd attrsAfter ctxPost : String)
    (hctx : holesOk scfg (ctxPre ++ "<" ++ tag ++ attrsBefore ++ " " ++ cmd ++ "=\"") ("\"" ++ attrsAfter ++ ">") = true)
    (v w : String) :
    tagSkeleton scfg (elemDoc ctxPre tag attrsBefore cmd v attrsAfter w ctxPost).toList =
      tagSkeleton scfg (elemDoc ctxPre tag attrsBefore cmd "" attrsAfter "" ctxPost).toList := by
  obtain ⟨s0, s1, l0, hA, hm0, hst, hlast, hB, hm1, hraw⟩ := (holesOk_iff scfg _ _).mp hctx
  have e : ∀ x y : String, elemDoc ctxPre tag attrsBefore cmd x attrsAfter y ctxPost =
      (ctxPre ++ "<" ++ tag ++ attrsBefore ++ " " ++ cmd ++ "=\"") ++ RN.escapeHtml x ++ ("\"" ++ attrsAfter ++ ">") ++
        RN.escapeHtml y ++ ("</" ++ tag ++ ">" ++ ctxPost) := by
    intro x y; simp only [elemDoc, String.append_assoc]
  rw [e, e, two_hole_tags_invariant scfg _ _ _ s0 s1 l0 hA hm0 hst hlast hB hm1 hraw v w,
    two_hole_tags_invariant scfg _ _ _ s0 s1 l0 hA hm0 hst hlast hB hm1 hraw "" ""]

/-- the joined output of a printed `text` element with the dynamic attribute `a` singled out -/
theorem rendered_element_text (cfg : RN.Cfg) (env : Env Sc) (f depth : Nat) (nc : NC) (node : Node) (sc : Sc)
    (pre post : List CAttr) (a b : CAttr) (cmd v w e : String) (lga lgb : List String)
    (hf : (refBody cfg env f depth nc node sc).st ≠ .fuel) (hA : AttrsOk cfg env f depth nc node sc)
    (has : node.d.attrs = pre ++ a :: post) (hka : classify cfg a = .dyn cmd)
    (ho : optFold cfg node.d.attrs (initOpt cfg node.d 3) = (false, .textLike b true))
    (hnf : noFrag cfg node.d = true) (hend : node.endVal = some e)
    (hEa : env.evalStr a sc = (.ok v, lga)) (hEb : env.evalStr b sc = (.ok w, lgb)) :
    String.join (refBody cfg env f depth nc node sc).out =
      "<" ++ node.d.tagName ++ String.join (pre.map (attrText cfg env node.d sc)) ++ " " ++ cmd ++ "=\"" ++
        RN.escapeHtml v ++ "\"" ++ String.join (post.map (attrText cfg env node.d sc)) ++ ">" ++ RN.escapeHtml w ++ e := by
  rw [body_textLike cfg env f depth nc node sc b true w lgb hf hA (by rw [ho]) hEb,
    startChunk_nofrag cfg env _ node.d sc hnf, ho, hend,
    startTag_split cfg env node.d sc pre post a cmd v lga has hka hEa]
  simp [endChunks, String.join_cons, String.append_assoc]

/-- **(3), end to end.** Two renderings of the same element (different environments and scopes: the dynamic attribute
    `a` evaluates to `v` resp. `v'`, the `text` attribute `b` to `w` resp. `w'`, the other attributes contribute the
    same text), joined and placed in the same context, have the same token skeleton. -/
theorem rendered_element_skeleton_invariant (cfg : RN.Cfg) (env env' : Env Sc) (f f' depth depth' : Nat) (nc nc' : NC)
    (node : Node) (sc sc' : Sc)
    (pre post : List CAttr) (a b : CAttr) (cmd v v' w w' e : String) (lga lgb lga' lgb' : List String)
    (hf : (refBody cfg env f depth nc node sc).st ≠ .fuel) (hA : AttrsOk cfg env f depth nc node sc)
    (hf' : (refBody cfg env' f' depth' nc' node sc').st ≠ .fuel) (hA' : AttrsOk cfg env' f' depth' nc' node sc')
    (has : node.d.attrs = pre ++ a :: post) (hka : classify cfg a = .dyn cmd)
    (ho : optFold cfg node.d.attrs (initOpt cfg node.d 3) = (false, .textLike b true))
    (hnf : noFrag cfg node.d = true) (hend : node.endVal = some e)
    (hEa : env.evalStr a sc = (.ok v, lga)) (hEb : env.evalStr b sc = (.ok w, lgb))
    (hEa' : env'.evalStr a sc' = (.ok v', lga')) (hEb' : env'.evalStr b sc' = (.ok w', lgb'))
    (hpre : ∀ x ∈ pre, attrText cfg env' node.d sc' x = attrText cfg env node.d sc x)
    (hpost : ∀ x ∈ post, attrText cfg env' node.d sc' x = attrText cfg env node.d sc x)
    (scfg : HS.Cfg) (ctxPre ctxPost : String)
    (hctx : holesOk scfg
      (ctxPre ++ "<" ++ node.d.tagName ++ String.join (pre.map (attrText cfg env node.d sc)) ++ " " ++ cmd ++ "=\"")
      ("\"" ++ String.join (post.map (attrText cfg env node.d sc)) ++ ">") = true)
    (hww : w = "" ↔ w' = "") :
    skeleton scfg (ctxPre ++ String.join (refBody cfg env f depth nc node sc).out ++ ctxPost).toList =
      skeleton scfg (ctxPre ++ String.join (refBody cfg env' f' depth' nc' node sc').out ++ ctxPost).toList := by
  rw [rendered_element_text cfg env f depth nc node sc pre post a b cmd v w e lga lgb hf hA has hka ho hnf hend hEa hEb,
    rendered_element_text cfg env' f' depth' nc' node sc' pre post a b cmd v' w' e lga' lgb' hf' hA' has hka ho hnf hend
      hEa' hEb',
    List.map_congr_left hpre, List.map_congr_left hpost]
  have e1 : ∀ x y : String,
      ctxPre ++ ("<" ++ node.d.tagName ++ String.join (pre.map (attrText cfg env node.d sc)) ++ " " ++ cmd ++ "=\"" ++
        RN.escapeHtml x ++ "\"" ++ String.join (post.map (attrText cfg env node.d sc)) ++ ">" ++ RN.escapeHtml y ++ e) ++
        ctxPost =
      (ctxPre ++ "<" ++ node.d.tagName ++ String.join (pre.map (attrText cfg env node.d sc)) ++ " " ++ cmd ++ "=\"") ++
        RN.escapeHtml x ++ ("\"" ++ String.join (post.map (attrText cfg env node.d sc)) ++ ">") ++ RN.escapeHtml y ++
        (e ++ ctxPost) := by
    intro x y; simp only [String.append_assoc]
  obtain ⟨s0, s1, l0, hSA, hm0, hst, hlast, hSB, hm1, hraw⟩ := (holesOk_iff scfg _ _).mp hctx
  rw [e1, e1]
  exact two_hole_skeleton_invariant scfg _ _ _ s0 s1 l0 hSA hm0 hst hlast hSB hm1 hraw v v' w w' hww

/-- **(3), end to end, tags and attribute names**: as `rendered_element_skeleton_invariant`, for ALL values `v v' w w'`
    (empty or not): the two renderings have the same sequence of tags and attribute names. -/
theorem rendered_element_tags_invariant (cfg : RN.Cfg) (env env' : Env Sc) (f f' depth depth' : Nat) (nc nc' : NC)
    (node : Node) (sc sc' : Sc)
    (pre post : List CAttr) (a b : CAttr) (cmd v v' w w' e : String) (lga lgb lga' lgb' : List String)
    (hf : (refBody cfg env f depth nc node sc).st ≠ .fuel) (hA : AttrsOk cfg env f depth nc node sc)
    (hf' : (refBody cfg env' f' depth' nc' node sc').st ≠ .fuel) (hA' : AttrsOk cfg env' f' depth' nc' node sc')
    (has : node.d.attrs = pre ++ a :: post) (hka : classify cfg a = .dyn cmd)
    (ho : optFold cfg node.d.attrs (initOpt cfg node.d 3) = (false, .textLike b true))
    (hnf : noFrag cfg node.d = true) (hend : node.endVal = some e)
    (hEa : env.evalStr a sc = (.ok v, lga)) (hEb : env.evalStr b sc = (.ok w, lgb))
    (hEa' : env'.evalStr a sc' = (.ok v', lga')) (hEb' : env'.evalStr b sc' = (.ok w', lgb'))
    (hpre : ∀ x ∈ pre, attrText cfg env' node.d sc' x = attrText cfg env node.d sc x)
    (hpost : ∀ x ∈ post, attrText cfg env' node.d sc' x = attrText cfg env node.d sc x)
    (scfg : HS.Cfg) (ctxPre ctxPost : String)
    (hctx : holesOk scfg
      (ctxPre ++ "<" ++ node.d.tagName ++ String.join (pre.map (attrText cfg env node.d sc)) ++ " " ++ cmd ++ "=\"")
      ("\"" ++ String.join (post.map (attrText cfg env node.d sc)) ++ ">") = true) :
    tagSkeleton scfg (ctxPre ++ String.join (refBody cfg env f depth nc node sc).out ++ ctxPost).toList =
      tagSkeleton scfg (ctxPre ++ String.join (refBody cfg env' f' depth' nc' node sc').out ++ ctxPost).toList := by
  rw [rendered_element_text cfg env f depth nc node sc pre post a b cmd v w e lga lgb hf hA has hka ho hnf hend hEa hEb,
    rendered_element_text cfg env' f' depth' nc' node sc' pre post a b cmd v' w' e lga' lgb' hf' hA' has hka ho hnf hend
      hEa' hEb',
    List.map_congr_left hpre, List.map_congr_left hpost]
  have e1 : ∀ x y : String,
      ctxPre ++ ("<" ++ node.d.tagName ++ String.join (pre.map (attrText cfg env node.d sc)) ++ " " ++ cmd ++ "=\"" ++
        RN.escapeHtml x ++ "\"" ++ String.join (post.map (attrText cfg env node.d sc)) ++ ">" ++ RN.escapeHtml y ++ e) ++
        ctxPost =
      (ctxPre ++ "<" ++ node.d.tagName ++ String.join (pre.map (attrText cfg env node.d sc)) ++ " " ++ cmd ++ "=\"") ++
        RN.escapeHtml x ++ ("\"" ++ String.join (post.map (attrText cfg env node.d sc)) ++ ">") ++ RN.escapeHtml y ++
        (e ++ ctxPost) := by
    intro x y; simp only [String.append_assoc]
  obtain ⟨s0, s1, l0, hSA, hm0, hst, hlast, hSB, hm1, hraw⟩ := (holesOk_iff scfg _ _).mp hctx
  rw [e1, e1, two_hole_tags_invariant scfg _ _ _ s0 s1 l0 hSA hm0 hst hlast hSB hm1 hraw v w,
    two_hole_tags_invariant scfg _ _ _ s0 s1 l0 hSA hm0 hst hlast hSB hm1 hraw v' w']

/-! ## 4. examples (hostile values) -/

/-- scope binding both the attribute value and the text to the hostile string / to harmless strings -/
def scH : TSc := [("t", hostile), ("w", hostile)]
def scB : TSc := [("t", "a title"), ("w", "x")]

/-- `<p :title="t" :text="w" id="x">old</p>` (attributes in `SortedAttr` order) and the same with `:raw` -/
def tNode : Node := el 1 "p" [at_ ":title" "t", at_ ":text" "w", at_ "id" "\"x\""] [txt 2 "old"]
def rNode : Node := el 1 "p" [at_ ":title" "t", at_ ":raw" "w", at_ "id" "\"x\""] [txt 2 "old"]

/-- what is rendered: both insertions arrive escaped; with `raw` the content is verbatim (and does change the markup) -/
example :
    (refBody {} toyEnv 20 0 emptyNc tNode scH).out =
      ["<p title=\"&#34;&gt;&lt;script&gt;&amp;amp;&#39;\" id=\"x\">", "&#34;&gt;&lt;script&gt;&amp;amp;&#39;", "</p>"] ∧
    (refBody {} toyEnv 20 0 emptyNc rNode scH).out =
      ["<p title=\"&#34;&gt;&lt;script&gt;&amp;amp;&#39;\" id=\"x\">", "\"><script>&amp;'", "</p>"] ∧
    (refBody {} toyEnv 20 0 emptyNc tNode scB).out = ["<p title=\"a title\" id=\"x\">", "x", "</p>"] := by
  decide +kernel

/-- the hypotheses of `text_emits_escaped` / `raw_emits_verbatim` / `dyn_attr_emits_escaped` / `only_raw_is_unescaped`
    hold on these inputs -/
theorem tNode_hyps :
    (refBody {} toyEnv 20 0 emptyNc tNode scH).st ≠ .fuel ∧ AttrsOk {} toyEnv 20 0 emptyNc tNode scH ∧
    tNode.d.attrs = [at_ ":title" "t"] ++ at_ ":text" "w" :: [at_ "id" "\"x\""] ∧
    classify {} (at_ ":text" "w") = .text ∧
    (∀ x ∈ [at_ ":title" "t"], leavesUnset {} x = true) ∧ (∀ x ∈ [at_ "id" "\"x\""], keepsText {} x = true) ∧
    noFrag {} tNode.d = true ∧
    toyEnv.evalStr (at_ ":text" "w") scH = (.ok hostile, ["eval w"]) ∧
    tNode.d.attrs = [] ++ at_ ":title" "t" :: [at_ ":text" "w", at_ "id" "\"x\""] ∧
    classify {} (at_ ":title" "t") = .dyn "title" ∧
    toyEnv.evalStr (at_ ":title" "t") scH = (.ok hostile, ["eval t"]) ∧
    noPrintOf {} tNode.d = false ∧
    (refBody {} toyEnv 20 0 emptyNc tNode scH).st = .ok := by
  unfold AttrsOk; decide +kernel

theorem rNode_hyps :
    (refBody {} toyEnv 20 0 emptyNc rNode scH).st ≠ .fuel ∧ AttrsOk {} toyEnv 20 0 emptyNc rNode scH ∧
    rNode.d.attrs = [at_ ":title" "t"] ++ at_ ":raw" "w" :: [at_ "id" "\"x\""] ∧
    classify {} (at_ ":raw" "w") = .raw ∧
    noFrag {} rNode.d = true ∧
    toyEnv.evalStr (at_ ":raw" "w") scH = (.ok hostile, ["eval w"]) := by
  unfold AttrsOk; decide +kernel

example : (refBody {} toyEnv 20 0 emptyNc tNode scH).out[1]? = some (RN.escapeHtml hostile) := by
  obtain ⟨h1, h2, h3, h4, h5, h6, h7, h8, _⟩ := tNode_hyps
  rw [text_emits_escaped {} toyEnv 20 0 emptyNc tNode scH _ _ _ _ _ h1 h2 h3 h4 h5 h6 h7 h8]
  rfl

example : (refBody {} toyEnv 20 0 emptyNc rNode scH).out[1]? = some hostile := by
  obtain ⟨h1, h2, h3, h4, h7, h8⟩ := rNode_hyps
  obtain ⟨_, _, _, _, h5, h6, _⟩ := tNode_hyps
  rw [raw_emits_verbatim {} toyEnv 20 0 emptyNc rNode scH _ _ _ _ _ h1 h2 h3 h4 h5 h6 h7 h8]
  rfl

example : ∃ rest, (refBody {} toyEnv 20 0 emptyNc tNode scH).out =
    ("" ++ ("<" ++ "p" ++ "" ++ " " ++ "title" ++ "=\"" ++ RN.escapeHtml hostile ++ "\"" ++
      String.join ([at_ ":text" "w", at_ "id" "\"x\""].map (attrText {} toyEnv tNode.d scH)) ++ ">") ++ "") :: rest := by
  obtain ⟨h1, h2, _, _, _, _, _, _, h9, h10, h11, h12, _⟩ := tNode_hyps
  obtain ⟨_, rest, hr⟩ := dyn_attr_emits_escaped {} toyEnv 20 0 emptyNc tNode scH _ _ _ _ _ _ h1 h2 h9 h10 h11 h12
  refine ⟨rest, ?_⟩
  rw [hr]
  have : replText {} toyEnv 20 0 emptyNc tNode scH = "" ∧
      String.join (tNode.d.attrs.map (insTextOf {} toyEnv (fragOf {} toyEnv 20 0 emptyNc) scH)) = "" ∧
      tNode.d.tagName = "p" := by
    unfold replText; decide +kernel
  rw [this.1, this.2.1, this.2.2]
  rfl

/-- the emitted table on the example: escaped for `:title` and `:text`, verbatim for `:raw` -/
example : emitted {} toyEnv scH (at_ ":title" "t") = some "&#34;&gt;&lt;script&gt;&amp;amp;&#39;" ∧
    emitted {} toyEnv scH (at_ ":text" "w") = some "&#34;&gt;&lt;script&gt;&amp;amp;&#39;" ∧
    emitted {} toyEnv scH (at_ ":raw" "w") = some hostile ∧
    elemForm {} tNode.d tNode.endVal (emitted {} toyEnv scH) "" "" [] =
      ["<p title=\"&#34;&gt;&lt;script&gt;&amp;amp;&#39;\" id=\"x\">", "&#34;&gt;&lt;script&gt;&amp;amp;&#39;", "</p>"] := by
  decide +kernel

/-- the scanner reads the hostile rendering as one `p` tag with attributes `title`, `id`, one text token, `</p>` —
    exactly as the benign rendering; in the `raw` rendering the value closes the attribute-less `p` tag's text, opens a
    `script` element and swallows the closing `</p>` (4 tokens: `p`, text, `script`, raw text) -/
example :
    (C02.view (HS.scan C02.cfg0 (String.join (refBody {} toyEnv 20 0 emptyNc tNode scH).out).toList)).map
        (fun t => (t.1, t.2.2.map (·.1))) =
      [(.tag, ["title".toList, "id".toList]), (.text, []), (.tag, [])] ∧
    (C02.view (HS.scan C02.cfg0 (String.join (refBody {} toyEnv 20 0 emptyNc tNode scB).out).toList)).map
        (fun t => (t.1, t.2.2.map (·.1))) =
      [(.tag, ["title".toList, "id".toList]), (.text, []), (.tag, [])] ∧
    (C02.view (HS.scan C02.cfg0 (String.join (refBody {} toyEnv 20 0 emptyNc rNode scH).out).toList)).length = 4 := by
  decide +kernel

/-- `element_skeleton_invariant` on a concrete context -/
example : C02.skeleton C02.cfg0 (elemDoc "<div>" "p" " id=x" "title" hostile " class=\"c\"" hostile "</div>").toList =
    C02.skeleton C02.cfg0 (elemDoc "<div>" "p" " id=x" "title" "a title" " class=\"c\"" "x" "</div>").toList :=
  element_skeleton_invariant C02.cfg0 _ _ _ _ _ _ (by decide +kernel) _ _ _ _ (by decide +kernel)

/-- tags, with names and attribute names, of a `tagSkeleton` (projection with decidable equality) -/
def tagNames (r : Except HS.Err (List HS.Token)) : List (List Char × List (List Char)) :=
  match r with
  | .ok ts => ts.map fun t => match t.tag with | some g => (g.name, g.attrs.map (·.name)) | none => ([], [])
  | .error _ => []

/-- `element_tags_invariant` on a concrete context: hostile values and empty values give the same tags, namely
    `div`, `p` with `id title class`, `/p`, `/div`; the full skeletons differ in the one text token (5 vs 4 tokens),
    which is why `element_skeleton_invariant` has the hypothesis `w = "" ↔ w' = ""` -/
example :
    tagSkeleton C02.cfg0 (elemDoc "<div>" "p" " id=x" "title" hostile " class=\"c\"" hostile "</div>").toList =
      tagSkeleton C02.cfg0 (elemDoc "<div>" "p" " id=x" "title" "" " class=\"c\"" "" "</div>").toList ∧
    tagNames (tagSkeleton C02.cfg0 (elemDoc "<div>" "p" " id=x" "title" hostile " class=\"c\"" hostile "</div>").toList) =
      [("div".toList, []), ("p".toList, ["id".toList, "title".toList, "class".toList]), ("/p".toList, []),
       ("/div".toList, [])] ∧
    (C02.view (HS.scan C02.cfg0 (elemDoc "<div>" "p" " id=x" "title" hostile " class=\"c\"" hostile "</div>").toList)).length = 5 ∧
    (C02.view (HS.scan C02.cfg0 (elemDoc "<div>" "p" " id=x" "title" "" " class=\"c\"" "" "</div>").toList)).length = 4 :=
  ⟨element_tags_invariant C02.cfg0 _ _ _ _ _ _ (by decide +kernel) _ _, by decide +kernel, by decide +kernel,
   by decide +kernel⟩

/-- `rendered_element_skeleton_invariant` on the two renderings of `tNode` inside `<div>…</div>` -/
example :
    C02.skeleton C02.cfg0 ("<div>" ++ String.join (refBody {} toyEnv 20 0 emptyNc tNode scH).out ++ "</div>").toList =
    C02.skeleton C02.cfg0 ("<div>" ++ String.join (refBody {} toyEnv 20 0 emptyNc tNode scB).out ++ "</div>").toList := by
  obtain ⟨h1, h2, _, _, _, _, h7, h8, h9, h10, h11, _, _⟩ := tNode_hyps
  have hB : (refBody {} toyEnv 20 0 emptyNc tNode scB).st ≠ .fuel ∧ AttrsOk {} toyEnv 20 0 emptyNc tNode scB ∧
      optFold {} tNode.d.attrs (initOpt {} tNode.d 3) = (false, .textLike (at_ ":text" "w") true) ∧
      tNode.endVal = some "</p>" ∧
      toyEnv.evalStr (at_ ":title" "t") scB = (.ok "a title", ["eval t"]) ∧
      toyEnv.evalStr (at_ ":text" "w") scB = (.ok "x", ["eval w"]) ∧
      (∀ x ∈ ([] : List CAttr), attrText {} toyEnv tNode.d scB x = attrText {} toyEnv tNode.d scH x) ∧
      (∀ x ∈ [at_ ":text" "w", at_ "id" "\"x\""], attrText {} toyEnv tNode.d scB x = attrText {} toyEnv tNode.d scH x) ∧
      holesOk C02.cfg0
        ("<div>" ++ "<" ++ tNode.d.tagName ++ String.join (([] : List CAttr).map (attrText {} toyEnv tNode.d scH)) ++ " " ++
          "title" ++ "=\"")
        ("\"" ++ String.join ([at_ ":text" "w", at_ "id" "\"x\""].map (attrText {} toyEnv tNode.d scH)) ++ ">") = true ∧
      (hostile = "" ↔ "x" = "") := by
    unfold AttrsOk; decide +kernel
  obtain ⟨b1, b2, b3, b4, b5, b6, b7, b8, b9, b10⟩ := hB
  exact rendered_element_skeleton_invariant {} toyEnv toyEnv 20 20 0 0 emptyNc emptyNc tNode scH scB
    [] [at_ ":text" "w", at_ "id" "\"x\""] (at_ ":title" "t") (at_ ":text" "w") "title" hostile "a title" hostile "x" "</p>"
    _ _ _ _ h1 h2 b1 b2 h9 h10 b3 h7 b4 h11 h8 b5 b6 b7 b8 C02.cfg0 "<div>" "</div>" b9 b10

/-- `rendered_element_tags_invariant`: the hostile rendering and the rendering with both values EMPTY have the same
    tags and attribute names -/
example :
    tagSkeleton C02.cfg0 ("<div>" ++ String.join (refBody {} toyEnv 20 0 emptyNc tNode scH).out ++ "</div>").toList =
    tagSkeleton C02.cfg0 ("<div>" ++ String.join (refBody {} toyEnv 20 0 emptyNc tNode [("t", ""), ("w", "")]).out ++
      "</div>").toList := by
  obtain ⟨h1, h2, _, _, _, _, h7, h8, h9, h10, h11, _, _⟩ := tNode_hyps
  have hB : (refBody {} toyEnv 20 0 emptyNc tNode [("t", ""), ("w", "")]).st ≠ .fuel ∧
      AttrsOk {} toyEnv 20 0 emptyNc tNode [("t", ""), ("w", "")] ∧
      optFold {} tNode.d.attrs (initOpt {} tNode.d 3) = (false, .textLike (at_ ":text" "w") true) ∧
      tNode.endVal = some "</p>" ∧
      toyEnv.evalStr (at_ ":title" "t") [("t", ""), ("w", "")] = (.ok "", ["eval t"]) ∧
      toyEnv.evalStr (at_ ":text" "w") [("t", ""), ("w", "")] = (.ok "", ["eval w"]) ∧
      (∀ x ∈ ([] : List CAttr), attrText {} toyEnv tNode.d [("t", ""), ("w", "")] x = attrText {} toyEnv tNode.d scH x) ∧
      (∀ x ∈ [at_ ":text" "w", at_ "id" "\"x\""],
        attrText {} toyEnv tNode.d [("t", ""), ("w", "")] x = attrText {} toyEnv tNode.d scH x) ∧
      holesOk C02.cfg0
        ("<div>" ++ "<" ++ tNode.d.tagName ++ String.join (([] : List CAttr).map (attrText {} toyEnv tNode.d scH)) ++ " " ++
          "title" ++ "=\"")
        ("\"" ++ String.join ([at_ ":text" "w", at_ "id" "\"x\""].map (attrText {} toyEnv tNode.d scH)) ++ ">") = true := by
    unfold AttrsOk; decide +kernel
  obtain ⟨b1, b2, b3, b4, b5, b6, b7, b8, b9⟩ := hB
  exact rendered_element_tags_invariant {} toyEnv toyEnv 20 20 0 0 emptyNc emptyNc tNode scH [("t", ""), ("w", "")]
    [] [at_ ":text" "w", at_ "id" "\"x\""] (at_ ":title" "t") (at_ ":text" "w") "title" hostile "" hostile "" "</p>"
    _ _ _ _ h1 h2 b1 b2 h9 h10 b3 h7 b4 h11 h8 b5 b6 b7 b8 C02.cfg0 "<div>" "</div>" b9

end C02.Render
