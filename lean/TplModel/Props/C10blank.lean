import TplModel.Props.C10loader
import TplModel.Proofs.BlankBlock
/-! # C10 — blocks without an expression, and comment-only blocks, are rejected at load

OBLIGATIONS: C10B.parseCode_blank_rejects, C10B.parseCode_hidden_rejects, C10B.parseCode_comment_only_rejects, C10B.parseCode_line_comment_only_rejects, C10B.parseCode_line_comment_nl_rejects, C10B.block_reached, C10B.rejected_block_not_compiled, C10B.blank_block_not_compiled, C10B.hidden_block_not_compiled, C10B.addFile_rejects_rejected_block, C10B.addFile_rejects_blank_block, C10B.addFile_rejects_blank_block_attr, C10B.addFile_not_ok_blank_block

Models (unchanged): `EL.lex` / `EL.parseCode` (`exp/parser.go` `ParseCode`, `GoLexer.g4`), `CS.scan`
(`html/scan_code.go`), `EN.compileAttrS` / `EN.addFile` (`html/scan_html.go` `compileAttr`, `html/manager.go` `Add`).
Helper lemmas: `TplModel/Proofs/BlankBlock.lean`.

Property C10: "A `${...}` block or directive value is either interpreted in full or rejected when the template is
loaded … never silently truncated or rendered as empty text."  Here: a block that holds NO expression —

* empty, or only white space that the lexer skips (`EL.isWs`: space, tab, CR, LF — exactly the characters of the
  `WS` and `TERMINATOR` rules, `lexDefault`), `parseCode_blank_rejects`;
* more generally only hidden text (`EL.Blank`: white space, closed `/* … */` comments, `// …` comments),
  `parseCode_hidden_rejects`, with the two shapes of the task as corollaries
  (`parseCode_comment_only_rejects`, `parseCode_line_comment_only_rejects`; line comments ARE in the lexer model) —

is rejected by `ParseCode`; a directive attribute whose value contains such a block does not compile
(`blank_block_not_compiled`), and a file that contains such an attribute is a load error
(`addFile_rejects_blank_block`).

Side conditions of part 2 (`v = q :: (pre ++ '$' :: '{' :: (s ++ '}' :: post))`; the value as `compileAttr` sees it
INCLUDES its quotes):
* `q` is a quote (`CS.isQuote q`), i.e. the value is quoted — an unquoted directive value is rejected anyway
  (`CS.scan` fails on a first character that is not a quote);
* `pre` satisfies `CS.WfPre q pre`: literal characters other than `q`, a `$` only when a character other than `{`
  follows, and complete blocks `${code}` whose code has no `{`, `}`, `"`, `'`, `` ` ``.  Decidable criteria:
  `CS.wfPreB q .lit pre = true` (equivalent to `WfPre q pre`: `CS.wfPre_iff_wfPreB`) and the simpler `CS.plainLit q pre = true` (no `$`, no `q`);
* NO condition on `post` (it normally ends with the closing quote; whatever it is, the block's code-value token has been
  emitted when `post` is reached, so either the scan fails later or the block is compiled — and rejected);
* `s` is blank (or, `hidden_block_not_compiled`: hidden text without string quotes and braces; or,
  `rejected_block_not_compiled`: ANY text without string quotes and braces that `ParseCode` rejects).

Agreement with /repo (checked by running `exp.ParseCode` and `CodeScanner.GetAllTokens` of HEAD): `""`, `" "`,
`"\t\n"`, `"/* x */"`, `"// abc"`, `"/**/"` are rejected by `ParseCode`; `"a${}b"`, `"${ }"`, `"/u/${\t\n}"`,
`"${x} and ${ /* c */ } z"` are rejected by the code scanner.  No disagreement found.  (A block holding only a
non-ASCII blank such as NBSP is rejected by Go with a token recognition error; the model answers `.unsupported` for it
— outside the modelled alphabet, not a blank in the sense of this file.) -/
namespace C10B
open EN
open RN (CAttr Part)

/-! ## 1. `ParseCode` on texts without an expression -/

/-- the white space the lexer skips is exactly space, tab, CR, LF -/
theorem isWs_iff (c : Char) : EL.isWs c = true ↔ c = ' ' ∨ c = '\t' ∨ c = '\r' ∨ c = '\n' := by
  simp [EL.isWs, or_assoc]

theorem blank_of_ws_append : ∀ (ws rest : List Char), (∀ c ∈ ws, EL.isWs c = true) → EL.Blank rest → EL.Blank (ws ++ rest)
  | [], _, _, h => h
  | c :: ws, rest, hw, h =>
    .ws c (ws ++ rest) (hw c List.mem_cons_self) (blank_of_ws_append ws rest (fun d hd => hw d (List.mem_cons_of_mem _ hd)) h)

theorem blank_of_ws (ws : List Char) (h : ∀ c ∈ ws, EL.isWs c = true) : EL.Blank ws := by
  simpa using blank_of_ws_append ws [] h .nil

/-- a body that does not contain `*/` -/
theorem commentEnd_none_of_not_infix : ∀ (body : List Char), ¬ ['*', '/'] <:+: body → EL.commentEnd body = none
  | [], _ => rfl
  | c :: body, h => by
    have hside : ∀ (tail : List Char), c = '*' → body = '/' :: tail → False := by
      intro tail h1 h2
      apply h
      rw [h1, h2]
      exact ⟨[], tail, rfl⟩
    rw [EL.commentEnd.eq_2 _ _ hside, commentEnd_none_of_not_infix body]
    · rfl
    · intro hi
      exact h (hi.trans (List.suffix_cons c body).isInfix)

/-- **parseCode_hidden_rejects** (general form).  A text that consists only of what the lexer hides — white space,
    closed `/* */` comments, `//` comments, in any number and order (`EL.Blank`) — is rejected by `ParseCode`:
    its token list is empty (`EL.lex_blank`). -/
theorem parseCode_hidden_rejects (s : String) (h : EL.Blank s.toList) : EL.parseCode s = .reject :=
  EL.parseCode_blank s h

/-- **parseCode_blank_rejects.**  Every string that consists only of space, tab, CR, LF — including the empty
    string — is rejected by `ParseCode`. -/
theorem parseCode_blank_rejects (s : String) (h : ∀ c ∈ s.toList, EL.isWs c = true) : EL.parseCode s = .reject :=
  parseCode_hidden_rejects s (blank_of_ws _ h)

/-- **parseCode_comment_only_rejects.**  `ws /* body */ ws'` with `body` not containing `*/`. -/
theorem parseCode_comment_only_rejects (ws body ws' : String) (hws : ∀ c ∈ ws.toList, EL.isWs c = true)
    (hws' : ∀ c ∈ ws'.toList, EL.isWs c = true) (hbody : ¬ "*/".toList <:+: body.toList) :
    EL.parseCode (ws ++ "/*" ++ body ++ "*/" ++ ws') = .reject := by
  apply parseCode_hidden_rejects
  simp only [String.toList_append]
  have e1 : "/*".toList = ['/', '*'] := rfl
  have e2 : "*/".toList = ['*', '/'] := rfl
  rw [e2] at hbody
  rw [e1, e2]
  simp only [List.append_assoc, List.cons_append, List.nil_append]
  exact blank_of_ws_append _ _ hws (.block _ _ (commentEnd_none_of_not_infix _ hbody) (blank_of_ws _ hws'))

/-- **parseCode_line_comment_only_rejects.**  `ws // line` up to the end of the input (`line` without CR / LF). -/
theorem parseCode_line_comment_only_rejects (ws line : String) (hws : ∀ c ∈ ws.toList, EL.isWs c = true)
    (hline : ∀ c ∈ line.toList, EL.isNl c = false) : EL.parseCode (ws ++ "//" ++ line) = .reject := by
  apply parseCode_hidden_rejects
  simp only [String.toList_append]
  have e1 : "//".toList = ['/', '/'] := rfl
  rw [e1]
  simp only [List.append_assoc, List.cons_append, List.nil_append]
  exact blank_of_ws_append _ _ hws (.lineEnd _ hline)

/-- … and `ws // line NL ws'`: the line comment is closed by a CR / LF and only white space follows. -/
theorem parseCode_line_comment_nl_rejects (ws line ws' : String) (nl : Char) (hws : ∀ c ∈ ws.toList, EL.isWs c = true)
    (hline : ∀ c ∈ line.toList, EL.isNl c = false) (hnl : EL.isNl nl = true) (hws' : ∀ c ∈ ws'.toList, EL.isWs c = true) :
    EL.parseCode (ws ++ "//" ++ line ++ String.ofList [nl] ++ ws') = .reject := by
  apply parseCode_hidden_rejects
  simp only [String.toList_append, String.toList_ofList]
  have e1 : "//".toList = ['/', '/'] := rfl
  rw [e1]
  simp only [List.append_assoc, List.cons_append, List.nil_append]
  exact blank_of_ws_append _ _ hws (.lineNl _ nl _ hline hnl (blank_of_ws _ hws'))

/-! ### non-vacuity -/

example : EL.parseCode "" = .reject := parseCode_blank_rejects "" (by decide)
example : EL.parseCode " \t\r\n " = .reject := parseCode_blank_rejects _ (by decide)
example : EL.parseCode " /* no * / expression\n here */\t\n" = .reject :=
  parseCode_comment_only_rejects " " " no * / expression\n here " "\t\n" (by decide) (by decide) (by decide +kernel)
example : EL.parseCode "/**/" = .reject := parseCode_comment_only_rejects "" "" "" (by decide) (by decide) (by decide +kernel)
example : EL.parseCode "\t// nothing */ /* here" = .reject :=
  parseCode_line_comment_only_rejects "\t" " nothing */ /* here" (by decide) (by decide)
example : EL.parseCode " // c\r\n " = .reject :=
  parseCode_line_comment_nl_rejects " " " c" "\n " '\r' (by decide) (by decide) (by decide) (by decide)
/-- several comments in a row (general form) -/
example : EL.parseCode "/*a*/ //b\n/*c*/" = .reject :=
  parseCode_hidden_rejects _
    (EL.Blank.block ['a'] _ rfl (.ws ' ' _ rfl (.lineNl ['b'] '\n' _ (by decide) rfl (.block ['c'] [] rfl .nil))))
/-- the same facts by evaluation, and the contrast: one identifier after / before the hidden text is accepted -/
example : (EL.parseCode "").isReject = true ∧ (EL.parseCode " ").isReject = true ∧ (EL.parseCode "\t\n").isReject = true ∧
    (EL.parseCode "/* x */").isReject = true ∧ (EL.parseCode "// x").isReject = true ∧
    (EL.parseCode "/* x */ a").isAccept = true ∧ (EL.parseCode "a // x").isAccept = true := by decide +kernel

/-! ## 2. a directive attribute with such a block does not compile -/

/-- **block_reached.**  In a quoted value `q pre ${code} post`, after a well-formed prefix and for code without braces
    and string quotes, the code scanner either fails or `code` is one of the block texts that `compileAttr` hands to
    `ParseCode` — whatever `post` is. -/
theorem block_reached (start : HS.Pos) (q : Char) (pre code post : List Char) (hq : CS.isQuote q = true)
    (hp : CS.WfPre q pre) (hc : CS.SimpleCode code) :
    ¬ CS.Succ (CS.scan start (q :: (pre ++ '$' :: '{' :: (code ++ '}' :: post)))) ∨
      String.ofList code ∈ blockTexts (CS.scan start (q :: (pre ++ '$' :: '{' :: (code ++ '}' :: post)))) :=
  hasBlock_blockTexts (CS.block_reached start q pre code post hq hp hc)

/-- white space has no braces and no string quotes -/
theorem simpleCode_of_ws (s : List Char) (h : ∀ c ∈ s, EL.isWs c = true) : CS.SimpleCode s := by
  intro c hc
  have := (isWs_iff c).1 (h c hc)
  rcases this with rfl | rfl | rfl | rfl <;> decide

/-- **rejected_block_not_compiled** (general form).  A directive attribute whose value is `q pre ${code} post` with a
    well-formed prefix and a code text (without braces and string quotes) that `ParseCode` rejects does NOT compile:
    `compileAttr` never returns `ok`, on any expression table. -/
theorem rejected_block_not_compiled (cfg : Cfg) (a : HS.Attr) (q : Char) (pre code post : List Char) (tbl : Tbl)
    (hdir : (String.ofList a.name).startsWith cfg.attrPrefix = true)
    (hv : attrValueOf cfg a = some (q :: (pre ++ '$' :: '{' :: (code ++ '}' :: post))))
    (hq : CS.isQuote q = true) (hp : CS.WfPre q pre) (hc : CS.SimpleCode code)
    (hrej : EL.parseCode (String.ofList code) = .reject) :
    ∀ ca tbl', compileAttrS cfg a tbl ≠ (.ok ca, tbl') := by
  apply compileAttrS_not_ok_of_bad cfg a _ tbl hdir hv
  rcases block_reached a.valueStart q pre code post hq hp hc with h | h
  · exact Or.inl h
  · exact Or.inr ⟨_, h, hrej⟩

/-- **blank_block_not_compiled.**  `v = q pre ${ s } post` with `s` blank (space, tab, CR, LF only; possibly empty):
    `compileAttr` does not return `ok`.  (Both forms: state-passing `compileAttrS` and the loader monad.) -/
theorem blank_block_not_compiled (cfg : Cfg) (a : HS.Attr) (q : Char) (pre s post : List Char) (tbl : Tbl)
    (hdir : (String.ofList a.name).startsWith cfg.attrPrefix = true)
    (hv : attrValueOf cfg a = some (q :: (pre ++ '$' :: '{' :: (s ++ '}' :: post))))
    (hq : CS.isQuote q = true) (hp : CS.WfPre q pre) (hs : ∀ c ∈ s, EL.isWs c = true) :
    (∀ ca tbl', compileAttrS cfg a tbl ≠ (.ok ca, tbl')) ∧ (∀ ca tbl', (compileAttr cfg a).run tbl ≠ (.ok ca, tbl')) := by
  have h := rejected_block_not_compiled cfg a q pre s post tbl hdir hv hq hp (simpleCode_of_ws s hs)
    (parseCode_blank_rejects _ (by rw [String.toList_ofList]; exact hs))
  exact ⟨h, h⟩

/-- the same for a block that holds only hidden text (comments and white space) without string quotes and braces -/
theorem hidden_block_not_compiled (cfg : Cfg) (a : HS.Attr) (q : Char) (pre s post : List Char) (tbl : Tbl)
    (hdir : (String.ofList a.name).startsWith cfg.attrPrefix = true)
    (hv : attrValueOf cfg a = some (q :: (pre ++ '$' :: '{' :: (s ++ '}' :: post))))
    (hq : CS.isQuote q = true) (hp : CS.WfPre q pre) (hs : EL.Blank s) (hc : CS.SimpleCode s) :
    ∀ ca tbl', compileAttrS cfg a tbl ≠ (.ok ca, tbl') :=
  rejected_block_not_compiled cfg a q pre s post tbl hdir hv hq hp hc
    (parseCode_hidden_rejects _ (by rw [String.toList_ofList]; exact hs))

/-! ## 3. a file with such an attribute is a load error -/

section
variable (cfg : Cfg) (fns : List (String × EV.FnSpec)) (idx : Nat) (name src : String) (m : Mgr)
  (toks : List HS.Token) (hscan : HS.scan (scanCfg cfg) src.toList = .ok toks)

/-- what makes a value bad in the sense of `C10L.addFile_err_of_bad` -/
theorem bad_of_rejected_block (start : HS.Pos) (q : Char) (pre code post : List Char)
    (hq : CS.isQuote q = true) (hp : CS.WfPre q pre) (hc : CS.SimpleCode code)
    (hrej : EL.parseCode (String.ofList code) = .reject)
    (hmem : (start, q :: (pre ++ '$' :: '{' :: (code ++ '}' :: post))) ∈ dirVals cfg toks) :
    (∃ p ∈ dirVals cfg toks, ¬ CS.Succ (CS.scan p.1 p.2)) ∨ (∃ s ∈ fileBlocks cfg toks, EL.parseCode s = .reject) := by
  rcases block_reached start q pre code post hq hp hc with h | h
  · exact Or.inl ⟨_, hmem, h⟩
  · exact Or.inr ⟨_, mem_fileBlocks.mpr ⟨_, hmem, h⟩, hrej⟩

include hscan

/-- without the coverage hypothesis: `Add` never returns a manager (and does not panic) -/
theorem addFile_not_ok_blank_block (start : HS.Pos) (q : Char) (pre s post : List Char)
    (hq : CS.isQuote q = true) (hp : CS.WfPre q pre) (hs : ∀ c ∈ s, EL.isWs c = true)
    (hmem : (start, q :: (pre ++ '$' :: '{' :: (s ++ '}' :: post))) ∈ dirVals cfg toks) :
    (∀ m', addFile cfg fns idx name src m ≠ .ok m') ∧ addFile cfg fns idx name src m ≠ .panic :=
  C10L.addFile_not_ok_of_bad cfg fns idx name src m toks hscan
    (bad_of_rejected_block cfg toks start q pre s post hq hp (simpleCode_of_ws s hs)
      (parseCode_blank_rejects _ (by rw [String.toList_ofList]; exact hs)) hmem)

variable (hcov : ∀ s ∈ fileBlocks cfg toks, EL.parseCode s ≠ .unsupported)
include hcov

/-- general form: a directive value `q pre ${code} post` whose `code` (no braces, no string quotes) is rejected by
    `ParseCode` -/
theorem addFile_rejects_rejected_block (start : HS.Pos) (q : Char) (pre code post : List Char)
    (hq : CS.isQuote q = true) (hp : CS.WfPre q pre) (hc : CS.SimpleCode code)
    (hrej : EL.parseCode (String.ofList code) = .reject)
    (hmem : (start, q :: (pre ++ '$' :: '{' :: (code ++ '}' :: post))) ∈ dirVals cfg toks) :
    addFile cfg fns idx name src m = .err :=
  C10L.addFile_err_of_bad cfg fns idx name src m toks hscan hcov
    (bad_of_rejected_block cfg toks start q pre code post hq hp hc hrej hmem)

/-- **addFile_rejects_blank_block.**  A file one of whose directive values is `q pre ${ s } post` with a blank `s` is
    a load ERROR — whatever the file name, the manager, the rest of the value and the rest of the file. -/
theorem addFile_rejects_blank_block (start : HS.Pos) (q : Char) (pre s post : List Char)
    (hq : CS.isQuote q = true) (hp : CS.WfPre q pre) (hs : ∀ c ∈ s, EL.isWs c = true)
    (hmem : (start, q :: (pre ++ '$' :: '{' :: (s ++ '}' :: post))) ∈ dirVals cfg toks) :
    addFile cfg fns idx name src m = .err :=
  addFile_rejects_rejected_block cfg fns idx name src m toks hscan hcov start q pre s post hq hp (simpleCode_of_ws s hs)
    (parseCode_blank_rejects _ (by rw [String.toList_ofList]; exact hs)) hmem

/-- the same, stated on the token list: some tag token of the file has an attribute with the directive prefix whose
    value (as `compileAttr` sees it) is `q pre ${ s } post` -/
theorem addFile_rejects_blank_block_attr (t : HS.Token) (tg : HS.Tag) (a : HS.Attr) (q : Char) (pre s post : List Char)
    (ht : t ∈ toks) (hk : t.kind = .tag) (htag : t.tag = some tg) (ha : a ∈ tg.attrs)
    (hdir : (String.ofList a.name).startsWith cfg.attrPrefix = true)
    (hv : attrValueOf cfg a = some (q :: (pre ++ '$' :: '{' :: (s ++ '}' :: post))))
    (hq : CS.isQuote q = true) (hp : CS.WfPre q pre) (hs : ∀ c ∈ s, EL.isWs c = true) :
    addFile cfg fns idx name src m = .err :=
  addFile_rejects_blank_block cfg fns idx name src m toks hscan hcov a.valueStart q pre s post hq hp hs
    (C10L.mem_dirVals.mpr ⟨t, ht, hk, tg, htag, a, ha, hdir, hv, rfl⟩)

end

/-! ## 4. non-vacuity on concrete templates (kernel evaluation) -/
namespace Example
open C10L.Example (isErr toksOf scan_toksOf cov_of_all)

/-- the three templates of the task -/
def t1 : String := "<p :text=\"a${}b\">x</p>"
def t2 : String := "<p :if=\"${ }\">"
def t3 : String := "<a :href=\"/u/${\t\n}\">x</a>"
/-- a comment-only block after a complete block -/
def t4 : String := "<p :text=\"${x} and ${ /* c */ } z\">x</p>"

set_option maxRecDepth 100000 in
/-- by evaluation of the loader model: all four are load errors, alone and after a good file -/
example : isErr (loadFiles {} [] [("f", t1)]) = true ∧ isErr (loadFiles {} [] [("f", t2)]) = true ∧
    isErr (loadFiles {} [] [("f", t3)]) = true ∧ isErr (loadFiles {} [] [("f", t4)]) = true ∧
    isErr (loadFiles {} [] [("g", C10L.Example.good), ("f", t1)]) = true := by decide +kernel

/-- the values as `compileAttr` sees them (with their quotes), and where they start -/
def v1 : List Char := "\"a${}b\"".toList
def v2 : List Char := "\"${ }\"".toList
def v3 : List Char := "\"/u/${\t\n}\"".toList
def v4 : List Char := "\"${x} and ${ /* c */ } z\"".toList

set_option maxRecDepth 100000 in
theorem dirVals_t : dirVals {} (toksOf t1) = [(⟨1, 10⟩, v1)] ∧ dirVals {} (toksOf t2) = [(⟨1, 8⟩, v2)] ∧
    dirVals {} (toksOf t3) = [(⟨1, 10⟩, v3)] ∧ dirVals {} (toksOf t4) = [(⟨1, 10⟩, v4)] := by decide +kernel

/-- the decomposition `q :: (pre ++ '$' :: '{' :: (s ++ '}' :: post))` of the four values -/
theorem v1_eq : v1 = '"' :: ("a".toList ++ '$' :: '{' :: ([] ++ '}' :: "b\"".toList)) := by decide +kernel
theorem v2_eq : v2 = '"' :: ([] ++ '$' :: '{' :: ([' '] ++ '}' :: "\"".toList)) := by decide +kernel
theorem v3_eq : v3 = '"' :: ("/u/".toList ++ '$' :: '{' :: (['\t', '\n'] ++ '}' :: "\"".toList)) := by decide +kernel
theorem v4_eq : v4 = '"' :: ("${x} and ".toList ++ '$' :: '{' :: (" /* c */ ".toList ++ '}' :: " z\"".toList)) := by
  decide +kernel

set_option maxRecDepth 100000 in
/-- `addFile_rejects_blank_block` on `<p :text="a${}b">x</p>`: empty block between literals -/
example (fns : List (String × EV.FnSpec)) (idx : Nat) (name : String) (m : Mgr) : addFile {} fns idx name t1 m = .err := by
  refine addFile_rejects_blank_block {} fns idx name t1 m (toksOf t1) (scan_toksOf t1 (by decide +kernel))
    (cov_of_all (by decide +kernel)) ⟨1, 10⟩ '"' "a".toList [] "b\"".toList (by decide)
    (CS.wfPre_of_plainLit (by decide +kernel)) (by decide) ?_
  rw [dirVals_t.1, v1_eq]; exact List.mem_singleton.mpr rfl

set_option maxRecDepth 100000 in
/-- … on `<p :if="${ }">`: the whole value is one block holding a space -/
example (fns : List (String × EV.FnSpec)) (idx : Nat) (name : String) (m : Mgr) : addFile {} fns idx name t2 m = .err := by
  refine addFile_rejects_blank_block {} fns idx name t2 m (toksOf t2) (scan_toksOf t2 (by decide +kernel))
    (cov_of_all (by decide +kernel)) ⟨1, 8⟩ '"' [] [' '] "\"".toList (by decide) .nil (by decide) ?_
  rw [dirVals_t.2.1, v2_eq]; exact List.mem_singleton.mpr rfl

set_option maxRecDepth 100000 in
/-- … on `<a :href="/u/${\t\n}">x</a>`: tab and newline -/
example (fns : List (String × EV.FnSpec)) (idx : Nat) (name : String) (m : Mgr) : addFile {} fns idx name t3 m = .err := by
  refine addFile_rejects_blank_block {} fns idx name t3 m (toksOf t3) (scan_toksOf t3 (by decide +kernel))
    (cov_of_all (by decide +kernel)) ⟨1, 10⟩ '"' "/u/".toList ['\t', '\n'] "\"".toList (by decide)
    (CS.wfPre_of_plainLit (by decide +kernel)) (by decide) ?_
  rw [dirVals_t.2.2.1, v3_eq]; exact List.mem_singleton.mpr rfl

set_option maxRecDepth 100000 in
/-- `addFile_rejects_rejected_block` with `parseCode_comment_only_rejects`: a comment-only block after the complete
    block `${x}` (prefix checked by `CS.wfPreB`) -/
example (fns : List (String × EV.FnSpec)) (idx : Nat) (name : String) (m : Mgr) : addFile {} fns idx name t4 m = .err := by
  refine addFile_rejects_rejected_block {} fns idx name t4 m (toksOf t4) (scan_toksOf t4 (by decide +kernel))
    (cov_of_all (by decide +kernel)) ⟨1, 10⟩ '"' "${x} and ".toList " /* c */ ".toList " z\"".toList (by decide)
    (CS.wfPre_of_wfPreB (by decide +kernel)) (by decide +kernel) ?_ ?_
  · exact parseCode_comment_only_rejects " " " c " " " (by decide) (by decide) (by decide +kernel)
  · rw [dirVals_t.2.2.2, v4_eq]; exact List.mem_singleton.mpr rfl

/-- `blank_block_not_compiled` on the attribute of `t1` as the HTML scanner delivers it -/
def attr1 : HS.Attr :=
  { name := ":text".toList, nameStart := ⟨1, 4⟩, nameEnd := ⟨1, 9⟩, value := some v1, valueStart := ⟨1, 10⟩, valueEnd := ⟨1, 18⟩ }
def attr3 : HS.Attr :=
  { name := ":href".toList, nameStart := ⟨1, 4⟩, nameEnd := ⟨1, 9⟩, value := some v3, valueStart := ⟨1, 10⟩, valueEnd := ⟨2, 3⟩ }

theorem attr_hyps : (String.ofList attr1.name).startsWith ({} : Cfg).attrPrefix = true ∧ attrValueOf {} attr1 = some v1 ∧
    (String.ofList attr3.name).startsWith ({} : Cfg).attrPrefix = true ∧ attrValueOf {} attr3 = some v3 := by decide +kernel

example (tbl : Tbl) : ∀ ca tbl', compileAttrS {} attr1 tbl ≠ (.ok ca, tbl') :=
  (blank_block_not_compiled {} attr1 '"' "a".toList [] "b\"".toList tbl attr_hyps.1 (by rw [attr_hyps.2.1, v1_eq])
    (by decide) (CS.wfPre_of_plainLit (by decide +kernel)) (by decide)).1
example (tbl : Tbl) : ∀ ca tbl', (compileAttr {} attr3).run tbl ≠ (.ok ca, tbl') :=
  (blank_block_not_compiled {} attr3 '"' "/u/".toList ['\t', '\n'] "\"".toList tbl attr_hyps.2.2.1
    (by rw [attr_hyps.2.2.2, v3_eq]) (by decide) (CS.wfPre_of_plainLit (by decide +kernel)) (by decide)).2

/-- by evaluation: on the empty table both attributes give `err` (not `ok`, not `unsupported`), the table is unchanged;
    the scanner itself accepts `v1` (three quote/literal/… tokens around the block) and the block text is `""` -/
def isErrA : LoadRes CAttr → Bool | .err => true | _ => false
example : isErrA (compileAttrS {} attr1 #[]).1 = true ∧ (compileAttrS {} attr1 #[]).2.size = 0 ∧
    isErrA (compileAttrS {} attr3 #[]).1 = true ∧
    CS.Succ (CS.scan ⟨1, 10⟩ v1) ∧ blockTexts (CS.scan ⟨1, 10⟩ v1) = [""] ∧
    blockTexts (CS.scan ⟨1, 10⟩ v3) = ["\t\n"] ∧ blockTexts (CS.scan ⟨1, 10⟩ v4) = ["x", " /* c */ "] := by decide +kernel

/-- `block_reached` needs no hypothesis on `post`: even when the rest of the value is broken (`"a${}b` without the
    closing quote, `"${ }${`), the attribute does not compile -/
example : ¬ CS.Succ (CS.scan ⟨1, 1⟩ "\"a${}b".toList) ∧ ¬ CS.Succ (CS.scan ⟨1, 1⟩ "\"${ }${".toList) := by decide +kernel

end Example

end C10B
