import TplModel.Generated.Facts
/-! # C15 / C16 — an assumption of the model, checked on the source on every run

OBLIGATIONS: C15K.no_shared_containers

The renderer and evaluator models thread no state between executions: an execution is a function of the loaded templates
and its data (C16), and concurrent executions share only read-only trees and the lock-protected idempotent caches of
`Tag` (C15: `Facts.tagHasSyncField`). That rests on the code having no process-wide or manager-wide mutable containers.
`Facts.sharedContainers` lists every package-level variable that is a container, buffer, lock, atomic or pointer to a
composite value, and every struct field of type `sync.Pool` / `sync.Map`, in the root package, `html/` and `exp/`: the
read-only `htmlContentType` is the only one. (A correct cache added later makes
this obligation fail although the property may still hold: the check then says so, `no-failing-input-found`.) -/
namespace C15K

/-- the only package-level value of a container / buffer / lock / atomic / pointer kind is the constant content-type
    header value of `render.go` (a slice that is only read) -/
theorem no_shared_containers : Facts.sharedContainers = ["render.go: var htmlContentType slice"] := by decide

end C15K
