import TplModel.Generated.Facts
/-! # C06 — the scope chain is built outermost-last at every site (fact re-extracted on every run)

OBLIGATIONS: C06K.parent_is_the_outer_scope_at_every_site

`exp.Combine(child, parent)` looks a name up in `child` first (`C06.get_spec`). `Facts.combineSites` lists every call in
`html/template.go` and `exp/scope.go` with the function it is in, the head of the child argument and the parent argument:
* `Execute`: the data passed to Execute in front of the manager's global scope;
* `processTagStart` (`with`): the new bindings in front of the scope the element was reached with;
* `processRange`: the loop variables in front of the surrounding scope;
* `WithDefaultScope`: any scope in front of the built-in functions.
That is the order "variables bound on the nearest element, then outer ones, then the data, then the global scope, then
the built-ins" — the order the renderer model's `Env` implements (`renderer_chain_agrees`). Swapping the arguments at any
site changes this table. -/
namespace C06K

theorem parent_is_the_outer_scope_at_every_site :
    Facts.combineSites =
      [("Execute", "scope", "t.manager.globalScope"), ("processTagStart", "exp.NewScope", "data"),
       ("processRange", "exp.NewScope", "scope"), ("WithDefaultScope", "s", "defaultScope")] := by decide

end C06K
