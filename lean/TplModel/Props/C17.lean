import TplModel.Proofs.ScanPos
import TplModel.Proofs.ScanAttrPos
/-! # C17 — scanning recovers the written tokens with exact source positions

OBLIGATIONS: HS.scan_concat, HS.tokens_abut, HS.positions_exact, HS.token_start_exact, HS.last_token_stop, HS.attr_positions_exact, HS.attr_name_no_space, HS.attr_names_distinct -/
