import TplModel.Generated.Facts
import TplModel.Html.Render
/-! # C16 / C07 / C08 — the bound on fragment nesting, re-extracted from html/template.go on every run

OBLIGATIONS: C16F.nesting_bound_matches_model

`Facts.maxFragmentDepth` is the value of `const maxFragmentDepth`; the renderer model's default configuration uses the
same bound (`RN.Cfg.maxDepth`), so the theorems about `tooDeep` (`fragment_depth_bounded`, the C08 self-inclusion
results) speak about the bound the code has. -/
namespace C16F

theorem nesting_bound_matches_model : Facts.maxFragmentDepth = 256 ∧ ({} : RN.Cfg).maxDepth = Facts.maxFragmentDepth := by
  constructor <;> decide

end C16F
