import TplModel.Props.C13
import TplModel.Proofs.AccessEval
/-! # C13 as theorems about the evaluator `EV.eval` itself

`Props/C13.lean` states C13 about the pure functions `EV.getValue`, `EV.indexName`, `EV.sliceOf`.  This file closes
the gap to the tree walk: for ALL function tables `fns`, data frames `data`, sub-expressions and states,

* `eval_field`   — `e.n` / `e?.n` after the operand IS `lookRes (getValue n pv)`; the three outcomes spelled out
  (`eval_field_outcomes`); `?.` changes nothing (`eval_field_safe_irrelevant`: the Go visitor does not look at it);
  against the specification: `eval_field_matches_walk`, `eval_field_invalid_is_error`;
* `eval_index`   — `e[i]` after both operands (in order) IS `lookRes (getValue name pv)` with `indexName iv = some name`
  and `setErr` when `indexName iv = none`; `eval_index_int` (elements, negative indexes from the end, error otherwise),
  `eval_index_str`, `eval_index_int_matches_walk`;
* `eval_slice`   — `e[lo:hi]` / `e[lo:hi:max]` with all present bounds integers (any kind) IS `sliceOf`:
  `eval_slice_iff` (value / panic / unsupported / not sliceable, each an iff), `eval_slice_matches_walk` against
  `Walk.slice` / `Walk.slicePanics` / `Walk.sliceable`; a bound that is not an integer is an error, never a default
  (`eval_slice_lo_not_int`, `…_hi_…`, `…_cap_…`); `eval_slice_any`: the complete case analysis;
* `access_total` — member and index access NEVER panic by themselves (the only `.error ()` is an operand's); a
  slice expression whose operands evaluate normally panics iff all bounds are integers and Go's slice expression
  panics (`Walk.slicePanics`).

`EV.indexName` and `EV.sliceOf` are no longer "textual mirrors": `EV.indexOp_eq_indexName` and `EV.sliceStep_pure`
(Proofs/AccessEval.lean) prove them equal to the helper functions `indexOp` / `sliceStep` that `eval` calls.
`Exp/Eval.lean` is unchanged. -/
namespace C13
open EV
open EL (E)

section theorems
variable (fns : List (String × FnSpec)) (data : List Val)

/-! ## 1. member access `e.n`, `e?.n` -/

/-- after the operand, member access is `getValue` and nothing else -/
theorem eval_field {e : E} (safe : Bool) (n : String) {st s1 : St} {pv : Val}
    (h : st.err = none) (he : eval fns data e st = .ok (pv, s1)) :
    eval fns data (.field e safe n) st = lookRes (getValue n pv) s1 :=
  eval_field_eq fns data safe n h he

/-- the three outcomes: the member itself in the unchanged state; "no such value" recorded and nil; an error
    recorded and nil -/
theorem eval_field_outcomes {e : E} (safe : Bool) (n : String) {st s1 : St} {pv : Val}
    (h : st.err = none) (he : eval fns data e st = .ok (pv, s1)) (h1 : s1.err = none) :
    (∀ v, getValue n pv = .found v → eval fns data (.field e safe n) st = .ok (v, s1)) ∧
    (getValue n pv = .absent →
      eval fns data (.field e safe n) st = .ok (.nil, { s1 with err := some ⟨false, true⟩ })) ∧
    (getValue n pv = .failed →
      eval fns data (.field e safe n) st = .ok (.nil, { s1 with err := some ⟨false, false⟩ })) := by
  rw [eval_field fns data safe n h he]
  refine ⟨fun v hv => ?_, fun hv => ?_, fun hv => ?_⟩ <;> rw [hv]
  · rfl
  · exact lookRes_absent h1
  · exact lookRes_failed h1

/-- `?.` is `.`: the model ignores the flag, as `VisitPrimaryExpr` does (exp/visitor.go: one case for
    `struct?.field` and `struct.field`) -/
theorem eval_field_safe_irrelevant (e : E) (n : String) :
    eval fns data (.field e true n) = eval fns data (.field e false n) := by
  rw [eval, eval]

/-- member access returns a value (into the state after the operand) exactly when Go's `pv.n` / `pv["n"]` is
    defined, or `n` reads as an int64 `i` and `pv[i]` (negative from the end) is defined — and then that value -/
theorem eval_field_matches_walk {e : E} (safe : Bool) (n : String) {st s1 : St} {pv : Val}
    (h : st.err = none) (he : eval fns data e st = .ok (pv, s1)) (h1 : s1.err = none) (v : Val) :
    eval fns data (.field e safe n) st = .ok (v, s1) ↔
      Walk.field pv n = some v ∨ ∃ i, parseDecInt n = some i ∧ Walk.indexFromEnd pv i = some v := by
  rw [eval_field fns data safe n h he, lookRes_ok_same_iff _ h1, access_matches_walk]

/-- a name that does not start like a number (every IDENTIFIER of the grammar) is never read as an index -/
theorem parseDecInt_of_head (n : String) (c : Char) (rest : List Char) (hn : n.toList = c :: rest)
    (hc : c ≠ '-' ∧ c ≠ '+' ∧ c.isDigit = false) : parseDecInt n = none := by
  unfold parseDecInt
  simp only [hn]
  split
  · next r heq => simp at heq; exact absurd heq.1 hc.1
  · next r heq => simp at heq; exact absurd heq.1 hc.2.1
  · next r hx hy => simp [hc.2.2]

/-- … so for an identifier, member access agrees with `Walk.field` alone -/
theorem eval_field_ident_matches_walk {e : E} (safe : Bool) (n : String) {st s1 : St} {pv : Val}
    (h : st.err = none) (he : eval fns data e st = .ok (pv, s1)) (h1 : s1.err = none)
    (c : Char) (rest : List Char) (hn : n.toList = c :: rest) (hc : c ≠ '-' ∧ c ≠ '+' ∧ c.isDigit = false)
    (v : Val) :
    eval fns data (.field e safe n) st = .ok (v, s1) ↔ Walk.field pv n = some v := by
  rw [eval_field_matches_walk fns data safe n h he h1, parseDecInt_of_head n c rest hn hc]
  simp

/-- the error side: Go's access undefined (absent field or key, unexported field, nil receiver, unsupported kind,
    index out of range) ⇒ nil is returned WITH an error recorded: never a zero value, never a panic -/
theorem eval_field_invalid_is_error {e : E} (safe : Bool) (n : String) {st s1 : St} {pv : Val}
    (h : st.err = none) (he : eval fns data e st = .ok (pv, s1)) (h1 : s1.err = none)
    (hf : Walk.field pv n = none) (hi : ∀ i, parseDecInt n = some i → Walk.indexFromEnd pv i = none) :
    ∃ x, eval fns data (.field e safe n) st = .ok (.nil, { s1 with err := some x }) := by
  obtain ⟨_, ha, hfl⟩ := eval_field_outcomes fns data safe n h he h1
  rcases invalid_access_is_error n pv hf hi with hg | hg
  · exact ⟨_, ha hg⟩
  · exact ⟨_, hfl hg⟩

/-! ## 2. index access `e[i]` -/

/-- after both operands (operand first, then the index, each from the state the previous one left), index access
    is `getValue` on the member name `indexName iv`; an index that is neither an integer nor a string is an error -/
theorem eval_index {e ix : E} {st s1 s2 : St} {pv iv : Val}
    (h : st.err = none) (he : eval fns data e st = .ok (pv, s1)) (hi : eval fns data ix s1 = .ok (iv, s2)) :
    eval fns data (.index e ix) st =
      match indexName iv with
      | some name => lookRes (getValue name pv) s2
      | none => setErr false false s2 := by
  rw [eval_index_eq fns data h he hi, indexOp_eq_indexName]
  cases indexName iv <;> rfl

theorem eval_index_name {e ix : E} {st s1 s2 : St} {pv iv : Val} {name : String}
    (h : st.err = none) (he : eval fns data e st = .ok (pv, s1)) (hi : eval fns data ix s1 = .ok (iv, s2))
    (hn : indexName iv = some name) :
    eval fns data (.index e ix) st = lookRes (getValue name pv) s2 := by
  rw [eval_index fns data h he hi, hn]

/-- not an integer, not a string: error recorded, nil -/
theorem eval_index_bad {e ix : E} {st s1 s2 : St} {pv iv : Val}
    (h : st.err = none) (he : eval fns data e st = .ok (pv, s1)) (hi : eval fns data ix s1 = .ok (iv, s2))
    (hn : indexName iv = none) (h2 : s2.err = none) :
    eval fns data (.index e ix) st = .ok (.nil, { s2 with err := some ⟨false, false⟩ }) := by
  rw [eval_index fns data h he hi, hn]
  exact setErr_of_ok h2

/-- `e["k"]` is `e.k` -/
theorem eval_index_str {e ix : E} {st s1 s2 : St} {pv : Val} {k : String}
    (h : st.err = none) (he : eval fns data e st = .ok (pv, s1)) (hi : eval fns data ix s1 = .ok (.str k, s2)) :
    eval fns data (.index e ix) st = lookRes (getValue k pv) s2 :=
  eval_index_name fns data h he hi (indexName_str k)

/-- `e[i]` on a slice or array, `i` an integer of ANY kind: `xs[i]` for `0 ≤ i < len`, `xs[len+i]` for
    `-len ≤ i < 0`, otherwise an error is recorded (nil returned) — exactly `C13.getValue_index`.
    (`hr`: the length fits an int, as for every Go slice, or the index is an int64, see `getValue_index_walk`.) -/
theorem eval_index_int {e ix : E} {st s1 s2 : St} {pv iv : Val} {xs : List Val} {i : Int}
    (h : st.err = none) (he : eval fns data e st = .ok (pv, s1)) (hi : eval fns data ix s1 = .ok (iv, s2))
    (h2 : s2.err = none) (hxs : Walk.elems pv = some xs) (hiv : isInt iv = some i)
    (hr : xs.length < 2 ^ 63 ∨ IsInt64 i) :
    eval fns data (.index e ix) st =
      if h1 : 0 ≤ i ∧ i < xs.length then .ok (xs[i.toNat]'(by omega), s2)
      else if h2 : -(xs.length : Int) ≤ i ∧ i < 0 then .ok (xs[((xs.length : Int) + i).toNat]'(by omega), s2)
      else .ok (.nil, { s2 with err := some ⟨false, false⟩ }) := by
  rw [eval_index_name fns data h he hi (indexName_int iv i hiv), getValue_index pv xs hxs i hr]
  split
  · rfl
  · split
    · rfl
    · exact lookRes_failed h2

/-- against the specification: `e[i]` returns a value iff Go's `pv["<i>"]` (a map keyed by the decimal rendering,
    the engine's rule) or the element `pv[i]` (negative from the end) is defined -/
theorem eval_index_int_matches_walk {e ix : E} {st s1 s2 : St} {pv iv : Val} {i : Int}
    (h : st.err = none) (he : eval fns data e st = .ok (pv, s1)) (hi : eval fns data ix s1 = .ok (iv, s2))
    (h2 : s2.err = none) (hiv : isInt iv = some i) (h64 : IsInt64 i) (v : Val) :
    eval fns data (.index e ix) st = .ok (v, s2) ↔
      Walk.field pv (toString i) = some v ∨ Walk.indexFromEnd pv i = some v := by
  rw [eval_index_name fns data h he hi (indexName_int iv i hiv), lookRes_ok_same_iff _ h2, access_matches_walk,
    EV.parseDecInt_toString i h64]
  simp

/-- the error side for an integer index -/
theorem eval_index_int_invalid_is_error {e ix : E} {st s1 s2 : St} {pv iv : Val} {i : Int}
    (h : st.err = none) (he : eval fns data e st = .ok (pv, s1)) (hi : eval fns data ix s1 = .ok (iv, s2))
    (h2 : s2.err = none) (hiv : isInt iv = some i) (h64 : IsInt64 i)
    (hf : Walk.field pv (toString i) = none) (hx : Walk.indexFromEnd pv i = none) :
    ∃ x, eval fns data (.index e ix) st = .ok (.nil, { s2 with err := some x }) := by
  rw [eval_index_name fns data h he hi (indexName_int iv i hiv)]
  have hinv := invalid_access_is_error (toString i) pv hf (by
    intro j hj; rw [EV.parseDecInt_toString i h64] at hj; cases hj; exact hx)
  rcases hinv with hg | hg <;> rw [hg]
  · exact ⟨_, lookRes_absent h2⟩
  · exact ⟨_, lookRes_failed h2⟩

/-! ## 3. slicing `e[lo:hi]`, `e[lo:hi:max]` -/

/-- `sliceOf` IS what `eval` computes: operand evaluated, then the present bounds in the order lo, hi, max, each
    to an integer of any kind (`BoundTo`; an omitted bound runs nothing): the run is the run of `sliceOf`'s outcome
    (`ok r` ↦ `r` in the state after the bounds, `panic` ↦ `.error ()`, `unsupported` ↦ `unsupp`,
    `notSliceable` ↦ `setErr` in the state after the operand: no bound is evaluated at all) -/
theorem eval_slice {e : E} {lo hi cap : Option E} {st s1 s2 s3 s4 : St} {pv : Val} {l h m : Option Int}
    (h0 : st.err = none) (he : eval fns data e st = .ok (pv, s1))
    (hlo : BoundTo fns data lo s1 l s2) (hhi : BoundTo fns data hi s2 h s3) (hcap : BoundTo fns data cap s3 m s4) :
    eval fns data (.slice e lo hi cap) st = (sliceOf pv l h m).run s1 s4 := by
  rw [eval_slice_eq fns data lo hi cap h0 he]
  cases hp : asSlice pv with
  | none => rw [sliceStep_notSliceable hp, sliceOf_notSliceable hp]; rfl
  | some t =>
    obtain ⟨sty, xs, c⟩ := t
    rw [← SliceRes.toM_apply (by rw [hp]; simp), ← sliceOf_defaults hp]
    have hlo' := evalOpt_of_boundTo hlo 0
    have hhi' := evalOpt_of_boundTo hhi xs.length
    cases cap with
    | none =>
      obtain ⟨rfl, rfl⟩ := hcap
      exact sliceStep_run2 hp hlo' hhi'
    | some ex =>
      obtain ⟨v, i, hev, hiv, rfl⟩ := hcap
      have hb : BoundTo fns data (some ex) s3 (some i) s4 := ⟨v, i, hev, hiv, rfl⟩
      have hc : evalOpt fns data (some ex) 0 s3 = .ok (some i, s4) := evalOpt_of_boundTo hb 0
      exact sliceStep_run3 hp hlo' hhi' hc

/-- the four outcomes, each an iff (`h4`: no error was recorded while operand and bounds were evaluated;
    `hu1`: the run had not left the modelled fragment before) -/
theorem eval_slice_iff {e : E} {lo hi cap : Option E} {st s1 s2 s3 s4 : St} {pv : Val} {l h m : Option Int}
    (h0 : st.err = none) (he : eval fns data e st = .ok (pv, s1))
    (hlo : BoundTo fns data lo s1 l s2) (hhi : BoundTo fns data hi s2 h s3) (hcap : BoundTo fns data cap s3 m s4)
    (h4 : s4.err = none) (hu1 : s1.unsupported = false) :
    (∀ r, sliceOf pv l h m = .ok r ↔ eval fns data (.slice e lo hi cap) st = .ok (r, s4)) ∧
    (sliceOf pv l h m = .panic ↔ eval fns data (.slice e lo hi cap) st = .error ()) ∧
    (sliceOf pv l h m = .unsupported ↔
      eval fns data (.slice e lo hi cap) st
        = .ok (.nil, { s4 with unsupported := true, err := some ⟨false, false⟩ })) ∧
    (sliceOf pv l h m = .notSliceable ↔
      eval fns data (.slice e lo hi cap) st = .ok (.nil, { s1 with err := some ⟨false, false⟩ })) := by
  have h1 : s1.err = none := hlo.err_none (hhi.err_none (hcap.err_none h4))
  rw [eval_slice fns data h0 he hlo hhi hcap]
  exact SliceRes.run_classify _ h1 h4 hu1

/-- directly against the specification `Walk`: the value is Go's `pv[l:h]` / `pv[l:h:m]` (the expression being
    well formed: with a `max` there is a `hi`, as the grammar demands), a panic (recovered by `Evaluate` into an
    error) happens exactly when Go's slice expression panics, and a non-sliceable operand is an error -/
theorem eval_slice_matches_walk {e : E} {lo hi cap : Option E} {st s1 s2 s3 s4 : St} {pv : Val} {l h m : Option Int}
    (h0 : st.err = none) (he : eval fns data e st = .ok (pv, s1))
    (hlo : BoundTo fns data lo s1 l s2) (hhi : BoundTo fns data hi s2 h s3) (hcap : BoundTo fns data cap s3 m s4)
    (h4 : s4.err = none) (hu1 : s1.unsupported = false) (hwf : cap.isSome = true → hi.isSome = true) :
    (∀ r, Walk.slice pv l h m = some r ↔ eval fns data (.slice e lo hi cap) st = .ok (r, s4)) ∧
    (Walk.slicePanics pv l h m ↔ eval fns data (.slice e lo hi cap) st = .error ()) ∧
    (Walk.sliceable pv = none ↔
      eval fns data (.slice e lo hi cap) st = .ok (.nil, { s1 with err := some ⟨false, false⟩ })) := by
  obtain ⟨hok, hpanic, _, hns⟩ := eval_slice_iff fns data h0 he hlo hhi hcap h4 hu1
  have hwf' : Walk.WellFormed h m := by
    intro hm; rw [hhi.isSome]; rw [hcap.isSome] at hm; exact hwf hm
  exact ⟨fun r => by rw [← hok r, slice_spec_ok_iff pv l h m r hwf'],
    by rw [← hpanic, slice_spec_panic_iff], by rw [← hns, slice_spec_notSliceable_iff]⟩

/-- what a returned slice consists of: elements `l … h-1` of the operand, capacity `cap - l` resp. `m - l` -/
theorem eval_slice_elements {e : E} {lo hi cap : Option E} {st s1 s2 s3 s4 : St} {pv r : Val} {l h m : Option Int}
    (h0 : st.err = none) (he : eval fns data e st = .ok (pv, s1))
    (hlo : BoundTo fns data lo s1 l s2) (hhi : BoundTo fns data hi s2 h s3) (hcap : BoundTo fns data cap s3 m s4)
    (h4 : s4.err = none) (hu1 : s1.unsupported = false) (hwf : cap.isSome = true → hi.isSome = true)
    (hr : eval fns data (.slice e lo hi cap) st = .ok (r, s4)) :
    ∃ ty xs c ys, Walk.sliceable pv = some (ty, xs, c) ∧
      r = .slice ty ys ((m.getD c).toNat - (l.getD 0).toNat) ∧
      ys.length = (h.getD xs.length).toNat - (l.getD 0).toNat ∧
      ∀ k, k < ys.length → ys[k]? = xs[(l.getD 0).toNat + k]? :=
  slice_elements pv l h m r
    (((eval_slice_matches_walk fns data h0 he hlo hhi hcap h4 hu1 hwf).1 r).mpr hr)

/-- the operand is neither a slice nor an array: error, whatever the bounds are (they are not even evaluated) -/
theorem eval_slice_not_sliceable {e : E} (lo hi cap : Option E) {st s1 : St} {pv : Val}
    (h0 : st.err = none) (he : eval fns data e st = .ok (pv, s1)) (hp : Walk.sliceable pv = none) :
    eval fns data (.slice e lo hi cap) st = setErr false false s1 := by
  rw [eval_slice_eq fns data lo hi cap h0 he, sliceStep_notSliceable (by rw [asSlice_eq_sliceable]; exact hp)]

/-- a `lo` that does not evaluate to an integer is an ERROR — not the default 0; `hi`, `max` are not evaluated -/
theorem eval_slice_lo_not_int {e ex : E} (hi cap : Option E) {st s1 s2 : St} {pv v : Val} {t : String × List Val × Nat}
    (h0 : st.err = none) (he : eval fns data e st = .ok (pv, s1)) (hp : Walk.sliceable pv = some t)
    (hex : eval fns data ex s1 = .ok (v, s2)) (hv : isInt v = none) :
    eval fns data (.slice e (some ex) hi cap) st = setErr false false s2 := by
  rw [eval_slice_eq fns data _ hi cap h0 he]
  exact sliceStep_lo_bad (by rw [asSlice_eq_sliceable]; exact hp) (evalOpt_not_int hex hv 0)

/-- a `hi` that does not evaluate to an integer is an ERROR — not the default length; `max` is not evaluated -/
theorem eval_slice_hi_not_int {e ex : E} (lo cap : Option E) {st s1 s2 s3 : St} {pv v : Val} {l : Option Int}
    {t : String × List Val × Nat}
    (h0 : st.err = none) (he : eval fns data e st = .ok (pv, s1)) (hp : Walk.sliceable pv = some t)
    (hlo : BoundTo fns data lo s1 l s2) (hex : eval fns data ex s2 = .ok (v, s3)) (hv : isInt v = none) :
    eval fns data (.slice e lo (some ex) cap) st = setErr false false s3 := by
  obtain ⟨sty, xs, c⟩ := t
  rw [eval_slice_eq fns data lo _ cap h0 he]
  exact sliceStep_hi_bad (by rw [asSlice_eq_sliceable]; exact hp) (evalOpt_of_boundTo hlo 0)
    (evalOpt_not_int hex hv _)

/-- a `max` that does not evaluate to an integer is an ERROR -/
theorem eval_slice_cap_not_int {e ex : E} (lo hi : Option E) {st s1 s2 s3 s4 : St} {pv v : Val} {l h : Option Int}
    {t : String × List Val × Nat}
    (h0 : st.err = none) (he : eval fns data e st = .ok (pv, s1)) (hp : Walk.sliceable pv = some t)
    (hlo : BoundTo fns data lo s1 l s2) (hhi : BoundTo fns data hi s2 h s3)
    (hex : eval fns data ex s3 = .ok (v, s4)) (hv : isInt v = none) :
    eval fns data (.slice e lo hi (some ex)) st = setErr false false s4 := by
  obtain ⟨sty, xs, c⟩ := t
  rw [eval_slice_eq fns data lo hi _ h0 he]
  exact sliceStep_cap_bad (by rw [asSlice_eq_sliceable]; exact hp) (evalOpt_of_boundTo hlo 0)
    (evalOpt_of_boundTo hhi _) (evalOpt_not_int hex hv 0)

/-- `setErr` always returns nil with an error recorded (the first one is kept) -/
theorem setErr_is_error (a b : Bool) (s : St) :
    ∃ s', setErr a b s = .ok (.nil, s') ∧ s'.err.isSome = true := by
  rw [setErr_apply]
  refine ⟨_, rfl, ?_⟩
  cases hs : s.err <;> simp [hs]

/-- the complete case analysis of a slice expression whose operands evaluate normally to ANY values
    (`OptTo`: the value of a present bound, `none` for an omitted one; `boundInt`: its reading as a bound) -/
theorem eval_slice_any {e : E} {lo hi cap : Option E} {st s1 s2 s3 s4 : St} {pv : Val} {a b c : Option Val}
    (h0 : st.err = none) (he : eval fns data e st = .ok (pv, s1))
    (hlo : OptTo fns data lo s1 a s2) (hhi : OptTo fns data hi s2 b s3) (hcap : OptTo fns data cap s3 c s4) :
    eval fns data (.slice e lo hi cap) st =
      match Walk.sliceable pv with
      | none => setErr false false s1
      | some _ =>
        match boundInt a with
        | none => setErr false false s2
        | some l =>
          match boundInt b with
          | none => setErr false false s3
          | some h =>
            match boundInt c with
            | none => setErr false false s4
            | some m => (sliceOf pv l h m).run s1 s4 := by
  cases hp : Walk.sliceable pv with
  | none => exact eval_slice_not_sliceable fns data lo hi cap h0 he hp
  | some t =>
    simp only
    cases ha : boundInt a with
    | none =>
      cases lo with
      | none => obtain ⟨rfl, _⟩ := hlo; cases ha
      | some ex =>
        obtain ⟨v, hex, rfl⟩ := hlo
        simp only [boundInt, Option.map_eq_none_iff] at ha
        exact eval_slice_lo_not_int fns data hi cap h0 he hp hex ha
    | some l =>
      have hlo' := hlo.boundTo ha
      simp only
      cases hb : boundInt b with
      | none =>
        cases hi with
        | none => obtain ⟨rfl, _⟩ := hhi; cases hb
        | some ex =>
          obtain ⟨v, hex, rfl⟩ := hhi
          simp only [boundInt, Option.map_eq_none_iff] at hb
          exact eval_slice_hi_not_int fns data lo cap h0 he hp hlo' hex hb
      | some h =>
        have hhi' := hhi.boundTo hb
        simp only
        cases hc : boundInt c with
        | none =>
          cases cap with
          | none => obtain ⟨rfl, _⟩ := hcap; cases hc
          | some ex =>
            obtain ⟨v, hex, rfl⟩ := hcap
            simp only [boundInt, Option.map_eq_none_iff] at hc
            exact eval_slice_cap_not_int fns data lo hi h0 he hp hlo' hhi' hex hc
        | some m => exact eval_slice fns data h0 he hlo' hhi' (hcap.boundTo hc)

/-! ## 4. never a panic -/

/-- member access never panics by itself: `e.n` panics iff `e` does (from a state without recorded error; with
    one recorded, nothing is evaluated) -/
theorem field_panics_iff (e : E) (safe : Bool) (n : String) (st : St) :
    eval fns data (.field e safe n) st = .error () ↔ st.err = none ∧ eval fns data e st = .error () := by
  cases hs : st.err with
  | some x => rw [eval, guardErr_err hs]; simp
  | none =>
    rw [eval, guardErr_ok hs, bind_apply]
    cases he : eval fns data e st with
    | error u => simp
    | ok p => obtain ⟨pv, s1⟩ := p; simpa using lookRes_ne_error _ _

/-- index access never panics by itself: `e[i]` panics iff `e` does, or `e` returns and `i` panics -/
theorem index_panics_iff (e ix : E) (st : St) :
    eval fns data (.index e ix) st = .error () ↔
      st.err = none ∧ (eval fns data e st = .error () ∨
        ∃ pv s1, eval fns data e st = .ok (pv, s1) ∧ eval fns data ix s1 = .error ()) := by
  cases hs : st.err with
  | some x => rw [eval, guardErr_err hs]; simp
  | none =>
    rw [eval, guardErr_ok hs, bind_apply]
    cases he : eval fns data e st with
    | error u => simp
    | ok p =>
      obtain ⟨pv, s1⟩ := p
      simp only [bind_apply]
      cases hi : eval fns data ix s1 with
      | error u => exact ⟨fun _ => ⟨trivial, Or.inr ⟨pv, s1, rfl, hi⟩⟩, fun _ => rfl⟩
      | ok q =>
        obtain ⟨iv, s2⟩ := q
        constructor
        · intro hh; exact absurd hh (indexOp_ne_error _ _ _)
        · rintro ⟨_, hh | ⟨pv', s1', h1, h2⟩⟩
          · cases hh
          · cases h1; rw [hi] at h2; cases h2

/-- a slice expression whose operand and bounds evaluate normally panics iff every present bound is an integer
    and Go's slice expression on these integers panics (indices out of range) — the explicit `sliceOf = panic`
    branch and nothing else -/
theorem slice_panics_iff {e : E} {lo hi cap : Option E} {st s1 s2 s3 s4 : St} {pv : Val} {a b c : Option Val}
    (h0 : st.err = none) (he : eval fns data e st = .ok (pv, s1))
    (hlo : OptTo fns data lo s1 a s2) (hhi : OptTo fns data hi s2 b s3) (hcap : OptTo fns data cap s3 c s4) :
    eval fns data (.slice e lo hi cap) st = .error () ↔
      ∃ l h m, boundInt a = some l ∧ boundInt b = some h ∧ boundInt c = some m ∧ sliceOf pv l h m = .panic := by
  rw [eval_slice_any fns data h0 he hlo hhi hcap]
  have hS : ∀ s : St, setErr false false s ≠ .error () := fun s => by simp [setErr_apply]
  cases hp : Walk.sliceable pv with
  | none =>
    simp only
    constructor
    · intro hh; exact absurd hh (hS _)
    · rintro ⟨l, h, m, _, _, _, hh⟩
      rw [sliceOf_notSliceable (by rw [asSlice_eq_sliceable]; exact hp)] at hh; cases hh
  | some t =>
    simp only
    cases ha : boundInt a with
    | none => simp [hS]
    | some l =>
      cases hb : boundInt b with
      | none => simp [hS]
      | some h =>
        cases hc : boundInt c with
        | none => simp [hS]
        | some m =>
          simp only [Option.some.injEq, exists_and_left, exists_eq_left']
          cases hr : sliceOf pv l h m with
          | ok r => simp [SliceRes.run]
          | panic => simp [SliceRes.run]
          | unsupported => simp [SliceRes.run, unsupp_apply]
          | notSliceable => simp [SliceRes.run, hS]

/-- … in the specification's words -/
theorem slice_panics_iff_walk {e : E} {lo hi cap : Option E} {st s1 s2 s3 s4 : St} {pv : Val} {a b c : Option Val}
    (h0 : st.err = none) (he : eval fns data e st = .ok (pv, s1))
    (hlo : OptTo fns data lo s1 a s2) (hhi : OptTo fns data hi s2 b s3) (hcap : OptTo fns data cap s3 c s4) :
    eval fns data (.slice e lo hi cap) st = .error () ↔
      ∃ l h m, boundInt a = some l ∧ boundInt b = some h ∧ boundInt c = some m ∧ Walk.slicePanics pv l h m := by
  rw [slice_panics_iff fns data h0 he hlo hhi hcap]
  simp only [slice_spec_panic_iff]

/-- "never a panic" for member and index access, and the exact panic condition of slicing, as one statement
    about `eval`: given that the operands evaluate normally, `.field` and `.index` return normally, and `.slice`
    panics only through `sliceOf = panic` -/
theorem access_total {e : E} {st s1 : St} {pv : Val} (h0 : st.err = none) (he : eval fns data e st = .ok (pv, s1)) :
    (∀ safe n, eval fns data (.field e safe n) st ≠ .error ()) ∧
    (∀ ix iv s2, eval fns data ix s1 = .ok (iv, s2) → eval fns data (.index e ix) st ≠ .error ()) ∧
    (∀ lo hi cap a b c s2 s3 s4, OptTo fns data lo s1 a s2 → OptTo fns data hi s2 b s3 → OptTo fns data cap s3 c s4 →
      (eval fns data (.slice e lo hi cap) st = .error () ↔
        ∃ l h m, boundInt a = some l ∧ boundInt b = some h ∧ boundInt c = some m ∧ sliceOf pv l h m = .panic)) := by
  refine ⟨fun safe n hh => ?_, fun ix iv s2 hi hh => ?_, fun lo hi cap a b c s2 s3 s4 hlo hhi hcap =>
    slice_panics_iff fns data h0 he hlo hhi hcap⟩
  · rw [field_panics_iff, he] at hh; cases hh.2
  · rw [index_panics_iff, he] at hh
    rcases hh.2 with hh | ⟨pv', s1', h1, h2⟩
    · cases hh
    · cases h1; rw [hi] at h2; cases h2

end theorems

/-! ## 5. non-vacuity: a concrete data frame

One map frame holding a pointer to the harness struct `S` (`C13.p1`), a map with a shadowed key (`C13.dupM`), a
slice, an array of five, a slice with spare capacity (`C13.cap4`), an `int8`, a string.  No user functions.
Every `eval … = .ok …` hypothesis is discharged by evaluating the model (`rfl`). -/
section examples

def arr5 : Val := .array "[5]int" [.int .int 10, .int .int 20, .int .int 30, .int .int 40, .int .int 50]
def xs3 : Val := .slice "[]int" [.int .int 10, .int .int 20, .int .int 30] 3
def dataY : List Val :=
  [.map "map[string]interface {}" [("p", p1), ("m", dupM), ("xs", xs3), ("arr", arr5), ("c4", cap4),
     ("n", .int .int8 (-1)), ("k", .str "k")]]

/-- integer literal `i` / `-i` / a string literal -/
def lit (i : String) : E := .lit "int" i
def neg (i : String) : E := .un "-" (lit i)
def strK : E := .lit "str" "\"k\""

def errPlain : Err := ⟨false, false⟩
def errNoSuch : Err := ⟨false, true⟩

-- building blocks: operands and bounds, evaluated by the model
theorem yP : eval [] dataY (.name "p") {} = .ok (p1, {}) := rfl
theorem yM : eval [] dataY (.name "m") {} = .ok (dupM, {}) := rfl
theorem yXs : eval [] dataY (.name "xs") {} = .ok (xs3, {}) := rfl
theorem yArr : eval [] dataY (.name "arr") {} = .ok (arr5, {}) := rfl
theorem yC4 : eval [] dataY (.name "c4") {} = .ok (cap4, {}) := rfl
theorem yN : eval [] dataY (.name "n") {} = .ok (.int .int8 (-1), {}) := rfl
theorem yK : eval [] dataY (.name "k") {} = .ok (.str "k", {}) := rfl
theorem yStr : eval [] dataY strK {} = .ok (.str "k", {}) := rfl
theorem yLit (i : String) (v : Int) (h : parseIntLit i = some v) :
    eval [] dataY (lit i) {} = .ok (.int .int64 v, {}) := by
  show evalLit "int" i {} = _
  simp only [evalLit]
  rw [guardErr_ok rfl, h]; rfl
theorem y1 : eval [] dataY (lit "1") {} = .ok (.int .int64 1, {}) := rfl
theorem y3 : eval [] dataY (lit "3") {} = .ok (.int .int64 3, {}) := rfl
theorem y4 : eval [] dataY (lit "4") {} = .ok (.int .int64 4, {}) := rfl
theorem y9 : eval [] dataY (lit "9") {} = .ok (.int .int64 9, {}) := rfl
theorem yNeg1 : eval [] dataY (neg "1") {} = .ok (.int .int64 (-1), {}) := rfl

/-! ### member access: a struct behind a pointer -/

/-- `p.A` -/
example : eval [] dataY (.field (.name "p") false "A") {} = .ok (.int .int 7, {}) :=
  (eval_field_outcomes [] dataY false "A" rfl yP rfl).1 _ rfl
/-- `p?.A` is the same run -/
example : eval [] dataY (.field (.name "p") true "A") {} = .ok (.int .int 7, {}) := by
  rw [eval_field_safe_irrelevant]; exact (eval_field_outcomes [] dataY false "A" rfl yP rfl).1 _ rfl
/-- `p.Z`, promoted from the embedded `In`, through the pointer — via the specification -/
example : eval [] dataY (.field (.name "p") false "Z") {} = .ok (.int .int 9, {}) :=
  (eval_field_ident_matches_walk [] dataY false "Z" rfl yP rfl 'Z' [] rfl (by decide) _).mpr rfl
/-- `p.Ptr`: the method of `*S`, bound to the pointer -/
example : eval [] dataY (.field (.name "p") false "Ptr") {} = .ok (.meth "S" "Ptr" p1, {}) :=
  (eval_field_outcomes [] dataY false "Ptr" rfl yP rfl).1 _ rfl
/-- `p.c`: unexported ⇒ error (not the value 2, not a panic) -/
example : eval [] dataY (.field (.name "p") false "c") {} = .ok (.nil, { err := some errPlain }) :=
  (eval_field_outcomes [] dataY false "c" rfl yP rfl).2.2 rfl
/-- `p.Q`: no such field ⇒ error wrapping ErrNoSuchValue -/
example : eval [] dataY (.field (.name "p") false "Q") {} = .ok (.nil, { err := some errNoSuch }) :=
  (eval_field_outcomes [] dataY false "Q" rfl yP rfl).2.1 rfl
example : ∃ x, eval [] dataY (.field (.name "p") false "Q") {} = .ok (.nil, { err := some x }) :=
  eval_field_invalid_is_error [] dataY false "Q" rfl yP rfl rfl (fun i hi => by cases hi)
/-- `p.P.A`: the inner pointer is nil ⇒ error -/
example : eval [] dataY (.field (.field (.name "p") false "P") false "A") {} = .ok (.nil, { err := some errNoSuch }) :=
  (eval_field_outcomes [] dataY false "A" rfl
    ((eval_field_outcomes [] dataY false "P" rfl yP rfl).1 _ rfl) rfl).2.1 rfl

/-! ### index access: a map by string key, a slice by (negative) integer -/

/-- `m["k"]`: the first binding -/
example : eval [] dataY (.index (.name "m") strK) {} = .ok (.int .int 1, {}) := by
  rw [eval_index_str [] dataY rfl yM yStr]; rfl
/-- `m.z`: a stored nil is a value, not an error -/
example : eval [] dataY (.field (.name "m") false "z") {} = .ok (.nil, {}) :=
  (eval_field_outcomes [] dataY false "z" rfl yM rfl).1 _ rfl
/-- `xs[-1]`: the last element -/
example : eval [] dataY (.index (.name "xs") (neg "1")) {} = .ok (.int .int 30, {}) := by
  rw [eval_index_int [] dataY (xs := [.int .int 10, .int .int 20, .int .int 30]) (i := -1) rfl yXs yNeg1 rfl rfl rfl
    (Or.inl (by decide))]
  rfl
/-- `xs[n]` with `n` an `int8`: any integer kind indexes -/
example : eval [] dataY (.index (.name "xs") (.name "n")) {} = .ok (.int .int 30, {}) := by
  rw [eval_index_int [] dataY (xs := [.int .int 10, .int .int 20, .int .int 30]) (i := -1) rfl yXs yN rfl rfl rfl
    (Or.inr (by decide))]
  rfl
/-- `xs[3]`, `xs[-4]`: out of range ⇒ error, never a zero value -/
example : eval [] dataY (.index (.name "xs") (lit "3")) {} = .ok (.nil, { err := some errPlain }) := by
  rw [eval_index_int [] dataY (xs := [.int .int 10, .int .int 20, .int .int 30]) (i := 3) rfl yXs y3 rfl rfl rfl
    (Or.inl (by decide))]
  rfl
example : Walk.indexFromEnd xs3 (-1) = some (.int .int 30) ∧ Walk.indexFromEnd xs3 3 = none := ⟨rfl, rfl⟩
example : eval [] dataY (.index (.name "xs") (neg "1")) {} = .ok (.int .int 30, {}) :=
  (eval_index_int_matches_walk [] dataY rfl yXs yNeg1 rfl rfl (by decide) _).mpr (Or.inr rfl)
/-- `xs[m]`: a map is not an index -/
example : eval [] dataY (.index (.name "xs") (.name "m")) {} = .ok (.nil, { err := some errPlain }) :=
  eval_index_bad [] dataY rfl yXs yM rfl rfl

/-! ### slicing -/

/-- `arr[1:3:4]` on `[5]int{10,20,30,40,50}`: elements 20, 30, capacity 4 - 1 -/
example : eval [] dataY (.slice (.name "arr") (some (lit "1")) (some (lit "3")) (some (lit "4"))) {}
    = .ok (.slice "[]int" [.int .int 20, .int .int 30] 3, {}) := by
  rw [eval_slice [] dataY rfl yArr (BoundTo.present y1 rfl) (BoundTo.present y3 rfl) (BoundTo.present y4 rfl)]
  rfl
/-- … and through the specification -/
example : eval [] dataY (.slice (.name "arr") (some (lit "1")) (some (lit "3")) (some (lit "4"))) {}
    = .ok (.slice "[]int" [.int .int 20, .int .int 30] 3, {}) :=
  ((eval_slice_matches_walk [] dataY rfl yArr (BoundTo.present y1 rfl) (BoundTo.present y3 rfl) (BoundTo.present y4 rfl)
    rfl rfl (fun _ => rfl)).1 _).mp rfl
example : Walk.slice arr5 (some 1) (some 3) (some 4) = some (.slice "[]int" [.int .int 20, .int .int 30] 3) := rfl
/-- `xs[1:]`: omitted bounds run nothing -/
example : eval [] dataY (.slice (.name "xs") (some (lit "1")) none none) {}
    = .ok (.slice "[]int" [.int .int 20, .int .int 30] 2, {}) := by
  rw [eval_slice [] dataY rfl yXs (BoundTo.present y1 rfl) (BoundTo.omitted _) (BoundTo.omitted _)]
  rfl
/-- `arr[1:9]`: Go's slice expression panics, and so does the evaluator (`Evaluate` recovers it into an error) -/
example : eval [] dataY (.slice (.name "arr") (some (lit "1")) (some (lit "9")) none) {} = .error () :=
  (eval_slice_matches_walk [] dataY rfl yArr (BoundTo.present y1 rfl) (BoundTo.present y9 rfl) (BoundTo.omitted _)
    rfl rfl (fun h => by cases h)).2.1.mp (by decide)
example : eval [] dataY (.slice (.name "arr") (some (lit "1")) (some (lit "9")) none) {} = .error () :=
  (slice_panics_iff [] dataY rfl yArr (OptTo.present y1) (OptTo.present y9) (OptTo.omitted _)).mpr
    ⟨some 1, some 9, none, rfl, rfl, rfl, rfl⟩
/-- `c4[:3]`: beyond the length, within the capacity ⇒ outside the model -/
example : eval [] dataY (.slice (.name "c4") none (some (lit "3")) none) {}
    = .ok (.nil, { err := some errPlain, unsupported := true }) :=
  (eval_slice_iff [] dataY rfl yC4 (BoundTo.omitted _) (BoundTo.present y3 rfl) (BoundTo.omitted _) rfl rfl).2.2.1.mp rfl
/-- `m[1:3]`: not sliceable ⇒ error -/
example : eval [] dataY (.slice (.name "m") (some (lit "1")) (some (lit "3")) none) {}
    = .ok (.nil, { err := some errPlain }) :=
  eval_slice_not_sliceable [] dataY _ _ _ rfl yM rfl
/-- `xs[k:]`, `xs[:k]`, `xs[1:3:k]` with `k` a string: an error — NOT the default bound -/
example : eval [] dataY (.slice (.name "xs") (some (.name "k")) none none) {} = .ok (.nil, { err := some errPlain }) :=
  eval_slice_lo_not_int [] dataY _ _ rfl yXs rfl yK rfl
example : eval [] dataY (.slice (.name "xs") none (some (.name "k")) none) {} = .ok (.nil, { err := some errPlain }) :=
  eval_slice_hi_not_int [] dataY _ _ rfl yXs rfl (BoundTo.omitted _) yK rfl
example : eval [] dataY (.slice (.name "xs") (some (lit "1")) (some (lit "3")) (some (.name "k"))) {}
    = .ok (.nil, { err := some errPlain }) :=
  eval_slice_cap_not_int [] dataY _ _ rfl yXs rfl (BoundTo.present y1 rfl) (BoundTo.present y3 rfl) yK rfl

/-! ### never a panic -/

example : eval [] dataY (.field (.name "p") false "nosuch") {} ≠ .error () :=
  (access_total [] dataY rfl yP).1 _ _
example : eval [] dataY (.index (.name "xs") (lit "9")) {} ≠ .error () :=
  (access_total [] dataY rfl yXs).2.1 _ _ _ y9
/-- a panicking operand is the only way: unary `&` panics, so `(&p).A` does -/
example : eval [] dataY (.field (.un "&" (.name "p")) false "A") {} = .error () :=
  (field_panics_iff [] dataY _ _ _ _).mpr ⟨rfl, rfl⟩

end examples

end C13
