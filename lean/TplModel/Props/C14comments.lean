import TplModel.Proofs.LiteralComments
import TplModel.Props.C14embed
/-! # C14 — comment delimiters inside a string literal are characters

OBLIGATIONS: C14C.literal_reads, C14C.literal_with_marker, C14C.marker_in_literal_text, C14C.literal_with_comment_open, C14C.literal_with_comment_close, C14C.literal_with_line_comment, C14C.expresses_with_marker, C14C.lexString_ignores_comment_markers, C14C.parseCode_literal_not_unterminated_comment, C14C.parseCode_unterminated_comment_rejected, C14C.parseCode_unterminated_comment_at_start_rejected, C14C.embedded_literal_with_comment_marker

Property C14: "every string … in each of the three quoting styles … evaluates to exactly that string", also
embedded in directive values.

Go side (`/repo/exp/parser.go`, `ParseCode`): the lexer rule for `/* … */` only matches a CLOSED comment; an
unclosed `/*` is split into the tokens `/` `*`, and after parsing `ParseCode` scans the TOKEN stream for an adjacent
`/` `*` pair and reports "comment not terminated".  Tokens, not source text: the two characters inside a string
literal are part of the one string token.  Model side: `EL.lexDefault` answers `none` at an unclosed `/*`
(`EL.lex` then ends the token list with `.lexerr`, `EL.parseCode` rejects); the string rules `EL.strBody` /
back-quote scan have no comment mode at all.  Models unchanged (checked against the Go implementation on
`'image/*'`, `` `*/*` ``, `"a // b"`, `'/* TODO'`, `'a/*' + 'b'`: accepted with these values; `1 /* `, `1 /* abc`,
`/* x`, `1 /*/`, `x /* é`: "comment not terminated"; `1 /* x */`: accepted, value 1 — the model agrees on all).

1. The round-trip theorems of `Props/C14.lean` (`decode_encode_*`, `lex_*`) and `Props/C14embed.lean`
   (`Style.lex_decode`, `embedded_literal_evaluates`, `embedded_literal_renders`) quantify over ALL `s : List Char`
   for `"…"` and `'…'`, and over all `s` without back-quote and carriage return for the raw style.  No condition
   mentions `/` or `*`, so `'image/*'`, `` `*/*` ``, `"a // b"`, `'/* TODO'` are instances; the theorems below are
   instantiations (`literal_reads` is the uniform restatement, on `String`).
2. Nothing to remove.  The lexer lemma is stated anyway, in the strong form "whatever follows the closing quote"
   (`lexString_ignores_comment_markers`): a later `*/` does not turn the literal into part of a comment.
3. `parseCode_literal_not_unterminated_comment` and the contrast `parseCode_unterminated_comment_rejected`.

Helper lemmas: `TplModel/Proofs/LiteralComments.lean`. -/
namespace C14C
open ENC C14

/-- `lit` is the source text of a string literal denoting `s`: it lexes to ONE string token, `ParseCode` accepts it as
    the literal node (so it is not rejected, in particular not as "comment not terminated"), `VisitLiteral` decodes
    it to exactly `s`, and `exp.Evaluate` of the node gives the string `s` in every scope, without error or calls. -/
def Reads (lit : List Char) (s : String) : Prop :=
  EL.lex (String.ofList lit) = .ok [.str (String.ofList lit)] ∧
  EL.parseCode (String.ofList lit) = .accept (.lit "str" (String.ofList lit)) ∧
  EV.decodeStr (String.ofList lit) = .ok s ∧
  ∀ (cx : EN.Ctx) (sc : List EV.Val), EN.evalExpr cx sc (.lit "str" (String.ofList lit)) = (.ok (.str s), [])

/-- C14 first sentence, uniformly in the style and on `String`: for every string the style can express (all strings
    for `"…"`, `'…'`; no back-quote and no CR for the raw style) the encoded literal reads as that string. -/
theorem literal_reads (q : Style) (s : String) (h : q.expresses s.toList) : Reads (q.enc s.toList) s := by
  obtain ⟨hlex, hdec⟩ := q.lex_decode s.toList h
  rw [String.ofList_toList] at hdec
  exact ⟨hlex, EL.parseCode_single_str hlex, hdec, fun cx sc => EN.evalExpr_str_lit cx sc _ _ hdec⟩

/-- the three comment delimiters -/
def markers : List String := ["/*", "*/", "//"]

theorem marker_isMarker {m : String} (hm : m ∈ markers) : IsMarker m.toList := by
  simp only [markers, List.mem_cons, List.not_mem_nil, or_false] at hm
  rcases hm with rfl | rfl | rfl
  · exact Or.inl rfl
  · exact Or.inr (Or.inl rfl)
  · exact Or.inr (Or.inr rfl)

/-- a delimiter never affects whether a style can express the string: only `pre` and `post` matter -/
theorem expresses_with_marker (q : Style) (pre post : String) {m : String} (hm : m ∈ markers) :
    q.expresses (pre ++ m ++ post).toList ↔ q.expresses pre.toList ∧ q.expresses post.toList := by
  have h1 : '`' ∉ m.toList ∧ '\r' ∉ m.toList := by
    simp only [markers, List.mem_cons, List.not_mem_nil, or_false] at hm
    rcases hm with rfl | rfl | rfl <;> decide
  cases q <;> simp only [Style.expresses, String.toList_append, List.mem_append, true_and]
  simp only [h1.1, h1.2, or_false, not_or]
  constructor
  · rintro ⟨⟨a, b⟩, c, d⟩; exact ⟨⟨a, c⟩, b, d⟩
  · rintro ⟨⟨a, c⟩, b, d⟩; exact ⟨⟨a, b⟩, c, d⟩

/-- the literal text really contains the delimiter, verbatim and adjacent (no style escapes `/` or `*`) -/
theorem marker_in_literal_text (q : Style) (pre post : String) {m : String} (hm : m ∈ markers) :
    m.toList <:+: q.enc (pre ++ m ++ post).toList := by
  have hm' := marker_isMarker hm
  simp only [String.toList_append]
  cases q
  · exact marker_infix_dq _ _ _ hm'
  · exact marker_infix_sq _ _ _ hm'
  · exact marker_infix_raw _ _ _

/-- all three at once -/
theorem literal_with_marker (q : Style) (pre post : String) {m : String} (hm : m ∈ markers)
    (h : q.expresses (pre ++ m ++ post).toList) :
    m.toList <:+: q.enc (pre ++ m ++ post).toList ∧ Reads (q.enc (pre ++ m ++ post).toList) (pre ++ m ++ post) :=
  ⟨marker_in_literal_text q pre post hm, literal_reads q _ h⟩

/-- **`/*` inside a literal.**  For all `pre post` and each style that can express `pre ++ "/*" ++ post` (always for
    `"…"` and `'…'`; for the raw style iff `pre`, `post` have no back-quote and no CR — `expresses_with_marker`): the
    literal text contains `/*`, is ONE string token, is accepted by `ParseCode` as the literal node, and evaluates to
    exactly `pre ++ "/*" ++ post`. -/
theorem literal_with_comment_open (q : Style) (pre post : String) (h : q.expresses (pre ++ "/*" ++ post).toList) :
    "/*".toList <:+: q.enc (pre ++ "/*" ++ post).toList ∧
    Reads (q.enc (pre ++ "/*" ++ post).toList) (pre ++ "/*" ++ post) :=
  literal_with_marker q pre post (by simp [markers]) h

/-- **`*/` inside a literal** -/
theorem literal_with_comment_close (q : Style) (pre post : String) (h : q.expresses (pre ++ "*/" ++ post).toList) :
    "*/".toList <:+: q.enc (pre ++ "*/" ++ post).toList ∧
    Reads (q.enc (pre ++ "*/" ++ post).toList) (pre ++ "*/" ++ post) :=
  literal_with_marker q pre post (by simp [markers]) h

/-- **`//` inside a literal** -/
theorem literal_with_line_comment (q : Style) (pre post : String) (h : q.expresses (pre ++ "//" ++ post).toList) :
    "//".toList <:+: q.enc (pre ++ "//" ++ post).toList ∧
    Reads (q.enc (pre ++ "//" ++ post).toList) (pre ++ "//" ++ post) :=
  literal_with_marker q pre post (by simp [markers]) h

/-- **The string rules never enter comment mode.**  For every string `s` (without back-quote for the raw style)
    and EVERY continuation `tail`, the lexer started at the opening quote takes exactly the literal text as one
    string token and goes on after the closing quote — whatever `s` contains (`/*`, `*/`, `//`, …) and whatever
    follows (for instance a `*/` further right, which would close a comment had one been opened). -/
theorem lexString_ignores_comment_markers (q : Style) (s : List Char) (h : q.closed s) (tail : List Char) :
    EL.lexDefault (q.enc s ++ tail) = some (some (.str (String.ofList (q.enc s))), (q.enc s).length, true) := by
  cases q
  · exact lexDefault_dq_then s tail
  · exact lexDefault_sq_then s tail
  · exact lexDefault_raw_then s tail h

/-- **A literal is never an unterminated comment.**  For every style and every string it can express, `ParseCode`
    of the literal text is `accept` of the literal node — hence neither the rejection "comment not terminated" nor
    any other, whether or not the string contains `/*`. -/
theorem parseCode_literal_not_unterminated_comment (q : Style) (s : String) (h : q.expresses s.toList) :
    EL.parseCode (String.ofList (q.enc s.toList)) = .accept (.lit "str" (String.ofList (q.enc s.toList))) ∧
    EL.parseCode (String.ofList (q.enc s.toList)) ≠ .reject := by
  have := (literal_reads q s h).2.1
  exact ⟨this, by rw [this]; exact fun h => nomatch h⟩

/-- **Contrast: outside a literal.**  `1 /* t` where `t` does not contain `*/` is rejected, for every `t` (Go:
    "[SyntaxError] comment not terminated"; the model's lexer stops at the `/*` with the error token). -/
theorem parseCode_unterminated_comment_rejected (t : String) (h : ¬ "*/".toList <:+: t.toList) :
    EL.parseCode ("1 /* " ++ t) = .reject ∧ EL.lex ("1 /* " ++ t) = .ok [.int "1", .lexerr] := by
  have e : "1 /* " ++ t = String.ofList ('1' :: ' ' :: '/' :: '*' :: ' ' :: t.toList) := by
    apply String.toList_injective
    simp
  have hl := EL.lex_one_open_comment t.toList h
  rw [e]
  refine ⟨?_, hl⟩
  unfold EL.parseCode
  rw [hl]
  rfl

/-- the same at the very start of the text -/
theorem parseCode_unterminated_comment_at_start_rejected (t : String) (h : ¬ "*/".toList <:+: t.toList) :
    EL.parseCode ("/*" ++ t) = .reject ∧ EL.lex ("/*" ++ t) = .ok [.lexerr] := by
  have e : "/*" ++ t = String.ofList ('/' :: '*' :: t.toList) := by
    apply String.toList_injective
    simp
  have hl := EL.lex_open_comment t.toList h
  rw [e]
  refine ⟨?_, hl⟩
  unfold EL.parseCode
  rw [hl]
  rfl

/-- **Embedded in a directive value** (instance of `C14.embedded_literal_renders`): `<p name=d${lit}d>` with `lit`
    the literal of `pre ++ m ++ post` (`m` one of `/*`, `*/`, `//`) in a style `q` that can express it and whose text
    avoids the delimiter `d` (`C14.delimiter_free_iff`).  The HTML scanner yields one tag, `compileAttr` compiles the
    block to the literal node, and evaluating the attribute gives exactly `pre ++ m ++ post`. -/
theorem embedded_literal_with_comment_marker (q : Style) (pre post : String) {m : String} (hm : m ∈ markers)
    (hq : q.expresses (pre ++ m ++ post).toList) (d : Char) (hd : HS.isQuote d = true)
    (hds : d ∉ q.enc (pre ++ m ++ post).toList) (cfg : HS.Cfg) (ecfg : EN.Cfg) (name : List Char)
    (hn : HS.nameOk name) (hpfx : (String.ofList name).startsWith ecfg.attrPrefix = true) (tbl : Array EL.E)
    (fns : List (String × EV.FnSpec)) (sc : List EV.Val) :
    m.toList <:+: q.enc (pre ++ m ++ post).toList ∧
    ∃ tok attr cattr,
      HS.scan cfg ("<p ".toList ++ name ++ ['='] ++ attrVal d (q.enc (pre ++ m ++ post).toList) ++ ['>']) = .ok [tok] ∧
      tok.tag = some ⟨['p'], [attr]⟩ ∧
      (EN.compileAttr ecfg attr).run tbl =
        (.ok cattr, tbl.push (.lit "str" (String.ofList (q.enc (pre ++ m ++ post).toList)))) ∧
      cattr.name = String.ofList name ∧
      EN.attrEvaluate ⟨tbl.push (.lit "str" (String.ofList (q.enc (pre ++ m ++ post).toList))), fns⟩ cattr sc =
        (.ok (pre ++ m ++ post), []) := by
  refine ⟨marker_in_literal_text q pre post hm, ?_⟩
  have := embedded_literal_renders q (pre ++ m ++ post).toList hq d hd hds cfg ecfg name hn hpfx tbl fns sc
  rwa [String.ofList_toList] at this

/-! ## non-vacuity and the concrete strings of the task -/

/-- `'image/*'` -/
example : String.ofList (Style.sq.enc ("image" ++ "/*" ++ "").toList) = "'image/*'" := by decide +kernel
example : Reads "'image/*'".toList "image/*" :=
  (literal_with_comment_open .sq "image" "" trivial).2
example : "/*".toList <:+: "'image/*'".toList := (literal_with_comment_open .sq "image" "" trivial).1
/-- `` `*/*` `` : both `*/` (pre = "", post = "*") and `/*` (pre = "*", post = ""); the raw side conditions hold -/
example : String.ofList (Style.raw.enc ("" ++ "*/" ++ "*").toList) = "`*/*`" := by decide +kernel
example : Style.raw.expresses ("" ++ "*/" ++ "*").toList := ⟨by decide +kernel, by decide +kernel⟩
example : Reads "`*/*`".toList "*/*" :=
  (literal_with_comment_close .raw "" "*" ⟨by decide +kernel, by decide +kernel⟩).2
example : Reads "`*/*`".toList "*/*" :=
  (literal_with_comment_open .raw "*" "" ⟨by decide +kernel, by decide +kernel⟩).2
/-- `"a // b"` -/
example : String.ofList (Style.dq.enc ("a " ++ "//" ++ " b").toList) = "\"a // b\"" := by decide +kernel
example : Reads "\"a // b\"".toList "a // b" :=
  (literal_with_line_comment .dq "a " " b" trivial).2
/-- `'/* TODO'` : never closed, still a literal -/
example : String.ofList (Style.sq.enc ("" ++ "/*" ++ " TODO").toList) = "'/* TODO'" := by decide +kernel
example : Reads "'/* TODO'".toList "/* TODO" :=
  (literal_with_comment_open .sq "" " TODO" trivial).2
example : EL.parseCode "'/* TODO'" = .accept (.lit "str" "'/* TODO'") :=
  (parseCode_literal_not_unterminated_comment .sq "/* TODO" trivial).1
/-- … the same, evaluated by the kernel independently of the theorems -/
example : EL.lex "'image/*'" = .ok [.str "'image/*'"] ∧ EV.decodeStr "'image/*'" = .ok "image/*" := by
  decide +kernel
example : EL.lex "`*/*`" = .ok [.str "`*/*`"] ∧ EV.decodeStr "`*/*`" = .ok "*/*" := by decide +kernel
example : EL.lex "\"a // b\"" = .ok [.str "\"a // b\""] ∧ EV.decodeStr "\"a // b\"" = .ok "a // b" := by
  decide +kernel
example : EL.lex "'/* TODO'" = .ok [.str "'/* TODO'"] ∧ EV.decodeStr "'/* TODO'" = .ok "/* TODO" := by
  decide +kernel

/-- `expresses_with_marker`: for the raw style the condition is exactly the one on `pre` and `post` -/
example : ¬ Style.raw.expresses ("a`" ++ "/*" ++ "b").toList := fun h => absurd h.1 (by decide +kernel)
example : Style.raw.expresses ("a" ++ "/*" ++ "b\n").toList :=
  (expresses_with_marker .raw "a" "b\n" (by simp [markers])).2
    ⟨⟨by decide +kernel, by decide +kernel⟩, ⟨by decide +kernel, by decide +kernel⟩⟩

/-- `lexString_ignores_comment_markers`: `"/*" + x + "*/"` — the first token is the literal `"/*"`, not a comment
    running up to the later `*/` -/
example : EL.lexDefault (Style.dq.enc "/*".toList ++ " + x + \"*/\"".toList) =
    some (some (.str "\"/*\""), 4, true) :=
  lexString_ignores_comment_markers .dq _ trivial _
example : EL.parseCode "\"/*\" + x + \"*/\"" =
    .accept (.bin "+" (.bin "+" (.lit "str" "\"/*\"") (.name "x")) (.lit "str" "\"*/\"")) := by rfl
/-- outside a literal the same characters do form a comment -/
example : EL.parseCode "1 /* + x + */" = .accept (.lit "int" "1") := by rfl

/-- `parseCode_unterminated_comment_rejected`: hypothesis satisfiable; a lone `*` or `/` or `* /` in `t` is allowed -/
example : EL.parseCode ("1 /* " ++ "TODO * / '*' x") = .reject :=
  (parseCode_unterminated_comment_rejected "TODO * / '*' x" (by decide +kernel)).1
example : EL.parseCode "1 /* TODO * / '*' x" = .reject := by rfl
example : EL.parseCode ("/*" ++ " x") = .reject :=
  (parseCode_unterminated_comment_at_start_rejected " x" (by decide +kernel)).1
/-- the hypothesis is needed: with `*/` in `t` the comment is closed -/
example : EL.parseCode ("1 /* " ++ "x */") = .accept (.lit "int" "1") := by rfl
/-- token level, not text level: the text `'/* TODO'` contains `/*` and no `*/`, as does `1 /* TODO` -/
example : EL.parseCode "'/* TODO'" = .accept (.lit "str" "'/* TODO'") ∧ EL.parseCode "1 /* TODO" = .reject := ⟨by rfl, by rfl⟩

/-- `embedded_literal_with_comment_marker`: `<p :text="${'image/*'}">` -/
example : Style.sq.expresses ("image" ++ "/*" ++ "").toList ∧ '"' ∉ Style.sq.enc ("image" ++ "/*" ++ "").toList :=
  ⟨trivial, (delimiter_free_sq_in_dq _).2 (by decide)⟩
example (tbl : Array EL.E) (fns : List (String × EV.FnSpec)) (sc : List EV.Val) :
    ∃ tok attr cattr,
      HS.scan C02.cfg0 ("<p ".toList ++ ":text".toList ++ ['='] ++
        attrVal '"' (Style.sq.enc ("image" ++ "/*" ++ "").toList) ++ ['>']) = .ok [tok] ∧
      tok.tag = some ⟨['p'], [attr]⟩ ∧
      (EN.compileAttr {} attr).run tbl =
        (.ok cattr, tbl.push (.lit "str" (String.ofList (Style.sq.enc ("image" ++ "/*" ++ "").toList)))) ∧
      cattr.name = ":text" ∧
      EN.attrEvaluate ⟨tbl.push (.lit "str" (String.ofList (Style.sq.enc ("image" ++ "/*" ++ "").toList))), fns⟩
        cattr sc = (.ok ("image" ++ "/*" ++ ""), []) :=
  (embedded_literal_with_comment_marker .sq "image" "" (by simp [markers]) trivial '"' (by decide)
    ((delimiter_free_sq_in_dq _).2 (by decide)) C02.cfg0 {} _ name_text_ok (by decide +kernel) tbl fns sc).2
example : String.ofList ("<p ".toList ++ ":text".toList ++ ['='] ++
    attrVal '"' (Style.sq.enc ("image" ++ "/*" ++ "").toList) ++ ['>']) = "<p :text=\"${'image/*'}\">" := by
  decide +kernel

end C14C
