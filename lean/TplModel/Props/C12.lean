import TplModel.Props.RenderProps
import TplModel.Props.C05refine
import TplModel.Props.C09arith
import TplModel.Props.C12eval
/-! # C12 — failures propagate; unselected operands are not evaluated

OBLIGATIONS: RN.exec_refines_ref, RN.execute_refines, C09arith.wrong_kind_is_error, C09arith.wrong_kind_is_error_int, C09arith.wrong_kind_is_error_ord, C09arith.div_zero_panics, C09arith.mod_zero_panics, C09arith.shl_negative_panics, EV.sticky_is_first_failure, EV.sticky_exception_exact, EV.short_circuit_and, EV.short_circuit_or, EV.cond_selects_true, EV.cond_selects_false, EV.error_propagates_deep, EV.nothing_called_after_failure, EV.calls_before_failure_kept, EV.panic_propagates_deep, EV.error_propagates_arg, EV.error_propagates_callee, EV.no_call_after_failure, EV.error_propagates_fn_result, EV.calls_are_prefix_closed, EV.no_value_for_failure, EV.eval_mono, RN.Props.error_stops_render, RN.Props.error_stops_render_indep, RN.Props.step_output_is_prefix, RN.Props.output_is_prefix, RN.Props.output_text_is_prefix

Template level: in the specification every phase is sequenced with `Q.andThen`, which stops at the first non-ok
status, keeps the chunks written so far and appends nothing afterwards (`andThen_stops` below); the refinement
theorem transfers this to the implementation model. Expression level: operator failures are errors/panics of the
pure operator functions (C09arith); the tree-walk theorems about the total evaluator `EV.eval` (sticky first error,
short circuit, propagation at every depth, no user function called after the first failure, call log) are in
`TplModel/Props/C12eval.lean`. -/
namespace C12

/-- sequencing stops at the first failure: nothing is written or logged after it, and what was written before is kept -/
theorem andThen_stops (r : RN.Q) (k : RN.NC → RN.Q) (h : r.st ≠ .ok) : r.andThen k = r := by
  unfold RN.Q.andThen
  cases hs : r.st with
  | ok => exact absurd hs h
  | err c => simp
  | fuel => simp

/-- on success the output of the continuation is appended: output of a failing continuation extends the prefix -/
theorem andThen_prefix (r : RN.Q) (k : RN.NC → RN.Q) (h : r.st = .ok) :
    (r.andThen k).out = r.out ++ (k r.nc).out ∧ (r.andThen k).log = r.log ++ (k r.nc).log ∧ (r.andThen k).st = (k r.nc).st := by
  unfold RN.Q.andThen
  simp [h]

end C12
