import TplModel.Props.C19
import TplModel.Proofs.FsLoader
/-! # C19 for the concrete loader — the abstract walk instantiated with `EN.addFile` / `EN.loadFiles`

"Parsing a file system registers exactly the files accepted by the suffix, pattern or predicate, recursively, each under
its slash-separated path relative to the configured sub-directory, plus every fragment they define, in one namespace. A
second registration of a name fails with the duplicate-name error, looking up an unregistered name fails with the
not-found error, files that do not match are never read, …"

OBLIGATIONS: EN.canon_any, EN.canon_names, EN.addFile_ok_names, EN.addFile_names, EN.addFile_okOrErr, EN.addFile_dup_err, EN.addFile_name_taken, EN.collect_defSeq, EN.addDefined_clash, EN.loads_iff_parses, EN.fragNames_eq_definedBy, EN.addFile_clash_err, FP.add_sim, FP.add_err_kind, FP.walk_sim, C19.loader_simulation, C19.loader_fails_at_same_file, C19.loader_ok_iff, C19.loader_registers_exactly, C19.loadFiles_registers_exactly, C19.loader_duplicate_is_error, C19.loader_duplicate_is_error_global, C19.loader_unregistered_not_found, C19.loader_error_state, C19.loader_define_name_error, FP.add_state, C19.LoaderExample.define_eval_state, C19.LoaderExample.define_eval_kind

`Props/C19.lean` proves the registry statements for the abstract walk `FP.run` in which a file is an opaque `Content`
(a load-error flag and the list of its `define`s: `some name`, or `none` for a `define` whose name fails to evaluate).
`Props/Loader.lean` / `Props/C07order.lean` prove statements about the concrete loader `EN.addFile` / `EN.loadFiles` on
source TEXT.  Here the two are connected (`TplModel/Proofs/FsLoader.lean`):

* `FP.contentOf cfg fns src` — the `Content` of a text, in the two steps of `tplManager.Add`:
  `loadErr := ¬ EN.parses cfg src` (scanning, compiling the `${…}` blocks or tree building fails — what `Add` does BEFORE
  it registers the file), `defines := EN.defsOf cfg fns src` (the `define`s in the pre-order of `EN.addDefined`, computed
  by `EN.defSeq` from `EN.defOf`: `some name` for each `define` whose name evaluates, `none` at the first one whose name
  does not, nothing behind it — what `addDefinedTpl` meets AFTER the file was registered).  Neither depends on the file
  name.  `EN.definedBy` are the names in front of that `none`, `EN.nameFails` says there is one.  The text compiles on its
  own (`EN.loads`, i.e. `EN.canon` succeeds) iff it parses and no name fails (`EN.loads_iff_parses`), and then
  `EN.definedBy` is `EN.fragNames` (`EN.fragNames_eq_definedBy`).
* `FP.Src` (path, isDir, text) is a fault-free file tree as the walk meets it, `FP.entriesOf` its `FP.Entry` list,
  `FP.visited mt xs` the (path, text) list of the accepted files, which is what `EN.loadFiles` receives.
* `loader_simulation`: `FP.run` on those entries succeeds iff `EN.loadFiles` does, and then both registries list the same
  names in the same order, the same files, and `getTemplate` finds exactly the names `(envOf m).tpl` resolves.
  Applied to every prefix of the tree this says that both stop at the same file; `loader_fails_at_same_file` spells it out,
  with the error kind of `FP` characterised on the loader's notions and `EN`'s error class.
* the headline statements of C19 for `EN.loadFiles`, derived from the `FP` theorems through the simulation:
  `loader_ok_iff`, `loader_registers_exactly`, `loader_duplicate_is_error(_global)`, `loader_unregistered_not_found`.

## What each model does with a file that FAILS, and the Go code (html/manager.go `Add`, `addDefinedTpl`)

Go: `Add` tests the file name against `m.templates` FIRST (duplicate error, nothing scanned); then scans and parses (an
error here returns before anything is registered); then stores the file in `files` and `templates`; then `addDefinedTpl`
walks the tree in pre-order and for every `define` (1) evaluates the name — an evaluation error is returned at once, as it
is (it is not the duplicate-name error) — (2) tests it against `templates` — duplicate error — (3) stores it.  Nothing is
ever rolled back: after a failing `Add` the file and the fragments registered before the failing one STAY registered
(observed on HEAD with `fstest.MapFS`; see the examples at the end).

* `FP.add` (abstract model): the same order — name test, `loadErr`, register the file, then `addDefines` one by one; the
  first `none` aborts with `load`, the first taken name aborts with `duplicate`, and in both cases the file and the earlier
  fragments stay registered (`C19.dupTree`, `C19.nameErrTree`, `FP.addDefines_templates`, `C19.define_name_error`).
* `EN.addFile` (concrete model): returns `LoadRes Mgr`; on a failure there is NO manager, so it says nothing about what
  stays registered (`EN.registerFile`'s comment notes that the file "would stay registered").  Its outcome is not-ok, like
  Go's, for each kind of failure; the class is `.err` for a taken file name, a scan/parse error, a failing `define`
  name and a duplicate fragment alike (`.panic`/`.unsupported` are model-only classes), and the tests come in Go's order
  (name test before scanning; `define` names evaluated and tested one by one in pre-order, `EN.addDefined`).
* **No deviation.**  With `contentOf` as above the instantiated abstract walk answers what Go answers on EVERY tree of
  texts, also when the name of a `define` fails to evaluate (the former deviation: `FP.Content` could not express it and
  `contentOf` folded it into `loadErr`, which is tested before anything is registered):
  1. one file `a.html` = `<p :define="'x'">1</p><p :define>2</p>`: Go returns "attribute value expected" and
     `Templates()` = {`a.html`, `'x'`}; `FP.run` returns `err load` with exactly these registered
     (`LoaderExample.define_eval_state`; the same with `:define="${1/0}"`, `define_eval_state_div`).
  2. `a.html` = `<p :define="x">1</p>`, `b.html` = `<p :define="x">1</p><p :define>2</p>`: Go returns the DUPLICATE-name
     error for `x` (it is met first) with `b.html` registered; so does `FP.run` (`LoaderExample.define_eval_kind`).
     `EN.loadFiles` returns `.err` in both cases (no kind, no state).
  The error KIND and the LEFTOVER STATE are statements about `FP` (instantiated with `contentOf`) versus Go only, since
  `EN.addFile` has no state on failure: `loader_fails_at_same_file` gives the kind on the loader's notions (in the order
  in which `Add` meets the conditions), `loader_error_state` gives what stays registered for every failing file, and
  `loader_define_name_error` is the case of a failing `define` name.  What ties these to `EN` is: the same file fails
  (`loader_simulation` on every prefix), a clash in front of the failing name makes `EN.addFile` return `.err`
  (`EN.addFile_clash_err`), and `contentOf` is computed from `EN`'s own traversal (`EN.collect_defSeq`: `EN.defSeq` lists
  exactly the names `EN.collect`/`EN.addDefined` register, and has a `none` exactly when they fail on a name). -/
namespace C19
open FP
open EN (names Fresh)

variable (cfg : EN.Cfg) (fns : List (String × EV.FnSpec)) (mt : String → Bool)

/-! ## the simulation -/

/-- **loader_simulation.** For every fault-free tree of source texts and every matcher: the abstract walk over the
    entries computed by the concrete loader succeeds iff `EN.loadFiles` succeeds on the visited files, and then the two
    registries are the same list of names, the file lists are the same, and `getTemplate` finds a name iff the manager
    resolves it. -/
theorem loader_simulation (xs : List Src) :
    ((run mt (entriesOf cfg fns xs)).1 = .ok ↔ ∃ m, EN.loadFiles cfg fns (visited mt xs) = .ok m) ∧
    ∀ m, EN.loadFiles cfg fns (visited mt xs) = .ok m →
      (run mt (entriesOf cfg fns xs)).2.templates = names m.templates ∧
      (run mt (entriesOf cfg fns xs)).2.files = m.files ∧
      ∀ name, getTemplate (run mt (entriesOf cfg fns xs)).2 name = .found ↔ (EN.envOf m).tpl name ≠ none := by
  obtain ⟨h1, h2⟩ := walk_sim cfg fns mt xs 0 {} (EN.emptyMgr cfg fns) (sim_empty cfg fns)
  refine ⟨h1, fun m hm => ?_⟩
  obtain ⟨h3, h4⟩ := h2 m hm
  refine ⟨h3, h4, fun name => ?_⟩
  have hl : (EN.envOf m).tpl name = none ↔ name ∉ names m.templates := EN.lookupL_none m.templates name
  rw [Ne, hl]
  simp only [getTemplate, run, h3]
  split <;> simp [*]

/-- the walk from a registry that agrees with a manager continues exactly like the loader (arbitrary start: also a
    second `Parse` on the same manager) -/
theorem loader_simulation_from (xs : List Src) (i : Nat) (s : State) (m : EN.Mgr) (h : Sim s m) :
    ((walk mt s (entriesOf cfg fns xs)).1 = .ok ↔ ∃ m', EN.loadFrom cfg fns i (visited mt xs) m = .ok m') ∧
    ∀ m', EN.loadFrom cfg fns i (visited mt xs) m = .ok m' → Sim (walk mt s (entriesOf cfg fns xs)).2 m' :=
  walk_sim cfg fns mt xs i s m h

/-- the situation after a prefix `pre` the loader parsed successfully (manager `mg`), in front of the next accepted file
    `x`: the walk reached a state `s0` that agrees with `mg` and logged exactly the visited files; what follows is the
    visit of `x`, i.e. `Add` on the content computed from its text, then the deferred `Close` -/
theorem pre_step (pre : List Src) (x : Src) (mg : EN.Mgr)
    (hpre : EN.loadFiles cfg fns (visited mt pre) = .ok mg) (hacc : x.isDir = false ∧ mt x.path = true) :
    ∃ s0 s1 : State, run mt (entriesOf cfg fns pre) = (.ok, s0) ∧ s1 = { s0 with opens := s0.opens ++ [x.path] } ∧
      s1.templates = names mg.templates ∧ s1.files = mg.files ∧
      s1.opens = (visited mt pre).map (·.1) ++ [x.path] ∧ s1.closes = (visited mt pre).map (·.1) ∧
      (∀ rest, run mt (entriesOf cfg fns (pre ++ x :: rest)) =
        match closeFile x.path (add s1 x.path (contentOf cfg fns x.src)) with
        | (.ok, s') => walk mt s' (entriesOf cfg fns rest)
        | (.err k, s') => (.err k, s')) ∧
      (∀ rest, EN.loadFiles cfg fns (visited mt (pre ++ x :: rest)) =
        EN.loadFrom cfg fns (visited mt pre).length ((x.path, x.src) :: visited mt rest) mg) := by
  have hacc' : (!x.isDir && mt x.path) = true := by simp [hacc.1, hacc.2]
  obtain ⟨p1, _⟩ := loader_simulation cfg fns mt pre
  have hokpre : (walk mt {} (entriesOf cfg fns pre)).1 = .ok := p1.mpr ⟨mg, hpre⟩
  obtain ⟨hsim, hsimf⟩ : Sim (walk mt {} (entriesOf cfg fns pre)).2 mg :=
    (walk_sim cfg fns mt pre 0 {} (EN.emptyMgr cfg fns) (sim_empty cfg fns)).2 mg hpre
  obtain ⟨_, _, ho, hc⟩ := walk_ok mt {} (entriesOf cfg fns pre) hokpre
  rw [acceptedPaths_entriesOf] at ho hc
  rcases hw : walk mt {} (entriesOf cfg fns pre) with ⟨r0, s0⟩
  rw [hw] at hokpre hsim hsimf ho hc
  simp only [List.nil_append] at hokpre hsim hsimf ho hc
  subst hokpre
  refine ⟨s0, _, hw, rfl, hsim, hsimf, by simp [ho], hc, fun rest => ?_, fun rest => ?_⟩
  · have hvis := visit_entryOf cfg fns mt s0 x
    rw [if_pos hacc'] at hvis
    simp only [run]
    rw [entriesOf_append, walk_append, hw]
    simp only [entriesOf, List.map_cons, walk]
    rw [hvis]
    rfl
  · rw [visited_append, visited_cons, if_pos hacc']
    have := EN.loadFrom_append_ok cfg fns (visited mt pre) ([(x.path, x.src)] ++ visited mt rest) 0 _ mg hpre
    rw [Nat.zero_add] at this
    exact this

/-- **both stop at the same file.** `pre` was parsed successfully by the loader (manager `mg`; by `loader_simulation`
    the walk then also succeeded on `pre` with the same registry) and `x` is the next accepted file.  Then
    * the walk continues past `x` iff `EN.addFile` adds `x`;
    * otherwise both stop AT `x`, whatever follows: the walk returns the error `k` of `x`, which is `duplicate` or `load`,
      and `EN.loadFiles` returns the failure of `addFile` on `x`;
    * `k = duplicate` iff the path of `x` is registered already (by a file or a fragment of `pre`), or `x` parses and one
      of its fragment names in front of the first failing `define` name is taken — by `pre`, by the path of `x`, or by an
      earlier fragment of `x` (`¬ Fresh`); in that case `addFile` fails with `.err`;
    * `k = load` iff the path is free and either the text does not parse, or those names are all fresh and the name of a
      `define` fails to evaluate (the order in which `Add`/`addDefinedTpl` meet the conditions). -/
theorem loader_fails_at_same_file (pre : List Src) (x : Src) (post : List Src) (mg : EN.Mgr)
    (hpre : EN.loadFiles cfg fns (visited mt pre) = .ok mg) (hacc : x.isDir = false ∧ mt x.path = true) :
    let r := EN.addFile cfg fns ((visited mt pre).length + 1) x.path x.src mg
    ((run mt (entriesOf cfg fns (pre ++ [x]))).1 = .ok ↔ ∃ m1, r = .ok m1) ∧
    ∀ k, (run mt (entriesOf cfg fns (pre ++ [x]))).1 = .err k →
      (run mt (entriesOf cfg fns (pre ++ x :: post))).1 = .err k ∧
      (run mt (entriesOf cfg fns (pre ++ x :: post))).2 = (run mt (entriesOf cfg fns (pre ++ [x]))).2 ∧
      EN.loadFiles cfg fns (visited mt (pre ++ x :: post)) = r ∧ (∀ m1, r ≠ .ok m1) ∧
      (k = .duplicate ∨ k = .load) ∧
      (k = .duplicate ↔ x.path ∈ names mg.templates ∨
        (EN.parses cfg x.src = true ∧ ¬ Fresh (names mg.templates) (x.path :: EN.definedBy cfg fns x.src))) ∧
      (k = .duplicate → r = .err) ∧
      (k = .load ↔ x.path ∉ names mg.templates ∧
        (EN.parses cfg x.src = false ∨
          (Fresh (names mg.templates) (x.path :: EN.definedBy cfg fns x.src) ∧ EN.nameFails cfg fns x.src = true))) := by
  intro r
  obtain ⟨s0, s1, _, _, hs1t, hs1f, _, _, hstep, hload⟩ := pre_step cfg fns mt pre x mg hpre hacc
  have hkind := add_err_kind cfg fns x.path x.src s1
  rw [hs1t] at hkind
  have hiff := (add_sim cfg fns ((visited mt pre).length + 1) x.path x.src s1 mg ⟨hs1t, hs1f⟩).1
  rcases hadd : add s1 x.path (contentOf cfg fns x.src) with ⟨rr, ss⟩
  rw [hadd] at hkind hiff hstep
  simp only [closeFile] at hstep hkind hiff
  have hrun1 : (run mt (entriesOf cfg fns (pre ++ [x]))).1 = rr := by
    rw [hstep []]
    cases rr <;> simp [entriesOf, walk]
  refine ⟨by rw [hrun1]; exact hiff, fun k hk => ?_⟩
  rw [hrun1] at hk
  subst hk
  have hno : ∀ m1, r ≠ .ok m1 := fun m1 hm1 => by
    have := hiff.mpr ⟨m1, hm1⟩
    cases this
  have hL : EN.loadFiles cfg fns (visited mt (pre ++ x :: post)) = r := by
    rw [hload post]
    exact EN.loadFrom_cons_fail cfg fns _ (x.path, x.src) _ mg hno
  have hsplit : (k = .duplicate ∨ k = .load) ∧
      (k = .duplicate ↔ x.path ∈ names mg.templates ∨
        (EN.parses cfg x.src = true ∧ ¬ Fresh (names mg.templates) (x.path :: EN.definedBy cfg fns x.src))) ∧
      (k = .load ↔ x.path ∉ names mg.templates ∧
        (EN.parses cfg x.src = false ∨
          (Fresh (names mg.templates) (x.path :: EN.definedBy cfg fns x.src) ∧ EN.nameFails cfg fns x.src = true))) := by
    by_cases h1 : x.path ∈ names mg.templates
    · rw [if_pos h1] at hkind; cases hkind; simp [h1]
    · rw [if_neg h1] at hkind
      by_cases h2 : EN.parses cfg x.src = false
      · rw [if_pos h2] at hkind; cases hkind; simp [h1, h2]
      · rw [if_neg h2] at hkind
        have h2' : EN.parses cfg x.src = true := by simpa using h2
        by_cases h3 : Fresh (names mg.templates) (x.path :: EN.definedBy cfg fns x.src)
        · rw [if_pos h3] at hkind
          cases h4 : EN.nameFails cfg fns x.src
          · rw [h4] at hkind; simp at hkind
          · rw [h4] at hkind
            simp only [if_true, Result.err.injEq] at hkind
            subst hkind
            simp [h1, h2', h3]
        · rw [if_neg h3] at hkind; cases hkind; simp [h1, h2', h3]
  obtain ⟨hk1, hk2, hk3⟩ := hsplit
  refine ⟨by rw [hstep post], by rw [hstep post, hstep []], hL, hno, hk1, hk2, fun hk => ?_, hk3⟩
  rcases hk2.mp hk with h | ⟨h, hf⟩
  · exact EN.addFile_name_taken cfg fns _ _ _ mg h
  · exact EN.addFile_clash_err cfg fns _ _ _ mg h hf

/-- **what stays registered after the failing file** (abstract walk versus Go; `EN.addFile` returns no manager on
    failure).  In the situation of `loader_fails_at_same_file`, when `x` is not added: the registry is the one of `mg`,
    plus — only if the path of `x` is free and the text parses — the path of `x` and, of its fragment names in front of
    the first failing `define` name, those up to, not including, the first taken one (`FP.regPrefix`); `x` is a
    registered file in exactly that case; the files opened are the visited files of `pre` and `x`, and all of them are
    closed.  This is what Go leaves registered (nothing is rolled back), for EVERY kind of failure: taken file name,
    scan/parse error (nothing new), duplicate fragment, failing `define` name (the file and the fragments before it). -/
theorem loader_error_state (pre : List Src) (x : Src) (post : List Src) (mg : EN.Mgr)
    (hpre : EN.loadFiles cfg fns (visited mt pre) = .ok mg) (hacc : x.isDir = false ∧ mt x.path = true)
    (hfail : (run mt (entriesOf cfg fns (pre ++ [x]))).1 ≠ .ok) :
    let st := (run mt (entriesOf cfg fns (pre ++ x :: post))).2
    let stays := x.path ∉ names mg.templates ∧ EN.parses cfg x.src = true
    st.templates = names mg.templates ++
      (if stays then x.path :: regPrefix (names mg.templates ++ [x.path]) (EN.definedBy cfg fns x.src) else []) ∧
    st.files = mg.files ++ (if stays then [x.path] else []) ∧
    st.opens = (visited mt pre).map (·.1) ++ [x.path] ∧ st.closes = st.opens := by
  intro st stays
  obtain ⟨s0, s1, _, _, hs1t, hs1f, hs1o, hs1c, hstep, _⟩ := pre_step cfg fns mt pre x mg hpre hacc
  obtain ⟨a1, a2, a3, a4⟩ := add_state s1 x.path (contentOf cfg fns x.src)
  rw [hs1t] at a1 a2
  rw [hs1f] at a2
  rw [hs1o] at a3
  rw [hs1c] at a4
  have hst : st = (closeFile x.path (add s1 x.path (contentOf cfg fns x.src))).2 := by
    show (run mt (entriesOf cfg fns (pre ++ x :: post))).2 = _
    rw [hstep [] ] at hfail
    rw [hstep post]
    rcases hcf : closeFile x.path (add s1 x.path (contentOf cfg fns x.src)) with ⟨rr, ss⟩
    rw [hcf] at hfail
    cases rr with
    | ok => simp [entriesOf, walk] at hfail
    | err k => rfl
  have hcond : (x.path ∈ names mg.templates ∨ (contentOf cfg fns x.src).loadErr = true) ↔ ¬ stays := by
    show _ ↔ ¬ (x.path ∉ names mg.templates ∧ EN.parses cfg x.src = true)
    cases hl : EN.parses cfg x.src <;> simp [contentOf, hl]
  simp only [hst, closeFile]
  refine ⟨?_, ?_, a3, ?_⟩
  · rw [a1]
    by_cases hs : stays
    · rw [if_neg (fun h => hcond.mp h hs), if_pos hs]; rfl
    · rw [if_pos (hcond.mpr hs), if_neg hs]
  · rw [a2]
    by_cases hs : stays
    · rw [if_neg (fun h => hcond.mp h hs), if_pos hs]
    · rw [if_pos (hcond.mpr hs), if_neg hs]
  · rw [a3, a4]

/-- **a `define` whose name fails to evaluate** (the former deviation, now a theorem).  `pre` was parsed (manager `mg`),
    the next accepted file `x` has a free path, parses, the fragment names in front of its first failing `define` name are
    fresh, and a `define` name does fail.  Then, whatever follows: the walk returns the evaluation error (kind `load`,
    not `duplicate`), `EN.loadFiles` does not succeed either, and — as in Go, where nothing is rolled back — `x` and all
    those fragments ARE registered on top of the registry of `mg`; `x` was opened and closed. -/
theorem loader_define_name_error (pre : List Src) (x : Src) (post : List Src) (mg : EN.Mgr)
    (hpre : EN.loadFiles cfg fns (visited mt pre) = .ok mg) (hacc : x.isDir = false ∧ mt x.path = true)
    (hparses : EN.parses cfg x.src = true)
    (hfresh : Fresh (names mg.templates) (x.path :: EN.definedBy cfg fns x.src))
    (hfails : EN.nameFails cfg fns x.src = true) :
    let st := (run mt (entriesOf cfg fns (pre ++ x :: post))).2
    (run mt (entriesOf cfg fns (pre ++ x :: post))).1 = .err .load ∧
    (∀ m, EN.loadFiles cfg fns (visited mt (pre ++ x :: post)) ≠ .ok m) ∧
    st.templates = names mg.templates ++ x.path :: EN.definedBy cfg fns x.src ∧
    st.files = mg.files ++ [x.path] ∧
    st.opens = (visited mt pre).map (·.1) ++ [x.path] ∧ st.closes = st.opens := by
  intro st
  obtain ⟨hok, hk⟩ := loader_fails_at_same_file cfg fns mt pre x post mg hpre hacc
  have hnl : ¬ EN.loads cfg fns x.src = true := fun h => by
    have := ((EN.loads_iff_parses cfg fns x.src).mp h).2
    rw [hfails] at this; cases this
  have hnot : ∀ m1, EN.addFile cfg fns ((visited mt pre).length + 1) x.path x.src mg ≠ .ok m1 := fun m1 hm1 =>
    hnl ((EN.addFile_ok_names cfg fns _ x.path x.src mg).mp ⟨m1, hm1⟩).1
  have hfail : (run mt (entriesOf cfg fns (pre ++ [x]))).1 ≠ .ok := fun h => by
    obtain ⟨m1, hm1⟩ := hok.mp h
    exact hnot m1 hm1
  cases hr : (run mt (entriesOf cfg fns (pre ++ [x]))).1 with
  | ok => exact absurd hr hfail
  | err k =>
    obtain ⟨k1, _, k3, k4, _, _, _, k8⟩ := hk k hr
    have hkl : k = .load := k8.mpr ⟨hfresh.1, Or.inr ⟨hfresh, hfails⟩⟩
    subst hkl
    obtain ⟨e1, e2, e3, e4⟩ := loader_error_state cfg fns mt pre x post mg hpre hacc hfail
    have hstays : x.path ∉ names mg.templates ∧ EN.parses cfg x.src = true := ⟨hfresh.1, hparses⟩
    rw [if_pos hstays] at e1 e2
    refine ⟨k1, fun m hm => k4 m (k3 ▸ hm), ?_, e2, e3, e4⟩
    rw [e1, regPrefix_of_fresh hfresh.2]

/-! ## the C19 statements for `EN.loadFiles` -/

/-- the names the visited files of a tree ask to register: each path followed by the fragment names of its text (those in
    front of the first failing `define` name; all of them when the text compiles on its own) -/
def requested (xs : List Src) : List String :=
  (xs.filter fun x => !x.isDir && mt x.path).flatMap fun x => x.path :: EN.definedBy cfg fns x.src

theorem requested_eq (xs : List Src) : requested cfg fns mt xs = allNames mt (entriesOf cfg fns xs) := by
  rw [allNames_entriesOf]
  simp [requested, visited, List.flatMap_map]

/-- when every visited file compiles on its own, `requested` is each path followed by `EN.fragNames` of its text -/
theorem requested_of_loads (xs : List Src) (hload : ∀ f ∈ visited mt xs, EN.loads cfg fns f.2 = true) :
    requested cfg fns mt xs =
      (xs.filter fun x => !x.isDir && mt x.path).flatMap fun x => x.path :: EN.fragNames cfg fns x.src := by
  unfold requested
  have : ∀ x ∈ xs.filter (fun x => !x.isDir && mt x.path), EN.loads cfg fns x.src = true := by
    intro x hx
    exact hload (x.path, x.src) (by simp only [visited, List.mem_map]; exact ⟨x, hx, rfl⟩)
  generalize xs.filter (fun x => !x.isDir && mt x.path) = l at this
  induction l with
  | nil => rfl
  | cons x l ih =>
    simp only [List.flatMap_cons]
    rw [ih (fun y hy => this y (List.mem_cons_of_mem _ hy)), EN.fragNames_eq_definedBy (this x (by simp))]

/-- **loader_ok_iff.** The loader parses a tree iff every visited file compiles on its own (it parses and no `define` name
    fails to evaluate, `EN.loads_iff_parses`) and no name — path or fragment name — is requested twice
    (`C19.ok_iff_clean` through the simulation). -/
theorem loader_ok_iff (xs : List Src) :
    (∃ m, EN.loadFiles cfg fns (visited mt xs) = .ok m) ↔
      (∀ f ∈ visited mt xs, EN.loads cfg fns f.2 = true) ∧ (requested cfg fns mt xs).Nodup := by
  rw [← (loader_simulation cfg fns mt xs).1, ok_iff_clean, Clean, noFsFault_entriesOf, requested_eq]

/-- the registry of a loaded manager is `requested` -/
theorem loader_registry_eq_requested (xs : List Src) (m : EN.Mgr) (h : EN.loadFiles cfg fns (visited mt xs) = .ok m) :
    names m.templates = requested cfg fns mt xs := by
  obtain ⟨h1, h2⟩ := loader_simulation cfg fns mt xs
  have hok := h1.mpr ⟨m, h⟩
  obtain ⟨ht, _, _⟩ := h2 m h
  have r2 := (templates_are_files_plus_defines mt _ hok).1
  rw [ht] at r2
  rw [requested_eq]
  exact r2

/-- **loader_registers_exactly.** If the loader parses a tree, its files are exactly the paths of the non-directory
    entries accepted by the matcher, at any depth, in walk order; its registry is, for each of them in order, the path
    followed by the fragment names of its text — one namespace, no name twice.  A file that does not match contributes
    nothing, whatever its text. (`C19.registered_exactly`, `C19.templates_are_files_plus_defines`.) -/
theorem loader_registers_exactly (xs : List Src) (m : EN.Mgr) (h : EN.loadFiles cfg fns (visited mt xs) = .ok m) :
    m.files = (xs.filter fun x => !x.isDir && mt x.path).map (·.path) ∧
    names m.templates =
      (xs.filter fun x => !x.isDir && mt x.path).flatMap (fun x => x.path :: EN.fragNames cfg fns x.src) ∧
    (names m.templates).Nodup := by
  obtain ⟨h1, h2⟩ := loader_simulation cfg fns mt xs
  have hok := h1.mpr ⟨m, h⟩
  obtain ⟨ht, hf, _⟩ := h2 m h
  have r1 := registered_exactly mt _ hok
  obtain ⟨_, _, r3⟩ := templates_are_files_plus_defines mt _ hok
  rw [hf] at r1
  rw [ht] at r3
  have r1' : m.files = acceptedPaths mt (entriesOf cfg fns xs) := r1
  rw [acceptedPaths_entriesOf] at r1'
  have hload := ((loader_ok_iff cfg fns mt xs).mp ⟨m, h⟩).1
  refine ⟨?_, ?_, r3⟩
  · rw [r1']; simp [visited]
  · rw [loader_registry_eq_requested cfg fns mt xs m h, requested_of_loads cfg fns mt xs hload]

/-- a list of (name, text) pairs as a flat tree in which everything matches -/
def flat (files : List (String × String)) : List Src := files.map fun f => { path := f.1, src := f.2 }

theorem visited_flat (files : List (String × String)) : visited (fun _ => true) (flat files) = files := by
  induction files with
  | nil => rfl
  | cons f fs ih => rw [flat, List.map_cons, visited_cons, ← flat, ih]; rfl

/-- the same for `EN.loadFiles` on ANY list of (name, text) pairs, without a tree: the registry of a loaded manager is
    each file name followed by the fragment names of its text -/
theorem loadFiles_registers_exactly (files : List (String × String)) (m : EN.Mgr)
    (h : EN.loadFiles cfg fns files = .ok m) :
    m.files = files.map (·.1) ∧
    names m.templates = files.flatMap (fun f => f.1 :: EN.fragNames cfg fns f.2) ∧ (names m.templates).Nodup := by
  have := loader_registers_exactly cfg fns (fun _ => true) (flat files) m (by rw [visited_flat]; exact h)
  have hfl : (flat files).filter (fun x => !x.isDir && (fun _ => true) x.path) = flat files := by
    rw [List.filter_eq_self]; intro a ha; simp only [flat, List.mem_map] at ha; obtain ⟨f, _, rfl⟩ := ha; rfl
  rw [hfl] at this
  simpa [flat, List.flatMap_map, Function.comp_def] using this

/-- **loader_duplicate_is_error.** A second registration of a name fails with the duplicate-name error: `pre` was parsed
    (manager `mg`), the next accepted file `x` asks for a name that is taken — its path, or (the text parses) one of its
    fragment names in front of the first failing `define` name (all of them if the text compiles on its own) against
    everything registered before, including fragments of earlier files, the path of `x` and earlier fragments of `x`.
    Then the walk returns `duplicate` and `EN.loadFiles` returns `.err`, whatever follows — also when a `define` name
    BEHIND the clash fails to evaluate.  (`C19.duplicate_is_error` through the simulation, `EN.addFile_clash_err`.) -/
theorem loader_duplicate_is_error (pre : List Src) (x : Src) (post : List Src) (mg : EN.Mgr)
    (hpre : EN.loadFiles cfg fns (visited mt pre) = .ok mg) (hacc : x.isDir = false ∧ mt x.path = true)
    (hdup : ¬ (names mg.templates ++ x.path :: EN.definedBy cfg fns x.src).Nodup)
    (hearly : x.path ∈ names mg.templates ∨ EN.parses cfg x.src = true) :
    (run mt (entriesOf cfg fns (pre ++ x :: post))).1 = .err .duplicate ∧
    EN.loadFiles cfg fns (visited mt (pre ++ x :: post)) = .err := by
  obtain ⟨h1, h2⟩ := loader_simulation cfg fns mt pre
  have hokpre := h1.mpr ⟨mg, hpre⟩
  have hnames : allNames mt (entriesOf cfg fns pre) = names mg.templates := by
    rw [← (h2 mg hpre).1, (templates_are_files_plus_defines mt _ hokpre).1]; rfl
  have hd : ∀ post' : List Entry,
      (run mt (entriesOf cfg fns pre ++ entryOf cfg fns x :: post')).1 = .err .duplicate := by
    intro post'
    apply duplicate_is_error mt _ _ _ ((ok_iff_clean mt _).mp hokpre) rfl hacc rfl
    · rw [allNames_append, allNames_cons, allNames_nil, hnames, entryOf_accepted]
      simpa [hacc.1, hacc.2, Entry.names, entryOf, contentOf_names] using hdup
    · rw [hnames]
      rcases hearly with h | h
      · exact Or.inl h
      · exact Or.inr (by simp [entryOf, contentOf, h])
  have hd' : (run mt (entriesOf cfg fns (pre ++ x :: post))).1 = .err .duplicate := by
    rw [entriesOf_append]; exact hd _
  have hd1 : (run mt (entriesOf cfg fns (pre ++ [x]))).1 = .err .duplicate := by
    rw [entriesOf_append]; exact hd []
  refine ⟨hd', ?_⟩
  obtain ⟨_, hk⟩ := loader_fails_at_same_file cfg fns mt pre x post mg hpre hacc
  obtain ⟨_, _, hL, _, _, _, herr, _⟩ := hk .duplicate hd1
  rw [hL]; exact herr rfl

/-- **global form.** Every visited file compiles on its own and some name is requested twice (anywhere in the tree):
    the walk returns `duplicate` and `EN.loadFiles` returns `.err`. -/
theorem loader_duplicate_is_error_global (xs : List Src)
    (hload : ∀ f ∈ visited mt xs, EN.loads cfg fns f.2 = true) (hdup : ¬ (requested cfg fns mt xs).Nodup) :
    (run mt (entriesOf cfg fns xs)).1 = .err .duplicate ∧ EN.loadFiles cfg fns (visited mt xs) = .err := by
  have hd := duplicate_is_error_global mt (entriesOf cfg fns xs) ((noFsFault_entriesOf cfg fns mt xs).mpr hload)
    (by rw [← requested_eq]; exact hdup)
  refine ⟨hd, ?_⟩
  obtain ⟨pre, e, post, hes, hc, hf⟩ := error_has_first_fault mt _ _ hd
  -- split the source tree at the failing entry
  obtain ⟨pre', rest', hxs, hp, hr⟩ := List.map_eq_append_iff.mp hes
  obtain ⟨x, post', hrest, hx, hpost⟩ := List.map_eq_cons_iff.mp hr
  subst hxs hrest
  have hp' : entriesOf cfg fns pre' = pre := hp
  subst hp' hx
  have hokpre := (ok_iff_clean mt _).mpr hc
  obtain ⟨mg, hmg⟩ := (loader_simulation cfg fns mt pre').1.mp hokpre
  -- the failing entry is an accepted file
  have hacc : x.isDir = false ∧ mt x.path = true := by
    cases hd : x.isDir <;> cases hm : mt x.path
    · exfalso; simp [faultOf, Entry.accepted, entryOf, hd, hm] at hf
    · exact ⟨rfl, rfl⟩
    · exfalso; simp [faultOf, Entry.accepted, entryOf, hd, hm] at hf
    · exfalso; simp [faultOf, Entry.accepted, entryOf, hd, hm] at hf
  have hd1 : (run mt (entriesOf cfg fns (pre' ++ [x]))).1 = .err .duplicate := by
    have := (fs_error_returned mt (entriesOf cfg fns pre') (entryOf cfg fns x) [] .duplicate hc hf).1
    rw [entriesOf_append]; exact this
  obtain ⟨_, hk⟩ := loader_fails_at_same_file cfg fns mt pre' x post' mg hmg hacc
  obtain ⟨_, _, hL, _, _, _, herr, _⟩ := hk .duplicate hd1
  rw [hL]; exact herr rfl

/-- **loader_unregistered_not_found.** In a manager loaded from a tree, a name resolves to nothing (`insert`/`replace`
    of it is the template-not-found error, `C07order.unknown_name_loaded`) exactly when it is neither the path of an
    accepted file nor a fragment name of one; `getTemplate` of the abstract walk answers `notFound` for exactly those
    names.  In particular the path of a file that does not match is not found (unless a fragment happens to have that
    name). -/
theorem loader_unregistered_not_found (xs : List Src) (m : EN.Mgr) (h : EN.loadFiles cfg fns (visited mt xs) = .ok m)
    (name : String) :
    ((EN.envOf m).tpl name = none ↔ name ∉ requested cfg fns mt xs) ∧
    ((EN.envOf m).tpl name = none ↔ getTemplate (run mt (entriesOf cfg fns xs)).2 name = .notFound) := by
  obtain ⟨_, h2⟩ := loader_simulation cfg fns mt xs
  obtain ⟨ht, _, hg⟩ := h2 m h
  have hl : (EN.envOf m).tpl name = none ↔ name ∉ names m.templates := EN.lookupL_none m.templates name
  refine ⟨?_, ?_⟩
  · rw [hl, loader_registry_eq_requested cfg fns mt xs m h]
  · rw [hl, unknown_is_notFound, ht]

/-! ## non-vacuity: three template files in two directories, a nested fragment, a non-matching file, a duplicate -/
namespace LoaderExample

/-- walk order of a tree with a sub-directory.  `notes.txt` does not match `.html` (its text would clash with `'hdr'` and
    does not even compile — its second `define` has no value: it is never looked at).  `sub/b.html` defines a fragment inside a fragment.  `sub/c.html`
    defines `'c1'`, then `'hdr'` AGAIN (first defined by `a.html`), then `'late'`.  `z.html` does not compile. -/
def tree : List Src :=
  [ { path := ".", isDir := true },
    { path := "a.html", src := "<div :define=\"'hdr'\"> <b>H</b> </div><p :insert=\"'card'\">x</p>" },
    { path := "notes.txt", src := "<p :define=\"'hdr'\">not a template</p><p :define>" },
    { path := "sub", isDir := true },
    { path := "sub/b.html", src := "<span :define=\"'card'\"><i :define=\"'inner'\">C</i></span>" },
    { path := "sub/c.html", src := "<i :define=\"'c1'\">1</i><em :define=\"'hdr'\">dup</em><u :define=\"'late'\">2</u>" },
    { path := "z.html", src := "<p :text=\"${\">" } ]

/-- the part before the duplicate -/
def good : List Src := tree.take 5

def goodState : State :=
  { files := ["a.html", "sub/b.html"],
    templates := ["a.html", "'hdr'", "sub/b.html", "'card'", "'inner'"],
    opens := ["a.html", "sub/b.html"], closes := ["a.html", "sub/b.html"] }

/-- after the duplicate: `sub/c.html` and its first fragment stay registered, `'late'` is not, `z.html` was not opened -/
def dupState : State :=
  { files := ["a.html", "sub/b.html", "sub/c.html"],
    templates := ["a.html", "'hdr'", "sub/b.html", "'card'", "'inner'", "sub/c.html", "'c1'"],
    opens := ["a.html", "sub/b.html", "sub/c.html"], closes := ["a.html", "sub/b.html", "sub/c.html"] }

set_option maxRecDepth 100000 in
theorem run_good : run html (entriesOf {} [] good) = (.ok, goodState) := by decide +kernel

set_option maxRecDepth 100000 in
theorem run_tree : run html (entriesOf {} [] tree) = (.err .duplicate, dupState) := by decide +kernel

/-- the concrete loader on the visited files: loads `good` with exactly those names, rejects `tree` with `.err` -/
def loaderDemo : Bool :=
  (match EN.loadFiles {} [] (visited html good) with
   | .ok m => names m.templates == ["a.html", "'hdr'", "sub/b.html", "'card'", "'inner'"] &&
              m.files == ["a.html", "sub/b.html"]
   | _ => false) &&
  (match EN.loadFiles {} [] (visited html tree) with | .err => true | _ => false)

set_option maxRecDepth 100000 in
theorem loaderDemo_true : loaderDemo = true := by decide +kernel

/-- what the loader computes for the single texts -/
theorem contents :
    contentOf {} [] tree[1].src = { defines := [some "'hdr'"] } ∧
    contentOf {} [] tree[2].src = { defines := [some "'hdr'", none] } ∧
    contentOf {} [] tree[4].src = { defines := [some "'card'", some "'inner'"] } ∧
    contentOf {} [] tree[5].src = { defines := [some "'c1'", some "'hdr'", some "'late'"] } ∧
    contentOf {} [] tree[6].src = { loadErr := true } := by
  set_option maxRecDepth 100000 in decide +kernel

theorem visited_tree : visited html tree =
    [("a.html", tree[1].src), ("sub/b.html", tree[4].src), ("sub/c.html", tree[5].src), ("z.html", tree[6].src)] := by
  decide +kernel

/-- `loader_simulation`, both directions inhabited: `good` is parsed by both, `tree` by neither -/
example : ((run html (entriesOf {} [] good)).1 = .ok ∧ ∃ m, EN.loadFiles {} [] (visited html good) = .ok m) ∧
    ((run html (entriesOf {} [] tree)).1 ≠ .ok ∧ ¬ ∃ m, EN.loadFiles {} [] (visited html tree) = .ok m) := by
  have h1 : (run html (entriesOf {} [] good)).1 = .ok := by rw [run_good]
  have h2 : (run html (entriesOf {} [] tree)).1 ≠ .ok := by rw [run_tree]; decide
  exact ⟨⟨h1, (loader_simulation {} [] html good).1.mp h1⟩, h2, fun h => h2 ((loader_simulation {} [] html tree).1.mpr h)⟩

/-- the manager of `good` (it exists by the simulation) has exactly the registry of the abstract walk -/
theorem good_loaded : ∃ mg, EN.loadFiles {} [] (visited html good) = .ok mg ∧
    names mg.templates = ["a.html", "'hdr'", "sub/b.html", "'card'", "'inner'"] ∧ mg.files = ["a.html", "sub/b.html"] := by
  obtain ⟨mg, hmg⟩ := (loader_simulation {} [] html good).1.mp (by rw [run_good])
  obtain ⟨h1, h2, _⟩ := (loader_simulation {} [] html good).2 mg hmg
  rw [run_good] at h1 h2
  exact ⟨mg, hmg, h1.symm, h2.symm⟩

/-- the hypotheses of `loader_fails_at_same_file`, `loader_error_state` and `loader_duplicate_is_error` hold with
    `pre := good`, `x := sub/c.html`, `post := [z.html]`; the conclusions are the ones computed above -/
example : tree = good ++ tree[5] :: [tree[6]] ∧
    ∃ mg, EN.loadFiles {} [] (visited html good) = .ok mg ∧ (tree[5].isDir = false ∧ html tree[5].path = true) ∧
      ¬ (names mg.templates ++ tree[5].path :: EN.definedBy {} [] tree[5].src).Nodup ∧
      EN.parses {} tree[5].src = true ∧ EN.loads {} [] tree[5].src = true ∧ tree[5].path ∉ names mg.templates ∧
      (run html (entriesOf {} [] (good ++ [tree[5]]))).1 = .err .duplicate ∧
      (run html (entriesOf {} [] (good ++ tree[5] :: [tree[6]]))).1 = .err .duplicate ∧
      EN.loadFiles {} [] (visited html (good ++ tree[5] :: [tree[6]])) = .err := by
  obtain ⟨mg, hmg, hn, _⟩ := good_loaded
  have hc := contents.2.2.2.1
  have hp : EN.parses {} tree[5].src = true := by
    have := congrArg Content.loadErr hc
    simpa [contentOf] using this
  have hl : EN.loads {} [] tree[5].src = true :=
    (contentOf_clean_iff {} [] _).mp ⟨by rw [hc], by rw [hc]; rfl⟩
  have hf : EN.definedBy {} [] tree[5].src = ["'c1'", "'hdr'", "'late'"] :=
    congrArg (fun c : Content => definedNames c.defines) hc
  have hdup : ¬ (names mg.templates ++ tree[5].path :: EN.definedBy {} [] tree[5].src).Nodup := by
    rw [hn, hf]; decide
  have hacc : tree[5].isDir = false ∧ html tree[5].path = true := by decide
  obtain ⟨d1, d2⟩ := loader_duplicate_is_error {} [] html good tree[5] [tree[6]] mg hmg hacc hdup (Or.inr hp)
  obtain ⟨e1, _⟩ := loader_duplicate_is_error {} [] html good tree[5] [] mg hmg hacc hdup (Or.inr hp)
  exact ⟨by decide, mg, hmg, hacc, hdup, hp, hl, by rw [hn]; decide, e1, d1, d2⟩

/-- `loader_unregistered_not_found` on `good`: the non-matching file is unknown, the nested fragment is known -/
example : ∃ mg, EN.loadFiles {} [] (visited html good) = .ok mg ∧
    (EN.envOf mg).tpl "notes.txt" = none ∧ (EN.envOf mg).tpl "'late'" = none ∧ (EN.envOf mg).tpl "'inner'" ≠ none ∧
    getTemplate (run html (entriesOf {} [] good)).2 "notes.txt" = .notFound := by
  obtain ⟨mg, hmg, hn, _⟩ := good_loaded
  have hl : ∀ name, (EN.envOf mg).tpl name = none ↔ name ∉ names mg.templates := fun name => EN.lookupL_none mg.templates name
  refine ⟨mg, hmg, (hl _).mpr (by rw [hn]; decide), (hl _).mpr (by rw [hn]; decide), ?_, ?_⟩
  · rw [Ne, hl, hn]; decide
  · exact ((loader_unregistered_not_found {} [] html good mg hmg "notes.txt").2).mp ((hl _).mpr (by rw [hn]; decide))

/-- `loader_duplicate_is_error_global`: drop `z.html`; every visited file compiles, `'hdr'` is requested twice -/
example : (∀ f ∈ visited html (tree.take 6), EN.loads {} [] f.2 = true) ∧ ¬ (requested {} [] html (tree.take 6)).Nodup := by
  set_option maxRecDepth 100000 in decide +kernel

/-! ### a `define` whose name fails to evaluate: the instantiated abstract walk answers what Go answers (see the header)

Go outputs observed on HEAD (`fstest.MapFS`, `NewTplManager().ParseWithSuffix(fsys, ".html")`, then `Files()`/`Templates()`). -/

/-- a `define` without value after a good one.  Go: `Add` returns "attribute `:define` should have value …: attribute value
    expected" (not the duplicate-name error), `Files()` = {`a.html`}, `Templates()` = {`a.html`, `'x'`}. -/
def evalErrTree : List Src := [ { path := "a.html", src := "<p :define=\"'x'\">1</p><p :define>2</p>" } ]

def evalErrState : State :=
  { files := ["a.html"], templates := ["a.html", "'x'"], opens := ["a.html"], closes := ["a.html"] }

set_option maxRecDepth 100000 in
/-- the walk: `err load` with `a.html` and `'x'` registered, as in Go.  `EN.loadFiles`: `.err` (no state). -/
theorem define_eval_state :
    contentOf {} [] evalErrTree[0].src = { defines := [some "'x'", none] } ∧
    run html (entriesOf {} [] evalErrTree) = (.err .load, evalErrState) ∧
    (match EN.loadFiles {} [] (visited html evalErrTree) with | .err => true | _ => false) = true := by decide +kernel

/-- the same with a name that fails at run time (`${1/0}`), followed by a clash (`'x'` again), another `define` and
    another file: none of them is looked at.  Go: "failed to evaluate :define attribute … integer divide by zero",
    `Files()` = {`a.html`}, `Templates()` = {`a.html`, `'x'`}. -/
def evalErrTreeDiv : List Src :=
  [ { path := "a.html",
      src := "<p :define=\"'x'\">1</p><p :define=\"${1/0}\">2</p><p :define=\"'x'\">3</p><p :define=\"'y'\">4</p>" },
    { path := "b.html", src := "<p :define=\"'z'\">1</p>" } ]

set_option maxRecDepth 100000 in
theorem define_eval_state_div :
    contentOf {} [] evalErrTreeDiv[0].src = { defines := [some "'x'", none] } ∧
    run html (entriesOf {} [] evalErrTreeDiv) = (.err .load, evalErrState) ∧
    (match EN.loadFiles {} [] (visited html evalErrTreeDiv) with | .err => true | _ => false) = true := by decide +kernel

/-- a duplicate fragment BEFORE a `define` without value.  Go: the duplicate-name error for `x` ("failed to add template
    `x` defined in b.html at 1:12: duplicated template name"), `Files()` = {`a.html`, `b.html`}, `Templates()` =
    {`a.html`, `x`, `b.html`}. -/
def evalErrTree2 : List Src :=
  [ { path := "a.html", src := "<p :define=\"x\">1</p>" },
    { path := "b.html", src := "<p :define=\"x\">1</p><p :define>2</p>" } ]

def evalErrState2 : State :=
  { files := ["a.html", "b.html"], templates := ["a.html", "x", "b.html"],
    opens := ["a.html", "b.html"], closes := ["a.html", "b.html"] }

set_option maxRecDepth 100000 in
/-- the walk: `err duplicate` (not `load`) with `b.html` registered, as in Go -/
theorem define_eval_kind :
    contentOf {} [] evalErrTree2[1].src = { defines := [some "x", none] } ∧
    run html (entriesOf {} [] evalErrTree2) = (.err .duplicate, evalErrState2) ∧
    (match EN.loadFiles {} [] (visited html evalErrTree2) with | .err => true | _ => false) = true := by decide +kernel

/-- the other order: the `define` without value BEFORE the duplicate fragment.  Go: "attribute value expected" (not the
    duplicate-name error), `Files()` = {`a.html`, `b.html`}, `Templates()` = {`a.html`, `x`, `b.html`}. -/
def evalErrTree3 : List Src :=
  [ { path := "a.html", src := "<p :define=\"x\">1</p>" },
    { path := "b.html", src := "<p :define>2</p><p :define=\"x\">1</p>" } ]

set_option maxRecDepth 100000 in
theorem define_eval_kind_rev :
    contentOf {} [] evalErrTree3[1].src = { defines := [none] } ∧
    run html (entriesOf {} [] evalErrTree3) = (.err .load, evalErrState2) ∧
    (match EN.loadFiles {} [] (visited html evalErrTree3) with | .err => true | _ => false) = true := by decide +kernel

/-- a failing name NESTED in a fragment: the outer fragment is registered (pre-order), the sibling behind is not.  Go:
    "… oprand name `nosuch` not found …", `Templates()` = {`a.html`, `o`}. -/
def evalErrTree4 : List Src :=
  [ { path := "a.html", src := "<div :define=\"o\"><i :define=\"${nosuch}\">1</i></div><p :define=\"after\">2</p>" } ]

set_option maxRecDepth 100000 in
theorem define_eval_nested :
    contentOf {} [] evalErrTree4[0].src = { defines := [some "o", none] } ∧
    run html (entriesOf {} [] evalErrTree4) =
      (.err .load, { files := ["a.html"], templates := ["a.html", "o"], opens := ["a.html"], closes := ["a.html"] }) := by
  decide +kernel

/-- non-vacuity of `loader_define_name_error` (and of the `load` branch of `loader_fails_at_same_file`):
    `pre := [a.html]` of `evalErrTree3`, `x := b2.html` with a fresh fragment `y` in front of a `define` without value -/
example : ∃ mg, EN.loadFiles {} [] (visited html [evalErrTree3[0]]) = .ok mg ∧
    EN.parses {} "<p :define=\"y\">1</p><p :define>2</p>" = true ∧
    Fresh (names mg.templates) ("b2.html" :: EN.definedBy {} [] "<p :define=\"y\">1</p><p :define>2</p>") ∧
    EN.nameFails {} [] "<p :define=\"y\">1</p><p :define>2</p>" = true ∧
    (run html (entriesOf {} [] ([evalErrTree3[0]] ++ { path := "b2.html", src := "<p :define=\"y\">1</p><p :define>2</p>" }
      :: [evalErrTree3[1]]))).2.templates = ["a.html", "x", "b2.html", "y"] := by
  have hrun : run html (entriesOf {} [] [evalErrTree3[0]]) =
      (.ok, { files := ["a.html"], templates := ["a.html", "x"], opens := ["a.html"], closes := ["a.html"] }) := by
    set_option maxRecDepth 100000 in decide +kernel
  obtain ⟨mg, hmg⟩ := (loader_simulation {} [] html [evalErrTree3[0]]).1.mp (by rw [hrun])
  obtain ⟨h1, _, _⟩ := (loader_simulation {} [] html [evalErrTree3[0]]).2 mg hmg
  rw [hrun] at h1
  have hp : EN.parses {} "<p :define=\"y\">1</p><p :define>2</p>" = true := by
    set_option maxRecDepth 100000 in decide +kernel
  have hd : EN.defsOf {} [] "<p :define=\"y\">1</p><p :define>2</p>" = [some "y", none] := by
    set_option maxRecDepth 100000 in decide +kernel
  have hfr : Fresh (names mg.templates) ("b2.html" :: EN.definedBy {} [] "<p :define=\"y\">1</p><p :define>2</p>") := by
    rw [← h1, EN.definedBy, hd]; decide
  have hnf : EN.nameFails {} [] "<p :define=\"y\">1</p><p :define>2</p>" = true := by
    rw [EN.nameFails, hd]; rfl
  obtain ⟨_, _, ht, _⟩ := loader_define_name_error {} [] html [evalErrTree3[0]]
    { path := "b2.html", src := "<p :define=\"y\">1</p><p :define>2</p>" } [evalErrTree3[1]] mg hmg (by decide) hp hfr hnf
  refine ⟨mg, hmg, hp, hfr, hnf, ?_⟩
  rw [ht, ← h1, EN.definedBy, hd]
  rfl

end LoaderExample

end C19
