import TplModel.Props.C19
import TplModel.Proofs.FsLoader
/-! # C19 for the concrete loader — the abstract walk instantiated with `EN.addFile` / `EN.loadFiles`

"Parsing a file system registers exactly the files accepted by the suffix, pattern or predicate, recursively, each under
its slash-separated path relative to the configured sub-directory, plus every fragment they define, in one namespace. A
second registration of a name fails with the duplicate-name error, looking up an unregistered name fails with the
not-found error, files that do not match are never read, …"

OBLIGATIONS: EN.canon_any, EN.canon_names, EN.addFile_ok_names, EN.addFile_names, EN.addFile_okOrErr, EN.addFile_dup_err, EN.addFile_name_taken, FP.add_sim, FP.add_err_kind, FP.walk_sim, C19.loader_simulation, C19.loader_fails_at_same_file, C19.loader_ok_iff, C19.loader_registers_exactly, C19.loadFiles_registers_exactly, C19.loader_duplicate_is_error, C19.loader_duplicate_is_error_global, C19.loader_unregistered_not_found, C19.loader_error_state, FP.add_state

`Props/C19.lean` proves the registry statements for the abstract walk `FP.run` in which a file is an opaque `Content`
(a load-error flag and a list of `define` names).  `Props/Loader.lean` / `Props/C07order.lean` prove statements about the
concrete loader `EN.addFile` / `EN.loadFiles` on source TEXT.  Here the two are connected
(`TplModel/Proofs/FsLoader.lean`):

* `FP.contentOf cfg fns src` — the `Content` of a text: `loadErr := ¬ EN.loads cfg fns src` (the text does not compile on
  its own: `EN.canon` fails), `defines := EN.fragNames cfg fns src` (the names of the fragment entries of `EN.canon`).
  Neither depends on the file name (`EN.canon_any`: under another name `canon` returns the same root, the same fragments,
  the same table; `EN.canon_names`).
* `FP.Src` (path, isDir, text) is a fault-free file tree as the walk meets it, `FP.entriesOf` its `FP.Entry` list,
  `FP.visited mt xs` the (path, text) list of the accepted files, which is what `EN.loadFiles` receives.
* `loader_simulation`: `FP.run` on those entries succeeds iff `EN.loadFiles` does, and then both registries list the same
  names in the same order, the same files, and `getTemplate` finds exactly the names `(envOf m).tpl` resolves.
  Applied to every prefix of the tree this says that both stop at the same file; `loader_fails_at_same_file` spells it out,
  with the error kind of `FP` characterised on the loader's notions and `EN`'s error class.
* the headline statements of C19 for `EN.loadFiles`, derived from the `FP` theorems through the simulation:
  `loader_ok_iff`, `loader_registers_exactly`, `loader_duplicate_is_error(_global)`, `loader_unregistered_not_found`.

## What each model does with a file that FAILS, and the Go code (html/manager.go `Add`, `addDefinedTpl`)

Go: `Add` tests the file name against `m.templates` FIRST (duplicate error, nothing scanned); then scans and parses (an
error here returns before anything is registered); then stores the file in `files` and `templates`; then `addDefinedTpl`
walks the tree in pre-order and for every `define` (1) evaluates the name — an evaluation error is returned at once —
(2) tests it against `templates` — duplicate error — (3) stores it.  Nothing is ever rolled back: after a failing `Add`
the file and the fragments registered before the failing one STAY registered (observed on HEAD with
`fstest.MapFS`; see the examples at the end).

* `FP.add` (abstract model): the same order — name test, `loadErr`, register the file, then `addDefines` one by one; the first
  taken name aborts with `duplicate` and the file and the earlier fragments stay registered (`C19.dupTree` example,
  `FP.addDefines_templates`).  Identical to Go for name clashes, scan/parse errors and duplicate fragments.
* `EN.addFile` (concrete model): returns `LoadRes Mgr`; on a failure there is NO manager, so it says nothing about what
  stays registered (`EN.registerFile`'s comment notes that the file "would stay registered").  Its outcome is not-ok, like
  Go's, for each kind of failure; the class is `.err` for a taken file name, a scan/parse error, a failing `define`
  name and a duplicate fragment alike (`.panic`/`.unsupported` are model-only classes), and the tests come in Go's order
  (name test before scanning; `define` names evaluated and tested one by one in pre-order, `EN.addDefined`).
* **DEVIATION (of `FP` as instantiated here, not of `EN`)**: `FP.Content` has no way to say "the NAME of the k-th `define`
  does not evaluate" — a third kind of fault that Go raises in the middle of `addDefinedTpl`, AFTER the file and the
  fragments before it were registered.  `contentOf` has to fold it into `loadErr` (`EN.canon` fails), which `FP.add`
  tests BEFORE registering anything.  Concrete inputs (Go outputs observed on HEAD):
  1. one file `a.html` = `<p :define="'x'">1</p><p :define>2</p>`: Go returns "attribute value expected" and
     `Templates()` = {`a.html`, `'x'`}; `FP.run` returns `err load` with NO template registered
     (`deviation_define_eval_state`).  The same with `:define="${1/0}"`.
  2. `a.html` = `<p :define="x">1</p>`, `b.html` = `<p :define="x">1</p><p :define>2</p>`: Go returns the DUPLICATE-name
     error for `x` (it is met first) with `b.html` registered; `FP.run` returns `err load` with `b.html` not registered
     (`deviation_define_eval_kind`).  `EN.loadFiles` returns `.err` in both cases (no kind, no state), which is correct.
  The deviation is confined to files in which some `define` name fails to evaluate; whether the parse succeeds, what is
  registered on success, and at which file a failing parse stops are not affected (`loader_simulation` holds for ALL
  inputs).  `loader_error_state` states what `FP` leaves registered; it matches Go whenever the failing file compiles
  on its own or its scan/parse fails (i.e. except for that third kind of fault).  A faithful `FP` needs one more
  `Content` field ("evaluation of a define name fails after these `defines`") tested after `addDefines`. -/
namespace C19
open FP
open EN (names Fresh)

variable (cfg : EN.Cfg) (fns : List (String × EV.FnSpec)) (mt : String → Bool)

/-! ## the simulation -/

/-- **loader_simulation.** For every fault-free tree of source texts and every matcher: the abstract walk over the
    entries computed by the concrete loader succeeds iff `EN.loadFiles` succeeds on the visited files, and then the two
    registries are the same list of names, the file lists are the same, and `getTemplate` finds a name iff the manager
    resolves it. -/
theorem loader_simulation (xs : List Src) :
    ((run mt (entriesOf cfg fns xs)).1 = .ok ↔ ∃ m, EN.loadFiles cfg fns (visited mt xs) = .ok m) ∧
    ∀ m, EN.loadFiles cfg fns (visited mt xs) = .ok m →
      (run mt (entriesOf cfg fns xs)).2.templates = names m.templates ∧
      (run mt (entriesOf cfg fns xs)).2.files = m.files ∧
      ∀ name, getTemplate (run mt (entriesOf cfg fns xs)).2 name = .found ↔ (EN.envOf m).tpl name ≠ none := by
  obtain ⟨h1, h2⟩ := walk_sim cfg fns mt xs 0 {} (EN.emptyMgr cfg fns) (sim_empty cfg fns)
  refine ⟨h1, fun m hm => ?_⟩
  obtain ⟨h3, h4⟩ := h2 m hm
  refine ⟨h3, h4, fun name => ?_⟩
  have hl : (EN.envOf m).tpl name = none ↔ name ∉ names m.templates := EN.lookupL_none m.templates name
  rw [Ne, hl]
  simp only [getTemplate, run, h3]
  split <;> simp [*]

/-- the walk from a registry that agrees with a manager continues exactly like the loader (arbitrary start: also a
    second `Parse` on the same manager) -/
theorem loader_simulation_from (xs : List Src) (i : Nat) (s : State) (m : EN.Mgr) (h : Sim s m) :
    ((walk mt s (entriesOf cfg fns xs)).1 = .ok ↔ ∃ m', EN.loadFrom cfg fns i (visited mt xs) m = .ok m') ∧
    ∀ m', EN.loadFrom cfg fns i (visited mt xs) m = .ok m' → Sim (walk mt s (entriesOf cfg fns xs)).2 m' :=
  walk_sim cfg fns mt xs i s m h

/-- the situation after a prefix `pre` the loader parsed successfully (manager `mg`), in front of the next accepted file
    `x`: the walk reached a state `s0` that agrees with `mg` and logged exactly the visited files; what follows is the
    visit of `x`, i.e. `Add` on the content computed from its text, then the deferred `Close` -/
theorem pre_step (pre : List Src) (x : Src) (mg : EN.Mgr)
    (hpre : EN.loadFiles cfg fns (visited mt pre) = .ok mg) (hacc : x.isDir = false ∧ mt x.path = true) :
    ∃ s0 s1 : State, run mt (entriesOf cfg fns pre) = (.ok, s0) ∧ s1 = { s0 with opens := s0.opens ++ [x.path] } ∧
      s1.templates = names mg.templates ∧ s1.files = mg.files ∧
      s1.opens = (visited mt pre).map (·.1) ++ [x.path] ∧ s1.closes = (visited mt pre).map (·.1) ∧
      (∀ rest, run mt (entriesOf cfg fns (pre ++ x :: rest)) =
        match closeFile x.path (add s1 x.path (contentOf cfg fns x.src)) with
        | (.ok, s') => walk mt s' (entriesOf cfg fns rest)
        | (.err k, s') => (.err k, s')) ∧
      (∀ rest, EN.loadFiles cfg fns (visited mt (pre ++ x :: rest)) =
        EN.loadFrom cfg fns (visited mt pre).length ((x.path, x.src) :: visited mt rest) mg) := by
  have hacc' : (!x.isDir && mt x.path) = true := by simp [hacc.1, hacc.2]
  obtain ⟨p1, _⟩ := loader_simulation cfg fns mt pre
  have hokpre : (walk mt {} (entriesOf cfg fns pre)).1 = .ok := p1.mpr ⟨mg, hpre⟩
  obtain ⟨hsim, hsimf⟩ : Sim (walk mt {} (entriesOf cfg fns pre)).2 mg :=
    (walk_sim cfg fns mt pre 0 {} (EN.emptyMgr cfg fns) (sim_empty cfg fns)).2 mg hpre
  obtain ⟨_, _, ho, hc⟩ := walk_ok mt {} (entriesOf cfg fns pre) hokpre
  rw [acceptedPaths_entriesOf] at ho hc
  rcases hw : walk mt {} (entriesOf cfg fns pre) with ⟨r0, s0⟩
  rw [hw] at hokpre hsim hsimf ho hc
  simp only [List.nil_append] at hokpre hsim hsimf ho hc
  subst hokpre
  refine ⟨s0, _, hw, rfl, hsim, hsimf, by simp [ho], hc, fun rest => ?_, fun rest => ?_⟩
  · have hvis := visit_entryOf cfg fns mt s0 x
    rw [if_pos hacc'] at hvis
    simp only [run]
    rw [entriesOf_append, walk_append, hw]
    simp only [entriesOf, List.map_cons, walk]
    rw [hvis]
    rfl
  · rw [visited_append, visited_cons, if_pos hacc']
    have := EN.loadFrom_append_ok cfg fns (visited mt pre) ([(x.path, x.src)] ++ visited mt rest) 0 _ mg hpre
    rw [Nat.zero_add] at this
    exact this

/-- **both stop at the same file.** `pre` was parsed successfully by the loader (manager `mg`; by `loader_simulation`
    the walk then also succeeded on `pre` with the same registry) and `x` is the next accepted file.  Then
    * the walk continues past `x` iff `EN.addFile` adds `x`;
    * otherwise both stop AT `x`, whatever follows: the walk returns the error `k` of `x`, which is `duplicate` or `load`,
      and `EN.loadFiles` returns the failure of `addFile` on `x`;
    * `k = duplicate` iff the path of `x` is registered already (by a file or a fragment of `pre`), or `x` compiles on its
      own and one of its fragment names is taken — by `pre`, by the path of `x`, or by an earlier fragment of `x`
      (`¬ Fresh`); in that case `addFile` fails with `.err`;
    * `k = load` iff the path is free and the text does not compile on its own. -/
theorem loader_fails_at_same_file (pre : List Src) (x : Src) (post : List Src) (mg : EN.Mgr)
    (hpre : EN.loadFiles cfg fns (visited mt pre) = .ok mg) (hacc : x.isDir = false ∧ mt x.path = true) :
    let r := EN.addFile cfg fns ((visited mt pre).length + 1) x.path x.src mg
    ((run mt (entriesOf cfg fns (pre ++ [x]))).1 = .ok ↔ ∃ m1, r = .ok m1) ∧
    ∀ k, (run mt (entriesOf cfg fns (pre ++ [x]))).1 = .err k →
      (run mt (entriesOf cfg fns (pre ++ x :: post))).1 = .err k ∧
      (run mt (entriesOf cfg fns (pre ++ x :: post))).2 = (run mt (entriesOf cfg fns (pre ++ [x]))).2 ∧
      EN.loadFiles cfg fns (visited mt (pre ++ x :: post)) = r ∧ (∀ m1, r ≠ .ok m1) ∧
      (k = .duplicate ∨ k = .load) ∧
      (k = .duplicate ↔ x.path ∈ names mg.templates ∨
        (EN.loads cfg fns x.src = true ∧ ¬ Fresh (names mg.templates) (x.path :: EN.fragNames cfg fns x.src))) ∧
      (k = .duplicate → r = .err) ∧
      (k = .load ↔ x.path ∉ names mg.templates ∧ EN.loads cfg fns x.src = false) := by
  intro r
  obtain ⟨s0, s1, _, _, hs1t, hs1f, _, _, hstep, hload⟩ := pre_step cfg fns mt pre x mg hpre hacc
  have hkind := add_err_kind cfg fns x.path x.src s1
  rw [hs1t] at hkind
  have hiff := (add_sim cfg fns ((visited mt pre).length + 1) x.path x.src s1 mg ⟨hs1t, hs1f⟩).1
  rcases hadd : add s1 x.path (contentOf cfg fns x.src) with ⟨rr, ss⟩
  rw [hadd] at hkind hiff hstep
  simp only [closeFile] at hstep hkind hiff
  have hrun1 : (run mt (entriesOf cfg fns (pre ++ [x]))).1 = rr := by
    rw [hstep []]
    cases rr <;> simp [entriesOf, walk]
  refine ⟨by rw [hrun1]; exact hiff, fun k hk => ?_⟩
  rw [hrun1] at hk
  subst hk
  have hno : ∀ m1, r ≠ .ok m1 := fun m1 hm1 => by
    have := hiff.mpr ⟨m1, hm1⟩
    cases this
  have hL : EN.loadFiles cfg fns (visited mt (pre ++ x :: post)) = r := by
    rw [hload post]
    exact EN.loadFrom_cons_fail cfg fns _ (x.path, x.src) _ mg hno
  refine ⟨by rw [hstep post], by rw [hstep post, hstep []], hL, hno, ?_, ?_, ?_, ?_⟩
  · by_cases h1 : x.path ∈ names mg.templates
    · rw [if_pos h1] at hkind; cases hkind; exact Or.inl rfl
    · by_cases h2 : EN.loads cfg fns x.src = false
      · rw [if_neg h1, if_pos h2] at hkind; cases hkind; exact Or.inr rfl
      · rw [if_neg h1, if_neg h2] at hkind
        split at hkind
        · cases hkind
        · cases hkind; exact Or.inl rfl
  · by_cases h1 : x.path ∈ names mg.templates
    · rw [if_pos h1] at hkind; cases hkind; simp [h1]
    · by_cases h2 : EN.loads cfg fns x.src = false
      · rw [if_neg h1, if_pos h2] at hkind; cases hkind; simp [h1, h2]
      · rw [if_neg h1, if_neg h2] at hkind
        split at hkind
        · cases hkind
        · rename_i hf
          cases hkind
          simp only [Bool.not_eq_false] at h2
          simp [h1, h2, hf]
  · intro hk
    subst hk
    by_cases h1 : x.path ∈ names mg.templates
    · exact EN.addFile_name_taken cfg fns _ _ _ mg h1
    · by_cases h2 : EN.loads cfg fns x.src = false
      · rw [if_neg h1, if_pos h2] at hkind; cases hkind
      · rw [if_neg h1, if_neg h2] at hkind
        split at hkind
        · cases hkind
        · rename_i hf
          simp only [Bool.not_eq_false] at h2
          exact EN.addFile_dup_err cfg fns _ _ _ mg h2 hf
  · by_cases h1 : x.path ∈ names mg.templates
    · rw [if_pos h1] at hkind; cases hkind; simp [h1]
    · by_cases h2 : EN.loads cfg fns x.src = false
      · rw [if_neg h1, if_pos h2] at hkind; cases hkind; simp [h1, h2]
      · rw [if_neg h1, if_neg h2] at hkind
        split at hkind
        · cases hkind
        · cases hkind
          simp only [Bool.not_eq_false] at h2
          simp [h2]

/-- **what stays registered after the failing file** (abstract walk; `EN.addFile` returns no manager on failure).
    In the situation of `loader_fails_at_same_file`, when `x` is not added: the registry is the one of `mg`, plus — only if
    the path of `x` is free and the text compiles on its own — the path of `x` and its fragment names up to, not including,
    the first taken one (`FP.regPrefix`); `x` is a registered file in exactly that case; the files opened are the visited
    files of `pre` and `x`, and all of them are closed.  This is what Go leaves registered (nothing is rolled back), EXCEPT
    when a `define` name of `x` fails to evaluate (see the header: then Go has registered the file and the fragments
    before it, the abstract walk nothing). -/
theorem loader_error_state (pre : List Src) (x : Src) (post : List Src) (mg : EN.Mgr)
    (hpre : EN.loadFiles cfg fns (visited mt pre) = .ok mg) (hacc : x.isDir = false ∧ mt x.path = true)
    (hfail : (run mt (entriesOf cfg fns (pre ++ [x]))).1 ≠ .ok) :
    let st := (run mt (entriesOf cfg fns (pre ++ x :: post))).2
    let stays := x.path ∉ names mg.templates ∧ EN.loads cfg fns x.src = true
    st.templates = names mg.templates ++
      (if stays then x.path :: regPrefix (names mg.templates ++ [x.path]) (EN.fragNames cfg fns x.src) else []) ∧
    st.files = mg.files ++ (if stays then [x.path] else []) ∧
    st.opens = (visited mt pre).map (·.1) ++ [x.path] ∧ st.closes = st.opens := by
  intro st stays
  obtain ⟨s0, s1, _, _, hs1t, hs1f, hs1o, hs1c, hstep, _⟩ := pre_step cfg fns mt pre x mg hpre hacc
  obtain ⟨a1, a2, a3, a4⟩ := add_state s1 x.path (contentOf cfg fns x.src)
  rw [hs1t] at a1 a2
  rw [hs1f] at a2
  rw [hs1o] at a3
  rw [hs1c] at a4
  have hst : st = (closeFile x.path (add s1 x.path (contentOf cfg fns x.src))).2 := by
    show (run mt (entriesOf cfg fns (pre ++ x :: post))).2 = _
    rw [hstep [] ] at hfail
    rw [hstep post]
    rcases hcf : closeFile x.path (add s1 x.path (contentOf cfg fns x.src)) with ⟨rr, ss⟩
    rw [hcf] at hfail
    cases rr with
    | ok => simp [entriesOf, walk] at hfail
    | err k => rfl
  have hcond : (x.path ∈ names mg.templates ∨ (contentOf cfg fns x.src).loadErr = true) ↔ ¬ stays := by
    show _ ↔ ¬ (x.path ∉ names mg.templates ∧ EN.loads cfg fns x.src = true)
    cases hl : EN.loads cfg fns x.src <;> simp [contentOf, hl]
  simp only [hst, closeFile]
  refine ⟨?_, ?_, a3, ?_⟩
  · rw [a1]
    by_cases hs : stays
    · rw [if_neg (fun h => hcond.mp h hs), if_pos hs]; rfl
    · rw [if_pos (hcond.mpr hs), if_neg hs]
  · rw [a2]
    by_cases hs : stays
    · rw [if_neg (fun h => hcond.mp h hs), if_pos hs]
    · rw [if_pos (hcond.mpr hs), if_neg hs]
  · rw [a3, a4]

/-! ## the C19 statements for `EN.loadFiles` -/

/-- the names the visited files of a tree ask to register: each path followed by the fragment names of its text -/
def requested (xs : List Src) : List String :=
  (xs.filter fun x => !x.isDir && mt x.path).flatMap fun x => x.path :: EN.fragNames cfg fns x.src

theorem requested_eq (xs : List Src) : requested cfg fns mt xs = allNames mt (entriesOf cfg fns xs) := by
  rw [allNames_entriesOf]
  simp [requested, visited, List.flatMap_map]

/-- **loader_ok_iff.** The loader parses a tree iff every visited file compiles on its own and no name — path or fragment
    name — is requested twice (`C19.ok_iff_clean` through the simulation). -/
theorem loader_ok_iff (xs : List Src) :
    (∃ m, EN.loadFiles cfg fns (visited mt xs) = .ok m) ↔
      (∀ f ∈ visited mt xs, EN.loads cfg fns f.2 = true) ∧ (requested cfg fns mt xs).Nodup := by
  rw [← (loader_simulation cfg fns mt xs).1, ok_iff_clean, Clean, noFsFault_entriesOf, requested_eq]

/-- **loader_registers_exactly.** If the loader parses a tree, its files are exactly the paths of the non-directory
    entries accepted by the matcher, at any depth, in walk order; its registry is, for each of them in order, the path
    followed by the fragment names of its text — one namespace, no name twice.  A file that does not match contributes
    nothing, whatever its text. (`C19.registered_exactly`, `C19.templates_are_files_plus_defines`.) -/
theorem loader_registers_exactly (xs : List Src) (m : EN.Mgr) (h : EN.loadFiles cfg fns (visited mt xs) = .ok m) :
    m.files = (xs.filter fun x => !x.isDir && mt x.path).map (·.path) ∧
    names m.templates =
      (xs.filter fun x => !x.isDir && mt x.path).flatMap (fun x => x.path :: EN.fragNames cfg fns x.src) ∧
    (names m.templates).Nodup := by
  obtain ⟨h1, h2⟩ := loader_simulation cfg fns mt xs
  have hok := h1.mpr ⟨m, h⟩
  obtain ⟨ht, hf, _⟩ := h2 m h
  have r1 := registered_exactly mt _ hok
  obtain ⟨r2, r3⟩ := templates_are_files_plus_defines mt _ hok
  rw [hf] at r1
  rw [ht] at r2 r3
  have r1' : m.files = acceptedPaths mt (entriesOf cfg fns xs) := r1
  have r2' : names m.templates = allNames mt (entriesOf cfg fns xs) := r2
  rw [acceptedPaths_entriesOf] at r1'
  rw [allNames_entriesOf] at r2'
  refine ⟨?_, ?_, r3⟩
  · rw [r1']; simp [visited]
  · rw [r2']; simp [visited, List.flatMap_map]

/-- a list of (name, text) pairs as a flat tree in which everything matches -/
def flat (files : List (String × String)) : List Src := files.map fun f => { path := f.1, src := f.2 }

theorem visited_flat (files : List (String × String)) : visited (fun _ => true) (flat files) = files := by
  induction files with
  | nil => rfl
  | cons f fs ih => rw [flat, List.map_cons, visited_cons, ← flat, ih]; rfl

/-- the same for `EN.loadFiles` on ANY list of (name, text) pairs, without a tree: the registry of a loaded manager is
    each file name followed by the fragment names of its text -/
theorem loadFiles_registers_exactly (files : List (String × String)) (m : EN.Mgr)
    (h : EN.loadFiles cfg fns files = .ok m) :
    m.files = files.map (·.1) ∧
    names m.templates = files.flatMap (fun f => f.1 :: EN.fragNames cfg fns f.2) ∧ (names m.templates).Nodup := by
  have := loader_registers_exactly cfg fns (fun _ => true) (flat files) m (by rw [visited_flat]; exact h)
  have hfl : (flat files).filter (fun x => !x.isDir && (fun _ => true) x.path) = flat files := by
    rw [List.filter_eq_self]; intro a ha; simp only [flat, List.mem_map] at ha; obtain ⟨f, _, rfl⟩ := ha; rfl
  rw [hfl] at this
  simpa [flat, List.flatMap_map, Function.comp_def] using this

/-- **loader_duplicate_is_error.** A second registration of a name fails with the duplicate-name error: `pre` was parsed
    (manager `mg`), the next accepted file `x` asks for a name that is taken — its path, or (the text compiles on its own)
    one of its fragment names against everything registered before, including fragments of earlier files, the path of `x`
    and earlier fragments of `x`.  Then the walk returns `duplicate` and `EN.loadFiles` returns `.err`, whatever follows.
    (`C19.duplicate_is_error` through the simulation, `EN.addFile_dup_err`.) -/
theorem loader_duplicate_is_error (pre : List Src) (x : Src) (post : List Src) (mg : EN.Mgr)
    (hpre : EN.loadFiles cfg fns (visited mt pre) = .ok mg) (hacc : x.isDir = false ∧ mt x.path = true)
    (hdup : ¬ (names mg.templates ++ x.path :: EN.fragNames cfg fns x.src).Nodup)
    (hearly : x.path ∈ names mg.templates ∨ EN.loads cfg fns x.src = true) :
    (run mt (entriesOf cfg fns (pre ++ x :: post))).1 = .err .duplicate ∧
    EN.loadFiles cfg fns (visited mt (pre ++ x :: post)) = .err := by
  obtain ⟨h1, h2⟩ := loader_simulation cfg fns mt pre
  have hokpre := h1.mpr ⟨mg, hpre⟩
  have hnames : allNames mt (entriesOf cfg fns pre) = names mg.templates := by
    rw [← (h2 mg hpre).1, (templates_are_files_plus_defines mt _ hokpre).1]; rfl
  have hd : ∀ post' : List Entry,
      (run mt (entriesOf cfg fns pre ++ entryOf cfg fns x :: post')).1 = .err .duplicate := by
    intro post'
    apply duplicate_is_error mt _ _ _ ((ok_iff_clean mt _).mp hokpre) rfl hacc rfl
    · rw [allNames_append, allNames_cons, allNames_nil, hnames, entryOf_accepted]
      simpa [hacc.1, hacc.2, Entry.names, entryOf, contentOf] using hdup
    · rw [hnames]
      rcases hearly with h | h
      · exact Or.inl h
      · exact Or.inr (by simp [entryOf, contentOf, h])
  have hd' : (run mt (entriesOf cfg fns (pre ++ x :: post))).1 = .err .duplicate := by
    rw [entriesOf_append]; exact hd _
  have hd1 : (run mt (entriesOf cfg fns (pre ++ [x]))).1 = .err .duplicate := by
    rw [entriesOf_append]; exact hd []
  refine ⟨hd', ?_⟩
  obtain ⟨_, hk⟩ := loader_fails_at_same_file cfg fns mt pre x post mg hpre hacc
  obtain ⟨_, _, hL, _, _, _, herr, _⟩ := hk .duplicate hd1
  rw [hL]; exact herr rfl

/-- **global form.** Every visited file compiles on its own and some name is requested twice (anywhere in the tree):
    the walk returns `duplicate` and `EN.loadFiles` returns `.err`. -/
theorem loader_duplicate_is_error_global (xs : List Src)
    (hload : ∀ f ∈ visited mt xs, EN.loads cfg fns f.2 = true) (hdup : ¬ (requested cfg fns mt xs).Nodup) :
    (run mt (entriesOf cfg fns xs)).1 = .err .duplicate ∧ EN.loadFiles cfg fns (visited mt xs) = .err := by
  have hd := duplicate_is_error_global mt (entriesOf cfg fns xs) ((noFsFault_entriesOf cfg fns mt xs).mpr hload)
    (by rw [← requested_eq]; exact hdup)
  refine ⟨hd, ?_⟩
  obtain ⟨pre, e, post, hes, hc, hf⟩ := error_has_first_fault mt _ _ hd
  -- split the source tree at the failing entry
  obtain ⟨pre', rest', hxs, hp, hr⟩ := List.map_eq_append_iff.mp hes
  obtain ⟨x, post', hrest, hx, hpost⟩ := List.map_eq_cons_iff.mp hr
  subst hxs hrest
  have hp' : entriesOf cfg fns pre' = pre := hp
  subst hp' hx
  have hokpre := (ok_iff_clean mt _).mpr hc
  obtain ⟨mg, hmg⟩ := (loader_simulation cfg fns mt pre').1.mp hokpre
  -- the failing entry is an accepted file
  have hacc : x.isDir = false ∧ mt x.path = true := by
    cases hd : x.isDir <;> cases hm : mt x.path
    · exfalso; simp [faultOf, Entry.accepted, entryOf, hd, hm] at hf
    · exact ⟨rfl, rfl⟩
    · exfalso; simp [faultOf, Entry.accepted, entryOf, hd, hm] at hf
    · exfalso; simp [faultOf, Entry.accepted, entryOf, hd, hm] at hf
  have hd1 : (run mt (entriesOf cfg fns (pre' ++ [x]))).1 = .err .duplicate := by
    have := (fs_error_returned mt (entriesOf cfg fns pre') (entryOf cfg fns x) [] .duplicate hc hf).1
    rw [entriesOf_append]; exact this
  obtain ⟨_, hk⟩ := loader_fails_at_same_file cfg fns mt pre' x post' mg hmg hacc
  obtain ⟨_, _, hL, _, _, _, herr, _⟩ := hk .duplicate hd1
  rw [hL]; exact herr rfl

/-- **loader_unregistered_not_found.** In a manager loaded from a tree, a name resolves to nothing (`insert`/`replace`
    of it is the template-not-found error, `C07order.unknown_name_loaded`) exactly when it is neither the path of an
    accepted file nor a fragment name of one; `getTemplate` of the abstract walk answers `notFound` for exactly those
    names.  In particular the path of a file that does not match is not found (unless a fragment happens to have that
    name). -/
theorem loader_unregistered_not_found (xs : List Src) (m : EN.Mgr) (h : EN.loadFiles cfg fns (visited mt xs) = .ok m)
    (name : String) :
    ((EN.envOf m).tpl name = none ↔ name ∉ requested cfg fns mt xs) ∧
    ((EN.envOf m).tpl name = none ↔ getTemplate (run mt (entriesOf cfg fns xs)).2 name = .notFound) := by
  obtain ⟨_, h2⟩ := loader_simulation cfg fns mt xs
  obtain ⟨ht, _, hg⟩ := h2 m h
  have hl : (EN.envOf m).tpl name = none ↔ name ∉ names m.templates := EN.lookupL_none m.templates name
  refine ⟨?_, ?_⟩
  · rw [hl, (loader_registers_exactly cfg fns mt xs m h).2.1]; rfl
  · rw [hl, unknown_is_notFound, ht]

/-! ## non-vacuity: three template files in two directories, a nested fragment, a non-matching file, a duplicate -/
namespace LoaderExample

/-- walk order of a tree with a sub-directory.  `notes.txt` does not match `.html` (its text would clash with `'hdr'` and
    does not even compile: it is never looked at).  `sub/b.html` defines a fragment inside a fragment.  `sub/c.html`
    defines `'c1'`, then `'hdr'` AGAIN (first defined by `a.html`), then `'late'`.  `z.html` does not compile. -/
def tree : List Src :=
  [ { path := ".", isDir := true },
    { path := "a.html", src := "<div :define=\"'hdr'\"> <b>H</b> </div><p :insert=\"'card'\">x</p>" },
    { path := "notes.txt", src := "<p :define=\"'hdr'\">not a template</p><p :define>" },
    { path := "sub", isDir := true },
    { path := "sub/b.html", src := "<span :define=\"'card'\"><i :define=\"'inner'\">C</i></span>" },
    { path := "sub/c.html", src := "<i :define=\"'c1'\">1</i><em :define=\"'hdr'\">dup</em><u :define=\"'late'\">2</u>" },
    { path := "z.html", src := "<p :text=\"${\">" } ]

/-- the part before the duplicate -/
def good : List Src := tree.take 5

def goodState : State :=
  { files := ["a.html", "sub/b.html"],
    templates := ["a.html", "'hdr'", "sub/b.html", "'card'", "'inner'"],
    opens := ["a.html", "sub/b.html"], closes := ["a.html", "sub/b.html"] }

/-- after the duplicate: `sub/c.html` and its first fragment stay registered, `'late'` is not, `z.html` was not opened -/
def dupState : State :=
  { files := ["a.html", "sub/b.html", "sub/c.html"],
    templates := ["a.html", "'hdr'", "sub/b.html", "'card'", "'inner'", "sub/c.html", "'c1'"],
    opens := ["a.html", "sub/b.html", "sub/c.html"], closes := ["a.html", "sub/b.html", "sub/c.html"] }

set_option maxRecDepth 100000 in
theorem run_good : run html (entriesOf {} [] good) = (.ok, goodState) := by decide +kernel

set_option maxRecDepth 100000 in
theorem run_tree : run html (entriesOf {} [] tree) = (.err .duplicate, dupState) := by decide +kernel

/-- the concrete loader on the visited files: loads `good` with exactly those names, rejects `tree` with `.err` -/
def loaderDemo : Bool :=
  (match EN.loadFiles {} [] (visited html good) with
   | .ok m => names m.templates == ["a.html", "'hdr'", "sub/b.html", "'card'", "'inner'"] &&
              m.files == ["a.html", "sub/b.html"]
   | _ => false) &&
  (match EN.loadFiles {} [] (visited html tree) with | .err => true | _ => false)

set_option maxRecDepth 100000 in
theorem loaderDemo_true : loaderDemo = true := by decide +kernel

/-- what the loader computes for the single texts -/
theorem contents :
    contentOf {} [] tree[1].src = { defines := ["'hdr'"] } ∧
    contentOf {} [] tree[2].src = { loadErr := true } ∧
    contentOf {} [] tree[4].src = { defines := ["'card'", "'inner'"] } ∧
    contentOf {} [] tree[5].src = { defines := ["'c1'", "'hdr'", "'late'"] } ∧
    contentOf {} [] tree[6].src = { loadErr := true } := by
  set_option maxRecDepth 100000 in decide +kernel

theorem visited_tree : visited html tree =
    [("a.html", tree[1].src), ("sub/b.html", tree[4].src), ("sub/c.html", tree[5].src), ("z.html", tree[6].src)] := by
  decide +kernel

/-- `loader_simulation`, both directions inhabited: `good` is parsed by both, `tree` by neither -/
example : ((run html (entriesOf {} [] good)).1 = .ok ∧ ∃ m, EN.loadFiles {} [] (visited html good) = .ok m) ∧
    ((run html (entriesOf {} [] tree)).1 ≠ .ok ∧ ¬ ∃ m, EN.loadFiles {} [] (visited html tree) = .ok m) := by
  have h1 : (run html (entriesOf {} [] good)).1 = .ok := by rw [run_good]
  have h2 : (run html (entriesOf {} [] tree)).1 ≠ .ok := by rw [run_tree]; decide
  exact ⟨⟨h1, (loader_simulation {} [] html good).1.mp h1⟩, h2, fun h => h2 ((loader_simulation {} [] html tree).1.mpr h)⟩

/-- the manager of `good` (it exists by the simulation) has exactly the registry of the abstract walk -/
theorem good_loaded : ∃ mg, EN.loadFiles {} [] (visited html good) = .ok mg ∧
    names mg.templates = ["a.html", "'hdr'", "sub/b.html", "'card'", "'inner'"] ∧ mg.files = ["a.html", "sub/b.html"] := by
  obtain ⟨mg, hmg⟩ := (loader_simulation {} [] html good).1.mp (by rw [run_good])
  obtain ⟨h1, h2, _⟩ := (loader_simulation {} [] html good).2 mg hmg
  rw [run_good] at h1 h2
  exact ⟨mg, hmg, h1.symm, h2.symm⟩

/-- the hypotheses of `loader_fails_at_same_file`, `loader_error_state` and `loader_duplicate_is_error` hold with
    `pre := good`, `x := sub/c.html`, `post := [z.html]`; the conclusions are the ones computed above -/
example : tree = good ++ tree[5] :: [tree[6]] ∧
    ∃ mg, EN.loadFiles {} [] (visited html good) = .ok mg ∧ (tree[5].isDir = false ∧ html tree[5].path = true) ∧
      ¬ (names mg.templates ++ tree[5].path :: EN.fragNames {} [] tree[5].src).Nodup ∧
      EN.loads {} [] tree[5].src = true ∧ tree[5].path ∉ names mg.templates ∧
      (run html (entriesOf {} [] (good ++ [tree[5]]))).1 = .err .duplicate ∧
      (run html (entriesOf {} [] (good ++ tree[5] :: [tree[6]]))).1 = .err .duplicate ∧
      EN.loadFiles {} [] (visited html (good ++ tree[5] :: [tree[6]])) = .err := by
  obtain ⟨mg, hmg, hn, _⟩ := good_loaded
  have hc := contents.2.2.2.1
  have hl : EN.loads {} [] tree[5].src = true := by
    have := congrArg Content.loadErr hc
    simpa [contentOf] using this
  have hf : EN.fragNames {} [] tree[5].src = ["'c1'", "'hdr'", "'late'"] := congrArg Content.defines hc
  have hdup : ¬ (names mg.templates ++ tree[5].path :: EN.fragNames {} [] tree[5].src).Nodup := by
    rw [hn, hf]; decide
  have hacc : tree[5].isDir = false ∧ html tree[5].path = true := by decide
  obtain ⟨d1, d2⟩ := loader_duplicate_is_error {} [] html good tree[5] [tree[6]] mg hmg hacc hdup (Or.inr hl)
  obtain ⟨e1, _⟩ := loader_duplicate_is_error {} [] html good tree[5] [] mg hmg hacc hdup (Or.inr hl)
  exact ⟨by decide, mg, hmg, hacc, hdup, hl, by rw [hn]; decide, e1, d1, d2⟩

/-- `loader_unregistered_not_found` on `good`: the non-matching file is unknown, the nested fragment is known -/
example : ∃ mg, EN.loadFiles {} [] (visited html good) = .ok mg ∧
    (EN.envOf mg).tpl "notes.txt" = none ∧ (EN.envOf mg).tpl "'late'" = none ∧ (EN.envOf mg).tpl "'inner'" ≠ none ∧
    getTemplate (run html (entriesOf {} [] good)).2 "notes.txt" = .notFound := by
  obtain ⟨mg, hmg, hn, _⟩ := good_loaded
  have hl : ∀ name, (EN.envOf mg).tpl name = none ↔ name ∉ names mg.templates := fun name => EN.lookupL_none mg.templates name
  refine ⟨mg, hmg, (hl _).mpr (by rw [hn]; decide), (hl _).mpr (by rw [hn]; decide), ?_, ?_⟩
  · rw [Ne, hl, hn]; decide
  · exact ((loader_unregistered_not_found {} [] html good mg hmg "notes.txt").2).mp ((hl _).mpr (by rw [hn]; decide))

/-- `loader_duplicate_is_error_global`: drop `z.html`; every visited file compiles, `'hdr'` is requested twice -/
example : (∀ f ∈ visited html (tree.take 6), EN.loads {} [] f.2 = true) ∧ ¬ (requested {} [] html (tree.take 6)).Nodup := by
  set_option maxRecDepth 100000 in decide +kernel

/-! ### the deviation of the instantiated abstract walk from the Go code (see the header) -/

/-- a `define` without value after a good one.  Go (HEAD): `Add` returns "attribute value expected", `Templates()` is
    {`a.html`, `'x'`}.  The instantiated walk: `err load`, NOTHING registered.  `EN.loadFiles`: `.err` (no state). -/
def evalErrTree : List Src := [ { path := "a.html", src := "<p :define=\"'x'\">1</p><p :define>2</p>" } ]

def evalErrState : State := { opens := ["a.html"], closes := ["a.html"] }

set_option maxRecDepth 100000 in
theorem deviation_define_eval_state :
    run html (entriesOf {} [] evalErrTree) = (.err .load, evalErrState) ∧
    (match EN.loadFiles {} [] (visited html evalErrTree) with | .err => true | _ => false) = true := by decide +kernel

/-- a duplicate fragment BEFORE a `define` without value.  Go (HEAD): the duplicate-name error for `x`, `Templates()` is
    {`a.html`, `x`, `b.html`}.  The instantiated walk: `err load` (not `duplicate`), `b.html` not registered. -/
def evalErrTree2 : List Src :=
  [ { path := "a.html", src := "<p :define=\"x\">1</p>" },
    { path := "b.html", src := "<p :define=\"x\">1</p><p :define>2</p>" } ]

def evalErrState2 : State :=
  { files := ["a.html"], templates := ["a.html", "x"], opens := ["a.html", "b.html"], closes := ["a.html", "b.html"] }

set_option maxRecDepth 100000 in
theorem deviation_define_eval_kind :
    run html (entriesOf {} [] evalErrTree2) = (.err .load, evalErrState2) ∧
    (match EN.loadFiles {} [] (visited html evalErrTree2) with | .err => true | _ => false) = true := by decide +kernel

end LoaderExample

end C19
