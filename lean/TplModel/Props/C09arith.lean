import TplModel.Proofs.OpsProofs
/-! # C09 (arithmetic part) — the operators compute what Go computes on int64

"… computes each operation as Go does on int64 … Operations Go rejects at run time (integer division by zero,
negative shift count, operands of the wrong kind) yield an error, never a value."

Integer fragment of the model operators `EV.numBin` (`* / + -`, exp/visitor.go binaryOp3/biOp3) and `EV.intBin`
(`% & | ^ &^ << >>`, binaryOpInt/biOpInt).  Operands: `isInt l = some a`, `isInt r = some b` — values of ANY of the
ten integer kinds, `a b` being what Go's `IsInt` returns.  Each theorem states the exact monadic result in an
arbitrary state `st`: `.ok (v, st)` = value `v`, state unchanged; `.error ()` = Go panic (`goPanic`; `Evaluate`
recovers it into an error); `.ok (.nil, { st with err := some { sentinel := false } })` = `SetErrorOnToken` (needs `st.err = none`,
otherwise the earlier error is kept: `wrong_kind_is_error_any`).  Value/panic results hold for every `st`.

The `Int`s `a b` are not assumed to be in the int64 range (the model type `Val` does not enforce ranges); where the
range matters it is an explicit hypothesis `inI64 a`, which `EV.isInt_inI64` supplies for well-formed values.
Floats are outside (`Float` is opaque to the kernel). -/
namespace C09arith
open EV

/-! ## `wrap64`: reduction modulo 2^64 into [-2^63, 2^63) -/

theorem wrap64_spec (i : Int) : wrap64 i = (i + 2^63) % 2^64 - 2^63 := EV.wrap64_spec i
theorem wrap64_range (i : Int) : -2^63 ≤ wrap64 i ∧ wrap64 i < 2^63 := EV.wrap64_range i
/-- `wrap64 i` is the unique int64 congruent to `i` modulo 2^64 -/
theorem wrap64_char (i x : Int) : x = wrap64 i ↔ (inI64 x ∧ ∃ k : Int, x = i + k * 2^64) := by
  constructor
  · rintro rfl; exact ⟨wrap64_inI64 i, wrap64_congr i⟩
  · rintro ⟨hx, k, hk⟩; exact wrap64_unique hx k hk
theorem wrap64_id {i : Int} (h : inI64 i) : wrap64 i = i := wrap64_of_inI64 h

section ints
variable {l r : Val} {a b : Int}

/-! ## `+ - *` wrap around -/

theorem add_wraps (hl : isInt l = some a) (hr : isInt r = some b) (st : St) :
    (numBin "+" l r).run st = .ok (.int .int64 (wrap64 (a + b)), st) := by
  rw [numBin_int hl hr, R.run_toM]; rfl

theorem sub_wraps (hl : isInt l = some a) (hr : isInt r = some b) (st : St) :
    (numBin "-" l r).run st = .ok (.int .int64 (wrap64 (a - b)), st) := by
  rw [numBin_int hl hr, R.run_toM]; rfl

theorem mul_wraps (hl : isInt l = some a) (hr : isInt r = some b) (st : St) :
    (numBin "*" l r).run st = .ok (.int .int64 (wrap64 (a * b)), st) := by
  rw [numBin_int hl hr, R.run_toM]; rfl

/-- no overflow, no wrapping -/
theorem add_exact (hl : isInt l = some a) (hr : isInt r = some b) (h : inI64 (a + b)) (st : St) :
    (numBin "+" l r).run st = .ok (.int .int64 (a + b), st) := by
  rw [add_wraps hl hr, wrap64_of_inI64 h]

/-! ## `/` and `%` truncate toward zero; a zero divisor panics -/

theorem div_truncates (hl : isInt l = some a) (hr : isInt r = some b) (hb : b ≠ 0) (st : St) :
    (numBin "/" l r).run st = .ok (.int .int64 (wrap64 (Int.tdiv a b)), st) := by
  rw [numBin_int hl hr, R.run_toM]
  simp [intArith, hb, R.run]

theorem div_zero_panics (hl : isInt l = some a) (hr : isInt r = some 0) (st : St) :
    (numBin "/" l r).run st = .error () := by
  rw [numBin_int hl hr, R.run_toM]; rfl

/-- the wrap in `div_truncates` only acts on minInt64 / -1 (Go: the quotient overflows silently to minInt64) -/
theorem div_exact (hl : isInt l = some a) (hr : isInt r = some b) (hb : b ≠ 0) (ha : inI64 a)
    (hm : ¬ (a = -2^63 ∧ b = -1)) (st : St) :
    (numBin "/" l r).run st = .ok (.int .int64 (Int.tdiv a b), st) := by
  rw [div_truncates hl hr hb, wrap64_tdiv ha hm]

theorem div_min_by_neg_one (hl : isInt l = some (-2^63)) (hr : isInt r = some (-1)) (st : St) :
    (numBin "/" l r).run st = .ok (.int .int64 (-2^63), st) := by
  rw [div_truncates hl hr (by decide), wrap64_tdiv_min]

theorem mod_truncates (hl : isInt l = some a) (hr : isInt r = some b) (hb : b ≠ 0) (st : St) :
    (intBin "%" l r).run st = .ok (.int .int64 (Int.tmod a b), st) := by
  rw [intBin_int hl hr, R.run_toM]
  simp [intBits, hb, R.run]

theorem mod_zero_panics (hl : isInt l = some a) (hr : isInt r = some 0) (st : St) :
    (intBin "%" l r).run st = .error () := by
  rw [intBin_int hl hr, R.run_toM]; rfl

/-- the remainder needs no wrapping: it is an int64 whenever the dividend is, and it equals its own `wrap64` -/
theorem mod_in_range (ha : inI64 a) (b : Int) : inI64 (Int.tmod a b) ∧ wrap64 (Int.tmod a b) = Int.tmod a b :=
  ⟨tmod_inI64 ha b, wrap64_of_inI64 (tmod_inI64 ha b)⟩

/-- Go's `(a / b) * b + a % b == a` for the unwrapped quotient and remainder -/
theorem div_mod_identity (a b : Int) : Int.tdiv a b * b + Int.tmod a b = a := tdiv_mul_add_tmod a b

/-! ## shifts -/

/-- `<<`: negative count panics; otherwise `a * 2^b` wrapped (which is 0 from 64 on — `shl_ge_64`) -/
theorem shl_semantics (hl : isInt l = some a) (hr : isInt r = some b) (st : St) :
    (intBin "<<" l r).run st =
      if b < 0 then .error () else .ok (.int .int64 (wrap64 (a * 2 ^ b.toNat)), st) := by
  rw [intBin_int hl hr, R.run_toM]
  show (if b < 0 then R.panic else _).run st = _
  split
  · rfl
  · show Except.ok _ = Except.ok _
    congr 3
    split
    · rw [wrap64_mul_pow_ge a (by omega)]
    · exact toInt_shl64 a b.toNat

theorem shl_negative_panics (hl : isInt l = some a) (hr : isInt r = some b) (hb : b < 0) (st : St) :
    (intBin "<<" l r).run st = .error () := by
  rw [shl_semantics hl hr, if_pos hb]

theorem shl_ge_64 (hl : isInt l = some a) (hr : isInt r = some b) (hb : 64 ≤ b) (st : St) :
    (intBin "<<" l r).run st = .ok (.int .int64 0, st) := by
  rw [shl_semantics hl hr, if_neg (by omega), wrap64_mul_pow_ge a (by omega)]

/-- `>>` (arithmetic): negative count panics; count ≥ 64 leaves the sign (0 or -1); otherwise floor division of
    the int64 value by `2^b` (`/` on `Int` with a positive divisor rounds toward -∞). -/
theorem shr_semantics (hl : isInt l = some a) (hr : isInt r = some b) (st : St) :
    (intBin ">>" l r).run st =
      if b < 0 then .error ()
      else if 64 ≤ b then .ok (.int .int64 (if a < 0 then -1 else 0), st)
      else .ok (.int .int64 (wrap64 a / 2 ^ b.toNat), st) := by
  rw [intBin_int hl hr, R.run_toM]
  show (if b < 0 then R.panic else _).run st = _
  split
  · rfl
  · show Except.ok _ = _
    split
    · rfl
    · rw [toInt_sshr64]

/-- for an operand in the int64 range (every well-formed value) all non-negative counts are floor division -/
theorem shr_floor_div (hl : isInt l = some a) (hr : isInt r = some b) (ha : inI64 a) (hb : 0 ≤ b) (st : St) :
    (intBin ">>" l r).run st = .ok (.int .int64 (a / 2 ^ b.toNat), st) := by
  rw [shr_semantics hl hr, if_neg (by omega)]
  split
  · rw [inI64_div_pow_ge ha (by omega)]
  · rw [wrap64_of_inI64 ha]

theorem shr_negative_panics (hl : isInt l = some a) (hr : isInt r = some b) (hb : b < 0) (st : St) :
    (intBin ">>" l r).run st = .error () := by
  rw [shr_semantics hl hr, if_pos hb]

/-- the underlying BitVec fact: arithmetic shift right on 64-bit two's complement is `Int` floor division -/
theorem sshiftRight_is_floor_div (x : BitVec 64) (n : Nat) : (x.sshiftRight n).toInt = x.toInt / 2 ^ n := by
  rw [BitVec.toInt_sshiftRight, Int.shiftRight_eq_div_pow]; simp

/-! ## bitwise operators act on the two's-complement representation

`tc64 i = (i % 2^64).toNat` is the 64-bit two's-complement bit pattern of `i` as a natural number; `&&& ||| ^^^`
on `Nat` are the bitwise operations (`Nat.testBit_and` …).  The result is the int64 whose bit pattern is the
combination of the operands' patterns (`tc64_inj`: an int64 is determined by its pattern). -/

theorem and_semantics (hl : isInt l = some a) (hr : isInt r = some b) (st : St) :
    ∃ v, (intBin "&" l r).run st = .ok (.int .int64 v, st) ∧ inI64 v ∧ tc64 v = tc64 a &&& tc64 b ∧
      v = (BitVec.ofInt 64 a &&& BitVec.ofInt 64 b).toInt := by
  refine ⟨_, ?_, toInt_inI64 _, tc64_and64 a b, rfl⟩
  rw [intBin_int hl hr, R.run_toM]; rfl

theorem or_semantics (hl : isInt l = some a) (hr : isInt r = some b) (st : St) :
    ∃ v, (intBin "|" l r).run st = .ok (.int .int64 v, st) ∧ inI64 v ∧ tc64 v = tc64 a ||| tc64 b ∧
      v = (BitVec.ofInt 64 a ||| BitVec.ofInt 64 b).toInt := by
  refine ⟨_, ?_, toInt_inI64 _, tc64_or64 a b, rfl⟩
  rw [intBin_int hl hr, R.run_toM]; rfl

theorem xor_semantics (hl : isInt l = some a) (hr : isInt r = some b) (st : St) :
    ∃ v, (intBin "^" l r).run st = .ok (.int .int64 v, st) ∧ inI64 v ∧ tc64 v = tc64 a ^^^ tc64 b ∧
      v = (BitVec.ofInt 64 a ^^^ BitVec.ofInt 64 b).toInt := by
  refine ⟨_, ?_, toInt_inI64 _, tc64_xor64 a b, rfl⟩
  rw [intBin_int hl hr, R.run_toM]; rfl

/-- `&^` (bit clear): AND with the complemented pattern `2^64 - 1 - tc64 b` -/
theorem andnot_semantics (hl : isInt l = some a) (hr : isInt r = some b) (st : St) :
    ∃ v, (intBin "&^" l r).run st = .ok (.int .int64 v, st) ∧ inI64 v ∧
      tc64 v = tc64 a &&& (2^64 - 1 - tc64 b) ∧
      v = (BitVec.ofInt 64 a &&& ~~~ (BitVec.ofInt 64 b)).toInt := by
  refine ⟨_, ?_, toInt_inI64 _, tc64_andNot64 a b, rfl⟩
  rw [intBin_int hl hr, R.run_toM]; rfl

/-- bit-level reading of `and_semantics`: bit `i` of the result pattern is the AND of the operand bits -/
theorem and_bitwise (a b : Int) (i : Nat) :
    (tc64 (BitVec.ofInt 64 a &&& BitVec.ofInt 64 b).toInt).testBit i
      = ((tc64 a).testBit i && (tc64 b).testBit i) := by
  rw [tc64_and64, Nat.testBit_and]

theorem or_bitwise (a b : Int) (i : Nat) :
    (tc64 (BitVec.ofInt 64 a ||| BitVec.ofInt 64 b).toInt).testBit i
      = ((tc64 a).testBit i || (tc64 b).testBit i) := by
  rw [tc64_or64, Nat.testBit_or]

theorem xor_bitwise (a b : Int) (i : Nat) :
    (tc64 (BitVec.ofInt 64 a ^^^ BitVec.ofInt 64 b).toInt).testBit i
      = ((tc64 a).testBit i ^^ (tc64 b).testBit i) := by
  rw [tc64_xor64, Nat.testBit_xor]

/-! ## every integer result is an int64 -/

/-- all eleven binary operators: on int64 operands the result, when there is one, is `.int .int64 v` with `v` in
    the int64 range (so results can be fed back as well-formed operands); nothing ever records an error. -/
theorem int_result_in_range (op : String) (hop : op ∈ ["*", "/", "+", "-"]) (a b : Int) :
    intArith op a b = .panic ∨ ∃ v, intArith op a b = .val (.int .int64 v) ∧ inI64 v := by
  simp only [List.mem_cons, List.not_mem_nil, or_false] at hop
  rcases hop with rfl | rfl | rfl | rfl
  · exact .inr ⟨_, rfl, wrap64_inI64 _⟩
  · by_cases hb : b = 0
    · exact .inl (by simp [intArith, hb])
    · exact .inr ⟨wrap64 (Int.tdiv a b), by simp [intArith, hb], wrap64_inI64 _⟩
  · exact .inr ⟨_, rfl, wrap64_inI64 _⟩
  · exact .inr ⟨_, rfl, wrap64_inI64 _⟩

theorem bits_result_in_range (op : String) (hop : op ∈ ["%", "&", "|", "^", "&^", "<<", ">>"]) (a b : Int)
    (ha : inI64 a) :
    intBits op a b = .panic ∨ ∃ v, intBits op a b = .val (.int .int64 v) ∧ inI64 v := by
  simp only [List.mem_cons, List.not_mem_nil, or_false] at hop
  rcases hop with rfl | rfl | rfl | rfl | rfl | rfl | rfl
  · by_cases hb : b = 0
    · exact .inl (by simp [intBits, hb])
    · exact .inr ⟨Int.tmod a b, by simp [intBits, hb], tmod_inI64 ha b⟩
  · exact .inr ⟨_, rfl, toInt_inI64 _⟩
  · exact .inr ⟨_, rfl, toInt_inI64 _⟩
  · exact .inr ⟨_, rfl, toInt_inI64 _⟩
  · exact .inr ⟨_, rfl, toInt_inI64 _⟩
  · by_cases hb : b < 0
    · exact .inl (by simp [intBits, hb])
    · refine .inr ⟨if b ≥ 64 then 0 else (BitVec.ofInt 64 a <<< b.toNat).toInt,
        by simp only [intBits, hb, if_false], ?_⟩
      split
      · decide
      · exact toInt_inI64 _
  · by_cases hb : b < 0
    · exact .inl (by simp [intBits, hb])
    · refine .inr ⟨if b ≥ 64 then (if a < 0 then -1 else 0) else ((BitVec.ofInt 64 a).sshiftRight b.toNat).toInt,
        by simp only [intBits, hb, if_false], ?_⟩
      split
      · split <;> decide
      · exact toInt_inI64 _

end ints

/-! ## operands of the wrong kind: an error, never a value -/

/-- `* / + -` (`+` after the string-concatenation cases of addOp have been excluded by the caller: `numBin` is
    only reached for `+` when neither operand is a string): if one operand is neither integer nor float — whatever
    the other operand is — the model records an error and returns nil, it does not panic and computes nothing. -/
theorem wrong_kind_is_error (op : String) (l r : Val) (st : St) (hst : st.err = none)
    (h : (isInt l = none ∧ isFloat l = none) ∨ (isInt r = none ∧ isFloat r = none)) :
    (numBin op l r).run st = .ok (.nil, { st with err := some { sentinel := false } }) := by
  rcases h with ⟨hi, hf⟩ | ⟨hi, hf⟩
  · rw [numBin_wrong_left hi hf, R.run_toM, R.run_err hst]
  · rw [numBin_wrong_right hi hf, R.run_toM, R.run_err hst]

/-- `% & | ^ &^ << >>`: if one operand is not an integer (floats included) an error is recorded -/
theorem wrong_kind_is_error_int (op : String) (l r : Val) (st : St) (hst : st.err = none)
    (h : isInt l = none ∨ isInt r = none) :
    (intBin op l r).run st = .ok (.nil, { st with err := some { sentinel := false } }) := by
  rcases h with hi | hi
  · rw [intBin_wrong_left hi, R.run_toM, R.run_err hst]
  · rw [intBin_wrong_right hi, R.run_toM, R.run_err hst]

/-- `< <= > >=`: unless both operands are numbers or both are strings an error is recorded
    (`h`: one operand is not a number; `hs`: they are not both strings) -/
theorem wrong_kind_is_error_ord (fns : List (String × FnSpec)) (op : String) (hop : op ≠ "==" ∧ op ≠ "!=")
    (l r : Val) (st : St) (hst : st.err = none)
    (h : (isInt l = none ∧ isFloat l = none) ∨ (isInt r = none ∧ isFloat r = none))
    (hs : ∀ s t, ¬ (l = .str s ∧ r = .str t)) :
    (relOp fns op l r).run st = .ok (.nil, { st with err := some { sentinel := false } }) := by
  rw [relOp_ord_wrong hop h hs, R.run_toM, R.run_err hst]

/-- without the `st.err = none` assumption: the result value is still nil, the state keeps an error (the earlier
    one if there was one): the first recorded error wins -/
theorem wrong_kind_is_error_any (op : String) (l r : Val) (st : St)
    (h : (isInt l = none ∧ isFloat l = none) ∨ (isInt r = none ∧ isFloat r = none)) :
    ∃ st', (numBin op l r).run st = .ok (.nil, st') ∧ st'.err.isSome ∧
      (∀ e, st.err = some e → st' = st) := by
  have hrun : (numBin op l r).run st = R.err.run st := by
    rcases h with ⟨hi, hf⟩ | ⟨hi, hf⟩
    · rw [numBin_wrong_left hi hf, R.run_toM]
    · rw [numBin_wrong_right hi hf, R.run_toM]
  refine ⟨_, hrun, ?_, ?_⟩
  · cases h : st.err <;> simp [h]
  · intro e he; simp [he]

/-- an unknown operator text reaching `numBin`/`intBin` on integers is Go's "assert error" panic -/
theorem unknown_op_panics {l r : Val} {a b : Int} (hl : isInt l = some a) (hr : isInt r = some b) (st : St) :
    (numBin "%" l r).run st = .error () ∧ (intBin "+" l r).run st = .error () := by
  rw [numBin_int hl hr, intBin_int hl hr, R.run_toM, R.run_toM]; exact ⟨rfl, rfl⟩

/-! ## unary `+ - ^` on integers (pure restatement only: `EV.eval` is `partial`, see `EV.intUn`) -/

theorem neg_wraps (a : Int) : intUn "-" a = .val (.int .int64 (wrap64 (-a))) := rfl
theorem neg_min : wrap64 (-(-2^63)) = -2^63 := by decide
theorem complement_is_neg_sub_one (a : Int) : intUn "^" a = .val (.int .int64 (wrap64 (-a - 1))) := by
  show R.val _ = _
  rw [toInt_not64]

/-! ## examples (int64 boundaries) and non-vacuity -/

-- maxInt64 + 1 wraps to minInt64; minInt64 - 1 wraps to maxInt64; minInt64 * -1 = minInt64
example (st : St) : (numBin "+" (.int .int64 (2^63 - 1)) (.int .int8 1)).run st = .ok (.int .int64 (-2^63), st) :=
  add_wraps (a := 2^63 - 1) (b := 1) (by decide) (by decide) st
example (st : St) : (numBin "-" (.int .int (-2^63)) (.int .uint8 1)).run st = .ok (.int .int64 (2^63 - 1), st) :=
  sub_wraps (a := -2^63) (b := 1) (by decide) (by decide) st
example (st : St) : (numBin "*" (.int .int64 (-2^63)) (.int .int (-1))).run st = .ok (.int .int64 (-2^63), st) :=
  mul_wraps (a := -2^63) (b := -1) (by decide) (by decide) st
example (st : St) : (numBin "*" (.int .int64 (2^62)) (.int .int 4)).run st = .ok (.int .int64 0, st) :=
  mul_wraps (a := 2^62) (b := 4) (by decide) (by decide) st
-- uint64 operands are seen through int64(u): 2^64-1 is -1
example (st : St) : (numBin "+" (.int .uint64 (2^64 - 1)) (.int .int 1)).run st = .ok (.int .int64 0, st) :=
  add_wraps (a := -1) (b := 1) (by decide) (by decide) st
-- division truncates toward zero (floor would give -4 and 1)
example (st : St) : (numBin "/" (.int .int (-7)) (.int .int 2)).run st = .ok (.int .int64 (-3), st) :=
  div_truncates (a := -7) (b := 2) (by decide) (by decide) (by decide) st
example (st : St) : (intBin "%" (.int .int (-7)) (.int .int 2)).run st = .ok (.int .int64 (-1), st) :=
  mod_truncates (a := -7) (b := 2) (by decide) (by decide) (by decide) st
example (st : St) : (numBin "/" (.int .int64 (-2^63)) (.int .int (-1))).run st = .ok (.int .int64 (-2^63), st) :=
  div_min_by_neg_one (by decide) (by decide) st
example (st : St) : (intBin "%" (.int .int64 (-2^63)) (.int .int (-1))).run st = .ok (.int .int64 0, st) :=
  mod_truncates (a := -2^63) (b := -1) (by decide) (by decide) (by decide) st
example (st : St) : (numBin "/" (.int .int 1) (.int .uint16 0)).run st = .error () :=
  div_zero_panics (a := 1) (by decide) (by decide) st
example (st : St) : (intBin "%" (.int .int 1) (.int .int64 0)).run st = .error () :=
  mod_zero_panics (a := 1) (by decide) (by decide) st
-- shifts
example (st : St) : (intBin "<<" (.int .int 1) (.int .int 63)).run st = .ok (.int .int64 (-2^63), st) := by
  rw [shl_semantics (a := 1) (b := 63) (by decide) (by decide), if_neg (by decide)]
  exact congrArg (fun v => Except.ok (Val.int .int64 v, st)) (by decide)
example (st : St) : (intBin "<<" (.int .int 1) (.int .int 64)).run st = .ok (.int .int64 0, st) :=
  shl_ge_64 (a := 1) (b := 64) (by decide) (by decide) (by decide) st
example (st : St) : (intBin "<<" (.int .int 1) (.int .int (-1))).run st = .error () :=
  shl_negative_panics (a := 1) (b := -1) (by decide) (by decide) (by decide) st
example (st : St) : (intBin ">>" (.int .int (-7)) (.int .int 1)).run st = .ok (.int .int64 (-4), st) :=
  shr_floor_div (a := -7) (b := 1) (by decide) (by decide) (by decide) (by decide) st
example (st : St) : (intBin ">>" (.int .int64 (-2^63)) (.int .int 100)).run st = .ok (.int .int64 (-1), st) :=
  (shr_floor_div (a := -2^63) (b := 100) (by decide) (by decide) (by decide) (by decide) st).trans
    (congrArg (fun v => Except.ok (Val.int .int64 v, st)) (by decide))
example (st : St) : (intBin ">>" (.int .int64 (2^63 - 1)) (.int .int 64)).run st = .ok (.int .int64 0, st) :=
  (shr_floor_div (a := 2^63 - 1) (b := 64) (by decide) (by decide) (by decide) (by decide) st).trans
    (congrArg (fun v => Except.ok (Val.int .int64 v, st)) (by decide))
-- bitwise
example (st : St) : (intBin "&" (.int .int (-1)) (.int .int64 (2^63 - 1))).run st = .ok (.int .int64 (2^63 - 1), st) := by
  rw [intBin_int (a := -1) (b := 2^63 - 1) (by decide) (by decide), R.run_toM]
  exact congrArg (fun v => Except.ok (Val.int .int64 v, st)) (by decide)
example (st : St) : (intBin "&^" (.int .int (-1)) (.int .int64 (2^63 - 1))).run st = .ok (.int .int64 (-2^63), st) := by
  rw [intBin_int (a := -1) (b := 2^63 - 1) (by decide) (by decide), R.run_toM]
  exact congrArg (fun v => Except.ok (Val.int .int64 v, st)) (by decide)
example (st : St) : (intBin "^" (.int .int (-2^63)) (.int .int64 (2^63 - 1))).run st = .ok (.int .int64 (-1), st) := by
  rw [intBin_int (a := -2^63) (b := 2^63 - 1) (by decide) (by decide), R.run_toM]
  exact congrArg (fun v => Except.ok (Val.int .int64 v, st)) (by decide)
example : tc64 (-1) = 2^64 - 1 ∧ tc64 (-2^63) = 2^63 ∧ tc64 (2^63 - 1) = 2^63 - 1 := by decide
-- wrong kinds: a bool, nil, a string operand of `*`; a float operand of `%`
example : (numBin "*" (.bool true) (.int .int 1)).run {} = .ok (.nil, { err := some { sentinel := false } }) :=
  wrong_kind_is_error "*" _ _ {} rfl (.inl ⟨rfl, rfl⟩)
example (x : Float) : (numBin "-" (.f64 x) .nil).run {} = .ok (.nil, { err := some { sentinel := false } }) :=
  wrong_kind_is_error "-" _ _ {} rfl (.inr ⟨rfl, rfl⟩)
example (x : Float) : (intBin "%" (.int .int 1) (.f64 x)).run {} = .ok (.nil, { err := some { sentinel := false } }) :=
  wrong_kind_is_error_int "%" _ _ {} rfl (.inr rfl)
example : (relOp [] "<" (.str "a") (.int .int 1)).run {} = .ok (.nil, { err := some { sentinel := false } }) :=
  wrong_kind_is_error_ord [] "<" (by decide) _ _ {} rfl (.inl ⟨rfl, rfl⟩) (fun _ _ h => by cases h.2)
example : (relOp [] ">=" (.int .int 1) .nil).run {} = .ok (.nil, { err := some { sentinel := false } }) :=
  wrong_kind_is_error_ord [] ">=" (by decide) _ _ {} rfl (.inr ⟨rfl, rfl⟩) (fun _ _ h => by cases h.1)
-- hypotheses `inI64 a` are what `isInt` delivers for well-formed values
example : inI64 (-2^63) ∧ inI64 (2^63 - 1) ∧ ¬ inI64 (2^63) := by decide
example {a : Int} (h : isInt (.int .uint64 (2^64 - 1)) = some a) : inI64 a :=
  isInt_inI64 (k := .uint64) (x := 2^64 - 1) (by decide) (by intro h; cases h) h

end C09arith
