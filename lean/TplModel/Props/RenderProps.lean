import TplModel.Proofs.RenderSpec
/-! # User-level properties of the renderer, derived from the structural specification `RN.ref…`

All theorems hold for every configuration, every evaluation interface `Env`, every scope type, every tree and
every fuel (with the hypothesis that the run did not stop for lack of fuel). -/
namespace RN.Props
open RN RN.Spec
variable {Sc : Type}

/-! ## toy instances for the non-vacuity examples (all evaluated by the kernel: `decide +kernel`) -/

deriving instance DecidableEq for Except
deriving instance DecidableEq for ChildMode

/-- scope: variable bindings; `evalStr` looks the attribute value up as a variable and logs the call -/
abbrev TSc := List (String × String)
def lookup (sc : TSc) (k : String) : Option String := (sc.find? (·.1 == k)).map (·.2)

def txt (id : Nat) (v : String) : Node := .mk { id := id, kind := .text, value := v, tagName := "", attrs := [] } [] none
def el (id : Nat) (name : String) (attrs : List CAttr) (kids : List Node) (prev : Option Nat := none)
    (nb : Option String := none) : Node :=
  .mk { id := id, kind := .tag, value := "<" ++ name ++ ">", tagName := name, attrs := attrs, prevTag := prev,
        nextBlank := nb } kids (some ("</" ++ name ++ ">"))
def rootOf (kids : List Node) : Node := .mk { id := 0, kind := .root, value := "", tagName := "", attrs := [] } kids none
def at_ (n : String) (v : String) : CAttr := ⟨n, some v, []⟩

/-- the fragment known to the toy manager -/
def fragT : Node := rootOf [el 901 "b" [] [txt 902 "F"]]

def toyEnv : Env TSc where
  evalStr a sc := match a.value with
    | some v => (match lookup sc v with | some x => (.ok x, ["eval " ++ v]) | none => (.error (.eval false true), ["eval " ++ v]))
    | none => (.error .attrValueExpected, [])
  withAssign a sc := match a.value with
    | some v => (.ok ((v, "true") :: sc), ["with " ++ v])
    | none => (.error .withSyntax, [])
  rangeItems a sc := match a.value with
    | some v => (match lookup sc v with
      | some x => (.ok (x.toList.map fun c => ("it", c.toString) :: sc), ["range " ++ v])
      | none => (.error .rangeObject, ["range " ++ v]))
    | none => (.error .attrValueExpected, [])
  tpl name := if name == "frag" then some fragT else none

/-- an environment in which every evaluation fails -/
def failEnv : Env Unit :=
  { evalStr := fun _ _ => (.error .nilTag, ["called"]), withAssign := fun _ _ => (.error .nilTag, ["called"]),
    rangeItems := fun _ _ => (.error .nilTag, ["called"]), tpl := fun _ => none }

/-! ## C01 — markup without directives is reproduced unchanged -/

/-- C01. A tree without directive attributes, block tags and hidden comments renders to its re-assembled source;
    no evaluation takes place (empty event log), whatever the environment. -/
theorem render_plain (cfg : Cfg) (env : Env Sc) (fuel : Nat) (root : Node) (sc : Sc)
    (hp : Plain cfg root) (hf : (refExecute cfg env fuel root sc).st ≠ .fuel) :
    (refExecute cfg env fuel root sc).st = .ok ∧
    String.join (refExecute cfg env fuel root sc).out = printNode root ∧
    (refExecute cfg env fuel root sc).log = [] := by
  obtain ⟨h1, h2, h3, _⟩ := plain_all cfg env fuel 0 sc root emptyNc hp hf
  exact ⟨h1, h2, h3⟩

def plainTree : Node :=
  rootOf [el 1 "p" [at_ "class" "\"a\"", ⟨"hidden", none, []⟩] [txt 2 "hi", el 3 "br/" [] []], txt 4 "\n",
    .mk { id := 5, kind := .comment, value := "<!-- c -->", tagName := "", attrs := [] } [] none]

example : Plain {} plainTree ∧ (refExecute {} failEnv 20 plainTree ()).st ≠ .fuel ∧
    printNode plainTree = "<p class=\"a\" hidden>hi<br/></br/></p>\n<!-- c -->" ∧
    (refExecute {} failEnv 20 plainTree ()).out =
      ["", "<p class=\"a\" hidden>", "hi", "<br/>", "</br/>", "</p>", "\n", "<!-- c -->"] := by
  unfold Plain; decide +kernel

/-! ## C03 (b) — an else-if / else without a preceding chain element is an error -/

/-- C03(b). An element whose condition attribute is of the else family (`isIf = false`) and whose previous sibling
    tag has no recorded condition (or which has no previous sibling tag) fails with `unexpectedElse`; its `with`
    assignment has been evaluated (log `lg`), its condition and body have not; nothing is written. -/
theorem orphan_else_is_error (cfg : Cfg) (env : Env Sc) (f depth : Nat) (nc : NC) (node : Node) (sc sc1 : Sc)
    (lg : List String) (ca : CAttr) (v : String)
    (hk : node.d.kind = .tag) (hw : withPhase cfg env node.d sc = (.ok sc1, lg))
    (hc : condAttr cfg node.d.attrs = some (ca, false)) (hv : ca.value = some v)
    (hp : node.d.prevTag.bind nc = none)
    (hf : (refNode cfg env f depth nc node sc).st ≠ .fuel) :
    refNode cfg env f depth nc node sc = { st := .err .unexpectedElse, out := [], log := lg ++ [], nc := nc } := by
  rw [refNode_unf_tag cfg env f depth nc node sc hk hf, tagPhases_cond cfg env hw hc hv]
  simp only [satBefore, Bool.false_eq_true, if_false, hp, chainStep]
  rfl

/-- an `else` as first child: no previous sibling tag -/
def orphanTree : Node := rootOf [txt 1 "x", el 2 "p" [at_ ":else" "\"\""] [txt 3 "y"]]

example : (refExecute {} toyEnv 20 orphanTree []).st = .err .unexpectedElse ∧
    (refExecute {} toyEnv 20 orphanTree []).out = ["", "x"] := by decide +kernel

def orphanNode : Node := el 2 "p" [at_ ":else" "\"\""] [txt 3 "y"]
example : orphanNode.d.kind = .tag ∧ withPhase {} toyEnv orphanNode.d [] = (.ok [], []) ∧
    condAttr {} orphanNode.d.attrs = some (at_ ":else" "\"\"", false) ∧ orphanNode.d.prevTag.bind emptyNc = none ∧
    (refNode {} toyEnv 5 0 emptyNc orphanNode []).st ≠ .fuel := by decide +kernel

/-! ## C04 — range renders the element once per item -/

/-- C04, failure of the collection: the error of `rangeItems` is the error of the element, nothing is written. -/
theorem range_error (cfg : Cfg) (env : Env Sc) (f depth : Nat) (nc : NC) (node : Node) (sc sc1 : Sc)
    (lgw lgr : List String) (ra : CAttr) (v : String) (c : Cls)
    (hk : node.d.kind = .tag) (hw : withPhase cfg env node.d sc = (.ok sc1, lgw))
    (hc : condAttr cfg node.d.attrs = none) (hr : rangeAttr cfg node.d.attrs = some ra) (hv : ra.value = some v)
    (hE : env.rangeItems ra sc1 = (.error c, lgr))
    (hf : (refNode cfg env f depth nc node sc).st ≠ .fuel) :
    refNode cfg env f depth nc node sc = { st := .err c, out := [], log := lgw ++ lgr, nc := nc } := by
  rw [refNode_range cfg env f depth nc node sc sc1 lgw ra hk hw hc hr hf, rangeRun_error env _ _ _ _ _ hv hE]
  rfl

/-- C04. with-phase, then `rangeItems` (once), then one rendering of the body per item, in order, each in its item
    scope and with the conditions left by the previous one; the output is ONE chunk: the item texts separated by the
    blank text that follows the element (`nextBlank`), no separator before the first or after the last; an empty
    collection gives the chunk `""`. If an item body fails, that failure is the result and the chunk is dropped. -/
theorem range_once_per_item (cfg : Cfg) (env : Env Sc) (f depth : Nat) (nc : NC) (node : Node) (sc sc1 : Sc)
    (lgw lgr : List String) (ra : CAttr) (v : String) (items : List Sc)
    (hk : node.d.kind = .tag) (hw : withPhase cfg env node.d sc = (.ok sc1, lgw))
    (hc : condAttr cfg node.d.attrs = none) (hr : rangeAttr cfg node.d.attrs = some ra) (hv : ra.value = some v)
    (hE : env.rangeItems ra sc1 = (.ok items, lgr))
    (hf : (refNode cfg env f depth nc node sc).st ≠ .fuel) :
    let q := refNode cfg env f depth nc node sc
    let bodies := threadBodies (fun nc sc => refBody cfg env f depth nc node sc) nc items
    ((∀ r ∈ bodies, r.st = .ok) →
        q.st = .ok ∧ q.out = [joinItems node.d.nextBlank true bodies] ∧
        q.log = lgw ++ (lgr ++ bodies.flatMap (·.log)) ∧ q.nc = lastNc nc bodies) ∧
    (q.st = .ok → ∀ r ∈ bodies, r.st = .ok) ∧
    (∀ pre r post, bodies = pre ++ r :: post → (∀ p ∈ pre, p.st = .ok) → r.st ≠ .ok →
        q.st = r.st ∧ q.out = [] ∧ q.log = lgw ++ (lgr ++ (pre.flatMap (·.log) ++ r.log))) := by
  intro q bodies
  have e : q = _ := refNode_range cfg env f depth nc node sc sc1 lgw ra hk hw hc hr hf
  rw [rangeRun_items env _ _ _ _ _ hv hE] at e
  refine ⟨?_, ?_, ?_⟩
  · intro hall
    obtain ⟨i1, i2, i3, i4⟩ := itemsRun_ok (fun nc sc => refBody cfg env f depth nc node sc) node.d.nextBlank items nc true hall
    rw [e]
    simp only [Q.addLogS_st, Q.buffered_st, Q.addLogS_out, Q.addLogS_log, Q.buffered_log, Q.addLogS_nc, Q.buffered_nc,
      Q.buffered_out_ok i1, i1, i2, i3, i4]
    exact ⟨trivial, rfl, rfl, rfl⟩
  · intro hq
    rw [e] at hq
    simp only [Q.addLogS_st, Q.buffered_st] at hq
    exact itemsRun_st_ok _ _ _ _ _ hq
  · intro pre r post hb hpre hr'
    obtain ⟨j1, j2, _⟩ := itemsRun_fail (fun nc sc => refBody cfg env f depth nc node sc) node.d.nextBlank items nc true
      pre post r hb hpre hr'
    rw [e]
    have hne : (itemsRun (fun nc sc => refBody cfg env f depth nc node sc) node.d.nextBlank nc items true).st ≠ .ok := by
      rw [j1]; exact hr'
    simp only [Q.addLogS_st, Q.buffered_st, Q.addLogS_out, Q.addLogS_log, Q.buffered_log, Q.buffered_out_not_ok hne, j1, j2]
    exact ⟨trivial, trivial, trivial⟩

/-- the empty collection renders the single empty chunk -/
theorem range_empty (cfg : Cfg) (env : Env Sc) (f depth : Nat) (nc : NC) (node : Node) (sc sc1 : Sc)
    (lgw lgr : List String) (ra : CAttr) (v : String)
    (hk : node.d.kind = .tag) (hw : withPhase cfg env node.d sc = (.ok sc1, lgw))
    (hc : condAttr cfg node.d.attrs = none) (hr : rangeAttr cfg node.d.attrs = some ra) (hv : ra.value = some v)
    (hE : env.rangeItems ra sc1 = (.ok [], lgr))
    (hf : (refNode cfg env f depth nc node sc).st ≠ .fuel) :
    refNode cfg env f depth nc node sc = { st := .ok, out := [""], log := lgw ++ (lgr ++ []), nc := nc } := by
  rw [refNode_range cfg env f depth nc node sc sc1 lgw ra hk hw hc hr hf, rangeRun_items env _ _ _ _ _ hv hE]
  rfl

/-- `<li :range="xs" :text="it">` followed by a blank text, `xs = "ab"`: two items, separator once -/
def rangeNode : Node := el 2 "li" [at_ ":range" "xs", at_ ":text" "it"] [txt 3 "?"] none (some "\n ")

example : (refNode {} toyEnv 20 0 emptyNc rangeNode [("xs", "ab")]).out = ["<li>a</li>\n <li>b</li>"] ∧
    (refNode {} toyEnv 20 0 emptyNc rangeNode [("xs", "ab")]).log = ["range xs", "eval it", "eval it"] ∧
    (refNode {} toyEnv 20 0 emptyNc rangeNode [("xs", "")]).out = [""] ∧
    (refNode {} toyEnv 20 0 emptyNc rangeNode []).st = .err .rangeObject ∧
    rangeNode.d.kind = .tag ∧ withPhase {} toyEnv rangeNode.d [("xs", "ab")] = (.ok [("xs", "ab")], []) ∧
    condAttr {} rangeNode.d.attrs = none ∧ rangeAttr {} rangeNode.d.attrs = some (at_ ":range" "xs") ∧
    (toyEnv.rangeItems (at_ ":range" "xs") [("xs", "ab")]).1 =
      .ok [[("it", "a"), ("xs", "ab")], [("it", "b"), ("xs", "ab")]] := by decide +kernel

/-! ## C05 / C07 — the rest phase: remove modes, attributes, fragments

`refBody` is what an element renders once its `with`, condition and range have been dealt with (for an element
without these three attributes `refNode = refBody`, `refNode_noctl`). `AttrsOk` says that the evaluations of the
rest phase (dynamic attributes, fragment names, fragments) succeed; `fragOf … f depth nc` is the fragment executor.
`startChunk` is the first chunk: replaced fragments, then — unless the tag is not printed — `<name`, the dynamic and
static attributes, `>`, the inserted fragments. -/

/-- the texts of the replaced fragments of an element -/
def replText (cfg : Cfg) (env : Env Sc) (f depth : Nat) (nc : NC) (node : Node) (sc : Sc) : String :=
  String.join (node.d.attrs.map (replTextOf cfg env (fragOf cfg env f depth nc) sc))

/-- the events of the rest-phase attributes -/
def restLog (cfg : Cfg) (env : Env Sc) (f depth : Nat) (nc : NC) (node : Node) (sc : Sc) : List String :=
  node.d.attrs.flatMap (attrLog cfg env (fragOf cfg env f depth nc) sc)

theorem startChunk_noPrint {cfg : Cfg} {env : Env Sc} {f depth : Nat} {nc : NC} {node : Node} {sc : Sc}
    (h : (optFold cfg node.d.attrs (initOpt cfg node.d 3)).1 = true) :
    startChunk cfg env (fragOf cfg env f depth nc) node.d sc = replText cfg env f depth nc node sc := by
  simp [startChunk, h, replText]

/-- C05, remove="all": neither tag nor children nor end tag; the only chunk is the text of replaced fragments
    (empty when the element has no `replace`). The attribute evaluations still take place (`restLog`). -/
theorem remove_all (cfg : Cfg) (env : Env Sc) (f depth : Nat) (nc : NC) (node : Node) (sc : Sc)
    (hf : (refBody cfg env f depth nc node sc).st ≠ .fuel) (hA : AttrsOk cfg env f depth nc node sc)
    (hr : ∃ a ∈ node.d.attrs, classify cfg a = .remove ∧ isAll a = true) :
    refBody cfg env f depth nc node sc =
      { st := .ok, out := [replText cfg env f depth nc node sc], log := restLog cfg env f depth nc node sc, nc := nc } ∧
    (hasKind cfg node.d.attrs (· == .replace) = false → replText cfg env f depth nc node sc = "") := by
  constructor
  · rw [refBody_eq_bodySpec cfg env f depth nc node sc hf hA]
    have ho := optFold_all cfg node.d.attrs (initOpt cfg node.d 3) hr
    unfold bodySpec
    rw [startChunk_noPrint (by rw [ho]), ho]
    simp only [childRun, endChunks]
    cases node.endVal <;> simp [Q.andThen, Q.okQ, restLog]
  · intro h
    rw [hasKind_false_iff] at h
    exact join_map_empty _ _ (fun a ha => by simp [replTextOf, h a ha])

/-- C05, remove="body": start tag and end tag as usual, the children are not rendered. -/
theorem remove_body (cfg : Cfg) (env : Env Sc) (f depth : Nat) (nc : NC) (node : Node) (sc : Sc)
    (hf : (refBody cfg env f depth nc node sc).st ≠ .fuel) (hA : AttrsOk cfg env f depth nc node sc)
    (hr : ∃ a ∈ node.d.attrs, classify cfg a = .remove ∧ isBody a = true) :
    refBody cfg env f depth nc node sc =
      { st := .ok,
        out := [startChunk cfg env (fragOf cfg env f depth nc) node.d sc] ++
          endChunks node.endVal (optFold cfg node.d.attrs (initOpt cfg node.d 3)).1,
        log := restLog cfg env f depth nc node sc, nc := nc } := by
  rw [refBody_eq_bodySpec cfg env f depth nc node sc hf hA]
  have ho := optFold_body cfg node.d.attrs (initOpt cfg node.d 3) hr
  unfold bodySpec
  rw [ho]
  simp [childRun, Q.andThen, Q.okQ, restLog]

/-- C05, remove="tag": no start tag, no end tag; the children (or the text/raw value) are rendered. -/
theorem remove_tag (cfg : Cfg) (env : Env Sc) (f depth : Nat) (nc : NC) (node : Node) (sc : Sc)
    (hf : (refBody cfg env f depth nc node sc).st ≠ .fuel) (hA : AttrsOk cfg env f depth nc node sc)
    (hr : ∃ a ∈ node.d.attrs, classify cfg a = .remove ∧ isTagM a = true) :
    refBody cfg env f depth nc node sc =
      ({ st := .ok, out := [replText cfg env f depth nc node sc], log := restLog cfg env f depth nc node sc, nc := nc } : Q).andThen
        fun nc => childRun env (fun nc ks => refKids cfg env f depth nc ks sc) (fun nc k => refNode cfg env f depth nc k sc)
          node nc (optFold cfg node.d.attrs (initOpt cfg node.d 3)).2 sc := by
  rw [refBody_eq_bodySpec cfg env f depth nc node sc hf hA]
  have ho := optFold_tag cfg node.d.attrs (initOpt cfg node.d 3) hr
  unfold bodySpec
  rw [startChunk_noPrint ho, ho]
  have : endChunks node.endVal true = [] := by cases node.endVal <;> rfl
  simp only [this, Q.andThen_okQ_nil, restLog]

/-- C05, remove="all-but-first" (no earlier remove/text/raw, no later remove, an element that prints its tag and
    has ordinary children): start tag, then the first child tag with the blank text before it and the blank text at
    the end of the children (`abfParts`), then the end tag. -/
theorem remove_all_but_first (cfg : Cfg) (env : Env Sc) (f depth : Nat) (nc : NC) (node : Node) (sc : Sc)
    (pre post : List CAttr) (a : CAttr)
    (hf : (refBody cfg env f depth nc node sc).st ≠ .fuel) (hA : AttrsOk cfg env f depth nc node sc)
    (has : node.d.attrs = pre ++ a :: post)
    (hpre : ∀ x ∈ pre, touchesOpt (classify cfg x) = false) (hk : classify cfg a = .remove) (ha : isAbf a = true)
    (hpost : ∀ x ∈ post, classify cfg x ≠ .remove)
    (hi : initOpt cfg node.d 3 = (false, .unset)) :
    refBody cfg env f depth nc node sc =
      (({ st := .ok, out := [startChunk cfg env (fragOf cfg env f depth nc) node.d sc],
          log := restLog cfg env f depth nc node sc, nc := nc } : Q).andThen fun nc =>
        (optRun (fun nc k => refNode cfg env f depth nc k sc) (abfParts node.kids).1 nc).andThen fun nc =>
          (optRun (fun nc k => refNode cfg env f depth nc k sc) (abfParts node.kids).2.1 nc).andThen fun nc =>
            optRun (fun nc k => refNode cfg env f depth nc k sc) (abfParts node.kids).2.2 nc).andThen
        fun nc => Q.okQ (endChunks node.endVal false) nc := by
  rw [refBody_eq_bodySpec cfg env f depth nc node sc hf hA]
  have ho : optFold cfg node.d.attrs (initOpt cfg node.d 3) = (false, .abf) := by
    rw [has, hi]; exact optFold_abf cfg pre post a false hpre hk ha hpost
  unfold bodySpec
  rw [ho]
  rfl


/-- C05/C07 `remove_modes_exact`: the four modes drop exactly the parts they name (bundle of the four theorems above;
    `AttrsOk` and "not out of fuel" assumed). -/
theorem remove_modes_exact (cfg : Cfg) (env : Env Sc) (f depth : Nat) (nc : NC) (node : Node) (sc : Sc)
    (hf : (refBody cfg env f depth nc node sc).st ≠ .fuel) (hA : AttrsOk cfg env f depth nc node sc) :
    -- "all": nothing of tag, children, end
    ((∃ a ∈ node.d.attrs, classify cfg a = .remove ∧ isAll a = true) →
      refBody cfg env f depth nc node sc =
        { st := .ok, out := [replText cfg env f depth nc node sc], log := restLog cfg env f depth nc node sc, nc := nc }) ∧
    -- "body": tag and end printed, no children
    ((∃ a ∈ node.d.attrs, classify cfg a = .remove ∧ isBody a = true) →
      refBody cfg env f depth nc node sc =
        { st := .ok,
          out := [startChunk cfg env (fragOf cfg env f depth nc) node.d sc] ++
            endChunks node.endVal (optFold cfg node.d.attrs (initOpt cfg node.d 3)).1,
          log := restLog cfg env f depth nc node sc, nc := nc }) ∧
    -- "tag": children only
    ((∃ a ∈ node.d.attrs, classify cfg a = .remove ∧ isTagM a = true) →
      refBody cfg env f depth nc node sc =
        ({ st := .ok, out := [replText cfg env f depth nc node sc], log := restLog cfg env f depth nc node sc, nc := nc } : Q).andThen
          fun nc => childRun env (fun nc ks => refKids cfg env f depth nc ks sc) (fun nc k => refNode cfg env f depth nc k sc)
            node nc (optFold cfg node.d.attrs (initOpt cfg node.d 3)).2 sc) ∧
    -- "all-but-first": tag, the `abfParts`, end
    (∀ (pre post : List CAttr) (a : CAttr), node.d.attrs = pre ++ a :: post →
      (∀ x ∈ pre, touchesOpt (classify cfg x) = false) → classify cfg a = .remove → isAbf a = true →
      (∀ x ∈ post, classify cfg x ≠ .remove) → initOpt cfg node.d 3 = (false, .unset) →
      refBody cfg env f depth nc node sc =
        (({ st := .ok, out := [startChunk cfg env (fragOf cfg env f depth nc) node.d sc],
            log := restLog cfg env f depth nc node sc, nc := nc } : Q).andThen fun nc =>
          (optRun (fun nc k => refNode cfg env f depth nc k sc) (abfParts node.kids).1 nc).andThen fun nc =>
            (optRun (fun nc k => refNode cfg env f depth nc k sc) (abfParts node.kids).2.1 nc).andThen fun nc =>
              optRun (fun nc k => refNode cfg env f depth nc k sc) (abfParts node.kids).2.2 nc).andThen
          fun nc => Q.okQ (endChunks node.endVal false) nc) :=
  ⟨fun h => (remove_all cfg env f depth nc node sc hf hA h).1,
   fun h => remove_body cfg env f depth nc node sc hf hA h,
   fun h => remove_tag cfg env f depth nc node sc hf hA h,
   fun pre post a has hpre hk ha hpost hi =>
     remove_all_but_first cfg env f depth nc node sc pre post a hf hA has hpre hk ha hpost hi⟩

/-- an element whose option state is "nothing printed, no children" renders the replaced fragments only -/
theorem body_silent (cfg : Cfg) (env : Env Sc) (f depth : Nat) (nc : NC) (node : Node) (sc : Sc)
    (hf : (refBody cfg env f depth nc node sc).st ≠ .fuel) (hA : AttrsOk cfg env f depth nc node sc)
    (ho : optFold cfg node.d.attrs (initOpt cfg node.d 3) = (true, .nop)) :
    refBody cfg env f depth nc node sc =
      { st := .ok, out := [replText cfg env f depth nc node sc], log := restLog cfg env f depth nc node sc, nc := nc } := by
  rw [refBody_eq_bodySpec cfg env f depth nc node sc hf hA]
  unfold bodySpec
  rw [startChunk_noPrint (by rw [ho]), ho]
  simp only [childRun, endChunks]
  cases node.endVal <;> simp [Q.andThen, Q.okQ, restLog]

theorem replText_none (cfg : Cfg) (env : Env Sc) (f depth : Nat) (nc : NC) (node : Node) (sc : Sc)
    (h : hasKind cfg node.d.attrs (· == .replace) = false) : replText cfg env f depth nc node sc = "" := by
  rw [hasKind_false_iff] at h
  exact join_map_empty _ _ (fun a ha => by simp [replTextOf, h a ha])

theorem optFold_define_or_replace (cfg : Cfg) (d : NodeD)
    (h : hasKind cfg d.attrs (fun k => k == .define || k == .replace) = true) :
    optFold cfg d.attrs (initOpt cfg d 3) = (true, .nop) := by
  have hi : initOpt cfg d 3 = (true, .nop) := by
    rw [initOpt3]; simp only [h, if_true]; split <;> rfl
  rw [hi]
  exact Prod.ext (optFold_fst_mono cfg d.attrs .nop) (optFold_nop cfg d.attrs true)

/-- C07. An element carrying `define` is not rendered where it is written: neither tag nor children nor end tag;
    its single chunk is empty (unless it also carries `replace`). -/
theorem define_emits_nothing (cfg : Cfg) (env : Env Sc) (f depth : Nat) (nc : NC) (node : Node) (sc : Sc)
    (hf : (refBody cfg env f depth nc node sc).st ≠ .fuel) (hA : AttrsOk cfg env f depth nc node sc)
    (hd : hasKind cfg node.d.attrs (· == .define) = true)
    (hnr : hasKind cfg node.d.attrs (· == .replace) = false) :
    refBody cfg env f depth nc node sc =
      { st := .ok, out := [""], log := restLog cfg env f depth nc node sc, nc := nc } := by
  have h : hasKind cfg node.d.attrs (fun k => k == .define || k == .replace) = true := by
    simp only [hasKind, List.any_eq_true] at hd ⊢
    obtain ⟨a, ha, hk⟩ := hd
    exact ⟨a, ha, by simp only [hk, Bool.true_or]⟩
  rw [body_silent cfg env f depth nc node sc hf hA (optFold_define_or_replace cfg node.d h),
    replText_none cfg env f depth nc node sc hnr]

/-- C07. `replace`: the element is substituted by the fragment text — no tag, no children of the host, no end tag.
    With exactly one `replace` attribute `a` whose name evaluates to `name` and `tpl name = some t`, the chunk is the
    joined output of rendering `t` in the scope of the call site, one level deeper, with fresh conditions. -/
theorem replace_substitutes (cfg : Cfg) (env : Env Sc) (f depth : Nat) (nc : NC) (node : Node) (sc : Sc)
    (pre post : List CAttr) (a : CAttr) (name : String) (lg : List String) (t : Node)
    (hf : (refBody cfg env f depth nc node sc).st ≠ .fuel) (hA : AttrsOk cfg env f depth nc node sc)
    (has : node.d.attrs = pre ++ a :: post) (hk : classify cfg a = .replace)
    (hpre : ∀ x ∈ pre, classify cfg x ≠ .replace) (hpost : ∀ x ∈ post, classify cfg x ≠ .replace)
    (hE : env.evalStr a sc = (.ok name, lg)) (hT : env.tpl name = some t)
    (hfr : (refFrag cfg env f depth nc t sc).st = .ok) :
    refBody cfg env f depth nc node sc =
      { st := .ok, out := [String.join (refNode cfg env f (depth + 1) emptyNc t sc).out],
        log := restLog cfg env f depth nc node sc, nc := nc } := by
  have h : hasKind cfg node.d.attrs (fun k => k == .define || k == .replace) = true := by
    simp only [hasKind, List.any_eq_true]
    exact ⟨a, by rw [has]; simp, by simp [hk]⟩
  rw [body_silent cfg env f depth nc node sc hf hA (optFold_define_or_replace cfg node.d h)]
  have : replText cfg env f depth nc node sc = String.join (refNode cfg env f (depth + 1) emptyNc t sc).out := by
    unfold replText
    rw [has, join_map_single _ pre post a (fun x hx => by simp [replTextOf, hpre x hx])
      (fun x hx => by simp [replTextOf, hpost x hx])]
    simp only [replTextOf, hk, beq_self_eq_true, if_true]
    exact fragTextOf_eq cfg env f depth nc sc a name lg t hE hT hfr
  rw [this]

/-- C07. `insert`: the children of the host are not rendered; the element is its start chunk and its end tag. -/
theorem insert_no_children (cfg : Cfg) (env : Env Sc) (f depth : Nat) (nc : NC) (node : Node) (sc : Sc)
    (hf : (refBody cfg env f depth nc node sc).st ≠ .fuel) (hA : AttrsOk cfg env f depth nc node sc)
    (hi : hasKind cfg node.d.attrs (· == .insert) = true) :
    refBody cfg env f depth nc node sc =
      { st := .ok,
        out := [startChunk cfg env (fragOf cfg env f depth nc) node.d sc] ++
          endChunks node.endVal (optFold cfg node.d.attrs (initOpt cfg node.d 3)).1,
        log := restLog cfg env f depth nc node sc, nc := nc } := by
  rw [refBody_eq_bodySpec cfg env f depth nc node sc hf hA]
  have ho : (optFold cfg node.d.attrs (initOpt cfg node.d 3)).2 = .nop := by
    have h2 : (initOpt cfg node.d 3).2 = .nop := by rw [initOpt3]; simp only [hi, if_true]
    rw [show initOpt cfg node.d 3 = ((initOpt cfg node.d 3).1, .nop) from Prod.ext rfl h2]
    exact optFold_nop cfg node.d.attrs _
  unfold bodySpec
  rw [ho]
  simp [childRun, Q.andThen, Q.okQ, restLog]

/-- C07. `insert` wraps: for an element with exactly one `insert` attribute, no define / replace / remove and not a
    block tag, the output is the start tag (dynamic and static attributes), `>`, the fragment text, then the end
    tag; the host's own children are not rendered. -/
theorem insert_wraps (cfg : Cfg) (env : Env Sc) (f depth : Nat) (nc : NC) (node : Node) (sc : Sc)
    (pre post : List CAttr) (a : CAttr) (name : String) (lg : List String) (t : Node)
    (hf : (refBody cfg env f depth nc node sc).st ≠ .fuel) (hA : AttrsOk cfg env f depth nc node sc)
    (has : node.d.attrs = pre ++ a :: post) (hk : classify cfg a = .insert)
    (hpre : ∀ x ∈ pre, classify cfg x ≠ .insert) (hpost : ∀ x ∈ post, classify cfg x ≠ .insert)
    (hndr : hasKind cfg node.d.attrs (fun k => k == .define || k == .replace) = false)
    (hnrm : hasKind cfg node.d.attrs (· == .remove) = false)
    (hnb : (trimSlash (lowerS node.d.tagName) == cfg.tagPrefix ++ "block") = false)
    (hE : env.evalStr a sc = (.ok name, lg)) (hT : env.tpl name = some t)
    (hfr : (refFrag cfg env f depth nc t sc).st = .ok) :
    refBody cfg env f depth nc node sc =
      { st := .ok,
        out := ["<" ++ node.d.tagName ++ String.join (node.d.attrs.map (attrText cfg env node.d sc)) ++ ">" ++
                  String.join (refNode cfg env f (depth + 1) emptyNc t sc).out] ++ endChunks node.endVal false,
        log := restLog cfg env f depth nc node sc, nc := nc } := by
  have hi : hasKind cfg node.d.attrs (· == .insert) = true := by
    simp only [hasKind, List.any_eq_true]
    exact ⟨a, by rw [has]; simp, by simp [hk]⟩
  rw [insert_no_children cfg env f depth nc node sc hf hA hi]
  have h1 : (optFold cfg node.d.attrs (initOpt cfg node.d 3)).1 = false := by
    have hi1 : (initOpt cfg node.d 3).1 = false := by rw [initOpt3]; simp only [hndr, Bool.false_eq_true, if_false, hnb]
    -- no remove attribute: noPrint is never set
    have : ∀ (as : List CAttr) (o : Bool × ChildMode), (∀ x ∈ as, classify cfg x ≠ .remove) →
        (optFold cfg as o).1 = o.1 := by
      intro as
      induction as with
      | nil => intro o _; rfl
      | cons x rest ih =>
        intro o h
        simp only [optFold]
        rw [ih _ (fun y hy => h y (by simp [hy]))]
        have hx := h x (by simp)
        unfold optStep
        cases hkx : classify cfg x <;> simp [hkx, textOpt] at hx ⊢
    rw [this _ _ (fun x hx => by
      rw [hasKind_false_iff] at hnrm
      have := hnrm x hx
      intro hc; simp [hc] at this), hi1]
  have h2 : replText cfg env f depth nc node sc = "" := by
    apply replText_none
    rw [hasKind_false_iff] at hndr ⊢
    intro x hx
    have := hndr x hx
    simp only [Bool.or_eq_false_iff] at this
    exact this.2
  have h3 : String.join (node.d.attrs.map (insTextOf cfg env (fragOf cfg env f depth nc) sc)) =
      String.join (refNode cfg env f (depth + 1) emptyNc t sc).out := by
    rw [has, join_map_single _ pre post a (fun x hx => by simp [insTextOf, hpre x hx])
      (fun x hx => by simp [insTextOf, hpost x hx])]
    simp only [insTextOf, hk, beq_self_eq_true, if_true]
    exact fragTextOf_eq cfg env f depth nc sc a name lg t hE hT hfr
  simp only [startChunk, h1, Bool.false_eq_true, if_false, h3]
  unfold replText at h2
  rw [h2, String.empty_append]

/-- C07. A fragment name that the manager does not know: `tplNotFound`, nothing written; the attributes before it
    were processed. -/
theorem unknown_name_is_tplNotFound (cfg : Cfg) (env : Env Sc) (f depth : Nat) (nc : NC) (node : Node) (sc : Sc)
    (pre post : List CAttr) (a : CAttr) (name : String) (lg : List String)
    (hf : (refBody cfg env f depth nc node sc).st ≠ .fuel)
    (has : node.d.attrs = pre ++ a :: post)
    (hk : classify cfg a = .replace ∨ classify cfg a = .insert)
    (hpre : (attrsRun cfg env (fragOf cfg env f depth nc) node.d nc pre (startPS cfg node.d sc)).st = .ok)
    (hE : env.evalStr a sc = (.ok name, lg)) (hT : env.tpl name = none) :
    refBody cfg env f depth nc node sc =
      { st := .err .tplNotFound, out := [],
        log := (attrsRun cfg env (fragOf cfg env f depth nc) node.d nc pre (startPS cfg node.d sc)).log ++ lg, nc := nc } := by
  obtain ⟨h1, h2⟩ := attrsRun_tplNotFound cfg env (fragOf cfg env f depth nc) node.d nc pre post a (startPS cfg node.d sc)
    name lg hpre hk hE hT
  rw [← has] at h1 h2
  rw [refBody_attr_fail cfg env f depth nc node sc hf (by rw [h1]; simp), h1, h2]

/-- C07. A fragment runs one level deeper with FRESH conditions (`emptyNc`) and leaves the caller's conditions
    unchanged; its chunks are joined into one (dropped on failure). -/
theorem fragment_gets_fresh_conditions (cfg : Cfg) (env : Env Sc) (f depth : Nat) (nc : NC) (t : Node) (sc : Sc)
    (hf : (refFrag cfg env f depth nc t sc).st ≠ .fuel) (hd : depth + 1 ≤ cfg.maxDepth) :
    refFrag cfg env f depth nc t sc =
      { st := (refNode cfg env f (depth + 1) emptyNc t sc).st,
        out := (refNode cfg env f (depth + 1) emptyNc t sc).buffered.out,
        log := (refNode cfg env f (depth + 1) emptyNc t sc).log, nc := nc } := by
  rw [refFrag_unf cfg env f depth nc t sc hf]
  have : ¬ depth + 1 > cfg.maxDepth := by omega
  simp only [fragRun, this, if_false]
  exact Q.ext' (by simp) rfl (by simp) rfl

/-- in particular the result does not depend on the caller's conditions -/
theorem fragment_independent_of_nc (cfg : Cfg) (env : Env Sc) (f depth : Nat) (nc nc' : NC) (t : Node) (sc : Sc)
    (hf : (refFrag cfg env f depth nc t sc).st ≠ .fuel) :
    refFrag cfg env f depth nc' t sc = { refFrag cfg env f depth nc t sc with nc := nc' } := by
  cases f with
  | zero => exact absurd (by simp [refFrag]) hf
  | succ f => rw [refFrag, refFrag]; split <;> rfl

/-- C07 (depth limit). Beyond `maxDepth` nested fragments: `tooDeep`. -/
theorem fragment_depth_bounded (cfg : Cfg) (env : Env Sc) (f depth : Nat) (nc : NC) (t : Node) (sc : Sc)
    (hf : (refFrag cfg env f depth nc t sc).st ≠ .fuel) (hd : depth + 1 > cfg.maxDepth) :
    refFrag cfg env f depth nc t sc = { st := .err .tooDeep, out := [], log := [], nc := nc } := by
  rw [refFrag_unf cfg env f depth nc t sc hf]
  simp only [fragRun, hd, if_true]

/-- C05. A static attribute whose name, prefixed by the attribute prefix, also occurs on the element is not
    printed (the dynamic attribute replaces it): the step leaves the state unchanged. -/
theorem dynamic_overrides_static (cfg : Cfg) (env : Env Sc) (frag : Node → Sc → R) (d : NodeD) (a : CAttr) (ps : PS Sc)
    (nc : NC) (fl : Fl) (hk : classify cfg a = .plain)
    (h : d.attrs.any (fun b => b.name == cfg.attrPrefix ++ a.name) = true) :
    bodyStep cfg env frag d a (classify cfg a) ps nc fl = { st := .ok, ps := ps, log := [], nc := nc, fl := fl } ∧
    attrText cfg env d ps.data a = "" :=
  ⟨by rw [hk]; exact bodyStep_plain_overridden cfg env frag d a ps nc fl h, attrText_overridden cfg env d ps.data a hk h⟩

/-- C05. No directive leaks into the start tag: a step of the rest phase appends to the tag buffer either nothing or
    ` name…` where `name` is the command of a dynamic attribute (the attribute name without the prefix) or the name
    of a static attribute, which does not start with the attribute prefix. (`finishTag` only adds `>` and the
    inserted content.) -/
theorem no_directive_leaks (cfg : Cfg) (env : Env Sc) (frag : Node → Sc → R) (d : NodeD) (a : CAttr) (ps : PS Sc)
    (nc : NC) (fl : Fl) :
    (bodyStep cfg env frag d a (classify cfg a) ps nc fl).ps.tagBuf = ps.tagBuf ∨
    ∃ nm rest, (bodyStep cfg env frag d a (classify cfg a) ps nc fl).ps.tagBuf = ps.tagBuf ++ " " ++ nm ++ rest ∧
      (classify cfg a = .dyn nm ∨
        (classify cfg a = .plain ∧ nm = a.name ∧ a.name.startsWith cfg.attrPrefix = false)) :=
  bodyStep_tagBuf cfg env frag d a ps nc fl


/-! ### examples for C05 / C07 -/

def rmNode (mode : String) : Node :=
  el 1 "ul" [at_ ":remove" mode, at_ "class" "\"c\""] [txt 2 " ", el 3 "li" [] [txt 4 "one"], el 5 "li" [] [txt 6 "two"], txt 7 " "]

example : (refBody {} toyEnv 20 0 emptyNc (rmNode "'all'") []).st ≠ .fuel ∧ AttrsOk {} toyEnv 20 0 emptyNc (rmNode "'all'") [] ∧
    (∃ a ∈ (rmNode "'all'").d.attrs, classify {} a = .remove ∧ isAll a = true) ∧
    (refBody {} toyEnv 20 0 emptyNc (rmNode "'all'") []).out = [""] := by
  unfold AttrsOk; decide +kernel

example : (refBody {} toyEnv 20 0 emptyNc (rmNode "'body'") []).out = ["<ul class=\"c\">", "</ul>"] ∧
    (refBody {} toyEnv 20 0 emptyNc (rmNode "'tag'") []).out = ["", " ", "<li>", "one", "</li>", "<li>", "two", "</li>", " "] ∧
    (refBody {} toyEnv 20 0 emptyNc (rmNode "'all-but-first'") []).out =
      ["<ul class=\"c\">", " ", "<li>", "one", "</li>", " ", "</ul>"] ∧
    (∃ a ∈ (rmNode "'body'").d.attrs, classify {} a = .remove ∧ isBody a = true) ∧
    (∃ a ∈ (rmNode "\"tag\"").d.attrs, classify {} a = .remove ∧ isTagM a = true) ∧
    (rmNode "'all-but-first'").d.attrs = [] ++ at_ ":remove" "'all-but-first'" :: [at_ "class" "\"c\""] ∧
    classify {} (at_ ":remove" "'all-but-first'") = .remove ∧
    isAbf (at_ ":remove" "'all-but-first'") = true ∧ classify {} (at_ "class" "\"c\"") ≠ .remove ∧
    initOpt {} (rmNode "'all-but-first'").d 3 = (false, .unset) ∧
    AttrsOk {} toyEnv 20 0 emptyNc (rmNode "'all-but-first'") [] := by
  unfold AttrsOk; decide +kernel

/-- `<a :insert="f" :href="u" href="old">x</a>`: the dynamic `href` replaces the static one, the fragment is wrapped -/
def insNode : Node := el 1 "a" [at_ ":insert" "f", at_ ":href" "u", at_ "href" "\"old\""] [txt 2 "x"]
def repNode : Node := el 1 "a" [at_ ":replace" "f", at_ "href" "\"old\""] [txt 2 "x"]
def defNode : Node := el 1 "p" [at_ ":define" "\"frag\"", at_ ":title" "u"] [txt 2 "x"]

example : (refBody {} toyEnv 20 0 emptyNc insNode [("f", "frag"), ("u", "/a&b")]).out = ["<a href=\"/a&amp;b\"><b>F</b>", "</a>"] ∧
    (refBody {} toyEnv 20 0 emptyNc insNode [("f", "frag"), ("u", "/a&b")]).log = ["eval f", "eval u"] ∧
    AttrsOk {} toyEnv 20 0 emptyNc insNode [("f", "frag"), ("u", "/a&b")] ∧
    classify {} (at_ ":insert" "f") = .insert ∧
    (refFrag {} toyEnv 20 0 emptyNc fragT [("f", "frag"), ("u", "/a&b")]).st = .ok ∧
    hasKind {} insNode.d.attrs (fun k => k == .define || k == .replace) = false ∧
    hasKind {} insNode.d.attrs (· == .remove) = false ∧
    (insNode.d.attrs.any fun b => b.name == ({} : Cfg).attrPrefix ++ "href") = true ∧
    classify {} (at_ "href" "\"old\"") = .plain ∧
    (refBody {} toyEnv 20 0 emptyNc repNode [("f", "frag")]).out = ["<b>F</b>"] ∧
    AttrsOk {} toyEnv 20 0 emptyNc repNode [("f", "frag")] ∧
    (refBody {} toyEnv 20 0 emptyNc repNode [("f", "nope")]).st = .err .tplNotFound ∧
    (refBody {} toyEnv 20 0 emptyNc repNode [("f", "nope")]).st ≠ .fuel ∧
    (refBody {} toyEnv 20 0 emptyNc defNode [("u", "t")]).out = [""] ∧
    (refBody {} toyEnv 20 0 emptyNc defNode [("u", "t")]).log = ["eval u"] ∧
    hasKind {} defNode.d.attrs (· == .define) = true ∧ AttrsOk {} toyEnv 20 0 emptyNc defNode [("u", "t")] ∧
    (refFrag { maxDepth := 0 } toyEnv 20 0 emptyNc fragT []).st = .err .tooDeep ∧
    (refFrag {} toyEnv 20 0 (setNc emptyNc 7 true) fragT []).out = ["<b>F</b>"] := by
  unfold AttrsOk; decide +kernel

example : toyEnv.tpl "frag" = some fragT ∧ toyEnv.tpl "nope" = none := ⟨rfl, rfl⟩

/-! ## C03 (a), (c) — conditional chains render exactly the first true branch

`Chain cfg ks`: the sibling list `ks` starts with an `if` element and continues with else-family elements, each naming
the previous element as its previous sibling tag, with only non-tag siblings in between. `chainRun` is the abstract
semantics (ChainSpec): a satisfied-so-far flag, reset by the `if`. -/

theorem leaf_node (cfg : Cfg) (env : Env Sc) (g depth : Nat) (nc : NC) (k : Node) (sc : Sc)
    (hk : k.d.kind ≠ .tag) (hl : k.kids = []) :
    refNode cfg env (g + 2) depth nc k sc = Q.okQ (sibChunks k) nc := by
  rw [refNode_nontag _ _ _ _ _ _ _ hk, hl]
  simp [refKids, sibChunks, hk, Q.andThen, Q.okQ]

/-- a run over a non-empty sibling list that does not run out of fuel has fuel ≥ 2 -/
theorem fuel_ge_two (cfg : Cfg) (env : Env Sc) (F depth : Nat) (nc : NC) (k : Node) (ks : List Node) (sc : Sc)
    (hf : (refKids cfg env F depth nc (k :: ks) sc).st ≠ .fuel) : ∃ g, F = g + 2 := by
  match F with
  | 0 => exact absurd (by simp [refKids]) hf
  | 1 => exact absurd (by simp [refKids, refNode, Q.andThen]) hf
  | g + 2 => exact ⟨g, rfl⟩

/-- C03, ChainSpec is what the specification computes on a chain: the `prevTag`/recorded-condition mechanism equals
    the flag semantics, from `sat = false`, whatever conditions were recorded before. -/
theorem chain_refines_spec (cfg : Cfg) (env : Env Sc) (F depth : Nat) (nc : NC) (ks : List Node) (sc : Sc)
    (hch : Chain cfg ks) (hf : (refKids cfg env F depth nc ks sc).st ≠ .fuel) :
    refKids cfg env F depth nc ks sc =
      chainRun cfg env (fun nc k => refNode cfg env F depth nc k sc) (fun nc k sc1 => refRest cfg env (F - 1) depth nc k sc1)
        sc false nc ks := by
  rw [refKids_unf cfg env F depth nc ks sc hf]
  obtain ⟨g, rfl⟩ : ∃ g, F = g + 2 := by
    cases hch with
    | mk e ks' _ _ _ _ _ _ _ => exact fuel_ge_two cfg env F depth nc e ks' sc hf
  exact kidsRun_chain cfg env _ _ sc (fun nc k hk => refNode_tag cfg env (g + 1) depth nc k sc hk)
    (fun nc k => (frame cfg env (g + 2)).node depth nc k sc)
    (fun nc k sc1 => refRest_keeps cfg env (g + 1) depth nc k sc1) ks hch nc

/-- C03(a) `chain_first_true`. In a chain `pre ++ e :: post` in which the conditions of the elements of `pre` evaluate to
    strings other than "true" and that of `e` to "true": exactly `e` is rendered (its body is one chunk), every other
    element contributes the single empty chunk, text/comment leaves in between are printed; the log is, in sibling
    order, `with` + condition events of the elements of `pre`, `with` + condition + body events of `e`, and ONLY the
    `with` events of the elements of `post` — conditions after the selected element are not evaluated. If the body
    fails, that failure is the result and nothing after it runs. -/
theorem chain_first_true (cfg : Cfg) (env : Env Sc) (F depth : Nat) (nc : NC) (sc : Sc)
    (pre post : List Node) (e : Node) (ev : ElemEval Sc)
    (hch : Chain cfg (pre ++ e :: post)) (hf : (refKids cfg env F depth nc (pre ++ e :: post) sc).st ≠ .fuel)
    (hpre : AllFalse cfg env sc pre) (hk : e.d.kind = .tag) (hev : elemEval cfg env sc e = some ev)
    (hv : (ev.v == "true") = true) (hpost : AllWith cfg env sc post) :
    let body := refRest cfg env (F - 1) depth (setNc (ncMark false nc pre) e.d.id true) e ev.sc1
    refKids cfg env F depth nc (pre ++ e :: post) sc =
      if body.st = .ok then
        { st := .ok,
          out := pre.flatMap sibChunks ++ ([String.join body.out] ++ post.flatMap sibChunks),
          log := pre.flatMap (falseLog cfg env sc) ++ (ev.lw ++ (ev.lc ++ body.log) ++ post.flatMap (withLog cfg env sc)),
          nc := ncMark true body.nc post }
      else
        { st := body.st, out := pre.flatMap sibChunks ++ [],
          log := pre.flatMap (falseLog cfg env sc) ++ (ev.lw ++ (ev.lc ++ body.log)), nc := body.nc } := by
  intro body
  rw [chain_refines_spec cfg env F depth nc _ sc hch hf]
  obtain ⟨g, rfl⟩ : ∃ g, F = g + 2 := by
    cases hpre' : pre with
    | nil => rw [hpre'] at hf; exact fuel_ge_two cfg env F depth nc e post sc hf
    | cons p ps => rw [hpre'] at hf; exact fuel_ge_two cfg env F depth nc p (ps ++ e :: post) sc hf
  exact chainRun_first_true cfg env _ _ sc (fun nc k hk hl => leaf_node cfg env g depth nc k sc hk hl)
    pre post e ev nc hpre hk hev hv hpost

/-- C03(a), no branch true: every element of the chain contributes the empty chunk; all conditions are evaluated. -/
theorem chain_none_true (cfg : Cfg) (env : Env Sc) (F depth : Nat) (nc : NC) (sc : Sc) (ks : List Node)
    (hch : Chain cfg ks) (hf : (refKids cfg env F depth nc ks sc).st ≠ .fuel) (h : AllFalse cfg env sc ks) :
    refKids cfg env F depth nc ks sc =
      { st := .ok, out := ks.flatMap sibChunks, log := ks.flatMap (falseLog cfg env sc), nc := ncMark false nc ks } := by
  rw [chain_refines_spec cfg env F depth nc _ sc hch hf]
  obtain ⟨g, rfl⟩ : ∃ g, F = g + 2 := by
    cases hch with
    | mk e ks' _ _ _ _ _ _ _ => exact fuel_ge_two cfg env F depth nc e ks' sc hf
  exact chainRun_none_true cfg env _ _ sc (fun nc k hk hl => leaf_node cfg env g depth nc k sc hk hl) ks nc h

/-- C03(c) `unselected_evaluates_only_with`, element level. An element with a condition attribute whose chain is
    already satisfied evaluates its `with` assignment and nothing else (the log is `lw`), writes the empty chunk and
    records `true`. -/
theorem unselected_after_evaluates_only_with (cfg : Cfg) (env : Env Sc) (f depth : Nat) (nc : NC) (node : Node) (sc sc1 : Sc)
    (lw : List String) (ca : CAttr) (isIf : Bool) (v : String)
    (hk : node.d.kind = .tag) (hw : withPhase cfg env node.d sc = (.ok sc1, lw))
    (hc : condAttr cfg node.d.attrs = some (ca, isIf)) (hv : ca.value = some v)
    (hs : satBefore isIf node.d nc = some true)
    (hf : (refNode cfg env f depth nc node sc).st ≠ .fuel) :
    refNode cfg env f depth nc node sc = { st := .ok, out := [""], log := lw ++ [], nc := setNc nc node.d.id true } := by
  rw [refNode_unf_tag cfg env f depth nc node sc hk hf, tagPhases_cond cfg env hw hc hv, hs]
  rfl

/-- C03(c), an element whose chain is not yet satisfied and whose condition is not "true": `with` events, then the
    condition events, nothing else; empty chunk; records `false`. -/
theorem unselected_before_evaluates_with_and_cond (cfg : Cfg) (env : Env Sc) (f depth : Nat) (nc : NC) (node : Node) (sc sc1 : Sc)
    (lw lc : List String) (ca : CAttr) (isIf : Bool) (v cv : String)
    (hk : node.d.kind = .tag) (hw : withPhase cfg env node.d sc = (.ok sc1, lw))
    (hc : condAttr cfg node.d.attrs = some (ca, isIf)) (hv : ca.value = some v)
    (hs : satBefore isIf node.d nc = some false)
    (hE : env.evalStr ca sc1 = (.ok cv, lc)) (hcv : (cv == "true") = false)
    (hf : (refNode cfg env f depth nc node sc).st ≠ .fuel) :
    refNode cfg env f depth nc node sc = { st := .ok, out := [""], log := lw ++ lc, nc := setNc nc node.d.id false } := by
  rw [refNode_unf_tag cfg env f depth nc node sc hk hf, tagPhases_cond cfg env hw hc hv, hs]
  simp only [chainStep, evalCondQ, hE, hcv, Bool.false_eq_true, if_false]
  rfl

/-- C03: a failing condition is the failure of the element; the body is not rendered. -/
theorem cond_error_propagates (cfg : Cfg) (env : Env Sc) (f depth : Nat) (nc : NC) (node : Node) (sc sc1 : Sc)
    (lw lc : List String) (ca : CAttr) (isIf : Bool) (v : String) (c : Cls)
    (hk : node.d.kind = .tag) (hw : withPhase cfg env node.d sc = (.ok sc1, lw))
    (hc : condAttr cfg node.d.attrs = some (ca, isIf)) (hv : ca.value = some v)
    (hs : satBefore isIf node.d nc = some false)
    (hE : env.evalStr ca sc1 = (.error c, lc))
    (hf : (refNode cfg env f depth nc node sc).st ≠ .fuel) :
    refNode cfg env f depth nc node sc = { st := .err c, out := [], log := lw ++ lc, nc := nc } := by
  rw [refNode_unf_tag cfg env f depth nc node sc hk hf, tagPhases_cond cfg env hw hc hv, hs]
  simp only [chainStep, evalCondQ, hE]
  rfl


/-- C03(c) `unselected_evaluates_only_with`. An unselected chain element — its chain is already satisfied (`sat = true`),
    or it is not and its own condition evaluates to something else than "true" — writes the single empty chunk and its
    log consists of its `with` events, followed by its condition's events iff no earlier element was satisfied.
    Nothing else of the element (range, text, attributes, fragments, children) is evaluated. -/
theorem unselected_evaluates_only_with (cfg : Cfg) (env : Env Sc) (f depth : Nat) (nc : NC) (node : Node) (sc sc1 : Sc)
    (lw lc : List String) (ca : CAttr) (isIf sat : Bool) (v cv : String)
    (hk : node.d.kind = .tag) (hw : withPhase cfg env node.d sc = (.ok sc1, lw))
    (hc : condAttr cfg node.d.attrs = some (ca, isIf)) (hv : ca.value = some v)
    (hs : satBefore isIf node.d nc = some sat)
    (hE : sat = false → env.evalStr ca sc1 = (.ok cv, lc) ∧ (cv == "true") = false)
    (hf : (refNode cfg env f depth nc node sc).st ≠ .fuel) :
    refNode cfg env f depth nc node sc =
      { st := .ok, out := [""], log := lw ++ (if sat then [] else lc), nc := setNc nc node.d.id sat } := by
  cases sat with
  | true => exact unselected_after_evaluates_only_with cfg env f depth nc node sc sc1 lw ca isIf v hk hw hc hv hs hf
  | false =>
    obtain ⟨h1, h2⟩ := hE rfl
    exact unselected_before_evaluates_with_and_cond cfg env f depth nc node sc sc1 lw lc ca isIf v cv hk hw hc hv hs h1 h2 hf

/-! ### examples for C03 -/

deriving instance DecidableEq for ElemEval

/-- decidable form of `AllFalse` -/
def allFalseB (cfg : Cfg) (env : Env Sc) (sc : Sc) (ks : List Node) : Bool :=
  ks.all fun k => if k.d.kind = .tag then ((elemEval cfg env sc k).map fun ev => ev.v == "true") == some false
    else k.kids.isEmpty

theorem allFalse_of_B {cfg : Cfg} {env : Env Sc} {sc : Sc} {ks : List Node} (h : allFalseB cfg env sc ks = true) :
    AllFalse cfg env sc ks := by
  intro k hk
  have := List.all_eq_true.mp h k hk
  constructor
  · intro ht
    simp only [ht, if_true] at this
    cases he : elemEval cfg env sc k with
    | none => simp [he] at this
    | some ev => exact ⟨ev, rfl, by simpa [he] using this⟩
  · intro ht
    simp only [ht, if_false] at this
    simpa using this

/-- decidable form of `AllWith` -/
def allWithB (cfg : Cfg) (env : Env Sc) (sc : Sc) (ks : List Node) : Bool :=
  ks.all fun k => if k.d.kind = .tag then (match (withPhase cfg env k.d sc).1 with | .ok _ => true | _ => false)
    else k.kids.isEmpty

theorem allWith_of_B {cfg : Cfg} {env : Env Sc} {sc : Sc} {ks : List Node} (h : allWithB cfg env sc ks = true) :
    AllWith cfg env sc ks := by
  intro k hk
  have := List.all_eq_true.mp h k hk
  constructor
  · intro ht
    simp only [ht, if_true] at this
    cases hw : withPhase cfg env k.d sc with
    | mk e lw =>
      cases e with
      | error c => simp [hw] at this
      | ok sc1 => exact ⟨sc1, lw, rfl⟩
  · intro ht
    simp only [ht, if_false] at this
    simpa using this

def ifN : Node := el 1 "p" [at_ ":if" "a"] [txt 2 "A"]
def elifN : Node := el 4 "p" [at_ ":elif" "b"] [txt 5 "B"] (some 1)
def elseN : Node := el 7 "p" [at_ ":else" "T"] [txt 8 "C"] (some 4)
def chainKids : List Node := [ifN, txt 3 " ", elifN, txt 6 "\n", elseN]
def chainSc : TSc := [("a", "no"), ("b", "true"), ("T", "true")]

theorem chainKids_chain : Chain {} chainKids :=
  Chain.mk ifN _ (at_ ":if" "a") "a" (by decide +kernel) (by decide +kernel) rfl (by decide +kernel)
    (ChainTail.skip 1 _ _ (by decide +kernel) (by decide +kernel)
      (ChainTail.elem 1 elifN _ (at_ ":elif" "b") "b" (by decide +kernel) rfl (by decide +kernel) rfl (by decide +kernel)
        (ChainTail.skip 4 _ _ (by decide +kernel) (by decide +kernel)
          (ChainTail.elem 4 elseN _ (at_ ":else" "T") "T" (by decide +kernel) rfl (by decide +kernel) rfl (by decide +kernel)
            (ChainTail.nil 7)))))

/-- `if` false, `elif` true, `else` not evaluated (no "eval T" in the log) -/
example : chainKids = [ifN, txt 3 " "] ++ elifN :: [txt 6 "\n", elseN] := rfl

example : (refKids {} toyEnv 20 0 emptyNc chainKids chainSc).out = ["", " ", "<p>B</p>", "\n", ""] ∧
    (refKids {} toyEnv 20 0 emptyNc chainKids chainSc).log = ["eval a", "eval b"] ∧
    (refKids {} toyEnv 20 0 emptyNc chainKids chainSc).st ≠ .fuel ∧
    allFalseB {} toyEnv chainSc [ifN, txt 3 " "] = true ∧
    elemEval {} toyEnv chainSc elifN = some ⟨chainSc, [], "true", ["eval b"]⟩ ∧
    allWithB {} toyEnv chainSc [txt 6 "\n", elseN] = true ∧
    -- all false: every element gives the empty chunk
    (refKids {} toyEnv 20 0 emptyNc chainKids [("a", "no"), ("b", "no"), ("T", "no")]).out = ["", " ", "", "\n", ""] ∧
    (refKids {} toyEnv 20 0 emptyNc chainKids [("a", "no"), ("b", "no"), ("T", "no")]).log = ["eval a", "eval b", "eval T"] ∧
    allFalseB {} toyEnv [("a", "no"), ("b", "no"), ("T", "no")] chainKids = true ∧
    -- first true: the others are not evaluated
    (refKids {} toyEnv 20 0 emptyNc chainKids [("a", "true")]).out = ["<p>A</p>", " ", "", "\n", ""] ∧
    (refKids {} toyEnv 20 0 emptyNc chainKids [("a", "true")]).log = ["eval a"] := by
  decide +kernel

/-! ## C12 — failures propagate, rendering stops, the output written so far is a prefix -/

/-- C12 `error_stops_render`. In a sibling list `pre ++ k :: post`: if the children `pre` succeed and `k` fails, the
    result is that failure; the chunks are those of `pre` followed by the partial chunks of `k`, the events likewise;
    the children after `k` contribute nothing — neither chunks nor events (they are not rendered at all).
    (`kidsRun (refNode F) nc pre` is the run over the prefix; it equals `refKids F … pre` when that has fuel.) -/
theorem error_stops_render (cfg : Cfg) (env : Env Sc) (F depth : Nat) (nc : NC) (sc : Sc) (pre post : List Node) (k : Node)
    (hf : (refKids cfg env F depth nc (pre ++ k :: post) sc).st ≠ .fuel)
    (hpre : (kidsRun (fun nc k => refNode cfg env F depth nc k sc) nc pre).st = .ok)
    (hk : (refNode cfg env F depth (kidsRun (fun nc k => refNode cfg env F depth nc k sc) nc pre).nc k sc).st ≠ .ok) :
    let p := kidsRun (fun nc k => refNode cfg env F depth nc k sc) nc pre
    let q := refNode cfg env F depth p.nc k sc
    refKids cfg env F depth nc (pre ++ k :: post) sc =
      { st := q.st, out := p.out ++ q.out, log := p.log ++ q.log, nc := q.nc } := by
  intro p q
  rw [refKids_unf cfg env F depth nc _ sc hf]
  exact kidsRun_fail _ pre post k nc hpre hk

/-- … in particular the result does not depend on the siblings after the failing one -/
theorem error_stops_render_indep (cfg : Cfg) (env : Env Sc) (F depth : Nat) (nc : NC) (sc : Sc) (pre post post' : List Node)
    (k : Node)
    (hf : (refKids cfg env F depth nc (pre ++ k :: post) sc).st ≠ .fuel)
    (hf' : (refKids cfg env F depth nc (pre ++ k :: post') sc).st ≠ .fuel)
    (hpre : (kidsRun (fun nc k => refNode cfg env F depth nc k sc) nc pre).st = .ok)
    (hk : (refNode cfg env F depth (kidsRun (fun nc k => refNode cfg env F depth nc k sc) nc pre).nc k sc).st ≠ .ok) :
    refKids cfg env F depth nc (pre ++ k :: post) sc = refKids cfg env F depth nc (pre ++ k :: post') sc := by
  rw [error_stops_render cfg env F depth nc sc pre post k hf hpre hk,
    error_stops_render cfg env F depth nc sc pre post' k hf' hpre hk]

/-- C12, local form: what a step wrote stays a prefix of the output whatever follows, and when the step fails
    nothing is added -/
theorem step_output_is_prefix (r : Q) (k : NC → Q) :
    r.out <+: (r.andThen k).out ∧ (r.st ≠ .ok → r.andThen k = r) :=
  ⟨Q.andThen_out_prefix r k, fun h => Q.andThen_not_ok k h⟩

/-- C12 `output_is_prefix`. Let `env'` agree with `env` wherever `env` succeeds (so `env'` is `env` with some failing
    evaluations made to succeed, `EnvLe`). Then a successful render under `env` is reproduced exactly under `env'`,
    and what a FAILED render under `env` has written is a prefix (chunk-wise) of what the render under `env'`
    writes. -/
theorem output_is_prefix (cfg : Cfg) (env env' : Env Sc) (hE : EnvLe env env') (fuel : Nat) (root : Node) (sc : Sc)
    (hf : (refExecute cfg env fuel root sc).st ≠ .fuel) :
    ((refExecute cfg env fuel root sc).st = .ok → refExecute cfg env' fuel root sc = refExecute cfg env fuel root sc) ∧
    (refExecute cfg env fuel root sc).out <+: (refExecute cfg env' fuel root sc).out := by
  have h := (envLe_all cfg hE fuel).node 0 emptyNc root sc
  exact ⟨h.1, h.2 hf⟩

/-- the same for the text: the concatenated output of the failed run is a prefix of the other one's -/
theorem output_text_is_prefix (cfg : Cfg) (env env' : Env Sc) (hE : EnvLe env env') (fuel : Nat) (root : Node) (sc : Sc)
    (hf : (refExecute cfg env fuel root sc).st ≠ .fuel) :
    (String.join (refExecute cfg env fuel root sc).out).toList <+:
      (String.join (refExecute cfg env' fuel root sc).out).toList := by
  obtain ⟨t, ht⟩ := (output_is_prefix cfg env env' hE fuel root sc hf).2
  rw [← ht, String.join_append, String.toList_append]
  exact List.prefix_append _ _

/-- `env` with one evaluation replaced -/
def patchEval [DecidableEq Sc] (env : Env Sc) (a0 : CAttr) (s0 : Sc) (r : Except Cls String × List String) : Env Sc :=
  { env with evalStr := fun a s => if a = a0 ∧ s = s0 then r else env.evalStr a s }

/-- making ONE failing evaluation succeed gives an environment above the original one -/
theorem envLe_patchEval [DecidableEq Sc] (env : Env Sc) (a0 : CAttr) (s0 : Sc) (r : Except Cls String × List String)
    (c : Cls) (lg : List String) (h : env.evalStr a0 s0 = (.error c, lg)) : EnvLe env (patchEval env a0 s0 r) := by
  refine ⟨?_, fun _ _ _ _ h => h, fun _ _ _ _ h => h, fun _ => rfl⟩
  intro a s v lg' hv
  simp only [patchEval]
  split
  · rename_i hc; rw [hc.1, hc.2, h] at hv; cases hv
  · exact hv

/-! ### examples for C12 -/

def failKids : List Node := [txt 1 "a", el 2 "p" [at_ ":text" "x"] [], txt 3 "b"]

/-- the evaluation of `x` fails: the output stops after the start tag of `<p>`; with `x` bound the failed output is a
    prefix of the complete one -/
example : (refKids {} toyEnv 20 0 emptyNc failKids []).st = .err (.eval false true) ∧
    (refKids {} toyEnv 20 0 emptyNc failKids []).out = ["a", "<p>"] ∧
    (refKids {} toyEnv 20 0 emptyNc failKids []).log = ["eval x"] ∧
    (refKids {} toyEnv 20 0 emptyNc failKids [("x", "v")]).out = ["a", "<p>", "v", "</p>", "b"] ∧
    (kidsRun (fun nc k => refNode {} toyEnv 20 0 nc k []) emptyNc [txt 1 "a"]).st = .ok ∧
    (refNode {} toyEnv 20 0 (kidsRun (fun nc k => refNode {} toyEnv 20 0 nc k []) emptyNc [txt 1 "a"]).nc
      (el 2 "p" [at_ ":text" "x"] []) []).st ≠ .ok ∧
    (refExecute {} toyEnv 20 (rootOf failKids) []).st ≠ .fuel ∧
    (toyEnv.evalStr (at_ ":text" "x") []).1 = .error (.eval false true) ∧
    (refExecute {} (patchEval toyEnv (at_ ":text" "x") [] (.ok "v", [])) 20 (rootOf failKids) []).out =
      ["", "a", "<p>", "v", "</p>", "b"] ∧
    (refExecute {} toyEnv 20 (rootOf failKids) []).out = ["", "a", "<p>"] := by
  decide +kernel

example : EnvLe toyEnv (patchEval toyEnv (at_ ":text" "x") [] (.ok "v", [])) :=
  envLe_patchEval toyEnv _ _ _ (.eval false true) ["eval x"] (by decide +kernel)

example : failKids = [txt 1 "a"] ++ el 2 "p" [at_ ":text" "x"] [] :: [txt 3 "b"] := rfl

/-! ## C16 — rendering is a pure function of template and data -/

/-- C16, the trivial half: `refExecute` (and the faithful `execute`) take no state — they are functions of
    configuration, environment (templates + evaluator), fuel, tree and data, and always start from the empty
    conditions (and, for `execute`, the empty re-entrancy marks). -/
theorem execute_is_function_of_inputs (cfg : Cfg) (env : Env Sc) (fuel : Nat) (root : Node) (sc : Sc) :
    refExecute cfg env fuel root sc = refNode cfg env fuel 0 emptyNc root sc ∧
    execute cfg env fuel root sc = exec cfg env fuel 0 emptyNc emptyFl root sc := ⟨rfl, rfl⟩

/-- C16, the meaningful half. The result of rendering a node depends on the incoming recorded conditions only through
    their values at `ownRead` (the previous-sibling-tag id, if the node itself is an else-family element) and at
    `ext` (ids read inside the subtree by else-family elements that do NOT follow a conditional sibling — empty for
    well-formed trees): two runs whose incoming conditions agree there have the same status, chunks and events, and
    their outgoing conditions agree wherever the incoming ones did. -/
theorem nc_dependence (cfg : Cfg) (env : Env Sc) (f depth : Nat) (nc1 nc2 : NC) (node : Node) (sc : Sc)
    (h : AgreeOn (ownRead cfg node.d ++ ext cfg node) nc1 nc2) :
    (refNode cfg env f depth nc1 node sc).st = (refNode cfg env f depth nc2 node sc).st ∧
    (refNode cfg env f depth nc1 node sc).out = (refNode cfg env f depth nc2 node sc).out ∧
    (refNode cfg env f depth nc1 node sc).log = (refNode cfg env f depth nc2 node sc).log ∧
    (∀ j, nc1 j = nc2 j → (refNode cfg env f depth nc1 node sc).nc j = (refNode cfg env f depth nc2 node sc).nc j) := by
  obtain ⟨s, _⟩ := (ncDep cfg env f).node depth nc1 nc2 node sc h
  exact ⟨s.st, s.out, s.log, s.nc⟩

/-- … for a tree in which every else-family element follows a conditional sibling (`ext = []`, a decidable syntactic
    condition), the node depends on the incoming conditions only through the record of its own previous sibling tag
    (and not at all unless it is itself an else-family element) -/
theorem depends_on_top_level_only (cfg : Cfg) (env : Env Sc) (f depth : Nat) (nc1 nc2 : NC) (node : Node) (sc : Sc)
    (hclosed : ext cfg node = []) (h : ∀ j ∈ ownRead cfg node.d, nc1 j = nc2 j) :
    (refNode cfg env f depth nc1 node sc).st = (refNode cfg env f depth nc2 node sc).st ∧
    (refNode cfg env f depth nc1 node sc).out = (refNode cfg env f depth nc2 node sc).out ∧
    (refNode cfg env f depth nc1 node sc).log = (refNode cfg env f depth nc2 node sc).log := by
  obtain ⟨h1, h2, h3, _⟩ := nc_dependence cfg env f depth nc1 nc2 node sc (by rw [hclosed, List.append_nil]; exact h)
  exact ⟨h1, h2, h3⟩

/-- the same for a sibling list rendered from the start -/
theorem kids_nc_dependence (cfg : Cfg) (env : Env Sc) (f depth : Nat) (nc1 nc2 : NC) (ks : List Node) (sc : Sc)
    (h : AgreeOn (extL cfg [] ks) nc1 nc2) :
    (refKids cfg env f depth nc1 ks sc).st = (refKids cfg env f depth nc2 ks sc).st ∧
    (refKids cfg env f depth nc1 ks sc).out = (refKids cfg env f depth nc2 ks sc).out ∧
    (refKids cfg env f depth nc1 ks sc).log = (refKids cfg env f depth nc2 ks sc).log := by
  have s := (ncDep cfg env f).kids depth nc1 nc2 [] ks sc (fun j hj => by cases hj) h
  exact ⟨s.st, s.out, s.log⟩

/-- C16, histories: conditions left behind by earlier executions are harmless. Rendering a well-formed tree from ANY
    conditions `nc` gives the status, output and events of a fresh `refExecute`. -/
theorem stale_conditions_harmless (cfg : Cfg) (env : Env Sc) (fuel : Nat) (root : Node) (sc : Sc) (nc : NC)
    (hroot : ownRead cfg root.d = []) (hclosed : ext cfg root = []) :
    (refNode cfg env fuel 0 nc root sc).st = (refExecute cfg env fuel root sc).st ∧
    (refNode cfg env fuel 0 nc root sc).out = (refExecute cfg env fuel root sc).out ∧
    (refNode cfg env fuel 0 nc root sc).log = (refExecute cfg env fuel root sc).log :=
  depends_on_top_level_only cfg env fuel 0 nc emptyNc root sc hclosed (by rw [hroot]; intro j hj; cases hj)

/-! ### examples for C16 -/

/-- the chain tree is well-formed: nothing is read from outside -/
example : ext {} (rootOf chainKids) = [] ∧ ownRead {} (rootOf chainKids).d = [] ∧
    -- stale records (here: everything "true") do not change the result
    (refNode {} toyEnv 20 0 (fun _ => some true) (rootOf chainKids) chainSc).out =
      (refExecute {} toyEnv 20 (rootOf chainKids) chainSc).out := by decide +kernel

/-- an else after a NON-conditional sibling reads the incoming record at that sibling's id (`ext = [1]`): here the
    hypothesis of `stale_conditions_harmless` fails and so does its conclusion -/
def orphan2 : Node := rootOf [el 1 "p" [] [], el 2 "p" [at_ ":else" "T"] [txt 3 "y"] (some 1)]
example : ext {} orphan2 = [1] ∧
    (refExecute {} toyEnv 20 orphan2 [("T", "true")]).st = .err .unexpectedElse ∧
    (refNode {} toyEnv 20 0 (setNc emptyNc 1 false) orphan2 [("T", "true")]).st = .ok := by decide +kernel

/-! ## instantiations: the hypotheses of the main theorems are jointly satisfiable on the concrete examples -/

example : True := by
  have := render_plain {} failEnv 20 plainTree () (by unfold Plain; decide +kernel) (by decide +kernel)
  trivial

example : True := by
  have := orphan_else_is_error {} toyEnv 5 0 emptyNc orphanNode [] [] [] (at_ ":else" "\"\"") "\"\""
    (by decide +kernel) (by decide +kernel) (by decide +kernel) rfl (by decide +kernel) (by decide +kernel)
  trivial

example : True := by
  have := range_once_per_item {} toyEnv 20 0 emptyNc rangeNode [("xs", "ab")] [("xs", "ab")] [] ["range xs"]
    (at_ ":range" "xs") "xs" [[("it", "a"), ("xs", "ab")], [("it", "b"), ("xs", "ab")]]
    (by decide +kernel) (by decide +kernel) (by decide +kernel) (by decide +kernel) rfl (by decide +kernel) (by decide +kernel)
  trivial

example : True := by
  have := remove_modes_exact {} toyEnv 20 0 emptyNc (rmNode "'all'") [] (by decide +kernel) (by unfold AttrsOk; decide +kernel)
  trivial

example : True := by
  have := insert_wraps {} toyEnv 20 0 emptyNc insNode [("f", "frag"), ("u", "/a&b")] [] [at_ ":href" "u", at_ "href" "\"old\""]
    (at_ ":insert" "f") "frag" ["eval f"] fragT (by decide +kernel) (by unfold AttrsOk; decide +kernel) rfl (by decide +kernel)
    (by intro x hx; cases hx) (by decide +kernel) (by decide +kernel) (by decide +kernel) (by decide +kernel)
    (by decide +kernel) rfl (by decide +kernel)
  trivial

example : True := by
  have := replace_substitutes {} toyEnv 20 0 emptyNc repNode [("f", "frag")] [] [at_ "href" "\"old\""]
    (at_ ":replace" "f") "frag" ["eval f"] fragT (by decide +kernel) (by unfold AttrsOk; decide +kernel) rfl (by decide +kernel)
    (by intro x hx; cases hx) (by decide +kernel) (by decide +kernel) rfl (by decide +kernel)
  trivial

example : True := by
  have := unknown_name_is_tplNotFound {} toyEnv 20 0 emptyNc repNode [("f", "nope")] [] [at_ "href" "\"old\""]
    (at_ ":replace" "f") "nope" ["eval f"] (by decide +kernel) rfl (by decide +kernel) (by decide +kernel) (by decide +kernel) rfl
  trivial

example : True := by
  have := chain_first_true {} toyEnv 20 0 emptyNc chainSc [ifN, txt 3 " "] [txt 6 "\n", elseN] elifN
    ⟨chainSc, [], "true", ["eval b"]⟩ chainKids_chain (by decide +kernel) (allFalse_of_B (by decide +kernel))
    (by decide +kernel) (by decide +kernel) rfl (allWith_of_B (by decide +kernel))
  trivial

example : True := by
  have := error_stops_render {} toyEnv 20 0 emptyNc [] [txt 1 "a"] [txt 3 "b"] (el 2 "p" [at_ ":text" "x"] [])
    (by decide +kernel) (by decide +kernel) (by decide +kernel)
  trivial

example : True := by
  have := output_is_prefix {} toyEnv (patchEval toyEnv (at_ ":text" "x") [] (.ok "v", []))
    (envLe_patchEval toyEnv _ _ _ (.eval false true) ["eval x"] (by decide +kernel)) 20 (rootOf failKids) [] (by decide +kernel)
  trivial

example : True := by
  have := stale_conditions_harmless {} toyEnv 20 (rootOf chainKids) chainSc (fun _ => some true)
    (by decide +kernel) (by decide +kernel)
  trivial

end RN.Props
