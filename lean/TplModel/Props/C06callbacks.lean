import TplModel.Props.Callbacks
/-! # C06 — the concrete `Attr.WithAssign` + Combine and the item scopes of a range: what a name resolves to after a binding

The theorems live in `Props/Callbacks.lean` (helpers in `Proofs/CallbackSpec.lean`); this file lists the ones C06 relies on.

OBLIGATIONS: Callbacks.withAssign_spec, Callbacks.withAssign_accepts_iff, Callbacks.withAssign_ok, Callbacks.withAssign_err, Callbacks.lookup_after_with, Callbacks.name_after_with, Callbacks.other_name_after_with, Callbacks.lookup_after_with_tree, Callbacks.lookup_in_item_scope, Callbacks.item_var_evaluates, Callbacks.index_var_evaluates, Callbacks.outer_var_evaluates -/
