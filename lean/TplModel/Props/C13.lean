import TplModel.Props.C06
/-! # C13 — member, index and slice access agree with the Go value

OBLIGATIONS: C06.getValue_absent_cases, C06.getValue_map_found, C06.getValue_map_ne_failed, C06.getValue_absent_cases_nil, C06.getValue_struct_cases, C06.getValue_nilptr_cases, C06.getValue_slice_ne_absent

Interim: the lookup facts proved for C06 (maps: found for the first binding / absent otherwise, never failed;
nil: absent; structs: method, exported field, unexported ⇒ failed, missing ⇒ absent; nil pointers; slices never
answer `absent`). The comparison with an independent specification of Go's native operations (`Walk`) and the slice
bounds theorems are task T19; ./check C13 judges the implementation against a typed native walker meanwhile. -/
